#!/bin/sh
# Build a private copy of the OCaml runner for component development.
#   tools/mkrunner.sh <outdir> <Extract.v> '<name> <Module.value>' ['<name2> <Module2.value2>' ...]
# <Extract.v> is a Coq file doing "Separate Extraction ..." of the component values (see coq/theories/Extract/Extract.v).
# The .vo files it requires must already be compiled (coqc -Q /verif/coq/theories Verif <file>).
set -e
OUT=$1; EX=$(realpath "$2"); shift 2
mkdir -p "$OUT/gen"
cp /verif/runner/driver.ml /verif/runner/dune /verif/runner/dune-project "$OUT/"
{
  echo 'let components : (string * Generic.component) list = ['
  for pair in "$@"; do set -- $pair; echo "  (\"$1\", $2);"; done
  echo ']'
} > "$OUT/registry.ml"
cd "$OUT/gen" && rm -f *.ml *.mli && coqc -Q /verif/coq/theories Verif "$EX"
cd "$OUT" && dune build --profile release ./driver.exe 2>&1 | tail -20
echo "$OUT/_build/default/driver.exe"
