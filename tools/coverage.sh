#!/bin/sh
# Statement coverage of /repo's packages under the quick checks (a measure of the generators' reach, used to find
# code the correspondence never executes).  tools/coverage.sh [C01 C02 ...]   -> /tmp/scratch/cover/{profile.txt,uncovered.txt}
set -e
export GOFLAGS=-mod=mod GOPROXY=off GOSUMDB=off GOTOOLCHAIN=local
OUT=/tmp/scratch/cover; rm -rf "$OUT"; mkdir -p "$OUT/raw"
PROPS="$@"; [ -z "$PROPS" ] && PROPS="C01 C02 C03 C04 C05 C06 C07 C08 C09 C10 C11 C12 C13 C14 C15 C16 C17 C18 C19 C20"
cd /verif
for P in $PROPS; do
  VERIF_COVER=1 GOCOVERDIR="$OUT/raw" ./check $P --tier quick 2>&1 | grep -v KNOWN-FINDING | tail -1
done
# the race and the plain binary have different counter modes: convert per binary (meta file), then merge
for m in $(ls "$OUT/raw" | grep '^covmeta\.' | sed 's/covmeta\.//'); do
  mkdir -p "$OUT/raw_$m"; mv "$OUT"/raw/*"$m"* "$OUT/raw_$m"/
  go tool covdata textfmt -i="$OUT/raw_$m" -o "$OUT/prof_$m.txt"
done
python3 - "$OUT" > "$OUT/summary.txt" <<'PY'
import sys,collections,glob
out=sys.argv[1]
cov=collections.defaultdict(int); nst={}
for f in glob.glob(out+'/prof_*.txt'):
    for l in open(f):
        if l.startswith('mode:'): continue
        loc,n,c=l.rsplit(' ',2)
        cov[loc]=max(cov[loc],int(c)); nst[loc]=int(n)
pre='github.com/multiversx/mx-chain-storage-go/'
tot=collections.defaultdict(lambda:[0,0]); byfile=collections.defaultdict(list)
for loc,c in cov.items():
    f,r=loc.split(':')
    if not f.startswith(pre) or '/testscommon' in f: continue
    f=f[len(pre):]
    tot[f][1]+=nst[loc]
    if c>0: tot[f][0]+=nst[loc]
    else: byfile[f].append(r)
T=[0,0]
for f in sorted(tot):
    T[0]+=tot[f][0]; T[1]+=tot[f][1]
    print("%5.1f%% %4d/%4d %s"%(100*tot[f][0]/max(1,tot[f][1]),tot[f][0],tot[f][1],f))
print("TOTAL %.1f%% %d/%d"%(100*T[0]/T[1],T[0],T[1]))
with open(out+'/uncovered.txt','w') as o:
    for f in sorted(byfile):
        o.write(f+'\n')
        for r in sorted(byfile[f], key=lambda r:[int(x) for x in r.replace(',','.').split('.')]): o.write('    '+r+'\n')
PY
# restore the plain binaries
rm -f /verif/harness/bin/harness /verif/harness/bin/harness-race
cat "$OUT/summary.txt"; echo "per-file summary: $OUT/summary.txt ; uncovered blocks: $OUT/uncovered.txt"
