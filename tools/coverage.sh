#!/bin/sh
# Statement coverage of /repo's packages under the quick checks (a measure of the generators' reach, used to find
# code the correspondence never executes).  tools/coverage.sh [C01 C02 ...]   -> /tmp/scratch/cover/{profile.txt,uncovered.txt}
set -e
export GOFLAGS=-mod=mod GOPROXY=off GOSUMDB=off GOTOOLCHAIN=local
OUT=/tmp/scratch/cover; rm -rf "$OUT"; mkdir -p "$OUT/raw"
PROPS="$@"; [ -z "$PROPS" ] && PROPS="C01 C02 C03 C04 C05 C06 C07 C08 C09 C10 C11 C12 C13 C14 C15 C16 C17 C18 C19 C20"
cd /verif
for P in $PROPS; do
  VERIF_COVER=1 GOCOVERDIR="$OUT/raw" ./check $P --tier quick 2>&1 | grep -v KNOWN-FINDING | tail -1
done
go tool covdata textfmt -i="$OUT/raw" -o "$OUT/profile.txt"
( cd /repo && go tool cover -func="$OUT/profile.txt" ) > "$OUT/func.txt" || true
python3 - "$OUT/profile.txt" > "$OUT/uncovered.txt" <<'PY'
import sys,collections
cov=collections.defaultdict(int)
for l in open(sys.argv[1]):
    if l.startswith('mode:'): continue
    loc,n,c=l.rsplit(' ',2)
    cov[loc]=max(cov[loc],int(c))
byfile=collections.defaultdict(list)
for loc,c in cov.items():
    f,r=loc.split(':')
    if c==0 and '/testscommon' not in f and f.startswith('github.com/multiversx/mx-chain-storage-go/'): byfile[f].append(r)
for f in sorted(byfile):
    print(f)
    for r in sorted(byfile[f], key=lambda r:[int(x) for x in r.replace(',','.').split('.')]): print('   ',r)
PY
# restore the plain binaries
rm -f /verif/harness/bin/harness /verif/harness/bin/harness-race
echo "profile: $OUT/profile.txt ; uncovered blocks: $OUT/uncovered.txt ; per function: $OUT/func.txt"
