#!/usr/bin/env python3
"""Markdown table of the seeded changes (seeded/*/meta.json) for DESIGN.md §11."""
import os as _os
ROOT = _os.path.dirname(_os.path.dirname(_os.path.abspath(__file__)))
import json, glob, os
rows = []
for d in sorted(glob.glob(ROOT + "/seeded/*")):
    try:
        m = json.load(open(d + "/meta.json"))
    except Exception:
        continue
    ok = m.get("confirmed", {})
    conf = "yes" if all(ok.get(k) for k in ("existing_tests_pass_with_change", "demo_fails_with_change", "demo_passes_without_change")) else "partly: %s" % ok
    rows.append((os.path.basename(d), m.get("property", ""), (m.get("summary", "") or "").replace("|", "/")[:170], (m.get("needs", "") or "").replace("|", "/")[:150],
                 conf, ", ".join(m.get("caught_by", [])) or "MISSED"))
import sys
out = ["| seeded change | targets | what was changed (truncated; full text in seeded/<name>/meta.json) | needs | confirmed | quick checks that report it |", "|---|---|---|---|---|---|"]
for r in rows:
    out.append("| `%s` | %s | %s | %s | %s | %s |" % r)
out.append("")
out.append("%d seeded changes, %d reported by the check of the property they target, %d missed by every check run." % (
    len(rows), sum(1 for r in rows if r[1] in r[5].split(", ")), sum(1 for r in rows if r[5] == "MISSED")))
text = "\n".join(out)
if "--update" in sys.argv:
    B, E = "<!-- SEEDED_TABLE_BEGIN -->", "<!-- SEEDED_TABLE_END -->"
    d = open(ROOT + "/DESIGN.md").read()
    if "SEEDED_TABLE_PLACEHOLDER" in d:
        d = d.replace("SEEDED_TABLE_PLACEHOLDER", B + "\n" + E)
    a, b = d.index(B), d.index(E)
    d = d[:a] + B + "\n" + text + "\n" + d[b:]
    open(ROOT + "/DESIGN.md", "w").write(d)
else:
    print(text)
