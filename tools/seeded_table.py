#!/usr/bin/env python3
"""Markdown table of the seeded changes (seeded/*/meta.json) for DESIGN.md §11."""
import json, glob, os
rows = []
for d in sorted(glob.glob("/verif/seeded/*")):
    try:
        m = json.load(open(d + "/meta.json"))
    except Exception:
        continue
    ok = m.get("confirmed", {})
    conf = "yes" if all(ok.get(k) for k in ("existing_tests_pass_with_change", "demo_fails_with_change", "demo_passes_without_change")) else "partly: %s" % ok
    rows.append((os.path.basename(d), m.get("property", ""), (m.get("summary", "") or "").replace("|", "/")[:230], (m.get("needs", "") or "").replace("|", "/")[:200],
                 conf, ", ".join(m.get("caught_by", [])) or "MISSED"))
print("| seeded change | targets | what was changed | needs | confirmed | quick checks that report it |")
print("|---|---|---|---|---|---|")
for r in rows:
    print("| `%s` | %s | %s | %s | %s | %s |" % r)
