#!/usr/bin/env python3
"""Markdown table of the seeded changes (seeded/*/meta.json) for DESIGN.md §11."""
import os as _os
ROOT = _os.path.dirname(_os.path.dirname(_os.path.abspath(__file__)))
import json, glob, os, re
rows = []
try:
    FIRST = json.load(open(ROOT + "/seeded/first_pass_misses.json"))
except Exception:
    FIRST = {}
for d in sorted(glob.glob(ROOT + "/seeded/*")):
    try:
        m = json.load(open(d + "/meta.json"))
    except Exception:
        continue
    ok = m.get("confirmed", {})
    conf = "yes" if all(ok.get(k) for k in ("existing_tests_pass_with_change", "demo_fails_with_change", "demo_passes_without_change")) else "partly: %s" % ok
    rows.append((os.path.basename(d), m.get("property", ""), (m.get("summary", "") or "").replace("|", "/")[:170], (m.get("needs", "") or "").replace("|", "/")[:150],
                 conf, (", ".join(m.get("caught_by", [])) or "MISSED") + ((" — " + FIRST[os.path.basename(d)]) if os.path.basename(d) in FIRST else "")))
import sys
out = ["| seeded change | targets | what was changed (truncated; full text in seeded/<name>/meta.json) | needs | confirmed | quick checks that report it |", "|---|---|---|---|---|---|"]
for r in rows:
    out.append("| `%s` | %s | %s | %s | %s | %s |" % r)
out.append("")
out.append("%d seeded changes, %d reported by the check of the property they target, %d missed by every check run." % (
    len(rows), sum(1 for r in rows if r[1] in re.split(r"[, ]+", r[5].split(" — ")[0])), sum(1 for r in rows if r[5] == "MISSED")) + " %d of them were missed or reported only by a neighbouring property when first evaluated and are reported since the checks were strengthened (noted in the last column)." % sum(1 for r in rows if " — " in r[5]))
text = "\n".join(out)
if "--update" in sys.argv:
    B, E = "<!-- SEEDED_TABLE_BEGIN -->", "<!-- SEEDED_TABLE_END -->"
    d = open(ROOT + "/DESIGN.md").read()
    if "SEEDED_TABLE_PLACEHOLDER" in d:
        d = d.replace("SEEDED_TABLE_PLACEHOLDER", B + "\n" + E)
    a, b = d.index(B), d.index(E)
    d = d[:a] + B + "\n" + text + "\n" + d[b:]
    open(ROOT + "/DESIGN.md", "w").write(d)
else:
    print(text)
