#!/usr/bin/env python3
"""(Re)generate seeded/<name>/meta.json from agent_meta.json + ran.txt (written by tools/seed_eval.sh)."""
import os as _os
ROOT = _os.path.dirname(_os.path.dirname(_os.path.abspath(__file__)))
import json, os, re, glob
for d in sorted(x for x in glob.glob(ROOT + '/seeded/*') if os.path.isdir(x)):
    name = os.path.basename(d)
    am = {}
    try:
        am = json.load(open(d + '/agent_meta.json'))
    except Exception:
        pass
    ran = open(d + '/ran.txt').read() if os.path.exists(d + '/ran.txt') else ''
    verdicts = [l.strip() for l in ran.splitlines() if 'VIOLATION' in l or ' quick:' in l]
    caught = sorted({re.search(r'property=(C\d+)', l).group(1) for l in verdicts if 'VIOLATION' in l})
    demo = [f for f in os.listdir(d) if f.endswith('_test.go')]
    pre = ran.split("--- demo WITH")[0]
    with_ = ran.split("--- demo WITH")[1].split("--- demo WITHOUT")[0] if "--- demo WITH" in ran else ""
    without = ran.split("--- demo WITHOUT")[1].split("--- checks")[0] if "--- demo WITHOUT" in ran else ""
    meta = {"id": name, "property": am.get("property", name.split('-')[0]),
            "summary": am.get("summary", ""), "needs": am.get("needs", ""),
            "origin": "fresh sub-agent given only the property text and a scratch worktree of /repo (nothing from /verif)",
            "files": am.get("files", []),
            "confirmed": {"existing_tests_pass_with_change": ("ok" in pre and "FAIL" not in pre),
                          "demo_fails_with_change": "FAIL" in with_,
                          "demo_passes_without_change": ("ok" in without and "FAIL" not in without)},
            "demonstration": demo,
            "what_i_ran": "tools/seed_eval.sh (fresh scratch worktree of /repo: apply patch.diff, go build, go test of the touched packages, the demonstration with and "
                          "without the change; then tools/mutation_run.sh: ./check <props> --tier quick against a mutated copy, /repo itself untouched); log in ran.txt",
            "checks_run": verdicts, "caught_by": caught}
    json.dump(meta, open(d + '/meta.json', 'w'), indent=1)
    print(name, meta["confirmed"], caught)
