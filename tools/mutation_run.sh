#!/bin/sh
# Run checks against a MUTATED copy of /repo without touching /repo or /verif:
#   tools/mutation_run.sh <name> <patch-file> [-R] -- C01 C02 ...
# Creates /tmp/scratch/mut-<name>/{repo (git worktree of /repo HEAD), verif (rsync of /verif)}, applies the patch
# (with -R: reverse) in the repo copy, runs ./check for the listed properties there, prints the verdict lines,
# removes everything.
set -e
NAME=$1; PATCH=$(realpath "$2"); shift 2
REV=""; if [ "$1" = "-R" ]; then REV="-R"; shift; fi
[ "$1" = "--" ] && shift
D=/tmp/scratch/mut-$NAME
rm -rf "$D"; mkdir -p "$D"
git -C /repo worktree add -q --detach "$D/repo" HEAD
rsync -a --exclude .git --exclude replays --exclude evidence /verif/ "$D/verif/"
mkdir -p "$D/verif/evidence"
( cd "$D/repo" && patch -s $REV -p1 < "$PATCH" ) || { echo "PATCH-FAILED $NAME"; git -C /repo worktree remove --force "$D/repo"; rm -rf "$D"; exit 2; }
for P in "$@"; do
  ( cd "$D/verif" && VERIF_REPO="$D/repo" timeout 1500 ./check "$P" --tier quick 2>&1 | grep -v "^KNOWN-FINDING" | sed "s/^/[$NAME] /" | cut -c1-260 ) || true
done
if [ -n "$KEEP_REPLAYS" ]; then mkdir -p "$KEEP_REPLAYS"; cp "$D"/verif/replays/* "$KEEP_REPLAYS"/ 2>/dev/null || true; fi
git -C /repo worktree remove --force "$D/repo"
rm -rf "$D"
