#!/usr/bin/env python3
"""Record the fingerprints of every anchored source file of /repo (baseline for the escalation rule of ./check)."""
import sys, os, json, hashlib
ROOT = os.path.dirname(os.path.dirname(os.path.abspath(__file__)))
sys.path.insert(0, os.path.join(ROOT, "lib"))
from props import PROPS
out = {}
for p, spec in PROPS.items():
    for a in spec.get("anchors", []):
        fp = os.path.join("/repo", a)
        if os.path.exists(fp):
            out[a] = hashlib.sha256(open(fp, "rb").read()).hexdigest()[:16]
json.dump(out, open(os.path.join(ROOT, "lib", "fingerprints.json"), "w"), indent=1, sort_keys=True)
print(len(out), "files")
