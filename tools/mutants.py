#!/usr/bin/env python3
"""Mutation campaign: small syntactic mutants of the files the properties are anchored in, filtered by the repository's own
tests, then run through the quick checks of the properties anchored in the mutated file.  Everything happens on scratch
copies (one git worktree of /repo + one copy of /verif per worker, under /tmp/scratch/mutants); /repo and /verif are not touched.

  tools/mutants.py [--per-file N] [--workers W] [--seed S] [--files f1,f2,...] [--out /tmp/scratch/mutants/report.json]

A mutant that passes the repository's tests AND every check run is a SURVIVOR: either an equivalent mutant (the property still
holds: the checks are right to stay quiet) or a gap in the checks.  Survivors are listed for manual triage; nothing is decided here.
"""
import argparse, json, os, random, re, shutil, subprocess, sys, time
from concurrent.futures import ThreadPoolExecutor

ENV = dict(os.environ, GOFLAGS="-mod=mod", GOPROXY="off", GOSUMDB="off", GOTOOLCHAIN="local")
BASE = "/tmp/scratch/mutants"

def sh(cmd, cwd=None, timeout=None, env=None):
    try:
        p = subprocess.run(cmd, cwd=cwd, shell=True, stdout=subprocess.PIPE, stderr=subprocess.STDOUT, timeout=timeout, env=env or ENV)
        return p.returncode, p.stdout.decode("utf-8", "replace")
    except subprocess.TimeoutExpired as e:
        return 124, (e.stdout or b"").decode("utf-8", "replace") + "\nTIMEOUT"

OPS = [
    (r" < ", " <= "), (r" <= ", " < "), (r" > ", " >= "), (r" >= ", " > "), (r" == ", " != "), (r" != ", " == "),
    (r" && ", " || "), (r" \|\| ", " && "), (r" \+ 1\b", " + 0"), (r" - 1\b", " - 0"), (r"\+\+$", "--"),
    (r"return true$", "return false"), (r"return false$", "return true"), (r"\bbreak$", "continue"), (r"\bcontinue$", "break"),
]
SKIP_LINE = re.compile(r"^\s*//|log\w*\.|\.Debug\(|\.Trace\(|\.Warn\(|\.Error\(|fmt\.|errors\.New|IsInterfaceNil|check\.IfNil|^\s*(import|package|const|var|type)\b|err != nil|err == nil")
STMT = re.compile(r"^\s*(?:[A-Za-z_][\w\.\[\]]*\.(?:Add|Set|Reset|Increment|Decrement|Delete|Remove|Clear|Put|Lock|Unlock|RLock|RUnlock|MoveToFront|PushFront|PushBack|Store)\w*\(.*\)|delete\(.*\)|[\w\.]+ (?:\+=|-=) .*|[\w\.]+(?:\+\+|--))\s*$")

def sites(path):
    out = []
    lines = open(path).read().split("\n")
    in_skip_func = False
    for i, l in enumerate(lines):
        m = re.match(r"^func .*\b(String|Diagnose\w*|diagnose\w*|display\w*|marshal\w*)\(", l)
        if l.startswith("func "):
            in_skip_func = bool(m)
        if in_skip_func or SKIP_LINE.search(l):
            continue
        for pat, rep in OPS:
            for mm in re.finditer(pat, l):
                new = l[:mm.start()] + re.sub(pat, rep, l[mm.start():mm.end()]) + l[mm.end():]
                if new != l:
                    out.append((i, new, "%s -> %s" % (pat.replace("\\", ""), rep.strip())))
        if STMT.match(l) and "defer" not in l:
            out.append((i, re.sub(r"^(\s*)", r"\1// MUTANT-DELETED: ", l, count=1), "delete statement"))
    return lines, out

def anchors():
    m = {}
    for l in open("/verif/properties.jsonl"):
        p = json.loads(l)
        for f in p["anchors"]["files"]:
            if f.endswith(".go"):
                m.setdefault(f, []).append(p["id"])
    return m

def setup_worker(w):
    d = os.path.join(BASE, "w%d" % w)
    if os.path.exists(d):
        sh("git -C /repo worktree remove --force %s/repo" % d)
        shutil.rmtree(d, ignore_errors=True)
    os.makedirs(d)
    rc, out = sh("git -C /repo worktree add -q --detach %s/repo HEAD" % d)
    assert rc == 0, out
    rc, out = sh("rsync -a --exclude .git --exclude replays --exclude evidence /verif/ %s/verif/" % d)
    assert rc == 0, out
    os.makedirs(d + "/verif/evidence", exist_ok=True)
    return d

def run_mutant(w, d, mut):
    f, lineno, newline, descr, props = mut["file"], mut["line"], mut["new"], mut["descr"], mut["props"]
    path = os.path.join(d, "repo", f)
    orig = open(path).read()
    lines = orig.split("\n")
    mut["old"] = lines[lineno].strip()
    lines[lineno] = newline
    res = dict(mut)
    try:
        open(path, "w").write("\n".join(lines))
        pkg = "./" + os.path.dirname(f) + "/"
        rc, out = sh("go build ./... && go vet %s" % pkg, cwd=d + "/repo", timeout=300)
        if rc != 0:
            res["status"] = "does-not-compile"
            return res
        t0 = time.time()
        rc, out = sh("go test -count=1 -timeout 240s %s" % pkg, cwd=d + "/repo", timeout=400)
        res["tests_s"] = round(time.time() - t0, 1)
        if rc != 0:
            res["status"] = "killed-by-existing-tests"
            return res
        res["status"] = "survived"
        res["checks"] = {}
        for p in props:
            env = dict(ENV, VERIF_REPO=d + "/repo", VERIF_NO_INCOQ="1")
            rc, out = sh("timeout 900 ./check %s --tier quick" % p, cwd=d + "/verif", timeout=1000, env=env)
            v = [l for l in out.splitlines() if l.startswith("VIOLATION")]
            res["checks"][p] = (v[0][:200] if v else ("exit %d" % rc if rc != 0 else "quiet"))
            if v or rc != 0:
                res["status"] = "caught"
                res["caught_by"] = p
                break
        return res
    finally:
        open(path, "w").write(orig)

def main():
    ap = argparse.ArgumentParser()
    ap.add_argument("--per-file", type=int, default=8)
    ap.add_argument("--workers", type=int, default=5)
    ap.add_argument("--seed", type=int, default=1)
    ap.add_argument("--files", default="")
    ap.add_argument("--out", default=BASE + "/report.json")
    a = ap.parse_args()
    rng = random.Random(a.seed)
    anc = anchors()
    files = [f for f in (a.files.split(",") if a.files else sorted(anc)) if f in anc]
    muts = []
    for f in files:
        lines, ss = sites("/repo/" + f)
        rng.shuffle(ss)
        seen = set()
        for (i, new, descr) in ss:
            if i in seen:
                continue
            seen.add(i)
            muts.append({"file": f, "line": i, "new": new, "descr": descr, "props": anc[f]})
            if len(seen) >= a.per_file:
                break
    print("%d mutants over %d files" % (len(muts), len(files)), flush=True)
    os.makedirs(BASE, exist_ok=True)
    dirs = [setup_worker(w) for w in range(a.workers)]
    results = []
    import queue
    q = queue.Queue()
    for m in muts:
        q.put(m)
    def worker(w):
        while True:
            try:
                m = q.get_nowait()
            except queue.Empty:
                return
            r = run_mutant(w, dirs[w], m)
            results.append(r)
            print("[%d/%d] %s:%d %s | %s | %s %s" % (len(results), len(muts), r["file"], r["line"] + 1, r["descr"], r.get("old", "")[:70], r["status"], r.get("caught_by", "")), flush=True)
            json.dump(results, open(a.out, "w"), indent=1)
    with ThreadPoolExecutor(a.workers) as ex:
        list(ex.map(worker, range(a.workers)))
    for w, d in enumerate(dirs):
        sh("git -C /repo worktree remove --force %s/repo" % d)
        shutil.rmtree(d, ignore_errors=True)
    sh("git -C /repo worktree prune")
    st = {}
    for r in results:
        st[r["status"]] = st.get(r["status"], 0) + 1
    print(st)
    print("SURVIVORS:")
    for r in results:
        if r["status"] == "survived":
            print("  %s:%d  %s   [%s]  -> %s" % (r["file"], r["line"] + 1, r["descr"], r["old"], r["new"].strip()))

if __name__ == "__main__":
    main()
