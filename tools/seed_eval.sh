#!/bin/sh
# Confirm a seeded defect delivered in /tmp/mut/<ID>/ (patch.diff, demo test left untracked in /tmp/mut/<ID>/wt) and run checks on it.
#   tools/seed_eval.sh <ID> <dest-name> C03 [C01 ...]
# 1. fresh worktree: existing tests of the touched packages pass with the patch; the demo test fails with it and passes without it
# 2. tools/mutation_run.sh with the patch for the listed properties
# 3. files copied to /verif/seeded/<dest-name>/ with a ran.txt log
set -e
export GOFLAGS=-mod=mod GOPROXY=off GOSUMDB=off GOTOOLCHAIN=local
ID=$1; DEST=$2; shift 2
SRC=${MUT_BASE:-/tmp/mut}/$ID
W=/tmp/scratch/seedchk-$DEST
rm -rf "$W"; git -C /repo worktree add -q --detach "$W" HEAD
LOG=/tmp/scratch/seedchk-$DEST.log; : > "$LOG"
if [ -n "$DEMO_PATH" ]; then
  # the agent's worktree is gone: the demonstration is $SRC/demo_test.go, to be placed at $DEMO_PATH
  DEMO=$DEMO_PATH; mkdir -p "$SRC/wt/$(dirname $DEMO)"; cp "$SRC/demo_test.go" "$SRC/wt/$DEMO"
else
  DEMO=$(git -C "$SRC/wt" status --porcelain | grep '^??' | awk '{print $2}' | grep '_test.go$' | head -1)
fi
PKGS=$(grep '^+++ b/' "$SRC/patch.diff" | sed 's#^+++ b/##' | xargs -n1 dirname | sort -u | sed 's#^#./#')
echo "demo test: $DEMO ; touched packages: $PKGS" | tee -a "$LOG"
( cd "$W" && patch -s -p1 < "$SRC/patch.diff" && go build ./... ) >> "$LOG" 2>&1 || { echo "BUILD FAILED"; exit 1; }
( cd "$W" && go test -count=1 $PKGS 2>&1 | tail -5 ) | tee -a "$LOG"
cp "$SRC/wt/$DEMO" "$W/$DEMO"
echo "--- demo WITH the change (expect FAIL):" | tee -a "$LOG"
( cd "$W" && go test -count=1 -run . "./$(dirname $DEMO)" 2>&1 | grep -v '^\s*$' | tail -6 ) | tee -a "$LOG" || true
( cd "$W" && patch -s -R -p1 < "$SRC/patch.diff" )
echo "--- demo WITHOUT the change (expect ok):" | tee -a "$LOG"
( cd "$W" && go test -count=1 "./$(dirname $DEMO)" 2>&1 | tail -3 ) | tee -a "$LOG" || true
git -C /repo worktree remove --force "$W"
echo "--- checks on the mutated tree:" | tee -a "$LOG"
KEEP_REPLAYS=/tmp/scratch/replays-$DEST /verif/tools/mutation_run.sh "$DEST" "$SRC/patch.diff" -- "$@" 2>&1 | grep "VIOLATION\|quick:\|PATCH-FAILED" | tee -a "$LOG"
mkdir -p /verif/seeded/$DEST
cp "$SRC/patch.diff" /verif/seeded/$DEST/patch.diff
cp "$SRC/wt/$DEMO" /verif/seeded/$DEST/$(basename $DEMO)
cp "$SRC/meta.json" /verif/seeded/$DEST/agent_meta.json 2>/dev/null || true
cp "$LOG" /verif/seeded/$DEST/ran.txt
echo "demo_path=$DEMO" >> /verif/seeded/$DEST/ran.txt
