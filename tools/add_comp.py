#!/usr/bin/env python3
"""Integrator helper: register a component in the shared files.
   tools/add_comp.py <reg_name> <go_pkg> <Coq.Import.Path> <Module.value> file1.v file2.v ..."""
import sys
reg_name, go_pkg, extract_import, extract_val = sys.argv[1:5]
coqfiles = sys.argv[5:]
p='/verif/coq/_CoqProject'; s=open(p).read()
for f in coqfiles:
    if f not in s: s+=f+'\n'
open(p,'w').write(s)
p='/verif/coq/theories/Extract/Extract.v'; s=open(p).read()
if extract_import not in s:
    s=s.replace('From Verif Require Import ','From Verif Require Import %s '%extract_import,1)
    s=s.replace('Separate Extraction\n  Generic.run_steps','Separate Extraction\n  Generic.run_steps\n  %s'%extract_val)
open(p,'w').write(s)
p='/verif/runner/registry.ml'; s=open(p).read()
line='  ("%s", %s);'%(reg_name, extract_val)
if line not in s: s=s.replace(']','%s\n]'%line)
open(p,'w').write(s)
p='/verif/harness/cmd/harness/main.go'; s=open(p).read()
imp='	_ "verifharness/%s"'%go_pkg
if imp not in s: s=s.replace('	_ "verifharness/shardid"', imp+'\n	_ "verifharness/shardid"')
open(p,'w').write(s)
