#!/usr/bin/env python3
"""Generated per-property summary for DESIGN.md §0 (between ASBUILT markers): theorems, correspondence runs, extras."""
import os as _os
ROOT = _os.path.dirname(_os.path.dirname(_os.path.abspath(__file__)))
import re, sys, os
sys.path.insert(0, ROOT + "/lib")
import props
rows = []
for pid in sorted(props.PROPS):
    sp = props.PROPS[pid]
    thms = []
    for f in sp.get("coq_props", [pid]):
        src = open(ROOT + "/coq/theories/Props/%s.v" % f).read()
        thms += re.findall(r"^\s*(?:Theorem|Corollary)\s+([A-Za-z0-9_']+)", src, re.M)
    runs = []
    for r in sp.get("runs", []):
        lab = "all labels" if r.get("labels") is None else "labels " + ",".join(str(x) for x in sorted(r["labels"]))
        if r.get("diff_ops"):
            lab += " on ops " + ",".join(str(x) for x in sorted(r["diff_ops"]))
        if r.get("variant"):
            lab += " (variant %s)" % r["variant"]
        runs.append("%s: %s" % (r["component"], lab))
    extras = ["%s%s" % (e["component"], " (race detector)" if e.get("race") else "") for e in sp.get("extras", [])]
    rows.append("| %s | %d: %s | %s | %s |" % (pid, len(thms), ", ".join("`%s`" % t for t in thms), "; ".join(runs) or "—", ", ".join(extras) or "—"))
text = "\n".join(["| property | theorems (Props/*.v) | correspondence runs (component: compared observables) | extras |", "|---|---|---|---|"] + rows)
B, E = "<!-- ASBUILT_BEGIN -->", "<!-- ASBUILT_END -->"
d = open(ROOT + "/DESIGN.md").read()
if B in d:
    a, b = d.index(B), d.index(E)
    d = d[:a] + B + "\n" + text + "\n" + d[b:]
    open(ROOT + "/DESIGN.md", "w").write(d)
else:
    print(text)
