ENGINES = [
    {"name": "coq", "path": "coq/", "kind_free_text": "Coq 8.16.1 development: executable Gallina models, specs, theorems (Props/Cxx.v), full .vo build"},
    {"name": "ocaml-runner", "path": "runner/", "kind_free_text": "extracted models (ExtrOcamlBasic only) + generic driver reading history files"},
    {"name": "go-harness", "path": "harness/", "kind_free_text": "Go module built against /repo with -tags verif: generators, implementation drivers, monitors, sweeps"},
    {"name": "check", "path": "check", "kind_free_text": "orchestrator: builds, proof obligations + Print Assumptions, correspondence diff on projected observables, shrinking, search, known findings, evidence"},
]

NOT_APPLICABLE = {}

TEXTS = {}

TEXTS["C19"] = {
    "text": "Machine-checked proof (Coq) that the integer model of ComputeId returns an id < n for every n >= 2 and every key, "
            "depends only on the trailing bytes_needed(n) bytes, is onto [0,n) for every n an int32 can hold and never reads more than 4 bytes; "
            "the model is tied to the Go code by running both on the same inputs (exhaustive small scope + random) and by a sweep of the "
            "float-derived mask fields against the integer definitions (whole domain [2,2^31-1] in the thorough tier). Sharded persister routing "
            "follows from it (single map refinement is checked with the persister properties).",
    "note": "Trusted: Coq kernel; the hand-written model (tied by differential runs, not proved equal to the Go code); extraction (ExtrOcamlBasic); "
            "OCaml driver; Go harness. math.Log2 is validated by sweep, not modelled. No axioms (Closed under the global context).",
    "technique": "Coq proof over an executable Gallina model + differential correspondence check (extracted OCaml vs Go) + exhaustive field sweep",
}
