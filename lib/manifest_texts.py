ENGINES = [
    {"name": "coq", "path": "coq/", "kind_free_text": "Coq 8.16.1 development: executable Gallina models, specs, theorems (Props/Cxx.v), full .vo build"},
    {"name": "ocaml-runner", "path": "runner/", "kind_free_text": "extracted models (ExtrOcamlBasic only) + generic driver reading history files"},
    {"name": "go-harness", "path": "harness/", "kind_free_text": "Go module built against /repo with -tags verif: generators, implementation drivers, monitors, sweeps"},
    {"name": "check", "path": "check", "kind_free_text": "orchestrator: builds, proof obligations + Print Assumptions, correspondence diff on projected observables, shrinking, search, known findings, evidence"},
]

NOT_APPLICABLE = {}

TEXTS = {}

TEXTS["C19"] = {
    "text": "Machine-checked proof (Coq) that the integer model of ComputeId returns an id < n for every n >= 2 and every key, "
            "depends only on the trailing bytes_needed(n) bytes, is onto [0,n) for every n an int32 can hold and never reads more than 4 bytes; "
            "the model is tied to the Go code by running both on the same inputs (exhaustive small scope + random) and by a sweep of the "
            "float-derived mask fields against the integer definitions (whole domain [2,2^31-1] in the thorough tier). Sharded persister routing "
            "follows from it (single map refinement is checked with the persister properties).",
    "note": "Trusted: Coq kernel; the hand-written model (tied by differential runs, not proved equal to the Go code); extraction (ExtrOcamlBasic); "
            "OCaml driver; Go harness. math.Log2 is validated by sweep, not modelled. No axioms (Closed under the global context).",
    "technique": "Coq proof over an executable Gallina model + differential correspondence check (extracted OCaml vs Go) + exhaustive field sweep",
}

TEXTS["C01"] = {
    "text": "Machine-checked proof (Coq) over the selection loop transcribed from selection.go/transactionsHeapItem.go/selectionSessionWrapper.go, "
            "parametrised by an arbitrary choice oracle (so it covers any heap order and any time-out): for every list of single-sender nonce-sorted "
            "bunches, every session, gasRequested and maxNum, each sender's selected nonces are account nonce, +1, +2, ... in order (uint64 wrap of "
            "latest+1 modelled). Tied to the code by feeding every implementation result to the proved-sound executable checker inside the model and "
            "by exact comparison of selections under C03.",
    "note": "Trusted: Coq kernel; hand-written model tied by differential runs (generators bound the tie); extraction; Go harness/monitors. "
            "No axioms. The wall-clock time-out of the loop is covered by the oracle's freedom to stop anywhere.",
    "technique": "Coq proof (loop invariant by induction, envelope model) + correspondence check: implementation results judged by the model's proved-sound boolean twin + independent Go monitors",
}
TEXTS["C02"] = {
    "text": "Machine-checked proof (Coq), same envelope model as C01: results are distinct members of the bunches, at most maxNum, gas limits sum "
            "(true integer sum) to the returned gas <= gasRequested, none is guarded, and the balance walk holds for arbitrary Z balances, shared "
            "relayers and sender=relayer accounts. Tied to the code by judging every implementation result with the model's executable twins and by monitors.",
    "note": "Trusted: Coq kernel; hand-written model tied by differential runs; extraction; Go harness/monitors. No axioms. The post-fix budget test "
            "(gasLimit > gasRequested - accumulatedGas) is modelled with truncated subtraction; the invariant accGas <= gasRequested is proved.",
    "technique": "Coq proof (loop invariant, envelope model) + correspondence check via proved-sound boolean twins on implementation results + Go monitors (math/big)",
}

TEXTS["C18"] = {
    "text": "CLAIMED PARTIAL. Machine-checked (Coq) on an operational model of timeCacheCore/TimeCache/peerTimeCache/timeCacher in which each operation takes the "
            "clock reading as input and the cacher's background goroutine is an explicit sweep event: for every history and all spans, a key whose latest add/upsert "
            "was at t with effective span d is reported by every query at now <= t+d whatever sweeps ran (C18_retained*), a sweep at now > t+d removes it "
            "(C18_dropped*, C18_cacher_self_sweep_partial), Upsert makes the span max(old,new), restarts the countdown and never moves the expiry earlier under a "
            "non-decreasing clock (C18_upsert_max/_monotone), Add/AddWithSpan/Put replace span and countdown (C18_add_replaces), HasOrAdd does not refresh; same for the "
            "peer and cacher front-ends. VALIDATED, NOT PROVED: (i) model = code, by exact differential runs in virtual time (verif hook shifts stored timestamps; "
            "exhaustive small scope + random) with the property text also evaluated directly on the implementation by monitors; (ii) the real clock and the self-sweeping "
            "goroutine, by real-time runs with spans 1-3 s and one-sided monotonic-clock brackets (present asserted only while the upper bracket is inside the span, gone only "
            "for a sweep whose lower bracket is beyond it; the cacher, never swept by the harness, must drop an expired entry within 3 sweep intervals).",
    "note": "Trusted: Coq kernel, hand-written model (tied by differential runs), extraction, OCaml driver, Go harness, the verif-tagged accessor file timecache/export_verif.go "
            "(shift/keys/entry/sweep accessors), Go's monotonic clock. No axioms.",
    "technique": "Coq proof over an executable model with explicit clock + exact virtual-time differential check + property monitors + bracketed real-time validation",
}

TEXTS["C16"] = {
    "text": "Machine-checked proof (Coq) over the operational model transcribed from storageunit.go (Put: cache, persister, undo on error; Get: cache else persister + refill; "
            "Has; Remove; ClearCache; GetBulkFromEpoch; epoch aliases), for ANY cacher satisfying cacher_laws, all histories and all per-call failure oracles: "
            "outputs are those the map of acknowledged writes allows, the persister equals that map, whatever the cache may return is what the persister holds, "
            "a rejected Put returns the error / leaves the persister unchanged / the cache holds nothing for the key / the previous acknowledged value is still served, "
            "Remove clears both layers when accepted, bulk returns a subsequence of the found pairs (all of them when no read fails); factory guard as a decision rule. "
            "Life-cycle operations interleaved anywhere in the history (RangeKeys, DestroyUnit, Close, with failing persister Close/Destroy): RangeKeys hands the handler exactly the map of acknowledged writes "
            "whatever the cache holds; DestroyUnit and Close clear the cache before asking the persister, hence also when it fails, and return its error; an acknowledged DestroyUnit leaves cache and persister empty "
            "(Get/Has of every key: not found) for every cacher whose Clear forgets everything (proved for the LRU cachers; refuted by witness for the FIFO cache holding the empty key). "
            "Tied to the code by differential runs on policy-independent observables over every factory cacher and memorydb/LevelDB persisters behind a failing stub, "
            "and by monitors reading the injected cacher and persister directly.",
    "note": "Trusted: Coq kernel; hand-written model tied by differential runs; extraction; Go harness/monitors/stub. No axioms. Guards: a Get/Has/bulk read that is "
            "made to fail returns / swallows the error (unguarded readings refuted by witnesses); slice aliasing is outside the model; what a persister answers after a successful Close is not modelled; "
            "Get's non-[]byte branch and GetOldestEpoch are not modelled.",
    "technique": "Coq proof generic in an abstract lawful cacher (coherence invariant by induction over op lists) + differential correspondence on policy-independent observables + Go monitors + factory-guard grid",
}

PERSIST_NOTE = ("Trusted: Coq kernel; the hand-written models, tied to /repo by differential runs and not proved equal to the Go code; extraction; OCaml driver; Go harness. "
                "Modelling assumption: goleveldb applies a batch atomically in record order, and a cleanly closed database reopens with the same content. "
                "Sequential only; the timer is an explicit event. No axioms.")
TEXTS["C08"] = {
    "text": "Coq proof that for DB, SerialDB, memorydb and the sharded persister the abstraction overlay(removed, cached, disk) follows the map key->option bytes step by step "
            "for every history over Put/Remove/Get/Has/Tick, every MaxBatchSize and every key/value (nil = empty); Get returns abs k (not found iff None); Has agrees with Get; "
            "cached/removed stay disjoint. The models are transcriptions of the Go methods (post F10/F11/F14) and are run against the real persisters on LevelDB directories.",
    "note": PERSIST_NOTE,
    "technique": "Coq proof (refinement to a map spec by induction over op lists) + differential correspondence check on real LevelDB directories + Go monitors (reference map of acknowledged writes)",
}
TEXTS["C09"] = {
    "text": "Coq proof that Close returns nil and the persister opened afterwards on the same path presents exactly abs of the state before Close via Get, Has and RangeKeys (each binding once), "
            "for histories split by any number of Close;Reopen cycles at arbitrary points; RangeKeys of an open persister presents the flushed map; operations on a closed DB/SerialDB never reach LevelDB. "
            "RangeKeys with a handler that asks to stop after n visits delivers flushed pairs only, no key twice, exactly min(max(n,1), flushed) of them for DB / SerialDB / memorydb (LevelDB: the first ones in strictly ascending key order); "
            "the sharded persister hands the handler to every shard (proved for every order of the shards: per-shard prefixes, between min(max(n,1), flushed) and max(n,1)+shards-1 visits; 'a false stops the whole iteration' is refuted by witness - a finding about sharded/shardedDB.go). "
            "Destroy on an open persister, or Close;DestroyClosed, followed by the constructor on the same path gives the empty persister for every state and after every history (from a constructor state: exactly the constructor's state), "
            "histories with destroy cycles follow the map a destroy cycle empties, the destroyed DB / SerialDB object answers ErrDBIsClosed (DB.Put/Remove: nil while the batch is not full, dropped), memorydb stays usable, and nothing called on a destroyed object reaches the path. "
            "Tied to the code by differential runs with real close/reopen/destroy cycles on LevelDB directories (visit sequences judged by an acceptor proved sound) and by monitors.",
    "note": PERSIST_NOTE,
    "technique": "Coq proof (abstraction preserved across Close;Reopen and reset by destroy cycles, induction over op lists with cycles; early-stop envelope over every shard order with a verified acceptor) + differential correspondence check with real reopen / destroy + Go monitors",
}
TEXTS["C19"]["text"] += (" The sharded persister (model: list of persisters indexed by compute_id) refines ONE map; every op on k touches shard compute_id n k only; "
                         "RangeKeys is the duplicate-free union of the shards (Props/C19b.v), checked differentially through sharded.NewShardedPersister over DB/SerialDB/memorydb.")
TEXTS["C20"] = {
    "text": "Machine-checked proof (Coq) over every history of Put/HasOrAdd/Get/Has/Peek/Remove/Clear/(un)register, every size S and shard count N with S >= 2N, every non-empty key, "
            "on a transcription of the dependency's ring-buffer shard and of the cache wrapper: ring invariant; Len <= N*(ceil(S/N)-1) <= S; the entry just inserted is present with its value; "
            "an entry stays while at most ceil(S/N)-2 further insertions reach its shard (hence the cache-wide count of the text), shown tight by example; with one shard Keys() evolves as a FIFO list "
            "in which only the front entry can be pushed out and an overwrite re-enters at the back; Get/Has/Peek/Keys/Len agree; HasOrAdd on a present key changes nothing; handlers are called "
            "exactly once per insertion per registered id; Clear empties. The model is tied to the Go code by running both on the same histories (exhaustive small scope + random) comparing all "
            "observables after every operation. The empty key is outside the theorems: the dependency drops it (finding F12).",
    "note": "Trusted: Coq kernel; the hand-written model (differentially validated, not proved equal to the Go code); extraction; OCaml driver; Go harness (handlers awaited with a 2 s timeout). No axioms.",
    "technique": "Coq proof (refinement of the ring by a fixed-length queue, list decomposition) + differential correspondence check + text-derived monitors",
}

STD_NOTE = "Trusted: Coq kernel, hand-written models (tied to /repo by differential runs, not proved equal to the Go code), extraction (ExtrOcamlBasic; re-checked on every run by evaluating a sample of the histories with vm_compute inside Coq), OCaml driver, Go harness and monitors. No axioms (Closed under the global context; coqchk in the thorough tier). Populations beyond about a thousand entries, values beyond 64 KiB and the concurrent extras are validated against the monitors only (the model is not run at that scale); the evidence counts them separately."
TEXTS["C15"] = {"text": "Machine-checked proof (Coq) that the transcribed models of capacityLRU and of the hashicorp LRU behind simpleLRUCacheAdapter, wrapped by lruCache, refine a short reference LRU over every history of Put/HasOrAdd/Get/Peek/Has/Remove/Clear/(Un)RegisterHandler, every capacity >= 1, byte capacity >= 1 and every size (negative rejected): all return values, Keys order (LRU->MRU), Len, Peek, Has; invariants (unique keys, Len <= capacity, byte counter = sum of resident sizes, bytes <= capacity or single resident, eviction loop terminates); Put flag true iff a resident left; HasOrAdd flags; only least recently used entries leave and the written entry stays most recent; handler set = what the history registered and exactly one invocation per registered handler per insertion. Models tied to the Go code by differential runs (exhaustive small scope + random) on all observables incl. the multiset of handler invocations; monitors compare the implementation with a Go reference LRU written from the property text.",
  "note": STD_NOTE + " SizeInBytesContained claimed for the sized variant only. int64 sums assumed < 2^63.",
  "technique": "Coq refinement proof over executable Gallina models + differential correspondence check + reference-LRU monitors"}
TEXTS["C17"] = {"text": "Machine-checked proof (Coq) over the transcribed storageCacherAdapter + capacityLRU + map persister that, for every history of Put/HasOrAdd/Get/Has/Peek/SizeInBytesContained/MaxSize with each key bound to one immutable non-empty value and sizes >= 0 (beyond the byte capacity and size-changing re-puts included) and every capacity/byte capacity >= 1: every key put so far - through Put or HasOrAdd - is reported by Has and returned by Get with its value; an entry that leaves the memory tier in a step is in the persister with its value after that step; Put returns true iff an entry left the memory tier (and was persisted); HasOrAdd reports has iff the key was in one of the tiers, then changes nothing, otherwise leaves the entry in the memory tier and returns Put's flag as 'added' (the literal reading 'added = inserted' is refuted by witness). Close is stated exactly: it sets dbIsClosed and resets the spill counter; from then on, in ANY history, the persister is never written again; Has/Get/Keys answer from the memory tier alone, so a key spilled before the Close is no longer found although the persister holds it, and an entry evicted after the Close is dropped ('no loss after Close' refuted by witness). Tied to the Go code (real capacityLRU + memorydb) by differential runs on return values, memory tier and persister contents; monitors check the clauses directly on the implementation.",
  "note": STD_NOTE + " Empty serialisations are skipped by design (domain restriction); the no-loss clause is for an open persister (no Close in the history); Remove/Clear outside the property.",
  "technique": "Coq invariant proof over executable Gallina models + differential correspondence check + monitors"}
TEXTS["C12"] = {"text": "Machine-checked proof (Coq) over the operational model transcribed from immunitycache/chunk.go, cache.go, config.go (chunks routed by bit-exact FNV-1 mod NumChunks; itemsAsList, immuneKeys, separate numBytes counter, eviction loop with fuel proved sufficient): for every history of HasOrAdd/Put/AddTx, Remove, ImmunizeKeys, Clear, every configuration Verify accepts and sizes >= 0, the key invariant (flag <=> key in immuneKeys, NoDup, accounting, per-chunk bound, routing) holds; an add removes only non-immune items; never changes the payload of a present key; is refused with the state unchanged when the target chunk is full of immune items; a key accepted by ImmunizeKeys keeps its item (present at that time or added later) retrievable with the original payload until Remove/Clear. Tied to the code by differential runs (exhaustive small scope + random, both ImmunityCache and CrossTxCache) and independent monitors of the property text; corpus histories reproduce F7 on the pre-fix code.",
  "note": STD_NOTE,
  "technique": "Coq proof (invariant + history theorems by induction over op lists) + differential correspondence check + text-derived monitors"}
TEXTS["C13"] = {"text": "Machine-checked proof (Coq), same model as C12: Count <= NumChunks*(MaxNumItems/NumChunks) <= MaxNumItems; Count = |Keys| = |ForEachItem|, Get/Has/Keys agree, no duplicate key; NumBytes = sum of the sizes given at the insertion of each resident (provenance proved); CountImmune = number of accepted immune keys not since removed (a function of the history alone); HasOrAdd reports has iff present before and added iff it became present; with one chunk the resident sequence, the immune set and all outputs equal those of a short FIFO-queue spec evicting batches of oldest non-immune entries; Remove withdraws current and future immunity. Tied to the code by differential runs on all observers after every operation and by monitors incl. a harness-side FIFO reference queue.",
  "note": STD_NOTE,
  "technique": "Coq proof (invariants + refinement to a FIFO queue spec with one chunk) + differential correspondence check + text-derived monitors"}

POOL_NOTE = STD_NOTE + " Go's container/heap is transcribed (Txcache/Heap.v) and its Pop proved to return the extreme element of the strict total order more_valuable, i.e. the cursor the model's pick_best / worst_index designates; the selection loop and the multi-pass eviction loop transcribed WITH that heap (Txcache/HeapLoop.v) are proved equal, end to end, to the model loops the property theorems speak about (Props/C03b.v: C03_heap_select_is_select, C07_heap_eviction_is_eviction)."
TEXTS["C03"] = {
    "text": "Machine-checked (Coq): more_valuable (PPU desc, gas limit desc, hash asc) is a strict total order on distinct hashes and the heap's pop is its unique maximum, "
            "so the deterministic selection is a function of pool contents, session and limits; PPU = floor(fee/gasLimit) for every fee whose quotient fits a uint64 "
            "(saturation beyond); permuting the bunches (sender iteration order, chunk count) does not change the result; lowering maxNum, gasRequested or the step budget "
            "(time-out) yields a prefix; selection leaves the pool unchanged. Tied to the code by EXACT comparison of selected hash sequences and gas on generated and "
            "exhaustively enumerated pools, and by monitors (independent Go reference of the documented merge, repeatability, prefix, reverse insertion order with another NumChunks).",
    "note": POOL_NOTE,
    "technique": "Coq proof (strict total order, unique extreme element, lock-step simulation for permutation and prefix) + exact differential correspondence + Go reference monitors",
}
TEXTS["C04"] = {
    "text": "Machine-checked (Coq) over the model transcribed from txCache.go/txListForSender.go/txListBySenderMap.go/txByHashMap.go: for every history of AddTx/RemoveTxByHash/Clear, "
            "every per-sender limit, every sender list is strictly ordered (nonce asc, gas price desc, hash asc), no hash twice; AddTx adds exactly when the hash is not pooled and the "
            "sender's list becomes the sorted insertion minus its last element when over a limit; RemoveTxByHash removes exactly the sender's transactions with lower or equal nonce; "
            "lookups by hash agree with the lists. 'Dropped until it fits' holds when one drop suffices (C04_limit_drop_partial) and is refuted in general (F4, recorded known finding). "
            "Tied to the code by exact comparison of per-sender hash sequences after every operation and by reference-rule monitors.",
    "note": POOL_NOTE + " Known finding F4 (applySizeConstraints drops at most one transaction) is matched by the model's finding event and the monitor signature.",
    "technique": "Coq proof (sorted-insert lemma, invariant by induction over histories) + exact differential correspondence + reference-rule monitors",
}
TEXTS["C05"] = {
    "text": "Machine-checked (Coq): an invariant relating the hash index, the sender map and the three separately maintained counters is preserved by AddTx (with or without eviction, "
            "any thresholds and batch size), RemoveTxByHash, SelectTransactions and Clear, for every history whose transactions' hashes determine their content; corollaries: same set, "
            "CountTx/Len/NumBytes/CountSenders exact, emptied pool reports zeros, no orphan transaction. The eviction proof covers same-nonce alternatives and multi-pass eviction "
            "(cursor snapshot invariants). Tied to the code by differential runs and monitors after every operation.",
    "note": POOL_NOTE,
    "technique": "Coq proof (global invariant by induction over all histories incl. the eviction loop) + differential correspondence + invariant monitors",
}
TEXTS["C06"] = {
    "text": "Machine-checked (Coq): per-sender count limit after every history; per-sender byte limit whenever one drop suffices (partial; the unrestricted clause is refuted by a witness = "
            "finding F4); with eviction enabled the pool exceeds the thresholds by at most the transaction just added, and doEviction always ends within thresholds (loop fuel proved "
            "sufficient, cursors proved exhaustive); with eviction disabled an insertion touches no other sender. Tied to the code by differential runs and bound monitors after every AddTx.",
    "note": POOL_NOTE + " Sizes >= 0 and thresholds >= 0 are hypotheses. F4 is a recorded known finding.",
    "technique": "Coq proof (invariants + termination/exhaustiveness of the eviction loop) + differential correspondence + bound monitors",
}
TEXTS["C07"] = {
    "text": "Machine-checked (Coq): eviction is idle within thresholds, stops at the first pass boundary within thresholds and never earlier; each take is the least valuable head under a "
            "strict total order; a taken transaction takes its sender's same-or-higher-nonce transactions with it; every sender keeps a prefix of its list cut at a nonce boundary; evicted "
            "transactions vanish from both indexes and the invariant holds afterwards. Tied to the code by EXACT comparison of all pool views after every eviction-triggering AddTx and by an "
            "independent Go reference of the documented procedure.",
    "note": POOL_NOTE,
    "technique": "Coq proof (cursor/snapshot invariants, order lemmas) + exact differential correspondence + Go reference monitors",
}

TEXTS["C10"] = {
  "text": "CLAIMED PARTIAL. Machine-checked (Coq, Props/C10.v) on a log/sync/crash model: the disk is a log of journal records (one per db.Write of a non-empty batch) with synced flags; "
          "a crash keeps every synced record and an arbitrary prefix of the unsynced tail, whole records only; the flush logic of DB and SerialDB (size-triggered flush, Tick, Close+reopen) runs as a micro-step "
          "machine and EVERY intermediate state (batch updated / counter incremented / write started / write completed / batch reset / closed / reopened) is a crash point. For all histories, MaxBatchSize, both "
          "persisters, all crash points and all surviving tails: the recovered map is the map after exactly j flushes - i.e. of a PREFIX of the history ending at a flush position computed from the property text - "
          "with completed <= j <= started (C10_flush_boundary); whole batches in order for any write option (C10_atomic_in_order); with Sync:true every completed flush survives the loss of all unsynced data "
          "(C10_synced_survive) and with Sync:false it does not (C10_synced_survive_nosync_refuted); an acknowledged write followed by MaxBatchSize-1 writes or a Tick/Close is in every later recovery "
          "(C10_exposure); without a crash the log model equals the C08/C09 persister model (C10_refines_persist_models). VALIDATED, NOT PROVED: (i) model = code, by exact differential agreement on the recovered maps "
          "of crash images at every storage event x {none, all} tails, journal record/fsync counts, and model-judged torn-tail maps; (ii) real fsync semantics, goleveldb journal format, CRC drop of a torn record, "
          "recovery/table/manifest code: crash images written as plain files and reopened by the unmodified NewDB/NewSerialDB; (iii) the timer's real-time bound: real BatchDelaySeconds=1 runs, flush fsync'ed within 1 s (+1 s slack).",
  "note": "Trusted: Coq kernel; hand-written model tied by differential runs; extraction; OCaml driver; Go harness incl. the recording storage wrapper and its crash-image semantics (prefix-in-write-order tails, "
          "metadata operations durable when issued); the verif-tagged open hook leveldb/verif_on.go. Storage write errors are not injected. No axioms.",
  "technique": "Coq proof over a log/sync/crash micro-step model with the write option as parameter + exhaustive crash-point enumeration on a recording storage.Storage (3 tail choices, images reopened by unmodified code) + model-vs-code differential on crash observables + property-text monitors + mutant sensitivity",
}

TEXTS["C11"] = {
  "text": "CLAIMED PARTIAL. Machine-checked proof (Coq) that an interleaving model of leveldb.DB and leveldb.SerialDB as they are after the fix commits F11/F14 is linearizable: for every number of goroutines, "
          "every list of Put/Remove/Get/Has calls per goroutine, every schedule (timer flushes and, for SerialDB, the process loop serving ANY parked request included), every MaxBatchSize and initial LevelDB content, "
          "the operations of the history can be arranged in one sequence that is legal for the sequential map specification and keeps the real-time order (writes at their batch mutation, reads at an instant of their "
          "interval at which the register overlay(batch, disk) held the returned value); corollaries: a read that starts after a write returned never misses it; reads never go back. Proved by invariants over all "
          "schedules, not by search. The pre-fix code (SerialDB swapping the batch out before writing it; DB.Get reading the batch without mutBatch) is kept in the model and refuted by vm_compute witnesses. "
          "VALIDATED, not proved: that the Go code behaves like the model. The witness schedules are forced on the real code through verif pause points, seeded random park/release schedules and randomised stress "
          "are run on real LevelDB directories, every recorded history is judged by an independent register linearizability checker, and the same workloads run under the Go race detector (data-race freedom is the "
          "premise that licenses 'one lock-protected section = one atomic action').",
  "note": "Trusted: Coq kernel; the hand-written model (atomic actions = mutBatch sections, batch-internal sections, goleveldb calls; tied to the code by forced schedules and stress, not by proof); the Go harness and its "
          "checker; the race detector's coverage of the executed schedules only. Not modelled: Go memory model, preemption inside critical sections, Close/Destroy, LevelDB errors. No axioms (Closed under the global context). "
          "Sensitivity: with either fix reverted the forced schedules and the checker report non-linearizable histories.",
  "technique": "Coq proof (rely/guarantee invariants over a small-step interleaving semantics, linearization order exhibited) + forced schedules via pause hooks + randomised stress + linearizability checker + race detector",
}
TEXTS["C14"] = {
  "text": "CLAIMED PARTIAL. Machine-checked (Coq, Props/C14.v, 21 theorems, no axioms): (a) hash index with chunk-locked map step and SEPARATE atomic counter updates, arbitrary threads of addTx/removeTx "
          "calls, arbitrary schedules: counter + owed increments - owed decrements = |map| (and bytes) at every instant (C14_counters_every_instant), hence CountTx = |map| and NumBytes = sum of sizes once all "
          "threads finished (C14_quiescent_counters); false with a concurrent Clear (C14_quiescent_counters_with_clear_refuted: counter -1 over an empty map). (b) a sender list copied under its lock from any "
          "state satisfying the sender-list invariant, or after ANY sequence of the three list operations, is a legal bunch; snapshots of distinct senders from different pool states form legal bunches; C01 and all "
          "C02 clauses hold for the selection on them (C14_selection_any_snapshot, C14_select_any_snapshot); per-sender count limit after any sequence of list operations. (c) add-only threads under any schedule: final "
          "per-sender lists = those of the sequential run, every added transaction present, lists sorted, nothing else (C14_adds_commute; duplicates among calls allowed). (d) interleaving of atomic steps = sequential run "
          "of a history respecting program order (C14_atomic_sections, _every_instant, _instants_are_prefixes); immunity cache: Count <= MaxNumItems and the C12 invariant at every instant, immunized items survive, "
          "both with operations atomic and with ImmunizeKeys split into its per-chunk sections as in the code (C14_bounds_every_instant[_fine], C14_immune_survive[_added_later|_fine|_fine_added_later]); the stale "
          "capacity gate can over-immunize (C14_stale_gate_exceeds_refuted, outside C14's text). (e) lock-order: acyclicb_sound; the repository's held->acquired graph (20 mutex fields, 10 static + 45 interface-dispatch "
          "edges) is re-extracted on every run and its acyclicity is decided inside Coq. VALIDATED, NOT PROVED: absence of data races (race detector over all public operations of TxCache, CrossTxCache/ImmunityCache, "
          "both LRU kinds with handlers and evict callback, capacityLRU, FIFO sharded cache, TimeCache/peerTimeCache/timeCacher with sweeps, ConcurrentMap), of panics and of deadlocks (watchdog), under varied GOMAXPROCS, "
          "seeded delays at the four txcache pause points and yields in callbacks; and the property's monitors on those runs: C01+C02 on every concurrent selection, all-present/sorted after add-only phases, immunized items "
          "found at every later probe, Count/Len/per-sender bounds at every probe, CountTx=|Keys| and NumBytes=sum Size at every quiescent instant.",
  "note": "Trusted: Coq kernel; the hand-written interleaving models (each critical section = one step; justified by the race-detector verdict, not proved); the Go harness, its monitors, the verif-tagged pause hook; the "
          "syntactic lock-graph extractor (conservative, type-level mutex identity, no type checker); Go's race detector and scheduler. The explored schedules are a sample. No axioms.",
  "technique": "Coq proofs over interleaving models (invariant over all schedules; interleaving = sequential history; corollaries of C01/C02/C12/C13) + race-detector stress with delay injection, watchdog, property-text monitors "
               "on concurrent runs + Coq-decided acyclicity of a lock-order graph extracted from the source on every run + mutant sensitivity",
}

TEXTS["C16"]["text"] += (" The cacher laws are proved (Props/C16b.v, 42 theorems) for the models of every cacher the factory builds - sized LRU, plain LRU, the lruCache wrapper, FIFO sharded - "
                         "so all C16 theorems hold for the unit over each of them, for all capacities/parameters, histories and failure oracles; the cache inside the unit is shown to be a "
                         "reachable state of the C15/C20 models, so their invariants hold for it.")
