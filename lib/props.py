"""Per-property configuration of the checks: which Coq file holds the theorems, which
components are run differentially (and on which labelled observables), which extra
(non history based) checks run, and the texts that go into the evidence."""

PROPS = {}

PROPS["C19"] = {
    "runs": [
        {"component": "shardid", "labels": None, "n_quick": 60, "n_thorough": 600},
    ],
    "extras": [{"component": "shardid", "timeout": 3000}],
    "anchors": ["sharded/shardIDProvider.go", "sharded/shardedDB.go"],
    "exhaustive_claim": True,
    "rule": "exhaustive: every shard count up to the tier's bound (40 quick / 300 thorough) with the empty key, all one-byte and "
            "(strided in quick beyond n=12) all two-byte suffixes; random: shard counts from small/boundary-of-power-of-two/uniform "
            "ranges with keys of length 0..32 over a byte alphabet with 00/7f/80/ff; a history is non-trivial when it computes an id "
            "for a non-power-of-two count, a key longer than the bytes read, or the empty key; distinct = distinct canonical op sequences. "
            "extra: sweep of the derived fields (see extra_checks.rule)",
    "explanation": "Theorems in Props/C19.v quantify over every n >= 2 and every key; the Go float computation of the masks is "
                   "tied to the integer model by the field sweep (exhaustive over [2,2^31-1] in the thorough tier).",
    "assumptions": ["math.Log2/Ceil/Floor on float64 are validated by sweep, not modelled",
                    "ComputeId's uint32 arithmetic is modelled with explicit mod 2^32"],
}
