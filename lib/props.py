"""Per-property configuration of the checks: which Coq file holds the theorems, which
components are run differentially (and on which labelled observables), which extra
(non history based) checks run, and the texts that go into the evidence."""

PROPS = {}

PROPS["C19"] = {
    "runs": [
        {"component": "shardid", "labels": None, "n_quick": 60, "n_thorough": 600},
    ],
    "extras": [{"component": "shardid", "timeout": 3000}],
    "anchors": ["sharded/shardIDProvider.go", "sharded/shardedDB.go"],
    "exhaustive_claim": True,
    "rule": "exhaustive: every shard count up to the tier's bound (40 quick / 300 thorough) with the empty key, all one-byte and "
            "(strided in quick beyond n=12) all two-byte suffixes; random: shard counts from small/boundary-of-power-of-two/uniform "
            "ranges with keys of length 0..32 over a byte alphabet with 00/7f/80/ff; a history is non-trivial when it computes an id "
            "for a non-power-of-two count, a key longer than the bytes read, or the empty key; distinct = distinct canonical op sequences. "
            "extra: sweep of the derived fields (see extra_checks.rule)",
    "explanation": "Theorems in Props/C19.v quantify over every n >= 2 and every key; the Go float computation of the masks is "
                   "tied to the integer model by the field sweep (exhaustive over [2,2^31-1] in the thorough tier).",
    "assumptions": ["math.Log2/Ceil/Floor on float64 are validated by sweep, not modelled",
                    "ComputeId's uint32 arithmetic is modelled with explicit mod 2^32"],
}

POOL_ANCHORS = ["txcache/selection.go", "txcache/transactionsHeapItem.go", "txcache/selectionSessionWrapper.go",
                "txcache/transactionsHeap.go", "txcache/wrappedTransaction.go", "txcache/txCache.go",
                "txcache/txListForSender.go", "txcache/txListBySenderMap.go", "txcache/txByHashMap.go", "txcache/eviction.go",
                "txcache/config.go"]
POOL_RULE = ("histories over AddTx/RemoveTxByHash/Clear/SelectTransactions on a small alphabet (4 senders + relayer R, nonces 0..5 and "
             "2^64-1/2^64-2, 3 gas prices, gas limits incl. 0/2^63/2^64-1, fees with forced PPU ties and values around 2^64 up to 2^130, "
             "sizes, hashes of 1-4 bytes incl. prefix pairs; hash determines content); sessions with lookup failures, stale/future "
             "account nonces, balances 0..2^140, guarded subsets; per-history config (NumChunks 1/2/16/128, per-sender limits, eviction "
             "thresholds and batch sizes per property); exhaustive small scope per property (all pools of <= 4 (quick) / 5 (thorough) of a "
             "10-tx alphabet x 2 sessions x 3 limits for selection; all op sequences of length 4 (quick) / 5 (thorough) over 9 ops for pool "
             "contents). A history is non-trivial when it hits at least one recorded situation (see situations); distinct = distinct "
             "canonical op sequences.")

PROPS["C01"] = {
    "runs": [{"component": "pool", "labels": {20, 21}, "n_quick": 1500, "n_thorough": 30000}],
    "anchors": POOL_ANCHORS, "rule": POOL_RULE,
    "explanation": "Theorems (Props/C01.v) hold for the selection ENVELOPE: any order of serving senders, any stopping point, any bunches "
                   "that are single-sender and nonce-sorted. Correspondence: every SelectTransactions result of the implementation is fed "
                   "back to the model, whose executable twin of the theorem statement (c01_holdsb, proved sound) judges it against the "
                   "model's pool; the monitor evaluates the property text on the Go output independently.",
    "assumptions": ["hash determines content", "SelectionSession answers are deterministic per call (stub)", "time budget not reached (1 h)"],
}
PROPS["C02"] = {
    "runs": [{"component": "pool", "labels": {20, 22, 23, 24, 25, 26}, "n_quick": 1500, "n_thorough": 30000}],
    "anchors": POOL_ANCHORS, "rule": POOL_RULE,
    "explanation": "Theorems (Props/C02.v) for the selection envelope: members, distinct, count, true integer gas sum <= gasRequested, guard, "
                   "balance walk with shared relayers and arbitrary Z balances. Correspondence: the model's executable twins judge every "
                   "implementation result; monitors recompute all clauses with math/big.",
    "assumptions": ["hash determines content", "fees and transferred values are non-nil / non-negative big.Ints as the host contract says",
                    "time budget not reached (1 h)"],
}

PROPS["C18"] = {
    "runs": [{"component": "timecache", "labels": None, "n_quick": 2000, "n_thorough": 20000}],
    "extras": [{"component": "timecache", "timeout": 400}],
    "anchors": ["timecache/timeCacheCore.go", "timecache/timeCache.go", "timecache/timeCacher.go", "timecache/peerTimeCache.go"],
    "exhaustive_claim": True,
    "rule": "virtual time (VerifShiftTimestamps: clock advanced by d = every stored timestamp moved back by d; spans odd multiples of 30 min, "
            "clock readings whole hours, so model and code must agree exactly). exhaustive: every sequence of (advance in {0,1h,2h}, op) pairs, "
            "spans {30m,90m}, for TimeCache (Add, AddWithSpan 90m, Upsert 30m/90m, Sweep), peerTimeCache (Upsert 30m/90m, Sweep), timeCacher "
            "(Put, HasOrAdd, Remove, goroutine sweep round): quick two keys length 3 + one key length 4 (36 747 histories), thorough two keys "
            "length 4 + one key length 5 (614 601); observables after every op so all shorter sequences are covered as prefixes. random: 3-5 keys "
            "(+ empty key 1/8), spans +-{30,90,150,210} min, advances 0-4 h, 8-32 ops, the three kinds, rejected cacher configs 1/40. non-trivial = "
            "a history hitting any of: expired-and-swept, retained-across-sweep, upsert-extends/-smaller-span, add-shortens-remaining-life, ... "
            "extra: real-time cases with one-sided monotonic brackets (see extra_checks.rule)",
    "explanation": "Props/C18.v: theorems over all histories/spans on a model whose operations receive the clock reading; the model is tied to /repo by "
                   "exact differential agreement in virtual time on all labels (incl. stored span and age of every key); the real clock and the goroutine "
                   "are validated by the real-time extra, not proved.",
    "assumptions": ["PARTIAL: time.Now/time.Since (monotonic, non-decreasing) and the timing of timeCacher's goroutine are validated, not modelled",
                    "the per-element clock readings of one sweep are collapsed into one reading (C18_sweep_clock_readings shows nothing depends on it)",
                    "the boundary instant now = t + span (strict >) is transcribed by reading; it cannot be produced against a real clock",
                    "time.Duration arithmetic does not saturate (|now - timestamp| < 2^63 ns)",
                    "handlers registered on timeCacher (RegisterHandler) are not modelled"],
}

PROPS["C16"] = {
    "runs": [{"component": "unit", "labels": None, "n_quick": 2000, "n_thorough": 20000}],
    "extras": [{"component": "unit", "timeout": 600}],
    "anchors": ["storageUnit/storageunit.go", "factory/storageUnit.go", "factory/cache.go", "factory/db.go"],
    "exhaustive_claim": True,
    "rule": "exhaustive: every sequence of <= 3 (quick) / 4 (thorough) of nine operations on two keys (Put k1 v1, Put k1 v2, Put k2 v1, Get k1, Get k2, "
            "Has k1, Remove k1, ClearCache, GetBulkFromEpoch[k1,k2]), with no failure or exactly one failing persister call at every position, for LRU cap 1, "
            "SizeLRU cap 1, FIFOSharded cap 2; plus every sequence of exactly 4 (quick) / 5 (thorough) for LRU cap 1. random: 12-30 ops over 3-5 keys, 2-4 values "
            "(a 520-byte value for SizeLRU so that the 1024-byte capacity evicts; the zero-length value in a quarter of the histories), capacities 1-3, every cacher kind of factory.NewCache, memorydb (90%) / LevelDB / "
            "serial LevelDB persisters built by factory.NewDB behind a stub failing Put/Get/Has/Remove on the per-operation oracle (a failure every 4..12 calls), "
            "aliases PutInEpoch/GetFromEpoch/SearchFirst/RemoveFromCurrentEpoch, cold reads. Non-trivial = hits a recorded situation (eviction, cache-miss-refill, "
            "failed-put(-over-cached-value), failed-remove, failed-get/has, overwrite, clear-cache, bulk-swallowed-read-error ...). "
            "Life-cycle operations: a second exhaustive family - every sequence of <= 3 (quick) / 4 (thorough) of seven operations (Put k1, Put k2, Get k1, Has k2, RangeKeys, DestroyUnit, Close), "
            "with no failure or exactly one failing persister call (Close / Destroy included) at every position, for LRU cap 2, SizeLRU cap 2, FIFOSharded cap 3; random: 2 histories in 5 carry RangeKeys / "
            "DestroyUnit / Close at 1 position in 5 (half of the DestroyUnit / Close made to fail by the stub; a successful one in the middle of a history only over memorydb, over LevelDB only failing ones or a "
            "successful DestroyUnit as last operation). Situations: range-keys(-more-than-cached), DestroyUnit/Close-clears-nonempty-cache, failed-Close/-DestroyUnit(-still-clears-cache), destroy-nonempty-unit, close-ok. "
            "extra: factory guard grid (see extra_checks.rule)",
    "explanation": "Theorems (Props/C16.v) hold for ANY cacher satisfying cacher_laws, all histories, all failure oracles. Correspondence compares only "
                   "policy-independent observables (Get/Has/Bulk answers, error classes of Put/Remove, direct persister reads per key), so the executable model "
                   "(SmallCache) stands for every lawful cacher; monitors evaluate the property text with direct reads of the injected cacher and persister. "
                   "RangeKeys / DestroyUnit / Close (not named by the property text; added because they are reachable through the same API) are modelled as life-cycle operations interleaved with the data operations "
                   "(C16_map_lifecycle, C16_range_keys, C16_destroy_unit, C16_close): RangeKeys hands over exactly the map of acknowledged writes whatever the cache holds (compared over memorydb, "
                   "where everything is written through; over LevelDB the monitor compares with the persister's own RangeKeys); DestroyUnit / Close clear the cache in every case, return the persister's error, "
                   "and an acknowledged DestroyUnit empties the persister (compared: error classes, number of cache entries afterwards, direct persister reads; monitors: cache empty, persister empty, Get/Has not found).",
    "assumptions": ["a failing persister call has no effect (stub fails before reaching the persister)",
                    "callers do not mutate slices passed to Put or returned by Get (the unit caches and returns them by reference; LevelDB copies)",
                    "sequential use (concurrency is C14); non-empty keys, non-nil non-empty values",
                    "LRU / SizeLRU / FIFOSharded satisfy cacher_laws (validated here differentially; instances proved where Props/C16.v says so)",
                    "GetBulkFromEpoch omits (with a nil error) a key whose persister read failed: 'found' is read as 'the read succeeded' (C16_bulk guard; unguarded reading refuted by witness)",
                    "what a persister answers after a SUCCESSFUL Close is not modelled (C09 does that for LevelDB; memorydb.Close does nothing): a history continues after a successful Close / DestroyUnit only over memorydb",
                    "a successful DestroyUnit leaves the unit coherent only if the cacher's Clear forgets everything (clear_forgets: proved for the LRU cachers, false of the FIFO cache for the EMPTY key - "
                    "C16_destroy_unit_fifo_refuted, same root as F12, outside the domain of non-empty keys)",
                    "Get's '!okAssertion' branch (the shared cacher holds a value that is not a []byte) and GetOldestEpoch (constant error) are not modelled; RangeKeys is driven with a handler that never stops early"],
}

PERSIST_ASSUME = ["goleveldb applies a batch atomically in record order and a cleanly closed database reopens with the same content (disk modelled as an association list)",
                  "sequential histories only (concurrency is C11); the timer goroutine is the explicit event Tick",
                  "memorydb's ad-hoc 'not found' errors are classified as not-found by their text"]
PROPS["C08"] = {
  # label 6 (what RangeKeys visits on an OPEN persister = what has been flushed so far) is flush timing: C09/C10's subject, not compared here
  "runs": [{"component": "persist", "labels": {1, 2, 3, 4, 5}, "n_quick": 1500, "n_thorough": 6000}],
  "anchors": ["leveldb/leveldb.go", "leveldb/leveldbSerial.go", "leveldb/batch.go", "leveldb/serialActions.go", "memorydb/memorydb.go", "sharded/shardedDB.go"],
  "exhaustive_claim": True,
  "rule": "exhaustive (2 keys x values {01, empty}; kinds DB and SerialDB): all sequences of 5 writes (Put k v / Remove k; first write on key a, the two keys being interchangeable) with MaxBatchSize 2, all sequences of 3 ops incl. Get with MaxBatchSize 1 and 3; memorydb: all sequences of 5 ops (thorough: 6 writes / 4 ops / 6 ops); every prefix observed. "
          "random: 3-5 keys from an 11-key pool (empty key 1/12), values {nil, empty, 1 byte, longer}, MaxBatchSize in {1,2,3,5}, 10-50 ops, all six persister kinds, directed patterns (overwrite after flush, remove-then-put / put-then-remove in one batch, nil/empty over a flushed value, Close after every shape of last partial batch), Close/Reopen cycles incl. ops on the closed object, RangeKeys with an early-stopping handler (op 9), Destroy / Close;DestroyClosed cycles with the constructor called again (ops 10, 11; C09's subject, here only labels 1-5 of those steps are compared); 1 history in 200 (thorough 1 in 40) runs with BatchDelaySeconds=1 and real sleeps for Tick. "
          "Observables after every op: result class, Get bytes, Get/Has of every key of the alphabet. Non-trivial = hits at least one situation (flush-by-size, read-from-batch, read-from-disk, overwrite-after-flush, remove-then-put-in-batch, nil-value, empty-value, tick-flush, ...).",
  "explanation": "Theorems in Props/C08.v quantify over every op list, every MaxBatchSize (any integer), every key/value incl. nil and empty, for DB, SerialDB, memorydb and the sharded persister; the models are tied to /repo by differential runs on real LevelDB directories.",
  "assumptions": PERSIST_ASSUME,
}
PROPS["C09"] = {
  # only the answers of Close (6), Reopen (7), RangeKeys (8), early-stopping RangeKeys (9), Destroy (10), DestroyClosed (11) and of the
  # inserted judgement of the visits of an op 9 (12) are compared (incl. the Get/Has probes of every key printed with them):
  # reads between flushes belong to C08
  "runs": [{"component": "persist", "labels": None, "diff_ops": {6, 7, 8, 9, 10, 11, 12}, "n_quick": 1500, "n_thorough": 6000}],
  "anchors": ["leveldb/leveldb.go", "leveldb/leveldbSerial.go", "leveldb/common.go", "sharded/shardedDB.go", "memorydb/memorydb.go"],
  "exhaustive_claim": True,
  "rule": "exhaustive: all sequences over {Put k v, Remove k (2 keys x 2 values), Close;Reopen;RangeKeys} of length 4 (MaxBatchSize 2, first op on key a or a cycle) and 3 (MaxBatchSize 3) for DB and SerialDB, length 3 for the sharded persister over each (thorough: 5 / 4); random as C08 with kinds DB, SerialDB, sharded over them and twice the cycle weight. After Reopen the monitor compares Get/Has of every key and RangeKeys with the harness-side map of acknowledged writes; RangeKeys on an open persister is compared with the harness-side flushed map. "
          "Early stop and destroy: exhaustive, all sequences of length 3 (thorough 4) over {Put a, Put b (2 values), Remove a, RangeKeys stopping after 1 / 2 visits, Destroy;Reopen;RangeKeys, "
          "Close;DestroyClosed;Get;Reopen;RangeKeys-stop-1} for DB and SerialDB (MaxBatchSize 2) and, with MaxBatchSize 1, for the sharded persister over DB / SerialDB / memorydb and for memorydb; "
          "random: op 9 = RangeKeys with a handler answering `calls so far < n`, n in {0,1,2,3,4,6} (5% of the ops, and after reopen), destroy cycles (7%: Destroy on the open persister or Close;DestroyClosed, "
          "one time in three followed by 1-4 operations on the destroyed object incl. Destroy / DestroyClosed / Close again, then the constructor on the same path and a RangeKeys), 8% of the histories on memorydb / sharded-over-memorydb. "
          "Compared on op 9: the number of handler calls (DB, SerialDB, memorydb) and the visited pairs in call order (DB, SerialDB: ascending keys); the order of a Go map and of the shards never reaches the diff: "
          "after every op 9 the driver inserts op 12 carrying the pairs its handler received, and the model answers whether some order of the shards / of the map explains them (p_accept_stop, proved sound: C09_range_stop_checker_sound). "
          "Monitors (from the text, not the model): every visited pair is a flushed pair with its flushed value, no key twice, an unsharded persister makes exactly min(max(n,1), flushed) calls, LevelDB visits in ascending key order, "
          "after a `false` the same persister is not iterated any further (sharded: the next call, if any, is in a shard not visited before; every shard holding flushed keys is visited), a closed / destroyed LevelDB persister visits nothing; "
          "Destroy / DestroyClosed return nil and the directories (one per shard) are gone; after Destroy or Close;DestroyClosed and the constructor on the same path every key of the alphabet is absent (Get, Has) and RangeKeys visits nothing; "
          "memorydb is empty right after Destroy. Situations recorded: range-early-stop, range-stop-not-reached, range-stop-continued-in-next-shard, range-stop-on-closed, destroy-open, destroy-with-pending-batch, destroy-on-closed, destroy-closed, reopen-after-destroy.",
  "explanation": "Props/C09.v: Close+reopen presents exactly abs of the state before Close (Get, Has, RangeKeys), for histories with any number of cycles at arbitrary points; RangeKeys presents the flushed map without duplicates. "
                 "RangeKeys with a stopping handler: flushed pairs only, no key twice, exactly min(max(n,1), flushed) calls for DB / SerialDB / memorydb (for LevelDB the first ones in strictly ascending key order); for the sharded persister, "
                 "under EVERY order of the shards, each shard delivers its own prefix and the handler is called again for every further shard (between min(max(n,1), flushed) and max(n,1)+shards-1 calls; the reading 'false stops the iteration' is refuted by witness). "
                 "Destroy / Close;DestroyClosed followed by the constructor give, for every state, the persister the constructor gives on an empty path (after any history from a constructor state: exactly the constructor's state); "
                 "histories with such cycles follow the map that a destroy cycle empties; the exact answers of a destroyed DB / SerialDB / memorydb object; whatever is called on the destroyed object, the constructor afterwards gives the empty persister.",
  "assumptions": PERSIST_ASSUME + ["C09's Close/reopen half is stated for persisters with a path (memorydb excluded); the early-stop and destroy theorems cover memorydb too",
                                   "os.RemoveAll / db.Close() inside Destroy / DestroyClosed do not fail (no failing file system in the model)",
                                   "DestroyClosed is only exercised after Close or Destroy (on an open LevelDB persister it would remove the directory under a running goleveldb: outside the model, the wire component refuses the call)",
                                   "goleveldb's iterator delivers ascending keys (bytes.Compare): modelled by sorting the association list; the order of a Go map and the order in which the sharded persister walks its shards are left open (theorems quantify over the shard order, the differential check uses the acceptor)",
                                   "FINDING (kept in the model, not a monitor failure): shardedPersister.RangeKeys hands the handler to every shard, so a handler that answered false is called again once per further non-empty shard (C09_range_stop_sharded_stops_refuted)",
                                   "a destroyed leveldb.DB acknowledges (nil) Put/Remove while the batch is not full, like a closed one; the write is dropped (C09_destroyed_db); a destroyed memorydb is a working empty persister (C09_destroyed_memdb_is_a_new_one)",
                                   "DB.Put/Remove on a CLOSED leveldb.DB return nil while the batch is not full and the write is dropped (outside the property: only writes acknowledged before Close count); modelled faithfully, witness theorem in Props/C09.v"],
}
PROPS["C19"]["runs"].append({"component": "persist", "labels": None, "n_quick": 600, "n_thorough": 3000})
PROPS["C19"]["coq_props"] = ["C19", "C19b"]
PROPS["C19"]["rule"] += " persist: sharded persister (2-8 shards, real shard id provider) over DB / SerialDB / memorydb; exhaustive: all 5-op sequences over 2 keys in different shards (memorydb shards), 4-op with 3 shards, 3 writes over LevelDB shards; the random histories also carry RangeKeys with an early-stopping handler (op 9; what the handler received is judged by the model under every order of the shards, op 12) and Destroy / Close;DestroyClosed cycles (ops 10, 11), see C09"

PROPS["C20"] = {
    "runs": [{"component": "fifo", "labels": None, "n_quick": 2000, "n_thorough": 20000}],
    "anchors": ["fifocache/fifocacheSharded.go"],
    "exhaustive_claim": True,
    "rule": "random: (S,N) in {(2,1),(3,1),(5,1),(4,2),(7,3),(10,4)}, 6-12 keys from a pool of 23 (one-byte keys, prefix pairs, a NUL, two 13-byte keys) re-drawn until every shard gets >= 2 keys, "
            "20-60 ops Put 38%/HasOrAdd 15%/Get 7/Has 4/Peek 4/Remove 15/Clear 4/Register 7/Unregister 6 over 5 values and 3 handler ids, 3/4 of the ops on a hot subset; "
            "1 history in 20 is hostile (one alphabet key replaced by the empty key). exhaustive (one shard, S in {2,3}, 3 keys, up to key renaming, all prefixes observed): "
            "quick = all length-5 sequences of Put/HasOrAdd/Remove + all length-4 of Put/HasOrAdd/Remove/Get (27 094); thorough = length 6 resp. 5 (261 844). "
            "non-trivial = hits one of: eviction, overwrite(-evicts), ring-wrap-around, remove-present, remove-then-readd, clear-nonempty, hasoradd-refused, full, "
            "multi-shard-eviction, handler-fired, two-handlers-fired, unregister, reregister-same-id, get-hit, empty-key(-entry-alive).",
    "explanation": "Props/C20.v: 14 theorems over all histories, all S >= 2N, N >= 1, all non-empty keys, on a line-by-line model of concurrent-map v0.1.4's shard "
                   "(ring + map) and of fifocacheSharded.go; tied to the code by the differential run on every labelled observable after every op "
                   "(exact Keys() order with one shard). Monitors evaluate the seven clauses of the property text on the implementation.",
    "assumptions": ["keys are non-empty (empty key = known finding F12, witnessed in Coq by C20_empty_key_refuted and by corpus/C20/f12-empty-key.hist)",
                    "sequential histories only (concurrency is C14)", "S >= 2N, N >= 1 (the constructor panics on N = 0; a shard of size 1 holds nothing)",
                    "Keys() order between shards is unspecified (goroutines): compared sorted unless N = 1",
                    "values are byte strings; nil handler registration (logged and ignored by the code) is not generated",
                    "the dependency source is github.com/multiversx/concurrent-map v0.1.4 in the module cache, not under /repo: the anchors' fingerprint does not cover it"],
}

PROPS["C15"] = {
  "runs": [{"component": "lru", "labels": None, "n_quick": 2000, "n_thorough": 20000}],
  "anchors": ["lrucache/lrucache.go", "lrucache/simpleLRUCacheAdapter.go", "lrucache/capacity/capacityLRUCache.go"],
  "exhaustive_claim": True,
  "rule": "exhaustive: every op sequence of length 4 (quick) / 5 (thorough) over 3 alphabets of 10 op instances on keys a,b,c "
          "(sized cap 2/100 B: puts of 40/90/1/-1 B, HasOrAdd incl. negative, Get, Remove; plain LRU cap 2: puts, HasOrAdd, Get, Remove, Clear; "
          "sized cap 3/100 B with a handler registered: puts incl. 150 B, HasOrAdd, Get, Remove, Clear, Register, UnRegister); observables after every op, so every prefix is covered. "
          "random: kind {plain, sized, sized}, capacity {1,2,3,5}, byte capacity {1,30,100,2^40}, 3-6 keys incl. the prefix pair a/aa, values {v1,v2,w,empty}, "
          "sizes {-1,0,1,40,90,150,cap+1}, 20-60 ops: Put 32%, HasOrAdd 15%, Get 13%, Peek 6%, Has 6%, Remove 9%, Clear 2%, RegisterHandler 10% (nil func 1/10), UnRegisterHandler 7% over 3 ids. "
          "non-trivial = hits eviction (by count / by bytes / of several), overwrite-grow/shrink, overwrite-grow-evicts, rejected negative size, oversized single item, Get refresh, "
          "HasOrAdd present/inserting/rejected, handler fired (one/several/on a rejected Put); distinct = distinct canonical op sequences.",
  "explanation": "Props/C15.v: refinement of the reference LRU (LruSpec.v) by the transcribed capacityLRU and hashicorp models over all histories, capacities >= 1, byte capacities >= 1, all sizes; "
                 "the models are tied to /repo by the differential run on all labelled observables; monitors compare the implementation with a Go reference LRU written from the property text.",
  "assumptions": ["sizes and their running sum stay below 2^63 (int64 never wraps; the model uses Z)",
                  "handlers run as goroutines: the harness waits until the expected number of invocations arrived (3 s time-out) and compares the multiset per operation",
                  "SizeInBytesContained is claimed for the sized variant only (simpleLRUCacheAdapter returns 0 by construction)",
                  "a Put whose negative size is rejected still starts the handlers (lruCache.Put); C15 constrains successful insertions only - recorded as situation handler-fired-on-rejected-put"],
}
PROPS["C17"] = {
  # only observables that do not depend on WHICH entry the memory tier evicts (that is C15's business): Get value/ok, Has,
  # and Has of every key of the alphabet; the Put flag and spill-before-drop are evaluated by the monitors
  "runs": [{"component": "adapter", "labels": {2, 3, 4, 7, 8, 15, 18}, "n_quick": 2000, "n_thorough": 20000}],
  "anchors": ["storageCacherAdapter/storageCacherAdapter.go", "lrucache/capacity/capacityLRUCache.go", "memorydb/memorydb.go"],
  "exhaustive_claim": True,
  "rule": "exhaustive: every op sequence of length 4 (quick) / 5 (thorough) over 10 op instances on keys a,b,c (Put 40/40/40/90/150/0 B, Get a, Get b, Has c, Peek a) and over 8 op instances "
          "(HasOrAdd a/b/c 40 B, Put a 40 B, Put b 90 B, Close, Get a, Has a), each for (cap,bytes) in {(2,100),(1,50),(3,100)}. "
          "random: capacity {1,2,3,5}, byte capacity {1,50,100,2^40}, 3-6 keys each bound to one value (key e bound to the empty value in 1/6 of the histories), sizes {0,10,40,90,150}, 15-50 ops: Put 40-50%, HasOrAdd 15%, "
          "SizeInBytesContained/MaxSize 3%, Get 12%, Has 10%, Peek 10%; "
          "1/8 of the histories add size -1 (rejected, outside the domain), 1/6 add Remove/Clear (outside the domain; the monitor forgets those keys), 1/5 Close the adapter at a random point and go on (further Closes 1/25 per op). "
          "non-trivial = spill (one / several), re-put grow/shrink, re-put-larger-spills, re-put of a spilled key, oversized single item, get-from-persister, empty-value-skipped, rejected negative size, "
          "hasoradd-inserted(-but-added-false)/-present-in-memory/-present-in-persister/-spills, close(-with-spilled-entries, -again), evicted-after-close-dropped, spilled-key-not-found-after-close, get-after-close-skips-persister.",
  "explanation": "Props/C17.v over the transcribed adapter + capacityLRU + map persister; differential run on return values, memory tier (Keys/Len/bytes/Peek), persister contents read directly, Has; "
                 "monitors: every key put so far (through Put or HasOrAdd) Has + found with its value in one of the tiers after every op, Get ops and a final Get sweep, spill-before-drop against the persister contents, Put flag against entries that left memory and against recorded persister writes; "
                 "HasOrAdd: first flag = the key was in a consulted tier, a reported key changes nothing, an unreported key is in the memory tier afterwards, second flag = Put's flag (it is NOT 'inserted': C17_hasoradd_added_means_inserted_refuted); "
                 "the property is about an OPEN persister: what Close does is stated exactly (C17_close, C17_close_freezes_persister, C17_closed_serves_memory_only, C17_spilled_then_closed_not_found; 'no loss after Close' refuted by witness) and monitored: "
                 "after Close the persister contents never change, Has/Get/Keys answer from the memory tier alone, an evicted entry is dropped. Compared labels: Get value/ok, Has (also HasOrAdd's first flag), HasOrAdd's flags, Close's error, MaxSize, Has of every alphabet key.",
  "assumptions": ["values are non-empty byte strings (an empty serialisation is skipped by design: len(evictedValBytes)==0)", "sizes >= 0; each key bound to one immutable value",
                  "persister never failing (memorydb, whose Close does nothing: its contents stay readable for the harness after adapter.Close); values implement SerializedStoredData, the marshaller is never reached",
                  "the no-loss clause is claimed for histories that do not Close the adapter (the property says 'backed by an open persister'); after Close the exact behaviour is proved instead",
                  "Remove/Clear and adapter.Len/Keys (numValuesInStorage) are modelled and compared in dev mode but are outside C17; RegisterHandler/UnRegisterHandler do nothing and are not driven"],
}
PROPS["C12"] = {
    "runs": [{"component": "immunity", "labels": {1, 2, 3, 4, 5, 6, 9, 16, 20, 21}, "n_quick": 2000, "n_thorough": 20000}],
    "anchors": ["immunitycache/cache.go", "immunitycache/chunk.go", "immunitycache/cacheItem.go", "immunitycache/config.go", "txcache/crossTxCache.go"],
    "exhaustive_claim": True,
    "rule": "exhaustive: one chunk (MaxNumItems 4, MaxNumBytes 4, sizes a=2 b=2 c=3 so byte capacity is reached by two items), every sequence of exactly 5 "
            "(quick; 6 thorough) operations over {add a, add b, add c, immunize a, immunize b, remove a, remove b, clear} with batch 1 on ImmunityCache, and of exactly 4 "
            "(5 thorough, + immunize c) with batch 2 on CrossTxCache; every shorter sequence is a checked prefix. random: both kinds, chunks {1,2,4}, MaxNumItems {4,5,8}, "
            "MaxNumBytes {4..100, 2^20}, batch {1,2,3}(x chunks; 1/8 of configs violate the per-chunk guard), 6-10 keys (one empty, one with bytes >= 0x80), sizes "
            "{0,1,2,3,10,>capacity}, 15-60 ops, immunisation before and after insertion, gate-tripping key lists, 1/60 configs rejected by the constructor. "
            "non-trivial = at least one of: eviction, refused add, duplicate add, future immunity applied, immunise resident, remove withdraws immunity, gate refusal, clear.",
    "explanation": "Theorems quantify over all histories, all configs accepted by Verify, sizes >= 0; CrossTxCache is the same state machine (argument mapping in the harness).",
    "assumptions": ["item sizes >= 0 (the clamp max(numBytes,0) is modelled; proved inactive for sizes >= 0)",
                    "payloads are byte strings (kind 1: WrappedTransaction{Tx: &transaction.Transaction{Data: payload}})",
                    "map iteration order is canonicalised by sorting; groupKeysByChunk's group order is irrelevant (chunks independent)",
                    "hospitality / log counters are not modelled (not observable through the API)"],
}
PROPS["C13"] = dict(PROPS["C12"], runs=[{"component": "immunity", "labels": {1, 2, 3, 4, 5, 6, 9, 10, 11, 12, 13, 14, 15, 16, 17, 20, 21}, "n_quick": 2000, "n_thorough": 20000}])

PROPS["C03"] = {
    "runs": [{"component": "pool", "labels": {1, 2, 10, 11, 12, 13, 14}, "n_quick": 1500, "n_thorough": 30000}],
    "anchors": POOL_ANCHORS + ["txcache/README.md"], "rule": POOL_RULE, "exhaustive_claim": True,
    "explanation": "Exact equality of the selected hash sequence and of the accumulated gas between the implementation and the deterministic "
                   "model (Selection.v: loop with pick = the unique maximum of the strict total order more_valuable), pool views unchanged by a "
                   "selection; monitors: an independent Go reference of the documented greedy merge, repeatability, prefix under lower "
                   "maxNum/gasRequested/time budget, same set inserted in reverse order with another NumChunks selects identically, stored "
                   "PricePerUnit = floor(fee/gasLimit) computed with math/big.",
    "assumptions": ["hash determines content", "container/heap is replaced by 'extreme element of a strict total order' (proved unique; validated by the exact comparison)",
                    "a quotient fee/gasLimit >= 2^64 is unrepresentable in the uint64 field: the code saturates at 2^64-1 (situation ppu-unrepresentable)"],
}
PROPS["C04"] = {
    "runs": [{"component": "pool", "labels": {1, 13, 14}, "n_quick": 1500, "n_thorough": 30000}],
    "anchors": POOL_ANCHORS, "rule": POOL_RULE, "exhaustive_claim": True,
    "explanation": "Props/C04.v over all histories; correspondence: AddTx/RemoveTxByHash return values, sorted Keys and the exact per-sender hash "
                   "sequences after every operation (eviction disabled in these histories so that C07 is not a premise); monitors implement the "
                   "reference rules of the property text. The full 'dropped until it fits' clause is refuted for the code (F4, known finding).",
    "assumptions": ["hash determines content", "uint64 nonces"],
}
PROPS["C05"] = {
    # labels 30/32: the Coq-defined C05 predicate on the IMPLEMENTATION's views (30) and on the model's own views (32)
    "runs": [{"component": "pool", "labels": {30, 32}, "n_quick": 1000, "n_thorough": 20000},
             {"component": "pool", "variant": "evict", "labels": {30, 32}, "n_quick": 1200, "n_thorough": 20000}],
    "anchors": POOL_ANCHORS, "rule": POOL_RULE + " Correspondence for C05: after every AddTx/RemoveTxByHash/Clear the implementation's views (Keys, per-sender "
            "lists, the three counters) are fed back to the model, which evaluates the Coq-defined invariant predicate c05_viewsb on them (label 30) and on its own "
            "views (label 32); exact equality of lists/eviction order is left to C04/C07, so that a change there does not touch C05. The 'evict' variant enables eviction "
            "(thresholds 4-6 / 250-900 B, batch 1-7).",
    "exhaustive_claim": True,
    "explanation": "Props/C05.v: the invariant (both indexes the same duplicate-free set, three counters exact, no empty sender list) proved for every "
                   "history incl. eviction and Clear; correspondence on counters and views without eviction, monitors everywhere.",
    "assumptions": ["hash determines content", "sequential histories (C14 covers concurrency)"],
}
PROPS["C06"] = {
    "runs": [{"component": "pool", "labels": {31}, "n_quick": 1000, "n_thorough": 20000},
             {"component": "pool", "variant": "evict", "labels": {31}, "n_quick": 1200, "n_thorough": 20000}],
    "anchors": POOL_ANCHORS, "rule": POOL_RULE + " Correspondence for C06: after every AddTx the implementation's views are judged by the Coq-defined predicate "
            "c06_viewsb (per-sender count limit; with eviction: at most one transaction / sender / the last size in excess), label 31; the per-sender BYTE clause is "
            "evaluated by the monitor (known finding F4). The 'evict' variant enables eviction.",
    "exhaustive_claim": True,
    "explanation": "Props/C06.v: per-sender count bound for all histories; byte bound partial (F4 refuted witness); pool-wide excess of at most the "
                   "transaction just added and eviction running until within thresholds (fuel and exhaustiveness proved).",
    "assumptions": ["sizes >= 0", "thresholds as accepted by NewTxCache (>= 0, batch >= 1)", "hash determines content"],
}
PROPS["C07"] = {
    "runs": [{"component": "pool", "labels": {1, 10, 11, 12, 13, 14}, "n_quick": 1500, "n_thorough": 30000}],
    "anchors": POOL_ANCHORS, "rule": POOL_RULE, "exhaustive_claim": True,
    "explanation": "Props/C07.v; correspondence: exact pool views (Keys, per-sender lists, counters) after every AddTx on eviction-enabled "
                   "configurations, i.e. the exact evicted set; monitors: an independent Go reference of the documented eviction procedure.",
    "assumptions": ["hash determines content", "container/heap replaced by 'least element of a strict total order' (proved; validated by exact comparison)"],
}

PROPS["C10"] = {
  "runs": [{"component": "crash", "labels": None, "n_quick": 40, "n_thorough": 300}],
  "extras": [{"component": "crash", "timeout": 900}],
  "anchors": ["leveldb/leveldb.go", "leveldb/leveldbSerial.go", "leveldb/serialActions.go", "leveldb/common.go", "leveldb/batch.go"],
  "exhaustive_claim": True,
  "rule": "differential (component crash): every workload runs on the unmodified leveldb.NewDB / NewSerialDB over a recording storage.Storage (VerifSetOpenHook); "
          "afterwards at EVERY recorded storage event (first open and reopen included) and every operation boundary crash images are built for the unsynced tail "
          "none / torn at a seeded byte offset / all, written as plain files, reopened with the unmodified constructor and read with RangeKeys+Get. "
          "exhaustive: every sequence of 3 (quick) / 4 (thorough) ops over {Put a 01, Put b 02, Put a 03, Remove a, Close+Reopen}, MaxBatchSize 1,2,3, DB and SerialDB (750 / 3750 histories); "
          "random: 8-30 ops Put 60%/Remove 24%/Get,Has 4%/Close+Reopen (<=2)/bursts crossing a flush, 3-5 keys of 8, values {nil, empty, 1 byte, longer}, MaxBatchSize {1,2,3,5}; 1 history in 10 with "
          "BatchDelaySeconds=1 and 1-2 timer flushes awaited with real sleeps (hazard detection + up to 4 retries). Per op the model must predict: recovered map at the boundary for tail none and tail all, "
          "the sequence of distinct maps over the crash points inside the op for both tails, number of journal records and of journal fsyncs; torn-tail maps are fed back (inserted op 9) and judged by the model "
          "against {recover (crash_drop n log)} over the op's micro-states. Monitors: harness-side flush bookkeeping from the property text (recovered map = state after exactly j flushes, completed <= j <= started; "
          "diagnosis completed-flush-lost / partial-or-out-of-order / unreadable image), timer flush fsync'ed within BatchDelaySeconds+1s of the oldest pending acknowledgement. "
          "extra: the same sweep on 40 / 500 seeded workloads (4 torn offsets per point in thorough), see extra_checks.rule. non-trivial = hits crash-inside-flush, torn-record-dropped, ... ",
  "explanation": "PARTIAL. Props/C10.v proves the flush/sync/crash LOGIC on a log model (Persist/Crash.v: one journal record per db.Write, synced flags, crash = any suffix-loss of unsynced whole records, micro-step flush) "
                 "for all histories, crash points, tails, MaxBatchSize, both persisters, with Sync as a model parameter (theorem refuted for Sync=false). The model is tied to /repo by exact agreement on every crash observable; "
                 "fsync semantics, goleveldb journal/recovery, timer real-time bound are validated by crash images, not proved.",
  "assumptions": ["PARTIAL: real fsync semantics, goleveldb's journal format/CRC/recovery/table+manifest code and the timer's real-time bound are validated (crash images reopened by the unmodified code), not proved",
                  "crash-image semantics of the harness: unsynced bytes survive as a prefix in write order; Create/Remove/Rename/SetMeta(CURRENT) take effect when issued (no directory-fsync modelling, no reordering between files)",
                  "db.Write of an empty batch does not touch the journal (goleveldb early return), transcribed in the model and checked by label 7",
                  "the initial directory is fully synced (empty in all runs); sequential histories; the timer is the event Tick; storage write ERRORS are not injected",
                  "reopening an existing directory makes its journal content durable (goleveldb recovery writes fsync'ed table+manifest): modelled by [reopen] = ld_sync, validated differentially on the Sync:false mutant"],
}

PROPS["C11"] = {
  "runs": [],
  "extras": [{"component": "conc", "timeout": 900}, {"component": "conc", "race": True, "timeout": 900}],
  "race": True,
  "anchors": ["leveldb/leveldb.go", "leveldb/leveldbSerial.go", "leveldb/batch.go", "leveldb/serialActions.go"],
  "exhaustive_claim": False,
  "rule": "no sequential history run (that is C08). Extra, run once in the plain and once in the race-detector binary: real leveldb.DB / leveldb.SerialDB on LevelDB "
          "directories, MaxBatchSize 1-3 (50/100 with the 1 s timer), every Put writes a unique value. (a) 16 forced schedules through the verif pause hook (park a goroutine "
          "at a pause point, run the others, release): pre-fix witnesses F14a (read during hand-over), F14c (two hand-overs out of order), F11 (Get parked between IsRemoved and "
          "batch.Get at pause point db.get.afterIsRemoved), flusher parked inside its critical section after the write, reader parked between batch miss and LevelDB read, "
          "Has parked then Remove, Put parked after its batch mutation, two flushers, 1 s timer flush parked; + 300 (quick) / 1500 (thorough) seeded random park/release schedules "
          "(2-3 goroutines x 2-4 ops, 2 keys, every pause point parks w.p. 1/2, random release order). (b) stress, time-bounded 8 s (quick) / 120 s (thorough) per binary: 3-8 goroutines x 20-60 ops "
          "over 2-4 keys, delay plans none/Gosched/0-300us sleeps at the pause points, some 1.4 s histories with BatchDelaySeconds=1 so that the timer flushes. (c) every history is "
          "judged per key by a register linearizability checker (WGL search; call/return stamps from one atomic counter taken before the call / after the return, so intervals are "
          "never too narrow). A WARNING: DATA RACE in the race binary is a failure (stderr captured; exit code 66 as well). evaluations = histories judged; distinct = distinct scenarios/seeds.",
  "explanation": "PARTIAL. Props/C11.v: on an interleaving model whose atomic actions are the mutBatch-protected sections, the batch-internal critical sections and the goleveldb calls of the CURRENT code "
          "(explicit RW-lock, unbuffered-channel process loop serving any parked request, any number of goroutines/keys/calls, every schedule, every MaxBatchSize, every initial disk) both persisters "
          "are linearizable: classical definition against MapSpec.spec_run with the linearization order exhibited, plus read-after-write and monotonic-reads corollaries, by invariants (unbounded). "
          "Pre-fix variants kept as _refuted witnesses. The model is tied to /repo by forcing the witness schedules on the real code and by stress histories judged by an independent checker.",
  "assumptions": ["PARTIAL: the Go memory model and real preemption are not modelled; 'one critical section = one atomic action' is licensed by data-race freedom, which is VALIDATED by running the same workloads under -race, not proved",
                  "PARTIAL: refinement of the model by the Go code is validated (forced schedules + stress + linearizability checker), not proved",
                  "goleveldb calls (Write/Get/Has) are atomic and linearizable (same stand-in as C08)",
                  "no Close/Destroy during the run, LevelDB writes succeed (error paths not modelled)",
                  "Go's writer preference of RWMutex and the real timer period only remove schedules; the theorems cover the larger set",
                  "call = first effective action, return = last action of an operation (narrower intervals than the real ones: the stronger claim)"],
}
PROPS["C14"] = {
  "runs": [],
  "extras": [{"component": "stress", "race": True, "timeout": 900}],
  "race": True,
  "anchors": ["txcache/txCache.go", "txcache/eviction.go", "txcache/txListBySenderMap.go", "txcache/txByHashMap.go",
              "txcache/txListForSender.go", "txcache/selection.go", "txcache/maps/concurrentMap.go", "txcache/crossTxCache.go",
              "immunitycache/cache.go", "immunitycache/chunk.go", "lrucache/lrucache.go", "lrucache/capacity/capacityLRUCache.go",
              "timecache/timeCacheCore.go", "timecache/timeCacher.go", "fifocache/fifocacheSharded.go"],
  "rule": "no history-based run. extra (component stress, race-detector binary, GORACE=halt_on_error=1 exitcode=66): 10 (quick) / 60 (thorough, scale 3) rounds, "
          "GOMAXPROCS cycling 16,2,4,1,3,8; per round 17 phases, each = 8..95 goroutines over all public operations of one object: "
          "txcache-addonly / -mixed (add+remove) / -limits (per-sender count 5) / -evict (thresholds 20-60 txs, batches 1/3/7) / -clear / -diagnose (TRACE logging), "
          "immunity, crosstxcache, immunity-clear, lru-simple, lru-sized, lru-evict-callback, capacity-lru, fifo-sharded, timecache (TimeCache, peerTimeCache, timeCacher + sweeps), "
          "concurrent-map, concurrent-map-clear; seeded delay plan (Gosched / 5x Gosched / 20-320us sleep) at the four txcache pause points, yields in host/session/iteration callbacks, "
          "fresh WrappedTransaction per AddTx, same transaction handed in by several goroutines; writers run in epochs with a quiescent instant after each; watchdog 25 s / 120 s per phase, "
          "recovered panics. Once per run: lock-order graph re-extracted from the source (go/parser) and decided acyclic by coqc; one directed schedule (eviction paused, complete re-add) "
          "reported as observation. evaluations = monitor evaluations, distinct = phases run.",
  "explanation": "PARTIAL. Props/C14.v proves what an interleaving model carries: quiescent counters for every schedule by invariant (and the Clear counterexample), C01/C02 for any "
                 "per-sender snapshots taken at different instants, commutation of concurrent add-only calls (duplicates allowed), the atomic-section theorem instantiated for the immunity cache "
                 "(coarse, and with ImmunizeKeys split into per-chunk sections), per-sender list invariants after any sequence of list operations, soundness of the lock-order check. "
                 "Race freedom, no panic, no deadlock, preemption are VALIDATED by the race-detector stress run, whose verdict licenses the atomic-section abstraction.",
  "assumptions": ["PARTIAL: data races, panics inside Go runtime structures, goroutine/channel deadlocks and preemption are validated by stress under -race, not proved",
                  "atomic-section abstraction: each critical section (chunk lock, sender-list lock, mutTxOperation, capacityLRU lock, timeCacheCore lock) is one step of the model",
                  "hash determines content; host/session callbacks do not re-enter the cache",
                  "lock-order graph: mutexes identified per struct field (type level); 1 self-loop that exists only through interface dispatch (storageCacherAdapter wrapping its own type) set aside and listed",
                  "schedules explored are those the Go scheduler produces under the delay plan: a sample, not all"],
}


# component name -> (Coq module, component value) for the in-Coq cross-check of the extracted runner
COMPONENT_COQ = {
    "shardid": ("Persist.ShardIdComp", "shardid_component"),
    "pool": ("Txcache.PoolComp", "pool_component"),
    "timecache": ("Time.TimeCacheComp", "timecache_component"),
    "unit": ("Unit.UnitComp", "unit_component"),
    "persist": ("Persist.PersistComp", "persist_component"),
    "fifo": ("Fifo.FifoComp", "fifo_component"),
    "lru": ("Lru.LruComp", "lru_component"),
    "adapter": ("Lru.AdapterComp", "adapter_component"),
    "immunity": ("Immunity.ImmunityComp", "immunity_component"),
    "crash": ("Persist.CrashComp", "crash_component"),
}


# concurrency-only manifestations of C06 / C17 (seeded changes showed they exist): the same stress engine as C14,
# restricted to the phases that concern the property, under the race detector
PROPS["C17"]["extras"] = [{"component": "stress", "race": True, "timeout": 600}]
PROPS["C17"]["race"] = True
PROPS["C17"]["rule"] += (" extra (race-detector binary): 12 rounds of the storage-cacher-adapter stress phase (6 writers x 150 keys + re-puts with other sizes, 6 readers doing "
                         "Has/Get of keys whose Put has returned, a persister that is slow on every third write): an acknowledged key must be found at every later instant.")
PROPS["C06"]["extras"] = [{"component": "stress", "race": True, "timeout": 600}]
PROPS["C06"]["race"] = True
PROPS["C06"]["rule"] += (" extra (race-detector binary): 12 rounds of the txcache-evict and txcache-limits stress phases; after all goroutines have finished, further insertions must leave "
                         "the pool within threshold + the transaction just added (eviction keeps running), per-sender count limit probed at every instant.")

# C16 quantifies over sequences; a seeded change (Get refilling the cache after a lock gap) showed that concurrent callers can
# break "the cache never serves a value different from what the persister holds" for good: same stress engine, storage-unit phase
PROPS["C16"]["extras"] = PROPS["C16"]["extras"] + [{"component": "stress", "race": True, "timeout": 600}]
PROPS["C16"]["race"] = True
PROPS["C16"]["rule"] += (" extra (race-detector binary, beyond the property's quantifier which is over sequences): 12 rounds x 25 epochs of 6 goroutines doing Put/Remove/Get/Has/ClearCache on 4 keys of a "
                         "storage unit (LRU cache of 2-6 entries over a memorydb whose reads yield the processor); at every instant with nothing in flight the cache holds no value that differs from the "
                         "persister's and Get/Has answer like the persister.")
for _p in ("C05", "C06", "C04"):
    PROPS[_p]["rule"] += (" One history in sixteen puts one configuration field on either side of a boundary of config.verify(); the model's constructor "
                          "(TxTypes.verify_config, proved to imply the configuration hypotheses of the C06 theorems: C06_accepted_configurations) must give NewTxCache's verdict.")
# C09 quantifies over sequential histories; overlapping flushes (a seeded change) can lose acknowledged writes for good
PROPS["C09"]["extras"] = PROPS["C09"].get("extras", []) + [{"component": "persist", "timeout": 600}]
PROPS["C09"]["rule"] += (" extra (beyond the sequential quantifier): 90 (quick) / 900 (thorough) rounds of 2-6 goroutines writing their own keys through one persister (DB, SerialDB, sharded over SerialDB; "
                         "MaxBatchSize 1-5 so that size-triggered flushes overlap), then Close and a fresh persister: Get/Has/RangeKeys give exactly the last acknowledged write of every key.")
# the eviction gate (doEviction's flag + mutex protocol) as an interleaving model: Props/C14b.v
PROPS["C14"]["coq_props"] = ["C14", "C14b"]
PROPS["C06"]["coq_props"] = ["C06", "C14b"]
PROPS["C06"]["assumptions"] = PROPS["C06"]["assumptions"] + [
    "the eviction gate (isEvictionInProgress + evictionMutex) is PROVED never to be left closed, for any number of threads and any schedule, on a small-step model of doEviction "
    "(Conc/EvictionGate.v, Props/C14b.v); that the Go code refines this model is validated by the stress extra, not proved"]
# the same engine restricted to the phases of the property's own cache: a concurrency-only defect of that cache is then reported by
# the property's own check too, not only by C14 (validation beyond the sequential quantifier of these properties)
for _p, _what in (("C12", "immunity-cache, cross-tx-cache and immunity-clear"), ("C13", "immunity-cache, cross-tx-cache and immunity-clear"),
                  ("C15", "lru and capacity-lru"), ("C20", "fifo-sharded"), ("C05", "txcache limits, mixed, evict, add-only, clear and concurrent-map")):
    PROPS[_p]["extras"] = PROPS[_p].get("extras", []) + [{"component": "stress", "race": True, "timeout": 600}]
    PROPS[_p]["race"] = True
    PROPS[_p]["rule"] += " extra (race-detector binary, beyond the sequential quantifier): 12 rounds of the %s stress phases of the C14 engine with their monitors." % _what
# MONITOR-ONLY scale runs (variant "scale"): histories with populations beyond 1024 / 4096 entries, executed on the implementation with the
# monitors (the property text as Go predicates, reference queues / reference LRU) but WITHOUT the model: a threshold placed at a power of two
# inside a batching, sweeping or purging path shows here. Validation, not proof, and not correspondence either.
for _p, _c in (("C15", "lru"), ("C12", "immunity"), ("C13", "immunity"), ("C20", "fifo"), ("C18", "timecache")):
    PROPS[_p]["runs"] = PROPS[_p]["runs"] + [{"component": _c, "labels": None, "variant": "scale", "monitor_only": True, "n_quick": 0, "n_thorough": 0}]
    PROPS[_p]["rule"] += " Plus monitor-only scale histories (populations of 1100 entries (1500 for the time caches); the model is not run on them)."
PROPS["C08"]["extras"] = PROPS["C08"].get("extras", []) + [{"component": "persist", "timeout": 600}]
PROPS["C08"]["rule"] += " extra: 20 000 distinct keys pending in one batch (MaxBatchSize 50 000), each read back at once (monitor only)."
for _p in ("C01", "C02"):
    PROPS[_p]["extras"] = PROPS[_p].get("extras", []) + [{"component": "pool", "timeout": 600}]
    PROPS[_p]["rule"] += " extra (monitor only): one selection over a pool of 70 004 accounts (140 004 in thorough) judged by the same C01/C02 monitors."
# linear-time monitor-only checks at populations beyond 65 536 entries (harness/scale)
for _p in ("C12", "C13", "C15", "C17", "C18", "C20"):
    PROPS[_p]["extras"] = PROPS[_p].get("extras", []) + [{"component": "scale", "timeout": 600}]
    PROPS[_p]["rule"] += " extra (monitor only, harness/scale): 70 000 insertions into a structure of 66 000 entries judged by linear-time oracles written from the property text."
PROPS["C16"]["coq_props"] = ["C16", "C16b"]
PROPS["C16"]["assumptions"] = [a for a in PROPS["C16"]["assumptions"] if not a.startswith("LRU / SizeLRU / FIFOSharded satisfy cacher_laws")] + [
    "cacher_laws are PROVED for the models of the sized LRU, the plain LRU, the lruCache wrapper and the FIFO sharded cache (Props/C16b.v); those models are tied to the Go caches by the C15/C20 checks"]

PROPS["C03"]["coq_props"] = ["C03", "C03b"]
PROPS["C07"]["coq_props"] = ["C07", "C03b"]
for _p in ("C03", "C07"):
    PROPS[_p]["assumptions"] = [a for a in PROPS[_p]["assumptions"] if "container/heap" not in a] + [
        "container/heap is TRANSCRIBED (Txcache/Heap.v: Init/Push/Pop/up/down with fuel proved sufficient) and its Pop is PROVED to return the element the model's "
        "pick_best / worst_index designates, keeping a heap over the remaining cursors; the WHOLE loops run on that heap (Txcache/HeapLoop.v: heap.Init, a heap.Push per bunch, heap.Pop/heap.Push per iteration, all eviction passes) "
        "are PROVED equal to the models used elsewhere: heap_select = select for all bunches with distinct hashes, hdo_eviction = do_eviction for all pools satisfying the invariant (Props/C03b.v)"]

# selections running WHILE transactions are being added, removed and evicted: the C01/C02 monitors judge every concurrent selection result
for _p in ("C01", "C02"):
    PROPS[_p]["extras"] = PROPS[_p].get("extras", []) + [{"component": "stress", "race": True, "timeout": 600}]
    PROPS[_p]["race"] = True
    PROPS[_p]["rule"] += " extra (race-detector binary, beyond the sequential quantifier): 12 rounds of the txcache add-only, mixed and limits stress phases; every concurrent selection result is judged by the C01/C02 monitors."
PROPS["C11"]["extras"] = PROPS["C11"]["extras"] + [{"component": "persist", "timeout": 600}]
PROPS["C11"]["rule"] += " Plus the sequential special case at scale (persist extra, monitor only): 20 000 keys pending in one batch read back at once, values of 128 KiB - 1 MiB put over a pending Remove / Put and read back."
PROPS["C08"]["rule"] += " The same extra puts values of 128 KiB - 1 MiB over a pending Remove and reads them back, and overwrites slices returned by Get for flushed keys before reading again."
PROPS["C09"]["rule"] += " The scale round also stores values of 131072, 131073, 200000 and 1048577 bytes and a key of 131081 bytes and compares them in full through RangeKeys after Close and reopen."

# a dependency that fails once: the journal fsync of a size-triggered flush reports an error while the handle stays in use
for _p in ("C08", "C11"):
    PROPS[_p]["extras"] = PROPS[_p]["extras"] + [{"component": "crash", "timeout": 600}]
    PROPS[_p]["rule"] += " extra (crash component, recording storage): a size-triggered flush whose journal fsync fails once; every acknowledged write is still what the reads answer."
PROPS["C10"]["rule"] += " The crash extra also runs the flush-fails-once scenario (journal fsync error injected once)."
PROPS["C19"]["extras"] = PROPS["C19"]["extras"] + [{"component": "persist", "timeout": 600}]
PROPS["C19"]["rule"] += " extra (persist): a constructor call on an existing sharded persister that fails at one shard leaves the data of the other shards alone."
PROPS["C08"]["rule"] += " The persist extra also uses a CLOSED handle again (DestroyClosed, late Put / Remove) while another persister has writes pending."
