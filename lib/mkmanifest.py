#!/usr/bin/env python3
"""Regenerates /verif/MANIFEST.json from lib/props.py and lib/manifest_texts.py."""
import json, os, sys, subprocess
ROOT = os.path.dirname(os.path.dirname(os.path.abspath(__file__)))
sys.path.insert(0, os.path.join(ROOT, "lib"))
from props import PROPS
from manifest_texts import TEXTS, NOT_APPLICABLE, ENGINES

all_ids = [json.loads(l)["id"] for l in open(os.path.join(ROOT, "properties.jsonl"))]
hooks_commits = [l.strip() for l in open(os.path.join(ROOT, "lib", "hook_commits.txt")) if l.strip()] \
    if os.path.exists(os.path.join(ROOT, "lib", "hook_commits.txt")) else []
m = {
    "version": 1,
    "setup_cmd": "./setup.sh",
    "hooks": {
        "guard": "verif",
        "enable": "go build -tags verif (the harness module replaces github.com/multiversx/mx-chain-storage-go with /repo)",
        "baseline_off_cmd": "cd /repo && go test -mod=mod -json -vet=off -count=1 -timeout 25m ./...",
        "source_commits": hooks_commits,
        "add_only": True,
    },
    "engines": ENGINES,
    "checks": [],
    "not_applicable": [],
    "notes": "All checks go through ./check <id>; evidence is rewritten on every run; known findings are listed in known_findings.json (read-only at run time). See DESIGN.md.",
}
for pid in all_ids:
    if pid in PROPS and pid in TEXTS:
        t = TEXTS[pid]
        m["checks"].append({
            "property_id": pid,
            "quick_cmd": "./check %s --tier quick" % pid,
            "thorough_cmd": "./check %s --tier thorough" % pid,
            "evidence_file": "evidence/%s.json" % pid,
            "replay_cmd_template": "./check %s --replay {path}" % pid,
            "engine": "coq+go-harness",
            "level_claimed": {"category": "proof", "text": t["text"], "design_ref": t.get("design_ref", "DESIGN.md §4 " + pid)},
            "level_note": t["note"],
            "technique": t["technique"],
        })
    else:
        m["not_applicable"].append({"property_id": pid, "reason": NOT_APPLICABLE.get(pid, "check not built yet (work in progress); the technique applies, see DESIGN.md §4")})
json.dump(m, open(os.path.join(ROOT, "MANIFEST.json"), "w"), indent=1)
print("MANIFEST.json: %d checks, %d not_applicable" % (len(m["checks"]), len(m["not_applicable"])))
