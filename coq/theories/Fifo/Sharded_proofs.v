(** Lemmas about the sharded map and the cache wrapper: the invariant of every reachable cache,
    and the simulation of the cache by a list of fixed-length queues ([views]). *)
From Coq Require Import List NArith PeanoNat Lia Bool Permutation ZifyN ZifyNat ZifyBool.
From Verif Require Import Base.BStr Fifo.Ring Fifo.Ring_proofs Fifo.Sharded Fifo.FifoSpec.
Import ListNotations.
Local Open Scope nat_scope.

(** * the dependency's fnv32 is [BStr.fnv32] bit for bit *)
Lemma land_mask32 a : N.land a 4294967295 = N.modulo a two32.
Proof. change 4294967295%N with (N.ones 32). rewrite N.land_ones. reflexivity. Qed.

Lemma fnv32_mask_eq k : fnv32_mask k = fnv32 k.
Proof.
  unfold fnv32_mask, fnv32. generalize fnv_offset. induction k as [|b k IH]; intros h; [reflexivity|].
  cbn [fold_left]. rewrite land_mask32. apply IH.
Qed.

(** * shard size *)
Lemma shard_size_ceil sz n : 1 <= n -> n <= sz -> shard_size sz n = (sz + n - 1) / n.
Proof.
  intros Hn Hsz. unfold shard_size.
  pose proof (Nat.div_mod sz n ltac:(lia)) as Hdm.
  pose proof (Nat.mod_upper_bound sz n ltac:(lia)) as Hr.
  set (q := sz / n) in *. set (r := sz mod n) in *.
  assert (Hq : 1 <= q) by (destruct q; [nia|lia]).
  destruct (Nat.eqb_spec q 0) as [E|_]; [lia|].
  destruct (Nat.eqb_spec r 0) as [E|E].
  - apply (Nat.div_unique _ n q (n - 1)); lia.
  - apply (Nat.div_unique _ n (S q) (r - 1)); nia.
Qed.

Lemma shard_size_ge2 sz n : 1 <= n -> 2 * n <= sz -> 2 <= shard_size sz n.
Proof.
  intros Hn Hsz. unfold shard_size.
  pose proof (Nat.div_mod sz n ltac:(lia)) as Hdm.
  pose proof (Nat.mod_upper_bound sz n ltac:(lia)) as Hr.
  set (q := sz / n) in *. set (r := sz mod n) in *.
  assert (Hq : 2 <= q) by nia.
  destruct (Nat.eqb_spec q 0); [lia|]. destruct (r =? 0); lia.
Qed.

(** N shards of ceil(S/N)-1 usable slots never exceed S *)
Lemma shard_size_total sz n : 1 <= n -> n <= sz -> n * (shard_size sz n - 1) <= sz.
Proof.
  intros Hn Hsz. unfold shard_size.
  pose proof (Nat.div_mod sz n ltac:(lia)) as Hdm.
  pose proof (Nat.mod_upper_bound sz n ltac:(lia)) as Hr.
  set (q := sz / n) in *. set (r := sz mod n) in *.
  assert (Hq : 1 <= q) by (destruct q; [nia|lia]).
  destruct (Nat.eqb_spec q 0); [lia|]. destruct (Nat.eqb_spec r 0); nia.
Qed.

(** * lists *)
Lemma map_set_nth {A B} (f : A -> B) i x l : map f (set_nth i x l) = set_nth i (f x) (map f l).
Proof. revert i; induction l as [|y l IH]; intros [|i]; cbn; auto. rewrite IH. reflexivity. Qed.

Lemma nth_set_nth_same {A} i (x d : A) l : i < length l -> nth i (set_nth i x l) d = x.
Proof. revert i; induction l as [|y l IH]; intros [|i] H; cbn in *; try lia; auto. apply IH. lia. Qed.

Lemma nth_set_nth_other {A} i j (x d : A) l : i <> j -> nth j (set_nth i x l) d = nth j l d.
Proof. revert i j; induction l as [|y l IH]; intros [|i] [|j] H; cbn; auto; try lia. Qed.

Lemma set_nth_nth {A} i (d : A) l : i < length l -> set_nth i (nth i l d) l = l.
Proof. revert i; induction l as [|y l IH]; intros [|i] H; cbn in *; try lia; auto. rewrite IH; auto. lia. Qed.

Lemma route_lt n k : 1 <= n -> route n k < n.
Proof.
  intros Hn. unfold route.
  pose proof (N.mod_lt (fnv32_mask k) (N.of_nat n) ltac:(lia)). lia.
Qed.

(** * the invariant of the sharded map *)
Record cmap_inv (m : nat) (c : cmap) : Prop := mkCInv {
  ci_m : 2 <= m;
  ci_n : 1 <= shardCount c;
  ci_len : length (shards c) = shardCount c;
  ci_shards : forall i s, nth_error (shards c) i = Some s -> shard_inv s /\ maxSize s = m;
  ci_route : forall i s k, nth_error (shards c) i = Some s -> lookup s k <> None -> route (shardCount c) k = i
}.

Lemma get_shard_nth m c k : cmap_inv m c ->
  nth_error (shards c) (route (shardCount c) k) = Some (get_shard c k).
Proof.
  intros H. unfold get_shard. apply nth_error_nth_lt. rewrite (ci_len _ _ H). apply route_lt. apply (ci_n _ _ H).
Qed.

Lemma get_shard_inv m c k : cmap_inv m c -> shard_inv (get_shard c k) /\ maxSize (get_shard c k) = m.
Proof. intros H. eapply ci_shards; [exact H|]. eapply get_shard_nth. exact H. Qed.

Lemma cmap_new_inv sz n : 1 <= n -> 2 * n <= sz -> cmap_inv (shard_size sz n) (cmap_new sz n).
Proof.
  intros Hn Hsz. pose proof (shard_size_ge2 sz n Hn Hsz) as Hm.
  constructor; cbn [shardCount shards cmap_new]; auto.
  - apply repeat_length.
  - intros i s H. apply nth_error_In in H. apply repeat_spec in H. subst.
    split; [apply new_shard_inv; lia|reflexivity].
  - intros i s k H Hl. apply nth_error_In in H. apply repeat_spec in H. subst. cbn in Hl. congruence.
Qed.

Lemma put_shard_inv m c k s' :
  cmap_inv m c -> shard_inv s' -> maxSize s' = m ->
  (forall k', lookup s' k' <> None -> k' = k \/ lookup (get_shard c k) k' <> None) ->
  cmap_inv m (put_shard c k s').
Proof.
  intros H Hs' Hm Hsub. pose proof (get_shard_nth m c k H) as Hg.
  assert (Hr : route (shardCount c) k < length (shards c))
    by (rewrite (ci_len _ _ H); apply route_lt; apply (ci_n _ _ H)).
  constructor; cbn [shardCount shards put_shard].
  - apply (ci_m _ _ H).
  - apply (ci_n _ _ H).
  - rewrite set_nth_length. apply (ci_len _ _ H).
  - intros i s Hi. rewrite nth_error_set_nth in Hi by exact Hr.
    destruct (Nat.eqb_spec i (route (shardCount c) k)) as [->|Hne].
    + inversion Hi; subst. auto.
    + eapply ci_shards; eauto.
  - intros i s k' Hi Hl. rewrite nth_error_set_nth in Hi by exact Hr.
    destruct (Nat.eqb_spec i (route (shardCount c) k)) as [->|Hne].
    + inversion Hi; subst. destruct (Hsub k' Hl) as [->|Hl']; [reflexivity|].
      eapply ci_route; eauto.
    + eapply ci_route; eauto.
Qed.

Lemma cmap_set_inv m c k v : cmap_inv m c -> k <> [] -> cmap_inv m (cmap_set k v c).
Proof.
  intros H Hk. destruct (get_shard_inv m c k H) as [Hs Hm]. unfold cmap_set.
  apply put_shard_inv; auto.
  - apply shard_set_inv; assumption.
  - intros k' Hl.
    destruct (shard_set_spec k v (get_shard c k) Hs) as [_ Hlk]; [rewrite Hm; apply (ci_m _ _ H)|exact Hk|].
    rewrite Hlk in Hl. destruct (beqb k' (q_victim (blank k (view (get_shard c k))))); [congruence|].
    destruct (beqb_spec k' k); [left; assumption|right; exact Hl].
Qed.

Lemma cmap_set_if_absent_fst k v c :
  fst (cmap_set_if_absent k v c) = put_shard c k (fst (shard_set_if_absent k v (get_shard c k))) /\
  snd (cmap_set_if_absent k v c) = snd (shard_set_if_absent k v (get_shard c k)).
Proof. unfold cmap_set_if_absent. destruct (shard_set_if_absent k v (get_shard c k)); split; reflexivity. Qed.

Lemma cmap_set_if_absent_inv m c k v : cmap_inv m c -> k <> [] -> cmap_inv m (fst (cmap_set_if_absent k v c)).
Proof.
  intros H Hk. destruct (get_shard_inv m c k H) as [Hs Hm].
  destruct (cmap_set_if_absent_fst k v c) as [-> _].
  apply put_shard_inv.
  - exact H.
  - apply shard_set_if_absent_inv; assumption.
  - rewrite shard_set_if_absent_maxSize. exact Hm.
  - intros k' Hl. destruct (lookup (get_shard c k) k) eqn:Ek.
    + rewrite shard_set_if_absent_present in Hl by congruence. right. exact Hl.
    + destruct (shard_set_if_absent_spec k v (get_shard c k) Hs) as (_ & _ & Hlk);
        [rewrite Hm; apply (ci_m _ _ H)|exact Ek|].
      rewrite Hlk in Hl. destruct (beqb k' (q_victim (view (get_shard c k)))); [congruence|].
      destruct (beqb_spec k' k); [left; assumption|right; exact Hl].
Qed.

Lemma cmap_remove_inv m c k : cmap_inv m c -> cmap_inv m (cmap_remove k c).
Proof.
  intros H. destruct (get_shard_inv m c k H) as [Hs Hm]. unfold cmap_remove.
  apply put_shard_inv; auto.
  - apply shard_remove_inv; assumption.
  - rewrite shard_remove_maxSize. exact Hm.
  - intros k' Hl. destruct (shard_remove_spec k (get_shard c k) Hs) as [_ Hlk].
    rewrite Hlk in Hl. destruct (beqb k' k); [congruence|right; exact Hl].
Qed.

Lemma cmap_clear_inv m c : cmap_inv m c -> cmap_inv m (cmap_clear c).
Proof.
  intros H. unfold cmap_clear. destruct (cmap_keys c) as [ks|]; [|exact H].
  revert c H. induction ks as [|k ks IH]; intros c H; cbn [fold_left]; [exact H|].
  apply IH. apply cmap_remove_inv. exact H.
Qed.

(** * the sharded map refines a list of fixed-length queues *)
Definition views (c : cmap) : list (list key) := map view (shards c).
(** the queue a key routes to *)
Definition qat (c : cmap) (k : key) : list key := view (get_shard c k).
Definition all_nonblank (qs : list (list key)) : list key := concat (map nonblank qs).

Lemma views_put_shard c k s' : views (put_shard c k s') = set_nth (route (shardCount c) k) (view s') (views c).
Proof. unfold views, put_shard. cbn [shards]. apply map_set_nth. Qed.

Lemma qat_views c k : qat c k = nth (route (shardCount c) k) (views c) [].
Proof.
  unfold qat, get_shard, views. change (@nil key) with (view (new_shard 1)). symmetry. apply map_nth.
Qed.

Lemma views_length c : length (views c) = length (shards c).
Proof. apply map_length. Qed.

Lemma cmap_inv_forall m c : cmap_inv m c -> Forall shard_inv (shards c).
Proof.
  intros H. apply Forall_forall. intros s Hin. apply In_nth_error in Hin. destruct Hin as [i Hi].
  apply (ci_shards _ _ H i s Hi).
Qed.

Lemma views_set m c k v : cmap_inv m c -> k <> [] ->
  views (cmap_set k v c) = set_nth (route (shardCount c) k) (q_set k (qat c k)) (views c).
Proof.
  intros H Hk. destruct (get_shard_inv m c k H) as [Hs Hm]. unfold cmap_set. rewrite views_put_shard.
  destruct (shard_set_spec k v (get_shard c k) Hs) as [Hv _]; [rewrite Hm; apply (ci_m _ _ H)|exact Hk|].
  rewrite Hv. reflexivity.
Qed.

Lemma cmap_has_lookup c k : cmap_has k c = true <-> lookup (get_shard c k) k <> None.
Proof. unfold cmap_has. apply shard_has_lookup. Qed.

Lemma cmap_has_qat m c k : cmap_inv m c -> k <> [] -> (cmap_has k c = true <-> In k (qat c k)).
Proof.
  intros H Hk. destruct (get_shard_inv m c k H) as [Hs _]. unfold cmap_has, qat. apply shard_has_view; assumption.
Qed.

Lemma cmap_has_get c k : cmap_has k c = true <-> cmap_get k c <> None.
Proof. unfold cmap_has, cmap_get. apply shard_has_get. Qed.

Lemma views_set_if_absent m c k v : cmap_inv m c ->
  (cmap_has k c = true ->
     cmap_set_if_absent k v c = (c, false)) /\
  (cmap_has k c = false ->
     snd (cmap_set_if_absent k v c) = true /\
     views (fst (cmap_set_if_absent k v c)) = set_nth (route (shardCount c) k) (q_push k (qat c k)) (views c)).
Proof.
  intros H. destruct (get_shard_inv m c k H) as [Hs Hm]. split; intros Hh.
  - apply cmap_has_lookup in Hh. unfold cmap_set_if_absent.
    rewrite shard_set_if_absent_present by exact Hh. unfold put_shard, get_shard.
    rewrite set_nth_nth.
    + destruct c; reflexivity.
    + rewrite (ci_len _ _ H). apply route_lt. apply (ci_n _ _ H).
  - assert (Hl : lookup (get_shard c k) k = None).
    { destruct (lookup (get_shard c k) k) eqn:E; [|reflexivity].
      assert (cmap_has k c = true) by (apply cmap_has_lookup; congruence). congruence. }
    destruct (cmap_set_if_absent_fst k v c) as [-> ->].
    destruct (shard_set_if_absent_spec k v (get_shard c k) Hs) as (Ha & Hv & _);
      [rewrite Hm; apply (ci_m _ _ H)|exact Hl|].
    split; [exact Ha|]. rewrite views_put_shard, Hv. reflexivity.
Qed.

Lemma views_remove m c k : cmap_inv m c ->
  views (cmap_remove k c) = set_nth (route (shardCount c) k) (blank k (qat c k)) (views c).
Proof.
  intros H. destruct (get_shard_inv m c k H) as [Hs _]. unfold cmap_remove. rewrite views_put_shard.
  destruct (shard_remove_spec k (get_shard c k) Hs) as [Hv _]. rewrite Hv. reflexivity.
Qed.

(** a key can only sit in the queue it routes to *)
Lemma in_views_route m c i q k : cmap_inv m c -> nth_error (views c) i = Some q -> In k q -> k <> [] ->
  route (shardCount c) k = i.
Proof.
  intros H Hq Hin Hk. unfold views in Hq. rewrite nth_error_map in Hq.
  destruct (nth_error (shards c) i) as [s|] eqn:Es; [|discriminate]. inversion Hq; subst.
  destruct (ci_shards _ _ H i s Es) as [Hs _].
  eapply ci_route; [exact H|exact Es|]. apply lookup_in_view; assumption.
Qed.

(** Remove touches no other queue, so it is [blank k] on every queue *)
Lemma views_remove_map m c k : cmap_inv m c -> k <> [] -> views (cmap_remove k c) = map (blank k) (views c).
Proof.
  intros H Hk. rewrite (views_remove m) by exact H. rewrite qat_views.
  set (r := route (shardCount c) k).
  assert (Hall : forall i q, nth_error (views c) i = Some q -> i <> r -> ~ In k q).
  { intros i q Hq Hne Hin. apply Hne. symmetry. eapply in_views_route; eauto. }
  clearbody r. revert r Hall. generalize (views c) as qs.
  induction qs as [|q qs IH]; intros r Hall; [destruct r; reflexivity|].
  destruct r as [|r]; cbn [set_nth map nth].
  - f_equal. clear IH. induction qs as [|q' qs IH']; [reflexivity|]. cbn [map]. f_equal.
    + symmetry. apply blank_notin. apply (Hall 1 q'); [reflexivity|lia].
    + apply IH'. intros i q0 Hq0 Hne. destruct i as [|i]; [lia|].
      apply (Hall (S (S i)) q0); [exact Hq0|lia].
  - f_equal.
    + symmetry. apply blank_notin. apply (Hall 0 q); [reflexivity|lia].
    + apply IH. intros i q0 Hq0 Hne. apply (Hall (S i) q0); [exact Hq0|lia].
Qed.

(** Keys and Count *)
Lemma all_keys_views l : Forall shard_inv l -> all_keys l = Some (all_nonblank (map view l)).
Proof.
  induction 1 as [|s l Hs _ IH]; [reflexivity|].
  cbn [all_keys map]. rewrite (walk_view s Hs), IH. reflexivity.
Qed.

Lemma cmap_keys_views m c : cmap_inv m c -> cmap_keys c = Some (all_nonblank (views c)).
Proof. intros H. unfold cmap_keys. apply all_keys_views. eapply cmap_inv_forall; exact H. Qed.

Lemma count_views l : Forall shard_inv l ->
  fold_right (fun s acc => shard_count s + acc) 0 l = length (all_nonblank (map view l)).
Proof.
  induction 1 as [|s l Hs _ IH]; [reflexivity|].
  cbn [fold_right map]. unfold all_nonblank in *. cbn [map concat]. rewrite app_length, IH, (count_view s Hs). reflexivity.
Qed.

Lemma cmap_count_views m c : cmap_inv m c -> cmap_count c = length (all_nonblank (views c)).
Proof. intros H. unfold cmap_count. apply count_views. eapply cmap_inv_forall; exact H. Qed.

Lemma count_bound_all m l : Forall (fun s => shard_inv s /\ maxSize s = m) l ->
  fold_right (fun s acc => shard_count s + acc) 0 l <= length l * (m - 1).
Proof.
  induction 1 as [|s l [Hs Hm] _ IH]; [apply le_n|].
  cbn [fold_right length]. pose proof (count_bound s Hs). rewrite Hm in *. lia.
Qed.

Lemma cmap_count_bound m c : cmap_inv m c -> cmap_count c <= shardCount c * (m - 1).
Proof.
  intros H. unfold cmap_count. rewrite <- (ci_len _ _ H). apply count_bound_all.
  apply Forall_forall. intros s Hin. apply In_nth_error in Hin. destruct Hin as [i Hi].
  apply (ci_shards _ _ H i s Hi).
Qed.

Lemma in_all_nonblank m c k : cmap_inv m c -> (In k (all_nonblank (views c)) <-> k <> [] /\ In k (qat c k)).
Proof.
  intros H. unfold all_nonblank. rewrite in_concat. split.
  - intros (l & Hl & Hin). apply in_map_iff in Hl. destruct Hl as (q & <- & Hq).
    apply nonblank_in in Hin. destruct Hin as [Hin Hk]. split; [exact Hk|].
    apply In_nth_error in Hq. destruct Hq as [i Hi].
    pose proof (in_views_route m c i q k H Hi Hin Hk) as Hr.
    rewrite qat_views, Hr. rewrite (nth_nth_error _ _ _ _ Hi). exact Hin.
  - intros [Hk Hin]. exists (nonblank (qat c k)). split.
    + apply in_map. rewrite qat_views. apply nth_In. rewrite views_length, (ci_len _ _ H).
      apply route_lt. apply (ci_n _ _ H).
    + apply nonblank_in. tauto.
Qed.

Lemma nodup_app {A} (a b : list A) : NoDup a -> NoDup b -> (forall x, In x a -> ~ In x b) -> NoDup (a ++ b).
Proof.
  induction a as [|x a IH]; intros Ha Hb Hd; [exact Hb|].
  inversion Ha; subst. cbn [app]. constructor.
  - rewrite in_app_iff. intros [Hin|Hin]; [tauto|]. apply (Hd x); [left; reflexivity|exact Hin].
  - apply IH; auto. intros y Hy. apply Hd. right. exact Hy.
Qed.

Lemma nodup_concat_indexed (g : key -> nat) (ls : list (list key)) off :
  (forall i l, nth_error ls i = Some l -> NoDup l /\ forall k, In k l -> g k = off + i) ->
  NoDup (concat ls).
Proof.
  revert off; induction ls as [|l ls IH]; intros off Hall; [constructor|].
  cbn [concat]. apply nodup_app.
  - apply (Hall 0 l eq_refl).
  - apply (IH (S off)). intros i l' Hl'. destruct (Hall (S i) l' Hl') as [Hn Hg].
    split; [exact Hn|]. intros k Hk. rewrite (Hg k Hk). lia.
  - intros k Hk Hin. apply in_concat in Hin. destruct Hin as (l' & Hl' & Hk').
    apply In_nth_error in Hl'. destruct Hl' as [i Hi].
    destruct (Hall 0 l eq_refl) as [_ Hg0]. destruct (Hall (S i) l' Hi) as [_ Hg1].
    specialize (Hg1 k Hk'). rewrite (Hg0 k Hk) in Hg1. lia.
Qed.

Lemma all_nonblank_nodup m c : cmap_inv m c -> NoDup (all_nonblank (views c)).
Proof.
  intros H. unfold all_nonblank. apply (nodup_concat_indexed (route (shardCount c)) _ 0).
  intros i l Hl. rewrite nth_error_map in Hl.
  destruct (nth_error (views c) i) as [q|] eqn:Eq; [|discriminate]. inversion Hl; subst.
  split.
  - unfold views in Eq. rewrite nth_error_map in Eq.
    destruct (nth_error (shards c) i) as [s|] eqn:Es; [|discriminate]. inversion Eq; subst.
    apply view_nodup. apply (ci_shards _ _ H i s Es).
  - intros k Hk. apply nonblank_in in Hk. destruct Hk as [Hin Hk].
    eapply in_views_route; eauto.
Qed.

(** * every reachable cache satisfies the invariant *)

Record cache_inv (sz n : nat) (c : cache) : Prop := mkCacheInv {
  cv_size : maxsize c = sz;
  cv_n : shardCount (cm c) = n;
  cv_cm : cmap_inv (shard_size sz n) (cm c);
  cv_h : NoDup (map fst (handlers c))
}.

Lemma new_cache_inv sz n : valid_cfg sz n -> cache_inv sz n (new_cache sz n).
Proof.
  intros [Hn Hsz]. constructor; cbn; auto.
  - apply cmap_new_inv; assumption.
  - constructor.
Qed.

Lemma cmap_clear_shardCount c : shardCount (cmap_clear c) = shardCount c.
Proof.
  unfold cmap_clear. destruct (cmap_keys c) as [ks|]; [|reflexivity].
  revert c. induction ks as [|k ks IH]; intros c; cbn [fold_left]; [reflexivity|]. rewrite IH. reflexivity.
Qed.

Lemma step_inv sz n c o : cache_inv sz n c -> op_nonempty o -> cache_inv sz n (step_cache c o).
Proof.
  intros [Hsz Hn Hcm Hh] Hne. unfold step_cache.
  destruct o as [k v|k v|k|k|k|k| |id tag|id]; cbn [step fst]; try (constructor; assumption).
  - constructor; cbn [maxsize cm handlers]; auto. apply cmap_set_inv; assumption.
  - destruct (cmap_set_if_absent k v (cm c)) as [m' added] eqn:E. cbn [fst].
    assert (Em : m' = fst (cmap_set_if_absent k v (cm c))) by (rewrite E; reflexivity).
    constructor; cbn [maxsize cm handlers]; auto.
    + subst m'. destruct (cmap_set_if_absent_fst k v (cm c)) as [-> _]. exact Hn.
    + subst m'. apply cmap_set_if_absent_inv; assumption.
  - constructor; cbn [maxsize cm handlers]; auto. apply cmap_remove_inv; assumption.
  - constructor; cbn [maxsize cm handlers]; auto.
    + rewrite cmap_clear_shardCount. exact Hn.
    + apply cmap_clear_inv; assumption.
  - constructor; cbn [maxsize cm handlers]; auto. apply aset_nodup. exact Hh.
  - constructor; cbn [maxsize cm handlers]; auto. apply adel_nodup. exact Hh.
Qed.

Lemma run_inv sz n ops : forall c, cache_inv sz n c -> Forall op_nonempty ops -> cache_inv sz n (run c ops).
Proof.
  induction ops as [|o ops IH]; intros c Hc Hne; [exact Hc|].
  inversion Hne; subst. cbn [run fold_left]. apply IH; [apply step_inv; assumption|assumption].
Qed.

Lemma run_app c ops1 ops2 : run c (ops1 ++ ops2) = run (run c ops1) ops2.
Proof. unfold run. apply fold_left_app. Qed.


Lemma reachable_inv sz n c : valid_cfg sz n -> reachable sz n c -> cache_inv sz n c.
Proof. intros Hv (ops & Hne & ->). apply run_inv; [apply new_cache_inv; exact Hv|exact Hne]. Qed.

(** * bound *)
Lemma cache_len_bound sz n c : valid_cfg sz n -> cache_inv sz n c ->
  cache_len c <= n * (shard_size sz n - 1) /\ n * (shard_size sz n - 1) <= sz /\
  shard_size sz n = (sz + n - 1) / n.
Proof.
  intros [Hn Hsz] Hc. split; [|split].
  - unfold cache_len. pose proof (cmap_count_bound _ _ (cv_cm _ _ _ Hc)) as Hb.
    rewrite (cv_n _ _ _ Hc) in Hb. exact Hb.
  - apply shard_size_total; lia.
  - apply shard_size_ceil; lia.
Qed.

(** * the entry just inserted is present *)
Lemma get_shard_put_same m c k s' : cmap_inv m c -> get_shard (put_shard c k s') k = s'.
Proof.
  intros H. unfold get_shard, put_shard. cbn [shardCount shards]. apply nth_set_nth_same.
  rewrite (ci_len _ _ H). apply route_lt. apply (ci_n _ _ H).
Qed.

Lemma get_shard_put_other c k k' s' : route (shardCount c) k' <> route (shardCount c) k ->
  get_shard (put_shard c k s') k' = get_shard c k'.
Proof. intros Hne. unfold get_shard, put_shard. cbn [shardCount shards]. apply nth_set_nth_other. congruence. Qed.

Lemma hd_not_in (k : key) (l : list key) : k <> [] -> ~ In k l -> hd [] l <> k.
Proof. intros Hk Hn. destruct l as [|x l]; cbn; [congruence|]. intros ->. apply Hn. left. reflexivity. Qed.

Lemma put_present m c k v : cmap_inv m c -> k <> [] ->
  cmap_has k (cmap_set k v c) = true /\ cmap_get k (cmap_set k v c) = Some v.
Proof.
  intros H Hk. destruct (get_shard_inv m c k H) as [Hs Hm].
  destruct (shard_set_spec k v (get_shard c k) Hs) as [_ Hl]; [rewrite Hm; apply (ci_m _ _ H)|exact Hk|].
  specialize (Hl k). rewrite beqb_refl in Hl.
  destruct (beqb_spec k (q_victim (blank k (view (get_shard c k))))) as [E|_].
  { exfalso. symmetry in E. revert E. apply blank_hd_neq. exact Hk. }
  unfold cmap_has, cmap_get, cmap_set. rewrite (get_shard_put_same m) by exact H.
  unfold shard_has, shard_get. unfold lookup in Hl. rewrite Hl. auto.
Qed.

Lemma hasoradd_absent_present m c k v : cmap_inv m c -> k <> [] -> cmap_has k c = false ->
  cmap_has k (fst (cmap_set_if_absent k v c)) = true /\ cmap_get k (fst (cmap_set_if_absent k v c)) = Some v.
Proof.
  intros H Hk Hh. destruct (get_shard_inv m c k H) as [Hs Hm].
  assert (Hn : lookup (get_shard c k) k = None).
  { destruct (lookup (get_shard c k) k) eqn:E; [|reflexivity].
    assert (cmap_has k c = true) by (apply cmap_has_lookup; congruence). congruence. }
  destruct (shard_set_if_absent_spec k v (get_shard c k) Hs) as (_ & _ & Hl);
    [rewrite Hm; apply (ci_m _ _ H)|exact Hn|].
  specialize (Hl k). rewrite beqb_refl in Hl.
  destruct (beqb_spec k (q_victim (view (get_shard c k)))) as [E|_].
  { exfalso. symmetry in E. revert E. apply hd_not_in; [exact Hk|].
    intros Hin. apply (lookup_in_view _ _ Hs Hk) in Hin. congruence. }
  destruct (cmap_set_if_absent_fst k v c) as [-> _].
  unfold cmap_has, cmap_get. rewrite (get_shard_put_same m) by exact H.
  unfold shard_has, shard_get. unfold lookup in Hl. rewrite Hl. auto.
Qed.

(** * Get, Has, Peek, Keys, Len agree *)
Lemma cache_keys_views sz n c : cache_inv sz n c ->
  cmap_keys (cm c) = Some (cache_keys c) /\ cache_keys c = all_nonblank (views (cm c)).
Proof.
  intros Hc. unfold cache_keys. rewrite (cmap_keys_views _ _ (cv_cm _ _ _ Hc)). auto.
Qed.

Lemma views_agree sz n c : cache_inv sz n c ->
  cmap_keys (cm c) = Some (cache_keys c) /\
  NoDup (cache_keys c) /\
  cache_len c = length (cache_keys c) /\
  (forall k, In k (cache_keys c) -> k <> []) /\
  (forall k, cache_has k c = true <-> cache_get k c <> None) /\
  (forall k, k <> [] -> (cache_has k c = true <-> In k (cache_keys c))) /\
  (forall k, snd (fst (step c (OPeek k))) = RGet (cache_get k c) /\
             snd (fst (step c (OGet k))) = RGet (cache_get k c) /\
             snd (fst (step c (OHas k))) = RHas (cache_has k c) /\
             step_cache c (OPeek k) = c /\ step_cache c (OGet k) = c /\ step_cache c (OHas k) = c).
Proof.
  intros Hc. destruct (cache_keys_views sz n c Hc) as [Hk1 Hk2]. pose proof (cv_cm _ _ _ Hc) as Hcm.
  split; [exact Hk1|]. rewrite Hk2. repeat split.
  - eapply all_nonblank_nodup; exact Hcm.
  - unfold cache_len. eapply cmap_count_views; exact Hcm.
  - intros k Hin. apply (in_all_nonblank _ _ k Hcm) in Hin. tauto.
  - apply cmap_has_get.
  - apply cmap_has_get.
  - intros Hh. apply (in_all_nonblank _ _ k Hcm). split; [assumption|]. apply (cmap_has_qat _ _ k Hcm); assumption.
  - intros Hin. apply (in_all_nonblank _ _ k Hcm) in Hin. apply (cmap_has_qat _ _ k Hcm); tauto.
Qed.

(** * HasOrAdd inserts only when absent *)
Lemma hasoradd_spec sz n c k v : cache_inv sz n c -> k <> [] ->
  (cache_has k c = true -> step c (OHasOrAdd k v) = (c, RHasOrAdd true false, [])) /\
  (cache_has k c = false ->
     snd (fst (step c (OHasOrAdd k v))) = RHasOrAdd false true /\
     snd (step c (OHasOrAdd k v)) = call_handlers c k v /\
     cache_has k (step_cache c (OHasOrAdd k v)) = true /\
     cache_get k (step_cache c (OHasOrAdd k v)) = Some v).
Proof.
  intros Hc Hk. pose proof (cv_cm _ _ _ Hc) as Hcm.
  destruct (views_set_if_absent _ (cm c) k v Hcm) as [Hp Ha]. split; intros Hh.
  - cbn [step]. unfold cache_has in Hh. rewrite (Hp Hh). destruct c; reflexivity.
  - unfold cache_has in Hh. destruct (Ha Hh) as [Hadd _].
    destruct (hasoradd_absent_present _ (cm c) k v Hcm Hk Hh) as [H1 H2].
    unfold step_cache. cbn [step].
    destruct (cmap_set_if_absent k v (cm c)) as [m' added] eqn:E. cbn [fst snd] in *. subst added.
    cbn [fst snd]. repeat split; assumption.
Qed.

(** * handlers: exactly once per insertion per registered handler *)


Lemma calls_of_handler (hs : list (hid * N)) k v id :
  NoDup (map fst hs) ->
  filter (fun x => beqb (call_id x) id) (map (fun h => (fst h, snd h, k, v)) hs) =
  match aget id hs with Some tag => [(id, tag, k, v)] | None => [] end.
Proof.
  induction hs as [|[id0 tag0] hs IH]; intros Hnd; [reflexivity|].
  inversion Hnd as [|? ? Hnin Hnd']; subst. cbn [map filter aget fst snd call_id].
  rewrite (beqb_sym id0 id). destruct (beqb_spec id id0) as [->|Hne].
  - f_equal. rewrite IH by exact Hnd'.
    destruct (aget id0 hs) eqn:E; [|reflexivity].
    exfalso. apply Hnin. apply aget_in. congruence.
  - apply IH. exact Hnd'.
Qed.

Lemma handlers_spec sz n c o : cache_inv sz n c -> op_nonempty o ->
  NoDup (map fst (handlers c)) /\
  (inserts c o = false -> snd (step c o) = []) /\
  (inserts c o = true -> exists k v, (o = OPut k v \/ o = OHasOrAdd k v) /\
     snd (step c o) = map (fun h => (fst h, snd h, k, v)) (handlers c) /\
     forall id, filter (fun x => beqb (call_id x) id) (snd (step c o)) =
                match aget id (handlers c) with Some tag => [(id, tag, k, v)] | None => [] end).
Proof.
  intros Hc Hne. pose proof (cv_h _ _ _ Hc) as Hh. split; [exact Hh|]. split.
  - destruct o as [k v|k v|k|k|k|k| |id tag|id]; intros Hi; try reflexivity; try discriminate Hi.
    cbn [inserts] in Hi. apply negb_false_iff in Hi.
    destruct (hasoradd_spec sz n c k v Hc Hne) as [Hp _]. rewrite (Hp Hi). reflexivity.
  - destruct o as [k v|k v|k|k|k|k| |id tag|id]; cbn [inserts]; try discriminate; intros Hi.
    + exists k, v. split; [auto|]. cbn [step snd]. split; [reflexivity|].
      intros id. apply calls_of_handler. exact Hh.
    + apply negb_true_iff in Hi. exists k, v. split; [auto|].
      destruct (hasoradd_spec sz n c k v Hc Hne) as [_ Ha]. destruct (Ha Hi) as (_ & Hcalls & _).
      rewrite Hcalls. split; [reflexivity|]. intros id. apply calls_of_handler. exact Hh.
Qed.

Lemma handlers_registry c id tag id' :
  aget id' (handlers (step_cache c (ORegister id tag))) = (if beqb id' id then Some tag else aget id' (handlers c)) /\
  aget id' (handlers (step_cache c (OUnregister id))) = (if beqb id' id then None else aget id' (handlers c)).
Proof. unfold step_cache. cbn [step fst handlers]. split; [apply aget_aset|apply aget_adel]. Qed.

(** * residency: a fresh entry enters at the back of a queue of length maxSize-1 *)



Lemma insertions_in_le r ops : forall c, insertions_in r c ops <= insertions c ops.
Proof.
  induction ops as [|o ops IH]; intros c; cbn [insertions_in insertions]; [lia|].
  specialize (IH (step_cache c o)). unfold inserts_in. destruct (inserts c o); cbn [andb]; [|lia].
  destruct (match op_key o with Some k => _ | None => false end); lia.
Qed.

(** [k] sits in its queue with at most [j] entries behind it *)
Definition resid (k : key) (j : nat) (c : cache) : Prop :=
  exists a b, qat (cm c) k = a ++ k :: b /\ length b <= j.


Lemma qat_after m c c' k k' x : cmap_inv m c ->
  shardCount c' = shardCount c ->
  views c' = set_nth (route (shardCount c) k') x (views c) ->
  qat c' k = if route (shardCount c) k =? route (shardCount c) k' then x else qat c k.
Proof.
  intros H Hn Hv. rewrite !qat_views, Hv, Hn.
  destruct (Nat.eqb_spec (route (shardCount c) k) (route (shardCount c) k')) as [E|E].
  - rewrite E. apply nth_set_nth_same. rewrite views_length, (ci_len _ _ H). apply route_lt. apply (ci_n _ _ H).
  - apply nth_set_nth_other. congruence.
Qed.

Lemma qat_length m c k : cmap_inv m c -> length (qat c k) = m - 1.
Proof. intros H. destruct (get_shard_inv m c k H) as [Hs Hm]. unfold qat. rewrite view_length by exact Hs. lia. Qed.

Lemma blank_split (k k' : key) (a b : list key) : k <> k' ->
  blank k' (a ++ k :: b) = blank k' a ++ k :: blank k' b.
Proof.
  intros Hne. rewrite blank_app. cbn [blank map]. destruct (beqb_spec k k'); [congruence|reflexivity].
Qed.

Lemma resid_has sz n c k j : cache_inv sz n c -> k <> [] -> resid k j c -> cache_has k c = true.
Proof.
  intros Hc Hk (a & b & Hq & _). unfold cache_has. apply (cmap_has_qat _ _ k (cv_cm _ _ _ Hc) Hk).
  rewrite Hq. apply in_app_iff. right. left. reflexivity.
Qed.

Lemma step_cache_hasoradd_cm c k v :
  cm (step_cache c (OHasOrAdd k v)) = fst (cmap_set_if_absent k v (cm c)).
Proof. unfold step_cache. cbn [step]. destruct (cmap_set_if_absent k v (cm c)); reflexivity. Qed.

Lemma resid_step sz n c o k j : cache_inv sz n c -> k <> [] -> op_nonempty o -> keeps k o ->
  resid k j c ->
  j + (if inserts_in (route n k) c o then 1 else 0) <= shard_size sz n - 2 ->
  resid k (j + (if inserts_in (route n k) c o then 1 else 0)) (step_cache c o).
Proof.
  intros Hc Hk Hne [Hkr Hkc] Hres Hj.
  pose proof (cv_cm _ _ _ Hc) as Hcm. pose proof (cv_n _ _ _ Hc) as Hn.
  pose proof (qat_length _ _ k Hcm) as Hlen.
  assert (Hhas : cache_has k c = true) by (eapply resid_has; eauto).
  destruct Hres as (a & b & Hq & Hb).
  assert (Hweak : forall j', j <= j' -> resid k j' c) by (intros j' Hj'; exists a, b; split; [exact Hq|lia]).
  unfold inserts_in in *. rewrite Hn in *.
  destruct o as [k' v'|k' v'|k'|k'|k'|k'| |id tag|id]; cbn [inserts op_key andb] in *;
    try (rewrite Nat.add_0_r; exists a, b; split; [exact Hq|exact Hb]).
  - (* Put *)
    cbn [op_nonempty op_key] in Hne.
    assert (Hq' := qat_after _ (cm c) (cmap_set k' v' (cm c)) k k' _ Hcm eq_refl (views_set _ _ k' v' Hcm Hne)).
    rewrite Hn in Hq'. unfold resid, step_cache. cbn [step fst cm].
    destruct (beqb_spec k' k) as [->|Hkk].
    + rewrite Nat.eqb_refl in *. rewrite Hq'. exists (tl (blank k (qat (cm c) k))), []. split; [reflexivity|cbn; lia].
    + rewrite (Nat.eqb_sym (route n k') (route n k)) in *.
      destruct (route n k =? route n k') eqn:Er.
      * apply Nat.eqb_eq in Er. rewrite Hq'.
        assert (Eqq : qat (cm c) k' = qat (cm c) k) by (rewrite !qat_views, Hn, Er; reflexivity).
        rewrite Eqq, Hq. unfold q_set, q_push. rewrite blank_split by congruence.
        rewrite Hq, app_length in Hlen. cbn [length] in Hlen.
        destruct (blank k' a) as [|x a'] eqn:Ea.
        { assert (length a = 0) by (rewrite <- (blank_length k' a), Ea; reflexivity). lia. }
        cbn [app tl]. exists a', (blank k' b ++ [k']). split.
        { rewrite <- app_assoc. reflexivity. }
        { rewrite app_length, blank_length. cbn [length]. lia. }
      * rewrite Hq', Nat.add_0_r. exists a, b. split; [exact Hq|exact Hb].
  - (* HasOrAdd *)
    cbn [op_nonempty op_key] in Hne.
    destruct (views_set_if_absent _ (cm c) k' v' Hcm) as [Hp Ha].
    destruct (cache_has k' c) eqn:Eh; cbn [negb andb] in *.
    + destruct (hasoradd_spec sz n c k' v' Hc Hne) as [Hsame _].
      unfold step_cache. rewrite (Hsame Eh). cbn [fst]. rewrite Nat.add_0_r. exists a, b. split; [exact Hq|exact Hb].
    + assert (Hkk : k' <> k) by (intros ->; congruence).
      destruct (Ha Eh) as [_ Hv].
      assert (Hsc : shardCount (fst (cmap_set_if_absent k' v' (cm c))) = shardCount (cm c)).
      { destruct (cmap_set_if_absent_fst k' v' (cm c)) as [-> _]. reflexivity. }
      assert (Hq' := qat_after _ (cm c) _ k k' _ Hcm Hsc Hv). rewrite Hn in Hq'.
      unfold resid. rewrite step_cache_hasoradd_cm.
      rewrite (Nat.eqb_sym (route n k') (route n k)) in *.
      destruct (route n k =? route n k') eqn:Er.
      * apply Nat.eqb_eq in Er. rewrite Hq'.
        assert (Eqq : qat (cm c) k' = qat (cm c) k) by (rewrite !qat_views, Hn, Er; reflexivity).
        rewrite Eqq, Hq. unfold q_push.
        rewrite Hq, app_length in Hlen. cbn [length] in Hlen.
        destruct a as [|x a'].
        { cbn [length] in Hlen. lia. }
        cbn [app tl]. exists a', (b ++ [k']). split.
        { rewrite <- app_assoc. reflexivity. }
        { rewrite app_length. cbn [length]. lia. }
      * rewrite Hq', Nat.add_0_r. exists a, b. split; [exact Hq|exact Hb].
  - (* Remove of another key *)
    assert (Hkk : k' <> k) by (intros ->; apply Hkr; reflexivity).
    assert (Hq' := qat_after _ (cm c) (cmap_remove k' (cm c)) k k' _ Hcm eq_refl (views_remove _ _ k' Hcm)).
    rewrite Hn in Hq'. unfold resid, step_cache. cbn [step fst cm]. rewrite Nat.add_0_r.
    destruct (route n k =? route n k') eqn:Er.
    + apply Nat.eqb_eq in Er. rewrite Hq'.
      assert (Eqq : qat (cm c) k' = qat (cm c) k) by (rewrite !qat_views, Hn, Er; reflexivity).
      rewrite Eqq, Hq, blank_split by congruence.
      exists (blank k' a), (blank k' b). split; [reflexivity|rewrite blank_length; exact Hb].
    + rewrite Hq'. exists a, b. split; [exact Hq|exact Hb].
  - exfalso. apply Hkc. reflexivity.
Qed.

Lemma resid_run sz n k ops : k <> [] ->
  forall c j, cache_inv sz n c -> Forall op_nonempty ops -> Forall (keeps k) ops ->
  resid k j c ->
  j + insertions_in (route n k) c ops <= shard_size sz n - 2 ->
  resid k (j + insertions_in (route n k) c ops) (run c ops).
Proof.
  intros Hk. induction ops as [|o ops IH]; intros c j Hc Hne Hkeep Hres Hj.
  - cbn [insertions_in run fold_left]. rewrite Nat.add_0_r. exact Hres.
  - inversion Hne; subst. inversion Hkeep; subst. cbn [insertions_in] in *. cbn [run fold_left].
    rewrite Nat.add_assoc. apply IH.
    + apply step_inv; assumption.
    + assumption.
    + assumption.
    + apply (resid_step sz n); auto. lia.
    + lia.
Qed.

Lemma resid_after_insert sz n c o k v : cache_inv sz n c -> k <> [] ->
  (o = OPut k v \/ (o = OHasOrAdd k v /\ cache_has k c = false)) ->
  resid k 0 (step_cache c o).
Proof.
  intros Hc Hk Ho. pose proof (cv_cm _ _ _ Hc) as Hcm.
  destruct Ho as [->|[-> Hh]].
  - assert (Hq' := qat_after _ (cm c) (cmap_set k v (cm c)) k k _ Hcm eq_refl (views_set _ _ k v Hcm Hk)).
    rewrite Nat.eqb_refl in Hq'. unfold resid, step_cache. cbn [step fst cm]. rewrite Hq'.
    exists (tl (blank k (qat (cm c) k))), []. split; [reflexivity|apply le_n].
  - destruct (views_set_if_absent _ (cm c) k v Hcm) as [_ Ha]. destruct (Ha Hh) as [_ Hv].
    assert (Hsc : shardCount (fst (cmap_set_if_absent k v (cm c))) = shardCount (cm c)).
    { destruct (cmap_set_if_absent_fst k v (cm c)) as [-> _]. reflexivity. }
    assert (Hq' := qat_after _ (cm c) _ k k _ Hcm Hsc Hv). rewrite Nat.eqb_refl in Hq'.
    unfold resid. rewrite step_cache_hasoradd_cm, Hq'.
    exists (tl (qat (cm c) k)), []. split; [reflexivity|apply le_n].
Qed.

(** the residency theorem, per shard (insertions routed to the entry's shard) and per cache *)
Lemma residency sz n ops1 o k v ops2 : valid_cfg sz n ->
  Forall op_nonempty ops1 -> Forall op_nonempty ops2 -> k <> [] ->
  let c0 := run (new_cache sz n) ops1 in
  (o = OPut k v \/ (o = OHasOrAdd k v /\ cache_has k c0 = false)) ->
  Forall (keeps k) ops2 ->
  insertions_in (route n k) (step_cache c0 o) ops2 <= shard_size sz n - 2 ->
  cache_has k (run (step_cache c0 o) ops2) = true.
Proof.
  intros Hv Hne1 Hne2 Hk c0 Ho Hkeep Hins.
  assert (Hc0 : cache_inv sz n c0) by (apply run_inv; [apply new_cache_inv; exact Hv|exact Hne1]).
  assert (Hone : op_nonempty o) by (destruct Ho as [->|[-> _]]; exact Hk).
  assert (Hc1 : cache_inv sz n (step_cache c0 o)) by (apply step_inv; assumption).
  eapply resid_has; [apply run_inv; [exact Hc1|exact Hne2]|exact Hk|].
  apply (resid_run sz n k ops2 Hk _ 0 Hc1 Hne2 Hkeep).
  - eapply resid_after_insert; eauto.
  - exact Hins.
Qed.

Lemma residency_cache_wide sz n ops1 o k v ops2 : valid_cfg sz n ->
  Forall op_nonempty ops1 -> Forall op_nonempty ops2 -> k <> [] ->
  let c0 := run (new_cache sz n) ops1 in
  (o = OPut k v \/ (o = OHasOrAdd k v /\ cache_has k c0 = false)) ->
  Forall (keeps k) ops2 ->
  insertions (step_cache c0 o) ops2 <= (sz + n - 1) / n - 2 ->
  cache_has k (run (step_cache c0 o) ops2) = true.
Proof.
  intros Hv Hne1 Hne2 Hk c0 Ho Hkeep Hins.
  apply (residency sz n ops1 o k v ops2 Hv Hne1 Hne2 Hk Ho Hkeep).
  destruct Hv as [Hn Hsz]. rewrite shard_size_ceil by lia.
  pose proof (insertions_in_le (route n k) ops2 (step_cache c0 o)) as Hle.
  fold c0. lia.
Qed.

(** * Clear empties the cache *)
Lemma clear_views m ks : (forall k, In k ks -> k <> []) ->
  forall c, cmap_inv m c ->
  views (fold_left (fun m' k => cmap_remove k m') ks c) =
  map (fun q => fold_left (fun q' k => blank k q') ks q) (views c).
Proof.
  induction ks as [|k ks IH]; intros Hks c H; cbn [fold_left].
  - symmetry. apply map_id.
  - rewrite IH.
    + rewrite (views_remove_map m) by (try exact H; apply Hks; left; reflexivity).
      rewrite map_map. reflexivity.
    + intros k' Hk'. apply Hks. right. exact Hk'.
    + apply cmap_remove_inv. exact H.
Qed.

Lemma blank_fold_in (ks : list key) : forall (q : list key) x,
  In x (fold_left (fun q' k => blank k q') ks q) -> x = [] \/ (In x q /\ ~ In x ks).
Proof.
  induction ks as [|k ks IH]; intros q x Hin; cbn [fold_left] in Hin; [right; split; [exact Hin|intros []]|].
  destruct (IH _ _ Hin) as [->|[Hin' Hnk]]; [left; reflexivity|].
  unfold blank in Hin'. apply in_map_iff in Hin'. destruct Hin' as (y & Hy & Hyq).
  destruct (beqb_spec y k) as [E|Hne]; [left; congruence|].
  rewrite Hy in *. right. split; [exact Hyq|]. intros [E|E]; [congruence|tauto].
Qed.

Lemma nonblank_nil (l : list key) : (forall x, In x l -> x = []) -> nonblank l = [].
Proof.
  induction l as [|x l IH]; intros H; [reflexivity|]. rewrite nonblank_cons.
  rewrite (H x) by (left; reflexivity). cbn [is_empty]. apply IH. intros y Hy. apply H. right. exact Hy.
Qed.

Lemma clear_empties sz n c : cache_inv sz n c ->
  cache_keys (step_cache c OClear) = [] /\ cache_len (step_cache c OClear) = 0.
Proof.
  intros Hc. assert (Hc' : cache_inv sz n (step_cache c OClear)) by (apply step_inv; [exact Hc|exact I]).
  destruct (views_agree sz n _ Hc') as (_ & _ & Hlen & _).
  assert (Hk : cache_keys (step_cache c OClear) = []); [|split; [exact Hk|rewrite Hlen, Hk; reflexivity]].
  destruct (cache_keys_views sz n _ Hc') as [_ ->].
  pose proof (cv_cm _ _ _ Hc) as Hcm.
  unfold step_cache. cbn [step fst cm]. unfold cmap_clear. rewrite (cmap_keys_views _ _ Hcm).
  rewrite (clear_views _ _ (fun k Hin => proj1 (proj1 (in_all_nonblank _ _ k Hcm) Hin)) _ Hcm).
  unfold all_nonblank at 1. rewrite map_map.
  assert (Hall : forall q, In q (views (cm c)) ->
            nonblank (fold_left (fun q' k => blank k q') (all_nonblank (views (cm c))) q) = []).
  { intros q Hq. apply nonblank_nil. intros x Hx. destruct (blank_fold_in _ _ _ Hx) as [E|[Hxq Hnin]]; [exact E|].
    destruct x as [|b x]; [reflexivity|]. exfalso. apply Hnin.
    unfold all_nonblank. apply in_concat. exists (nonblank q). split; [apply in_map; exact Hq|].
    apply nonblank_in. split; [exact Hxq|discriminate]. }
  revert Hall. generalize (all_nonblank (views (cm c))) as ks. generalize (views (cm c)) as qs.
  induction qs as [|q qs IH]; intros ks Hall; [reflexivity|].
  cbn [map concat]. rewrite Hall by (left; reflexivity). cbn [app]. apply IH.
  intros q' Hq'. apply Hall. right. exact Hq'.
Qed.

(** * one shard: the cache is a FIFO list *)


Lemma nonblank_tl (l : list key) : nonblank (tl l) = nonblank l \/ nonblank (tl l) = tl (nonblank l).
Proof.
  destruct l as [|x l]; [left; reflexivity|]. cbn [tl]. rewrite nonblank_cons.
  destruct (is_empty x); [left|right]; reflexivity.
Qed.

Lemma one_shard_views sz c : cache_inv sz 1 c ->
  exists q, views (cm c) = [q] /\ (forall k, qat (cm c) k = q) /\ cache_keys c = nonblank q /\
            forall k, route (shardCount (cm c)) k = 0.
Proof.
  intros Hc. pose proof (cv_cm _ _ _ Hc) as Hcm. pose proof (cv_n _ _ _ Hc) as Hn.
  assert (Hr : forall k, route (shardCount (cm c)) k = 0).
  { intros k. rewrite Hn. pose proof (route_lt 1 k (le_n 1)). lia. }
  pose proof (views_length (cm c)) as Hl. rewrite (ci_len _ _ Hcm), Hn in Hl.
  destruct (views (cm c)) as [|q [|q' qs]] eqn:Ev; cbn [length] in Hl; try lia.
  exists q. repeat split; auto.
  - intros k. rewrite qat_views, Hr, Ev. reflexivity.
  - destruct (cache_keys_views sz 1 c Hc) as [_ ->]. rewrite Ev. unfold all_nonblank. cbn. apply app_nil_r.
Qed.

Lemma nonblank_snoc (l : list key) (k : key) : k <> [] -> nonblank (l ++ [k]) = nonblank l ++ [k].
Proof. intros Hk. rewrite nonblank_app. cbn. rewrite (is_empty_false k Hk). reflexivity. Qed.

Lemma fifo_one_shard sz c o : 2 <= sz -> cache_inv sz 1 c -> op_nonempty o ->
  fifo_next (cache_keys c) o (cache_keys (step_cache c o)).
Proof.
  intros Hsz Hc Hne.
  assert (Hc' : cache_inv sz 1 (step_cache c o)) by (apply step_inv; assumption).
  pose proof (cv_cm _ _ _ Hc) as Hcm.
  destruct (one_shard_views sz c Hc) as (q & Hv & Hq & Hkeys & Hr).
  destruct (one_shard_views sz _ Hc') as (q' & Hv' & _ & Hkeys' & _).
  rewrite Hkeys, Hkeys'.
  destruct o as [k v|k v|k|k|k|k| |id tag|id]; cbn [fifo_next];
    try (unfold step_cache in Hv'; cbn [step fst cm] in Hv'; rewrite Hv in Hv'; inversion Hv'; reflexivity).
  - (* Put *)
    cbn [op_nonempty op_key] in Hne.
    unfold step_cache in Hv'. cbn [step fst cm] in Hv'.
    rewrite (views_set _ _ k v Hcm Hne), Hq, Hr, Hv in Hv'. cbn [set_nth] in Hv'. inversion Hv'; subst q'.
    unfold q_set, q_push. rewrite (nonblank_snoc _ k Hne).
    unfold rm. rewrite <- nonblank_blank.
    destruct (nonblank_tl (blank k q)) as [E|E]; rewrite E; [left|right]; reflexivity.
  - (* HasOrAdd *)
    cbn [op_nonempty op_key] in Hne.
    destruct (views_agree sz 1 c Hc) as (_ & _ & _ & _ & _ & Hin & _). rewrite Hkeys in Hin.
    split; intros Hk.
    + apply (Hin k Hne) in Hk. destruct (hasoradd_spec sz 1 c k v Hc Hne) as [Hsame _].
      unfold step_cache in Hv'. rewrite (Hsame Hk) in Hv'. cbn [fst] in Hv'. rewrite Hv in Hv'.
      inversion Hv'. reflexivity.
    + assert (Hh : cache_has k c = false).
      { destruct (cache_has k c) eqn:E; [|reflexivity]. exfalso. apply Hk. apply (Hin k Hne). exact E. }
      destruct (views_set_if_absent _ (cm c) k v Hcm) as [_ Ha]. destruct (Ha Hh) as [_ Hvs].
      rewrite step_cache_hasoradd_cm, Hvs, Hq, Hr, Hv in Hv'. cbn [set_nth] in Hv'. inversion Hv'; subst q'.
      unfold q_push. rewrite (nonblank_snoc _ k Hne).
      destruct (nonblank_tl q) as [E|E]; rewrite E; [left|right]; reflexivity.
  - (* Remove *)
    unfold step_cache in Hv'. cbn [step fst cm] in Hv'.
    rewrite (views_remove _ _ k Hcm), Hq, Hr, Hv in Hv'. cbn [set_nth] in Hv'. inversion Hv'; subst q'.
    unfold rm. apply nonblank_blank.
  - (* Clear *)
    rewrite <- Hkeys'. apply (clear_empties sz 1 c Hc).
Qed.

(** * the statements of Props/C20.v, over all histories from [new_cache] *)
Lemma init_inv sz n ops : valid_cfg sz n -> Forall op_nonempty ops -> cache_inv sz n (run (new_cache sz n) ops).
Proof. intros Hv Hne. apply run_inv; [apply new_cache_inv; exact Hv|exact Hne]. Qed.

Lemma thm_ring_invariant sz n ops : valid_cfg sz n -> Forall op_nonempty ops ->
  forall s, In s (shards (cm (run (new_cache sz n) ops))) ->
    maxSize s = shard_size sz n /\ length (mapKeys s) = maxSize s /\
    nth_error (mapKeys s) (idxAdd s) = Some [] /\
    NoDup (map fst (items s)) /\ NoDup (nonblank (mapKeys s)) /\
    aget [] (items s) = None /\
    forall k i, k <> [] -> (nth_error (mapKeys s) i = Some k <-> exists v, aget k (items s) = Some (v, i)).
Proof.
  intros Hv Hne s Hin. pose proof (cv_cm _ _ _ (init_inv sz n ops Hv Hne)) as Hcm.
  apply In_nth_error in Hin. destruct Hin as [i Hi].
  destruct (ci_shards _ _ Hcm i s Hi) as [Hs Hm].
  destruct (inv_bij _ Hs) as [H0 Hb].
  split; [exact Hm|]. split; [apply (inv_len _ Hs)|]. split; [apply (inv_idx _ Hs)|].
  split; [apply (inv_nodup _ Hs)|]. split; [apply ring_nodup; exact Hs|].
  split; [exact H0|exact Hb].
Qed.

Lemma thm_bound sz n ops : valid_cfg sz n -> Forall op_nonempty ops ->
  cache_len (run (new_cache sz n) ops) <= n * ((sz + n - 1) / n - 1) /\
  n * ((sz + n - 1) / n - 1) <= sz.
Proof.
  intros Hv Hne. destruct (cache_len_bound sz n _ Hv (init_inv sz n ops Hv Hne)) as (H1 & H2 & H3).
  rewrite <- H3. auto.
Qed.

Lemma thm_just_inserted sz n ops k v : valid_cfg sz n -> Forall op_nonempty ops -> k <> [] ->
  let c := run (new_cache sz n) ops in
  (cache_has k (step_cache c (OPut k v)) = true /\ cache_get k (step_cache c (OPut k v)) = Some v) /\
  (cache_has k c = false ->
   cache_has k (step_cache c (OHasOrAdd k v)) = true /\ cache_get k (step_cache c (OHasOrAdd k v)) = Some v).
Proof.
  intros Hv Hne Hk c. pose proof (init_inv sz n ops Hv Hne) as Hc. fold c in Hc. split.
  - unfold step_cache, cache_has, cache_get. cbn [step fst cm]. eapply put_present; [apply (cv_cm _ _ _ Hc)|exact Hk].
  - intros Hh. destruct (hasoradd_spec sz n c k v Hc Hk) as [_ Ha]. destruct (Ha Hh) as (_ & _ & H1 & H2). auto.
Qed.

Lemma thm_views sz n ops : valid_cfg sz n -> Forall op_nonempty ops ->
  let c := run (new_cache sz n) ops in
  cmap_keys (cm c) = Some (cache_keys c) /\
  NoDup (cache_keys c) /\
  cache_len c = length (cache_keys c) /\
  (forall k, In k (cache_keys c) -> k <> []) /\
  (forall k, cache_has k c = true <-> cache_get k c <> None) /\
  (forall k, k <> [] -> (cache_has k c = true <-> In k (cache_keys c))) /\
  (forall k, snd (fst (step c (OPeek k))) = RGet (cache_get k c) /\
             snd (fst (step c (OGet k))) = RGet (cache_get k c) /\
             snd (fst (step c (OHas k))) = RHas (cache_has k c) /\
             step_cache c (OPeek k) = c /\ step_cache c (OGet k) = c /\ step_cache c (OHas k) = c).
Proof. intros Hv Hne c. apply (views_agree sz n). apply init_inv; assumption. Qed.

Lemma thm_hasoradd sz n ops k v : valid_cfg sz n -> Forall op_nonempty ops -> k <> [] ->
  let c := run (new_cache sz n) ops in
  (cache_has k c = true -> step c (OHasOrAdd k v) = (c, RHasOrAdd true false, [])) /\
  (cache_has k c = false ->
     snd (fst (step c (OHasOrAdd k v))) = RHasOrAdd false true /\
     snd (step c (OHasOrAdd k v)) = call_handlers c k v /\
     cache_has k (step_cache c (OHasOrAdd k v)) = true /\
     cache_get k (step_cache c (OHasOrAdd k v)) = Some v).
Proof. intros Hv Hne Hk c. apply (hasoradd_spec sz n); [apply init_inv; assumption|exact Hk]. Qed.

Lemma thm_handlers sz n ops o : valid_cfg sz n -> Forall op_nonempty ops -> op_nonempty o ->
  let c := run (new_cache sz n) ops in
  NoDup (map fst (handlers c)) /\
  (inserts c o = false -> snd (step c o) = []) /\
  (inserts c o = true -> exists k v, (o = OPut k v \/ o = OHasOrAdd k v) /\
     snd (step c o) = map (fun h => (fst h, snd h, k, v)) (handlers c) /\
     forall id, filter (fun x => beqb (call_id x) id) (snd (step c o)) =
                match aget id (handlers c) with Some tag => [(id, tag, k, v)] | None => [] end).
Proof. intros Hv Hne Ho c. apply (handlers_spec sz n); [apply init_inv; assumption|exact Ho]. Qed.

Lemma thm_fifo_one_shard sz ops o : 2 <= sz -> Forall op_nonempty ops -> op_nonempty o ->
  fifo_next (cache_keys (run (new_cache sz 1) ops)) o (cache_keys (run (new_cache sz 1) (ops ++ [o]))).
Proof.
  intros Hsz Hne Ho. rewrite run_app. cbn [run fold_left].
  apply (fifo_one_shard sz); auto. apply init_inv; [split; lia|exact Hne].
Qed.

Lemma thm_clear sz n ops : valid_cfg sz n -> Forall op_nonempty ops ->
  let c := step_cache (run (new_cache sz n) ops) OClear in
  cache_keys c = [] /\ cache_len c = 0 /\ forall k, k <> [] -> cache_has k c = false.
Proof.
  intros Hv Hne c. pose proof (init_inv sz n ops Hv Hne) as Hc0.
  destruct (clear_empties sz n _ Hc0) as [Hk Hl]. fold c in Hk, Hl. split; [exact Hk|]. split; [exact Hl|].
  intros k Hkne. assert (Hc : cache_inv sz n c) by (apply step_inv; [exact Hc0|exact I]).
  destruct (views_agree sz n c Hc) as (_ & _ & _ & _ & _ & Hin & _).
  destruct (cache_has k c) eqn:E; [|reflexivity]. apply (Hin k Hkne) in E. rewrite Hk in E. destruct E.
Qed.

Lemma thm_shard_size sz n : 1 <= n -> 2 * n <= sz ->
  shard_size sz n = (sz + n - 1) / n /\ 2 <= shard_size sz n.
Proof. intros Hn Hsz. split; [apply shard_size_ceil; lia|apply shard_size_ge2; assumption]. Qed.
