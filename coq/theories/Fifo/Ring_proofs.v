(** Lemmas about one shard: the ring invariant, and the refinement of the ring by a
    fixed-length FIFO queue (the [view]). *)
From Coq Require Import List NArith PeanoNat Lia Bool Permutation ZifyN ZifyNat ZifyBool.
From Verif Require Import Base.BStr Fifo.Ring.
Import ListNotations.
Local Open Scope nat_scope.

(** * lists *)

Lemma set_nth_length {A} i (x : A) l : length (set_nth i x l) = length l.
Proof. revert i; induction l as [|y l IH]; intros [|i]; simpl; auto. Qed.

Lemma nth_error_set_nth {A} i j (x : A) l :
  i < length l -> nth_error (set_nth i x l) j = if j =? i then Some x else nth_error l j.
Proof.
  revert i j; induction l as [|y l IH]; intros i j Hi; simpl in Hi; [lia|].
  destruct i as [|i]; destruct j as [|j]; simpl; auto.
  rewrite IH by lia. reflexivity.
Qed.

Lemma nth_nth_error {A} i (l : list A) d x : nth_error l i = Some x -> nth i l d = x.
Proof. revert i; induction l as [|y l IH]; intros [|i]; simpl; intros H; try discriminate; [congruence|auto]. Qed.

Lemma nth_error_nth_lt {A} i (l : list A) d : i < length l -> nth_error l i = Some (nth i l d).
Proof. revert i; induction l as [|y l IH]; intros [|i]; simpl; intros H; try lia; auto. apply IH. lia. Qed.

Lemma set_nth_app {A} (a : list A) y b x : set_nth (length a) x (a ++ y :: b) = a ++ x :: b.
Proof. induction a as [|z a IH]; simpl; [reflexivity|]. rewrite IH. reflexivity. Qed.

Lemma nth_error_app_mid {A} (a : list A) y b : nth_error (a ++ y :: b) (length a) = Some y.
Proof. induction a as [|z a IH]; simpl; auto. Qed.

Lemma split_at {A} i (l : list A) x :
  nth_error l i = Some x -> exists a b, l = a ++ x :: b /\ length a = i.
Proof.
  revert i; induction l as [|y l IH]; intros [|i] H; simpl in H; try discriminate.
  - inversion H; subst. exists [], l. auto.
  - destruct (IH _ H) as (a & b & -> & <-). exists (y :: a), b. auto.
Qed.

Lemma set_nth_same {A} i (l : list A) x : nth_error l i = Some x -> set_nth i x l = l.
Proof.
  revert i; induction l as [|y l IH]; intros [|i] H; simpl in *; try discriminate; [congruence|].
  rewrite IH; auto.
Qed.

(** * association lists *)

Lemma aget_adel {V} k k' (l : list (key * V)) : aget k' (adel k l) = if beqb k' k then None else aget k' l.
Proof.
  induction l as [|[k0 v] l IH]; simpl.
  - destruct (beqb k' k); reflexivity.
  - destruct (beqb_spec k k0) as [->|Hne]; simpl.
    + rewrite IH. destruct (beqb_spec k' k0) as [->|]; reflexivity.
    + rewrite IH. destruct (beqb_spec k' k0) as [->|Hne'].
      * destruct (beqb_spec k0 k); congruence.
      * reflexivity.
Qed.

Lemma aget_aset {V} k k' (v : V) l : aget k' (aset k v l) = if beqb k' k then Some v else aget k' l.
Proof.
  unfold aset. simpl. destruct (beqb_spec k' k) as [->|Hne]; [reflexivity|].
  rewrite aget_adel. destruct (beqb_spec k' k); congruence.
Qed.

Lemma aget_in {V} k (l : list (key * V)) : In k (map fst l) <-> aget k l <> None.
Proof.
  induction l as [|[k0 v] l IH]; simpl; [tauto|].
  destruct (beqb_spec k k0) as [->|Hne].
  - split; [congruence|auto].
  - rewrite <- IH. split; [intros [H|H]; [congruence|exact H]|auto].
Qed.

Lemma adel_in {V} k k' (l : list (key * V)) : In k' (map fst (adel k l)) <-> k' <> k /\ In k' (map fst l).
Proof.
  rewrite !aget_in, aget_adel. destruct (beqb_spec k' k) as [->|Hne]; tauto.
Qed.

Lemma adel_nodup {V} k (l : list (key * V)) : NoDup (map fst l) -> NoDup (map fst (adel k l)).
Proof.
  induction l as [|[k0 v] l IH]; simpl; intros H; [constructor|].
  inversion H as [|? ? Hnin Hnd]; subst.
  destruct (beqb k k0); simpl; auto.
  constructor; auto. rewrite adel_in. tauto.
Qed.

Lemma aset_nodup {V} k (v : V) l : NoDup (map fst l) -> NoDup (map fst (aset k v l)).
Proof.
  intros H. unfold aset. simpl. constructor; [|apply adel_nodup; exact H].
  rewrite adel_in. tauto.
Qed.

Lemma adel_absent {V} k (l : list (key * V)) : aget k l = None -> adel k l = l.
Proof.
  induction l as [|[k0 v] l IH]; simpl; [reflexivity|].
  destruct (beqb k k0); [discriminate|]. intros H. rewrite IH; auto.
Qed.

(** * blank / nonblank *)

Lemma blank_length k l : length (blank k l) = length l.
Proof. apply map_length. Qed.

Lemma blank_app k a b : blank k (a ++ b) = blank k a ++ blank k b.
Proof. apply map_app. Qed.

Lemma blank_notin k l : ~ In k l -> blank k l = l.
Proof.
  induction l as [|x l IH]; simpl; intros H; [reflexivity|].
  destruct (beqb_spec x k) as [->|Hne]; [tauto|]. rewrite IH; tauto.
Qed.

Lemma blank_empty l : blank [] l = l.
Proof.
  induction l as [|x l IH]; simpl; [reflexivity|]. rewrite IH.
  destruct (beqb_spec x []) as [->|]; reflexivity.
Qed.

Lemma nonblank_app a b : nonblank (a ++ b) = nonblank a ++ nonblank b.
Proof. apply filter_app. Qed.

Lemma nonblank_in k l : In k (nonblank l) <-> In k l /\ k <> [].
Proof.
  unfold nonblank. rewrite filter_In. destruct k; simpl; split; intros [H1 H2]; split; auto; congruence.
Qed.

Lemma is_empty_false k : k <> [] -> is_empty k = false.
Proof. destruct k; simpl; congruence. Qed.

Lemma nonblank_blank k l : nonblank (blank k l) = filter (fun x => negb (beqb x k)) (nonblank l).
Proof.
  induction l as [|x l IH]; simpl; [reflexivity|].
  destruct (beqb_spec x k) as [->|Hne]; simpl.
  - destruct (is_empty k) eqn:E; simpl; [exact IH|]. rewrite beqb_refl. simpl. exact IH.
  - destruct (is_empty x) eqn:E; simpl; [exact IH|].
    destruct (beqb_spec x k); [congruence|]. simpl. rewrite IH. reflexivity.
Qed.

(** the slot holding the only occurrence of [k] is blanked = [blank k] of the whole list *)
Lemma set_nth_blank (k : key) i (l : list key) :
  nth_error l i = Some k ->
  (forall j, nth_error l j = Some k -> j = i) ->
  set_nth i [] l = blank k l.
Proof.
  revert i; induction l as [|x l IH]; intros i Hi Hu; [destruct i; discriminate|].
  destruct i as [|i]; simpl in *.
  - inversion Hi; subst. rewrite beqb_refl. f_equal.
    symmetry. apply blank_notin. intros Hin. apply In_nth_error in Hin. destruct Hin as [j Hj].
    specialize (Hu (S j) Hj). discriminate.
  - destruct (beqb_spec x k) as [->|Hne]; [specialize (Hu 0 eq_refl); discriminate|].
    f_equal. apply IH; [exact Hi|]. intros j Hj. specialize (Hu (S j) Hj). lia.
Qed.

(** * the view *)

Lemma view_of_split (a b : list key) (x : key) : view_of (length a) (a ++ x :: b) = b ++ a.
Proof.
  unfold view_of. f_equal.
  - replace (S (length a)) with (length (a ++ [x])) by (rewrite app_length; simpl; lia).
    replace (a ++ x :: b) with ((a ++ [x]) ++ b) by (rewrite <- app_assoc; reflexivity).
    rewrite skipn_app, Nat.sub_diag, skipn_all. reflexivity.
  - rewrite firstn_app, Nat.sub_diag, firstn_all. simpl. apply app_nil_r.
Qed.

Lemma view_of_blank (k : key) idx (mk : list key) : view_of idx (blank k mk) = blank k (view_of idx mk).
Proof. unfold view_of, blank. rewrite map_app, skipn_map, firstn_map. reflexivity. Qed.

Lemma view_of_length idx (mk : list key) : idx < length mk -> length (view_of idx mk) = length mk - 1.
Proof. intros H. unfold view_of. rewrite app_length, skipn_length, firstn_length. lia. Qed.

(** appendKeyToList on the ring = push on the queue; the key removed is the queue's head *)
Lemma view_append (k : key) (idx : nat) (mk : list key) :
  2 <= length mk -> nth_error mk idx = Some [] ->
  let mk1 := set_nth idx k mk in
  let idx' := (S idx) mod (length mk) in
  idx' < length mk /\ idx' <> idx /\
  nth idx' mk1 [] = hd [] (view_of idx mk) /\
  view_of idx' (set_nth idx' [] mk1) = q_push k (view_of idx mk).
Proof.
  intros Hlen Hidx. cbv zeta.
  destruct (split_at _ _ _ Hidx) as (a & b & -> & <-).
  rewrite set_nth_app, view_of_split. rewrite app_length in *. cbn [length] in *.
  destruct b as [|y b].
  - (* wrap: the empty slot is the last one *)
    cbn [length] in *.
    assert (E : S (length a) mod (length a + 1) = 0).
    { replace (S (length a)) with (length a + 1) by lia. apply Nat.mod_same. lia. }
    rewrite E.
    destruct a as [|z a]; cbn [length] in *; [lia|].
    repeat split; try lia.
    cbn [app set_nth]. unfold view_of, q_push. cbn [skipn firstn app tl]. rewrite app_nil_r. reflexivity.
  - cbn [length] in *.
    rewrite Nat.mod_small by lia.
    change (a ++ k :: y :: b) with (a ++ [k] ++ y :: b). rewrite app_assoc.
    set (a' := a ++ [k]).
    assert (E3 : S (length a) = length a') by (unfold a'; rewrite app_length; cbn [length]; lia).
    rewrite E3.
    repeat split.
    + lia.
    + lia.
    + rewrite (nth_nth_error _ _ [] y) by apply nth_error_app_mid. reflexivity.
    + rewrite set_nth_app, view_of_split. unfold q_push, a'. cbn [app tl]. rewrite app_assoc. reflexivity.
Qed.

(** membership and counting are the same on the ring and on the view (the slot left out is empty) *)
Lemma view_of_in (k : key) idx (mk : list key) : nth_error mk idx = Some [] -> k <> [] -> (In k (view_of idx mk) <-> In k mk).
Proof.
  intros Hidx Hk. destruct (split_at _ _ _ Hidx) as (a & b & -> & <-).
  rewrite view_of_split, !in_app_iff. simpl. split; [tauto|]. intros [H|[H|H]]; auto. congruence.
Qed.

Lemma view_of_nonblank_perm idx (mk : list key) :
  nth_error mk idx = Some [] -> Permutation (nonblank (view_of idx mk)) (nonblank mk).
Proof.
  intros Hidx. destruct (split_at _ _ _ Hidx) as (a & b & -> & <-).
  rewrite view_of_split, !nonblank_app. simpl. apply Permutation_app_comm.
Qed.

(** * the ring invariant *)

Definition lookup (s : shard) (k : key) : option (value * nat) := aget k (items s).

(** ring and map are in bijection: a non-empty key sits in slot [i] iff the map holds it with index [i];
    the empty string (the empty-slot mark) is not a key of the map *)
Definition bij (mk : list key) (f : key -> option (value * nat)) : Prop :=
  f [] = None /\
  forall k i, k <> [] -> (nth_error mk i = Some k <-> exists v, f k = Some (v, i)).

Lemma bij_evict mk f f' i :
  bij mk f -> i < length mk ->
  (forall k, f' k = if beqb k (nth i mk []) then None else f k) ->
  bij (set_nth i [] mk) f'.
Proof.
  intros [H0 Hb] Hi Hf'. split.
  - rewrite Hf'. destruct (beqb [] (nth i mk [])); auto.
  - intros k j Hk. rewrite nth_error_set_nth by exact Hi. rewrite Hf'.
    destruct (Nat.eqb_spec j i) as [->|Hji].
    + split; [intros E; inversion E; congruence|].
      intros [v Hv]. destruct (beqb_spec k (nth i mk [])) as [E|Hne]; [discriminate|].
      exfalso. apply Hne. symmetry. apply nth_nth_error. apply Hb; eauto.
    + destruct (beqb_spec k (nth i mk [])) as [E|Hne].
      * split; [|intros [v Hv]; discriminate].
        intros Hj. exfalso.
        assert (Hi' : nth_error mk i = Some k) by (rewrite E; apply nth_error_nth_lt; exact Hi).
        apply Hb in Hj; auto. apply Hb in Hi'; auto.
        destruct Hj as [v1 H1], Hi' as [v2 H2]. congruence.
      * apply Hb; auto.
Qed.

Lemma bij_add mk f f' k v idx :
  bij mk f -> k <> [] -> f k = None -> nth_error mk idx = Some [] ->
  (forall k', f' k' = if beqb k' k then Some (v, idx) else f k') ->
  bij (set_nth idx k mk) f'.
Proof.
  intros [H0 Hb] Hk Hfk Hidx Hf'.
  assert (Hi : idx < length mk) by (apply nth_error_Some; congruence).
  split.
  - rewrite Hf'. destruct (beqb_spec [] k); [congruence|auto].
  - intros k' j Hk'. rewrite nth_error_set_nth by exact Hi. rewrite Hf'.
    destruct (Nat.eqb_spec j idx) as [->|Hj].
    + destruct (beqb_spec k' k) as [->|Hne].
      * split; eauto.
      * split; [congruence|]. intros [v' Hv'].
        assert (nth_error mk idx = Some k') by (apply Hb; eauto). congruence.
    + destruct (beqb_spec k' k) as [->|Hne].
      * split; [|intros [v' E]; congruence].
        intros Hj'. apply Hb in Hj'; auto. destruct Hj' as [v' E]. congruence.
      * apply Hb; auto.
Qed.

Lemma bij_unique mk f k i j : bij mk f -> k <> [] -> nth_error mk i = Some k -> nth_error mk j = Some k -> j = i.
Proof.
  intros [_ Hb] Hk Hi Hj. apply Hb in Hi; auto. apply Hb in Hj; auto.
  destruct Hi as [v1 H1], Hj as [v2 H2]. congruence.
Qed.

Record shard_inv (s : shard) : Prop := mkInv {
  inv_len : length (mapKeys s) = maxSize s;
  inv_idx : nth_error (mapKeys s) (idxAdd s) = Some [];
  inv_nodup : NoDup (map fst (items s));
  inv_bij : bij (mapKeys s) (lookup s)
}.

Lemma inv_idx_lt s : shard_inv s -> idxAdd s < maxSize s.
Proof. intros H. rewrite <- (inv_len _ H). apply nth_error_Some. rewrite (inv_idx _ H). discriminate. Qed.

Lemma new_shard_inv m : 1 <= m -> shard_inv (new_shard m).
Proof.
  intros Hm. constructor; cbn.
  - apply repeat_length.
  - destruct m; [lia|reflexivity].
  - constructor.
  - split; [reflexivity|]. intros k i Hk. split.
    + intros H. apply nth_error_In in H. apply repeat_spec in H. congruence.
    + intros [v H]. discriminate.
Qed.

Lemma lookup_slot s k v i : shard_inv s -> lookup s k = Some (v, i) -> k <> [] /\ nth_error (mapKeys s) i = Some k.
Proof.
  intros Hinv H. destruct (inv_bij _ Hinv) as [H0 Hb].
  assert (Hk : k <> []) by (intros ->; congruence).
  split; [exact Hk|]. apply Hb; eauto.
Qed.

(** appendKeyToList re-establishes the invariant from the state in which the key is already in the
    map with index [idxAdd] and about to be written to that slot *)
Lemma append_key_inv k s :
  length (mapKeys s) = maxSize s -> idxAdd s < maxSize s -> NoDup (map fst (items s)) ->
  bij (set_nth (idxAdd s) k (mapKeys s)) (lookup s) ->
  shard_inv (append_key k s).
Proof.
  intros Hlen Hidx Hnd Hb. unfold append_key.
  assert (Hm : S (idxAdd s) mod maxSize s < maxSize s) by (apply Nat.mod_upper_bound; lia).
  constructor; cbn [maxSize idxAdd mapKeys items].
  - rewrite !set_nth_length. exact Hlen.
  - rewrite nth_error_set_nth by (rewrite set_nth_length; lia). rewrite Nat.eqb_refl. reflexivity.
  - apply adel_nodup. exact Hnd.
  - eapply bij_evict; [exact Hb|rewrite set_nth_length; lia|].
    intros k0. unfold lookup. cbn [items]. apply aget_adel.
Qed.

Lemma shard_set_inv k v s : shard_inv s -> k <> [] -> shard_inv (shard_set k v s).
Proof.
  intros Hinv Hk. pose proof (inv_idx_lt _ Hinv) as Hidx.
  unfold shard_set. destruct (aget k (items s)) as [[v0 i]|] eqn:E.
  - destruct (lookup_slot s k v0 i Hinv E) as [_ Hslot].
    assert (Hi : i < length (mapKeys s)) by (apply nth_error_Some; congruence).
    apply append_key_inv; cbn [maxSize idxAdd mapKeys items].
    + rewrite set_nth_length. apply (inv_len _ Hinv).
    + exact Hidx.
    + apply aset_nodup. apply (inv_nodup _ Hinv).
    + apply bij_add with (f := fun k' => if beqb k' k then None else lookup s k') (v := v); auto.
      * eapply bij_evict; [apply (inv_bij _ Hinv)|exact Hi|].
        intros k0. rewrite (nth_nth_error _ _ _ _ Hslot). reflexivity.
      * rewrite beqb_refl. reflexivity.
      * rewrite nth_error_set_nth by exact Hi. destruct (idxAdd s =? i); [reflexivity|apply (inv_idx _ Hinv)].
      * intros k'. unfold lookup. cbn [items]. rewrite aget_aset. destruct (beqb k' k); reflexivity.
  - apply append_key_inv; cbn [maxSize idxAdd mapKeys items].
    + apply (inv_len _ Hinv).
    + exact Hidx.
    + apply aset_nodup. apply (inv_nodup _ Hinv).
    + apply bij_add with (f := lookup s) (v := v); auto.
      * apply (inv_bij _ Hinv).
      * apply (inv_idx _ Hinv).
      * intros k'. unfold lookup. cbn [items]. apply aget_aset.
Qed.

Lemma shard_set_if_absent_inv k v s : shard_inv s -> k <> [] -> shard_inv (fst (shard_set_if_absent k v s)).
Proof.
  intros Hinv Hk. pose proof (inv_idx_lt _ Hinv) as Hidx.
  unfold shard_set_if_absent. destruct (aget k (items s)) as [p|] eqn:E; cbn [fst]; [exact Hinv|].
  apply append_key_inv; cbn [maxSize idxAdd mapKeys items].
  - apply (inv_len _ Hinv).
  - exact Hidx.
  - apply aset_nodup. apply (inv_nodup _ Hinv).
  - apply bij_add with (f := lookup s) (v := v); auto.
    + apply (inv_bij _ Hinv).
    + apply (inv_idx _ Hinv).
    + intros k'. unfold lookup. cbn [items]. apply aget_aset.
Qed.

(** Remove keeps the invariant for every key, the empty one included *)
Lemma shard_remove_inv k s : shard_inv s -> shard_inv (shard_remove k s).
Proof.
  intros Hinv. unfold shard_remove. destruct (aget k (items s)) as [[v0 i]|] eqn:E; [|exact Hinv].
  destruct (lookup_slot s k v0 i Hinv E) as [Hk Hslot].
  assert (Hi : i < length (mapKeys s)) by (apply nth_error_Some; congruence).
  constructor; cbn [maxSize idxAdd mapKeys items].
  - rewrite set_nth_length. apply (inv_len _ Hinv).
  - rewrite nth_error_set_nth by exact Hi. destruct (idxAdd s =? i); [reflexivity|apply (inv_idx _ Hinv)].
  - apply adel_nodup. apply (inv_nodup _ Hinv).
  - eapply bij_evict; [apply (inv_bij _ Hinv)|exact Hi|].
    intros k0. rewrite (nth_nth_error _ _ _ _ Hslot). unfold lookup. cbn [items]. apply aget_adel.
Qed.

(** sizes never change *)
Lemma append_key_maxSize k s : maxSize (append_key k s) = maxSize s.
Proof. reflexivity. Qed.
Lemma shard_set_maxSize k v s : maxSize (shard_set k v s) = maxSize s.
Proof. reflexivity. Qed.
Lemma shard_set_if_absent_maxSize k v s : maxSize (fst (shard_set_if_absent k v s)) = maxSize s.
Proof. unfold shard_set_if_absent. destruct (aget k (items s)); reflexivity. Qed.
Lemma shard_remove_maxSize k s : maxSize (shard_remove k s) = maxSize s.
Proof. unfold shard_remove. destruct (aget k (items s)) as [[? ?]|]; reflexivity. Qed.

(** * the shard refines a fixed-length queue *)

Lemma view_length s : shard_inv s -> length (view s) = maxSize s - 1.
Proof.
  intros Hinv. unfold view. rewrite view_of_length; [rewrite (inv_len _ Hinv); reflexivity|].
  rewrite (inv_len _ Hinv). apply inv_idx_lt. exact Hinv.
Qed.

Lemma lookup_in_ring s k : shard_inv s -> k <> [] -> (lookup s k <> None <-> In k (mapKeys s)).
Proof.
  intros Hinv Hk. destruct (inv_bij _ Hinv) as [_ Hb]. split.
  - intros H. destruct (lookup s k) as [[v i]|] eqn:E; [|congruence].
    apply nth_error_In with i. apply Hb; eauto.
  - intros H. apply In_nth_error in H. destruct H as [i Hi]. apply Hb in Hi; auto.
    destruct Hi as [v Hv]. congruence.
Qed.

Lemma lookup_in_view s k : shard_inv s -> k <> [] -> (lookup s k <> None <-> In k (view s)).
Proof.
  intros Hinv Hk. rewrite lookup_in_ring by assumption. unfold view.
  symmetry. apply view_of_in; [apply (inv_idx _ Hinv)|exact Hk].
Qed.

Lemma append_key_spec k s :
  length (mapKeys s) = maxSize s -> 2 <= maxSize s -> nth_error (mapKeys s) (idxAdd s) = Some [] ->
  view (append_key k s) = q_push k (view s) /\
  forall k', lookup (append_key k s) k' = if beqb k' (q_victim (view s)) then None else lookup s k'.
Proof.
  intros Hlen Hm Hidx.
  destruct (view_append k (idxAdd s) (mapKeys s)) as (H1 & H2 & H3 & H4); [rewrite Hlen; exact Hm|exact Hidx|].
  rewrite Hlen in *. unfold append_key, view, lookup, q_victim. cbn [maxSize idxAdd mapKeys items].
  split; [exact H4|]. intros k'. rewrite aget_adel, H3. reflexivity.
Qed.

Lemma blank_view_absent s k : shard_inv s -> k <> [] -> lookup s k = None -> blank k (view s) = view s.
Proof.
  intros Hinv Hk Hn. apply blank_notin. intros Hin. apply (lookup_in_view s k Hinv Hk) in Hin. congruence.
Qed.

Lemma blank_hd_neq k l : k <> [] -> hd [] (blank k l) <> k.
Proof.
  intros Hk. destruct l as [|x l]; simpl; [congruence|].
  destruct (beqb_spec x k); congruence.
Qed.

(** Set = blank the key's old position, push the key at the back; the head of the queue falls out *)
Lemma shard_set_spec k v s :
  shard_inv s -> 2 <= maxSize s -> k <> [] ->
  view (shard_set k v s) = q_set k (view s) /\
  forall k', lookup (shard_set k v s) k' =
             if beqb k' (q_victim (blank k (view s))) then None
             else if beqb k' k then Some (v, idxAdd s) else lookup s k'.
Proof.
  intros Hinv Hm Hk. unfold shard_set.
  destruct (aget k (items s)) as [[v0 i]|] eqn:E.
  - destruct (lookup_slot s k v0 i Hinv E) as [_ Hslot].
    assert (Hi : i < length (mapKeys s)) by (apply nth_error_Some; congruence).
    assert (Hbl : set_nth i [] (mapKeys s) = blank k (mapKeys s)).
    { apply set_nth_blank; [exact Hslot|]. intros j Hj.
      eapply bij_unique; [apply (inv_bij _ Hinv)|exact Hk|exact Hslot|exact Hj]. }
    rewrite Hbl.
    set (s1 := mkShard _ _ _ _).
    destruct (append_key_spec k s1) as [Hv Hl]; unfold s1; cbn [maxSize idxAdd mapKeys items].
    + rewrite blank_length. apply (inv_len _ Hinv).
    + exact Hm.
    + rewrite <- Hbl. rewrite nth_error_set_nth by exact Hi.
      destruct (idxAdd s =? i); [reflexivity|apply (inv_idx _ Hinv)].
    + fold s1.
      assert (Hvs : view s1 = blank k (view s))
        by (unfold s1, view; cbn [idxAdd mapKeys]; apply view_of_blank).
      rewrite Hv, Hvs. split; [reflexivity|]. intros k'. rewrite Hl, Hvs.
      destruct (beqb k' (q_victim (blank k (view s)))); [reflexivity|].
      unfold lookup, s1. cbn [items]. apply aget_aset.
  - rewrite (blank_view_absent s k Hinv Hk E).
    set (s1 := mkShard _ _ _ _).
    destruct (append_key_spec k s1) as [Hv Hl]; unfold s1; cbn [maxSize idxAdd mapKeys items].
    + apply (inv_len _ Hinv).
    + exact Hm.
    + apply (inv_idx _ Hinv).
    + fold s1. rewrite Hv. unfold q_set. 
      replace (view s1) with (view s) by reflexivity.
      rewrite (blank_view_absent s k Hinv Hk E).
      split; [reflexivity|]. intros k'. rewrite Hl.
      replace (view s1) with (view s) by reflexivity.
      destruct (beqb k' (q_victim (view s))); [reflexivity|].
      unfold lookup, s1. cbn [items]. apply aget_aset.
Qed.

Lemma shard_set_if_absent_present k v s : lookup s k <> None -> shard_set_if_absent k v s = (s, false).
Proof. unfold lookup, shard_set_if_absent. destruct (aget k (items s)); [reflexivity|congruence]. Qed.

Lemma shard_set_if_absent_spec k v s :
  shard_inv s -> 2 <= maxSize s -> lookup s k = None ->
  snd (shard_set_if_absent k v s) = true /\
  view (fst (shard_set_if_absent k v s)) = q_push k (view s) /\
  forall k', lookup (fst (shard_set_if_absent k v s)) k' =
             if beqb k' (q_victim (view s)) then None
             else if beqb k' k then Some (v, idxAdd s) else lookup s k'.
Proof.
  intros Hinv Hm E. unfold shard_set_if_absent. unfold lookup in E. rewrite E. cbn [fst snd].
  split; [reflexivity|].
  set (s1 := mkShard _ _ _ _).
  destruct (append_key_spec k s1) as [Hv Hl]; unfold s1; cbn [maxSize idxAdd mapKeys items].
  - apply (inv_len _ Hinv).
  - exact Hm.
  - apply (inv_idx _ Hinv).
  - fold s1. rewrite Hv. replace (view s1) with (view s) by reflexivity.
    split; [reflexivity|]. intros k'. rewrite Hl. replace (view s1) with (view s) by reflexivity.
    destruct (beqb k' (q_victim (view s))); [reflexivity|].
    unfold lookup, s1. cbn [items]. apply aget_aset.
Qed.

(** Remove = blank the key's position (any key; nothing happens for an absent or empty one) *)
Lemma shard_remove_spec k s :
  shard_inv s ->
  view (shard_remove k s) = blank k (view s) /\
  forall k', lookup (shard_remove k s) k' = if beqb k' k then None else lookup s k'.
Proof.
  intros Hinv. unfold shard_remove.
  destruct (aget k (items s)) as [[v0 i]|] eqn:E.
  - destruct (lookup_slot s k v0 i Hinv E) as [Hk Hslot].
    assert (Hbl : set_nth i [] (mapKeys s) = blank k (mapKeys s)).
    { apply set_nth_blank; [exact Hslot|]. intros j Hj.
      eapply bij_unique; [apply (inv_bij _ Hinv)|exact Hk|exact Hslot|exact Hj]. }
    rewrite Hbl. unfold view, lookup. cbn [idxAdd mapKeys items]. rewrite view_of_blank.
    split; [reflexivity|]. intros k'. apply aget_adel.
  - split.
    + destruct k as [|b k]; [symmetry; apply blank_empty|].
      symmetry. apply blank_view_absent; [exact Hinv|discriminate|exact E].
    + intros k'. destruct (beqb_spec k' k) as [->|]; [exact E|reflexivity].
Qed.

(** * Keys: the ring walk lists the non-blank positions of the view, oldest first *)

Lemma skipn_cons_nth (i : nat) (l : list key) : i < length l -> skipn i l = nth i l [] :: skipn (S i) l.
Proof.
  revert i; induction l as [|x l IH]; intros i Hi; cbn [length] in Hi; [lia|].
  destruct i as [|i]; [reflexivity|]. cbn [skipn nth]. apply IH. lia.
Qed.

Lemma nonblank_cons (x : key) l : nonblank (x :: l) = if is_empty x then nonblank l else x :: nonblank l.
Proof. unfold nonblank. cbn [filter]. destruct (is_empty x); reflexivity. Qed.

Lemma walk_nowrap (mk : list key) m : length mk = m ->
  forall fuel i stop, i <= stop -> stop < m -> stop - i < fuel ->
  walk fuel i stop m mk = Some (nonblank (firstn (stop - i) (skipn i mk))).
Proof.
  intros Hlen. induction fuel as [|f IH]; intros i stop Hi Hs Hf; [lia|].
  cbn [walk]. destruct (Nat.eqb_spec i stop) as [->|Hne].
  - rewrite Nat.sub_diag. reflexivity.
  - rewrite Nat.mod_small by lia. rewrite IH by lia.
    replace (stop - i) with (S (stop - S i)) by lia.
    rewrite (skipn_cons_nth i mk) by lia. cbn [firstn]. rewrite nonblank_cons.
    destruct (is_empty (nth i mk [])); reflexivity.
Qed.

Lemma walk_wrap (mk : list key) m : length mk = m ->
  forall fuel i stop, stop < i -> i < m -> (m - i) + stop < fuel ->
  walk fuel i stop m mk = Some (nonblank (skipn i mk ++ firstn stop mk)).
Proof.
  intros Hlen. induction fuel as [|f IH]; intros i stop Hs Hi Hf; [lia|].
  cbn [walk]. destruct (Nat.eqb_spec i stop) as [->|Hne]; [lia|].
  rewrite (skipn_cons_nth i mk) by lia. cbn [app]. rewrite nonblank_cons.
  destruct (Nat.eq_dec (S i) m) as [E|E].
  - rewrite E, Nat.mod_same by lia.
    rewrite (walk_nowrap mk m Hlen) by lia.
    rewrite (@skipn_all2 _ m mk) by lia. rewrite Nat.sub_0_r. cbn [skipn app].
    destruct (is_empty (nth i mk [])); reflexivity.
  - rewrite Nat.mod_small by lia. rewrite IH by lia.
    destruct (is_empty (nth i mk [])); reflexivity.
Qed.

Lemma walk_view s : shard_inv s -> shard_keys s = Some (nonblank (view s)).
Proof.
  intros Hinv. pose proof (inv_idx_lt _ Hinv) as Hidx. pose proof (inv_len _ Hinv) as Hlen.
  unfold shard_keys, view, view_of.
  destruct (Nat.eq_dec (S (idxAdd s)) (maxSize s)) as [E|E].
  - rewrite E, Nat.mod_same by lia.
    rewrite (walk_nowrap _ _ Hlen) by lia.
    rewrite (@skipn_all2 _ (maxSize s) (mapKeys s)) by lia. rewrite Nat.sub_0_r. reflexivity.
  - rewrite Nat.mod_small by lia.
    rewrite (walk_wrap _ _ Hlen) by lia. reflexivity.
Qed.

(** * Count = number of non-blank positions *)

Lemma nodup_nonblank (l : list key) :
  (forall i j k, k <> [] -> nth_error l i = Some k -> nth_error l j = Some k -> j = i) -> NoDup (nonblank l).
Proof.
  induction l as [|x l IH]; intros Hu; [constructor|].
  rewrite nonblank_cons. assert (Hl : NoDup (nonblank l)).
  { apply IH. intros i j k Hk Hi Hj. specialize (Hu (S i) (S j) k Hk Hi Hj). lia. }
  destruct (is_empty x) eqn:Ex; [exact Hl|].
  constructor; [|exact Hl]. rewrite nonblank_in. intros [Hin _].
  apply In_nth_error in Hin. destruct Hin as [j Hj].
  assert (Hx : x <> []) by (destruct x; [discriminate|congruence]).
  specialize (Hu 0 (S j) x Hx eq_refl Hj). discriminate.
Qed.

Lemma ring_nodup s : shard_inv s -> NoDup (nonblank (mapKeys s)).
Proof.
  intros Hinv. apply nodup_nonblank. intros i j k Hk Hi Hj.
  eapply bij_unique; [apply (inv_bij _ Hinv)|exact Hk|exact Hi|exact Hj].
Qed.

Lemma view_nodup s : shard_inv s -> NoDup (nonblank (view s)).
Proof.
  intros Hinv. eapply Permutation_NoDup; [|apply ring_nodup; exact Hinv].
  symmetry. apply view_of_nonblank_perm. apply (inv_idx _ Hinv).
Qed.

Lemma items_perm_view s : shard_inv s -> Permutation (map fst (items s)) (nonblank (view s)).
Proof.
  intros Hinv. apply NoDup_Permutation; [apply (inv_nodup _ Hinv)|apply view_nodup; exact Hinv|].
  intros k. rewrite aget_in, nonblank_in. fold (lookup s k).
  destruct k as [|b k].
  - destruct (inv_bij _ Hinv) as [H0 _]. rewrite H0. split; [congruence|tauto].
  - rewrite (lookup_in_view s (b :: k) Hinv) by discriminate. split; [intros H; split; [exact H|discriminate]|tauto].
Qed.

Lemma count_view s : shard_inv s -> shard_count s = length (nonblank (view s)).
Proof.
  intros Hinv. unfold shard_count. rewrite <- (map_length fst).
  apply Permutation_length. apply items_perm_view. exact Hinv.
Qed.

Lemma nonblank_length_le (l : list key) : length (nonblank l) <= length l.
Proof. induction l as [|x l IH]; [apply le_n|]. rewrite nonblank_cons. destruct (is_empty x); cbn [length]; lia. Qed.

(** the bound of one shard: at most [maxSize - 1] entries *)
Lemma count_bound s : shard_inv s -> shard_count s <= maxSize s - 1.
Proof.
  intros Hinv. rewrite count_view by exact Hinv. rewrite <- view_length by exact Hinv. apply nonblank_length_le.
Qed.

(** Has / Get read the map *)
Lemma shard_has_lookup k s : shard_has k s = true <-> lookup s k <> None.
Proof. unfold shard_has, lookup. destruct (aget k (items s)); split; congruence. Qed.

Lemma shard_get_lookup k s : shard_get k s = option_map fst (lookup s k).
Proof. unfold shard_get, lookup. destruct (aget k (items s)) as [[v i]|]; reflexivity. Qed.

Lemma shard_has_view k s : shard_inv s -> k <> [] -> (shard_has k s = true <-> In k (view s)).
Proof. intros Hinv Hk. rewrite shard_has_lookup. apply lookup_in_view; assumption. Qed.

Lemma shard_has_get k s : shard_has k s = true <-> shard_get k s <> None.
Proof. unfold shard_has, shard_get. destruct (aget k (items s)) as [[v i]|]; split; congruence. Qed.
