(** The sharded map of concurrent-map v0.1.4 (New, GetShard, Set, SetIfAbsent, Get,
    Has, Remove, Count, Keys) and the cache wrapper fifocache/fifocacheSharded.go.
    Definitions only. *)
From Coq Require Import List NArith PeanoNat Bool.
From Verif Require Import Base.BStr Fifo.Ring.
Import ListNotations.
Local Open Scope nat_scope.

(** New:  shardSize := maxSize / shardCount; if shardSize == 0 { shardSize = 1 };
          if maxSize % shardCount != 0 { shardSize++ }                              *)
Definition shard_size (sz n : nat) : nat :=
  let q := sz / n in
  let q1 := if q =? 0 then 1 else q in
  if sz mod n =? 0 then q1 else S q1.

Record cmap : Type := mkCmap { shardCount : nat; shards : list shard }.

Definition cmap_new (sz n : nat) : cmap := mkCmap n (repeat (new_shard (shard_size sz n)) n).

(** GetShard: shards[uint(fnv32(key)) % uint(shardCount)]; the dependency's fnv32
    (hash *= 16777619; hash ^= uint32(key[i]), on uint32, from 2166136261).  The uint32
    wrap of the product is written as a mask (faster to run than [mod]); lemma
    [fnv32_mask_eq] shows this is bit for bit [BStr.fnv32]. *)
Definition fnv32_mask (k : key) : N :=
  fold_left (fun h b => N.lxor (N.land (h * fnv_prime) 4294967295) b) k fnv_offset.
Definition route (n : nat) (k : key) : nat := N.to_nat (N.modulo (fnv32_mask k) (N.of_nat n)).

Definition get_shard (m : cmap) (k : key) : shard := nth (route (shardCount m) k) (shards m) (new_shard 1).
Definition put_shard (m : cmap) (k : key) (s : shard) : cmap :=
  mkCmap (shardCount m) (set_nth (route (shardCount m) k) s (shards m)).

Definition cmap_set (k : key) (v : value) (m : cmap) : cmap := put_shard m k (shard_set k v (get_shard m k)).
Definition cmap_set_if_absent (k : key) (v : value) (m : cmap) : cmap * bool :=
  let (s', added) := shard_set_if_absent k v (get_shard m k) in (put_shard m k s', added).
Definition cmap_get (k : key) (m : cmap) : option value := shard_get k (get_shard m k).
Definition cmap_has (k : key) (m : cmap) : bool := shard_has k (get_shard m k).
Definition cmap_remove (k : key) (m : cmap) : cmap := put_shard m k (shard_remove k (get_shard m k)).
Definition cmap_count (m : cmap) : nat := fold_right (fun s acc => shard_count s + acc) 0 (shards m).

(** Keys: every shard's ring walk; the shards are walked by concurrent goroutines, so the
    order between shards is unspecified (the model lists them in shard order; observations
    are sorted unless there is one shard). [None] = a walk ran out of fuel (never). *)
Fixpoint all_keys (l : list shard) : option (list key) :=
  match l with
  | [] => Some []
  | s :: r => match shard_keys s, all_keys r with
              | Some a, Some b => Some (a ++ b)
              | _, _ => None
              end
  end.
Definition cmap_keys (m : cmap) : option (list key) := all_keys (shards m).

(** ---- the cache wrapper ---- *)
Definition hid := bytes.                       (* handler id *)
Definition call := (hid * N * key * value)%type. (* one handler invocation: id, tag of the registered function, key, value *)

Record cache : Type := mkCache {
  cm : cmap;
  maxsize : nat;
  handlers : list (hid * N)        (* mapDataHandlers: id -> registered function (identified by a tag) *)
}.

Definition new_cache (sz n : nat) : cache := mkCache (cmap_new sz n) sz [].

Inductive op : Type :=
| OPut (k : key) (v : value)
| OHasOrAdd (k : key) (v : value)
| OGet (k : key)
| OHas (k : key)
| OPeek (k : key)
| ORemove (k : key)
| OClear
| ORegister (id : hid) (tag : N)
| OUnregister (id : hid).

Inductive ret : Type :=
| RPut (evicted : bool)
| RHasOrAdd (has added : bool)
| RGet (v : option value)
| RHas (b : bool)
| RUnit.

(** callAddedDataHandlers: one goroutine per registered handler *)
Definition call_handlers (c : cache) (k : key) (v : value) : list call :=
  map (fun h => (fst h, snd h, k, v)) (handlers c).

(** Clear: keys := c.cache.Keys(); for each key: c.cache.Remove(key) *)
Definition cmap_clear (m : cmap) : cmap :=
  match cmap_keys m with
  | Some ks => fold_left (fun m' k => cmap_remove k m') ks m
  | None => m
  end.

Definition step (c : cache) (o : op) : cache * ret * list call :=
  match o with
  | OPut k v =>
      (mkCache (cmap_set k v (cm c)) (maxsize c) (handlers c), RPut true, call_handlers c k v)
  | OHasOrAdd k v =>
      let (m', added) := cmap_set_if_absent k v (cm c) in
      (mkCache m' (maxsize c) (handlers c), RHasOrAdd (negb added) added,
       if added then call_handlers c k v else [])
  | OGet k => (c, RGet (cmap_get k (cm c)), [])
  | OHas k => (c, RHas (cmap_has k (cm c)), [])
  | OPeek k => (c, RGet (cmap_get k (cm c)), [])
  | ORemove k => (mkCache (cmap_remove k (cm c)) (maxsize c) (handlers c), RUnit, [])
  | OClear => (mkCache (cmap_clear (cm c)) (maxsize c) (handlers c), RUnit, [])
  | ORegister id tag => (mkCache (cm c) (maxsize c) (aset id tag (handlers c)), RUnit, [])
  | OUnregister id => (mkCache (cm c) (maxsize c) (adel id (handlers c)), RUnit, [])
  end.

Definition step_cache (c : cache) (o : op) : cache := fst (fst (step c o)).
Definition run (c : cache) (ops : list op) : cache := fold_left step_cache ops c.

Definition cache_len (c : cache) : nat := cmap_count (cm c).
Definition cache_keys (c : cache) : list key := match cmap_keys (cm c) with Some l => l | None => [] end.
Definition cache_has (k : key) (c : cache) : bool := cmap_has k (cm c).
Definition cache_get (k : key) (c : cache) : option value := cmap_get k (cm c).

(** keys an operation hands to the map *)
Definition op_key (o : op) : option key :=
  match o with
  | OPut k _ | OHasOrAdd k _ | OGet k | OHas k | OPeek k | ORemove k => Some k
  | _ => None
  end.
Definition op_nonempty (o : op) : Prop := match op_key o with Some k => k <> [] | None => True end.
