(** Wire-format wrapper of the FIFO sharded cache model (component [fifo], property C20).
    config  nS nN [ alphabet keys ]
    op 1 key value   Put        -> 1=evicted
    op 2 key value   HasOrAdd   -> 1=has 2=added
    op 3 key         Get        -> 1=ok 3=value
    op 4 key         Has        -> 1=has
    op 5 key         Peek       -> 1=ok 3=value
    op 6 key         Remove
    op 7             Clear
    op 8 id tag      RegisterHandler
    op 9 id          UnRegisterHandler
    after every op: 10=Len 11=Keys (sorted) 12=Keys in the order returned (one shard only)
    13=[Has k | k in alphabet] 14=[Peek k | k in alphabet] 15=handler invocations (sorted multiset,
    each encoded as len(id) id tag len(key) key value) 16=MaxSize
    900=n12 : finding event F12 (an empty key was handed to Put/HasOrAdd, or an entry under the
    empty key exists before/after the step).  Numbers travel in hex, so the token [n12] is the
    number 18 = 0x12. *)
From Coq Require Import List NArith ZArith PeanoNat Bool.
From Verif Require Import Base.Generic Base.BStr Fifo.Ring Fifo.Sharded.
Import ListNotations.
Open Scope N_scope.

(** the alphabet keys carry their shard index, computed once at init with [route]
    (observing Has/Peek of every alphabet key after every step would otherwise hash
    each key again at every step) *)
Definition fifo_state : Type := (cache * list (key * nat))%type.
Definition has_at (c : cache) (kr : key * nat) : bool :=
  shard_has (fst kr) (nth (snd kr) (shards (cm c)) (new_shard 1)).
Definition get_at (c : cache) (kr : key * nat) : option value :=
  shard_get (fst kr) (nth (snd kr) (shards (cm c)) (new_shard 1)).

Definition fifo_init (args : list garg) : option fifo_state :=
  let sz := N.to_nat (arg_N (nth_arg args 0)) in
  let n := N.to_nat (arg_N (nth_arg args 1)) in
  let alpha := map (fun a => (arg_B a, route n (arg_B a))) (arg_L (nth_arg args 2)) in
  if (n =? 0)%nat then None else Some (new_cache sz n, alpha).

Definition decode_op (code : N) (args : list garg) : option op :=
  let k := arg_B (nth_arg args 0) in
  match code with
  | 1 => Some (OPut k (arg_B (nth_arg args 1)))
  | 2 => Some (OHasOrAdd k (arg_B (nth_arg args 1)))
  | 3 => Some (OGet k)
  | 4 => Some (OHas k)
  | 5 => Some (OPeek k)
  | 6 => Some (ORemove k)
  | 7 => Some OClear
  | 8 => Some (ORegister k (arg_N (nth_arg args 1)))
  | 9 => Some (OUnregister k)
  | _ => None
  end.

Definition enc_call (c : call) : bytes :=
  match c with
  | (id, tag, k, v) => N.of_nat (length id) :: id ++ tag :: N.of_nat (length k / 256) :: N.of_nat (length k mod 256) :: k ++ v
  end.

Definition enc_ret (r : ret) : list obs :=
  match r with
  | RPut e => [(1, g_bool e)]
  | RHasOrAdd h a => [(1, g_bool h); (2, g_bool a)]
  | RGet (Some v) => [(1, g_bool true); (3, GB v)]
  | RGet None => [(1, g_bool false); (3, GNil)]
  | RHas b => [(1, g_bool b)]
  | RUnit => []
  end.

Definition empty_key_given (o : op) : bool :=
  match o with
  | OPut k _ | OHasOrAdd k _ => is_empty k
  | _ => false
  end.

Definition fifo_step (st : fifo_state) (code : N) (args : list garg) : fifo_state * list obs :=
  let (c, alpha) := st in
  match decode_op code args with
  | None => (st, [])
  | Some o =>
      let '(c', r, calls) := step c o in
      let common :=
        let ks := cmap_keys (cm c') in
        [(10, g_N (N.of_nat (cache_len c')));
         (11, match ks with Some l => g_listB (bsort l) | None => GNil end)] ++
        (if (shardCount (cm c') =? 1)%nat
         then [(12, match ks with Some l => g_listB l | None => GNil end)] else []) ++
        [(13, GL (map (fun kr => g_bool (has_at c' kr)) alpha));
         (14, GL (map (fun kr => g_optB (get_at c' kr)) alpha));
         (15, g_listB (bsort (map enc_call calls)));
         (16, g_N (N.of_nat (maxsize c')))] in
      let r0 := route (shardCount (cm c)) [] in
      let f12 := empty_key_given o || has_at c ([], r0) || has_at c' ([], r0) in
      ((c', alpha), enc_ret r ++ common ++ (if f12 then [(900, g_N 18)] else []))
  end.

Definition fifo_component : component :=
  {| c_state := fifo_state; c_init := fifo_init; c_step := fifo_step |}.
