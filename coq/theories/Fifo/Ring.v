(** One shard of github.com/multiversx/concurrent-map v0.1.4 (ConcurrentMapShard),
    transcribed: a Go map [items] from key to (value, arrayIdx) and a ring
    [mapKeys] of [maxSize] key slots in which the empty string marks an empty
    slot; [idxAdd] is the slot the next key is written to.  Definitions only. *)
From Coq Require Import List NArith PeanoNat Bool.
From Verif Require Import Base.BStr.
Import ListNotations.
Local Open Scope nat_scope.

Definition key := bytes.
Definition value := bytes.

(** [len(s) == 0] — the ring's empty-slot sentinel is the empty string *)
Definition is_empty (k : key) : bool := match k with [] => true | _ => false end.

(** slice assignment [l[i] = x] (Go would panic out of range; never out of range under the invariant) *)
Fixpoint set_nth {A} (i : nat) (x : A) (l : list A) : list A :=
  match l, i with
  | [], _ => []
  | _ :: r, O => x :: r
  | y :: r, S j => y :: set_nth j x r
  end.

(** Go map as association list *)
Fixpoint aget {V} (k : key) (l : list (key * V)) : option V :=
  match l with
  | [] => None
  | (k', v) :: r => if beqb k k' then Some v else aget k r
  end.

Fixpoint adel {V} (k : key) (l : list (key * V)) : list (key * V) :=
  match l with
  | [] => []
  | (k', v) :: r => if beqb k k' then adel k r else (k', v) :: adel k r
  end.

Definition aset {V} (k : key) (v : V) (l : list (key * V)) : list (key * V) := (k, v) :: adel k l.

Record shard : Type := mkShard {
  maxSize : nat;
  idxAdd  : nat;
  mapKeys : list key;
  items   : list (key * (value * nat))
}.

Definition new_shard (m : nat) : shard := mkShard m 0 (repeat [] m) [].

(** appendKeyToList:
      shard.mapKeys[shard.idxAdd] = key
      shard.idxAdd++ ; shard.idxAdd %= shard.maxSize
      keyToRemove := shard.mapKeys[shard.idxAdd]
      shard.mapKeys[shard.idxAdd] = ""
      delete(shard.items, keyToRemove)                       *)
Definition append_key (k : key) (s : shard) : shard :=
  let mk1 := set_nth (idxAdd s) k (mapKeys s) in
  let idx := (S (idxAdd s)) mod (maxSize s) in
  let key_to_remove := nth idx mk1 [] in
  mkShard (maxSize s) idx (set_nth idx [] mk1) (adel key_to_remove (items s)).

(** Set:  v, ok := items[key]; items[key] = {idxAdd, value}; if ok { mapKeys[v.arrayIdx] = "" }; appendKeyToList *)
Definition shard_set (k : key) (v : value) (s : shard) : shard :=
  let old := aget k (items s) in
  let it1 := aset k (v, idxAdd s) (items s) in
  let mk1 := match old with
             | Some (_, i) => set_nth i [] (mapKeys s)
             | None => mapKeys s
             end in
  append_key k (mkShard (maxSize s) (idxAdd s) mk1 it1).

(** SetIfAbsent: returns [!ok] *)
Definition shard_set_if_absent (k : key) (v : value) (s : shard) : shard * bool :=
  match aget k (items s) with
  | Some _ => (s, false)
  | None =>
      (append_key k (mkShard (maxSize s) (idxAdd s) (mapKeys s) (aset k (v, idxAdd s) (items s))), true)
  end.

(** Remove: if ok { mapKeys[v.arrayIdx] = ""; delete(items, key) } *)
Definition shard_remove (k : key) (s : shard) : shard :=
  match aget k (items s) with
  | Some (_, i) => mkShard (maxSize s) (idxAdd s) (set_nth i [] (mapKeys s)) (adel k (items s))
  | None => s
  end.

Definition shard_get (k : key) (s : shard) : option value :=
  match aget k (items s) with Some (v, _) => Some v | None => None end.

Definition shard_has (k : key) (s : shard) : bool :=
  match aget k (items s) with Some _ => true | None => false end.

(** Count adds up [len(shard.items)] *)
Definition shard_count (s : shard) : nat := length (items s).

(** Keys, the ring walk of one shard:
      last := (idxAdd + 1) % maxSize
      for i := last; i != idxAdd; i = (i + 1) % maxSize { if len(mapKeys[i]) == 0 { continue }; ch <- mapKeys[i] }
    Explicit fuel; [None] = out of fuel (excluded by lemma [walk_view] under the invariant). *)
Fixpoint walk (fuel i stop m : nat) (mk : list key) : option (list key) :=
  match fuel with
  | O => None
  | S f =>
      if i =? stop then Some []
      else match walk f ((S i) mod m) stop m mk with
           | None => None
           | Some r => let k := nth i mk [] in
                       if is_empty k then Some r else Some (k :: r)
           end
  end.

Definition shard_keys (s : shard) : option (list key) :=
  walk (maxSize s) ((S (idxAdd s)) mod (maxSize s)) (idxAdd s) (maxSize s) (mapKeys s).

(** ---- the specification's view of a shard: a fixed-length FIFO queue ----
    The ring read cyclically from [idxAdd+1], the always-empty slot [idxAdd]
    left out; oldest slot first; [[]] marks a blank position. *)
Definition view_of (idx : nat) (mk : list key) : list key := skipn (S idx) mk ++ firstn idx mk.
Definition view (s : shard) : list key := view_of (idxAdd s) (mapKeys s).

Definition nonblank (l : list key) : list key := filter (fun k => negb (is_empty k)) l.

(** blank the position holding [k] *)
Definition blank (k : key) (l : list key) : list key := map (fun x => if beqb x k then [] else x) l.

(** the queue operations of the spec *)
Definition q_push (k : key) (q : list key) : list key := tl q ++ [k].
Definition q_set (k : key) (q : list key) : list key := q_push k (blank k q).
Definition q_victim (q : list key) : key := hd [] q.
