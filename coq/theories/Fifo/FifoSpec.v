(** Specification vocabulary of property C20 (definitions only): which configurations and
    histories the theorems quantify over, what counts as an insertion, and the FIFO-list
    specification of the one-shard cache. *)
From Coq Require Import List NArith PeanoNat Bool.
From Verif Require Import Base.BStr Fifo.Ring Fifo.Sharded.
Import ListNotations.
Local Open Scope nat_scope.

(** configurations: at least one shard, at least two slots per shard (S >= 2N) *)
Definition valid_cfg (sz n : nat) : Prop := 1 <= n /\ 2 * n <= sz.

(** the caches reachable from [new_cache] by histories whose keys are all non-empty *)
Definition reachable (sz n : nat) (c : cache) : Prop :=
  exists ops, Forall op_nonempty ops /\ c = run (new_cache sz n) ops.

(** does operation [o] insert an entry when applied to [c]?  (Put always, HasOrAdd iff absent) *)
Definition inserts (c : cache) (o : op) : bool :=
  match o with
  | OPut _ _ => true
  | OHasOrAdd k _ => negb (cache_has k c)
  | _ => false
  end.

(** ... into shard [r]? *)
Definition inserts_in (r : nat) (c : cache) (o : op) : bool :=
  inserts c o &&
  match op_key o with Some k => route (shardCount (cm c)) k =? r | None => false end.

(** number of insertions into shard [r] performed by [ops] starting from [c] *)
Fixpoint insertions_in (r : nat) (c : cache) (ops : list op) : nat :=
  match ops with
  | [] => 0
  | o :: rest => (if inserts_in r c o then 1 else 0) + insertions_in r (step_cache c o) rest
  end.

(** number of insertions (whole cache) performed by [ops] starting from [c] *)
Fixpoint insertions (c : cache) (ops : list op) : nat :=
  match ops with
  | [] => 0
  | o :: rest => (if inserts c o then 1 else 0) + insertions (step_cache c o) rest
  end.

(** operations that do not take [k] out on request *)
Definition keeps (k : key) (o : op) : Prop := o <> ORemove k /\ o <> OClear.

(** handler id of an invocation *)
Definition call_id (x : call) : hid := fst (fst (fst x)).

(** [l] without [k] *)
Definition rm (k : key) (l : list key) : list key := filter (fun x => negb (beqb x k)) l.

(** the FIFO list specification: new and overwritten entries go to the back; an insertion may push
    out the FRONT entry and nothing else; Remove/Clear take out what they name; reads change nothing *)
Definition fifo_next (l : list key) (o : op) (l' : list key) : Prop :=
  match o with
  | OPut k _ => l' = rm k l ++ [k] \/ l' = tl (rm k l) ++ [k]
  | OHasOrAdd k _ => (In k l -> l' = l) /\ (~ In k l -> l' = l ++ [k] \/ l' = tl l ++ [k])
  | ORemove k => l' = rm k l
  | OClear => l' = []
  | _ => l' = l
  end.

(** keys used by the examples of Props/C20.v: "a", "b", "c", "d" *)
Definition ka : key := [97%N].
Definition kb : key := [98%N].
Definition kc : key := [99%N].
Definition kd : key := [100%N].
