(** Transactions, configuration, precomputed fields (txcache/wrappedTransaction.go, config.go). *)
From Coq Require Import List NArith ZArith Bool.
From Verif Require Import Base.BStr.
Import ListNotations.
Open Scope N_scope.

Definition two64 : N := 18446744073709551616.
Definition max_uint64 : N := 18446744073709551615.

(** A transaction as handed to AddTx, together with what the MempoolHost answers for it
    (fee, transferred value) — "hash determines content". *)
Record tx := mkTx {
  hash : bytes; sender : bytes; nonce : N; gasLimit : N; gasPrice : N;
  size : Z;                 (* WrappedTransaction.Size (int64) *)
  fee : Z;                  (* host.ComputeTxFee, a non-nil big.Int *)
  value : option Z;         (* host.GetTransferredValue, may be nil *)
  relayer : bytes           (* empty = not relayed *)
}.

(** precomputeFields (after the fix of F1): PricePerUnit = floor(fee / gasLimit), saturated
    at 2^64-1; 0 when gasLimit = 0. *)
Definition ppu (t : tx) : N :=
  if gasLimit t =? 0 then 0
  else let q := Z.to_N (fee t / Z.of_N (gasLimit t))%Z in
       if q <=? max_uint64 then q else max_uint64.

(** decideFeePayer *)
Definition feePayer (t : tx) : bytes :=
  match relayer t with [] => sender t | _ => relayer t end.

(** isTransactionMoreValuableForNetwork: ppu desc, gas limit desc, hash asc *)
Definition more_valuable (a b : tx) : bool :=
  if negb (ppu a =? ppu b) then ppu b <? ppu a
  else if negb (gasLimit a =? gasLimit b) then gasLimit b <? gasLimit a
  else match bcmp (hash a) (hash b) with Lt => true | _ => false end.

Record config := mkConfig {
  evictionEnabled : bool;
  numBytesThreshold : Z;
  numBytesPerSenderThreshold : Z;
  countThreshold : Z;
  countPerSenderThreshold : Z;
  numItemsToPreemptivelyEvict : nat
}.

(** txcache/config.go, ConfigSourceMe.verify (the name is never empty here): the set of configurations NewTxCache accepts.
    Arguments in the order NumChunks, NumBytesThreshold, NumBytesPerSenderThreshold, CountThreshold,
    CountPerSenderThreshold, NumItemsToPreemptivelyEvict (all uint32). *)
Definition verify_config (numChunks numBytes numBytesPerSender count countPerSender batch : N) : bool :=
  negb ((numChunks <? 1) || (128 <? numChunks)) &&
  negb ((numBytesPerSender <? 1) || (33554432 <? numBytesPerSender)) &&
  negb (countPerSender <? 1) &&
  negb ((numBytes <? 4) || (1073741824 <? numBytes)) &&
  negb (count <? 4) &&
  negb (batch <? 1).
