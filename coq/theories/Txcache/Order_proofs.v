(** isTransactionMoreValuableForNetwork is a strict total order on transactions with distinct hashes;
    the heap's pop is its extreme element. *)
From Coq Require Import List NArith ZArith Lia Bool ZifyN ZifyNat ZifyBool.
From Verif Require Import Base.BStr Base.ListX Txcache.TxTypes Txcache.Selection Txcache.Pool Txcache.Selection_proofs.
Import ListNotations.
Open Scope N_scope.

Definition mv (a b : tx) : Prop := more_valuable a b = true.

Lemma mv_spec a b : mv a b <->
  ppu b < ppu a \/ (ppu a = ppu b /\ (gasLimit b < gasLimit a \/ (gasLimit a = gasLimit b /\ bcmp (hash a) (hash b) = Lt))).
Proof.
  unfold mv, more_valuable.
  destruct (N.eqb_spec (ppu a) (ppu b)) as [E|E]; simpl.
  - destruct (N.eqb_spec (gasLimit a) (gasLimit b)) as [G|G]; simpl.
    + destruct (bcmp (hash a) (hash b)) eqn:C; split; intros H; try discriminate; try reflexivity.
      * destruct H as [H|(_ & [H|(_ & H)])]; try lia; discriminate.
      * right. split; [exact E|]. right. split; [exact G|reflexivity].
      * destruct H as [H|(_ & [H|(_ & H)])]; try lia; discriminate.
    + rewrite N.ltb_lt. split; [intros H; right; split; [exact E|left; exact H]|].
      intros [H|(_ & [H|(H & _)])]; [lia|exact H|contradiction].
  - rewrite N.ltb_lt. split; [intros H; left; exact H|]. intros [H|(H & _)]; [exact H|contradiction].
Qed.

Lemma mv_irrefl a : ~ mv a a.
Proof. rewrite mv_spec. intros [H|(_ & [H|(_ & H)])]; try lia. rewrite bcmp_refl in H. discriminate. Qed.

Lemma mv_trans a b c : mv a b -> mv b c -> mv a c.
Proof.
  rewrite !mv_spec. intros H1 H2.
  destruct H1 as [H1|(E1 & H1)]; destruct H2 as [H2|(E2 & H2)]; try (left; lia).
  right. split; [lia|].
  destruct H1 as [H1|(G1 & H1)]; destruct H2 as [H2|(G2 & H2)]; try (left; lia).
  right. split; [lia|]. eapply bcmp_lt_trans; eassumption.
Qed.

Lemma mv_total a b : hash a <> hash b -> mv a b \/ mv b a.
Proof.
  intros Hne. rewrite !mv_spec.
  destruct (N.lt_trichotomy (ppu a) (ppu b)) as [H|[H|H]]; [right; left; exact H| |left; left; exact H].
  destruct (N.lt_trichotomy (gasLimit a) (gasLimit b)) as [G|[G|G]].
  - right. right. split; [lia|]. left. exact G.
  - destruct (bcmp_total _ _ Hne) as [L|L]; [left|right]; right; (split; [lia|]); right; (split; [lia|exact L]).
  - left. right. split; [exact H|]. left. exact G.
Qed.

Lemma mv_asym a b : mv a b -> ~ mv b a.
Proof. intros H1 H2. exact (mv_irrefl a (mv_trans _ _ _ H1 H2)). Qed.

Lemma not_mv_flip a b : hash a <> hash b -> more_valuable a b = false -> mv b a.
Proof. intros Hne H. destruct (mv_total a b Hne) as [H1|H1]; [unfold mv in H1; congruence|exact H1]. Qed.

(** PPU is floor(fee / gasLimit) whenever that quotient fits a uint64 *)
Lemma ppu_floor t : (0 <= fee t)%Z -> 0 < gasLimit t -> (fee t / Z.of_N (gasLimit t) <= Z.of_N max_uint64)%Z ->
  Z.of_N (ppu t) = (fee t / Z.of_N (gasLimit t))%Z /\
  (Z.of_N (ppu t) * Z.of_N (gasLimit t) <= fee t < (Z.of_N (ppu t) + 1) * Z.of_N (gasLimit t))%Z.
Proof.
  intros Hf Hg Hq. unfold ppu. destruct (N.eqb_spec (gasLimit t) 0) as [E|_]; [lia|].
  set (g := Z.of_N (gasLimit t)) in *. assert (0 < g)%Z by lia.
  assert (0 <= fee t / g)%Z by (apply Z.div_pos; lia).
  destruct (N.leb_spec (Z.to_N (fee t / g)) max_uint64) as [L|L]; [|lia].
  rewrite Z2N.id by lia. split; [reflexivity|].
  pose proof (Z.mul_div_le (fee t) g H). pose proof (Z.mul_succ_div_gt (fee t) g H). lia.
Qed.

Lemma ppu_saturates t : 0 < gasLimit t -> (Z.of_N max_uint64 < fee t / Z.of_N (gasLimit t))%Z -> ppu t = max_uint64.
Proof.
  intros Hg Hq. unfold ppu. destruct (N.eqb_spec (gasLimit t) 0) as [E|_]; [lia|].
  destruct (N.leb_spec (Z.to_N (fee t / Z.of_N (gasLimit t))) max_uint64) as [L|L]; [lia|reflexivity].
Qed.

(** ---------- the extreme element ---------- *)

Section Extreme.
  Context {C : Type} (head : C -> tx).

  (** generic scan keeping the element [e] such that no other beats it under [better] *)
  Fixpoint scan (better : tx -> tx -> bool) (cs : list C) (i : nat) (best : option (nat * tx)) : option nat :=
    match cs with
    | [] => option_map fst best
    | c :: r =>
        match best with
        | None => scan better r (S i) (Some (i, head c))
        | Some (_, bt) => if better (head c) bt then scan better r (S i) (Some (i, head c))
                          else scan better r (S i) best
        end
    end.

  Lemma scan_spec (better : tx -> tx -> bool) (R : tx -> tx -> Prop) :
    (forall a b c, R a b -> R b c -> R a c) ->
    (forall a b, better a b = true -> R a b) ->
    (forall a b, hash a <> hash b -> better a b = false -> R b a) ->
    forall cs i best n (pre : list C),
      scan better cs i best = Some n ->
      length pre = i ->
      NoDup (map (fun c => hash (head c)) (pre ++ cs)) ->
      match best with
      | None => pre = []
      | Some (j, bt) => exists cb, nth_error pre j = Some cb /\ head cb = bt /\
                                   forall k c, nth_error pre k = Some c -> k <> j -> R bt (head c)
      end ->
      exists cn, nth_error (pre ++ cs) n = Some cn /\
                 forall k c, nth_error (pre ++ cs) k = Some c -> k <> n -> R (head cn) (head c).
  Proof.
    intros Rt Rb Rf. induction cs as [|c cs IH]; intros i best n pre Hs Hlen Hnd Hbest; simpl in Hs.
    - destruct best as [(j, bt)|]; [|discriminate]. simpl in Hs. inversion Hs; subst n.
      destruct Hbest as (cb & Hcb & Eb & Hall). rewrite app_nil_r. exists cb. split; [exact Hcb|]. rewrite Eb. exact Hall.
    - assert (Hstep : forall best', (match best' with
                | None => False
                | Some (j, bt) => exists cb, nth_error (pre ++ [c]) j = Some cb /\ head cb = bt /\
                                   forall k c0, nth_error (pre ++ [c]) k = Some c0 -> k <> j -> R bt (head c0) end) ->
                scan better cs (S i) best' = Some n ->
                exists cn, nth_error (pre ++ c :: cs) n = Some cn /\
                   forall k c0, nth_error (pre ++ c :: cs) k = Some c0 -> k <> n -> R (head cn) (head c0)).
      { intros best' Hb' Hs'. replace (pre ++ c :: cs) with ((pre ++ [c]) ++ cs) by (rewrite <- app_assoc; reflexivity).
        apply (IH (S i) best' n (pre ++ [c])); [exact Hs'|rewrite app_length; simpl; lia|rewrite <- app_assoc; exact Hnd|].
        destruct best' as [(j, bt)|]; [exact Hb'|contradiction]. }
      assert (Hci : nth_error (pre ++ [c]) i = Some c) by (rewrite nth_error_app2 by lia; rewrite Hlen, Nat.sub_diag; reflexivity).
      assert (Hpre_k : forall k c0, nth_error (pre ++ [c]) k = Some c0 -> k <> i -> nth_error pre k = Some c0 /\ (k < i)%nat).
      { intros k c0 Hk Hne. destruct (Nat.lt_ge_cases k i) as [Hlt|Hge].
        - rewrite nth_error_app1 in Hk by lia. auto.
        - rewrite nth_error_app2 in Hk by lia. destruct (k - length pre)%nat as [|m] eqn:Em; [lia|]. simpl in Hk. destruct m; discriminate. }
      assert (Hhash_ne : forall k c0, nth_error pre k = Some c0 -> hash (head c0) <> hash (head c)).
      { intros k c0 Hk E. rewrite map_app in Hnd. simpl in Hnd.
        apply (NoDup_app_disj _ _ Hnd (hash (head c))); [rewrite <- E; apply (in_map (fun c1 => hash (head c1))); eapply nth_error_In; exact Hk|left; reflexivity]. }
      destruct best as [(j, bt)|].
      + destruct Hbest as (cb & Hcb & Eb & Hall).
        assert (Hj : (j < i)%nat) by (rewrite <- Hlen; apply nth_error_Some; congruence).
        destruct (better (head c) bt) eqn:Eb'.
        * apply (Hstep (Some (i, head c))); [|exact Hs]. exists c. split; [exact Hci|]. split; [reflexivity|].
          intros k c0 Hk Hne. destruct (Hpre_k k c0 Hk Hne) as (Hk' & _).
          destruct (Nat.eq_dec k j) as [->|Hkj]; [rewrite Hcb in Hk'; inversion Hk'; subst c0; rewrite Eb; apply Rb; exact Eb'|].
          apply (Rt _ bt); [apply Rb; exact Eb'|apply (Hall k c0 Hk' Hkj)].
        * apply (Hstep (Some (j, bt))); [|exact Hs]. exists cb. split; [rewrite nth_error_app1 by lia; exact Hcb|]. split; [exact Eb|].
          intros k c0 Hk Hne. destruct (Nat.eq_dec k i) as [->|Hki].
          -- rewrite Hci in Hk. inversion Hk; subst c0. apply Rf; [|exact Eb'].
             rewrite <- Eb. intros E. apply (Hhash_ne j cb Hcb). symmetry. exact E.
          -- destruct (Hpre_k k c0 Hk Hki) as (Hk' & _). apply (Hall k c0 Hk' Hne).
      + subst pre. simpl in Hlen. subst i. apply (Hstep (Some (0%nat, head c))); [|exact Hs].
        exists c. split; [reflexivity|]. split; [reflexivity|]. intros k c0 Hk Hne. destruct k; [contradiction|]. simpl in Hk. destruct k; discriminate.
  Qed.
End Extreme.

Lemma best_index_is_scan cs i b : best_index cs i b = scan cur more_valuable cs i b.
Proof. revert i b; induction cs as [|c cs IH]; intros i b; simpl; [reflexivity|]. destruct b as [(j, bt)|]; [destruct (more_valuable (cur c) bt)|]; apply IH. Qed.

Lemma worst_index_is_scan cs i b : worst_index cs i b = scan ecur (fun a b => more_valuable b a) cs i b.
Proof. revert i b; induction cs as [|c cs IH]; intros i b; simpl; [reflexivity|]. destruct b as [(j, bt)|]; [destruct (more_valuable bt (ecur c))|]; apply IH. Qed.

(** what the max-heap pops is more valuable than every other head *)
Lemma best_index_max cs n : NoDup (map (fun c => hash (cur c)) cs) -> best_index cs 0 None = Some n ->
  exists cn, nth_error cs n = Some cn /\ forall k c, nth_error cs k = Some c -> k <> n -> mv (cur cn) (cur c).
Proof.
  intros Hnd H. rewrite best_index_is_scan in H.
  apply (scan_spec cur more_valuable mv mv_trans (fun a b H => H) not_mv_flip cs 0%nat None n [] H eq_refl Hnd eq_refl).
Qed.

(** what the min-heap pops is less valuable than every other head *)
Lemma worst_index_min cs n : NoDup (map (fun c => hash (ecur c)) cs) -> worst_index cs 0 None = Some n ->
  exists cn, nth_error cs n = Some cn /\ forall k c, nth_error cs k = Some c -> k <> n -> mv (ecur c) (ecur cn).
Proof.
  intros Hnd H. rewrite worst_index_is_scan in H.
  apply (scan_spec ecur (fun a b => more_valuable b a) (fun a b => mv b a)
           (fun a b c H1 H2 => mv_trans _ _ _ H2 H1) (fun a b H => H)
           (fun a b Hne H => not_mv_flip b a (fun E => Hne (eq_sym E)) H) cs 0%nat None n [] H eq_refl Hnd eq_refl).
Qed.
