(** Wire-format wrapper of the mempool model.
    config: evictionEnabled numBytesThreshold numBytesPerSender countThreshold countPerSender
            numItemsToEvict numChunks [sender alphabet]
    op 1 AddTx   hash sender nonce gasLimit gasPrice size fee value|- relayer  -> 1=[ok added]
    op 2 RemoveTxByHash hash                                                   -> 1=removed
    op 3 Clear
    op 4 Select  gasRequested maxNum [ [addr nonce balance] ... ] [guarded hashes] -> 1=[hashes] 2=gas
    op 5 Judge   gasRequested maxNum accounts guarded [result hashes] accGas
                 -> 20=all result hashes pooled 21=C01 22=distinct 23=count 24=gas 25=guard 26=balance
    op 6 JudgeViews CountTx NumBytes CountSenders Keys [lists] afterAdd -> 30=C05 on the implementation's views
                 31=C06 count clauses on them (after an AddTx) 32=C05 on the model's own views
    views after every op: 10=CountTx 11=NumBytes 12=CountSenders 13=sorted Keys
                          14=[per alphabet sender: [hashes in list order]]
    model only: 900=n4 while some sender is over a per-sender limit (finding F4) *)
From Coq Require Import List NArith ZArith Bool.
From Verif Require Import Base.Generic Base.BStr Txcache.TxTypes Txcache.SenderList Txcache.Selection Txcache.Pool Txcache.Judge.
Import ListNotations.
Open Scope N_scope.

Record pstate := mkPState { ps_cfg : config; ps_alpha : list bytes; ps_pool : pool;
  ps_known : list (bytes * tx) (* every transaction ever handed to AddTx: hash -> content *); ps_last : Z (* size of the last added tx *) }.

Definition pool_init (args : list garg) : option pstate :=
  let cfg := mkConfig (arg_bool (nth_arg args 0)) (arg_Z (nth_arg args 1)) (arg_Z (nth_arg args 2))
                      (arg_Z (nth_arg args 3)) (arg_Z (nth_arg args 4)) (N.to_nat (arg_N (nth_arg args 5))) in
  (* NewTxCache: config.verify() *)
  if verify_config (arg_N (nth_arg args 6)) (arg_N (nth_arg args 1)) (arg_N (nth_arg args 2)) (arg_N (nth_arg args 3))
                   (arg_N (nth_arg args 4)) (arg_N (nth_arg args 5))
  then Some (mkPState cfg (map arg_B (arg_L (nth_arg args 7))) empty_pool [] 0%Z)
  else None.

Definition decode_tx (args : list garg) : tx :=
  mkTx (arg_B (nth_arg args 0)) (arg_B (nth_arg args 1)) (arg_N (nth_arg args 2)) (arg_N (nth_arg args 3))
       (arg_N (nth_arg args 4)) (arg_Z (nth_arg args 5)) (arg_Z (nth_arg args 6))
       (match nth_arg args 7 with GN z => Some z | _ => None end) (arg_B (nth_arg args 8)).

Definition decode_session (accts guardedl : garg) : session :=
  let al := map (fun a => let l := arg_L a in (arg_B (nth_arg l 0), (arg_N (nth_arg l 1), arg_Z (nth_arg l 2)))) (arg_L accts) in
  let gl := map arg_B (arg_L guardedl) in
  mkSession (fun a => alookup al a) (fun t => existsb (beqb (hash t)) gl).

Definition views (s : pstate) : list obs :=
  let p := ps_pool s in
  [(10, GN (cntTx p)); (11, GN (numBytes p)); (12, GN (cntSenders p)); (13, g_listB (bsort (keys p)));
   (14, GL (map (fun a => g_listB (map hash (pool_for_sender p a))) (ps_alpha s)))]
  ++ (if f4_event (ps_cfg s) p then [(900, GN 4)] else []).

Fixpoint resolve (p : pool) (hs : list bytes) : option (list tx) :=
  match hs with
  | [] => Some []
  | h :: r => match alookup (byHash p) h, resolve p r with
              | Some t, Some l => Some (t :: l)
              | _, _ => None
              end
  end.

Definition pool_step (s : pstate) (code : N) (args : list garg) : pstate * list obs :=
  let cfg := ps_cfg s in
  let p := ps_pool s in
  match code with
  | 1 => let t := decode_tx args in
         let '(p', added) := add_tx cfg p t in
         let s' := mkPState cfg (ps_alpha s) p' ((hash t, t) :: ps_known s) (size t) in
         (s', (1, GL [g_bool true; g_bool added]) :: views s')
  | 2 => let '(p', removed) := remove_tx p (arg_B (nth_arg args 0)) in
         let s' := mkPState cfg (ps_alpha s) p' (ps_known s) (ps_last s) in
         (s', (1, g_bool removed) :: views s')
  | 3 => let s' := mkPState cfg (ps_alpha s) (clear p) (ps_known s) (ps_last s) in (s', views s')
  | 4 => let sess := decode_session (nth_arg args 2) (nth_arg args 3) in
         let '(txs, gas) := select_txs p sess (arg_N (nth_arg args 0)) (N.to_nat (arg_N (nth_arg args 1))) in
         (s, (1, g_listB (map hash txs)) :: (2, g_N gas) :: views s)
  | 5 => let sess := decode_session (nth_arg args 2) (nth_arg args 3) in
         let gasReq := arg_N (nth_arg args 0) in
         let maxNum := N.to_nat (arg_N (nth_arg args 1)) in
         let acc := arg_N (nth_arg args 5) in
         match resolve p (map arg_B (arg_L (nth_arg args 4))) with
         | None => (s, [(20, g_bool false)])
         | Some result =>
             (s, [(20, g_bool true); (21, g_bool (c01_holdsb sess result)); (22, g_bool (c02_distinctb result));
                  (23, g_bool (c02_countb maxNum result)); (24, g_bool (c02_gasb gasReq acc result));
                  (25, g_bool (c02_guardb sess result)); (26, g_bool (c02_balanceb sess result))])
         end
  | 6 => (* judge the IMPLEMENTATION's views: CountTx NumBytes CountSenders Keys [per alphabet sender: hashes] afterAdd *)
         let lists := combine (ps_alpha s) (map (fun l => map arg_B (arg_L l)) (arg_L (nth_arg args 4))) in
         let v := mkViews (map arg_B (arg_L (nth_arg args 3))) lists (arg_Z (nth_arg args 0)) (arg_Z (nth_arg args 1)) (arg_Z (nth_arg args 2)) in
         let own := views_of (ps_alpha s) p in
         (s, [(30, g_bool (c05_viewsb (ps_known s) v)); (31, g_bool (negb (arg_bool (nth_arg args 5)) || c06_viewsb cfg (ps_last s) v));
              (32, g_bool (c05_viewsb (ps_known s) own))])
  | _ => (s, [])
  end.

Definition pool_component : component :=
  {| c_state := pstate; c_init := pool_init; c_step := pool_step |}.
