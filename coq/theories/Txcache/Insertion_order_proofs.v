(** C03: the pool, hence the selection, does not depend on the order in which a set of transactions was inserted
    (no limit hit, no removal, eviction disabled). *)
From Coq Require Import List NArith ZArith Lia Bool Permutation Sorting.Sorted ZifyN ZifyNat ZifyBool.
From Verif Require Import Base.BStr Base.ListX Txcache.TxTypes Txcache.SenderList Txcache.Selection Txcache.Pool
  Txcache.SenderList_proofs Txcache.Selection_proofs Txcache.Pool_proofs Txcache.Order_proofs Txcache.Pool_props
  Txcache.Selection_det_proofs.
Import ListNotations.
Open Scope Z_scope.

(** add-only histories *)
Definition adds (l : list tx) : list pop := map PAdd l.

Lemma added_txs_adds l : added_txs (adds l) = l.
Proof. induction l as [|t l IH]; simpl; [reflexivity|]. rewrite IH. reflexivity. Qed.

(** the limits leave room for the whole set *)
Definition roomy (cfg : config) (l : list tx) : Prop :=
  evictionEnabled cfg = false /\ Z.of_nat (length l) <= countPerSenderThreshold cfg /\
  sum_sizes l <= numBytesPerSenderThreshold cfg /\ (forall t, In t l -> 0 <= size t).

Definition of_sender_f (a : bytes) (l : list tx) : list tx := filter (fun t => beqb (sender t) a) l.

Lemma run_adds_lists cfg l : hist_ok (adds l) -> NoDup (map hash l) -> roomy cfg l ->
  forall l0, (exists l1, l = l0 ++ l1) ->
  forall a, Permutation (pool_for_sender (run_pool cfg (adds l0)) a) (of_sender_f a l0).
Proof.
  intros Hok Hnd (Hev & Hc & Hb & Hpos). induction l0 as [|t l0 IH] using rev_ind; intros (l1 & El) a.
  - simpl. reflexivity.
  - assert (Hpre : exists l1', l = l0 ++ l1') by (exists ([t] ++ l1); rewrite El, <- app_assoc; reflexivity).
    specialize (IH Hpre). unfold adds. rewrite map_app. simpl map. rewrite run_pool_snoc. fold (adds l0).
    assert (Hok0 : hist_ok (adds l0)).
    { destruct Hpre as (l1' & E). rewrite E in Hok. unfold adds in Hok. rewrite map_app in Hok. eapply hist_ok_prefix. exact Hok. }
    destruct (run_pool_inv2 cfg (adds l0) Hok0) as (HI & Hadds). rewrite added_txs_adds in Hadds.
    assert (Hin_t : In t l) by (rewrite El; apply in_or_app; left; apply in_or_app; right; left; reflexivity).
    assert (Hnew : alookup (byHash (run_pool cfg (adds l0))) (hash t) = None).
    { destruct (alookup (byHash (run_pool cfg (adds l0))) (hash t)) as [x|] eqn:E; [|reflexivity]. exfalso.
      assert (Hx : In x l0) by (eapply Hadds; exact E). assert (Ehx : hash x = hash t) by (apply HI; exact E).
      rewrite El, <- app_assoc, map_app in Hnd. apply (NoDup_app_disj _ _ Hnd (hash t)); [rewrite <- Ehx; apply in_map; exact Hx|simpl; left; reflexivity]. }
    assert (Hag : agrees (run_pool cfg (adds l0)) t) by (intros t' Ht'; rewrite Hnew in Ht'; discriminate).
    assert (Hwf : tx_wf t) by (apply Hok; rewrite added_txs_adds; exact Hin_t).
    simpl pstep. unfold add_tx. rewrite Hev.
    destruct (add_core_spec cfg _ t HI Hag Hwf) as (_ & Hspec). rewrite Hnew in Hspec.
    destruct Hspec as (_ & l' & Hs' & Hp' & Hl). rewrite Hl. unfold of_sender_f. rewrite filter_app. simpl.
    destruct (beqb_spec (sender t) a) as [Es|Hne].
    + (* no drop: l' is within the limits *)
      assert (Hl'sub : incl l' l).
      { intros x Hx. apply (Permutation_in _ Hp') in Hx. destruct Hx as [<-|Hx]; [exact Hin_t|].
        rewrite El. apply in_or_app. left. apply in_or_app. left.
        apply (pool_for_sender_in _ _ _ (proj1 (proj2 HI))) in Hx. destruct Hx as (Hx & _). apply HI in Hx. eapply Hadds. exact Hx. }
      assert (Hnd' : NoDup l') by (apply sorted_NoDup; exact Hs').
      assert (Hover : over_limits cfg l' = false).
      { unfold over_limits. apply orb_false_iff. split; apply Z.ltb_ge.
        - pose proof (sum_sizes_incl l' l Hnd' Hl'sub Hpos). lia.
        - pose proof (NoDup_incl_length Hnd' Hl'sub). lia. }
      rewrite Hover, Hp'. rewrite <- Es. rewrite (IH (sender t)). unfold of_sender_f. apply Permutation_cons_app. rewrite app_nil_r. reflexivity.
    + rewrite app_nil_r. apply IH.
Qed.

(** the same set, in any order, gives the same per-sender lists *)
Theorem insertion_order_lists cfg l l' : hist_ok (adds l) -> NoDup (map hash l) -> roomy cfg l -> Permutation l l' ->
  forall a, pool_for_sender (run_pool cfg (adds l)) a = pool_for_sender (run_pool cfg (adds l')) a.
Proof.
  intros Hok Hnd Hroomy Hp a.
  assert (Hok' : hist_ok (adds l')).
  { destruct Hok as (H1 & H2). rewrite added_txs_adds in H1, H2. split; rewrite added_txs_adds.
    - intros t t' Ht Ht'. apply H1; eapply Permutation_in; try (apply Permutation_sym; exact Hp); assumption.
    - intros t Ht. apply H2. eapply Permutation_in; [apply Permutation_sym; exact Hp|exact Ht]. }
  assert (Hnd' : NoDup (map hash l')) by (eapply Permutation_NoDup; [apply Permutation_map; exact Hp|exact Hnd]).
  assert (Hroomy' : roomy cfg l').
  { destruct Hroomy as (A & B & C & D). split; [exact A|]. split; [rewrite <- (Permutation_length Hp); exact B|].
    split; [rewrite <- (sum_sizes_perm _ _ Hp); exact C|]. intros t Ht. apply D. eapply Permutation_in; [apply Permutation_sym; exact Hp|exact Ht]. }
  apply sorted_perm_unique.
  - apply inv_sorted. apply run_pool_inv. exact Hok.
  - apply inv_sorted. apply run_pool_inv. exact Hok'.
  - rewrite (run_adds_lists cfg l Hok Hnd Hroomy l (ex_intro _ [] (eq_sym (app_nil_r l))) a).
    rewrite (run_adds_lists cfg l' Hok' Hnd' Hroomy' l' (ex_intro _ [] (eq_sym (app_nil_r l'))) a).
    unfold of_sender_f. clear -Hp. induction Hp; simpl; try reflexivity.
    + destruct (beqb (sender x) a); [constructor|]; assumption.
    + destruct (beqb (sender x) a), (beqb (sender y) a); try reflexivity. apply perm_swap.
    + etransitivity; eassumption.
Qed.

(** two association lists with unique keys and the same lookups are permutations of each other *)
Lemma assoc_perm {V} (l l' : list (bytes * V)) : NoDup (map fst l) -> NoDup (map fst l') ->
  (forall k, alookup l k = alookup l' k) -> Permutation l l'.
Proof.
  intros H1 H2 He. apply NoDup_Permutation.
  - eapply NoDup_map_inv. exact H1.
  - eapply NoDup_map_inv. exact H2.
  - intros (k, v). split; intros Hin.
    + apply alookup_In. rewrite <- He. apply In_alookup; assumption.
    + apply alookup_In. rewrite He. apply In_alookup; assumption.
Qed.

(** hence the same selection *)
Theorem insertion_order_select cfg l l' sess g m : hist_ok (adds l) -> NoDup (map hash l) -> roomy cfg l -> Permutation l l' ->
  select_txs (run_pool cfg (adds l)) sess g m = select_txs (run_pool cfg (adds l')) sess g m.
Proof.
  intros Hok Hnd Hroomy Hp. unfold select_txs.
  assert (Hok' : hist_ok (adds l')).
  { destruct Hok as (H1 & H2). rewrite added_txs_adds in H1, H2. split; rewrite added_txs_adds.
    - intros t t' Ht Ht'. apply H1; eapply Permutation_in; try (apply Permutation_sym; exact Hp); assumption.
    - intros t Ht. apply H2. eapply Permutation_in; [apply Permutation_sym; exact Hp|exact Ht]. }
  pose proof (run_pool_inv cfg _ Hok) as HI. pose proof (run_pool_inv cfg _ Hok') as HI'.
  pose proof (insertion_order_lists cfg l l' Hok Hnd Hroomy Hp) as Hlists.
  apply select_perm; [|apply inv_hash_NoDup; exact HI].
  unfold bunches. apply Permutation_map. apply assoc_perm; [apply HI|apply HI'|].
  intros a. specialize (Hlists a). unfold pool_for_sender in Hlists.
  destruct HI as (_ & (_ & Hok1 & _) & _). destruct HI' as (_ & (_ & Hok2 & _) & _).
  destruct (alookup (senders (run_pool cfg (adds l))) a) as [sl|] eqn:E1; destruct (alookup (senders (run_pool cfg (adds l'))) a) as [sl'|] eqn:E2.
  - destruct (Hok1 _ _ E1) as (_ & _ & _ & T1). destruct (Hok2 _ _ E2) as (_ & _ & _ & T2).
    destruct sl as [i1 b1], sl' as [i2 b2]. simpl in *. subst i2. rewrite T1, T2. reflexivity.
  - destruct (Hok1 _ _ E1) as (Hne & _). congruence.
  - destruct (Hok2 _ _ E2) as (Hne & _). congruence.
  - reflexivity.
Qed.
