(** txcache/selection.go, [selectTransactionsFromBunches], transcribed WITH its heap: the loop of Selection.v where
    "the index of the best cursor" ([pick_best]) and "put the advanced cursor back" ([c' :: others]) are replaced
    by what the Go code does, [heap.Pop] and [heap.Push] of container/heap (Heap.v) on the slice of
    [transactionsHeap].  Definitions only; HeapLoop_proofs.v proves that this loop and the loop of Selection.v
    compute the same selection. *)
From Coq Require Import List NArith ZArith Bool.
From Verif Require Import Base.BStr Txcache.TxTypes Txcache.SenderList Txcache.Selection Txcache.Pool Txcache.Heap.
Import ListNotations.
Open Scope N_scope.

Section HLoop.
  Variable sess : session.
  Variable gasRequested : N.
  Variable maxNum : nat.

  (** one iteration of [for transactionsHeap.Len() > 0 { ... }]; [None] = the loop ends (empty heap or [break]).
      [cursors s] is the slice [transactionsHeap.items]. *)
  Definition hstep (s : st) : option st :=
    match pop sel_less (cursors s) with
    | None => None                                             (* Len() == 0 *)
    | Some (c, others) =>                                      (* item := heap.Pop(transactionsHeap) *)
        let gl := gasLimit (cur c) in
        if gasRequested - accGas s <? gl then None             (* break *)
        else if (maxNum <=? length (selected s))%nat then None (* break *)
        else if skip_sender sess (consumed s) c then Some (mkSt others (selected s) (accGas s) (consumed s))  (* continue *)
        else
          let '(sel, acc, cns, lat) :=
            if skip_tx sess c then (selected s, accGas s, consumed s, latest c)
            else (cur c :: selected s, accGas s + gl, accumulate (consumed s) (cur c), Some (nonce (cur c))) in
          match advance c lat with
          | Some c' => Some (mkSt (push sel_less others c') sel acc cns)   (* heap.Push(transactionsHeap, item) *)
          | None => Some (mkSt others sel acc cns)
          end
    end.

  Fixpoint hloop (fuel : nat) (s : st) : st :=
    match fuel with
    | O => s
    | S f => match hstep s with None => s | Some s' => hloop f s' end
    end.
End HLoop.

(** heap.Init of the empty heap, then one heap.Push per non-empty bunch, in the order of the bunches *)
Definition hpush_bunch (h : list cursor) (b : list tx) : list cursor :=
  match mk_cursor b with Some c => push sel_less h c | None => h end.
Definition hinit_st (bs : list (list tx)) : st := mkSt (fold_left hpush_bunch bs (init sel_less [])) [] 0 [].

(** selectTransactionsFromBunches with its heap and an unbounded time budget *)
Definition heap_select (sess : session) (bunches : list (list tx)) (gasRequested : N) (maxNum : nat) : list tx * N :=
  let s := hloop sess gasRequested maxNum (S (total_len bunches)) (hinit_st bunches) in
  (rev (selected s), accGas s).

(** ---------- eviction.go, [evictLeastLikelyToSelectTransactions], with its heap ---------- *)

(** one pass of [for transactionsHeap.Len() > 0 { if len(transactionsToEvict) >= NumItemsToPreemptivelyEvict { break };
    item := heap.Pop(h); append; if item.gotoNextTransaction() { heap.Push(h, item) } }] *)
Fixpoint htake_batch (k : nat) (h : list ecursor) : list tx * list ecursor :=
  match k with
  | O => ([], h)
  | S k' =>
      match pop evi_less h with
      | None => ([], h)
      | Some (c, others) =>
          let h' := match erest c with [] => others | t :: r => push evi_less others (mkEc t r) end in
          let '(b, h'') := htake_batch k' h' in
          (ecur c :: b, h'')
      end
  end.

(** the passes: the heap is reused among passes *)
Fixpoint hevict_passes (cfg : config) (fuel : nat) (h : list ecursor) (p : pool) : pool :=
  match fuel with
  | O => p
  | S f =>
      if capacity_exceeded cfg p then
        let '(batch, h') := htake_batch (numItemsToPreemptivelyEvict cfg) h in
        match batch with
        | [] => p
        | _ =>
            let p1 := fold_left (fun q sn => evict_sender_suffix q (fst sn) (snd sn)) (lowest_by_sender batch []) p in
            let p2 := byhash_remove_bulk p1 (map hash batch) in
            hevict_passes cfg f h' p2
        end
      else p
  end.

(** heap.Init of the empty heap, then one heap.Push per non-empty reversed bunch, in the order of the senders *)
Definition hpush_ecursor (h : list ecursor) (s : bytes * slist) : list ecursor :=
  match rev (items (snd s)) with [] => h | t :: rr => push evi_less h (mkEc t rr) end.
Definition hinit_ecursors (ss : list (bytes * slist)) : list ecursor := fold_left hpush_ecursor ss (init evi_less []).

(** doEviction on container/heap *)
Definition hdo_eviction (cfg : config) (p : pool) : pool :=
  if capacity_exceeded cfg p then hevict_passes cfg (S (pool_total_txs p)) (hinit_ecursors (senders p)) p else p.
