(** txcache/txListForSender.go: the per-sender sorted list. Front of the Go list = head. *)
From Coq Require Import List NArith ZArith Bool.
From Verif Require Import Base.BStr Txcache.TxTypes.
Import ListNotations.
Open Scope N_scope.

(** The Go object keeps [totalBytes] as a counter separate from the list. *)
Record slist := mkSlist { items : list tx; totalBytes : Z }.

Definition empty_slist : slist := mkSlist [] 0%Z.

(** findInsertionPlace + insert, on the reversed list (head = back of the Go list):
    scan from the back; same nonce: higher gas price of the resident -> insert after it;
    same gas price: equal hash -> duplicate, smaller hash -> insert after it; else continue;
    lower nonce -> insert after it. *)
Fixpoint ins_rev (rl : list tx) (t : tx) : option (list tx) :=
  match rl with
  | [] => Some [t]
  | c :: r =>
      if nonce c =? nonce t then
        if gasPrice t <? gasPrice c then Some (t :: c :: r)
        else if gasPrice c =? gasPrice t then
          match bcmp (hash c) (hash t) with
          | Eq => None
          | Lt => Some (t :: c :: r)
          | Gt => option_map (cons c) (ins_rev r t)
          end
        else option_map (cons c) (ins_rev r t)
      else if nonce c <? nonce t then Some (t :: c :: r)
      else option_map (cons c) (ins_rev r t)
  end.

Definition insert_sorted (l : list tx) (t : tx) : option (list tx) :=
  option_map (@rev tx) (ins_rev (rev l) t).

Definition sum_sizes (l : list tx) : Z := fold_right (fun t a => (size t + a)%Z) 0%Z l.

(** isCapacityExceeded of the sender list *)
Definition sl_exceeded (cfg : config) (s : slist) : bool :=
  (numBytesPerSenderThreshold cfg <? totalBytes s)%Z || (countPerSenderThreshold cfg <? Z.of_nat (length (items s)))%Z.

(** applySizeConstraints: the loop reads element.Prev() after list.Remove(element), which is nil,
    so AT MOST ONE element (the back one) is dropped (finding F4; asserted by an existing test). *)
Definition apply_size_constraints (cfg : config) (s : slist) : slist * list bytes :=
  if sl_exceeded cfg s then
    match rev (items s) with
    | [] => (s, [])
    | lastt :: rfront => (mkSlist (rev rfront) (totalBytes s - size lastt)%Z, [hash lastt])
    end
  else (s, []).

(** the repaired variant (drops while exceeded), used only to state what a repair would give *)
Fixpoint drop_while_exceeded (cfg : config) (fuel : nat) (s : slist) : slist * list bytes :=
  match fuel with
  | O => (s, [])
  | S f =>
      if sl_exceeded cfg s then
        match rev (items s) with
        | [] => (s, [])
        | lastt :: rfront =>
            let '(s', ev) := drop_while_exceeded cfg f (mkSlist (rev rfront) (totalBytes s - size lastt)%Z) in
            (s', hash lastt :: ev)
        end
      else (s, [])
  end.

(** txListForSender.AddTx: (added, evicted hashes) *)
Definition sl_add (cfg : config) (s : slist) (t : tx) : slist * bool * list bytes :=
  match insert_sorted (items s) t with
  | None => (s, false, [])
  | Some l' =>
      let s1 := mkSlist l' (totalBytes s + size t)%Z in
      let '(s2, ev) := apply_size_constraints cfg s1 in
      (s2, true, ev)
  end.

(** removeTransactionsWithLowerOrEqualNonceReturnHashes: from the front while nonce <= target *)
Fixpoint split_leq (l : list tx) (target : N) : list tx * list tx :=
  match l with
  | [] => ([], [])
  | t :: r => if target <? nonce t then ([], l)
              else let '(a, b) := split_leq r target in (t :: a, b)
  end.

Definition sl_remove_leq (s : slist) (target : N) : slist * list bytes :=
  let '(gone, kept) := split_leq (items s) target in
  (mkSlist kept (totalBytes s - sum_sizes gone)%Z, map hash gone).

(** removeTransactionsWithHigherOrEqualNonce: from the back while nonce >= given;
    returns the removed hashes in removal order (back to front) *)
Fixpoint split_geq_rev (rl : list tx) (given : N) : list tx * list tx :=
  match rl with
  | [] => ([], [])
  | t :: r => if nonce t <? given then ([], rl)
              else let '(a, b) := split_geq_rev r given in (t :: a, b)
  end.

Definition sl_remove_geq (s : slist) (given : N) : slist * list bytes :=
  let '(gone, keptrev) := split_geq_rev (rev (items s)) given in
  (mkSlist (rev keptrev) (totalBytes s - sum_sizes gone)%Z, map hash gone).
