(** The mempool invariant (C05) and what follows from it (C04, C06, C07, reachability for C01). *)
From Coq Require Import List NArith ZArith Lia Bool Permutation Sorting.Sorted ZifyN ZifyNat ZifyBool.
From Verif Require Import Base.BStr Base.ListX Txcache.TxTypes Txcache.SenderList Txcache.Selection Txcache.Pool
  Txcache.SenderList_proofs Txcache.Selection_proofs.
Import ListNotations.
Open Scope Z_scope.

(** ---------- association lists ---------- *)

Section Assoc.
  Context {V : Type}.
  Implicit Types (l : list (bytes * V)).

  Lemma alookup_aset l k v k' : alookup (aset l k v) k' = if beqb k k' then Some v else alookup l k'.
  Proof.
    induction l as [|(k0, v0) l IH]; simpl.
    - reflexivity.
    - destruct (beqb_spec k0 k) as [->|Hne]; simpl.
      + destruct (beqb k k'); reflexivity.
      + destruct (beqb_spec k0 k') as [->|Hne'].
        * destruct (beqb_spec k k') as [->|]; [contradiction|reflexivity].
        * exact IH.
  Qed.

  Lemma alookup_None l k : alookup l k = None <-> ~ In k (map fst l).
  Proof.
    induction l as [|(k0, v0) l IH]; simpl; [tauto|].
    destruct (beqb_spec k0 k) as [->|Hne]; [split; [discriminate|intros H; exfalso; apply H; left; reflexivity]|].
    rewrite IH. split; [intros H [E|E]; [contradiction|exact (H E)]|tauto].
  Qed.

  Lemma alookup_In l k v : alookup l k = Some v -> In (k, v) l.
  Proof.
    induction l as [|(k0, v0) l IH]; simpl; [discriminate|].
    destruct (beqb_spec k0 k) as [->|Hne]; [intros E; inversion E; left; reflexivity|intros E; right; exact (IH E)].
  Qed.

  Lemma In_alookup l k v : NoDup (map fst l) -> In (k, v) l -> alookup l k = Some v.
  Proof.
    induction l as [|(k0, v0) l IH]; simpl; intros Hnd Hin; [destruct Hin|].
    inversion Hnd; subst. destruct Hin as [E|Hin].
    - inversion E; subst. rewrite beqb_refl. reflexivity.
    - destruct (beqb_spec k0 k) as [->|Hne]; [exfalso; apply H1; apply (in_map fst) in Hin; exact Hin|].
      apply IH; assumption.
  Qed.

  Lemma aremove_keys_sub l k x : In x (map fst (aremove l k)) -> In x (map fst l).
  Proof.
    induction l as [|(k0, v0) l IH]; simpl; [tauto|].
    destruct (beqb k0 k); simpl; [tauto|]. intros [E|H]; [left; exact E|right; exact (IH H)].
  Qed.

  Lemma aremove_NoDup l k : NoDup (map fst l) -> NoDup (map fst (aremove l k)).
  Proof.
    induction l as [|(k0, v0) l IH]; simpl; intros H; [constructor|].
    inversion H; subst. destruct (beqb k0 k); [assumption|]. simpl. constructor; [|apply IH; assumption].
    intros Hin. apply H2. eapply aremove_keys_sub. exact Hin.
  Qed.

  Lemma alookup_aremove l k k' : NoDup (map fst l) ->
    alookup (aremove l k) k' = if beqb k k' then None else alookup l k'.
  Proof.
    induction l as [|(k0, v0) l IH]; simpl; intros Hnd.
    - destruct (beqb k k'); reflexivity.
    - inversion Hnd; subst. destruct (beqb_spec k0 k) as [->|Hne].
      + destruct (beqb_spec k k') as [->|Hne']; [apply alookup_None; assumption|reflexivity].
      + simpl. destruct (beqb_spec k0 k') as [->|Hne'].
        * destruct (beqb_spec k k') as [->|]; [contradiction|reflexivity].
        * apply IH. assumption.
  Qed.

  Lemma aremove_length l k v : alookup l k = Some v -> length l = S (length (aremove l k)).
  Proof.
    induction l as [|(k0, v0) l IH]; simpl; [discriminate|].
    destruct (beqb k0 k); [reflexivity|]. intros H. simpl. f_equal. apply IH. exact H.
  Qed.

  Lemma aset_keys_present l k v v0 : alookup l k = Some v0 -> map fst (aset l k v) = map fst l.
  Proof.
    induction l as [|(k0, v1) l IH]; simpl; [discriminate|].
    destruct (beqb_spec k0 k) as [->|Hne]; [reflexivity|]. intros H. simpl. f_equal. apply IH. exact H.
  Qed.

  Lemma aset_length_present l k v v0 : alookup l k = Some v0 -> length (aset l k v) = length l.
  Proof. intros H. rewrite <- (map_length fst), (aset_keys_present _ _ _ _ H), map_length. reflexivity. Qed.

  Lemma alookup_snoc l k v k' : alookup l k = None ->
    alookup (l ++ [(k, v)]) k' = if beqb k k' then Some v else alookup l k'.
  Proof.
    induction l as [|(k0, v0) l IH]; simpl; intros H.
    - destruct (beqb k k'); reflexivity.
    - destruct (beqb_spec k0 k) as [->|Hne]; [discriminate|].
      destruct (beqb_spec k0 k') as [->|Hne'].
      + destruct (beqb_spec k k') as [->|]; [contradiction|reflexivity].
      + apply IH. exact H.
  Qed.
End Assoc.

(** ---------- the hash index, on its own ---------- *)

Definition sum_sz (l : list (bytes * tx)) : Z := fold_right (fun e a => size (snd e) + a) 0 l.

Definition BH (p : pool) : Prop :=
  NoDup (map fst (byHash p)) /\
  (forall h t, alookup (byHash p) h = Some t -> hash t = h) /\
  cntTx p = Z.of_nat (length (byHash p)) /\
  numBytes p = sum_sz (byHash p).

Lemma sum_sz_aremove l h t : alookup l h = Some t -> sum_sz l = size t + sum_sz (aremove l h).
Proof.
  induction l as [|(k0, v0) l IH]; simpl; [discriminate|].
  destruct (beqb k0 h); [intros E; inversion E; subst; reflexivity|].
  intros H. simpl. rewrite (IH H). lia.
Qed.

Lemma BH_add p t : BH p -> BH (fst (byhash_add p t)) /\ senders (fst (byhash_add p t)) = senders p /\
  cntSenders (fst (byhash_add p t)) = cntSenders p /\
  (forall h, alookup (byHash (fst (byhash_add p t))) h =
             match alookup (byHash p) (hash t) with
             | Some _ => alookup (byHash p) h
             | None => if beqb (hash t) h then Some t else alookup (byHash p) h
             end) /\
  snd (byhash_add p t) = match alookup (byHash p) (hash t) with Some _ => false | None => true end.
Proof.
  intros (H1 & H2 & H3 & H4). unfold byhash_add. destruct (alookup (byHash p) (hash t)) as [t0|] eqn:E; simpl.
  - repeat split; auto.
  - split; [|repeat split; reflexivity]. split; [|split; [|split]]; simpl.
    + constructor; [apply alookup_None; exact E|exact H1].
    + intros h t1. destruct (beqb_spec (hash t) h) as [<-|Hne]; [intros E1; inversion E1; reflexivity|apply H2].
    + rewrite H3. lia.
    + rewrite H4. unfold sum_sz. simpl. lia.
Qed.

Lemma BH_remove p h : BH p -> BH (fst (byhash_remove p h)) /\ senders (fst (byhash_remove p h)) = senders p /\
  cntSenders (fst (byhash_remove p h)) = cntSenders p /\
  (forall h', alookup (byHash (fst (byhash_remove p h))) h' = if beqb h h' then None else alookup (byHash p) h') /\
  snd (byhash_remove p h) = alookup (byHash p) h.
Proof.
  intros (H1 & H2 & H3 & H4). unfold byhash_remove. destruct (alookup (byHash p) h) as [t|] eqn:E; simpl.
  - split; [|repeat split; try reflexivity; intros h'; apply alookup_aremove; exact H1].
    split; [apply aremove_NoDup; exact H1|]. split; [|split].
    + simpl. intros h' t'. rewrite alookup_aremove by exact H1. destruct (beqb h h'); [discriminate|apply H2].
    + simpl. rewrite H3, (aremove_length _ _ _ E). lia.
    + simpl. rewrite H4, (sum_sz_aremove _ _ _ E). lia.
  - split; [repeat split; assumption|]. repeat split; try reflexivity.
    intros h'. destruct (beqb_spec h h') as [<-|]; [exact E|reflexivity].
Qed.

Lemma BH_remove_bulk p hs : BH p -> BH (byhash_remove_bulk p hs) /\ senders (byhash_remove_bulk p hs) = senders p /\
  cntSenders (byhash_remove_bulk p hs) = cntSenders p /\
  (forall h', alookup (byHash (byhash_remove_bulk p hs)) h' = if existsb (fun h => beqb h h') hs then None else alookup (byHash p) h').
Proof.
  revert p; induction hs as [|h hs IH]; intros p H; simpl.
  - repeat split; try apply H; reflexivity.
  - destruct (BH_remove p h H) as (B1 & B2 & B3 & B4 & _). unfold byhash_remove_bulk. simpl.
    destruct (IH _ B1) as (C1 & C2 & C3 & C4). unfold byhash_remove_bulk in *.
    split; [exact C1|]. split; [rewrite C2; exact B2|]. split; [rewrite C3; exact B3|].
    intros h'. rewrite C4, B4. destruct (beqb h h'); simpl; [destruct (existsb _ hs); reflexivity|reflexivity].
Qed.

(** ---------- the sender map, on its own ---------- *)

Definition list_ok (a : bytes) (sl : slist) : Prop :=
  items sl <> [] /\ sorted (items sl) /\
  (forall t, In t (items sl) -> sender t = a /\ (nonce t < two64)%N) /\
  totalBytes sl = sum_sizes (items sl).

Definition SL (p : pool) : Prop :=
  NoDup (map fst (senders p)) /\
  (forall a sl, alookup (senders p) a = Some sl -> list_ok a sl) /\
  cntSenders p = Z.of_nat (length (senders p)).

Definition listed (p : pool) (t : tx) : Prop :=
  exists sl, alookup (senders p) (sender t) = Some sl /\ In t (items sl).

(** the set reachable by hash = the set reachable through the senders' lists *)
Definition Link (p : pool) : Prop := forall t, alookup (byHash p) (hash t) = Some t <-> listed p t.

Definition Inv (p : pool) : Prop := BH p /\ SL p /\ Link p.

Lemma Inv_empty : Inv empty_pool.
Proof.
  split; [|split].
  - unfold BH; simpl. split; [constructor|]. split; [intros h t H; discriminate|]. split; reflexivity.
  - unfold SL; simpl. split; [constructor|]. split; [intros a sl H; discriminate|reflexivity].
  - intros t. simpl. split; [discriminate|]. intros (sl & H & _). discriminate.
Qed.

Lemma listed_hash_inj p t t' : Inv p -> listed p t -> listed p t' -> hash t = hash t' -> t = t'.
Proof.
  intros (_ & _ & HL) H1 H2 E. apply HL in H1. apply HL in H2. rewrite E in H1. congruence.
Qed.

(** replace the list of sender [a] (present) by a sub-list [l'], dropping the sender if empty *)
Definition shrink_senders (p : pool) (a : bytes) (l' : list tx) (tb : Z) : pool :=
  remove_sender_if_empty (set_senders p (aset (senders p) a (mkSlist l' tb)) (cntSenders p)) a.

Lemma remove_sender_if_empty_byHash q a :
  byHash (remove_sender_if_empty q a) = byHash q /\ cntTx (remove_sender_if_empty q a) = cntTx q /\
  numBytes (remove_sender_if_empty q a) = numBytes q.
Proof.
  unfold remove_sender_if_empty, remove_sender, set_senders.
  destruct (alookup (senders q) a) as [sl|]; [|auto]. destruct (items sl); auto.
Qed.

Lemma shrink_senders_byHash p a l' tb :
  byHash (shrink_senders p a l' tb) = byHash p /\ cntTx (shrink_senders p a l' tb) = cntTx p /\
  numBytes (shrink_senders p a l' tb) = numBytes p.
Proof.
  unfold shrink_senders.
  destruct (remove_sender_if_empty_byHash (set_senders p (aset (senders p) a (mkSlist l' tb)) (cntSenders p)) a) as (A & B & C).
  rewrite A, B, C. auto.
Qed.

Lemma shrink_senders_lookup p a sl l' tb b : NoDup (map fst (senders p)) -> alookup (senders p) a = Some sl ->
  alookup (senders (shrink_senders p a l' tb)) b =
  if beqb a b then match l' with [] => None | _ => Some (mkSlist l' tb) end else alookup (senders p) b.
Proof.
  intros Hnd Ha. unfold shrink_senders, remove_sender_if_empty, remove_sender, set_senders. simpl.
  rewrite alookup_aset, beqb_refl. simpl. destruct l' as [|x l']; simpl.
  - rewrite alookup_aremove.
    + rewrite alookup_aset. destruct (beqb a b); reflexivity.
    + rewrite (aset_keys_present _ _ _ _ Ha). exact Hnd.
  - rewrite alookup_aset. reflexivity.
Qed.

Lemma SL_shrink p a sl l' tb : SL p -> alookup (senders p) a = Some sl ->
  sorted l' -> (forall t, In t l' -> In t (items sl)) -> tb = sum_sizes l' ->
  SL (shrink_senders p a l' tb).
Proof.
  intros (Hnd & Hok & Hcnt) Ha Hs Hsub Htb. split; [|split].
  - unfold shrink_senders, remove_sender_if_empty, remove_sender, set_senders. simpl.
    rewrite alookup_aset, beqb_refl. simpl. destruct l' as [|x l']; simpl.
    + apply aremove_NoDup. rewrite (aset_keys_present _ _ _ _ Ha). exact Hnd.
    + rewrite (aset_keys_present _ _ _ _ Ha). exact Hnd.
  - intros b slb. rewrite (shrink_senders_lookup _ _ _ _ _ _ Hnd Ha).
    destruct (beqb_spec a b) as [<-|Hne]; [|apply Hok].
    destruct l' as [|x l']; [discriminate|]. intros E. inversion E; subst slb. clear E.
    destruct (Hok _ _ Ha) as (_ & _ & Hsend & _).
    split; [discriminate|]. split; [exact Hs|]. split; [|exact Htb].
    intros t Ht. apply Hsend. apply Hsub. exact Ht.
  - unfold shrink_senders, remove_sender_if_empty, remove_sender, set_senders. simpl.
    rewrite alookup_aset, beqb_refl. simpl. destruct l' as [|x l']; simpl.
    + rewrite Hcnt.
      assert (E : alookup (aset (senders p) a {| items := []; totalBytes := tb |}) a = Some {| items := []; totalBytes := tb |})
        by (rewrite alookup_aset, beqb_refl; reflexivity).
      rewrite <- (aset_length_present _ a {| items := []; totalBytes := tb |} _ Ha).
      rewrite (aremove_length _ _ _ E). lia.
    + rewrite (aset_length_present _ _ _ _ Ha). exact Hcnt.
Qed.

Lemma listed_shrink p a sl l' tb t : NoDup (map fst (senders p)) -> alookup (senders p) a = Some sl ->
  (listed (shrink_senders p a l' tb) t <->
   (sender t = a /\ In t l') \/ (sender t <> a /\ listed p t)).
Proof.
  intros Hnd Ha. unfold listed. rewrite (shrink_senders_lookup _ _ _ _ _ _ Hnd Ha).
  destruct (beqb_spec a (sender t)) as [E|Hne].
  - split.
    + intros (sl0 & H1 & H2). destruct l' as [|x l']; [discriminate|]. inversion H1; subst sl0. left. split; [symmetry; exact E|exact H2].
    + intros [(E' & Hin)|(Hne & _)]; [|congruence]. destruct l' as [|x l']; [destruct Hin|].
      exists (mkSlist (x :: l') tb). split; [reflexivity|exact Hin].
  - split.
    + intros H. right. split; [congruence|exact H].
    + intros [(E' & _)|(_ & H)]; [congruence|exact H].
Qed.

(** The general "shrink" step: sender [a]'s list loses exactly [removed]; those hashes leave the index. *)
Lemma Inv_shrink p a sl l' removed p' :
  Inv p -> alookup (senders p) a = Some sl ->
  Permutation (items sl) (l' ++ removed) -> sorted l' ->
  BH p' -> senders p' = senders (shrink_senders p a l' (sum_sizes l')) ->
  cntSenders p' = cntSenders (shrink_senders p a l' (sum_sizes l')) ->
  (forall h, alookup (byHash p') h = if existsb (fun g => beqb g h) (map hash removed) then None else alookup (byHash p) h) ->
  Inv p'.
Proof.
  intros (HB & HS & HL) Ha Hperm Hs HB' Hsend Hcnt Hlook.
  assert (Hnd : NoDup (map fst (senders p))) by apply HS.
  assert (Hsub : forall t, In t l' -> In t (items sl)).
  { intros t Ht. eapply Permutation_in; [apply Permutation_sym; exact Hperm|]. apply in_or_app. left. exact Ht. }
  assert (HSL : SL (shrink_senders p a l' (sum_sizes l'))) by (eapply SL_shrink; eauto).
  split; [exact HB'|]. split.
  { destruct HSL as (S1 & S2 & S3). split; [rewrite Hsend; exact S1|]. split; [rewrite Hsend; exact S2|]. rewrite Hcnt, Hsend. exact S3. }
  assert (Hnd_items : NoDup (l' ++ removed)).
  { eapply Permutation_NoDup; [exact Hperm|]. apply sorted_NoDup. destruct HS as (_ & Hok & _). apply (Hok a sl Ha). }
  intros t. unfold listed. rewrite Hsend. fold (listed (shrink_senders p a l' (sum_sizes l')) t).
  rewrite (listed_shrink _ _ _ _ _ _ Hnd Ha). rewrite Hlook.
  destruct (existsb (fun g => beqb g (hash t)) (map hash removed)) eqn:Eex.
  - (* the hash is one of the removed ones *)
    apply existsb_exists in Eex. destruct Eex as (g & Hg & Eg). apply beqb_eq in Eg. apply in_map_iff in Hg.
    destruct Hg as (r & Er & Hr). subst g.
    assert (Hr_listed : listed p r).
    { exists sl. destruct (HS) as (_ & Hok & _). destruct (Hok _ _ Ha) as (_ & _ & Hsnd & _).
      assert (In r (items sl)) by (eapply Permutation_in; [apply Permutation_sym; exact Hperm|apply in_or_app; right; exact Hr]).
      rewrite (proj1 (Hsnd r H)). auto. }
    split; [discriminate|]. intros [(Es & Hin)|(Hne & Hlisted)]; exfalso.
    + assert (t = r).
      { apply (listed_hash_inj p); [exact (conj HB (conj HS HL))| |exact Hr_listed|congruence].
        exists sl. rewrite Es. split; [exact Ha|apply Hsub; exact Hin]. }
      subst t. eapply NoDup_app_disj; [exact Hnd_items|exact Hin|exact Hr].
    + assert (t = r) by (apply (listed_hash_inj p); [exact (conj HB (conj HS HL))|exact Hlisted|exact Hr_listed|congruence]).
      subst t. destruct Hr_listed as (sl0 & H0 & _). apply Hne.
      destruct HS as (_ & Hok & _). destruct (Hok _ _ Ha) as (_ & _ & Hsnd & _).
      apply Hsnd. eapply Permutation_in; [apply Permutation_sym; exact Hperm|apply in_or_app; right; exact Hr].
  - rewrite (HL t). split.
    + intros Hlisted. destruct (list_eq_dec N.eq_dec (sender t) a) as [Es|Hne]; [|right; split; assumption].
      left. split; [exact Es|]. destruct Hlisted as (sl0 & H0 & Hin). rewrite Es, Ha in H0. inversion H0; subst sl0.
      apply (Permutation_in _ Hperm) in Hin. apply in_app_or in Hin. destruct Hin as [Hin|Hin]; [exact Hin|].
      exfalso. assert (existsb (fun g => beqb g (hash t)) (map hash removed) = true); [|congruence].
      apply existsb_exists. exists (hash t). split; [apply in_map; exact Hin|apply beqb_refl].
    + intros [(Es & Hin)|(_ & H)]; [|exact H]. exists sl. rewrite Es. split; [exact Ha|apply Hsub; exact Hin].
Qed.

Lemma BH_congr p q : byHash q = byHash p -> cntTx q = cntTx p -> numBytes q = numBytes p -> BH p -> BH q.
Proof. intros E1 E2 E3 (A & B & C & D). unfold BH. rewrite E1, E2, E3. auto. Qed.

Lemma shrink_senders_congr p q a l tb : senders q = senders p -> cntSenders q = cntSenders p ->
  senders (shrink_senders q a l tb) = senders (shrink_senders p a l tb) /\
  cntSenders (shrink_senders q a l tb) = cntSenders (shrink_senders p a l tb).
Proof.
  intros E1 E2. unfold shrink_senders, remove_sender_if_empty, remove_sender, set_senders. simpl. rewrite E1, E2.
  destruct (alookup (aset (senders p) a {| items := l; totalBytes := tb |}) a) as [s0|]; [|auto].
  destruct (items s0); auto.
Qed.

Lemma existsb_beqb_in (hs : list bytes) h : existsb (fun g => beqb g h) hs = true <-> In h hs.
Proof.
  rewrite existsb_exists. split.
  - intros (g & Hg & E). apply beqb_eq in E. subst. exact Hg.
  - intros H. exists h. split; [exact H|apply beqb_refl].
Qed.

(** RemoveTxByHash preserves the invariant *)
Lemma Inv_remove_tx p h : Inv p -> Inv (fst (remove_tx p h)).
Proof.
  intros HI. pose proof HI as (HB & HS & HL). unfold remove_tx.
  destruct (BH_remove p h HB) as (B1 & B2 & B3 & B4 & B5).
  destruct (byhash_remove p h) as (p1, ot) eqn:Ebr. simpl in B1, B2, B3, B4, B5. subst ot.
  destruct (alookup (byHash p) h) as [t|] eqn:Eh; [|exact HI].
  assert (Hht : hash t = h) by (apply HB; exact Eh).
  assert (Hlisted : listed p t) by (apply HL; rewrite Hht; exact Eh).
  destruct Hlisted as (sl & Hsl & Hin). rewrite B2, Hsl.
  destruct HS as (Hnd & Hok & Hcnt). destruct (Hok _ _ Hsl) as (Hne & Hsorted & Hsnd & Htb).
  unfold sl_remove_leq. pose proof (split_leq_spec (items sl) (nonce t) Hsorted) as Hsp.
  destruct (split_leq (items sl) (nonce t)) as (gone, kept). destruct Hsp as (Eitems & Hgone & Hkept).
  assert (Htgone : In t gone).
  { rewrite Eitems in Hin. apply in_app_or in Hin. destruct Hin as [H|H]; [exact H|]. apply Hkept in H. lia. }
  cbn [fst].
  set (p3 := remove_sender_if_empty (set_senders p1 (aset (senders p) (sender t) {| items := kept; totalBytes := totalBytes sl - sum_sizes gone |}) (cntSenders p1)) (sender t)).
  assert (Ep3 : p3 = shrink_senders p1 (sender t) kept (totalBytes sl - sum_sizes gone)).
  { unfold p3, shrink_senders. rewrite B2. reflexivity. }
  assert (Htb' : totalBytes sl - sum_sizes gone = sum_sizes kept).
  { rewrite Htb, Eitems, sum_sizes_app. lia. }
  set (pf := match map hash gone with [] => p3 | _ :: _ => byhash_remove_bulk p3 (map hash gone) end).
  assert (Epf : pf = byhash_remove_bulk p3 (map hash gone)).
  { unfold pf. destruct (map hash gone) eqn:E; [reflexivity|reflexivity]. }
  fold pf. rewrite Epf.
  destruct (shrink_senders_byHash p1 (sender t) kept (totalBytes sl - sum_sizes gone)) as (S1 & S2 & S3).
  assert (HB3 : BH p3) by (rewrite Ep3; eapply BH_congr; eauto).
  destruct (BH_remove_bulk p3 (map hash gone) HB3) as (C1 & C2 & C3 & C4).
  destruct (shrink_senders_congr p p1 (sender t) kept (sum_sizes kept) B2 B3) as (G1 & G2).
  apply (Inv_shrink p (sender t) sl kept gone); [exact HI|exact Hsl| | |exact C1| | |].
  - rewrite Eitems. apply Permutation_app_comm.
  - rewrite Eitems in Hsorted. eapply sorted_app_r. exact Hsorted.
  - rewrite C2, Ep3, Htb'. exact G1.
  - rewrite C3, Ep3, Htb'. exact G2.
  - intros h'. rewrite C4, Ep3, S1, B4.
    destruct (existsb (fun g => beqb g h') (map hash gone)) eqn:Eex; [reflexivity|].
    destruct (beqb_spec h h') as [<-|]; [|reflexivity].
    exfalso. assert (existsb (fun g => beqb g h) (map hash gone) = true); [|congruence].
    apply existsb_beqb_in. rewrite <- Hht. apply in_map. exact Htgone.
Qed.

(** ---------- insertion ---------- *)

Lemma aset_same {V} (l : list (bytes * V)) k v : alookup l k = Some v -> aset l k v = l.
Proof.
  induction l as [|(k0, v0) l IH]; simpl; [discriminate|].
  destruct (beqb_spec k0 k) as [->|Hne]; [intros E; inversion E; reflexivity|intros H; f_equal; exact (IH H)].
Qed.

Lemma aset_aset {V} (l : list (bytes * V)) k v w : aset (aset l k v) k w = aset l k w.
Proof.
  induction l as [|(k0, v0) l IH]; simpl; [rewrite beqb_refl; reflexivity|].
  destruct (beqb_spec k0 k) as [->|Hne]; simpl; [rewrite beqb_refl; reflexivity|].
  destruct (beqb_spec k0 k); [contradiction|]. f_equal. exact IH.
Qed.

Lemma aset_snoc {V} (l : list (bytes * V)) k v w : alookup l k = None -> aset (l ++ [(k, v)]) k w = l ++ [(k, w)].
Proof.
  induction l as [|(k0, v0) l IH]; simpl; intros H; [rewrite beqb_refl; reflexivity|].
  destruct (beqb_spec k0 k) as [->|Hne]; [discriminate|]. f_equal. exact (IH H).
Qed.

Definition old_items (p : pool) (a : bytes) : list tx :=
  match alookup (senders p) a with Some sl => items sl | None => [] end.

Definition tx_wf (t : tx) : Prop := (nonce t < two64)%N.

Lemma Inv_grow p t l' p' :
  Inv p -> alookup (byHash p) (hash t) = None -> tx_wf t ->
  Permutation l' (t :: old_items p (sender t)) -> sorted l' ->
  BH p' -> NoDup (map fst (senders p')) -> cntSenders p' = Z.of_nat (length (senders p')) ->
  (forall b, alookup (senders p') b = if beqb (sender t) b then Some (mkSlist l' (sum_sizes l')) else alookup (senders p) b) ->
  (forall h, alookup (byHash p') h = if beqb (hash t) h then Some t else alookup (byHash p) h) ->
  Inv p'.
Proof.
  intros HI Hnone Hwf Hperm Hs HB' Hnd' Hcnt' Hsl Hbh. pose proof HI as (HB & (Hnd & Hok & Hcnt) & HL).
  assert (Hold : forall x, In x (old_items p (sender t)) -> sender x = sender t /\ (nonce x < two64)%N /\ listed p x).
  { unfold old_items. intros x Hx. destruct (alookup (senders p) (sender t)) as [sl|] eqn:E; [|destruct Hx].
    destruct (Hok _ _ E) as (_ & _ & Hsnd & _). destruct (Hsnd x Hx) as (A & B). split; [exact A|]. split; [exact B|].
    exists sl. rewrite A. auto. }
  assert (Hnot_old : forall x, listed p x -> hash x <> hash t).
  { intros x Hx E. apply HL in Hx. rewrite E in Hx. congruence. }
  split; [exact HB'|]. split.
  - split; [exact Hnd'|]. split; [|exact Hcnt']. intros b slb. rewrite Hsl.
    destruct (beqb_spec (sender t) b) as [<-|Hne]; [|apply Hok].
    intros E. inversion E; subst slb. clear E. split; [|split; [exact Hs|split; [|reflexivity]]].
    + simpl. intros El. rewrite El in Hperm. apply Permutation_nil in Hperm. discriminate.
    + simpl. intros x Hx. apply (Permutation_in _ Hperm) in Hx. destruct Hx as [<-|Hx]; [split; [reflexivity|exact Hwf]|].
      destruct (Hold x Hx) as (A & B & _). auto.
  - intros x. rewrite Hbh. unfold listed. rewrite Hsl.
    destruct (beqb_spec (hash t) (hash x)) as [Eh|Hneh].
    + split.
      * intros E. inversion E; subst x. rewrite beqb_refl. eexists. split; [reflexivity|]. simpl.
        eapply Permutation_in; [apply Permutation_sym; exact Hperm|left; reflexivity].
      * intros (slx & Hslx & Hin). destruct (beqb_spec (sender t) (sender x)) as [Es|Hnes].
        -- inversion Hslx; subst slx. simpl in Hin. apply (Permutation_in _ Hperm) in Hin.
           destruct Hin as [<-|Hin]; [reflexivity|]. exfalso. destruct (Hold x Hin) as (_ & _ & Hl). exact (Hnot_old x Hl (eq_sym Eh)).
        -- exfalso. apply (Hnot_old x); [exists slx; auto|congruence].
    + rewrite (HL x). unfold listed. destruct (beqb_spec (sender t) (sender x)) as [Es|Hnes]; [|reflexivity].
      split.
      * intros (slx & Hslx & Hin). eexists. split; [reflexivity|]. simpl.
        eapply Permutation_in; [apply Permutation_sym; exact Hperm|]. right. unfold old_items. rewrite Es, Hslx. exact Hin.
      * intros (slx & Hslx & Hin). inversion Hslx; subst slx. simpl in Hin. apply (Permutation_in _ Hperm) in Hin.
        destruct Hin as [<-|Hin]; [congruence|]. destruct (Hold x Hin) as (_ & _ & Hl). exact Hl.
Qed.

(** "hash determines content" at the point of an insertion *)
Definition agrees (p : pool) (t : tx) : Prop := forall t', alookup (byHash p) (hash t) = Some t' -> t' = t.

Lemma set_senders_id p : set_senders p (senders p) (cntSenders p) = p.
Proof. destruct p; reflexivity. Qed.

Lemma rev_cons_inv {A} (l : list A) x r : rev l = x :: r -> l = rev r ++ [x].
Proof. intros H. rewrite <- (rev_involutive l), H. reflexivity. Qed.

Definition sub_pool (p q : pool) : Prop := forall x, listed p x -> listed q x.

Lemma sub_pool_refl p : sub_pool p p. Proof. intros x H; exact H. Qed.
Lemma sub_pool_trans p q r : sub_pool p q -> sub_pool q r -> sub_pool p r.
Proof. intros H1 H2 x H. apply H2, H1, H. Qed.

Lemma listed_congr p q x : senders q = senders p -> listed q x <-> listed p x.
Proof. intros E. unfold listed. rewrite E. reflexivity. Qed.

(** the final step of an insertion: the per-sender size constraints applied to the inserted list *)
Definition finish_add (cfg : config) (pm : pool) (a : bytes) (sl1 : slist) : pool :=
  let '(sl2, ev) := apply_size_constraints cfg sl1 in
  let p3 := set_senders pm (aset (senders pm) a sl2) (cntSenders pm) in
  let p4 := match ev with [] => p3 | _ => remove_sender_if_empty p3 a end in
  match ev with [] => p4 | _ => byhash_remove_bulk p4 ev end.

(** insertion of a NEW hash: the pool [pm] right after the sorted insert (before the size
    constraints) satisfies the invariant; the result is [finish_add] of it *)
Lemma add_core_new cfg p t : Inv p -> tx_wf t -> alookup (byHash p) (hash t) = None ->
  exists pm l' sl1,
    Inv pm /\ alookup (senders pm) (sender t) = Some sl1 /\ items sl1 = l' /\ totalBytes sl1 = sum_sizes l' /\
    sorted l' /\ Permutation l' (t :: old_items p (sender t)) /\
    (forall b, alookup (senders pm) b = if beqb (sender t) b then Some sl1 else alookup (senders p) b) /\
    (forall h, alookup (byHash pm) h = if beqb (hash t) h then Some t else alookup (byHash p) h) /\
    fst (add_core cfg p t) = finish_add cfg pm (sender t) sl1 /\ snd (add_core cfg p t) = true.
Proof.
  intros HI Hwf Eh. pose proof HI as (HB & (Hnd & Hok & Hcnt) & HL). unfold add_core, finish_add.
  destruct (BH_add p t HB) as (A1 & A2 & A3 & A4 & A5).
  destruct (byhash_add p t) as (p1, addedH) eqn:Eadd. simpl in A1, A2, A3, A4, A5.
  rewrite Eh in A4, A5. subst addedH.
  assert (Hlook1 : forall h, alookup (byHash p1) h = if beqb (hash t) h then Some t else alookup (byHash p) h) by exact A4.
  set (a := sender t) in *.
  assert (Hins_ok : forall sl, alookup (senders p) a = Some sl -> exists l', insert_sorted (items sl) t = Some l').
  { intros sl Hsl. destruct (Hok _ _ Hsl) as (_ & Hsorted & _ & _).
    pose proof (insert_sorted_spec (items sl) t Hsorted) as Hins.
    destruct (insert_sorted (items sl) t) as [l'|]; [eauto|]. exfalso.
    destruct Hins as (c & Hc & _ & _ & Ehc).
    assert (Hlc : listed p c). { exists sl. destruct (Hok _ _ Hsl) as (_ & _ & Hsnd & _). rewrite (proj1 (Hsnd c Hc)). auto. }
    apply HL in Hlc. rewrite Ehc in Hlc. congruence. }
  cbv beta iota. rewrite A2. destruct (alookup (senders p) a) as [sl|] eqn:Esl.
  - destruct (Hins_ok sl eq_refl) as (l' & El'). unfold sl_add. rewrite El'.
    destruct (Hok _ _ Esl) as (Hne & Hsorted & Hsnd & Htb).
    pose proof (insert_sorted_spec (items sl) t Hsorted) as Hins. rewrite El' in Hins. destruct Hins as (Hs' & Hp' & _).
    set (sl1 := {| items := l'; totalBytes := totalBytes sl + size t |}).
    set (pm := set_senders p1 (aset (senders p) a sl1) (cntSenders p1)).
    exists pm, l', sl1.
    assert (Htb1 : totalBytes sl1 = sum_sizes l').
    { unfold sl1; simpl. rewrite (sum_sizes_perm _ _ Hp'), Htb. simpl. lia. }
    assert (Hsl_pm : forall b, alookup (senders pm) b = if beqb a b then Some sl1 else alookup (senders p) b).
    { intros b. unfold pm; simpl. rewrite alookup_aset. reflexivity. }
    assert (Hperm : Permutation l' (t :: old_items p a)) by (unfold old_items; rewrite Esl; exact Hp').
    split; [|split; [rewrite Hsl_pm, beqb_refl; reflexivity|split; [reflexivity|split; [exact Htb1|split; [exact Hs'|split; [exact Hperm|split; [exact Hsl_pm|split; [exact Hlook1|]]]]]]]].
    + apply (Inv_grow p t l'); [exact HI|exact Eh|exact Hwf|exact Hperm|exact Hs'| | | | |exact Hlook1].
      * eapply BH_congr; [| | |exact A1]; reflexivity.
      * unfold pm; simpl. rewrite (aset_keys_present _ _ _ _ Esl). exact Hnd.
      * unfold pm; simpl. rewrite A3, Hcnt, (aset_length_present _ _ _ _ Esl). reflexivity.
      * intros b. rewrite Hsl_pm. fold a. destruct (beqb a b); [|reflexivity]. unfold sl1. rewrite <- Htb1. reflexivity.
    + destruct (apply_size_constraints cfg sl1) as (sl2, ev) eqn:Easc. cbn [fst snd].
      unfold pm, set_senders. cbn [senders cntSenders byHash cntTx numBytes]. rewrite ?A2, aset_aset.
      destruct ev; split; reflexivity.
  - unfold sl_add.
    set (sl1 := {| items := [t]; totalBytes := 0 + size t |}).
    set (pm := set_senders p1 (senders p ++ [(a, sl1)]) (cntSenders p1 + 1)).
    exists pm, [t], sl1.
    assert (Htb1 : totalBytes sl1 = sum_sizes [t]) by (unfold sl1; simpl; lia).
    assert (Hsl_pm : forall b, alookup (senders pm) b = if beqb a b then Some sl1 else alookup (senders p) b).
    { intros b. unfold pm; simpl. rewrite (alookup_snoc _ _ _ _ Esl). reflexivity. }
    assert (Hperm : Permutation [t] (t :: old_items p a)) by (unfold old_items; rewrite Esl; reflexivity).
    split; [|split; [rewrite Hsl_pm, beqb_refl; reflexivity|split; [reflexivity|split; [exact Htb1|split; [repeat constructor|split; [exact Hperm|split; [exact Hsl_pm|split; [exact Hlook1|]]]]]]]].
    + apply (Inv_grow p t [t]); [exact HI|exact Eh|exact Hwf|exact Hperm|repeat constructor| | | | |exact Hlook1].
      * eapply BH_congr; [| | |exact A1]; reflexivity.
      * unfold pm; simpl. rewrite map_app. simpl. apply NoDup_app_intro; [exact Hnd|repeat constructor; intros []|].
        intros x Hx [<-|[]]. apply alookup_None in Esl. contradiction.
      * unfold pm; simpl. rewrite A3, Hcnt, app_length. simpl. lia.
      * intros b. rewrite Hsl_pm. fold a. destruct (beqb a b); [|reflexivity]. unfold sl1. simpl. repeat f_equal. lia.
    + change (insert_sorted (items empty_slist) t) with (Some [t]). cbv beta iota.
      try change (totalBytes empty_slist + size t) with (0 + size t). fold sl1.
      destruct (apply_size_constraints cfg sl1) as (sl2, ev) eqn:Easc. cbn [fst snd].
      unfold pm, set_senders. cbn [senders cntSenders byHash cntTx numBytes]. rewrite !(aset_snoc _ _ _ _ Esl).
      destruct ev; split; reflexivity.
Qed.

(** re-insertion of a pooled hash changes nothing and reports added = false *)
Lemma add_core_dup cfg p t : Inv p -> alookup (byHash p) (hash t) = Some t -> add_core cfg p t = (p, false).
Proof.
  intros HI Eh. pose proof HI as (HB & (Hnd & Hok & Hcnt) & HL). unfold add_core.
  assert (Eadd : byhash_add p t = (p, false)) by (unfold byhash_add; rewrite Eh; reflexivity).
  rewrite Eadd. assert (Hl : listed p t) by (apply HL; exact Eh). destruct Hl as (sl & Hsl & Hin).
  rewrite Hsl. unfold sl_add. destruct (Hok _ _ Hsl) as (_ & Hsorted & _ & _).
  pose proof (insert_sorted_spec (items sl) t Hsorted) as Hins.
  destruct (insert_sorted (items sl) t) as [l'|].
  - exfalso. destruct Hins as (_ & _ & Hno). apply (Hno t Hin). repeat split; reflexivity.
  - cbn [fst]. rewrite (aset_same _ _ _ Hsl), set_senders_id. reflexivity.
Qed.

(** what [finish_add] does: at most one drop from the back (finding F4), index kept in step *)
Lemma finish_add_spec cfg pm a sl1 : Inv pm -> alookup (senders pm) a = Some sl1 -> totalBytes sl1 = sum_sizes (items sl1) ->
  let l' := items sl1 in
  let l2 := if sl_exceeded cfg sl1 then removelast l' else l' in
  Inv (finish_add cfg pm a sl1) /\
  (forall b, pool_for_sender (finish_add cfg pm a sl1) b = if beqb a b then l2 else pool_for_sender pm b) /\
  sub_pool (finish_add cfg pm a sl1) pm.
Proof.
  intros HIm Hslm Etb. cbv zeta. unfold finish_add, apply_size_constraints.
  pose proof HIm as (HBm & (Hndm & Hokm & Hcntm) & HLm).
  destruct (sl_exceeded cfg sl1).
  - destruct (rev (items sl1)) as [|lastt rfront] eqn:Erev.
    + assert (El : items sl1 = []) by (rewrite <- (rev_involutive (items sl1)), Erev; reflexivity).
      rewrite (aset_same _ _ _ Hslm), set_senders_id. split; [exact HIm|]. split; [|apply sub_pool_refl].
      intros b. unfold pool_for_sender. destruct (beqb_spec a b) as [<-|]; [rewrite Hslm, El; reflexivity|reflexivity].
    + apply rev_cons_inv in Erev. set (l2 := rev rfront).
      assert (Erl : removelast (items sl1) = l2) by (rewrite Erev; apply removelast_last).
      destruct (Hokm _ _ Hslm) as (_ & Hsm & _ & _). rewrite Erev in Hsm.
      assert (Etb2 : totalBytes sl1 - size lastt = sum_sizes l2).
      { rewrite Etb, Erev, sum_sizes_app. simpl. unfold l2. lia. }
      set (p4 := remove_sender_if_empty (set_senders pm (aset (senders pm) a {| items := l2; totalBytes := totalBytes sl1 - size lastt |}) (cntSenders pm)) a).
      assert (Ep4 : p4 = shrink_senders pm a l2 (sum_sizes l2)). { unfold p4, shrink_senders. rewrite Etb2. reflexivity. }
      destruct (shrink_senders_byHash pm a l2 (sum_sizes l2)) as (S1 & S2 & S3).
      assert (HB4 : BH p4) by (rewrite Ep4; eapply BH_congr; eauto).
      destruct (BH_remove_bulk p4 [hash lastt] HB4) as (C1 & C2 & C3 & C4).
      cbn [app]. fold l2. fold p4. split; [|split].
      * apply (Inv_shrink pm a sl1 l2 [lastt]); [exact HIm|exact Hslm| | |exact C1| | |].
        -- rewrite Erev. reflexivity.
        -- eapply sorted_app_l. exact Hsm.
        -- rewrite C2, Ep4. reflexivity.
        -- rewrite C3, Ep4. reflexivity.
        -- intros h. rewrite C4, Ep4, S1. reflexivity.
      * intros b. unfold pool_for_sender. rewrite C2, Ep4, (shrink_senders_lookup _ _ _ _ _ _ Hndm Hslm), Erl.
        destruct (beqb a b); [destruct l2; reflexivity|reflexivity].
      * intros x Hx. apply (listed_congr _ _ x C2) in Hx. rewrite Ep4 in Hx.
        apply (listed_shrink _ _ _ _ _ _ Hndm Hslm) in Hx. destruct Hx as [(Ex & Hin)|(_ & H)]; [|exact H].
        exists sl1. rewrite Ex. split; [exact Hslm|]. rewrite Erev. apply in_or_app. left. exact Hin.
  - rewrite (aset_same _ _ _ Hslm), set_senders_id. split; [exact HIm|]. split; [|apply sub_pool_refl].
    intros b. unfold pool_for_sender. destruct (beqb_spec a b) as [<-|]; [rewrite Hslm; reflexivity|reflexivity].
Qed.

(** the insertion proper preserves the invariant *)
Lemma Inv_add_core cfg p t : Inv p -> agrees p t -> tx_wf t -> Inv (fst (add_core cfg p t)).
Proof.
  intros HI Hag Hwf. destruct (alookup (byHash p) (hash t)) as [t'|] eqn:Eh.
  - assert (t' = t) by (apply Hag; exact Eh). subst t'. rewrite (add_core_dup cfg p t HI Eh). exact HI.
  - destruct (add_core_new cfg p t HI Hwf Eh) as (pm & l' & sl1 & HIm & Hslm & Eit & Etb & _ & _ & _ & _ & Efin & _).
    rewrite Efin. apply finish_add_spec; [exact HIm|exact Hslm|rewrite Eit; exact Etb].
Qed.

(** ---------- eviction ---------- *)

Lemma Inv_lookup_ext p q : Inv p -> BH q -> senders q = senders p -> cntSenders q = cntSenders p ->
  (forall h, alookup (byHash q) h = alookup (byHash p) h) -> Inv q.
Proof.
  intros (HB & (S1 & S2 & S3) & HL) HBq Es Ec Hl. split; [exact HBq|]. split.
  - unfold SL. rewrite Es, Ec. auto.
  - intros t. rewrite Hl, (listed_congr p q t Es). apply HL.
Qed.

(** removeTransactionsWithHigherOrEqualNonce for one sender + the index update *)
Lemma Inv_evict_sender_suffix p a n : Inv p ->
  Inv (evict_sender_suffix p a n) /\ sub_pool (evict_sender_suffix p a n) p /\
  (forall x, listed (evict_sender_suffix p a n) x -> sender x = a -> (nonce x < n)%N).
Proof.
  intros HI. pose proof HI as (HB & (Hnd & Hok & Hcnt) & HL). unfold evict_sender_suffix.
  destruct (alookup (senders p) a) as [sl|] eqn:Esl.
  2:{ split; [exact HI|]. split; [apply sub_pool_refl|]. intros x (slx & Hx & _) Ex. rewrite Ex, Esl in Hx. discriminate. }
  destruct (Hok _ _ Esl) as (Hne & Hsorted & Hsnd & Htb).
  unfold sl_remove_geq. pose proof (split_geq_rev_spec (rev (items sl)) n (proj1 (sorted_rev _) Hsorted)) as Hsp.
  destruct (split_geq_rev (rev (items sl)) n) as (gone, keptrev). destruct Hsp as (Erev & Hgone & Hkept).
  assert (Eitems : items sl = rev keptrev ++ rev gone).
  { rewrite <- (rev_involutive (items sl)), Erev, rev_app_distr. reflexivity. }
  set (l2 := rev keptrev).
  assert (Etb2 : totalBytes sl - sum_sizes gone = sum_sizes l2).
  { rewrite Htb, Eitems, sum_sizes_app, (sum_sizes_rev gone). unfold l2. lia. }
  set (p2 := remove_sender_if_empty (set_senders p (aset (senders p) a {| items := l2; totalBytes := totalBytes sl - sum_sizes gone |}) (cntSenders p)) a).
  assert (Ep2 : p2 = shrink_senders p a l2 (sum_sizes l2)). { unfold p2, shrink_senders. rewrite Etb2. reflexivity. }
  destruct (shrink_senders_byHash p a l2 (sum_sizes l2)) as (S1 & S2 & S3).
  assert (HB2 : BH p2) by (rewrite Ep2; eapply BH_congr; eauto).
  destruct (BH_remove_bulk p2 (map hash gone) HB2) as (C1 & C2 & C3 & C4).
  assert (Hsub_items : forall t, In t l2 -> In t (items sl)).
  { intros t Ht. rewrite Eitems. apply in_or_app. left. exact Ht. }
  split; [|split].
  - apply (Inv_shrink p a sl l2 gone); [exact HI|exact Esl| | |exact C1| | |].
    + rewrite Eitems. apply Permutation_app_head. symmetry. apply Permutation_rev.
    + rewrite Eitems in Hsorted. eapply sorted_app_l. exact Hsorted.
    + rewrite C2, Ep2. reflexivity.
    + rewrite C3, Ep2. reflexivity.
    + intros h. rewrite C4, Ep2, S1. reflexivity.
  - intros x Hx. apply (listed_congr _ _ x C2) in Hx. rewrite Ep2 in Hx.
    apply (listed_shrink _ _ _ _ _ _ Hnd Esl) in Hx. destruct Hx as [(Ex & Hin)|(_ & H)]; [|exact H].
    exists sl. rewrite Ex. split; [exact Esl|apply Hsub_items; exact Hin].
  - intros x Hx Ex. apply (listed_congr _ _ x C2) in Hx. rewrite Ep2 in Hx.
    apply (listed_shrink _ _ _ _ _ _ Hnd Esl) in Hx. destruct Hx as [(_ & Hin)|(Hne' & _)]; [|contradiction].
    apply Hkept. apply in_rev. exact Hin.
Qed.

Lemma Inv_evict_fold p L : Inv p ->
  let q := fold_left (fun q sn => evict_sender_suffix q (fst sn) (snd sn)) L p in
  Inv q /\ sub_pool q p /\
  (forall s n x, In (s, n) L -> listed q x -> sender x = s -> (nonce x < n)%N).
Proof.
  revert p; induction L as [|(s0, n0) L IH]; intros p HI; simpl.
  - split; [exact HI|]. split; [apply sub_pool_refl|]. intros s n x [].
  - destruct (Inv_evict_sender_suffix p s0 n0 HI) as (I1 & Sb1 & N1).
    destruct (IH _ I1) as (I2 & Sb2 & N2). split; [exact I2|]. split; [eapply sub_pool_trans; eassumption|].
    intros s n x [E|Hin] Hx Es.
    + inversion E; subst. apply N1; [apply Sb2; exact Hx|reflexivity].
    + eapply N2; eassumption.
Qed.

(** cursors over the reversed lists *)
Definition ctxs (c : ecursor) : list tx := ecur c :: erest c.
Definition cwf (c : ecursor) : Prop :=
  forall x, In x (erest c) -> sender x = sender (ecur c) /\ (nonce x <= nonce (ecur c))%N.
Definition cwf_deep (c : ecursor) : Prop :=
  StronglySorted (fun a b => sender b = sender a /\ (nonce b <= nonce a)%N) (ctxs c).
Definition cursors_ok (cs : list ecursor) : Prop :=
  (forall c, In c cs -> cwf_deep c) /\ NoDup (map (fun c => sender (ecur c)) cs).

Lemma cwf_deep_cwf c : cwf_deep c -> cwf c.
Proof.
  unfold cwf_deep, cwf, ctxs. intros H x Hx. inversion H as [|? ? _ Hall]; subst.
  rewrite Forall_forall in Hall. apply Hall. exact Hx.
Qed.

Lemma cwf_deep_advance c t r : cwf_deep c -> erest c = t :: r -> cwf_deep (mkEc t r) /\ sender t = sender (ecur c).
Proof.
  unfold cwf_deep, ctxs. intros H E. rewrite E in H. inversion H as [|? ? Hs Hall]; subst. simpl. split; [exact Hs|].
  rewrite Forall_forall in Hall. apply (Hall t). left. reflexivity.
Qed.

Lemma worst_index_bound cs i w n : worst_index cs i w = Some n ->
  (match w with Some (j, _) => n = j \/ (i <= n < i + length cs)%nat | None => (i <= n < i + length cs)%nat end).
Proof.
  revert i w; induction cs as [|c cs IH]; intros i w H; simpl in H.
  - destruct w as [(j, wt)|]; simpl in H; [inversion H; left; reflexivity|discriminate].
  - destruct w as [(j, wt)|].
    + destruct (more_valuable wt (ecur c)); apply IH in H; simpl in *.
      * destruct H as [->|H]; right; lia.
      * destruct H as [->|H]; [left; reflexivity|right; lia].
    + apply IH in H. simpl in *. destruct H as [->|H]; lia.
Qed.

(** one pass *)
Lemma take_batch_spec k cs batch cs' : cursors_ok cs -> take_batch k cs = (batch, cs') ->
  cursors_ok cs' /\
  (forall b, In b batch -> exists c, In c cs /\ In b (ctxs c)) /\
  (forall c', In c' cs' -> exists c, In c cs /\ sender (ecur c') = sender (ecur c) /\ forall x, In x (ctxs c') -> In x (ctxs c)) /\
  (forall pre b post b', batch = pre ++ b :: post -> In b' post -> sender b' = sender b -> (nonce b' <= nonce b)%N).
Proof.
  revert cs batch cs'; induction k as [|k IH]; intros cs batch cs' Hok H; simpl in H.
  - inversion H; subst. split; [exact Hok|]. split; [intros b []|]. split.
    + intros c' Hc'. exists c'. split; [exact Hc'|]. split; [reflexivity|auto].
    + intros pre b post b' E. destruct pre; discriminate.
  - destruct (worst_index cs 0 None) as [i|] eqn:Ew.
    2:{ inversion H; subst. split; [exact Hok|]. split; [intros b []|]. split.
        - intros c' Hc'. exists c'. split; [exact Hc'|]. split; [reflexivity|auto].
        - intros pre b post b' E. destruct pre; discriminate. }
    destruct (take_nth i cs) as [(c, others)|] eqn:Et.
    2:{ inversion H; subst. split; [exact Hok|]. split; [intros b []|]. split.
        - intros c' Hc'. exists c'. split; [exact Hc'|]. split; [reflexivity|auto].
        - intros pre b post b' E. destruct pre; discriminate. }
    destruct (take_nth_spec _ _ _ _ Et) as (l1 & l2 & Ecs & Eo).
    destruct Hok as (Hdeep & Hnd).
    assert (Hc : In c cs) by (rewrite Ecs; apply in_or_app; right; left; reflexivity).
    assert (Hothers : forall c0, In c0 others -> In c0 cs).
    { intros c0 H0. rewrite Ecs. rewrite Eo in H0. apply in_app_or in H0. apply in_or_app. destruct H0; [left|right; right]; assumption. }
    assert (Hnd' : NoDup (map (fun c => sender (ecur c)) others) /\ ~ In (sender (ecur c)) (map (fun c => sender (ecur c)) others)).
    { rewrite Ecs, map_app in Hnd. simpl in Hnd. rewrite Eo, map_app. split; [eapply NoDup_remove_1|eapply NoDup_remove_2]; eassumption. }
    destruct Hnd' as (Hnd1 & Hnd2).
    set (cs1 := match erest c with [] => others | t :: r => mkEc t r :: others end) in *.
    assert (Hok1 : cursors_ok cs1 /\ (forall c1, In c1 cs1 -> exists c0, In c0 cs /\ sender (ecur c1) = sender (ecur c0) /\ forall x, In x (ctxs c1) -> In x (ctxs c0))
                   /\ (forall c1, In c1 cs1 -> sender (ecur c1) = sender (ecur c) -> forall x, In x (ctxs c1) -> (nonce x <= nonce (ecur c))%N)).
    { unfold cs1. destruct (erest c) as [|t r] eqn:Er.
      - split; [split; [intros c0 H0; apply Hdeep; auto|exact Hnd1]|]. split.
        + intros c1 H1. exists c1. split; [auto|]. split; [reflexivity|auto].
        + intros c1 H1 Es. exfalso. apply Hnd2. rewrite <- Es. apply (in_map (fun c => sender (ecur c))). exact H1.
      - destruct (cwf_deep_advance c t r (Hdeep c Hc) Er) as (Hd & Est).
        split; [split|split].
        + intros c0 [<-|H0]; [exact Hd|apply Hdeep; auto].
        + simpl. constructor; [rewrite Est; exact Hnd2|exact Hnd1].
        + intros c1 [<-|H1].
          * exists c. split; [exact Hc|]. split; [exact Est|]. intros x Hx. unfold ctxs in *. simpl in Hx. rewrite Er. right. exact Hx.
          * exists c1. split; [auto|]. split; [reflexivity|auto].
        + intros c1 [<-|H1] Es x Hx.
          * apply (cwf_deep_cwf c (Hdeep c Hc)). rewrite Er. exact Hx.
          * exfalso. apply Hnd2. rewrite <- Es. apply (in_map (fun c => sender (ecur c))). exact H1. }
    destruct Hok1 as (Hok1 & Hfrom1 & Hle1).
    destruct (take_batch k cs1) as (b1, cs2) eqn:Etb. inversion H; subst batch cs'. clear H.
    destruct (IH cs1 b1 cs2 Hok1 Etb) as (I1 & I2 & I3 & I4).
    split; [exact I1|]. split; [|split].
    + intros b [<-|Hb]; [exists c; split; [exact Hc|left; reflexivity]|].
      destruct (I2 b Hb) as (c1 & Hc1 & Hin1). destruct (Hfrom1 c1 Hc1) as (c0 & Hc0 & _ & Hsub). exists c0. auto.
    + intros c' Hc'. destruct (I3 c' Hc') as (c1 & Hc1 & Es1 & Hsub1). destruct (Hfrom1 c1 Hc1) as (c0 & Hc0 & Es0 & Hsub0).
      exists c0. split; [exact Hc0|]. split; [congruence|auto].
    + intros pre b post b' E Hb' Es. destruct pre as [|y pre]; simpl in E; inversion E; subst.
      * destruct (I2 b' Hb') as (c1 & Hc1 & Hin1).
        assert (Es1 : sender (ecur c1) = sender (ecur c)).
        { destruct (Hok1) as (Hd1 & _). pose proof (Hd1 c1 Hc1) as Hd. unfold cwf_deep, ctxs in Hd.
          destruct Hin1 as [<-|Hin1]; [exact Es|]. inversion Hd as [|? ? _ Hall]; subst. rewrite Forall_forall in Hall.
          destruct (Hall b' Hin1) as (A & _). congruence. }
        apply (Hle1 c1 Hc1 Es1 b' Hin1).
      * eapply I4; eauto.
Qed.

Lemma lowest_keep batch acc s : (forall b, In b batch -> sender b <> s) -> alookup (lowest_by_sender batch acc) s = alookup acc s.
Proof.
  revert acc; induction batch as [|x r IH]; intros acc H; simpl; [reflexivity|].
  rewrite IH by (intros b Hb; apply H; right; exact Hb). rewrite alookup_aset.
  destruct (beqb_spec (sender x) s) as [E|]; [exfalso; apply (H x); [left; reflexivity|exact E]|reflexivity].
Qed.

Lemma lowest_spec batch acc :
  (forall pre b post b', batch = pre ++ b :: post -> In b' post -> sender b' = sender b -> (nonce b' <= nonce b)%N) ->
  forall b, In b batch -> exists n, alookup (lowest_by_sender batch acc) (sender b) = Some n /\ (n <= nonce b)%N.
Proof.
  revert acc; induction batch as [|x r IH]; intros acc Hdesc b Hb; [destruct Hb|]. simpl.
  assert (Hdesc' : forall pre b post b', r = pre ++ b :: post -> In b' post -> sender b' = sender b -> (nonce b' <= nonce b)%N).
  { intros pre b0 post b' E. apply (Hdesc (x :: pre) b0 post b'). rewrite E. reflexivity. }
  destruct Hb as [<-|Hb]; [|apply IH; assumption].
  destruct (existsb (fun y => beqb (sender y) (sender x)) r) eqn:Eex.
  - apply existsb_exists in Eex. destruct Eex as (y & Hy & Ey). apply beqb_eq in Ey.
    destruct (IH (aset acc (sender x) (nonce x)) Hdesc' y Hy) as (n & Hn & Hle). exists n. split; [rewrite <- Ey at 2; exact Hn|].
    assert ((nonce y <= nonce x)%N) by (apply (Hdesc [] x r y eq_refl Hy Ey)). lia.
  - exists (nonce x). split; [|lia]. rewrite lowest_keep.
    + rewrite alookup_aset, beqb_refl. reflexivity.
    + intros y Hy E. assert (existsb (fun y => beqb (sender y) (sender x)) r = true); [|congruence].
      apply existsb_exists. exists y. split; [exact Hy|apply beqb_eq; exact E].
Qed.

Lemma rsorted_desc rl a : rsorted rl -> (forall x, In x rl -> sender x = a) ->
  StronglySorted (fun u v => sender v = sender u /\ (nonce v <= nonce u)%N) rl.
Proof.
  induction 1 as [|x rl Hs IH Hall]; intros Hsnd; constructor.
  - apply IH. intros y Hy. apply Hsnd. right. exact Hy.
  - rewrite Forall_forall in Hall |- *. intros y Hy. split.
    + rewrite (Hsnd y (or_intror Hy)), (Hsnd x (or_introl eq_refl)). reflexivity.
    + apply precedes_nonce. apply Hall. exact Hy.
Qed.

Lemma mk_ecursors_spec ss :
  NoDup (map fst ss) -> (forall a sl, In (a, sl) ss -> list_ok a sl) ->
  (forall c, In c (mk_ecursors ss) -> cwf_deep c /\ exists a sl, In (a, sl) ss /\ sender (ecur c) = a /\ forall x, In x (ctxs c) -> In x (items sl)) /\
  NoDup (map (fun c => sender (ecur c)) (mk_ecursors ss)) /\
  (forall s, In s (map (fun c => sender (ecur c)) (mk_ecursors ss)) -> In s (map fst ss)).
Proof.
  induction ss as [|(a, sl) ss IH]; intros Hnd Hok; simpl.
  - split; [intros c []|]. split; [constructor|intros s []].
  - inversion Hnd; subst. destruct (IH H2 (fun a0 sl0 H => Hok a0 sl0 (or_intror H))) as (I1 & I2 & I3).
    destruct (Hok a sl (or_introl eq_refl)) as (Hne & Hsorted & Hsnd & _).
    destruct (rev (items sl)) as [|t rr] eqn:Er.
    + split; [|split; [exact I2|intros s Hs; right; apply I3; exact Hs]].
      intros c Hc. destruct (I1 c Hc) as (A & a0 & sl0 & B & C). split; [exact A|]. exists a0, sl0. split; [right; exact B|exact C].
    + assert (Hin_rev : forall x, In x (t :: rr) -> In x (items sl)) by (intros x Hx; apply in_rev; rewrite Er; exact Hx).
      assert (Est : sender t = a) by (apply Hsnd, Hin_rev; left; reflexivity).
      split; [|split].
      * intros c [<-|Hc].
        -- split.
           ++ unfold cwf_deep, ctxs. simpl. rewrite <- Er. apply (rsorted_desc _ a); [apply sorted_rev; exact Hsorted|].
              intros x Hx. apply Hsnd. apply in_rev. exact Hx.
           ++ exists a, sl. split; [left; reflexivity|]. split; [exact Est|exact Hin_rev].
        -- destruct (I1 c Hc) as (A & a0 & sl0 & B & C). split; [exact A|]. exists a0, sl0. split; [right; exact B|exact C].
      * simpl. constructor; [|exact I2]. rewrite Est. intros Hin. apply H1. apply I3. exact Hin.
      * simpl. intros s [<-|Hs]; [left; symmetry; exact Est|right; apply I3; exact Hs].
Qed.

Definition pass_inv (P0 : pool) (cs : list ecursor) (p : pool) : Prop :=
  Inv p /\ sub_pool p P0 /\ cursors_ok cs /\ (forall c x, In c cs -> In x (ctxs c) -> listed P0 x).

Lemma pass_inv_init p : Inv p -> pass_inv p (mk_ecursors (senders p)) p.
Proof.
  intros HI. pose proof HI as (HB & (Hnd & Hok & Hcnt) & HL).
  destruct (mk_ecursors_spec (senders p) Hnd) as (I1 & I2 & _).
  { intros a sl Hin. apply Hok. apply In_alookup; assumption. }
  split; [exact HI|]. split; [apply sub_pool_refl|]. split.
  - split; [intros c Hc; apply (I1 c Hc)|exact I2].
  - intros c x Hc Hx. destruct (I1 c Hc) as (_ & a & sl & Hin & Ea & Hsub).
    exists sl. assert (Hl : alookup (senders p) a = Some sl) by (apply In_alookup; assumption).
    destruct (Hok _ _ Hl) as (_ & _ & Hsnd & _). rewrite (proj1 (Hsnd x (Hsub x Hx))). auto.
Qed.

(** one eviction pass preserves the invariant *)
Lemma pass_step cfg P0 cs p batch cs' : Inv P0 -> pass_inv P0 cs p ->
  take_batch (numItemsToPreemptivelyEvict cfg) cs = (batch, cs') ->
  let p1 := fold_left (fun q sn => evict_sender_suffix q (fst sn) (snd sn)) (lowest_by_sender batch []) p in
  let p2 := byhash_remove_bulk p1 (map hash batch) in
  pass_inv P0 cs' p2 /\ (forall b, In b batch -> ~ listed p2 b) /\ sub_pool p2 p.
Proof.
  intros HI0 (HI & Hsub & Hcs & Hcl) Htb. cbv zeta.
  destruct (take_batch_spec _ _ _ _ Hcs Htb) as (T1 & T2 & T3 & T4).
  destruct (Inv_evict_fold p (lowest_by_sender batch []) HI) as (F1 & F2 & F3).
  set (p1 := fold_left (fun q sn => evict_sender_suffix q (fst sn) (snd sn)) (lowest_by_sender batch []) p) in *.
  pose proof F1 as (HB1 & HS1 & HL1).
  destruct (BH_remove_bulk p1 (map hash batch) HB1) as (C1 & C2 & C3 & C4).
  assert (Hnotlisted : forall b, In b batch -> ~ listed p1 b).
  { intros b Hb Hl. destruct (lowest_spec batch [] T4 b Hb) as (n & Hn & Hle).
    apply alookup_In in Hn. pose proof (F3 _ _ b Hn Hl eq_refl). lia. }
  assert (Hnone : forall b, In b batch -> alookup (byHash p1) (hash b) = None).
  { intros b Hb. destruct (alookup (byHash p1) (hash b)) as [x|] eqn:E; [|reflexivity]. exfalso.
    assert (Ehx : hash x = hash b) by (apply HB1; exact E).
    assert (Hlx : listed p1 x) by (apply HL1; rewrite Ehx; exact E).
    assert (Hlb0 : listed P0 b) by (destruct (T2 b Hb) as (c & Hc & Hin); eapply Hcl; eassumption).
    assert (x = b) by (apply (listed_hash_inj P0); [exact HI0|apply Hsub, F2, Hlx|exact Hlb0|exact Ehx]).
    subst x. exact (Hnotlisted b Hb Hlx). }
  assert (Hsame : forall h, alookup (byHash (byhash_remove_bulk p1 (map hash batch))) h = alookup (byHash p1) h).
  { intros h. rewrite C4. destruct (existsb (fun g => beqb g h) (map hash batch)) eqn:E; [|reflexivity].
    apply existsb_beqb_in in E. apply in_map_iff in E. destruct E as (b & <- & Hb). symmetry. apply Hnone. exact Hb. }
  assert (HI2 : Inv (byhash_remove_bulk p1 (map hash batch))) by (eapply Inv_lookup_ext; eauto).
  split; [|split].
  - split; [exact HI2|]. split; [|split; [exact T1|]].
    + intros x Hx. apply (listed_congr _ _ x C2) in Hx. apply Hsub, F2, Hx.
    + intros c' x Hc' Hx. destruct (T3 c' Hc') as (c & Hc & _ & Hs). eapply Hcl; [exact Hc|apply Hs; exact Hx].
  - intros b Hb Hl. apply (listed_congr _ _ b C2) in Hl. exact (Hnotlisted b Hb Hl).
  - intros x Hx. apply (listed_congr _ _ x C2) in Hx. apply F2. exact Hx.
Qed.

Lemma evict_passes_inv cfg P0 fuel cs p : Inv P0 -> pass_inv P0 cs p ->
  Inv (evict_passes cfg fuel cs p) /\ sub_pool (evict_passes cfg fuel cs p) P0.
Proof.
  intros HI0. revert cs p; induction fuel as [|f IH]; intros cs p HP; simpl.
  - split; [apply HP|apply HP].
  - destruct (capacity_exceeded cfg p); [|split; apply HP].
    destruct (take_batch (numItemsToPreemptivelyEvict cfg) cs) as (batch, cs') eqn:Etb.
    destruct batch as [|b0 batch]; [split; apply HP|].
    destruct (pass_step cfg P0 cs p _ _ HI0 HP Etb) as (HP' & _). apply IH. exact HP'.
Qed.

(** doEviction preserves the invariant and only removes *)
Lemma Inv_do_eviction cfg p : Inv p -> Inv (do_eviction cfg p) /\ sub_pool (do_eviction cfg p) p.
Proof.
  intros HI. unfold do_eviction. destruct (capacity_exceeded cfg p); [|split; [exact HI|apply sub_pool_refl]].
  apply evict_passes_inv; [exact HI|apply pass_inv_init; exact HI].
Qed.

(** ---------- every operation preserves the invariant ---------- *)

Lemma sub_pool_agrees p q t : Inv p -> Inv q -> sub_pool q p -> agrees p t -> agrees q t.
Proof.
  intros HIp HIq Hsub Hag t' Ht'. apply Hag.
  destruct HIq as (HBq & _ & HLq). assert (hash t' = hash t) by (apply HBq; exact Ht').
  assert (Hl : listed q t') by (apply HLq; rewrite H; exact Ht'). apply Hsub in Hl.
  destruct HIp as (_ & _ & HLp). apply HLp in Hl. rewrite H in Hl. exact Hl.
Qed.

Lemma Inv_add_tx cfg p t : Inv p -> agrees p t -> tx_wf t -> Inv (fst (add_tx cfg p t)).
Proof.
  intros HI Hag Hwf. unfold add_tx. destruct (evictionEnabled cfg).
  - destruct (Inv_do_eviction cfg p HI) as (HI' & Hsub). apply Inv_add_core; [exact HI'| |exact Hwf].
    apply (sub_pool_agrees p); assumption.
  - apply Inv_add_core; assumption.
Qed.

(** ---------- histories ---------- *)

(** "hash determines content" and uint64 nonces, for the transactions a history adds *)
Definition hist_ok (ops : list pop) : Prop :=
  (forall t t', In t (added_txs ops) -> In t' (added_txs ops) -> hash t = hash t' -> t = t') /\
  (forall t, In t (added_txs ops) -> tx_wf t).

Definition lookup_sub (q p : pool) : Prop := forall h x, alookup (byHash q) h = Some x -> alookup (byHash p) h = Some x.

Lemma lookup_sub_remove_bulk p hs : BH p -> lookup_sub (byhash_remove_bulk p hs) p.
Proof.
  intros HB h x. destruct (BH_remove_bulk p hs HB) as (_ & _ & _ & C4). rewrite C4.
  destruct (existsb _ hs); [discriminate|auto].
Qed.

Lemma add_core_lookup cfg p t h x : BH p ->
  alookup (byHash (fst (add_core cfg p t))) h = Some x -> x = t \/ alookup (byHash p) h = Some x.
Proof.
  intros HB. unfold add_core. destruct (BH_add p t HB) as (A1 & A2 & A3 & A4 & A5).
  destruct (byhash_add p t) as (p1, addedH). simpl in A1, A4.
  assert (H1 : forall h x, alookup (byHash p1) h = Some x -> x = t \/ alookup (byHash p) h = Some x).
  { intros h0 x0. rewrite A4. destruct (alookup (byHash p) (hash t)); [auto|]. destruct (beqb (hash t) h0); [intros E; inversion E; auto|auto]. }
  cbv beta iota.
  set (p2sl := match alookup (senders p1) (sender t) with
               | Some sl => (p1, sl)
               | None => (set_senders p1 (senders p1 ++ [(sender t, empty_slist)]) (cntSenders p1 + 1), empty_slist)
               end).
  assert (E2 : byHash (fst p2sl) = byHash p1 /\ cntTx (fst p2sl) = cntTx p1 /\ numBytes (fst p2sl) = numBytes p1).
  { unfold p2sl. destruct (alookup (senders p1) (sender t)); simpl; auto. }
  destruct p2sl as (p2, sl). simpl in E2. destruct E2 as (E2a & E2b & E2c).
  destruct (sl_add cfg sl t) as ((sl', addedS), ev). cbv zeta.
  set (p3 := set_senders p2 (aset (senders p2) (sender t) sl') (cntSenders p2)).
  assert (HB3 : BH p3) by (eapply BH_congr; [| | |exact A1]; unfold p3; simpl; assumption).
  destruct ev as [|e ev]; cbn [fst].
  - unfold p3; simpl. rewrite E2a. apply H1.
  - destruct (remove_sender_if_empty_byHash p3 (sender t)) as (R1 & R2 & R3).
    assert (HB4 : BH (remove_sender_if_empty p3 (sender t))) by (eapply BH_congr; eauto).
    intros Hl. apply (lookup_sub_remove_bulk _ _ HB4) in Hl. rewrite R1 in Hl. unfold p3 in Hl; simpl in Hl.
    rewrite E2a in Hl. apply H1. exact Hl.
Qed.

Lemma remove_tx_lookup p h : BH p -> lookup_sub (fst (remove_tx p h)) p.
Proof.
  intros HB. unfold remove_tx. destruct (BH_remove p h HB) as (B1 & B2 & B3 & B4 & B5).
  destruct (byhash_remove p h) as (p1, ot). simpl in *. subst ot.
  assert (H1 : lookup_sub p1 p). { intros h0 x0. rewrite B4. destruct (beqb h h0); [discriminate|auto]. }
  destruct (alookup (byHash p) h) as [t|]; [|intros h0 x0 H; exact H].
  destruct (alookup (senders p1) (sender t)) as [sl|]; [|exact H1].
  destruct (sl_remove_leq sl (nonce t)) as (sl', ev). cbn [fst].
  set (p3 := remove_sender_if_empty (set_senders p1 (aset (senders p1) (sender t) sl') (cntSenders p1)) (sender t)).
  destruct (remove_sender_if_empty_byHash (set_senders p1 (aset (senders p1) (sender t) sl') (cntSenders p1)) (sender t)) as (R1 & R2 & R3).
  assert (HB3 : BH p3) by (eapply BH_congr; [exact R1|exact R2|exact R3|]; eapply BH_congr; [| | |exact B1]; reflexivity).
  destruct ev as [|e ev].
  - intros h0 x0 Hl. unfold p3 in Hl. rewrite R1 in Hl. simpl in Hl. apply H1. exact Hl.
  - intros h0 x0 Hl. apply (lookup_sub_remove_bulk _ _ HB3) in Hl. unfold p3 in Hl. rewrite R1 in Hl. simpl in Hl. apply H1. exact Hl.
Qed.

Lemma do_eviction_lookup cfg p : Inv p -> lookup_sub (do_eviction cfg p) p.
Proof.
  intros HI h x Hl. destruct (Inv_do_eviction cfg p HI) as ((HBq & _ & HLq) & Hsub).
  assert (hash x = h) by (apply HBq; exact Hl). subst h.
  apply HLq in Hl. apply Hsub in Hl. destruct HI as (_ & _ & HL). apply HL. exact Hl.
Qed.

(** the invariant together with: every pooled transaction is one the history added *)
Definition Inv2 (adds : list tx) (p : pool) : Prop :=
  Inv p /\ forall h x, alookup (byHash p) h = Some x -> In x adds.

Lemma added_txs_app a b : added_txs (a ++ b) = added_txs a ++ added_txs b.
Proof. induction a as [|o a IH]; simpl; [reflexivity|]. destruct o; simpl; rewrite IH; reflexivity. Qed.

Lemma run_pool_snoc cfg ops o : run_pool cfg (ops ++ [o]) = pstep cfg (run_pool cfg ops) o.
Proof. unfold run_pool. rewrite fold_left_app. reflexivity. Qed.

Lemma hist_ok_prefix a b : hist_ok (a ++ b) -> hist_ok a.
Proof.
  intros (H1 & H2). split.
  - intros t t' Ht Ht'. apply H1; rewrite added_txs_app; apply in_or_app; left; assumption.
  - intros t Ht. apply H2. rewrite added_txs_app; apply in_or_app; left; assumption.
Qed.

Theorem run_pool_inv2 cfg ops : hist_ok ops -> Inv2 (added_txs ops) (run_pool cfg ops).
Proof.
  induction ops as [|o ops IH] using rev_ind; intros Hok.
  - split; [exact Inv_empty|]. intros h x H. discriminate.
  - specialize (IH (hist_ok_prefix _ _ Hok)). destruct IH as (HI & Hadds).
    rewrite run_pool_snoc, added_txs_app. destruct o as [t|h| |sess g m]; simpl.
    + assert (Hag : agrees (run_pool cfg ops) t).
      { intros t' Ht'. destruct Hok as (Hinj & _). apply Hinj.
        - rewrite added_txs_app. apply in_or_app. left. eapply Hadds. exact Ht'.
        - rewrite added_txs_app. apply in_or_app. right. left. reflexivity.
        - destruct HI as ((_ & Hh & _) & _). apply Hh. exact Ht'. }
      assert (Hwf : tx_wf t).
      { destruct Hok as (_ & Hwf). apply Hwf. rewrite added_txs_app. apply in_or_app. right. left. reflexivity. }
      split; [apply Inv_add_tx; assumption|].
      intros h x Hl. apply in_or_app. unfold add_tx in Hl.
      assert (Hbase : forall q, Inv q -> lookup_sub q (run_pool cfg ops) -> alookup (byHash (fst (add_core cfg q t))) h = Some x ->
                      In x (added_txs ops) \/ In x [t]).
      { intros q HIq Hs Hlq. apply add_core_lookup in Hlq; [|apply HIq]. destruct Hlq as [->|Hlq]; [right; left; reflexivity|].
        left. eapply Hadds. apply Hs. exact Hlq. }
      destruct (evictionEnabled cfg).
      * apply (Hbase (do_eviction cfg (run_pool cfg ops))); [apply Inv_do_eviction; exact HI|apply do_eviction_lookup; exact HI|exact Hl].
      * apply (Hbase (run_pool cfg ops)); [exact HI|intros h0 x0 H0; exact H0|exact Hl].
    + rewrite app_nil_r. split; [apply Inv_remove_tx; exact HI|].
      intros h0 x Hl. apply remove_tx_lookup in Hl; [|apply HI]. eapply Hadds. exact Hl.
    + rewrite app_nil_r. split; [exact Inv_empty|]. intros h0 x H. discriminate.
    + rewrite app_nil_r. split; assumption.
Qed.

Theorem run_pool_inv cfg ops : hist_ok ops -> Inv (run_pool cfg ops).
Proof. intros H. apply (run_pool_inv2 cfg ops H). Qed.
