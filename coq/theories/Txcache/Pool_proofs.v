(** The mempool invariant (C05) and what follows from it (C04, C06, C07, reachability for C01). *)
From Coq Require Import List NArith ZArith Lia Bool Permutation Sorting.Sorted ZifyN ZifyNat ZifyBool.
From Verif Require Import Base.BStr Base.ListX Txcache.TxTypes Txcache.SenderList Txcache.Selection Txcache.Pool
  Txcache.SenderList_proofs.
Import ListNotations.
Open Scope Z_scope.

(** ---------- association lists ---------- *)

Section Assoc.
  Context {V : Type}.
  Implicit Types (l : list (bytes * V)).

  Lemma alookup_aset l k v k' : alookup (aset l k v) k' = if beqb k k' then Some v else alookup l k'.
  Proof.
    induction l as [|(k0, v0) l IH]; simpl.
    - reflexivity.
    - destruct (beqb_spec k0 k) as [->|Hne]; simpl.
      + destruct (beqb k k'); reflexivity.
      + destruct (beqb_spec k0 k') as [->|Hne'].
        * destruct (beqb_spec k k') as [->|]; [contradiction|reflexivity].
        * exact IH.
  Qed.

  Lemma alookup_None l k : alookup l k = None <-> ~ In k (map fst l).
  Proof.
    induction l as [|(k0, v0) l IH]; simpl; [tauto|].
    destruct (beqb_spec k0 k) as [->|Hne]; [split; [discriminate|intros H; exfalso; apply H; left; reflexivity]|].
    rewrite IH. split; [intros H [E|E]; [contradiction|exact (H E)]|tauto].
  Qed.

  Lemma alookup_In l k v : alookup l k = Some v -> In (k, v) l.
  Proof.
    induction l as [|(k0, v0) l IH]; simpl; [discriminate|].
    destruct (beqb_spec k0 k) as [->|Hne]; [intros E; inversion E; left; reflexivity|intros E; right; exact (IH E)].
  Qed.

  Lemma In_alookup l k v : NoDup (map fst l) -> In (k, v) l -> alookup l k = Some v.
  Proof.
    induction l as [|(k0, v0) l IH]; simpl; intros Hnd Hin; [destruct Hin|].
    inversion Hnd; subst. destruct Hin as [E|Hin].
    - inversion E; subst. rewrite beqb_refl. reflexivity.
    - destruct (beqb_spec k0 k) as [->|Hne]; [exfalso; apply H1; apply (in_map fst) in Hin; exact Hin|].
      apply IH; assumption.
  Qed.

  Lemma aremove_keys_sub l k x : In x (map fst (aremove l k)) -> In x (map fst l).
  Proof.
    induction l as [|(k0, v0) l IH]; simpl; [tauto|].
    destruct (beqb k0 k); simpl; [tauto|]. intros [E|H]; [left; exact E|right; exact (IH H)].
  Qed.

  Lemma aremove_NoDup l k : NoDup (map fst l) -> NoDup (map fst (aremove l k)).
  Proof.
    induction l as [|(k0, v0) l IH]; simpl; intros H; [constructor|].
    inversion H; subst. destruct (beqb k0 k); [assumption|]. simpl. constructor; [|apply IH; assumption].
    intros Hin. apply H2. eapply aremove_keys_sub. exact Hin.
  Qed.

  Lemma alookup_aremove l k k' : NoDup (map fst l) ->
    alookup (aremove l k) k' = if beqb k k' then None else alookup l k'.
  Proof.
    induction l as [|(k0, v0) l IH]; simpl; intros Hnd.
    - destruct (beqb k k'); reflexivity.
    - inversion Hnd; subst. destruct (beqb_spec k0 k) as [->|Hne].
      + destruct (beqb_spec k k') as [->|Hne']; [apply alookup_None; assumption|reflexivity].
      + simpl. destruct (beqb_spec k0 k') as [->|Hne'].
        * destruct (beqb_spec k k') as [->|]; [contradiction|reflexivity].
        * apply IH. assumption.
  Qed.

  Lemma aremove_length l k v : alookup l k = Some v -> length l = S (length (aremove l k)).
  Proof.
    induction l as [|(k0, v0) l IH]; simpl; [discriminate|].
    destruct (beqb k0 k); [reflexivity|]. intros H. simpl. f_equal. apply IH. exact H.
  Qed.

  Lemma aset_keys_present l k v v0 : alookup l k = Some v0 -> map fst (aset l k v) = map fst l.
  Proof.
    induction l as [|(k0, v1) l IH]; simpl; [discriminate|].
    destruct (beqb_spec k0 k) as [->|Hne]; [reflexivity|]. intros H. simpl. f_equal. apply IH. exact H.
  Qed.

  Lemma aset_length_present l k v v0 : alookup l k = Some v0 -> length (aset l k v) = length l.
  Proof. intros H. rewrite <- (map_length fst), (aset_keys_present _ _ _ _ H), map_length. reflexivity. Qed.

  Lemma alookup_snoc l k v k' : alookup l k = None ->
    alookup (l ++ [(k, v)]) k' = if beqb k k' then Some v else alookup l k'.
  Proof.
    induction l as [|(k0, v0) l IH]; simpl; intros H.
    - destruct (beqb k k'); reflexivity.
    - destruct (beqb_spec k0 k) as [->|Hne]; [discriminate|].
      destruct (beqb_spec k0 k') as [->|Hne'].
      + destruct (beqb_spec k k') as [->|]; [contradiction|reflexivity].
      + apply IH. exact H.
  Qed.
End Assoc.

(** ---------- the hash index, on its own ---------- *)

Definition sum_sz (l : list (bytes * tx)) : Z := fold_right (fun e a => size (snd e) + a) 0 l.

Definition BH (p : pool) : Prop :=
  NoDup (map fst (byHash p)) /\
  (forall h t, alookup (byHash p) h = Some t -> hash t = h) /\
  cntTx p = Z.of_nat (length (byHash p)) /\
  numBytes p = sum_sz (byHash p).

Lemma sum_sz_aremove l h t : alookup l h = Some t -> sum_sz l = size t + sum_sz (aremove l h).
Proof.
  induction l as [|(k0, v0) l IH]; simpl; [discriminate|].
  destruct (beqb k0 h); [intros E; inversion E; subst; reflexivity|].
  intros H. simpl. rewrite (IH H). lia.
Qed.

Lemma BH_add p t : BH p -> BH (fst (byhash_add p t)) /\ senders (fst (byhash_add p t)) = senders p /\
  cntSenders (fst (byhash_add p t)) = cntSenders p /\
  (forall h, alookup (byHash (fst (byhash_add p t))) h =
             match alookup (byHash p) (hash t) with
             | Some _ => alookup (byHash p) h
             | None => if beqb (hash t) h then Some t else alookup (byHash p) h
             end) /\
  snd (byhash_add p t) = match alookup (byHash p) (hash t) with Some _ => false | None => true end.
Proof.
  intros (H1 & H2 & H3 & H4). unfold byhash_add. destruct (alookup (byHash p) (hash t)) as [t0|] eqn:E; simpl.
  - repeat split; auto.
  - split; [|repeat split; reflexivity]. split; [|split; [|split]]; simpl.
    + constructor; [apply alookup_None; exact E|exact H1].
    + intros h t1. destruct (beqb_spec (hash t) h) as [<-|Hne]; [intros E1; inversion E1; reflexivity|apply H2].
    + rewrite H3. lia.
    + rewrite H4. unfold sum_sz. simpl. lia.
Qed.

Lemma BH_remove p h : BH p -> BH (fst (byhash_remove p h)) /\ senders (fst (byhash_remove p h)) = senders p /\
  cntSenders (fst (byhash_remove p h)) = cntSenders p /\
  (forall h', alookup (byHash (fst (byhash_remove p h))) h' = if beqb h h' then None else alookup (byHash p) h') /\
  snd (byhash_remove p h) = alookup (byHash p) h.
Proof.
  intros (H1 & H2 & H3 & H4). unfold byhash_remove. destruct (alookup (byHash p) h) as [t|] eqn:E; simpl.
  - split; [|repeat split; try reflexivity; intros h'; apply alookup_aremove; exact H1].
    split; [apply aremove_NoDup; exact H1|]. split; [|split].
    + simpl. intros h' t'. rewrite alookup_aremove by exact H1. destruct (beqb h h'); [discriminate|apply H2].
    + simpl. rewrite H3, (aremove_length _ _ _ E). lia.
    + simpl. rewrite H4, (sum_sz_aremove _ _ _ E). lia.
  - split; [repeat split; assumption|]. repeat split; try reflexivity.
    intros h'. destruct (beqb_spec h h') as [<-|]; [exact E|reflexivity].
Qed.

Lemma BH_remove_bulk p hs : BH p -> BH (byhash_remove_bulk p hs) /\ senders (byhash_remove_bulk p hs) = senders p /\
  cntSenders (byhash_remove_bulk p hs) = cntSenders p /\
  (forall h', alookup (byHash (byhash_remove_bulk p hs)) h' = if existsb (fun h => beqb h h') hs then None else alookup (byHash p) h').
Proof.
  revert p; induction hs as [|h hs IH]; intros p H; simpl.
  - repeat split; try apply H; reflexivity.
  - destruct (BH_remove p h H) as (B1 & B2 & B3 & B4 & _). unfold byhash_remove_bulk. simpl.
    destruct (IH _ B1) as (C1 & C2 & C3 & C4). unfold byhash_remove_bulk in *.
    split; [exact C1|]. split; [rewrite C2; exact B2|]. split; [rewrite C3; exact B3|].
    intros h'. rewrite C4, B4. destruct (beqb h h'); simpl; [destruct (existsb _ hs); reflexivity|reflexivity].
Qed.
