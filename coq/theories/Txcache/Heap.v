(** Go's [container/heap] (GOROOT/src/container/heap/heap.go), transcribed over a [list A] used as the
    slice [transactionsHeap.items] (txcache/transactionsHeap.go), generic in the element type and in the
    boolean [less] (for the selection max-heap [less a b = more_valuable (cur a) (cur b)], for the eviction
    min-heap the converse).  Definitions only; the lemmas are in Heap_proofs.v.

    Correspondence with heap.go / transactionsHeap.go:
      h.Len()          [length l]
      h.Less(i, j)     [less_at l i j]   (h.less(i, j) applied to items[i], items[j])
      h.Swap(i, j)     [swap l i j]
      h.Push(x)        [l ++ [x]]        (append)
      h.Pop()          [nth_error l (n-1)], [firstn (n-1) l]
      up / down        [up_fuel] / [down_fuel]: the [for { ... }] loops with explicit fuel; [None] is the
                       out-of-fuel result, excluded by [up_fuel_enough] / [down_fuel_enough] for the fuel that
                       [up] / [down] supply
      Init, Push, Pop  [init], [push], [pop]
    Indices are [nat]: Go's [(j - 1) / 2] on [int] truncates toward zero, so for [j = 0] it is [0], as
    [(0 - 1) / 2] in [nat]; the test [j1 < 0] (int overflow of [2*i+1]) cannot fire for a slice whose length is
    below 2^62 and has no counterpart here.  An out-of-range index makes Go panic; here [less_at] answers
    [false] and [swap] leaves the list unchanged (never reached from [init]/[push]/[pop], see
    [pop] for the empty heap).  [down]'s boolean result (used only by Remove/Fix, which the mempool does not
    call) is not modelled. *)
From Coq Require Import List Arith Bool.
From Verif Require Import Txcache.TxTypes Txcache.Selection Txcache.Pool.
Import ListNotations.
Open Scope nat_scope.

Section Heap.
  Context {A : Type}.
  Variable less : A -> A -> bool.

  (** items[i] = x *)
  Fixpoint set_nth (l : list A) (i : nat) (x : A) : list A :=
    match l, i with
    | [], _ => []
    | _ :: r, O => x :: r
    | y :: r, S k => y :: set_nth r k x
    end.

  (** h.Swap(i, j): items[i], items[j] = items[j], items[i] *)
  Definition swap (l : list A) (i j : nat) : list A :=
    match nth_error l i, nth_error l j with
    | Some a, Some b => set_nth (set_nth l i b) j a
    | _, _ => l
    end.

  Definition less_opt (a b : option A) : bool :=
    match a, b with Some x, Some y => less x y | _, _ => false end.

  (** h.Less(i, j) *)
  Definition less_at (l : list A) (i j : nat) : bool := less_opt (nth_error l i) (nth_error l j).

  Definition parent (j : nat) : nat := (j - 1) / 2.

  (** func up(h, j): for { i := (j-1)/2; if i == j || !h.Less(j, i) { break }; h.Swap(i, j); j = i } *)
  Fixpoint up_fuel (fuel : nat) (l : list A) (j : nat) : option (list A) :=
    match fuel with
    | O => None
    | S f =>
        let i := parent j in
        if (i =? j) || negb (less_at l j i) then Some l
        else up_fuel f (swap l i j) i
    end.

  Definition up (l : list A) (j : nat) : list A :=
    match up_fuel (S j) l j with Some l' => l' | None => l end.

  (** func down(h, i0, n): for { j1 := 2*i+1; if j1 >= n || j1 < 0 { break }; j := j1;
        if j2 := j1+1; j2 < n && h.Less(j2, j1) { j = j2 }; if !h.Less(j, i) { break }; h.Swap(i, j); i = j } *)
  Fixpoint down_fuel (fuel : nat) (l : list A) (i n : nat) : option (list A) :=
    match fuel with
    | O => None
    | S f =>
        let j1 := 2 * i + 1 in
        if n <=? j1 then Some l
        else
          let j2 := j1 + 1 in
          let j := if (j2 <? n) && less_at l j2 j1 then j2 else j1 in
          if negb (less_at l j i) then Some l
          else down_fuel f (swap l i j) j n
    end.

  Definition down (l : list A) (i n : nat) : list A :=
    match down_fuel (S n) l i n with Some l' => l' | None => l end.

  (** func Init(h): n := h.Len(); for i := n/2 - 1; i >= 0; i-- { down(h, i, n) }.
      [init_loop k] runs the iterations i = k-1, k-2, ..., 0. *)
  Fixpoint init_loop (k : nat) (l : list A) (n : nat) : list A :=
    match k with
    | O => l
    | S i => init_loop i (down l i n) n
    end.

  Definition init (l : list A) : list A := let n := length l in init_loop (n / 2) l n.

  (** func Push(h, x): h.Push(x); up(h, h.Len()-1) *)
  Definition push (l : list A) (x : A) : list A :=
    let l1 := l ++ [x] in up l1 (length l1 - 1).

  (** func Pop(h): n := h.Len() - 1; h.Swap(0, n); down(h, 0, n); return h.Pop()
      (transactionsHeap.Pop: item := old[n-1]; h.items = old[0 : n-1]).
      On an empty heap Go panics (index out of range); [None] here. *)
  Definition pop (l : list A) : option (A * list A) :=
    match l with
    | [] => None
    | _ :: _ =>
        let n := length l - 1 in
        let l2 := down (swap l 0 n) 0 n in
        match nth_error l2 n with
        | Some x => Some (x, firstn n l2)
        | None => None
        end
    end.

  (** the heap invariant of container/heap: !h.Less(j, parent(j)) for every 0 < j < Len() *)
  Definition heap_ok (l : list A) : Prop := forall j, 0 < j -> less_at l j (parent j) = false.
End Heap.

(** the two instances of the mempool (txcache/transactionsHeap.go).
    newMaxTransactionsHeap (selection.go):  less(i, j) = items[i].isCurrentTransactionMoreValuableForNetwork(items[j])
    newMinTransactionsHeap (eviction.go):   less(i, j) = items[j].isCurrentTransactionMoreValuableForNetwork(items[i]) *)
Definition sel_less (c1 c2 : cursor) : bool := more_valuable (cur c1) (cur c2).
Definition evi_less (c1 c2 : ecursor) : bool := more_valuable (ecur c2) (ecur c1).
