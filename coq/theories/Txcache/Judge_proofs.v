(** The view judges of C05 (Judge.c05_viewsb): what a verdict [true] means, and that the model's own views of every
    reachable pool are accepted (the judge raises no alarm on a pool that satisfies the invariant). *)
From Coq Require Import List NArith ZArith Lia Bool Permutation.
From Verif Require Import Base.BStr Base.ListX Txcache.TxTypes Txcache.SenderList Txcache.Selection Txcache.Pool Txcache.Judge
  Txcache.SenderList_proofs Txcache.Selection_proofs Txcache.Pool_proofs Txcache.Pool_props.
Import ListNotations.
Open Scope Z_scope.

(** ---------- the boolean helpers ---------- *)

Lemma existsb_beqb x l : existsb (beqb x) l = true <-> In x l.
Proof.
  rewrite existsb_exists. split.
  - intros (y & Hy & E). apply beqb_eq in E. subst. exact Hy.
  - intros H. exists x. split; [exact H|apply beqb_refl].
Qed.

Lemma nodupb_iff l : nodupb l = true <-> NoDup l.
Proof.
  induction l as [|x l IH]; simpl.
  - split; [constructor|reflexivity].
  - rewrite andb_true_iff, negb_true_iff, IH. split.
    + intros (Hx & Hl). constructor; [|exact Hl]. intros Hin. apply existsb_beqb in Hin. congruence.
    + intros H. inversion H; subst. split; [|assumption].
      destruct (existsb (beqb x) l) eqn:E; [|reflexivity]. apply existsb_beqb in E. contradiction.
Qed.

Lemma subsetb_iff a b : subsetb a b = true <-> incl a b.
Proof.
  unfold subsetb. rewrite forallb_forall. split.
  - intros H x Hx. apply existsb_beqb. apply H. exact Hx.
  - intros H x Hx. apply existsb_beqb. apply H. exact Hx.
Qed.

Definition listed_hashes (v : pviews) : list bytes := concat (map snd (v_lists v)).
Definition nonempty_lists (v : pviews) : list (bytes * list bytes) :=
  filter (fun al => match snd al with [] => false | _ => true end) (v_lists v).
Definition bytes_of_keys (known : list (bytes * tx)) (ks : list bytes) : Z :=
  fold_right (fun h a => (match lookup_tx known h with Some t => size t | None => 0 end + a)%Z) 0%Z ks.

(** what a verdict [true] of the judge says about the views it was given *)
Definition c05_views (known : list (bytes * tx)) (v : pviews) : Prop :=
  NoDup (v_keys v) /\ NoDup (listed_hashes v) /\
  (forall h, In h (v_keys v) <-> In h (listed_hashes v)) /\
  (forall a l h, In (a, l) (v_lists v) -> In h l -> exists t, lookup_tx known h = Some t /\ sender t = a) /\
  v_cntTx v = Z.of_nat (length (v_keys v)) /\
  v_numBytes v = bytes_of_keys known (v_keys v) /\
  v_cntSenders v = Z.of_nat (length (nonempty_lists v)).

Theorem c05_viewsb_iff known v : c05_viewsb known v = true <-> c05_views known v.
Proof.
  unfold c05_viewsb, c05_views. fold (listed_hashes v). fold (nonempty_lists v). fold (bytes_of_keys known (v_keys v)).
  rewrite !andb_true_iff, !nodupb_iff, !subsetb_iff, !Z.eqb_eq, forallb_forall.
  split.
  - intros (((((((H1 & H2) & H3) & H4) & H5) & H6) & H7) & H8).
    repeat split; try assumption; try (intros Hin; first [apply H3; exact Hin|apply H4; exact Hin]).
    intros a l h Hal Hh. specialize (H5 (a, l) Hal). simpl in H5. rewrite forallb_forall in H5. specialize (H5 h Hh).
    destruct (lookup_tx known h) as [t|]; [|discriminate]. exists t. split; [reflexivity|apply beqb_eq; exact H5].
  - intros (H1 & H2 & H3 & H5 & H6 & H7 & H8).
    repeat split; try assumption; try (intros h Hh; apply H3; exact Hh).
    intros (a, l) Hal. simpl. apply forallb_forall. intros h Hh. destruct (H5 a l h Hal Hh) as (t & -> & <-). apply beqb_refl.
Qed.

(** ---------- the model's own views ---------- *)

Lemma NoDup_map_inj_in {A B} (f : A -> B) (l : list A) :
  NoDup l -> (forall x y, In x l -> In y l -> f x = f y -> x = y) -> NoDup (map f l).
Proof.
  induction l as [|x l IH]; intros Hnd Hinj; simpl; [constructor|]. inversion Hnd; subst. constructor.
  - intros Hin. apply in_map_iff in Hin. destruct Hin as (y & Ey & Hy).
    assert (y = x) by (apply Hinj; [right; exact Hy|left; reflexivity|exact Ey]). subst. contradiction.
  - apply IH; [assumption|]. intros a b Ha Hb. apply Hinj; right; assumption.
Qed.

Lemma NoDup_concat_disjoint {A B} (f : A -> list B) (g : B -> A) (l : list A) :
  NoDup l -> (forall a, In a l -> NoDup (f a)) -> (forall a x, In x (f a) -> g x = a) -> NoDup (concat (map f l)).
Proof.
  induction l as [|a l IH]; intros Hnd Hall Hg; simpl; [constructor|]. inversion Hnd; subst.
  apply NoDup_app_intro.
  - apply Hall. left. reflexivity.
  - apply IH; [assumption|intros b Hb; apply Hall; right; exact Hb|exact Hg].
  - intros x Hx Hx'. apply in_concat in Hx'. destruct Hx' as (ys & Hys & Hxy). apply in_map_iff in Hys.
    destruct Hys as (b & <- & Hb). apply Hg in Hx. apply Hg in Hxy. subst. congruence.
Qed.

Section Accepts.
  Variable p : pool.
  Variable alpha : list bytes.
  Hypothesis HI : Inv p.
  Hypothesis Halpha : NoDup alpha.
  Hypothesis Hcover : forall a, In a (map fst (senders p)) -> In a alpha.

  Let all_txs : list tx := concat (map (pool_for_sender p) alpha).

  Lemma views_listed : listed_hashes (views_of alpha p) = map hash all_txs.
  Proof.
    unfold listed_hashes, views_of, all_txs. simpl. rewrite map_map. simpl. rewrite concat_map, map_map. reflexivity.
  Qed.

  Lemma in_all_txs t : In t all_txs <-> listed p t.
  Proof.
    destruct HI as (_ & HS & _). unfold all_txs. rewrite in_concat. split.
    - intros (l & Hl & Ht). apply in_map_iff in Hl. destruct Hl as (a & <- & _).
      apply (pool_for_sender_in p a t HS) in Ht. apply Ht.
    - intros Hl. exists (pool_for_sender p (sender t)). split.
      + apply in_map. apply Hcover. destruct Hl as (sl & Hsl & _). apply alookup_In in Hsl.
        apply in_map_iff. exists (sender t, sl). split; [reflexivity|exact Hsl].
      + apply (pool_for_sender_in p (sender t) t HS). split; [exact Hl|reflexivity].
  Qed.

  Lemma all_txs_NoDup : NoDup all_txs.
  Proof.
    unfold all_txs. apply (NoDup_concat_disjoint (pool_for_sender p) sender); [exact Halpha| |].
    - intros a _. apply sorted_NoDup. apply inv_sorted. exact HI.
    - intros a x Hx. destruct HI as (_ & HS & _). apply (pool_for_sender_in p a x HS) in Hx. apply Hx.
  Qed.

  Lemma listed_hash_inj t t' : listed p t -> listed p t' -> hash t = hash t' -> t = t'.
  Proof.
    destruct HI as (_ & _ & HL). intros H1 H2 E. apply HL in H1. apply HL in H2. rewrite E in H1. congruence.
  Qed.

  Lemma in_keys_iff h : In h (keys p) <-> exists t, listed p t /\ hash t = h.
  Proof.
    destruct HI as ((HN & Hh & _) & _ & HL). unfold keys. split.
    - intros Hin. destruct (alookup (byHash p) h) as [t|] eqn:E.
      + pose proof (Hh _ _ E) as Eh. exists t. split; [|exact Eh]. apply HL. rewrite Eh. exact E.
      + apply alookup_None in E. contradiction.
    - intros (t & Ht & <-). apply HL in Ht. apply alookup_In in Ht. apply in_map_iff. exists (hash t, t). split; [reflexivity|exact Ht].
  Qed.

  Lemma senders_nonempty_perm :
    Permutation (filter (fun a => match pool_for_sender p a with [] => false | _ => true end) alpha) (map fst (senders p)).
  Proof.
    destruct HI as (_ & (HN & Hok & _) & _).
    apply NoDup_Permutation; [apply NoDup_filter; exact Halpha|exact HN|].
    intros a. rewrite filter_In. unfold pool_for_sender. split.
    - intros (_ & Hne). destruct (alookup (senders p) a) as [sl|] eqn:E; [|discriminate].
      apply alookup_In in E. apply in_map_iff. exists (a, sl). split; [reflexivity|exact E].
    - intros Hin. split; [apply Hcover; exact Hin|].
      destruct (alookup (senders p) a) as [sl|] eqn:E.
      + destruct (Hok a sl E) as (Hne & _). destruct (items sl); [contradiction|reflexivity].
      + apply alookup_None in E. contradiction.
  Qed.

  Lemma nonempty_lists_length : length (nonempty_lists (views_of alpha p)) = length (senders p).
  Proof.
    unfold nonempty_lists, views_of. simpl.
    transitivity (length (filter (fun a => match pool_for_sender p a with [] => false | _ => true end) alpha)).
    - clear. induction alpha as [|a l IH]; simpl; [reflexivity|].
      destruct (pool_for_sender p a); simpl; [exact IH|rewrite IH; reflexivity].
    - rewrite (Permutation_length senders_nonempty_perm). apply map_length.
  Qed.

  Variable known : list (bytes * tx).
  Hypothesis Hknown : forall t, listed p t -> lookup_tx known (hash t) = Some t.

  Lemma bytes_of_keys_pool : bytes_of_keys known (keys p) = sum_sz (byHash p).
  Proof.
    destruct HI as ((HN & Hh & _) & _ & HL). unfold keys.
    assert (Hall : forall h t, In (h, t) (byHash p) -> lookup_tx known h = Some t).
    { intros h t Hin. apply In_alookup in Hin; [|exact HN]. pose proof (Hh _ _ Hin) as <-. apply Hknown. apply HL. exact Hin. }
    clear HN Hh HL. induction (byHash p) as [|(h, t) l IH]; simpl; [reflexivity|].
    rewrite (Hall h t (or_introl eq_refl)). rewrite IH; [reflexivity|]. intros h' t' Hin. apply Hall. right. exact Hin.
  Qed.

  Theorem views_of_accepted : c05_viewsb known (views_of alpha p) = true.
  Proof.
    apply c05_viewsb_iff. unfold c05_views. rewrite views_listed.
    assert (Hnd : NoDup (map hash all_txs)).
    { apply NoDup_map_inj_in; [exact all_txs_NoDup|]. intros x y Hx Hy. apply listed_hash_inj; apply in_all_txs; assumption. }
    split; [apply HI|]. split; [exact Hnd|]. split; [|split; [|split; [|split]]].
    - intros h. change (v_keys (views_of alpha p)) with (keys p). rewrite in_keys_iff, in_map_iff. split.
      + intros (t & Ht & E). exists t. split; [exact E|apply in_all_txs; exact Ht].
      + intros (t & E & Ht). exists t. split; [apply in_all_txs; exact Ht|exact E].
    - intros a l h Hal Hh. simpl in Hal. apply in_map_iff in Hal. destruct Hal as (a' & E & _). inversion E; subst a' l. clear E.
      apply in_map_iff in Hh. destruct Hh as (t & <- & Ht). destruct HI as (_ & HS & _).
      apply (pool_for_sender_in p a t HS) in Ht. destruct Ht as (Hl & Es). exists t. split; [apply Hknown; exact Hl|exact Es].
    - simpl. destruct HI as ((_ & _ & Hc & _) & _). rewrite Hc. unfold keys. rewrite map_length. reflexivity.
    - change (v_keys (views_of alpha p)) with (keys p). rewrite bytes_of_keys_pool. simpl. apply HI.
    - rewrite nonempty_lists_length. simpl. apply HI.
  Qed.
End Accepts.

(** for every reachable pool, with the bookkeeping the harness component keeps (every added transaction is known by its hash) *)
Theorem run_pool_views_accepted cfg ops alpha known :
  hist_ok ops -> NoDup alpha ->
  (forall a, In a (map fst (senders (run_pool cfg ops))) -> In a alpha) ->
  (forall t, In t (added_txs ops) -> lookup_tx known (hash t) = Some t) ->
  c05_viewsb known (views_of alpha (run_pool cfg ops)) = true.
Proof.
  intros Hok Ha Hc Hk. destruct (run_pool_inv2 cfg ops Hok) as (HI & Hadds).
  apply views_of_accepted; try assumption.
  intros t Hl. apply Hk. destruct HI as (_ & _ & HL). apply HL in Hl. eapply Hadds. exact Hl.
Qed.

(** ---------- C06 on the views ---------- *)

Definition c06_views (cfg : config) (lastSize : Z) (v : pviews) : Prop :=
  (forall a l, In (a, l) (v_lists v) -> Z.of_nat (length l) <= countPerSenderThreshold cfg) /\
  (evictionEnabled cfg = true ->
   v_cntTx v <= countThreshold cfg + 1 /\ v_cntSenders v <= countThreshold cfg + 1 /\ v_numBytes v <= numBytesThreshold cfg + lastSize).

Theorem c06_viewsb_iff cfg lastSize v : c06_viewsb cfg lastSize v = true <-> c06_views cfg lastSize v.
Proof.
  unfold c06_viewsb, c06_views. rewrite andb_true_iff, forallb_forall, orb_true_iff, negb_true_iff, !andb_true_iff, !Z.leb_le.
  split.
  - intros (H1 & H2). split.
    + intros a l Hal. apply Z.leb_le. apply (H1 (a, l) Hal).
    + intros Hev. destruct H2 as [H2|((H2 & H3) & H4)]; [congruence|auto].
  - intros (H1 & H2). split.
    + intros (a, l) Hal. apply Z.leb_le. simpl. apply (H1 a l Hal).
    + destruct (evictionEnabled cfg); [right|left; reflexivity]. destruct (H2 eq_refl) as (A & B & C). auto.
Qed.

(** after an AddTx of any reachable history, the model's own views pass the C06 judge *)
Theorem run_pool_views_c06_accepted cfg ops t alpha :
  hist_ok (ops ++ [PAdd t]) -> thresholds_ok cfg -> 0 <= countPerSenderThreshold cfg ->
  (forall x, In x (added_txs (ops ++ [PAdd t])) -> 0 <= size x) ->
  c06_viewsb cfg (size t) (views_of alpha (run_pool cfg (ops ++ [PAdd t]))) = true.
Proof.
  intros Hok HT Hc Hpos. apply c06_viewsb_iff. split.
  - intros a l Hal. simpl in Hal. apply in_map_iff in Hal. destruct Hal as (a' & E & _). inversion E; subst. rewrite map_length.
    apply (run_pool_count_ok cfg (ops ++ [PAdd t]) Hok Hc).
  - intros Hev. simpl. apply (run_pool_pool_wide cfg ops t Hok HT Hev Hpos).
Qed.

(** ---------- C02: the five judges of a selection result ---------- *)

Definition c02_result (sess : session) (gasRequested acc : N) (maxNum : nat) (result : list tx) : Prop :=
  NoDup (map hash result) /\ (length result <= maxNum)%nat /\
  (sum_gas result = acc /\ (acc <= gasRequested)%N) /\
  (forall t, In t result -> guarded sess t = false) /\
  (forall pre t post, result = pre ++ t :: post -> committed pre (feePayer t) + fee t <= sess_balance sess (feePayer t)).

Definition c02_allb (sess : session) (gasRequested acc : N) (maxNum : nat) (result : list tx) : bool :=
  c02_distinctb result && c02_countb maxNum result && c02_gasb gasRequested acc result && c02_guardb sess result && c02_balanceb sess result.

Theorem c02_allb_iff sess gasRequested acc maxNum result :
  c02_allb sess gasRequested acc maxNum result = true <-> c02_result sess gasRequested acc maxNum result.
Proof.
  unfold c02_allb, c02_result, c02_distinctb, c02_countb, c02_gasb, c02_guardb, c02_balanceb.
  rewrite !andb_true_iff, nodupb_iff, Nat.leb_le, N.eqb_eq, N.leb_le, forallb_forall, balance_walkb_spec.
  split.
  - intros ((((H1 & H2) & (H3 & H4)) & H5) & H6). repeat split; try assumption.
    intros t Ht. apply negb_true_iff. apply H5. exact Ht.
  - intros (H1 & H2 & (H3 & H4) & H5 & H6). repeat split; try assumption.
    intros t Ht. apply negb_true_iff. apply H5. exact Ht.
Qed.

(** the model's own selection over any reachable pool passes all five *)
Theorem run_pool_selection_accepted cfg ops sess gasRequested maxNum : hist_ok ops ->
  let r := select_txs (run_pool cfg ops) sess gasRequested maxNum in
  c02_allb sess gasRequested (snd r) maxNum (fst r) = true.
Proof.
  intros Hok. cbv zeta. pose proof (run_pool_inv cfg ops Hok) as HI. pose proof (inv_bunches_ok _ HI) as Hb.
  apply c02_allb_iff. unfold select_txs. rewrite select_is_loop. cbn [fst snd]. unfold c02_result.
  split; [apply env_C02_distinct; [exact Hb|apply inv_hash_NoDup; exact HI]|].
  split; [apply env_C02_count; exact Hb|].
  split; [apply env_C02_gas; exact Hb|].
  split; [apply env_C02_guard; exact Hb|apply env_C02_balance; exact Hb].
Qed.
