(** Per-sender sorted list: order, sorted insert, removals. *)
From Coq Require Import List NArith ZArith Lia Bool Permutation Sorting.Sorted ZifyN ZifyNat ZifyBool.
From Verif Require Import Base.BStr Base.ListX Txcache.TxTypes Txcache.SenderList.
Import ListNotations.
Open Scope N_scope.

(** [a] strictly precedes [b] in a sender's list: nonce asc, gas price desc, hash asc *)
Definition precedes (a b : tx) : Prop :=
  nonce a < nonce b \/
  (nonce a = nonce b /\ (gasPrice b < gasPrice a \/ (gasPrice a = gasPrice b /\ bcmp (hash a) (hash b) = Lt))).
Definition same_key (a b : tx) : Prop := nonce a = nonce b /\ gasPrice a = gasPrice b /\ hash a = hash b.

Lemma precedes_trans a b c : precedes a b -> precedes b c -> precedes a c.
Proof.
  unfold precedes. intros H1 H2.
  destruct H1 as [H1|(E1 & H1)]; destruct H2 as [H2|(E2 & H2)]; try (left; lia).
  right. split; [lia|].
  destruct H1 as [H1|(G1 & H1)]; destruct H2 as [H2|(G2 & H2)]; try (left; lia).
  right. split; [lia|]. eapply bcmp_lt_trans; eassumption.
Qed.

Lemma precedes_irrefl a : ~ precedes a a.
Proof.
  unfold precedes. intros [H|(_ & [H|(_ & H)])]; try lia.
  rewrite bcmp_refl in H. discriminate.
Qed.

Lemma precedes_nonce a b : precedes a b -> nonce a <= nonce b.
Proof. unfold precedes. intros [H|(H & _)]; lia. Qed.

(** total on transactions with distinct hashes *)
Lemma precedes_total a b : hash a <> hash b -> precedes a b \/ precedes b a.
Proof.
  intros Hne. unfold precedes.
  destruct (N.lt_trichotomy (nonce a) (nonce b)) as [H|[H|H]]; [left; left; exact H| |right; left; exact H].
  destruct (N.lt_trichotomy (gasPrice a) (gasPrice b)) as [G|[G|G]].
  - right. right. split; [lia|]. left. exact G.
  - destruct (bcmp_total _ _ Hne) as [L|L]; [left|right]; right; (split; [lia|]); right; (split; [lia|exact L]).
  - left. right. split; [exact H|]. left. exact G.
Qed.

Definition sorted (l : list tx) : Prop := StronglySorted precedes l.
Definition rsorted (rl : list tx) : Prop := StronglySorted (fun a b => precedes b a) rl.

Lemma SSorted_app {A} (R : A -> A -> Prop) l1 l2 :
  StronglySorted R (l1 ++ l2) <-> StronglySorted R l1 /\ StronglySorted R l2 /\ (forall x y, In x l1 -> In y l2 -> R x y).
Proof.
  induction l1 as [|a l1 IH]; simpl.
  - split; [intros H; repeat split; [constructor|exact H|intros x y []]|intros (_ & H & _); exact H].
  - split.
    + intros H. inversion H as [|? ? Hs Hall]; subst. apply IH in Hs. destruct Hs as (H1 & H2 & H3).
      rewrite Forall_forall in Hall. split; [|split; [exact H2|]].
      * constructor; [exact H1|]. apply Forall_forall. intros x Hx. apply Hall. apply in_or_app. left. exact Hx.
      * intros x y [<-|Hx] Hy; [apply Hall; apply in_or_app; right; exact Hy|apply H3; assumption].
    + intros (H1 & H2 & H3). inversion H1 as [|? ? Hs Hall]; subst. constructor.
      * apply IH. split; [exact Hs|]. split; [exact H2|]. intros x y Hx Hy. apply H3; [right; exact Hx|exact Hy].
      * rewrite Forall_forall in Hall |- *. intros x Hx. apply in_app_or in Hx. destruct Hx as [Hx|Hx]; [apply Hall; exact Hx|apply H3; [left; reflexivity|exact Hx]].
Qed.

Lemma sorted_rev l : sorted l <-> rsorted (rev l).
Proof.
  unfold sorted, rsorted. induction l as [|a l IH]; simpl.
  - split; intros _; constructor.
  - rewrite SSorted_app. split.
    + intros H. inversion H as [|? ? Hs Hall]; subst. rewrite Forall_forall in Hall.
      split; [apply IH; exact Hs|]. split; [repeat constructor|].
      intros x y Hx [<-|[]]. apply Hall. apply in_rev. exact Hx.
    + intros (H1 & _ & H3). constructor; [apply IH; exact H1|].
      apply Forall_forall. intros x Hx. apply (H3 x a); [apply in_rev in Hx; exact Hx|left; reflexivity].
Qed.

Lemma rsorted_rev rl : rsorted rl <-> sorted (rev rl).
Proof. rewrite sorted_rev, rev_involutive. reflexivity. Qed.

(** the sorted insert, on the reversed list *)
Lemma ins_rev_spec rl t : rsorted rl ->
  match ins_rev rl t with
  | Some rl' => rsorted rl' /\ Permutation rl' (t :: rl) /\ (forall c, In c rl -> ~ same_key c t)
  | None => exists c, In c rl /\ same_key c t
  end.
Proof.
  induction rl as [|c r IH]; intros Hs.
  - simpl. split; [repeat constructor|]. split; [reflexivity|]. intros c [].
  - inversion Hs as [|? ? Hr Hall]; subst. specialize (IH Hr).
    assert (Hins_here : precedes c t -> (forall c', In c' r -> ~ same_key c' t) ->
             rsorted (t :: c :: r) /\ Permutation (t :: c :: r) (t :: c :: r) /\ (forall c0, In c0 (c :: r) -> ~ same_key c0 t)).
    { intros Hp Hno. split; [|split; [reflexivity|]].
      - constructor; [exact Hs|]. constructor; [exact Hp|].
        rewrite Forall_forall in Hall |- *. intros x Hx. eapply precedes_trans; [apply Hall; exact Hx|exact Hp].
      - intros c0 [<-|Hin]; [|apply Hno; exact Hin].
        intros (A & B & C). unfold precedes in Hp. rewrite C in Hp.
        destruct Hp as [Hp|(_ & [Hp|(_ & Hp)])]; try lia.
        rewrite bcmp_refl in Hp. discriminate. }
    assert (Hbelow : precedes c t -> forall c', In c' r -> ~ same_key c' t).
    { intros Hp c' Hin (A & B & C). rewrite Forall_forall in Hall. specialize (Hall _ Hin).
      assert (precedes c' c') as Hbad; [|exact (precedes_irrefl _ Hbad)].
      eapply precedes_trans; [exact Hall|]. unfold precedes in *. rewrite A, B, C. exact Hp. }
    assert (Hcont : precedes t c ->
             match option_map (cons c) (ins_rev r t) with
             | Some rl' => rsorted rl' /\ Permutation rl' (t :: c :: r) /\ (forall c0, In c0 (c :: r) -> ~ same_key c0 t)
             | None => exists c0, In c0 (c :: r) /\ same_key c0 t
             end).
    { intros Hp. destruct (ins_rev r t) as [r'|]; simpl.
      - destruct IH as (Hs' & Hperm & Hno). split; [|split].
        + constructor; [exact Hs'|]. rewrite Forall_forall in Hall |- *. intros x Hx.
          apply (Permutation_in _ Hperm) in Hx. destruct Hx as [<-|Hx]; [exact Hp|apply Hall; exact Hx].
        + transitivity (c :: t :: r); [constructor; exact Hperm|apply perm_swap].
        + intros c0 [<-|Hin]; [|apply Hno; exact Hin].
          intros (A & B & C). apply (precedes_irrefl t). unfold precedes in *. rewrite A, B, C in *. exact Hp.
      - destruct IH as (c0 & Hin & Hk). exists c0. split; [right; exact Hin|exact Hk]. }
    simpl ins_rev.
    destruct (N.eqb_spec (nonce c) (nonce t)) as [En|En].
    + destruct (N.ltb_spec (gasPrice t) (gasPrice c)) as [Hg|Hg].
      * apply Hins_here; [right; split; [exact En|left; exact Hg]|apply Hbelow; right; split; [exact En|left; exact Hg]].
      * destruct (N.eqb_spec (gasPrice c) (gasPrice t)) as [Eg|Eg].
        -- destruct (bcmp (hash c) (hash t)) eqn:Ec.
           ++ exists c. split; [left; reflexivity|]. split; [exact En|]. split; [exact Eg|apply bcmp_eq; exact Ec].
           ++ assert (Hp : precedes c t) by (right; split; [exact En|right; split; [exact Eg|exact Ec]]).
              apply Hins_here; [exact Hp|apply Hbelow; exact Hp].
           ++ apply Hcont. right. split; [lia|]. right. split; [lia|]. rewrite bcmp_antisym, Ec. reflexivity.
        -- apply Hcont. right. split; [lia|]. left. lia.
    + destruct (N.ltb_spec (nonce c) (nonce t)) as [Hn|Hn].
      * assert (Hp : precedes c t) by (left; exact Hn). apply Hins_here; [exact Hp|apply Hbelow; exact Hp].
      * apply Hcont. left. lia.
Qed.

(** findInsertionPlace + insert on a sorted list *)
Lemma insert_sorted_spec l t : sorted l ->
  match insert_sorted l t with
  | Some l' => sorted l' /\ Permutation l' (t :: l) /\ (forall c, In c l -> ~ same_key c t)
  | None => exists c, In c l /\ same_key c t
  end.
Proof.
  intros Hs. unfold insert_sorted. apply sorted_rev in Hs. pose proof (ins_rev_spec (rev l) t Hs) as H.
  destruct (ins_rev (rev l) t) as [rl'|]; simpl.
  - destruct H as (H1 & H2 & H3). split; [apply rsorted_rev; exact H1|]. split.
    + rewrite <- Permutation_rev. rewrite H2. constructor. symmetry. apply Permutation_rev.
    + intros c Hc. apply H3. apply in_rev in Hc. exact Hc.
  - destruct H as (c & Hc & Hk). exists c. split; [apply in_rev; exact Hc|exact Hk].
Qed.

(** a sorted list has pairwise distinct elements; a sorted permutation is unique *)
Lemma sorted_NoDup l : sorted l -> NoDup l.
Proof.
  induction 1 as [|a l Hs IH Hall]; constructor; [|exact IH].
  intros Hin. rewrite Forall_forall in Hall. exact (precedes_irrefl _ (Hall _ Hin)).
Qed.

Lemma sorted_perm_unique l1 l2 : sorted l1 -> sorted l2 -> Permutation l1 l2 -> l1 = l2.
Proof.
  revert l2; induction l1 as [|a l1 IH]; intros l2 H1 H2 Hp.
  - apply Permutation_nil in Hp. subst. reflexivity.
  - destruct l2 as [|b l2]; [apply Permutation_sym, Permutation_nil in Hp; discriminate|].
    inversion H1 as [|? ? Hs1 Ha1]; inversion H2 as [|? ? Hs2 Ha2]; subst.
    rewrite Forall_forall in Ha1, Ha2.
    assert (a = b).
    { assert (Hain : In a (b :: l2)) by (eapply Permutation_in; [exact Hp|left; reflexivity]).
      assert (Hbin : In b (a :: l1)) by (eapply Permutation_in; [apply Permutation_sym; exact Hp|left; reflexivity]).
      destruct Hain as [->|Hain]; [reflexivity|]. destruct Hbin as [->|Hbin]; [reflexivity|].
      exfalso. apply (precedes_irrefl a). eapply precedes_trans; [apply Ha1; exact Hbin|apply Ha2; exact Hain]. }
    subst b. f_equal. apply IH; [assumption|assumption|]. eapply Permutation_cons_inv. exact Hp.
Qed.

(** ---------- sizes ---------- *)

Lemma sum_sizes_app a b : sum_sizes (a ++ b) = (sum_sizes a + sum_sizes b)%Z.
Proof. induction a as [|x a IH]; simpl; [reflexivity|]. rewrite IH. lia. Qed.

Lemma sum_sizes_perm a b : Permutation a b -> sum_sizes a = sum_sizes b.
Proof. induction 1; simpl; lia. Qed.

Lemma sum_sizes_rev a : sum_sizes (rev a) = sum_sizes a.
Proof. apply sum_sizes_perm. symmetry. apply Permutation_rev. Qed.

(** ---------- removals on a sorted list ---------- *)

Lemma split_leq_spec l target : sorted l ->
  let '(gone, kept) := split_leq l target in
  l = gone ++ kept /\ (forall t, In t gone -> nonce t <= target) /\ (forall t, In t kept -> target < nonce t).
Proof.
  induction l as [|t l IH]; intros Hs; simpl; [repeat split; intros ? []|].
  inversion Hs as [|? ? Hs' Hall]; subst. rewrite Forall_forall in Hall.
  destruct (N.ltb_spec target (nonce t)) as [H|H].
  - split; [reflexivity|]. split; [intros ? []|]. intros x [<-|Hx]; [exact H|].
    pose proof (precedes_nonce _ _ (Hall _ Hx)). lia.
  - specialize (IH Hs'). destruct (split_leq l target) as (a, b). destruct IH as (E & Ha & Hb).
    split; [simpl; f_equal; exact E|]. split; [|exact Hb]. intros x [<-|Hx]; [exact H|apply Ha; exact Hx].
Qed.

Lemma split_geq_rev_spec rl given : rsorted rl ->
  let '(gone, kept) := split_geq_rev rl given in
  rl = gone ++ kept /\ (forall t, In t gone -> given <= nonce t) /\ (forall t, In t kept -> nonce t < given).
Proof.
  induction rl as [|t l IH]; intros Hs; simpl; [repeat split; intros ? []|].
  inversion Hs as [|? ? Hs' Hall]; subst. rewrite Forall_forall in Hall.
  destruct (N.ltb_spec (nonce t) given) as [H|H].
  - split; [reflexivity|]. split; [intros ? []|]. intros x [<-|Hx]; [exact H|].
    pose proof (precedes_nonce _ _ (Hall _ Hx)). lia.
  - specialize (IH Hs'). destruct (split_geq_rev l given) as (a, b). destruct IH as (E & Ha & Hb).
    split; [simpl; f_equal; exact E|]. split; [|exact Hb]. intros x [<-|Hx]; [exact H|apply Ha; exact Hx].
Qed.

Lemma sorted_app_l a b : sorted (a ++ b) -> sorted a.
Proof. intros H. apply SSorted_app in H. apply H. Qed.
Lemma sorted_app_r a b : sorted (a ++ b) -> sorted b.
Proof. intros H. apply SSorted_app in H. apply H. Qed.
