(** txcache/txCache.go, txListBySenderMap.go, txByHashMap.go, eviction.go — the mempool. *)
From Coq Require Import List NArith ZArith Bool.
From Verif Require Import Base.BStr Txcache.TxTypes Txcache.SenderList Txcache.Selection.
Import ListNotations.
Open Scope Z_scope.

(** The two indexes and the three counters, each a SEPARATE field as in the code. *)
Record pool := mkPool {
  senders : list (bytes * slist);   (* txListBySenderMap.backingMap *)
  byHash : list (bytes * tx);       (* txByHashMap.backingMap *)
  cntTx : Z;                        (* txByHashMap.counter *)
  numBytes : Z;                     (* txByHashMap.numBytes *)
  cntSenders : Z                    (* txListBySenderMap.counter *)
}.

Definition empty_pool : pool := mkPool [] [] 0 0 0.

Fixpoint alookup {V} (l : list (bytes * V)) (k : bytes) : option V :=
  match l with [] => None | (k', v) :: r => if beqb k' k then Some v else alookup r k end.
Fixpoint aremove {V} (l : list (bytes * V)) (k : bytes) : list (bytes * V) :=
  match l with [] => [] | (k', v) :: r => if beqb k' k then r else (k', v) :: aremove r k end.
Fixpoint aset {V} (l : list (bytes * V)) (k : bytes) (v : V) : list (bytes * V) :=
  match l with
  | [] => [(k, v)]
  | (k', v') :: r => if beqb k' k then (k, v) :: r else (k', v') :: aset r k v
  end.

(** txByHashMap.addTx *)
Definition byhash_add (p : pool) (t : tx) : pool * bool :=
  match alookup (byHash p) (hash t) with
  | Some _ => (p, false)
  | None => (mkPool (senders p) ((hash t, t) :: byHash p) (cntTx p + 1) (numBytes p + size t) (cntSenders p), true)
  end.

(** txByHashMap.removeTx *)
Definition byhash_remove (p : pool) (h : bytes) : pool * option tx :=
  match alookup (byHash p) h with
  | None => (p, None)
  | Some t => (mkPool (senders p) (aremove (byHash p) h) (cntTx p - 1) (numBytes p - size t) (cntSenders p), Some t)
  end.

(** RemoveTxsBulk *)
Definition byhash_remove_bulk (p : pool) (hs : list bytes) : pool :=
  fold_left (fun q h => fst (byhash_remove q h)) hs p.

Definition set_senders (p : pool) (s : list (bytes * slist)) (c : Z) : pool :=
  mkPool s (byHash p) (cntTx p) (numBytes p) c.

(** removeSender: counter decremented only when the key was present *)
Definition remove_sender (p : pool) (a : bytes) : pool :=
  match alookup (senders p) a with
  | None => p
  | Some _ => set_senders p (aremove (senders p) a) (cntSenders p - 1)
  end.

(** removeSenderIfEmpty *)
Definition remove_sender_if_empty (p : pool) (a : bytes) : pool :=
  match alookup (senders p) a with
  | Some sl => match items sl with [] => remove_sender p a | _ => p end
  | None => p
  end.

(** isCapacityExceeded of the pool *)
Definition capacity_exceeded (cfg : config) (p : pool) : bool :=
  (numBytesThreshold cfg <? numBytes p) || (countThreshold cfg <? cntSenders p) || (countThreshold cfg <? cntTx p).

(** ---------- eviction ---------- *)

(** cursor over a reversed sender list (highest-ordered transaction first) *)
Record ecursor := mkEc { ecur : tx; erest : list tx }.

Fixpoint mk_ecursors (ss : list (bytes * slist)) : list ecursor :=
  match ss with
  | [] => []
  | (_, sl) :: r => match rev (items sl) with
                    | [] => mk_ecursors r
                    | t :: rr => mkEc t rr :: mk_ecursors r
                    end
  end.

(** what heap.Pop of the min-heap returns: the cursor whose current transaction is LESS valuable
    than every other one *)
Fixpoint worst_index (cs : list ecursor) (i : nat) (worst : option (nat * tx)) : option nat :=
  match cs with
  | [] => option_map fst worst
  | c :: r =>
      match worst with
      | None => worst_index r (S i) (Some (i, ecur c))
      | Some (_, wt) => if more_valuable wt (ecur c) then worst_index r (S i) (Some (i, ecur c))
                        else worst_index r (S i) worst
      end
  end.

(** one pass: pop up to [k] worst transactions (batch in pop order), advancing cursors *)
Fixpoint take_batch (k : nat) (cs : list ecursor) : list tx * list ecursor :=
  match k with
  | O => ([], cs)
  | S k' =>
      match worst_index cs 0 None with
      | None => ([], cs)
      | Some i =>
          match take_nth i cs with
          | None => ([], cs)
          | Some (c, others) =>
              let cs' := match erest c with [] => others | t :: r => mkEc t r :: others end in
              let '(b, cs'') := take_batch k' cs' in
              (ecur c :: b, cs'')
          end
      end
  end.

(** lowestToEvictBySender: the LAST transaction of the batch for each sender decides *)
Fixpoint lowest_by_sender (batch : list tx) (acc : list (bytes * N)) : list (bytes * N) :=
  match batch with
  | [] => acc
  | t :: r => lowest_by_sender r (aset acc (sender t) (nonce t))
  end.

(** removeTransactionsWithHigherOrEqualNonce (map level, after the fix of F5: the removed hashes
    are returned and removed from the hash index) *)
Definition evict_sender_suffix (p : pool) (a : bytes) (n : N) : pool :=
  match alookup (senders p) a with
  | None => p
  | Some sl =>
      let '(sl', removed) := sl_remove_geq sl n in
      let p1 := set_senders p (aset (senders p) a sl') (cntSenders p) in
      let p2 := remove_sender_if_empty p1 a in
      byhash_remove_bulk p2 removed
  end.

Fixpoint evict_passes (cfg : config) (fuel : nat) (cs : list ecursor) (p : pool) : pool :=
  match fuel with
  | O => p
  | S f =>
      if capacity_exceeded cfg p then
        let '(batch, cs') := take_batch (numItemsToPreemptivelyEvict cfg) cs in
        match batch with
        | [] => p
        | _ =>
            let p1 := fold_left (fun q sn => evict_sender_suffix q (fst sn) (snd sn)) (lowest_by_sender batch []) p in
            let p2 := byhash_remove_bulk p1 (map hash batch) in
            evict_passes cfg f cs' p2
        end
      else p
  end.

Definition pool_total_txs (p : pool) : nat :=
  fold_right (fun s a => (length (items (snd s)) + a)%nat) 0%nat (senders p).

(** doEviction *)
Definition do_eviction (cfg : config) (p : pool) : pool :=
  if capacity_exceeded cfg p then evict_passes cfg (S (pool_total_txs p)) (mk_ecursors (senders p)) p else p.

(** ---------- public operations ---------- *)

(** the insertion proper (after the optional eviction): both indexes under mutTxOperation,
    then the bulk removal of what the per-sender limits dropped *)
Definition add_core (cfg : config) (p0 : pool) (t : tx) : pool * bool :=
  let '(p1, addedH) := byhash_add p0 t in
  (* getOrAddListForSender *)
  let '(p2, sl) := match alookup (senders p1) (sender t) with
                   | Some sl => (p1, sl)
                   | None => (set_senders p1 (senders p1 ++ [(sender t, empty_slist)]) (cntSenders p1 + 1), empty_slist)
                   end in
  let '(sl', addedS, ev) := sl_add cfg sl t in
  let p3 := set_senders p2 (aset (senders p2) (sender t) sl') (cntSenders p2) in
  let p4 := match ev with [] => p3 | _ => remove_sender_if_empty p3 (sender t) end in
  let p5 := match ev with [] => p4 | _ => byhash_remove_bulk p4 ev end in
  (p5, addedH || addedS).

(** AddTx: returns (pool, added) *)
Definition add_tx (cfg : config) (p : pool) (t : tx) : pool * bool :=
  add_core cfg (if evictionEnabled cfg then do_eviction cfg p else p) t.

(** finding event F4: some sender is over a per-sender limit (possible only because
    applySizeConstraints drops at most one transaction) *)
Definition f4_event (cfg : config) (p : pool) : bool :=
  existsb (fun s => sl_exceeded cfg (snd s)) (senders p).

(** RemoveTxByHash *)
Definition remove_tx (p : pool) (h : bytes) : pool * bool :=
  match byhash_remove p h with
  | (_, None) => (p, false)
  | (p1, Some t) =>
      match alookup (senders p1) (sender t) with
      | None => (p1, true)
      | Some sl =>
          let '(sl', ev) := sl_remove_leq sl (nonce t) in
          let p2 := set_senders p1 (aset (senders p1) (sender t) sl') (cntSenders p1) in
          let p3 := remove_sender_if_empty p2 (sender t) in
          (match ev with [] => p3 | _ => byhash_remove_bulk p3 ev end, true)
      end
  end.

(** Clear (after the fix of F3: numBytes is reset too) *)
Definition clear (p : pool) : pool := empty_pool.

Definition bunches (p : pool) : list (list tx) := map (fun s => items (snd s)) (senders p).

(** SelectTransactions *)
Definition select_txs (p : pool) (sess : session) (gasRequested : N) (maxNum : nat) : list tx * N :=
  select sess (bunches p) gasRequested maxNum.

(** views *)
Definition pool_for_sender (p : pool) (a : bytes) : list tx :=
  match alookup (senders p) a with Some sl => items sl | None => [] end.
Definition keys (p : pool) : list bytes := map fst (byHash p).

(** ---------- histories ---------- *)

Inductive pop : Type :=
| PAdd (t : tx)
| PRemove (h : bytes)
| PClear
| PSelect (sess : session) (gasRequested : N) (maxNum : nat).

Definition pstep (cfg : config) (p : pool) (o : pop) : pool :=
  match o with
  | PAdd t => fst (add_tx cfg p t)
  | PRemove h => fst (remove_tx p h)
  | PClear => clear p
  | PSelect _ _ _ => p          (* selection works on a snapshot and leaves the pool unchanged *)
  end.

Definition run_pool (cfg : config) (ops : list pop) : pool := fold_left (pstep cfg) ops empty_pool.

Fixpoint added_txs (ops : list pop) : list tx :=
  match ops with
  | [] => []
  | PAdd t :: r => t :: added_txs r
  | _ :: r => added_txs r
  end.
