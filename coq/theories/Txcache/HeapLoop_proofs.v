(** The selection loop run on container/heap (HeapLoop.v) computes what the selection loop of Selection.v computes
    with [pick_best]: a simulation, step by step, under the relation "the heap slice is a permutation of the model's
    cursors and satisfies the heap invariant". *)
From Coq Require Import List NArith ZArith Lia Bool Permutation.
From Verif Require Import Base.BStr Base.ListX Txcache.TxTypes Txcache.Selection Txcache.Pool Txcache.Selection_proofs
  Txcache.Order_proofs Txcache.Selection_det_proofs Txcache.Heap Txcache.Heap_proofs Txcache.HeapLoop.
Import ListNotations.
Open Scope N_scope.

Definition sim (hs ms : st) : Prop := st_equiv hs ms /\ heap_ok sel_less (cursors hs) /\ distinct ms.

Lemma sel_push_correct l x : heap_ok sel_less l -> heap_ok sel_less (push sel_less l x) /\ Permutation (x :: l) (push sel_less l x).
Proof.
  apply (push_correct sel_less sel_lt sel_less_lt (fun a => mv_irrefl (cur a))
           (fun a b c => mv_trans (cur a) (cur b) (cur c)) (fun a b c => mv_ntrans (cur a) (cur b) (cur c))).
Qed.

Lemma sel_init_nil : init sel_less (@nil cursor) = [].
Proof. reflexivity. Qed.

Lemma hstep_sim sess g m f hs ms : sim hs ms ->
  match hstep sess g m hs, step sess g m pick_best f ms with
  | None, None => True
  | Some t, Some t' => sim t t'
  | _, _ => False
  end.
Proof.
  intros ((Hp & Es & Eg & Ec) & Hok & Hd).
  pose proof (step_equiv sess g m f ms ms (conj (Permutation_refl _) (conj eq_refl (conj eq_refl eq_refl))) Hd) as Hself.
  unfold hstep. unfold step, pick_best in *.
  destruct (cursors ms) as [|c0 cs0] eqn:Ecs.
  - apply Permutation_sym, Permutation_nil in Hp. rewrite Hp. rewrite pop_empty. simpl. exact I.
  - assert (Hheads : NoDup (map (fun c => hash (cur c)) (c0 :: cs0))).
    { apply heads_of_distinct. unfold distinct in Hd. rewrite Ecs in Hd. exact Hd. }
    destruct (heap_pop_is_pick_best (cursors hs) (c0 :: cs0) Hok Hp Hheads ltac:(discriminate))
      as (c & h' & n & others & Epop & Hok' & Ph & Eb & Hn & Et & Po).
    rewrite Epop. rewrite Eb in *. rewrite Et in *. rewrite Es, Eg, Ec.
    destruct (g - accGas ms <? gasLimit (cur c)); [exact I|]. destruct (m <=? length (selected ms))%nat; [exact I|].
    destruct (skip_sender sess (consumed ms) c).
    { destruct Hself as (_ & Hd'). split; [|split; [exact Hok'|exact Hd']]. repeat split; try reflexivity. exact Po. }
    destruct (skip_tx sess c).
    + destruct (advance c (latest c)) as [c'|] eqn:Ea; destruct Hself as (_ & Hd').
      * destruct (sel_push_correct h' c' Hok') as (Hok2 & P2). split; [|split; [exact Hok2|exact Hd']].
        repeat split; try reflexivity. cbn [cursors]. rewrite <- P2. constructor. exact Po.
      * split; [|split; [exact Hok'|exact Hd']]. repeat split; try reflexivity. exact Po.
    + destruct (advance c (Some (nonce (cur c)))) as [c'|] eqn:Ea; destruct Hself as (_ & Hd').
      * destruct (sel_push_correct h' c' Hok') as (Hok2 & P2). split; [|split; [exact Hok2|exact Hd']].
        repeat split; try reflexivity. cbn [cursors]. rewrite <- P2. constructor. exact Po.
      * split; [|split; [exact Hok'|exact Hd']]. repeat split; try reflexivity. exact Po.
Qed.

Lemma hloop_sim sess g m fuel hs ms : sim hs ms -> sim (hloop sess g m fuel hs) (loop sess g m pick_best fuel ms).
Proof.
  revert hs ms; induction fuel as [|f IH]; intros hs ms H; cbn [hloop loop]; [exact H|].
  pose proof (hstep_sim sess g m f hs ms H) as Hs.
  destruct (hstep sess g m hs) as [t|]; destruct (step sess g m pick_best f ms) as [t'|]; try contradiction; [|exact H].
  apply IH. exact Hs.
Qed.

(** the pushes that fill the heap produce a heap over exactly the model's initial cursors *)
Lemma hinit_cursors bs h : heap_ok sel_less h ->
  heap_ok sel_less (fold_left hpush_bunch bs h) /\ Permutation (fold_left hpush_bunch bs h) (h ++ mk_cursors bs).
Proof.
  revert h; induction bs as [|b bs IH]; intros h Hok; cbn [fold_left mk_cursors].
  - rewrite app_nil_r. split; [exact Hok|reflexivity].
  - unfold hpush_bunch at 2 4. destruct (mk_cursor b) as [c|].
    + destruct (sel_push_correct h c Hok) as (Hok2 & P2). destruct (IH _ Hok2) as (H1 & H2). split; [exact H1|].
      rewrite H2. rewrite <- P2. cbn [app]. apply Permutation_middle.
    + apply IH. exact Hok.
Qed.

Lemma heap_ok_nil_sel : heap_ok sel_less (@nil cursor).
Proof. intros j Hj. unfold less_at. destruct j; reflexivity. Qed.

Lemma hinit_sim bs : NoDup (map hash (concat bs)) -> sim (hinit_st bs) (init_st bs).
Proof.
  intros Hnd. destruct (hinit_cursors bs [] heap_ok_nil_sel) as (Hok & P).
  split; [|split].
  - unfold hinit_st, init_st. rewrite sel_init_nil. repeat split; cbn [cursors selected accGas consumed]; try reflexivity. exact P.
  - unfold hinit_st. rewrite sel_init_nil. exact Hok.
  - unfold distinct, init_st. cbn [cursors]. rewrite mk_cursors_txs. exact Hnd.
Qed.

(** selectTransactionsFromBunches run on container/heap = the model's selection ([pick_best]), for every session,
    every list of bunches whose transactions have pairwise distinct hashes, every gas and count limit *)
Theorem heap_select_is_select sess bs g m : NoDup (map hash (concat bs)) ->
  heap_select sess bs g m = select sess bs g m.
Proof.
  intros Hnd. unfold heap_select, select.
  destruct (hloop_sim sess g m (S (total_len bs)) _ _ (hinit_sim bs Hnd)) as ((_ & E1 & E2 & _) & _).
  rewrite E1, E2. reflexivity.
Qed.

(** at every iteration the two loops hold the same selection, gas and consumed balances, and the heap slice is a
    permutation of the model's cursors (the statement behind the theorem, for any number of iterations: this is
    what a time budget that stops the loop early observes) *)
Theorem heap_loop_is_loop sess bs g m fuel : NoDup (map hash (concat bs)) ->
  let hs := hloop sess g m fuel (hinit_st bs) in let ms := loop sess g m pick_best fuel (init_st bs) in
  selected hs = selected ms /\ accGas hs = accGas ms /\ consumed hs = consumed ms /\
  Permutation (cursors hs) (cursors ms) /\ heap_ok sel_less (cursors hs).
Proof.
  intros Hnd hs ms. destruct (hloop_sim sess g m fuel _ _ (hinit_sim bs Hnd)) as ((P & E1 & E2 & E3) & Hok & _).
  repeat split; assumption.
Qed.

(** ---------- eviction ---------- *)
From Verif Require Import Txcache.SenderList Txcache.SenderList_proofs Txcache.Pool_proofs Txcache.Pool_props.

Definition edistinct (cs : list ecursor) : Prop := NoDup (map hash (concat (map ctxs cs))).

Lemma evi_push_correct l x : heap_ok evi_less l -> heap_ok evi_less (push evi_less l x) /\ Permutation (x :: l) (push evi_less l x).
Proof.
  apply (push_correct evi_less evi_lt evi_less_lt (fun a => mv_irrefl (ecur a))
           (fun a b c H1 H2 => mv_trans (ecur c) (ecur b) (ecur a) H2 H1)
           (fun a b c H1 H2 => mv_ntrans (ecur c) (ecur b) (ecur a) H2 H1)).
Qed.

Lemma concat_ctxs_perm (l l' : list ecursor) : Permutation l l' ->
  Permutation (concat (map ctxs l)) (concat (map ctxs l')).
Proof.
  induction 1; cbn [map concat]; try reflexivity.
  - apply Permutation_app_head. assumption.
  - rewrite !app_assoc. apply Permutation_app_tail. apply Permutation_app_comm.
  - etransitivity; eassumption.
Qed.

Lemma edistinct_perm l l' : Permutation l l' -> edistinct l -> edistinct l'.
Proof. intros P H. unfold edistinct in *. eapply Permutation_NoDup; [|exact H]. apply Permutation_map, concat_ctxs_perm, P. Qed.

Lemma eheads_of_distinct cs : edistinct cs -> NoDup (map (fun c => hash (ecur c)) cs).
Proof.
  unfold edistinct. induction cs as [|c cs IH]; simpl; intros H; [constructor|].
  unfold ctxs at 1 in H. simpl in H. inversion H; subst. constructor.
  - intros Hin. apply H2. rewrite map_app. apply in_or_app. right. apply in_map_iff in Hin. destruct Hin as (c' & E & Hc').
    rewrite <- E. apply in_map. apply in_concat. exists (ctxs c'). split; [apply in_map; exact Hc'|left; reflexivity].
  - apply IH. rewrite map_app in H3. eapply NoDup_app_r. exact H3.
Qed.

Lemma edistinct_advance c others : edistinct (c :: others) ->
  edistinct (match erest c with [] => others | t :: r => mkEc t r :: others end).
Proof.
  unfold edistinct. cbn [map concat]. unfold ctxs at 1. intros H. destruct (erest c) as [|t r] eqn:Er.
  - simpl in H. inversion H; assumption.
  - cbn [map concat]. unfold ctxs at 1. cbn [ecur erest]. cbn [app map] in H. inversion H; assumption.
Qed.

Lemma htake_batch_sim k : forall h cs, heap_ok evi_less h -> Permutation h cs -> edistinct cs ->
  fst (htake_batch k h) = fst (take_batch k cs) /\
  heap_ok evi_less (snd (htake_batch k h)) /\ Permutation (snd (htake_batch k h)) (snd (take_batch k cs)) /\
  edistinct (snd (take_batch k cs)).
Proof.
  induction k as [|k IH]; intros h cs Hok Hp Hd; cbn [htake_batch take_batch].
  - cbn [fst snd]. repeat split; assumption.
  - destruct cs as [|c0 cs0].
    + apply Permutation_sym, Permutation_nil in Hp. subst h. rewrite pop_empty. cbn [worst_index option_map fst snd].
      repeat split; try assumption. constructor.
    + destruct (heap_pop_is_worst h (c0 :: cs0) Hok Hp (eheads_of_distinct _ Hd) ltac:(discriminate))
        as (c & h' & n & others & Epop & Hok' & Ph & Ew & Hn & Et & Po).
      rewrite Epop, Ew, Et.
      assert (Hd1 : edistinct (c :: others)).
      { eapply edistinct_perm; [|exact Hd]. destruct (take_nth_of_nth _ _ _ Hn) as (o2 & Et2 & P2). rewrite Et in Et2. inversion Et2; subst o2. exact P2. }
      pose proof (edistinct_advance c others Hd1) as Hd2.
      set (cs1 := match erest c with [] => others | t :: r => mkEc t r :: others end) in *.
      set (h1 := match erest c with [] => h' | t :: r => push evi_less h' (mkEc t r) end).
      assert (H1 : heap_ok evi_less h1 /\ Permutation h1 cs1).
      { unfold h1, cs1. destruct (erest c) as [|t r]; [split; assumption|].
        destruct (evi_push_correct h' (mkEc t r) Hok') as (A & B). split; [exact A|]. rewrite <- B. constructor. exact Po. }
      destruct H1 as (Hok1 & P1). destruct (IH h1 cs1 Hok1 P1 Hd2) as (I1 & I2 & I3 & I4).
      destruct (htake_batch k h1) as (b, h2). destruct (take_batch k cs1) as (b', cs2). cbn [fst snd] in *.
      subst b'. repeat split; assumption.
Qed.

Lemma hevict_passes_sim cfg fuel : forall h cs p, heap_ok evi_less h -> Permutation h cs -> edistinct cs ->
  hevict_passes cfg fuel h p = evict_passes cfg fuel cs p.
Proof.
  induction fuel as [|f IH]; intros h cs p Hok Hp Hd; cbn [hevict_passes evict_passes]; [reflexivity|].
  destruct (capacity_exceeded cfg p); [|reflexivity].
  destruct (htake_batch_sim (numItemsToPreemptivelyEvict cfg) h cs Hok Hp Hd) as (I1 & I2 & I3 & I4).
  destruct (htake_batch (numItemsToPreemptivelyEvict cfg) h) as (b, h2).
  destruct (take_batch (numItemsToPreemptivelyEvict cfg) cs) as (b', cs2). cbn [fst snd] in *. subst b'.
  destruct b as [|x b]; [reflexivity|]. apply IH; assumption.
Qed.

Lemma heap_ok_nil_evi : heap_ok evi_less (@nil ecursor).
Proof. intros j Hj. unfold less_at. destruct j; reflexivity. Qed.

Lemma hinit_ecursors_spec ss h : heap_ok evi_less h ->
  heap_ok evi_less (fold_left hpush_ecursor ss h) /\ Permutation (fold_left hpush_ecursor ss h) (h ++ mk_ecursors ss).
Proof.
  revert h; induction ss as [|(a, sl) ss IH]; intros h Hok; cbn [fold_left mk_ecursors].
  - rewrite app_nil_r. split; [exact Hok|reflexivity].
  - unfold hpush_ecursor at 2 4. cbn [snd]. destruct (rev (items sl)) as [|t rr].
    + apply IH. exact Hok.
    + destruct (evi_push_correct h (mkEc t rr) Hok) as (Hok2 & P2). destruct (IH _ Hok2) as (H1 & H2). split; [exact H1|].
      rewrite H2. rewrite <- P2. cbn [app]. apply Permutation_middle.
Qed.

Lemma mk_ecursors_txs_perm ss : Permutation (concat (map ctxs (mk_ecursors ss))) (concat (map (fun s => items (snd s)) ss)).
Proof.
  induction ss as [|(a, sl) ss IH]; cbn [mk_ecursors map concat snd]; [reflexivity|].
  destruct (rev (items sl)) as [|t rr] eqn:Er.
  - assert (items sl = []) by (rewrite <- (rev_involutive (items sl)), Er; reflexivity). rewrite H. exact IH.
  - cbn [map concat]. apply Permutation_app; [|exact IH]. unfold ctxs. cbn [ecur erest]. rewrite <- Er. apply Permutation_sym, Permutation_rev.
Qed.

Lemma inv_edistinct p : Inv p -> edistinct (mk_ecursors (senders p)).
Proof.
  intros HI. unfold edistinct. eapply Permutation_NoDup; [apply Permutation_map, Permutation_sym, mk_ecursors_txs_perm|].
  exact (inv_hash_NoDup p HI).
Qed.

(** doEviction run on container/heap = the model's doEviction ([worst_index]), for every pool satisfying the
    invariant (every reachable pool, [run_pool_inv]) and every configuration *)
Theorem heap_eviction_is_eviction cfg p : Inv p -> hdo_eviction cfg p = do_eviction cfg p.
Proof.
  intros HI. unfold hdo_eviction, do_eviction. destruct (capacity_exceeded cfg p); [|reflexivity].
  destruct (hinit_ecursors_spec (senders p) [] heap_ok_nil_evi) as (Hok & P).
  apply hevict_passes_sim; [exact Hok|exact P|apply inv_edistinct; exact HI].
Qed.
