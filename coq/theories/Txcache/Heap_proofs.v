(** Correctness of the transcription of Go's container/heap (Heap.v): for [less] the boolean of a strict weak
    order (irreflexive, transitive, incomparability transitive — implied by totality on distinct elements),
    [init] establishes the heap invariant, [push]/[pop] preserve it, all three permute, and [pop] returns an
    element that nothing else precedes (THE least one when the order is total on the distinct elements
    present).  The [up]/[down] loops terminate within the fuel that Heap.v gives them.
    Last section: the bridge to the selection / eviction models, whose [best_index] / [worst_index] stand for
    what the max-heap / min-heap pops. *)
From Coq Require Import List Arith ZArith Lia Bool Permutation ZifyNat ZifyBool.
From Verif Require Import Base.BStr Base.ListX Txcache.TxTypes Txcache.Selection Txcache.Pool Txcache.Order_proofs
  Txcache.Pool_props Txcache.Selection_det_proofs Txcache.Heap.
Import ListNotations.
Open Scope nat_scope.

(** ---------- index arithmetic ---------- *)

Module HeapArith.
  Local Ltac Zify.zify_post_hook ::= Z.to_euclidean_division_equations.

  Lemma parent_lt c : 0 < c -> parent c < c.
  Proof. unfold parent. lia. Qed.
  Lemma parent_0 : parent 0 = 0.
  Proof. reflexivity. Qed.
  Lemma parent_child c i : 0 < c -> parent c = i -> c = 2 * i + 1 \/ c = 2 * i + 2.
  Proof. unfold parent. lia. Qed.
  Lemma parent_left i : parent (2 * i + 1) = i.
  Proof. unfold parent. lia. Qed.
  Lemma parent_right i : parent (2 * i + 2) = i.
  Proof. unfold parent. lia. Qed.
  Lemma parent_half c n : 0 < c -> c < n -> parent c < n / 2.
  Proof. unfold parent. lia. Qed.
End HeapArith.
Import HeapArith.

(** ---------- the slice as a list ---------- *)

Section Array.
  Context {A : Type}.

  Lemma set_nth_length (l : list A) i x : length (set_nth l i x) = length l.
  Proof. revert i; induction l as [|y l IH]; intros [|i]; simpl; auto. Qed.

  Lemma nth_error_set_nth_eq (l : list A) i x : i < length l -> nth_error (set_nth l i x) i = Some x.
  Proof. revert i; induction l as [|y l IH]; intros [|i] H; simpl in *; try lia; auto. apply IH. lia. Qed.

  Lemma nth_error_set_nth_neq (l : list A) i k x : k <> i -> nth_error (set_nth l i x) k = nth_error l k.
  Proof. revert i k; induction l as [|y l IH]; intros [|i] [|k] H; simpl; auto; try lia. Qed.

  Lemma set_nth_perm (l : list A) i a x : nth_error l i = Some a -> Permutation (x :: l) (a :: set_nth l i x).
  Proof.
    revert i; induction l as [|y l IH]; intros [|i] H; simpl in *; try discriminate.
    - inversion H; subst. apply perm_swap.
    - eapply perm_trans; [apply perm_swap|]. eapply perm_trans; [apply perm_skip, IH, H|]. apply perm_swap.
  Qed.

  (** the transposition (i j) *)
  Definition tr (i j k : nat) : nat := if k =? i then j else if k =? j then i else k.

  Lemma tr_l i j : tr i j i = j.
  Proof. unfold tr. rewrite Nat.eqb_refl. reflexivity. Qed.
  Lemma tr_r i j : tr i j j = i.
  Proof. unfold tr. destruct (Nat.eqb_spec j i) as [E|E]; [auto|]. rewrite Nat.eqb_refl. reflexivity. Qed.
  Lemma tr_o i j k : k <> i -> k <> j -> tr i j k = k.
  Proof. unfold tr. intros H1 H2. destruct (Nat.eqb_spec k i); [lia|]. destruct (Nat.eqb_spec k j); [lia|reflexivity]. Qed.

  Lemma swap_length (l : list A) i j : length (swap l i j) = length l.
  Proof. unfold swap. destruct (nth_error l i), (nth_error l j); auto. rewrite !set_nth_length. reflexivity. Qed.

  Lemma nth_error_swap (l : list A) i j k : i < length l -> j < length l ->
    nth_error (swap l i j) k = nth_error l (tr i j k).
  Proof.
    intros Hi Hj. unfold swap.
    destruct (nth_error l i) as [a|] eqn:Ea; [|apply nth_error_None in Ea; lia].
    destruct (nth_error l j) as [b|] eqn:Eb; [|apply nth_error_None in Eb; lia].
    unfold tr. destruct (Nat.eqb_spec k j) as [->|Hkj].
    - rewrite nth_error_set_nth_eq by (rewrite set_nth_length; exact Hj).
      destruct (Nat.eqb_spec j i) as [->|_]; [congruence|auto].
    - rewrite nth_error_set_nth_neq by exact Hkj.
      destruct (Nat.eqb_spec k i) as [->|Hki].
      + rewrite nth_error_set_nth_eq by exact Hi. auto.
      + rewrite nth_error_set_nth_neq by exact Hki. reflexivity.
  Qed.

  Lemma swap_perm (l : list A) i j : Permutation l (swap l i j).
  Proof.
    unfold swap. destruct (nth_error l i) as [a|] eqn:Ea; [|apply Permutation_refl].
    destruct (nth_error l j) as [b|] eqn:Eb; [|apply Permutation_refl].
    assert (Hi : i < length l) by (apply nth_error_Some; congruence).
    assert (H1 : Permutation (b :: l) (a :: set_nth l i b)) by (apply set_nth_perm, Ea).
    assert (Ej : nth_error (set_nth l i b) j = Some b).
    { destruct (Nat.eq_dec j i) as [->|Hne]; [apply nth_error_set_nth_eq, Hi|rewrite nth_error_set_nth_neq by exact Hne; exact Eb]. }
    pose proof (set_nth_perm _ _ _ a Ej) as H2.
    apply (Permutation_cons_inv (a := b)). eapply perm_trans; [exact H1|exact H2].
  Qed.

  Lemma nth_error_firstn_lt (l : list A) n k : k < n -> nth_error (firstn n l) k = nth_error l k.
  Proof. revert n k; induction l as [|y l IH]; intros [|n] [|k] H; simpl; auto; try lia. apply IH. lia. Qed.

  Lemma firstn_last (l : list A) n a : length l = S n -> nth_error l n = Some a -> l = firstn n l ++ [a].
  Proof.
    revert n; induction l as [|y l IH]; intros [|n] Hl Hn; simpl in *; try discriminate.
    - inversion Hn; subst. destruct l; [reflexivity|discriminate].
    - f_equal. apply IH; [lia|exact Hn].
  Qed.
End Array.

(** ---------- the heap ---------- *)

Section HeapProofs.
  Context {A : Type}.
  Variable less : A -> A -> bool.
  Variable lt : A -> A -> Prop.
  Hypothesis less_lt : forall a b, less a b = true <-> lt a b.
  Hypothesis lt_irrefl : forall a, ~ lt a a.
  Hypothesis lt_trans : forall a b c, lt a b -> lt b c -> lt a c.
  (** incomparability is transitive (strict weak order); follows from totality, see [total_ntrans] *)
  Hypothesis lt_ntrans : forall a b c, ~ lt a b -> ~ lt b c -> ~ lt a c.

  Notation less_at := (less_at less).
  Notation heap_ok := (heap_ok less).

  Lemma less_false a b : less a b = false <-> ~ lt a b.
  Proof. rewrite <- less_lt. destruct (less a b); split; intros H; congruence. Qed.

  Lemma la_irrefl l a : less_at l a a = false.
  Proof. unfold less_at, less_opt. destruct (nth_error l a) as [x|]; [|reflexivity]. apply less_false, lt_irrefl. Qed.

  Lemma la_trans l a b c : less_at l a b = true -> less_at l b c = true -> less_at l a c = true.
  Proof.
    unfold less_at, less_opt. destruct (nth_error l a) as [x|], (nth_error l b) as [y|], (nth_error l c) as [z|]; try discriminate.
    rewrite !less_lt. apply lt_trans.
  Qed.

  Lemma la_asym l a b : less_at l a b = true -> less_at l b a = false.
  Proof.
    intros H. destruct (less_at l b a) eqn:E; [|reflexivity].
    pose proof (la_trans _ _ _ _ H E) as H1. rewrite la_irrefl in H1. discriminate.
  Qed.

  Lemma la_ntrans l a b c : b < length l -> less_at l a b = false -> less_at l b c = false -> less_at l a c = false.
  Proof.
    intros Hb. unfold less_at, less_opt.
    destruct (nth_error l b) as [y|] eqn:Eb; [|apply nth_error_None in Eb; lia].
    destruct (nth_error l a) as [x|], (nth_error l c) as [z|]; auto.
    rewrite !less_false. apply lt_ntrans.
  Qed.

  Lemma la_oob_l l a b : length l <= a -> less_at l a b = false.
  Proof. intros H. unfold less_at. apply nth_error_None in H. rewrite H. reflexivity. Qed.

  Lemma la_oob_r l a b : length l <= b -> less_at l a b = false.
  Proof. intros H. unfold less_at. apply nth_error_None in H. rewrite H. destruct (nth_error l a); reflexivity. Qed.

  Lemma la_swap l i j a b : i < length l -> j < length l ->
    less_at (swap l i j) a b = less_at l (tr i j a) (tr i j b).
  Proof. intros Hi Hj. unfold less_at. rewrite !nth_error_swap by assumption. reflexivity. Qed.

  Lemma la_app1 l r a b : a < length l -> b < length l -> less_at (l ++ r) a b = less_at l a b.
  Proof. intros Ha Hb. unfold less_at. rewrite !nth_error_app1 by assumption. reflexivity. Qed.

  (** (e) the loops end within their fuel, and more fuel changes nothing *)
  Lemma down_fuel_enough fuel l i n : n - i < fuel -> down_fuel less fuel l i n <> None.
  Proof.
    revert l i; induction fuel as [|f IH]; intros l i H; [lia|]. cbn [down_fuel].
    destruct (Nat.leb_spec n (2 * i + 1)) as [L|L]; [discriminate|].
    destruct (negb _); [discriminate|]. apply IH.
    destruct (_ && _); lia.
  Qed.

  Lemma down_fuel_mono f1 f2 l i n r : down_fuel less f1 l i n = Some r -> f1 <= f2 -> down_fuel less f2 l i n = Some r.
  Proof.
    revert f2 l i; induction f1 as [|f IH]; intros f2 l i H Hle; [discriminate|].
    destruct f2 as [|f2]; [lia|]. cbn [down_fuel] in *.
    destruct (n <=? 2 * i + 1); [exact H|]. destruct (negb _); [exact H|]. apply IH; [exact H|lia].
  Qed.

  Lemma up_fuel_enough fuel l j : j < fuel -> up_fuel less fuel l j <> None.
  Proof.
    revert l j; induction fuel as [|f IH]; intros l j H; [lia|]. cbn [up_fuel].
    destruct (Nat.eqb_spec (parent j) j) as [E|E]; cbn [orb]; [discriminate|].
    destruct (negb _); [discriminate|]. apply IH.
    assert (0 < j) by (destruct j; [rewrite parent_0 in E; lia|lia]). pose proof (parent_lt j H0). lia.
  Qed.

  Lemma up_fuel_mono f1 f2 l j r : up_fuel less f1 l j = Some r -> f1 <= f2 -> up_fuel less f2 l j = Some r.
  Proof.
    revert f2 l j; induction f1 as [|f IH]; intros f2 l j H Hle; [discriminate|].
    destruct f2 as [|f2]; [lia|]. cbn [up_fuel] in *.
    destruct (_ || _); [exact H|]. apply IH; [exact H|lia].
  Qed.

  (** whatever sufficient fuel is supplied, the loop returns what [down] / [up] (Heap.v) return *)
  Lemma down_fuel_down fuel l i n : n - i < fuel -> down_fuel less fuel l i n = Some (down less l i n).
  Proof.
    intros H. unfold down.
    destruct (down_fuel less (S n) l i n) as [r|] eqn:E; [|exfalso; revert E; apply down_fuel_enough; lia].
    destruct (down_fuel less fuel l i n) as [r'|] eqn:E'; [|exfalso; revert E'; apply down_fuel_enough; exact H].
    pose proof (down_fuel_mono _ (Nat.max fuel (S n)) _ _ _ _ E ltac:(lia)) as M.
    pose proof (down_fuel_mono _ (Nat.max fuel (S n)) _ _ _ _ E' ltac:(lia)) as M'. congruence.
  Qed.

  Lemma up_fuel_up fuel l j : j < fuel -> up_fuel less fuel l j = Some (up less l j).
  Proof.
    intros H. unfold up.
    destruct (up_fuel less (S j) l j) as [r|] eqn:E; [|exfalso; revert E; apply up_fuel_enough; lia].
    destruct (up_fuel less fuel l j) as [r'|] eqn:E'; [|exfalso; revert E'; apply up_fuel_enough; exact H].
    pose proof (up_fuel_mono _ (Nat.max fuel (S j)) _ _ _ E ltac:(lia)) as M.
    pose proof (up_fuel_mono _ (Nat.max fuel (S j)) _ _ _ E' ltac:(lia)) as M'. congruence.
  Qed.

  Lemma heap_ok_nil : heap_ok [].
  Proof. intros j _. apply la_oob_l. simpl. lia. Qed.

  (** every edge c -> parent c with c < n whose parent is at or below position k in the tree is in order *)
  Definition inv_from (l : list A) (k n : nat) : Prop :=
    forall c, 0 < c -> c < n -> k <= parent c -> less_at l c (parent c) = false.

  (** ... except the edges below position i, whose children are however in order with i's parent *)
  Definition dinv (l : list A) (k n i : nat) : Prop :=
    (forall c, 0 < c -> c < n -> k <= parent c -> parent c <> i -> less_at l c (parent c) = false) /\
    (0 < i -> k <= parent i -> forall c, 0 < c -> c < n -> parent c = i -> less_at l c (parent i) = false).

  Lemma down_fuel_correct : forall fuel l k n i,
    n <= length l -> k <= i -> n - i < fuel -> dinv l k n i ->
    exists l', down_fuel less fuel l i n = Some l' /\ inv_from l' k n /\ Permutation l l' /\ length l' = length l /\
               (forall x, x < i \/ n <= x -> nth_error l' x = nth_error l x).
  Proof.
    induction fuel as [|f IH]; intros l k n i Hn Hk Hf (HA & HB); [lia|]. cbn [down_fuel].
    destruct (Nat.leb_spec n (2 * i + 1)) as [L|L].
    { exists l. split; [reflexivity|]. split; [|split; [apply Permutation_refl|split; [reflexivity|auto]]].
      intros c Hc Hcn Hkc. apply HA; auto. intros E. destruct (parent_child c i Hc E); lia. }
    set (j := if (2 * i + 1 + 1 <? n) && less_at l (2 * i + 1 + 1) (2 * i + 1) then 2 * i + 1 + 1 else 2 * i + 1).
    assert (Hj : (j = 2 * i + 1 /\ (2 * i + 2 < n -> less_at l (2 * i + 2) (2 * i + 1) = false)) \/
                 (j = 2 * i + 2 /\ 2 * i + 2 < n /\ less_at l (2 * i + 2) (2 * i + 1) = true)).
    { subst j. replace (2 * i + 1 + 1) with (2 * i + 2) by lia.
      destruct (Nat.ltb_spec (2 * i + 2) n) as [L2|L2]; cbn [andb].
      - destruct (less_at l (2 * i + 2) (2 * i + 1)) eqn:E; [right; auto|left; auto].
      - left. split; [reflexivity|lia]. }
    clearbody j.
    assert (Hjn : j < n) by (destruct Hj as [(-> & _)|(-> & ? & _)]; lia).
    assert (Hpj : parent j = i) by (destruct Hj as [(-> & _)|(-> & _)]; [apply parent_left|apply parent_right]).
    assert (Hij : i < j) by (destruct Hj as [(-> & _)|(-> & _)]; lia).
    destruct (less_at l j i) eqn:Eji; cbn [negb].
    - (* swap and continue at j *)
      assert (Hil : i < length l) by lia. assert (Hjl : j < length l) by lia.
      destruct (IH (swap l i j) k n j) as (l' & E' & Hinv & Hperm & Hlen & Hsame).
      + rewrite swap_length. exact Hn.
      + lia.
      + lia.
      + split.
        * intros c Hc Hcn Hkc Hpc. rewrite la_swap by assumption.
          destruct (Nat.eq_dec c i) as [->|Hci].
          { pose proof (parent_lt i Hc). rewrite tr_l, tr_o by lia. apply HB; auto; lia. }
          destruct (Nat.eq_dec c j) as [->|Hcj].
          { rewrite Hpj, tr_r, tr_l. apply la_asym, Eji. }
          rewrite (tr_o i j c) by assumption.
          destruct (Nat.eq_dec (parent c) i) as [Epi|Epi].
          { rewrite Epi, tr_l. destruct (parent_child c i Hc Epi) as [->| ->].
            - destruct Hj as [(-> & _)|(-> & _ & Hl)]; [lia|]. apply la_asym, Hl.
            - destruct Hj as [(-> & Hl)|(-> & _)]; [|lia]. apply Hl. exact Hcn. }
          rewrite tr_o by assumption. apply HA; auto.
        * intros _ _ c Hc Hcn Hpc. pose proof (parent_lt c Hc). rewrite la_swap by assumption.
          rewrite Hpj, tr_l, tr_o by lia. rewrite <- Hpc. apply HA; auto; lia.
      + exists l'. split; [exact E'|]. split; [exact Hinv|]. split; [eapply perm_trans; [apply swap_perm|exact Hperm]|].
        split; [rewrite Hlen; apply swap_length|].
        intros x Hx. rewrite Hsame by lia. rewrite nth_error_swap by assumption. rewrite tr_o by lia. reflexivity.
    - (* both children are in order with i *)
      exists l. split; [reflexivity|]. split; [|split; [apply Permutation_refl|split; [reflexivity|auto]]].
      intros c Hc Hcn Hkc. destruct (Nat.eq_dec (parent c) i) as [Epi|Epi]; [|apply HA; auto].
      rewrite Epi. destruct Hj as [(-> & Hl)|(-> & Hl2 & Hl)]; destruct (parent_child c i Hc Epi) as [->| ->]; auto.
      + apply (la_ntrans l _ (2 * i + 1)); [lia|apply Hl; exact Hcn|exact Eji].
      + destruct (less_at l (2 * i + 1) i) eqn:E1; [|reflexivity].
        rewrite (la_trans _ _ _ _ Hl E1) in Eji. discriminate.
  Qed.

  Lemma down_correct l k n i : n <= length l -> k <= i -> dinv l k n i ->
    inv_from (down less l i n) k n /\ Permutation l (down less l i n) /\ length (down less l i n) = length l /\
    (forall x, x < i \/ n <= x -> nth_error (down less l i n) x = nth_error l x).
  Proof.
    intros Hn Hk Hd. destruct (down_fuel_correct (S n) l k n i Hn Hk ltac:(lia) Hd) as (l' & E & H).
    unfold down. rewrite E. exact H.
  Qed.

  (** every edge is in order except j -> parent j; j's children are in order with j's parent *)
  Definition uinv (l : list A) (j : nat) : Prop :=
    (forall c, 0 < c -> c <> j -> less_at l c (parent c) = false) /\
    (0 < j -> forall c, 0 < c -> parent c = j -> less_at l c (parent j) = false).

  Lemma up_fuel_correct : forall fuel l j, j < length l -> j < fuel -> uinv l j ->
    exists l', up_fuel less fuel l j = Some l' /\ heap_ok l' /\ Permutation l l' /\ length l' = length l.
  Proof.
    induction fuel as [|f IH]; intros l j Hjl Hf (HA & HB); [lia|]. cbn [up_fuel].
    destruct (Nat.eqb_spec (parent j) j) as [E|E]; cbn [orb].
    { exists l. split; [reflexivity|]. split; [|split; [apply Permutation_refl|reflexivity]].
      intros c Hc. apply HA; [exact Hc|]. intros ->. pose proof (parent_lt j Hc). lia. }
    assert (Hj : 0 < j) by (destruct j; [rewrite parent_0 in E; lia|lia]).
    pose proof (parent_lt j Hj) as Hpj. set (i := parent j) in *.
    destruct (less_at l j i) eqn:Eji; cbn [negb].
    - assert (Hil : i < length l) by lia.
      destruct (IH (swap l i j) i) as (l' & E' & Hok & Hperm & Hlen).
      + rewrite swap_length. exact Hil.
      + lia.
      + split.
        * intros c Hc Hci. rewrite la_swap by assumption.
          destruct (Nat.eq_dec c j) as [->|Hcj].
          { fold i. rewrite tr_r, tr_l. apply la_asym, Eji. }
          rewrite (tr_o i j c) by assumption.
          destruct (Nat.eq_dec (parent c) i) as [Epi|Epi].
          { rewrite Epi, tr_l. destruct (less_at l c j) eqn:Ecj; [|reflexivity].
            pose proof (la_trans _ _ _ _ Ecj Eji) as H1. rewrite <- Epi in H1. rewrite HA in H1 by assumption. discriminate. }
          destruct (Nat.eq_dec (parent c) j) as [Epj|Epj].
          { rewrite Epj, tr_r. apply HB; assumption. }
          rewrite tr_o by assumption. apply HA; assumption.
        * intros Hi c Hc Hpc. pose proof (parent_lt i Hi) as Hpi. pose proof (parent_lt c Hc) as Hpc'.
          rewrite la_swap by assumption. rewrite (tr_o i j (parent i)) by lia.
          destruct (Nat.eq_dec c j) as [->|Hcj].
          { rewrite tr_r. apply HA; lia. }
          rewrite tr_o by lia. apply (la_ntrans l c i); [exact Hil| |apply HA; lia].
          rewrite <- Hpc. apply HA; assumption.
      + exists l'. split; [exact E'|]. split; [exact Hok|]. split; [eapply perm_trans; [apply swap_perm|exact Hperm]|].
        rewrite Hlen. apply swap_length.
    - exists l. split; [reflexivity|]. split; [|split; [apply Permutation_refl|reflexivity]].
      intros c Hc. destruct (Nat.eq_dec c j) as [->|Hcj]; [exact Eji|apply HA; assumption].
  Qed.

  (** (b) Init *)
  Lemma init_loop_correct : forall k l n, n = length l -> inv_from l k n ->
    inv_from (init_loop less k l n) 0 n /\ Permutation l (init_loop less k l n) /\ length (init_loop less k l n) = length l.
  Proof.
    induction k as [|i IH]; intros l n Hn Hinv; cbn [init_loop].
    - split; [exact Hinv|split; [apply Permutation_refl|reflexivity]].
    - destruct (down_correct l i n i) as (H1 & H2 & H3 & _); [lia|lia| |].
      + split.
        * intros c Hc Hcn Hkc Hpc. apply Hinv; auto. lia.
        * intros Hi Hle. pose proof (parent_lt i Hi). lia.
      + destruct (IH (down less l i n) n) as (G1 & G2 & G3); [lia|exact H1|].
        split; [exact G1|]. split; [eapply perm_trans; eassumption|lia].
  Qed.

  Lemma inv_from_heap_ok l : inv_from l 0 (length l) -> heap_ok l.
  Proof.
    intros H j Hj. destruct (Nat.lt_ge_cases j (length l)) as [L|L]; [apply H; auto; lia|apply la_oob_l, L].
  Qed.

  Lemma init_correct l : heap_ok (init less l) /\ Permutation l (init less l).
  Proof.
    unfold init. destruct (init_loop_correct (length l / 2) l (length l) eq_refl) as (H1 & H2 & H3).
    - intros c Hc Hcn Hkc. pose proof (parent_half c (length l) Hc Hcn). lia.
    - split; [|exact H2]. apply inv_from_heap_ok. rewrite H3. exact H1.
  Qed.

  (** (c) Push *)
  Lemma push_correct l x : heap_ok l -> heap_ok (push less l x) /\ Permutation (x :: l) (push less l x).
  Proof.
    intros Hok. unfold push. rewrite app_length. cbn [length]. replace (length l + 1 - 1) with (length l) by lia.
    destruct (up_fuel_correct (S (length l)) (l ++ [x]) (length l)) as (l' & E & H1 & H2 & _).
    - rewrite app_length. simpl. lia.
    - lia.
    - split.
      + intros c Hc Hne. pose proof (parent_lt c Hc).
        destruct (Nat.lt_ge_cases c (length l)) as [L|L]; [rewrite la_app1 by lia; apply Hok, Hc|].
        apply la_oob_l. rewrite app_length. simpl. lia.
      + intros _ c Hc Hpc. pose proof (parent_lt c Hc). apply la_oob_l. rewrite app_length. simpl. lia.
    - unfold up. rewrite E. split; [exact H1|]. eapply perm_trans; [apply Permutation_cons_append|exact H2].
  Qed.

  (** the root of a heap is preceded by nothing *)
  Lemma heap_root_min l : heap_ok l -> forall j, less_at l j 0 = false.
  Proof.
    intros Hok j. induction j as [j IH] using (well_founded_induction Wf_nat.lt_wf).
    destruct j as [|j]; [apply la_irrefl|].
    destruct (Nat.lt_ge_cases (S j) (length l)) as [L|L]; [|apply la_oob_l, L].
    pose proof (parent_lt (S j) ltac:(lia)) as Hp.
    apply (la_ntrans l _ (parent (S j))); [lia|apply Hok; lia|apply IH, Hp].
  Qed.

  (** (d) Pop *)
  Lemma pop_correct l : heap_ok l -> l <> [] ->
    exists m l', pop less l = Some (m, l') /\ heap_ok l' /\ Permutation l (m :: l') /\ nth_error l 0 = Some m /\
                 (forall y, In y l' -> ~ lt y m).
  Proof.
    intros Hok Hne. destruct l as [|a0 r]; [contradiction|]. clear Hne.
    set (l := a0 :: r) in *. set (n := length l - 1).
    assert (Hln : length l = S n) by (subst n l; simpl; lia).
    assert (H0 : 0 < length l) by lia. assert (Hnl : n < length l) by lia.
    destruct (down_correct (swap l 0 n) 0 n 0) as (H1 & H2 & H3 & H4).
    { rewrite swap_length. lia. }
    { lia. }
    { split; [|intros; lia]. intros c Hc Hcn _ Hpc. pose proof (parent_lt c Hc).
      rewrite la_swap by assumption. rewrite !tr_o by lia. apply Hok, Hc. }
    set (l2 := down less (swap l 0 n) 0 n) in *.
    assert (En : nth_error l2 n = Some a0).
    { rewrite H4 by lia. rewrite nth_error_swap by assumption. rewrite tr_r. reflexivity. }
    rewrite swap_length in H3.
    exists a0, (firstn n l2). split; [|split; [|split; [|split]]].
    - unfold pop. fold l. fold n. fold l2. rewrite En. reflexivity.
    - intros j Hj. destruct (Nat.lt_ge_cases j n) as [L|L].
      + pose proof (parent_lt j Hj). unfold Heap.less_at. rewrite !nth_error_firstn_lt by lia. apply H1; [exact Hj|exact L|lia].
      + apply la_oob_l. rewrite firstn_length. lia.
    - eapply perm_trans; [apply swap_perm|]. eapply perm_trans; [exact H2|].
      rewrite (firstn_last l2 n a0) at 1 by (try exact En; lia).
      apply Permutation_sym, Permutation_cons_append.
    - reflexivity.
    - intros y Hy.
      assert (Hyl : In y l).
      { eapply Permutation_in; [apply Permutation_sym; eapply perm_trans; [apply (swap_perm l 0 n)|exact H2]|].
        rewrite <- (firstn_skipn n l2). apply in_or_app. left. exact Hy. }
      destruct (In_nth_error _ _ Hyl) as (k & Ek). pose proof (heap_root_min l Hok k) as Hm.
      unfold Heap.less_at in Hm. rewrite Ek in Hm. cbn in Hm. apply less_false, Hm.
  Qed.

  (** with the order total on the distinct elements present, what Pop returns strictly precedes the rest *)
  Lemma pop_least l : heap_ok l -> l <> [] -> NoDup l ->
    (forall a b, In a l -> In b l -> a <> b -> lt a b \/ lt b a) ->
    exists m l', pop less l = Some (m, l') /\ heap_ok l' /\ Permutation l (m :: l') /\ forall y, In y l' -> lt m y.
  Proof.
    intros Hok Hne Hnd Htot. destruct (pop_correct l Hok Hne) as (m & l' & E & H1 & H2 & _ & H3).
    exists m, l'. split; [exact E|]. split; [exact H1|]. split; [exact H2|].
    intros y Hy. pose proof (Permutation_NoDup H2 Hnd) as Hnd'. inversion Hnd' as [|? ? Hnin _]; subst.
    destruct (Htot m y) as [H|H].
    - eapply Permutation_in; [apply Permutation_sym, H2|left; reflexivity].
    - eapply Permutation_in; [apply Permutation_sym, H2|right; exact Hy].
    - intros ->. contradiction.
    - exact H.
    - exfalso. exact (H3 y Hy H).
  Qed.

  (** (b)-(d) together *)
  Lemma init_push_pop_invariant :
    (forall l, heap_ok (init less l) /\ Permutation l (init less l)) /\
    (forall l x, heap_ok l -> heap_ok (push less l x) /\ Permutation (x :: l) (push less l x)) /\
    (forall l, heap_ok l -> l <> [] ->
       exists m l', pop less l = Some (m, l') /\ heap_ok l' /\ Permutation l (m :: l') /\ nth_error l 0 = Some m /\
                    (forall y, In y l' -> ~ lt y m)).
  Proof. exact (conj init_correct (conj push_correct pop_correct)). Qed.

  (** (e) *)
  Lemma loops_within_fuel :
    (forall fuel l i n, n - i < fuel -> down_fuel less fuel l i n = Some (down less l i n)) /\
    (forall fuel l j, j < fuel -> up_fuel less fuel l j = Some (up less l j)).
  Proof. exact (conj down_fuel_down up_fuel_up). Qed.

  Lemma pop_empty : pop less [] = None.
  Proof. reflexivity. Qed.

  (** whatever designates THE least element of a list designates what Pop returns from any heap over it *)
  Lemma pop_is_the_least h cs n cn : heap_ok h -> Permutation h cs -> NoDup cs ->
    (forall a b, In a cs -> In b cs -> a <> b -> lt a b \/ lt b a) ->
    nth_error cs n = Some cn -> (forall k c, nth_error cs k = Some c -> k <> n -> lt cn c) ->
    exists h', pop less h = Some (cn, h') /\ heap_ok h' /\ Permutation h (cn :: h').
  Proof.
    intros Hok Hperm Hnd Htot Hn Hmin.
    assert (Hin : forall x, In x h <-> In x cs).
    { intros x; split; apply Permutation_in; [exact Hperm|apply Permutation_sym, Hperm]. }
    assert (Hne : h <> []).
    { intros ->. apply nth_error_In in Hn. apply Hin in Hn. destruct Hn. }
    destruct (pop_least h Hok Hne) as (m & h' & E & H1 & H2 & H3).
    { eapply Permutation_NoDup; [apply Permutation_sym, Hperm|exact Hnd]. }
    { intros a b Ha Hb. apply Htot; apply Hin; assumption. }
    assert (Em : m = cn).
    { assert (Hm : In m cs) by (apply Hin; eapply Permutation_in; [apply Permutation_sym, H2|left; reflexivity]).
      destruct (In_nth_error _ _ Hm) as (k & Ek).
      destruct (Nat.eq_dec k n) as [->|Hkn]; [congruence|].
      pose proof (Hmin k m Ek Hkn) as Hlt.
      assert (Hc : In cn (m :: h')) by (eapply Permutation_in; [exact H2|apply Hin; eapply nth_error_In; exact Hn]).
      destruct Hc as [Hc|Hc]; [exact Hc|]. exfalso. exact (lt_irrefl _ (lt_trans _ _ _ Hlt (H3 cn Hc))). }
    subst m. exists h'. auto.
  Qed.
End HeapProofs.

(** a strict order that is total on distinct elements is a strict weak order *)
Lemma total_ntrans {A} (lt : A -> A -> Prop) :
  (forall a b c, lt a b -> lt b c -> lt a c) ->
  (forall a b, a <> b -> lt a b \/ lt b a) ->
  forall a b c, ~ lt a b -> ~ lt b c -> ~ lt a c.
Proof.
  intros Htr Htot a b c H1 H2 H3.
  assert (Hab : ~ a <> b).
  { intros Hne. destruct (Htot a b Hne) as [H|H]; [exact (H1 H)|]. exact (H2 (Htr _ _ _ H H3)). }
  apply Hab. intros ->. exact (H2 H3).
Qed.

(** (d) for a strict total order (the hypotheses as usually stated) *)
Lemma pop_least_total_order {A} (less : A -> A -> bool) (lt : A -> A -> Prop) :
  (forall a b, less a b = true <-> lt a b) -> (forall a, ~ lt a a) -> (forall a b c, lt a b -> lt b c -> lt a c) ->
  (forall a b, a <> b -> lt a b \/ lt b a) ->
  forall l, heap_ok less l -> l <> [] -> NoDup l ->
  exists m l', pop less l = Some (m, l') /\ heap_ok less l' /\ Permutation l (m :: l') /\ forall y, In y l' -> lt m y.
Proof.
  intros H1 H2 H3 H4 l Hok Hne Hnd.
  apply (pop_least less lt H1 H2 H3 (total_ntrans lt H3 H4) l Hok Hne Hnd). intros a b _ _. apply H4.
Qed.

(** ---------- the bridge to the selection and eviction models ---------- *)

Lemma mv_ntrans a b c : ~ mv a b -> ~ mv b c -> ~ mv a c.
Proof.
  rewrite !mv_spec. intros H1 H2 H3.
  assert (Hh : bcmp (hash a) (hash c) = Lt -> bcmp (hash a) (hash b) = Lt \/ bcmp (hash b) (hash c) = Lt).
  { intros L. destruct (beqb_spec (hash a) (hash b)) as [E|E]; [right; rewrite <- E; exact L|].
    destruct (bcmp_total _ _ E) as [L'|L']; [left; exact L'|right; eapply bcmp_lt_trans; eassumption]. }
  destruct (N.lt_trichotomy (ppu a) (ppu b)) as [P|[P|P]]; [| |apply H1; left; exact P].
  - apply H2. left. destruct H3 as [H3|(E3 & _)]; lia.
  - destruct (N.lt_trichotomy (gasLimit a) (gasLimit b)) as [G|[G|G]]; [| |apply H1; right; split; [exact P|left; exact G]].
    + apply H2. destruct H3 as [H3|(E3 & [H3|(G3 & H3)])]; [left; lia|right; split; [lia|left; lia]|right; split; [lia|left; lia]].
    + destruct H3 as [H3|(E3 & [H3|(G3 & H3)])]; [apply H2; left; lia|apply H2; right; split; [lia|left; lia]|].
      destruct (Hh H3) as [L|L]; [apply H1|apply H2]; right; (split; [lia|]); right; (split; [lia|exact L]).
Qed.

Lemma NoDup_map_inj_in {C B} (f : C -> B) (l : list C) a b :
  NoDup (map f l) -> In a l -> In b l -> f a = f b -> a = b.
Proof.
  induction l as [|x l IH]; intros Hnd Ha Hb E; [destruct Ha|]. simpl in Hnd. inversion Hnd as [|? ? Hnin Hnd']; subst.
  destruct Ha as [->|Ha], Hb as [->|Hb]; auto.
  - exfalso. apply Hnin. rewrite E. apply in_map, Hb.
  - exfalso. apply Hnin. rewrite <- E. apply in_map, Ha.
Qed.

Lemma NoDup_of_map {C B} (f : C -> B) (l : list C) : NoDup (map f l) -> NoDup l.
Proof.
  induction l as [|x l IH]; intros H; [constructor|]. simpl in H. inversion H as [|? ? Hnin Hnd]; subst.
  constructor; [intros Hin; apply Hnin, in_map, Hin|apply IH, Hnd].
Qed.

(** heads with pairwise distinct hashes: the order on the cursors is total on the cursors present *)
Lemma heads_total {C} (head : C -> tx) (R : tx -> tx -> Prop) (cs : list C) :
  (forall a b, hash a <> hash b -> R a b \/ R b a) ->
  NoDup (map (fun c => hash (head c)) cs) ->
  forall a b, In a cs -> In b cs -> a <> b -> R (head a) (head b) \/ R (head b) (head a).
Proof.
  intros Htot Hnd a b Ha Hb Hne. apply Htot. intros E. apply Hne.
  exact (NoDup_map_inj_in (fun c => hash (head c)) cs a b Hnd Ha Hb E).
Qed.

(** selection: the max-heap *)
Definition sel_lt (c1 c2 : cursor) : Prop := mv (cur c1) (cur c2).

Lemma sel_less_lt a b : sel_less a b = true <-> sel_lt a b.
Proof. reflexivity. Qed.

Theorem heap_pop_is_pick_best h cs : heap_ok sel_less h -> Permutation h cs ->
  NoDup (map (fun c => hash (cur c)) cs) -> cs <> [] ->
  exists c h' n others,
    pop sel_less h = Some (c, h') /\ heap_ok sel_less h' /\ Permutation h (c :: h') /\
    best_index cs 0 None = Some n /\ nth_error cs n = Some c /\
    take_nth n cs = Some (c, others) /\ Permutation h' others.
Proof.
  intros Hok Hperm Hnd Hne. destruct cs as [|c0 cs0]; [contradiction|]. clear Hne.
  destruct (best_index_nonempty c0 cs0) as (n & En). set (cs := c0 :: cs0) in *.
  destruct (best_index_max cs n Hnd En) as (cn & Hn & Hmax).
  destruct (pop_is_the_least sel_less sel_lt sel_less_lt (fun a => mv_irrefl (cur a))
              (fun a b c => mv_trans (cur a) (cur b) (cur c)) (fun a b c => mv_ntrans (cur a) (cur b) (cur c))
              h cs n cn Hok Hperm (NoDup_of_map _ _ Hnd)
              (heads_total cur mv cs mv_total Hnd) Hn Hmax) as (h' & E & H1 & H2).
  destruct (take_nth_of_nth cs n cn Hn) as (others & Et & Pt).
  exists cn, h', n, others. repeat (split; [assumption|]).
  apply (Permutation_cons_inv (a := cn)). eapply perm_trans; [apply Permutation_sym, H2|].
  eapply perm_trans; [exact Hperm|exact Pt].
Qed.

Lemma heap_pop_empty_sel h : Permutation h (@nil cursor) -> pop sel_less h = None /\ best_index [] 0 None = None.
Proof. intros H. apply Permutation_sym, Permutation_nil in H. subst h. split; reflexivity. Qed.

(** eviction: the min-heap *)
Definition evi_lt (c1 c2 : ecursor) : Prop := mv (ecur c2) (ecur c1).

Lemma evi_less_lt a b : evi_less a b = true <-> evi_lt a b.
Proof. reflexivity. Qed.

Theorem heap_pop_is_worst h cs : heap_ok evi_less h -> Permutation h cs ->
  NoDup (map (fun c => hash (ecur c)) cs) -> cs <> [] ->
  exists c h' n others,
    pop evi_less h = Some (c, h') /\ heap_ok evi_less h' /\ Permutation h (c :: h') /\
    worst_index cs 0 None = Some n /\ nth_error cs n = Some c /\
    take_nth n cs = Some (c, others) /\ Permutation h' others.
Proof.
  intros Hok Hperm Hnd Hne. destruct cs as [|c0 cs0]; [contradiction|]. clear Hne.
  destruct (worst_index_nonempty c0 cs0) as (n & En & _). set (cs := c0 :: cs0) in *.
  destruct (worst_index_min cs n Hnd En) as (cn & Hn & Hmin).
  destruct (pop_is_the_least evi_less evi_lt evi_less_lt (fun a => mv_irrefl (ecur a))
              (fun a b c H1 H2 => mv_trans (ecur c) (ecur b) (ecur a) H2 H1)
              (fun a b c H1 H2 => mv_ntrans (ecur c) (ecur b) (ecur a) H2 H1)
              h cs n cn Hok Hperm (NoDup_of_map _ _ Hnd)
              (heads_total ecur (fun a b => mv b a) cs
                 (fun a b Hne => mv_total b a (fun E => Hne (eq_sym E))) Hnd) Hn Hmin) as (h' & E & H1 & H2).
  destruct (take_nth_of_nth cs n cn Hn) as (others & Et & Pt).
  exists cn, h', n, others. repeat (split; [assumption|]).
  apply (Permutation_cons_inv (a := cn)). eapply perm_trans; [apply Permutation_sym, H2|].
  eapply perm_trans; [exact Hperm|exact Pt].
Qed.

Lemma heap_pop_empty_evi h : Permutation h (@nil ecursor) -> pop evi_less h = None /\ worst_index [] 0 None = None.
Proof. intros H. apply Permutation_sym, Permutation_nil in H. subst h. split; reflexivity. Qed.
