(** txcache/selection.go, transactionsHeapItem.go, selectionSessionWrapper.go.

    The loop is written once, parametrised by the choice of the next cursor ([pick]): the
    ENVELOPE.  The deterministic selection is the instance where [pick] returns the cursor whose
    current transaction is the most valuable (what the max-heap pops); C01/C02 are proved for the
    envelope (any pick), C03 for the instance. *)
From Coq Require Import List NArith ZArith Bool.
From Verif Require Import Base.BStr Txcache.TxTypes.
Import ListNotations.
Open Scope N_scope.

(** SelectionSession: account lookup (None = lookup failure -> nonce 0, balance 0), guard verdict *)
Record session := mkSession { acct : bytes -> option (N * Z); guarded : tx -> bool }.

Definition sess_nonce (s : session) (a : bytes) : N := match acct s a with Some (n, _) => n | None => 0 end.
Definition sess_balance (s : session) (a : bytes) : Z := match acct s a with Some (_, b) => b | None => 0%Z end.

(** accountRecord.consumedBalance per address *)
Fixpoint consumed_of (c : list (bytes * Z)) (a : bytes) : Z :=
  match c with [] => 0%Z | (k, v) :: r => if beqb k a then v else consumed_of r a end.
Fixpoint consume (c : list (bytes * Z)) (a : bytes) (d : Z) : list (bytes * Z) :=
  match c with
  | [] => [(a, d)]
  | (k, v) :: r => if beqb k a then (k, (v + d)%Z) :: r else (k, v) :: consume r a d
  end.

(** transactionsHeapItem *)
Record cursor := mkCursor { csender : bytes; cur : tx; rest : list tx; latest : option N }.

Record st := mkSt { cursors : list cursor; selected : list tx (* reversed *); accGas : N;
                    consumed : list (bytes * Z) }.

Definition initial_gap (sn : N) (c : cursor) : bool :=
  match latest c with Some _ => false | None => sn <? nonce (cur c) end.
(** latestSelectedTransactionNonce+1 is a uint64 addition *)
Definition middle_gap (c : cursor) : bool :=
  match latest c with None => false | Some l => ((l + 1) mod two64) <? nonce (cur c) end.
Definition fee_exceeds (s : session) (cons : list (bytes * Z)) (t : tx) : bool :=
  (sess_balance s (feePayer t) <? consumed_of cons (feePayer t) + fee t)%Z.
(** detectSkippableSender *)
Definition skip_sender (s : session) (cons : list (bytes * Z)) (c : cursor) : bool :=
  initial_gap (sess_nonce s (csender c)) c || middle_gap c || fee_exceeds s cons (cur c).
Definition lower_nonce (sn : N) (c : cursor) : bool := nonce (cur c) <? sn.
Definition nonce_dup (c : cursor) : bool :=
  match latest c with None => false | Some l => nonce (cur c) =? l end.
(** detectSkippableTransaction *)
Definition skip_tx (s : session) (c : cursor) : bool :=
  lower_nonce (sess_nonce s (csender c)) c || guarded s (cur c) || nonce_dup c.

(** gotoNextTransaction *)
Definition advance (c : cursor) (lat : option N) : option cursor :=
  match rest c with [] => None | t :: r => Some (mkCursor (csender c) t r lat) end.

(** accumulateConsumedBalance: value charged to the sender, fee to the fee payer *)
Definition accumulate (cons : list (bytes * Z)) (t : tx) : list (bytes * Z) :=
  let c1 := match value t with Some v => consume cons (sender t) v | None => cons end in
  consume c1 (feePayer t) (fee t).

Fixpoint take_nth {A} (i : nat) (l : list A) : option (A * list A) :=
  match l, i with
  | [], _ => None
  | x :: r, O => Some (x, r)
  | x :: r, S j => match take_nth j r with Some (y, r') => Some (y, x :: r') | None => None end
  end.

Section Loop.
  Variable sess : session.
  Variable gasRequested : N.
  Variable maxNum : nat.
  Variable pick : nat -> st -> option nat.   (* None = stop *)

  (** one iteration of the selection loop; None = the loop ends.
      Budget test after the fix of F2: gasLimit > gasRequested - accumulatedGas (no wrap because
      accumulatedGas <= gasRequested is an invariant). *)
  Definition step (fuel : nat) (s : st) : option st :=
    match pick fuel s with
    | None => None
    | Some i =>
      match take_nth i (cursors s) with
      | None => None
      | Some (c, others) =>
        let gl := gasLimit (cur c) in
        if gasRequested - accGas s <? gl then None
        else if (maxNum <=? length (selected s))%nat then None
        else if skip_sender sess (consumed s) c then Some (mkSt others (selected s) (accGas s) (consumed s))
        else
          let '(sel, acc, cns, lat) :=
            if skip_tx sess c then (selected s, accGas s, consumed s, latest c)
            else (cur c :: selected s, accGas s + gl, accumulate (consumed s) (cur c), Some (nonce (cur c))) in
          match advance c lat with
          | Some c' => Some (mkSt (c' :: others) sel acc cns)
          | None => Some (mkSt others sel acc cns)
          end
      end
    end.

  Fixpoint loop (fuel : nat) (s : st) : st :=
    match fuel with
    | O => s
    | S f => match step f s with None => s | Some s' => loop f s' end
    end.
End Loop.

Definition mk_cursor (b : list tx) : option cursor :=
  match b with [] => None | t :: r => Some (mkCursor (sender t) t r None) end.
Fixpoint mk_cursors (bs : list (list tx)) : list cursor :=
  match bs with
  | [] => []
  | b :: r => match mk_cursor b with Some c => c :: mk_cursors r | None => mk_cursors r end
  end.
Definition init_st (bs : list (list tx)) : st := mkSt (mk_cursors bs) [] 0 [].

(** what heap.Pop of the max-heap returns: the index of the cursor whose current transaction is
    more valuable than every other one (a strict total order on distinct hashes) *)
Fixpoint best_index (cs : list cursor) (i : nat) (best : option (nat * tx)) : option nat :=
  match cs with
  | [] => option_map fst best
  | c :: r =>
      match best with
      | None => best_index r (S i) (Some (i, cur c))
      | Some (_, bt) => if more_valuable (cur c) bt then best_index r (S i) (Some (i, cur c))
                        else best_index r (S i) best
      end
  end.
Definition pick_best (_ : nat) (s : st) : option nat := best_index (cursors s) 0 None.

Definition total_len (bs : list (list tx)) : nat := fold_right (fun b a => (length b + a)%nat) 0%nat bs.

(** selectTransactionsFromBunches with an unbounded time budget: (transactions, accumulated gas) *)
Definition select (sess : session) (bunches : list (list tx)) (gasRequested : N) (maxNum : nat) : list tx * N :=
  let s := loop sess gasRequested maxNum pick_best (S (total_len bunches)) (init_st bunches) in
  (rev (selected s), accGas s).
