(** Property-level consequences of the mempool invariant: C04, C05, C06, C07, reachability for C01/C02. *)
From Coq Require Import List NArith ZArith Lia Bool Permutation Sorting.Sorted ZifyN ZifyNat ZifyBool.
From Verif Require Import Base.BStr Base.ListX Txcache.TxTypes Txcache.SenderList Txcache.Selection Txcache.Pool
  Txcache.SenderList_proofs Txcache.Selection_proofs Txcache.Pool_proofs Txcache.Order_proofs.
Import ListNotations.
Open Scope Z_scope.

(** all pooled transactions, through the senders' lists *)
Definition pool_txs (p : pool) : list tx := concat (bunches p).

Lemma pool_for_sender_old p a : pool_for_sender p a = old_items p a.
Proof. reflexivity. Qed.

Lemma in_pool_txs p t : In t (pool_txs p) <-> exists a sl, In (a, sl) (senders p) /\ In t (items sl).
Proof.
  unfold pool_txs, bunches. rewrite in_concat. split.
  - intros (l & Hl & Ht). apply in_map_iff in Hl. destruct Hl as ((a, sl) & <- & Hin). exists a, sl. auto.
  - intros (a & sl & Hin & Ht). exists (items sl). split; [|exact Ht]. apply in_map_iff. exists (a, sl). auto.
Qed.

Lemma listed_iff_in p t : SL p -> (listed p t <-> In t (pool_txs p)).
Proof.
  intros (Hnd & Hok & _). rewrite in_pool_txs. split.
  - intros (sl & Hsl & Hin). exists (sender t), sl. split; [apply alookup_In; exact Hsl|exact Hin].
  - intros (a & sl & Hin & Ht). assert (Hl : alookup (senders p) a = Some sl) by (apply In_alookup; assumption).
    destruct (Hok _ _ Hl) as (_ & _ & Hsnd & _). exists sl. rewrite (proj1 (Hsnd t Ht)). auto.
Qed.

Lemma pool_txs_NoDup p : SL p -> NoDup (pool_txs p).
Proof.
  intros (Hnd & Hok & _). unfold pool_txs, bunches.
  assert (G : forall ss, NoDup (map fst ss) -> (forall a sl, In (a, sl) ss -> sorted (items sl) /\ forall t, In t (items sl) -> sender t = a) ->
              NoDup (concat (map (fun s => items (snd s)) ss))).
  { induction ss as [|(a, sl) ss IH]; intros Hn Hall; simpl; [constructor|].
    inversion Hn; subst. apply NoDup_app_intro.
    - apply sorted_NoDup. apply (Hall a sl). left. reflexivity.
    - apply IH; [assumption|]. intros a0 sl0 H0. apply Hall. right. exact H0.
    - intros x Hx Hx'. apply in_concat in Hx'. destruct Hx' as (l & Hl & Hxl). apply in_map_iff in Hl.
      destruct Hl as ((a', sl') & <- & Hin'). simpl in Hxl.
      assert (sender x = a) by (apply (Hall a sl); [left; reflexivity|exact Hx]).
      assert (sender x = a') by (apply (Hall a' sl'); [right; exact Hin'|exact Hxl]).
      apply H1. apply (in_map fst) in Hin'. simpl in Hin'. congruence. }
  apply G; [exact Hnd|]. intros a sl Hin. assert (Hl : alookup (senders p) a = Some sl) by (apply In_alookup; assumption).
  destruct (Hok _ _ Hl) as (_ & Hs & Hsnd & _). split; [exact Hs|]. intros t Ht. apply Hsnd. exact Ht.
Qed.

Lemma byHash_values_NoDup p : BH p -> NoDup (map snd (byHash p)).
Proof.
  intros (Hnd & Hh & _). assert (G : forall l : list (bytes * tx), NoDup (map fst l) -> (forall h t, In (h, t) l -> hash t = h) -> NoDup (map snd l)).
  { induction l as [|(h, t) l IH]; intros Hn Hk; simpl; [constructor|]. inversion Hn; subst. constructor.
    - intros Hin. apply in_map_iff in Hin. destruct Hin as ((h', t') & E & Hin). simpl in E. subst t'.
      assert (h' = h). { rewrite <- (Hk h' t (or_intror Hin)). apply Hk. left. reflexivity. }
      subst h'. apply H1. apply (in_map fst) in Hin. exact Hin.
    - apply IH; [assumption|]. intros h' t' H'. apply Hk. right. exact H'. }
  apply G; [exact Hnd|]. intros h t Hin. apply Hh. apply In_alookup; assumption.
Qed.

(** C05: the two indexes hold the same set *)
Lemma inv_same_set p : Inv p -> Permutation (map snd (byHash p)) (pool_txs p).
Proof.
  intros (HB & HS & HL). apply NoDup_Permutation; [apply byHash_values_NoDup; exact HB|apply pool_txs_NoDup; exact HS|].
  intros t. rewrite <- (listed_iff_in p t HS), <- (HL t). split.
  - intros Hin. apply in_map_iff in Hin. destruct Hin as ((h, t') & E & Hin). simpl in E. subst t'.
    destruct HB as (Hnd & Hh & _). assert (Hl : alookup (byHash p) h = Some t) by (apply In_alookup; assumption).
    rewrite (Hh _ _ Hl). exact Hl.
  - intros Hl. apply alookup_In in Hl. apply (in_map snd) in Hl. exact Hl.
Qed.

Lemma sum_sz_values l : sum_sz l = sum_sizes (map snd l).
Proof. induction l as [|(h, t) l IH]; simpl; [reflexivity|]. rewrite IH. reflexivity. Qed.

(** C05: the three counters *)
Lemma inv_counters p : Inv p ->
  cntTx p = Z.of_nat (length (pool_txs p)) /\ numBytes p = sum_sizes (pool_txs p) /\
  cntSenders p = Z.of_nat (length (senders p)) /\ (forall a sl, In (a, sl) (senders p) -> items sl <> []).
Proof.
  intros HI. pose proof (inv_same_set p HI) as Hperm. destruct HI as ((_ & _ & Hc & Hb) & (Hnd & Hok & Hs) & _).
  split; [rewrite Hc, <- (Permutation_length Hperm), map_length; reflexivity|].
  split; [rewrite Hb, sum_sz_values; apply sum_sizes_perm; exact Hperm|]. split; [exact Hs|].
  intros a sl Hin. assert (Hl : alookup (senders p) a = Some sl) by (apply In_alookup; assumption). apply (Hok _ _ Hl).
Qed.

Lemma inv_empty_is_zero p : Inv p -> pool_txs p = [] -> cntTx p = 0 /\ numBytes p = 0 /\ cntSenders p = 0 /\ keys p = [].
Proof.
  intros HI He. destruct (inv_counters p HI) as (A & B & C & D). pose proof (inv_same_set p HI) as Hperm.
  rewrite He in *. simpl in *. split; [exact A|]. split; [exact B|].
  assert (senders p = []).
  { destruct (senders p) as [|(a, sl) ss] eqn:E; [reflexivity|]. exfalso. apply (D a sl); [left; reflexivity|].
    unfold pool_txs, bunches in He. rewrite E in He. simpl in He. apply app_eq_nil in He. apply He. }
  split; [rewrite C, H; reflexivity|]. apply Permutation_sym, Permutation_nil in Hperm. unfold keys. destruct (byHash p); [reflexivity|discriminate].
Qed.

(** C04: lookups by hash agree with the lists *)
Lemma inv_keys p : Inv p -> Permutation (keys p) (map hash (pool_txs p)).
Proof.
  intros HI. rewrite <- (inv_same_set p HI). unfold keys. destruct HI as ((Hnd & Hh & _) & _ & _).
  assert (G : forall l : list (bytes * tx), (forall h t, In (h, t) l -> hash t = h) -> map fst l = map hash (map snd l)).
  { induction l as [|(h, t) l IH]; intros Hk; simpl; [reflexivity|]. rewrite (Hk h t (or_introl eq_refl)). f_equal.
    apply IH. intros h' t' H'. apply Hk. right. exact H'. }
  rewrite (G (byHash p)); [reflexivity|]. intros h t Hin. apply Hh. apply In_alookup; assumption.
Qed.

Lemma inv_hash_NoDup p : Inv p -> NoDup (map hash (pool_txs p)).
Proof. intros HI. eapply Permutation_NoDup; [apply inv_keys; exact HI|]. unfold keys. apply HI. Qed.

Lemma inv_sorted p a : Inv p -> sorted (pool_for_sender p a).
Proof.
  intros (_ & (_ & Hok & _) & _). unfold pool_for_sender. destruct (alookup (senders p) a) as [sl|] eqn:E; [apply (Hok _ _ E)|constructor].
Qed.

(** ---------- reachability for C01/C02: the bunches of a pool satisfy the selection's hypotheses ---------- *)

Lemma sorted_nonce_nondecr l : sorted l ->
  forall i j ti tj, (i < j)%nat -> nth_error l i = Some ti -> nth_error l j = Some tj -> (nonce ti <= nonce tj)%N.
Proof.
  induction 1 as [|x l Hs IH Hall]; intros i j ti tj Hij Hi Hj; [destruct i; discriminate|].
  destruct j as [|j]; [lia|]. simpl in Hj. destruct i as [|i]; simpl in Hi.
  - inversion Hi; subst. rewrite Forall_forall in Hall. apply precedes_nonce. apply Hall. eapply nth_error_In. exact Hj.
  - apply (IH i j); [lia|exact Hi|exact Hj].
Qed.

Lemma inv_bunches_ok p : Inv p -> bunches_ok (bunches p).
Proof.
  intros (_ & (Hnd & Hok & _) & _). unfold bunches_ok, bunches.
  assert (G : forall ss, NoDup (map fst ss) -> (forall a sl, In (a, sl) ss -> list_ok a sl) ->
     Forall bunch_ok (map (fun s => items (snd s)) ss) /\
     NoDup (map csender (mk_cursors (map (fun s => items (snd s)) ss))) /\
     (forall s, In s (map csender (mk_cursors (map (fun s => items (snd s)) ss))) -> In s (map fst ss))).
  { induction ss as [|(a, sl) ss IH]; intros Hn Hall; simpl.
    - split; [constructor|]. split; [constructor|intros s []].
    - inversion Hn; subst. destruct (IH H2 (fun a0 sl0 H => Hall a0 sl0 (or_intror H))) as (I1 & I2 & I3).
      destruct (Hall a sl (or_introl eq_refl)) as (Hne & Hs & Hsnd & _).
      split; [constructor; [|exact I1]|].
      + split; [intros t Ht; apply Hsnd; exact Ht|]. split.
        * intros t t' Ht Ht'. rewrite (proj1 (Hsnd t Ht)), (proj1 (Hsnd t' Ht')). reflexivity.
        * apply sorted_nonce_nondecr. exact Hs.
      + destruct (items sl) as [|t r] eqn:E; [contradiction|]. simpl. split.
        * constructor; [|exact I2]. rewrite (proj1 (Hsnd t (or_introl eq_refl))). intros Hin. apply H1. apply I3. exact Hin.
        * intros s [<-|Hs']; [left; symmetry; apply Hsnd; left; reflexivity|right; apply I3; exact Hs']. }
  destruct (G (senders p) Hnd) as (A & B & _); [|split; assumption].
  intros a sl Hin. apply Hok. apply In_alookup; assumption.
Qed.

(** ---------- C04: AddTx and RemoveTxByHash, in terms of the senders' lists ---------- *)

Definition over_limits (cfg : config) (l : list tx) : bool :=
  (numBytesPerSenderThreshold cfg <? sum_sizes l) || (countPerSenderThreshold cfg <? Z.of_nat (length l)).

Lemma add_core_spec cfg p t : Inv p -> agrees p t -> tx_wf t ->
  let p' := fst (add_core cfg p t) in
  Inv p' /\
  match alookup (byHash p) (hash t) with
  | Some _ => p' = p /\ snd (add_core cfg p t) = false
  | None =>
      snd (add_core cfg p t) = true /\
      exists l', sorted l' /\ Permutation l' (t :: pool_for_sender p (sender t)) /\
        forall b, pool_for_sender p' b =
                  if beqb (sender t) b then (if over_limits cfg l' then removelast l' else l') else pool_for_sender p b
  end.
Proof.
  intros HI Hag Hwf. cbv zeta. split; [apply Inv_add_core; assumption|].
  destruct (alookup (byHash p) (hash t)) as [t'|] eqn:Eh.
  - assert (t' = t) by (apply Hag; exact Eh). subst t'. rewrite (add_core_dup cfg p t HI Eh). auto.
  - destruct (add_core_new cfg p t HI Hwf Eh) as (pm & l' & sl1 & HIm & Hslm & Eit & Etb & Hs' & Hp' & Hsl_pm & _ & Efin & Esnd).
    split; [exact Esnd|]. exists l'. split; [exact Hs'|]. split; [exact Hp'|].
    destruct (finish_add_spec cfg pm (sender t) sl1 HIm Hslm) as (_ & Hlists & _); [rewrite Eit; exact Etb|].
    intros b. rewrite Efin, Hlists. rewrite Eit.
    assert (Eexc : sl_exceeded cfg sl1 = over_limits cfg l').
    { unfold sl_exceeded, over_limits. rewrite Etb, Eit. reflexivity. }
    rewrite Eexc. destruct (beqb_spec (sender t) b) as [<-|Hne]; [reflexivity|].
    unfold pool_for_sender. rewrite Hsl_pm. destruct (beqb_spec (sender t) b); [contradiction|reflexivity].
Qed.

Lemma filter_split_sorted (f : tx -> bool) (a b : list tx) :
  (forall x, In x a -> f x = false) -> (forall x, In x b -> f x = true) -> filter f (a ++ b) = b.
Proof.
  intros Ha Hb. rewrite filter_app.
  assert (filter f a = []). { induction a as [|x a IH]; [reflexivity|]. simpl. rewrite (Ha x (or_introl eq_refl)). apply IH. intros y Hy. apply Ha. right. exact Hy. }
  assert (filter f b = b). { clear -Hb. induction b as [|x b IH]; [reflexivity|]. simpl. rewrite (Hb x (or_introl eq_refl)). f_equal. apply IH. intros y Hy. apply Hb. right. exact Hy. }
  rewrite H, H0. reflexivity.
Qed.

Lemma remove_tx_spec p h : Inv p ->
  let p' := fst (remove_tx p h) in
  Inv p' /\
  match alookup (byHash p) h with
  | None => p' = p /\ snd (remove_tx p h) = false
  | Some t =>
      snd (remove_tx p h) = true /\
      forall b, pool_for_sender p' b =
                if beqb (sender t) b then filter (fun x => (nonce t <? nonce x)%N) (pool_for_sender p b) else pool_for_sender p b
  end.
Proof.
  intros HI. cbv zeta. split; [apply Inv_remove_tx; exact HI|].
  pose proof HI as (HB & HS & HL). unfold remove_tx.
  destruct (BH_remove p h HB) as (B1 & B2 & B3 & B4 & B5).
  destruct (byhash_remove p h) as (p1, ot) eqn:Ebr. simpl in B1, B2, B3, B4, B5. subst ot.
  destruct (alookup (byHash p) h) as [t|] eqn:Eh; [|auto].
  assert (Hht : hash t = h) by (apply HB; exact Eh).
  assert (Hlisted : listed p t) by (apply HL; rewrite Hht; exact Eh).
  destruct Hlisted as (sl & Hsl & Hin). rewrite B2, Hsl.
  destruct HS as (Hnd & Hok & Hcnt). destruct (Hok _ _ Hsl) as (Hne & Hsorted & Hsnd & Htb).
  unfold sl_remove_leq. pose proof (split_leq_spec (items sl) (nonce t) Hsorted) as Hsp.
  destruct (split_leq (items sl) (nonce t)) as (gone, kept). destruct Hsp as (Eitems & Hgone & Hkept).
  cbn [fst snd]. split; [reflexivity|].
  set (p3 := remove_sender_if_empty (set_senders p1 (aset (senders p) (sender t) {| items := kept; totalBytes := totalBytes sl - sum_sizes gone |}) (cntSenders p1)) (sender t)).
  assert (Ep3 : p3 = shrink_senders p1 (sender t) kept (totalBytes sl - sum_sizes gone)).
  { unfold p3, shrink_senders. rewrite B2. reflexivity. }
  assert (Hsenders : forall q, senders q = senders p3 -> forall b, pool_for_sender q b =
            if beqb (sender t) b then filter (fun x => (nonce t <? nonce x)%N) (pool_for_sender p b) else pool_for_sender p b).
  { intros q Eq b. unfold pool_for_sender. rewrite Eq, Ep3.
    assert (Hnd1 : NoDup (map fst (senders p1))) by (rewrite B2; exact Hnd).
    assert (Hsl1 : alookup (senders p1) (sender t) = Some sl) by (rewrite B2; exact Hsl).
    rewrite (shrink_senders_lookup _ _ _ _ _ _ Hnd1 Hsl1), B2.
    destruct (beqb_spec (sender t) b) as [<-|Hneb]; [|reflexivity].
    rewrite Hsl, Eitems. rewrite filter_split_sorted.
    - destruct kept; reflexivity.
    - intros x Hx. apply N.ltb_ge. apply Hgone. exact Hx.
    - intros x Hx. apply N.ltb_lt. apply Hkept. exact Hx. }
  destruct (map hash gone) as [|e ev] eqn:Eev.
  - apply Hsenders. reflexivity.
  - apply Hsenders. unfold byhash_remove_bulk.
    assert (G : forall hs q, senders (fold_left (fun q h => fst (byhash_remove q h)) hs q) = senders q).
    { induction hs as [|h0 hs IH]; intros q; simpl; [reflexivity|]. rewrite IH. unfold byhash_remove.
      destruct (alookup (byHash q) h0); reflexivity. }
    apply G.
Qed.

Lemma remove_tx_sub p h : Inv p -> sub_pool (fst (remove_tx p h)) p.
Proof.
  intros HI. destruct (remove_tx_spec p h HI) as (HI' & Hspec). destruct (alookup (byHash p) h) as [t|].
  - destruct Hspec as (_ & Hl). intros x Hx.
    apply (listed_iff_in _ _ (proj1 (proj2 HI'))) in Hx. apply (listed_iff_in _ _ (proj1 (proj2 HI))).
    (* through pool_for_sender *)
    assert (Hin : In x (pool_for_sender (fst (remove_tx p h)) (sender x))).
    { apply (listed_iff_in _ _ (proj1 (proj2 HI'))) in Hx. destruct Hx as (sl & Hsl & Hi). unfold pool_for_sender. rewrite Hsl. exact Hi. }
    rewrite Hl in Hin. assert (Hin' : In x (pool_for_sender p (sender x))).
    { destruct (beqb (sender t) (sender x)); [apply filter_In in Hin; apply Hin|exact Hin]. }
    unfold pool_for_sender in Hin'. destruct (alookup (senders p) (sender x)) as [sl|] eqn:E; [|destruct Hin'].
    apply in_pool_txs. exists (sender x), sl. split; [apply alookup_In; exact E|exact Hin'].
  - destruct Hspec as (-> & _). apply sub_pool_refl.
Qed.

(** ---------- eviction runs until the pool is within its thresholds (C06, C07) ---------- *)

Definition cmeasure (cs : list ecursor) : nat := fold_right (fun c a => (length (ctxs c) + a)%nat) 0%nat cs.
Definition covers (cs : list ecursor) (p : pool) : Prop := forall x, listed p x -> exists c, In c cs /\ In x (ctxs c).

Lemma worst_index_some cs i w : worst_index cs i (Some w) <> None.
Proof.
  revert i w; induction cs as [|c cs IH]; intros i (j, wt); simpl; [discriminate|].
  destruct (more_valuable wt (ecur c)); apply IH.
Qed.

Lemma worst_index_nonempty c cs : exists i, worst_index (c :: cs) 0 None = Some i /\ (i < length (c :: cs))%nat.
Proof.
  simpl. destruct (worst_index cs 1 (Some (0%nat, ecur c))) as [i|] eqn:E; [|exfalso; exact (worst_index_some _ _ _ E)].
  exists i. split; [reflexivity|]. apply worst_index_bound in E. simpl in E. destruct E as [->|E]; lia.
Qed.

Lemma take_nth_some {A} i (l : list A) : (i < length l)%nat -> exists x r, take_nth i l = Some (x, r).
Proof.
  revert i; induction l as [|y l IH]; intros i Hi; simpl in Hi; [lia|]. destruct i as [|i]; simpl; [eauto|].
  destruct (IH i) as (x & r & E); [lia|]. rewrite E. eauto.
Qed.

Lemma cmeasure_app a b : cmeasure (a ++ b) = (cmeasure a + cmeasure b)%nat.
Proof. induction a as [|c a IH]; simpl; [reflexivity|]. rewrite IH. lia. Qed.

Lemma cmeasure_cons c l : cmeasure (c :: l) = (length (ctxs c) + cmeasure l)%nat.
Proof. reflexivity. Qed.

Lemma cmeasure_take l1 c l2 :
  cmeasure (l1 ++ c :: l2) = S (cmeasure (match erest c with [] => l1 ++ l2 | t :: r => mkEc t r :: l1 ++ l2 end)).
Proof.
  rewrite cmeasure_app, cmeasure_cons. unfold ctxs at 1. simpl length.
  destruct (erest c) as [|t r]; [rewrite cmeasure_app; simpl; lia|].
  rewrite cmeasure_cons, cmeasure_app. unfold ctxs. simpl. lia.
Qed.

Lemma take_batch_progress k cs batch cs' : take_batch k cs = (batch, cs') ->
  cmeasure cs = (length batch + cmeasure cs')%nat /\
  (forall c x, In c cs -> In x (ctxs c) -> In x batch \/ exists c', In c' cs' /\ In x (ctxs c')) /\
  ((0 < k)%nat -> cs <> [] -> batch <> []).
Proof.
  revert cs batch cs'; induction k as [|k IH]; intros cs batch cs' H; simpl in H.
  - inversion H; subst. split; [reflexivity|]. split; [intros c x Hc Hx; right; eauto|lia].
  - destruct cs as [|c0 cs0]; [simpl in H; inversion H; subst; split; [reflexivity|split; [intros c x []|intros _ Hne; contradiction]]|].
    destruct (worst_index_nonempty c0 cs0) as (i & Ew & Hi). rewrite Ew in H.
    destruct (take_nth_some i (c0 :: cs0) Hi) as (c & others & Et). rewrite Et in H.
    destruct (take_nth_spec _ _ _ _ Et) as (l1 & l2 & Ecs & Eo).
    set (cs1 := match erest c with [] => others | t :: r => mkEc t r :: others end) in *.
    destruct (take_batch k cs1) as (b1, cs2) eqn:Etb. inversion H; subst batch cs'. clear H.
    destruct (IH cs1 b1 cs2 Etb) as (I1 & I2 & _).
    assert (Hm : cmeasure (c0 :: cs0) = S (cmeasure cs1)).
    { rewrite Ecs. unfold cs1. rewrite Eo. apply cmeasure_take. }
    split; [rewrite Hm, I1; simpl; lia|]. split; [|intros _ _; discriminate].
    intros c' x Hc' Hx.
    assert (Hcase : (c' = c /\ x = ecur c) \/ exists c1, In c1 cs1 /\ In x (ctxs c1)).
    { rewrite Ecs in Hc'. apply in_app_or in Hc'. destruct Hc' as [Hc'|[<-|Hc']].
      - right. exists c'. split; [|exact Hx]. unfold cs1. rewrite Eo. destruct (erest c); [|right]; apply in_or_app; left; exact Hc'.
      - unfold ctxs in Hx. simpl in Hx. destruct Hx as [<-|Hx]; [left; auto|]. right.
        unfold cs1. destruct (erest c) as [|t r] eqn:Er; [destruct Hx|]. exists (mkEc t r). split; [left; reflexivity|exact Hx].
      - right. exists c'. split; [|exact Hx]. unfold cs1. rewrite Eo. destruct (erest c); [|right]; apply in_or_app; right; exact Hc'. }
    destruct Hcase as [(_ & ->)|(c1 & Hc1 & Hx1)]; [left; left; reflexivity|].
    destruct (I2 c1 x Hc1 Hx1) as [Hb|Hr]; [left; right; exact Hb|right; exact Hr].
Qed.

Lemma cmeasure_mk_ecursors ss : cmeasure (mk_ecursors ss) = fold_right (fun s a => (length (items (snd s)) + a)%nat) 0%nat ss.
Proof.
  induction ss as [|(a, sl) ss IH]; simpl; [reflexivity|].
  destruct (rev (items sl)) as [|t rr] eqn:E.
  - assert (items sl = []) by (rewrite <- (rev_involutive (items sl)), E; reflexivity). rewrite H. simpl. exact IH.
  - simpl. unfold ctxs. simpl. rewrite IH. assert (length (items sl) = S (length rr)) by (rewrite <- rev_length, E; reflexivity). lia.
Qed.

Lemma covers_init p : Inv p -> covers (mk_ecursors (senders p)) p.
Proof.
  intros (_ & (Hnd & Hok & _) & _) x (sl & Hsl & Hin).
  assert (G : forall ss, In (sender x, sl) ss -> exists c, In c (mk_ecursors ss) /\ In x (ctxs c)).
  { induction ss as [|(a, sl0) ss IH]; intros H; [destruct H|]. simpl. destruct H as [E|H].
    - inversion E; subst. destruct (rev (items sl)) as [|t rr] eqn:Er.
      + apply in_rev in Hin. rewrite Er in Hin. destruct Hin.
      + exists (mkEc t rr). split; [left; reflexivity|]. change (In x (t :: rr)). rewrite <- Er. apply in_rev in Hin. exact Hin.
    - destruct (IH H) as (c & Hc & Hx). exists c. split; [|exact Hx]. destruct (rev (items sl0)); [exact Hc|right; exact Hc]. }
  apply G. apply alookup_In. exact Hsl.
Qed.

Definition thresholds_ok (cfg : config) : Prop :=
  0 <= numBytesThreshold cfg /\ 0 <= countThreshold cfg /\ (0 < numItemsToPreemptivelyEvict cfg)%nat.

Lemma evict_passes_post cfg P0 fuel cs p : Inv P0 -> thresholds_ok cfg -> pass_inv P0 cs p -> covers cs p ->
  (cmeasure cs < fuel)%nat -> capacity_exceeded cfg (evict_passes cfg fuel cs p) = false.
Proof.
  intros HI0 (Tb & Tc & Tk). revert cs p; induction fuel as [|f IH]; intros cs p HP Hcov Hm; [lia|]. simpl.
  destruct (capacity_exceeded cfg p) eqn:Eexc; [|exact Eexc].
  destruct (take_batch (numItemsToPreemptivelyEvict cfg) cs) as (batch, cs') eqn:Etb.
  destruct (take_batch_progress _ _ _ _ Etb) as (Hmeas & Hcons & Hne).
  destruct batch as [|b0 batch].
  - (* nothing left to visit: the pool is empty, hence within thresholds *)
    assert (cs = []). { destruct cs as [|c cs]; [reflexivity|]. exfalso. apply (Hne Tk); [discriminate|reflexivity]. }
    subst cs. destruct HP as (HI & _).
    assert (He : pool_txs p = []).
    { destruct (pool_txs p) as [|x l] eqn:E; [reflexivity|]. exfalso.
      assert (Hl : listed p x) by (apply (listed_iff_in p x (proj1 (proj2 HI))); rewrite E; left; reflexivity).
      destruct (Hcov x Hl) as (c & [] & _). }
    destruct (inv_empty_is_zero p HI He) as (A & B & C & _). unfold capacity_exceeded in Eexc. rewrite A, B, C in Eexc.
    exfalso. apply orb_true_iff in Eexc. destruct Eexc as [Eexc|Eexc]; [apply orb_true_iff in Eexc; destruct Eexc as [Eexc|Eexc]|]; apply Z.ltb_lt in Eexc; lia.
  - destruct (pass_step cfg P0 cs p _ _ HI0 HP Etb) as (HP' & Hnot & Hsub). apply IH.
    + exact HP'.
    + intros x Hx. destruct (Hcov x (Hsub x Hx)) as (c & Hc & Hxc).
      destruct (Hcons c x Hc Hxc) as [Hb|Hr]; [exfalso; exact (Hnot x Hb Hx)|exact Hr].
    + simpl in Hmeas. lia.
Qed.

Lemma do_eviction_post cfg p : Inv p -> thresholds_ok cfg -> capacity_exceeded cfg (do_eviction cfg p) = false.
Proof.
  intros HI HT. unfold do_eviction. destruct (capacity_exceeded cfg p) eqn:E; [|exact E].
  apply (evict_passes_post cfg p); [exact HI|exact HT|apply pass_inv_init; exact HI|apply covers_init; exact HI|].
  rewrite cmeasure_mk_ecursors. unfold pool_total_txs. lia.
Qed.

(** C07: nothing is evicted while the pool is within thresholds *)
Lemma do_eviction_idle cfg p : capacity_exceeded cfg p = false -> do_eviction cfg p = p.
Proof. intros H. unfold do_eviction. rewrite H. reflexivity. Qed.

Lemma evict_passes_stops cfg fuel cs p : capacity_exceeded cfg p = false -> evict_passes cfg fuel cs p = p.
Proof. intros H. destruct fuel; simpl; [reflexivity|]. rewrite H. reflexivity. Qed.

(** ---------- C06: per-sender limits and pool-wide limits ---------- *)

Lemma pool_for_sender_in p a x : SL p -> (In x (pool_for_sender p a) <-> listed p x /\ sender x = a).
Proof.
  intros (Hnd & Hok & _). unfold pool_for_sender, listed. split.
  - destruct (alookup (senders p) a) as [sl|] eqn:E; [|intros []]. intros Hx.
    destruct (Hok _ _ E) as (_ & _ & Hsnd & _). destruct (Hsnd x Hx) as (Es & _). split; [|exact Es].
    exists sl. rewrite Es. auto.
  - intros ((sl & Hsl & Hx) & Es). rewrite <- Es, Hsl. exact Hx.
Qed.

Lemma sub_pool_length q p a : Inv q -> Inv p -> sub_pool q p ->
  (length (pool_for_sender q a) <= length (pool_for_sender p a))%nat.
Proof.
  intros HIq HIp Hsub. apply NoDup_incl_length; [apply sorted_NoDup, inv_sorted; exact HIq|].
  intros x Hx. apply (pool_for_sender_in q a x (proj1 (proj2 HIq))) in Hx. destruct Hx as (Hl & Es).
  apply (pool_for_sender_in p a x (proj1 (proj2 HIp))). split; [apply Hsub; exact Hl|exact Es].
Qed.

Definition count_ok (cfg : config) (p : pool) : Prop :=
  forall a, Z.of_nat (length (pool_for_sender p a)) <= countPerSenderThreshold cfg.

Lemma removelast_length {A} (l : list A) : length (removelast l) = (length l - 1)%nat.
Proof.
  induction l as [|x l IH]; [reflexivity|]. destruct l as [|y l]; [reflexivity|].
  change (removelast (x :: y :: l)) with (x :: removelast (y :: l)). simpl length in *. rewrite IH. lia.
Qed.

Lemma count_ok_add_core cfg p t : Inv p -> agrees p t -> tx_wf t -> count_ok cfg p -> count_ok cfg (fst (add_core cfg p t)).
Proof.
  intros HI Hag Hwf Hc. destruct (add_core_spec cfg p t HI Hag Hwf) as (_ & Hspec).
  destruct (alookup (byHash p) (hash t)); [destruct Hspec as (-> & _); exact Hc|].
  destruct Hspec as (_ & l' & _ & Hperm & Hl). intros b. rewrite Hl.
  destruct (beqb_spec (sender t) b) as [<-|]; [|apply Hc].
  unfold over_limits. destruct (numBytesPerSenderThreshold cfg <? sum_sizes l') eqn:E1; simpl.
  - rewrite removelast_length, (Permutation_length Hperm). simpl. specialize (Hc (sender t)). lia.
  - destruct (countPerSenderThreshold cfg <? Z.of_nat (length l')) eqn:E2.
    + rewrite removelast_length, (Permutation_length Hperm). simpl. specialize (Hc (sender t)). lia.
    + apply Z.ltb_ge in E2. exact E2.
Qed.

Lemma count_ok_sub cfg q p : Inv q -> Inv p -> sub_pool q p -> count_ok cfg p -> count_ok cfg q.
Proof. intros HIq HIp Hsub Hc a. pose proof (sub_pool_length q p a HIq HIp Hsub). specialize (Hc a). lia. Qed.

Theorem run_pool_count_ok cfg ops : hist_ok ops -> 0 <= countPerSenderThreshold cfg -> count_ok cfg (run_pool cfg ops).
Proof.
  intros Hok Hc0. induction ops as [|o ops IH] using rev_ind.
  - intros a. simpl. exact Hc0.
  - pose proof (hist_ok_prefix _ _ Hok) as Hok'. specialize (IH Hok').
    destruct (run_pool_inv2 cfg ops Hok') as (HI & Hadds). rewrite run_pool_snoc.
    destruct o as [t|h| |sess g m]; simpl; [| |intros a; exact Hc0|exact IH].
    + assert (Hag : agrees (run_pool cfg ops) t).
      { intros t' Ht'. destruct Hok as (Hinj & _). apply Hinj.
        - rewrite added_txs_app. apply in_or_app. left. eapply Hadds. exact Ht'.
        - rewrite added_txs_app. apply in_or_app. right. left. reflexivity.
        - destruct HI as ((_ & Hh & _) & _). apply Hh. exact Ht'. }
      assert (Hwf : tx_wf t) by (destruct Hok as (_ & Hwf); apply Hwf; rewrite added_txs_app; apply in_or_app; right; left; reflexivity).
      unfold add_tx. destruct (evictionEnabled cfg).
      * destruct (Inv_do_eviction cfg _ HI) as (HI' & Hsub). apply count_ok_add_core; [exact HI'| |exact Hwf|].
        -- apply (sub_pool_agrees (run_pool cfg ops)); assumption.
        -- apply (count_ok_sub cfg _ (run_pool cfg ops)); assumption.
      * apply count_ok_add_core; assumption.
    + apply (count_ok_sub cfg _ (run_pool cfg ops)); [apply Inv_remove_tx; exact HI|exact HI|apply remove_tx_sub; exact HI|exact IH].
Qed.

(** sums over sub-multisets *)
Lemma sum_sizes_incl a b : NoDup a -> incl a b -> (forall x, In x b -> 0 <= size x) -> sum_sizes a <= sum_sizes b.
Proof.
  revert b; induction a as [|x a IH]; intros b Hnd Hincl Hpos; simpl.
  - clear -Hpos. induction b as [|y b IH]; simpl; [lia|]. assert (0 <= size y) by (apply Hpos; left; reflexivity).
    assert (0 <= sum_sizes b) by (apply IH; intros z Hz; apply Hpos; right; exact Hz). lia.
  - inversion Hnd; subst. assert (Hx : In x b) by (apply Hincl; left; reflexivity).
    apply in_split in Hx. destruct Hx as (b1 & b2 & ->).
    assert (Hincl' : incl a (b1 ++ b2)).
    { intros y Hy. assert (In y (b1 ++ x :: b2)) by (apply Hincl; right; exact Hy).
      apply in_app_or in H. apply in_or_app. destruct H as [H|[<-|H]]; [left; exact H|contradiction|right; exact H]. }
    assert (sum_sizes a <= sum_sizes (b1 ++ b2)).
    { apply (IH (b1 ++ b2) H2 Hincl'). intros z Hz. apply Hpos. apply in_app_or in Hz. apply in_or_app. destruct Hz; [left|right; right]; assumption. }
    rewrite sum_sizes_app in *. simpl. lia.
Qed.

(** what an insertion can add to the pool-wide figures: at most the transaction itself *)
Lemma add_core_growth cfg p t : Inv p -> agrees p t -> tx_wf t ->
  (forall x, In x (pool_txs p) -> 0 <= size x) -> 0 <= size t ->
  let p' := fst (add_core cfg p t) in
  cntTx p' <= cntTx p + 1 /\ cntSenders p' <= cntSenders p + 1 /\ numBytes p' <= numBytes p + size t /\
  incl (pool_txs p') (t :: pool_txs p).
Proof.
  intros HI Hag Hwf Hpos Hpt. cbv zeta. destruct (add_core_spec cfg p t HI Hag Hwf) as (HI' & Hspec).
  assert (Hincl : incl (pool_txs (fst (add_core cfg p t))) (t :: pool_txs p)).
  { destruct (alookup (byHash p) (hash t)); [destruct Hspec as (-> & _); intros x Hx; right; exact Hx|].
    destruct Hspec as (_ & l' & _ & Hperm & Hl). intros x Hx.
    apply (listed_iff_in _ _ (proj1 (proj2 HI'))) in Hx.
    assert (Hin : In x (pool_for_sender (fst (add_core cfg p t)) (sender x))) by (apply (pool_for_sender_in _ _ _ (proj1 (proj2 HI'))); auto).
    rewrite Hl in Hin. destruct (beqb_spec (sender t) (sender x)) as [Es|Hne].
    - assert (Hin' : In x l').
      { destruct (over_limits cfg l'); [|exact Hin]. clear -Hin. induction l' as [|y l IH]; [destruct Hin|].
        destruct l as [|z l]; [destruct Hin|]. change (removelast (y :: z :: l)) with (y :: removelast (z :: l)) in Hin.
        destruct Hin as [<-|Hin]; [left; reflexivity|right; apply IH; exact Hin]. }
      apply (Permutation_in _ Hperm) in Hin'. destruct Hin' as [<-|Hin']; [left; reflexivity|right].
      apply (listed_iff_in _ _ (proj1 (proj2 HI))). apply (pool_for_sender_in _ _ _ (proj1 (proj2 HI))) in Hin'. apply Hin'.
    - right. apply (listed_iff_in _ _ (proj1 (proj2 HI))). apply (pool_for_sender_in _ _ _ (proj1 (proj2 HI))) in Hin. apply Hin. }
  destruct (inv_counters _ HI) as (A & B & C & D). destruct (inv_counters _ HI') as (A' & B' & C' & D').
  pose proof (pool_txs_NoDup _ (proj1 (proj2 HI'))) as Hnd'.
  split; [|split; [|split; [|exact Hincl]]].
  - rewrite A, A'. pose proof (NoDup_incl_length Hnd' Hincl). simpl in H. lia.
  - rewrite C, C'. rewrite <- !(map_length fst).
    assert (Hk : incl (map fst (senders (fst (add_core cfg p t)))) (sender t :: map fst (senders p))).
    { intros a Ha. apply in_map_iff in Ha. destruct Ha as ((a', sl) & <- & Hin). simpl.
      pose proof (D' _ _ Hin) as Hne. destruct (items sl) as [|x l] eqn:E; [contradiction|].
      assert (Hx : In x (pool_txs (fst (add_core cfg p t)))) by (apply in_pool_txs; exists a', sl; split; [exact Hin|rewrite E; left; reflexivity]).
      assert (Esx : sender x = a').
      { destruct HI' as (_ & (Hnd1 & Hok1 & _) & _). assert (Hl : alookup (senders (fst (add_core cfg p t))) a' = Some sl) by (apply In_alookup; assumption).
        destruct (Hok1 _ _ Hl) as (_ & _ & Hsnd & _). apply Hsnd. rewrite E. left. reflexivity. }
      destruct (Hincl x Hx) as [<-|Hx0]; [left; exact Esx|right].
      apply in_pool_txs in Hx0. destruct Hx0 as (a0 & sl0 & Hin0 & Hx0).
      destruct HI as (_ & (Hnd0 & Hok0 & _) & _). assert (Hl0 : alookup (senders p) a0 = Some sl0) by (apply In_alookup; assumption).
      destruct (Hok0 _ _ Hl0) as (_ & _ & Hsnd0 & _). rewrite <- Esx, (proj1 (Hsnd0 x Hx0)). apply (in_map fst) in Hin0. exact Hin0. }
    pose proof (NoDup_incl_length (proj1 (proj1 (proj2 HI'))) Hk). simpl in H. lia.
  - rewrite B, B'. pose proof (sum_sizes_incl _ _ Hnd' Hincl) as Hs. simpl in Hs.
    assert (sum_sizes (pool_txs (fst (add_core cfg p t))) <= size t + sum_sizes (pool_txs p)).
    { apply Hs. intros x [<-|Hx]; [exact Hpt|apply Hpos; exact Hx]. }
    lia.
Qed.

(** ---------- C07: what eviction removes ---------- *)

Lemma filter_keep_front (f : tx -> bool) (a b : list tx) :
  (forall x, In x a -> f x = true) -> (forall x, In x b -> f x = false) -> filter f (a ++ b) = a.
Proof.
  intros Ha Hb. rewrite filter_app.
  assert (filter f a = a). { clear -Ha. induction a as [|x a IH]; [reflexivity|]. simpl. rewrite (Ha x (or_introl eq_refl)). f_equal. apply IH. intros y Hy. apply Ha. right. exact Hy. }
  assert (filter f b = []). { clear -Hb. induction b as [|x b IH]; [reflexivity|]. simpl. rewrite (Hb x (or_introl eq_refl)). apply IH. intros y Hy. apply Hb. right. exact Hy. }
  rewrite H, H0. apply app_nil_r.
Qed.

Lemma bulk_senders p hs : senders (byhash_remove_bulk p hs) = senders p.
Proof.
  unfold byhash_remove_bulk. revert p; induction hs as [|h hs IH]; intros p; simpl; [reflexivity|].
  rewrite IH. unfold byhash_remove. destruct (alookup (byHash p) h); reflexivity.
Qed.

Lemma pool_for_sender_congr p q a : senders q = senders p -> pool_for_sender q a = pool_for_sender p a.
Proof. intros E. unfold pool_for_sender. rewrite E. reflexivity. Qed.

(** one sender loses exactly its transactions with nonce >= n *)
Lemma evict_sender_suffix_lists p a n : Inv p -> forall b,
  pool_for_sender (evict_sender_suffix p a n) b =
  if beqb a b then filter (fun x => (nonce x <? n)%N) (pool_for_sender p b) else pool_for_sender p b.
Proof.
  intros HI b. pose proof HI as (HB & (Hnd & Hok & Hcnt) & HL). unfold evict_sender_suffix.
  destruct (alookup (senders p) a) as [sl|] eqn:Esl.
  2:{ destruct (beqb_spec a b) as [<-|]; [|reflexivity]. unfold pool_for_sender. rewrite Esl. reflexivity. }
  destruct (Hok _ _ Esl) as (Hne & Hsorted & Hsnd & Htb).
  unfold sl_remove_geq. pose proof (split_geq_rev_spec (rev (items sl)) n (proj1 (sorted_rev _) Hsorted)) as Hsp.
  destruct (split_geq_rev (rev (items sl)) n) as (gone, keptrev). destruct Hsp as (Erev & Hgone & Hkept).
  assert (Eitems : items sl = rev keptrev ++ rev gone).
  { rewrite <- (rev_involutive (items sl)), Erev, rev_app_distr. reflexivity. }
  rewrite (pool_for_sender_congr _ _ b (bulk_senders _ _)).
  unfold pool_for_sender.
  change (remove_sender_if_empty (set_senders p (aset (senders p) a {| items := rev keptrev; totalBytes := totalBytes sl - sum_sizes gone |}) (cntSenders p)) a)
    with (shrink_senders p a (rev keptrev) (totalBytes sl - sum_sizes gone)).
  rewrite (shrink_senders_lookup _ _ _ _ _ _ Hnd Esl).
  destruct (beqb_spec a b) as [<-|]; [|reflexivity]. rewrite Esl, Eitems, filter_keep_front.
  - destruct (rev keptrev); reflexivity.
  - intros x Hx. apply N.ltb_lt. apply Hkept. apply in_rev. exact Hx.
  - intros x Hx. apply N.ltb_ge. apply Hgone. apply in_rev. exact Hx.
Qed.

(** [l'] is [l] cut at a nonce boundary *)
Definition cut (l' l : list tx) : Prop := l' = l \/ exists n, l' = filter (fun x => (nonce x <? n)%N) l.

Lemma cut_refl l : cut l l. Proof. left. reflexivity. Qed.

Lemma filter_filter_lt n1 n2 (l : list tx) :
  filter (fun x => (nonce x <? n1)%N) (filter (fun x => (nonce x <? n2)%N) l) = filter (fun x => (nonce x <? N.min n1 n2)%N) l.
Proof.
  induction l as [|x l IH]; simpl; [reflexivity|].
  destruct (N.ltb_spec (nonce x) n2); simpl; [destruct (N.ltb_spec (nonce x) n1)|]; destruct (N.ltb_spec (nonce x) (N.min n1 n2)); try lia; rewrite IH; reflexivity.
Qed.

Lemma cut_trans a b c : cut a b -> cut b c -> cut a c.
Proof.
  intros [->|(n1 & ->)] [->|(n2 & ->)]; [left; reflexivity|right; eauto|right; eauto|].
  right. exists (N.min n1 n2). apply filter_filter_lt.
Qed.

Lemma evict_fold_cut p L : Inv p -> forall a,
  cut (pool_for_sender (fold_left (fun q sn => evict_sender_suffix q (fst sn) (snd sn)) L p) a) (pool_for_sender p a).
Proof.
  revert p; induction L as [|(s0, n0) L IH]; intros p HI a; simpl; [apply cut_refl|].
  destruct (Inv_evict_sender_suffix p s0 n0 HI) as (I1 & _ & _).
  eapply cut_trans; [apply IH; exact I1|]. rewrite (evict_sender_suffix_lists p s0 n0 HI).
  destruct (beqb s0 a); [right; eauto|apply cut_refl].
Qed.

Lemma evict_passes_cut cfg P0 fuel cs p : Inv P0 -> pass_inv P0 cs p -> forall a,
  cut (pool_for_sender (evict_passes cfg fuel cs p) a) (pool_for_sender p a).
Proof.
  intros HI0. revert cs p; induction fuel as [|f IH]; intros cs p HP a; simpl; [apply cut_refl|].
  destruct (capacity_exceeded cfg p); [|apply cut_refl].
  destruct (take_batch (numItemsToPreemptivelyEvict cfg) cs) as (batch, cs') eqn:Etb.
  destruct batch as [|b0 batch]; [apply cut_refl|].
  destruct (pass_step cfg P0 cs p _ _ HI0 HP Etb) as (HP' & _).
  eapply cut_trans; [apply IH; exact HP'|]. rewrite (pool_for_sender_congr _ _ a (bulk_senders _ _)).
  apply evict_fold_cut. apply HP.
Qed.

(** each sender keeps its list cut at a nonce boundary *)
Lemma do_eviction_cut cfg p : Inv p -> forall a, cut (pool_for_sender (do_eviction cfg p) a) (pool_for_sender p a).
Proof.
  intros HI a. unfold do_eviction. destruct (capacity_exceeded cfg p); [|apply cut_refl].
  apply (evict_passes_cut cfg p); [exact HI|apply pass_inv_init; exact HI].
Qed.

(** a cut of a nonce-sorted list is a prefix, and everything kept is below everything removed *)
Lemma cut_prefix l' l : sorted l -> cut l' l ->
  exists rest, l = l' ++ rest /\ forall x y, In x l' -> In y rest -> (nonce x < nonce y)%N.
Proof.
  intros Hs [->|(n & ->)]; [exists []; split; [symmetry; apply app_nil_r|intros x y _ []]|].
  induction Hs as [|x l Hs IH Hall]; [exists []; split; [reflexivity|intros x y []]|].
  simpl. destruct (N.ltb_spec (nonce x) n) as [Hlt|Hge].
  - destruct IH as (rest & E & Hlt'). exists rest. split; [simpl; f_equal; exact E|].
    intros u v [<-|Hu] Hv; [|apply Hlt'; assumption].
    assert (In v l) by (rewrite E; apply in_or_app; right; exact Hv).
    assert (~ In v (filter (fun x0 => (nonce x0 <? n)%N) l)).
    { intros Hin. pose proof (sorted_NoDup _ Hs) as Hnd. rewrite E in Hnd. eapply NoDup_app_disj; eassumption. }
    assert ((n <= nonce v)%N).
    { destruct (N.ltb_spec (nonce v) n) as [Hv'|Hv']; [|exact Hv']. exfalso. apply H0. apply filter_In. split; [exact H|apply N.ltb_lt; exact Hv']. }
    lia.
  - assert (filter (fun x0 => (nonce x0 <? n)%N) l = []).
    { rewrite Forall_forall in Hall. clear IH. induction l as [|y l IHl]; [reflexivity|]. simpl.
      pose proof (precedes_nonce _ _ (Hall y (or_introl eq_refl))).
      destruct (N.ltb_spec (nonce y) n); [lia|]. apply IHl; [inversion Hs; assumption|intros z Hz; apply Hall; right; exact Hz]. }
    rewrite H. exists (x :: l). split; [reflexivity|intros u v []].
Qed.

(** evicted transactions disappear from every view *)
Lemma evicted_gone cfg p x : Inv p -> listed p x -> ~ listed (do_eviction cfg p) x ->
  alookup (byHash (do_eviction cfg p)) (hash x) = None.
Proof.
  intros HI Hl Hnl. destruct (Inv_do_eviction cfg p HI) as (HI' & Hsub).
  destruct (alookup (byHash (do_eviction cfg p)) (hash x)) as [y|] eqn:E; [|reflexivity]. exfalso.
  assert (Ehy : hash y = hash x) by (apply HI'; exact E).
  assert (Hly : listed (do_eviction cfg p) y) by (apply HI'; rewrite Ehy; exact E).
  assert (y = x) by (apply (listed_hash_inj p); [exact HI|apply Hsub; exact Hly|exact Hl|exact Ehy]).
  subst y. exact (Hnl Hly).
Qed.

(** the history-level pool-wide bound (C06) *)
Theorem run_pool_pool_wide cfg ops t : hist_ok (ops ++ [PAdd t]) -> thresholds_ok cfg -> evictionEnabled cfg = true ->
  (forall x, In x (added_txs (ops ++ [PAdd t])) -> 0 <= size x) ->
  let p' := run_pool cfg (ops ++ [PAdd t]) in
  cntTx p' <= countThreshold cfg + 1 /\ cntSenders p' <= countThreshold cfg + 1 /\ numBytes p' <= numBytesThreshold cfg + size t.
Proof.
  intros Hok HT Hev Hpos. cbv zeta. rewrite run_pool_snoc. simpl. unfold add_tx. rewrite Hev.
  pose proof (hist_ok_prefix _ _ Hok) as Hok'. destruct (run_pool_inv2 cfg ops Hok') as (HI & Hadds).
  destruct (Inv_do_eviction cfg _ HI) as (HI' & Hsub).
  pose proof (do_eviction_post cfg _ HI HT) as Hpost.
  assert (Hag : agrees (run_pool cfg ops) t).
  { intros t' Ht'. destruct Hok as (Hinj & _). apply Hinj.
    - rewrite added_txs_app. apply in_or_app. left. eapply Hadds. exact Ht'.
    - rewrite added_txs_app. apply in_or_app. right. left. reflexivity.
    - destruct HI as ((_ & Hh & _) & _). apply Hh. exact Ht'. }
  assert (Hwf : tx_wf t) by (destruct Hok as (_ & Hwf); apply Hwf; rewrite added_txs_app; apply in_or_app; right; left; reflexivity).
  assert (Hpt : 0 <= size t) by (apply Hpos; rewrite added_txs_app; apply in_or_app; right; left; reflexivity).
  assert (Hpos0 : forall x, In x (pool_txs (do_eviction cfg (run_pool cfg ops))) -> 0 <= size x).
  { intros x Hx. apply Hpos. rewrite added_txs_app. apply in_or_app. left.
    apply (listed_iff_in _ _ (proj1 (proj2 HI'))) in Hx. apply Hsub in Hx. destruct HI as (_ & _ & HL). apply HL in Hx. eapply Hadds. exact Hx. }
  destruct (add_core_growth cfg _ t HI' (sub_pool_agrees _ _ t HI HI' Hsub Hag) Hwf Hpos0 Hpt) as (G1 & G2 & G3 & _).
  unfold capacity_exceeded in Hpost. apply orb_false_iff in Hpost. destruct Hpost as (Hpost & P3).
  apply orb_false_iff in Hpost. destruct Hpost as (P1 & P2). apply Z.ltb_ge in P1, P2, P3. lia.
Qed.

(** ---------- C07: which transactions a pass takes ---------- *)

Lemma NoDup_map_transfer {A B C} (f : A -> B) (g : A -> C) (l : list A) :
  NoDup (map f l) -> (forall x y, In x l -> In y l -> g x = g y -> f x = f y) -> NoDup (map g l).
Proof.
  induction l as [|x l IH]; intros Hnd Hinj; simpl; [constructor|]. inversion Hnd; subst. constructor.
  - intros Hin. apply in_map_iff in Hin. destruct Hin as (y & Ey & Hy). apply H1.
    rewrite (Hinj x y (or_introl eq_refl) (or_intror Hy) (eq_sym Ey)). apply in_map. exact Hy.
  - apply IH; [exact H2|]. intros a b Ha Hb. apply Hinj; right; assumption.
Qed.

(** the heads of the cursors of an eviction have pairwise distinct hashes *)
Lemma heads_hash_NoDup P0 cs p : Inv P0 -> pass_inv P0 cs p -> NoDup (map (fun c => hash (ecur c)) cs).
Proof.
  intros HI0 (_ & _ & (_ & Hnd) & Hcl). apply (NoDup_map_transfer (fun c => sender (ecur c))); [exact Hnd|].
  intros x y Hx Hy E. f_equal. apply (listed_hash_inj P0); [exact HI0| | |exact E].
  - apply (Hcl x); [exact Hx|left; reflexivity].
  - apply (Hcl y); [exact Hy|left; reflexivity].
Qed.

(** each take is the least valuable transaction at the head of the walks *)
Lemma take_batch_least k cs b rest cs' : NoDup (map (fun c => hash (ecur c)) cs) ->
  take_batch (S k) cs = (b :: rest, cs') ->
  exists c, In c cs /\ ecur c = b /\ forall c', In c' cs -> c' = c \/ mv (ecur c') b.
Proof.
  intros Hnd H. simpl in H. destruct (worst_index cs 0 None) as [i|] eqn:Ew; [|discriminate].
  destruct (take_nth i cs) as [(c, others)|] eqn:Et; [|discriminate].
  destruct (take_batch k _) as (b1, cs2). inversion H; subst.
  destruct (worst_index_min cs i Hnd Ew) as (cn & Hcn & Hall).
  destruct (take_nth_spec _ _ _ _ Et) as (l1 & l2 & Ecs & _).
  assert (cn = c).
  { clear -Et Hcn. revert i others Et Hcn. induction cs as [|y cs IH]; intros [|i] others Et Hcn; simpl in *; try discriminate.
    - inversion Et; inversion Hcn; congruence.
    - destruct (take_nth i cs) as [(z, r)|] eqn:E; [|discriminate]. inversion Et; subst. apply (IH i r); [exact E|exact Hcn]. }
  subst cn. exists c. split; [eapply nth_error_In; exact Hcn|]. split; [reflexivity|].
  intros c' Hc'. destruct (In_nth_error _ _ Hc') as (k' & Hk'). destruct (Nat.eq_dec k' i) as [->|Hne].
  - left. congruence.
  - right. apply (Hall k' c' Hk' Hne).
Qed.

(** whenever a transaction is taken, every transaction of that sender with the same or a higher nonce goes with it *)
Lemma pass_takes_suffix cfg P0 cs p batch cs' : Inv P0 -> pass_inv P0 cs p ->
  take_batch (numItemsToPreemptivelyEvict cfg) cs = (batch, cs') ->
  let p2 := byhash_remove_bulk (fold_left (fun q sn => evict_sender_suffix q (fst sn) (snd sn)) (lowest_by_sender batch []) p) (map hash batch) in
  forall b x, In b batch -> listed p2 x -> sender x = sender b -> (nonce x < nonce b)%N.
Proof.
  intros HI0 (HI & Hsub & Hcs & Hcl) Htb. cbv zeta. intros b x Hb Hx Es.
  destruct (take_batch_spec _ _ _ _ Hcs Htb) as (_ & _ & _ & T4).
  destruct (Inv_evict_fold p (lowest_by_sender batch []) HI) as (_ & _ & F3).
  rewrite (listed_congr _ _ x (bulk_senders _ (map hash batch))) in Hx.
  destruct (lowest_spec batch [] T4 b Hb) as (n & Hn & Hle). apply alookup_In in Hn.
  pose proof (F3 _ _ x Hn Hx Es). lia.
Qed.

(** ---------- C06: the per-sender byte limit when all transactions have the same size ---------- *)

Definition bytes_ok (cfg : config) (p : pool) : Prop :=
  forall a, sum_sizes (pool_for_sender p a) <= numBytesPerSenderThreshold cfg.

Lemma removelast_app_last {A} (l : list A) x : removelast (l ++ [x]) = l.
Proof. apply removelast_last. Qed.

Lemma bytes_ok_add_core cfg p t s : Inv p -> agrees p t -> tx_wf t -> 0 <= s -> size t = s ->
  (forall x, In x (pool_txs p) -> size x = s) -> bytes_ok cfg p -> bytes_ok cfg (fst (add_core cfg p t)).
Proof.
  intros HI Hag Hwf Hs Hst Hun Hb. destruct (add_core_spec cfg p t HI Hag Hwf) as (_ & Hspec).
  destruct (alookup (byHash p) (hash t)); [destruct Hspec as (-> & _); exact Hb|].
  destruct Hspec as (_ & l' & _ & Hperm & Hl). intros b. rewrite Hl.
  destruct (beqb_spec (sender t) b) as [<-|]; [|apply Hb].
  assert (Hsum : sum_sizes l' = s + sum_sizes (pool_for_sender p (sender t))) by (rewrite (sum_sizes_perm _ _ Hperm); simpl; lia).
  assert (Hl'un : forall x, In x l' -> size x = s).
  { intros x Hx. apply (Permutation_in _ Hperm) in Hx. destruct Hx as [<-|Hx]; [exact Hst|].
    apply Hun. apply (listed_iff_in _ _ (proj1 (proj2 HI))). apply (pool_for_sender_in _ _ _ (proj1 (proj2 HI))) in Hx. apply Hx. }
  assert (Hne : l' <> []) by (intros E; rewrite E in Hperm; apply Permutation_nil in Hperm; discriminate).
  destruct (exists_last Hne) as (l0 & y & El). subst l'.
  assert (Hy : size y = s) by (apply Hl'un; apply in_or_app; right; left; reflexivity).
  rewrite sum_sizes_app in Hsum. simpl in Hsum. specialize (Hb (sender t)).
  unfold over_limits. destruct (numBytesPerSenderThreshold cfg <? sum_sizes (l0 ++ [y])) eqn:E1; simpl.
  - rewrite removelast_app_last. lia.
  - apply Z.ltb_ge in E1. destruct (countPerSenderThreshold cfg <? Z.of_nat (length (l0 ++ [y]))) eqn:E2; [|exact E1].
    rewrite removelast_app_last. rewrite sum_sizes_app in E1. simpl in E1. lia.
Qed.

Lemma bytes_ok_sub cfg q p : Inv q -> Inv p -> sub_pool q p -> (forall x, In x (pool_txs p) -> 0 <= size x) ->
  bytes_ok cfg p -> bytes_ok cfg q.
Proof.
  intros HIq HIp Hsub Hpos Hb a. eapply Z.le_trans; [|apply (Hb a)].
  apply sum_sizes_incl; [apply sorted_NoDup, inv_sorted; exact HIq| |].
  - intros x Hx. apply (pool_for_sender_in q a x (proj1 (proj2 HIq))) in Hx. destruct Hx as (Hl & Es).
    apply (pool_for_sender_in p a x (proj1 (proj2 HIp))). split; [apply Hsub; exact Hl|exact Es].
  - intros x Hx. apply Hpos. apply (pool_for_sender_in p a x (proj1 (proj2 HIp))) in Hx.
    apply (listed_iff_in _ _ (proj1 (proj2 HIp))). apply Hx.
Qed.

(** for histories whose transactions all have the same size (one drop always suffices) the byte limit holds *)
Theorem run_pool_bytes_ok_uniform cfg ops s : hist_ok ops -> 0 <= s -> 0 <= numBytesPerSenderThreshold cfg ->
  (forall t, In t (added_txs ops) -> size t = s) -> bytes_ok cfg (run_pool cfg ops).
Proof.
  intros Hok Hs Hb0 Hun. induction ops as [|o ops IH] using rev_ind.
  - intros a. simpl. exact Hb0.
  - pose proof (hist_ok_prefix _ _ Hok) as Hok'.
    assert (Hun' : forall t, In t (added_txs ops) -> size t = s) by (intros t Ht; apply Hun; rewrite added_txs_app; apply in_or_app; left; exact Ht).
    specialize (IH Hok' Hun'). destruct (run_pool_inv2 cfg ops Hok') as (HI & Hadds). rewrite run_pool_snoc.
    assert (Hpool_un : forall q, Inv q -> lookup_sub q (run_pool cfg ops) -> forall x, In x (pool_txs q) -> size x = s).
    { intros q HIq Hls x Hx. apply Hun'. apply (listed_iff_in _ _ (proj1 (proj2 HIq))) in Hx. apply HIq in Hx. apply Hls in Hx. eapply Hadds. exact Hx. }
    destruct o as [t|h| |sess g m]; simpl; [| |intros a; exact Hb0|exact IH].
    + assert (Hag : agrees (run_pool cfg ops) t).
      { intros t' Ht'. destruct Hok as (Hinj & _). apply Hinj.
        - rewrite added_txs_app. apply in_or_app. left. eapply Hadds. exact Ht'.
        - rewrite added_txs_app. apply in_or_app. right. left. reflexivity.
        - destruct HI as ((_ & Hh & _) & _). apply Hh. exact Ht'. }
      assert (Hwf : tx_wf t) by (destruct Hok as (_ & Hwf); apply Hwf; rewrite added_txs_app; apply in_or_app; right; left; reflexivity).
      assert (Hst : size t = s) by (apply Hun; rewrite added_txs_app; apply in_or_app; right; left; reflexivity).
      unfold add_tx. destruct (evictionEnabled cfg).
      * destruct (Inv_do_eviction cfg _ HI) as (HI' & Hsub).
        apply (bytes_ok_add_core cfg _ t s); [exact HI'|apply (sub_pool_agrees (run_pool cfg ops)); assumption|exact Hwf|exact Hs|exact Hst| |].
        -- apply (Hpool_un _ HI'). apply do_eviction_lookup. exact HI.
        -- apply (bytes_ok_sub cfg _ (run_pool cfg ops)); [exact HI'|exact HI|exact Hsub| |exact IH].
           intros x Hx. rewrite (Hpool_un _ HI (fun h0 x0 H0 => H0) x Hx). exact Hs.
      * apply (bytes_ok_add_core cfg _ t s); [exact HI|exact Hag|exact Hwf|exact Hs|exact Hst| |exact IH].
        apply (Hpool_un _ HI). intros h0 x0 H0. exact H0.
    + apply (bytes_ok_sub cfg _ (run_pool cfg ops)); [apply Inv_remove_tx; exact HI|exact HI|apply remove_tx_sub; exact HI| |exact IH].
      intros x Hx. rewrite (Hpool_un _ HI (fun h0 x0 H0 => H0) x Hx). exact Hs.
Qed.
