(** Executable twins of the C01 / C02 statements: boolean checkers that are evaluated on the
    IMPLEMENTATION's selection result (fed back to the model by the harness) against the
    model's pool and the session of the call. *)
From Coq Require Import List NArith ZArith Bool.
From Verif Require Import Base.BStr Txcache.TxTypes Txcache.Selection.
Import ListNotations.
Open Scope N_scope.

Fixpoint run_fromb (n : N) (l : list N) : bool :=
  match l with [] => true | x :: r => (x =? n) && run_fromb (n + 1) r end.

Definition of_sender (a : bytes) (l : list tx) : list tx := filter (fun t => beqb (sender t) a) l.

(** C01: per sender, the selected nonces are sess_nonce, sess_nonce+1, ... in that order *)
Definition c01_holdsb (sess : session) (result : list tx) : bool :=
  forallb (fun t => run_fromb (sess_nonce sess (sender t)) (map nonce (of_sender (sender t) result))) result.

Fixpoint nodupb (l : list bytes) : bool :=
  match l with [] => true | x :: r => negb (existsb (beqb x) r) && nodupb r end.

Definition sum_gas (l : list tx) : N := fold_right (fun t a => gasLimit t + a) 0 l.

(** balance walk: fee of t on top of what was committed to its fee payer by earlier results *)
Fixpoint balance_walkb (sess : session) (cons : list (bytes * Z)) (l : list tx) : bool :=
  match l with
  | [] => true
  | t :: r => (consumed_of cons (feePayer t) + fee t <=? sess_balance sess (feePayer t))%Z
              && balance_walkb sess (accumulate cons t) r
  end.

Definition c02_distinctb (result : list tx) : bool := nodupb (map hash result).
Definition c02_countb (maxNum : nat) (result : list tx) : bool := (length result <=? maxNum)%nat.
Definition c02_gasb (gasRequested acc : N) (result : list tx) : bool := (sum_gas result =? acc) && (acc <=? gasRequested).
Definition c02_guardb (sess : session) (result : list tx) : bool := forallb (fun t => negb (guarded sess t)) result.
Definition c02_balanceb (sess : session) (result : list tx) : bool := balance_walkb sess [] result.
