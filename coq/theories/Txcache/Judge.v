(** Executable twins of the C01 / C02 statements: boolean checkers that are evaluated on the
    IMPLEMENTATION's selection result (fed back to the model by the harness) against the
    model's pool and the session of the call. *)
From Coq Require Import List NArith ZArith Bool.
From Verif Require Import Base.BStr Txcache.TxTypes Txcache.SenderList Txcache.Selection Txcache.Pool.
Import ListNotations.
Open Scope N_scope.

Fixpoint run_fromb (n : N) (l : list N) : bool :=
  match l with [] => true | x :: r => (x =? n) && run_fromb (n + 1) r end.

Definition of_sender (a : bytes) (l : list tx) : list tx := filter (fun t => beqb (sender t) a) l.

(** C01: per sender, the selected nonces are sess_nonce, sess_nonce+1, ... in that order *)
Definition c01_holdsb (sess : session) (result : list tx) : bool :=
  forallb (fun t => run_fromb (sess_nonce sess (sender t)) (map nonce (of_sender (sender t) result))) result.

Fixpoint nodupb (l : list bytes) : bool :=
  match l with [] => true | x :: r => negb (existsb (beqb x) r) && nodupb r end.

Definition sum_gas (l : list tx) : N := fold_right (fun t a => gasLimit t + a) 0 l.

(** balance walk: fee of t on top of what was committed to its fee payer by earlier results *)
Fixpoint balance_walkb (sess : session) (cons : list (bytes * Z)) (l : list tx) : bool :=
  match l with
  | [] => true
  | t :: r => (consumed_of cons (feePayer t) + fee t <=? sess_balance sess (feePayer t))%Z
              && balance_walkb sess (accumulate cons t) r
  end.

Definition c02_distinctb (result : list tx) : bool := nodupb (map hash result).
Definition c02_countb (maxNum : nat) (result : list tx) : bool := (length result <=? maxNum)%nat.
Definition c02_gasb (gasRequested acc : N) (result : list tx) : bool := (sum_gas result =? acc) && (acc <=? gasRequested).
Definition c02_guardb (sess : session) (result : list tx) : bool := forallb (fun t => negb (guarded sess t)) result.
Definition c02_balanceb (sess : session) (result : list tx) : bool := balance_walkb sess [] result.

(** ---------- C05 / C06: the invariant as a predicate on the OBSERVABLE views ---------- *)

(** what the API shows: Keys, per-sender lists (hashes), the three counters *)
Record pviews := mkViews {
  v_keys : list bytes; v_lists : list (bytes * list bytes); v_cntTx : Z; v_numBytes : Z; v_cntSenders : Z }.

Fixpoint lookup_tx (known : list (bytes * tx)) (h : bytes) : option tx :=
  match known with [] => None | (k, t) :: r => if beqb k h then Some t else lookup_tx r h end.

Definition subsetb (a b : list bytes) : bool := forallb (fun x => existsb (beqb x) b) a.

(** C05 on the views: Keys duplicate-free; Keys and the union of the lists are the same set; every listed
    transaction sits in the list of its own sender, once; CountTx = |Keys|; NumBytes = sum of sizes;
    CountSenders = number of senders with a non-empty list *)
Definition c05_viewsb (known : list (bytes * tx)) (v : pviews) : bool :=
  let listed := concat (map snd (v_lists v)) in
  nodupb (v_keys v) && nodupb listed && subsetb (v_keys v) listed && subsetb listed (v_keys v) &&
  forallb (fun al => forallb (fun h => match lookup_tx known h with Some t => beqb (sender t) (fst al) | None => false end) (snd al)) (v_lists v) &&
  (v_cntTx v =? Z.of_nat (length (v_keys v)))%Z &&
  (v_numBytes v =? fold_right (fun h a => (match lookup_tx known h with Some t => size t | None => 0 end + a)%Z) 0%Z (v_keys v))%Z &&
  (v_cntSenders v =? Z.of_nat (length (filter (fun al => match snd al with [] => false | _ => true end) (v_lists v))))%Z.

(** C06 on the views (count clauses): per-sender count limit; with eviction enabled, the pool exceeds the
    thresholds by at most one transaction / sender and by at most [lastSize] bytes *)
Definition c06_viewsb (cfg : config) (lastSize : Z) (v : pviews) : bool :=
  forallb (fun al => (Z.of_nat (length (snd al)) <=? countPerSenderThreshold cfg)%Z) (v_lists v) &&
  (negb (evictionEnabled cfg) ||
   ((v_cntTx v <=? countThreshold cfg + 1)%Z && (v_cntSenders v <=? countThreshold cfg + 1)%Z &&
    (v_numBytes v <=? numBytesThreshold cfg + lastSize)%Z)).

(** the model's OWN views of a pool, over the sender alphabet [alpha] of the history (what the harness reads off the implementation
    through Keys / GetTransactionsPoolForSender / CountTx / NumBytes / CountSenders) *)
Definition views_of (alpha : list bytes) (p : pool) : pviews :=
  mkViews (keys p) (map (fun a => (a, map hash (pool_for_sender p a))) alpha) (cntTx p) (numBytes p) (cntSenders p).
