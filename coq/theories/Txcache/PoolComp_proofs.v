(** The executable driver of the mempool model (PoolComp.pool_step, the function the extracted runner executes) against the
    history-level model (Pool.run_pool, the function the theorems speak about): the driver's pool IS run_pool of the decoded
    operations, its bookkeeping [ps_known] resolves every added hash to its transaction, and therefore the verdict it prints under
    label 32 (C05 judged on the model's own views) is [true] after every step of every well-formed history. *)
From Coq Require Import List NArith ZArith Lia Bool Permutation.
From Verif Require Import Base.Generic Base.BStr Base.ListX Txcache.TxTypes Txcache.SenderList Txcache.Selection Txcache.Pool Txcache.Judge
  Txcache.PoolComp Txcache.SenderList_proofs Txcache.Selection_proofs Txcache.Pool_proofs Txcache.Pool_props Txcache.Judge_proofs.
Import ListNotations.
Open Scope N_scope.

Definition step_state (s : pstate) (st : N * list garg) : pstate := fst (pool_step s (fst st) (snd st)).
Definition comp_run (s : pstate) (steps : list (N * list garg)) : pstate := fold_left step_state steps s.

(** the operation of the history-level model a wire step stands for (selections and judgements leave the pool alone) *)
Definition decode_op (st : N * list garg) : list pop :=
  match fst st with
  | 1 => [PAdd (decode_tx (snd st))]
  | 2 => [PRemove (arg_B (nth_arg (snd st) 0))]
  | 3 => [PClear]
  | _ => []
  end.
Definition decode_ops (steps : list (N * list garg)) : list pop := flat_map decode_op steps.

Definition known_ok (known : list (bytes * tx)) (adds : list tx) : Prop :=
  forall h t, In (h, t) known <-> (In t adds /\ h = hash t).

Lemma step_state_spec s st :
  ps_cfg (step_state s st) = ps_cfg s /\ ps_alpha (step_state s st) = ps_alpha s /\
  ps_pool (step_state s st) = fold_left (pstep (ps_cfg s)) (decode_op st) (ps_pool s) /\
  (forall adds, known_ok (ps_known s) adds -> known_ok (ps_known (step_state s st)) (adds ++ added_txs (decode_op st))).
Proof.
  destruct st as (code, args). unfold step_state, decode_op. cbn [fst snd].
  assert (Hid : forall adds, known_ok (ps_known s) adds -> known_ok (ps_known s) (adds ++ [])) by (intros adds H; rewrite app_nil_r; exact H).
  destruct code as [|[[[p|p|]|[p|p|]|]|[[p|p|]|[p|p|]|]|]]; cbn [pool_step]; simpl fold_left; unfold pstep;
    repeat match goal with
    | |- context [resolve ?a ?b] => destruct (resolve a b)
    | |- context [select_txs ?a ?b ?c ?d] => destruct (select_txs a b c d)
    | |- context [remove_tx ?a ?b] => destruct (remove_tx a b)
    | |- context [add_tx ?a ?b ?c] => destruct (add_tx a b c)
    end; cbn [fst snd ps_cfg ps_alpha ps_pool ps_known added_txs];
    (split; [reflexivity|split; [reflexivity|split; [reflexivity|]]]); try exact Hid.
  (* the one case left: AddTx *)
  intros adds Hk h t. simpl. rewrite in_app_iff. simpl. rewrite (Hk h t). split.
  - intros [E|(Ht & Eh)]; [inversion E; subst; split; [right; left; reflexivity|reflexivity]|split; [left; exact Ht|exact Eh]].
  - intros ([Ht|[<-|[]]] & ->); [right; split; [exact Ht|reflexivity]|left; reflexivity].
Qed.

Lemma added_txs_flat a b : added_txs (a ++ b) = added_txs a ++ added_txs b.
Proof. apply added_txs_app. Qed.

Lemma comp_run_spec steps : forall s adds, known_ok (ps_known s) adds ->
  ps_cfg (comp_run s steps) = ps_cfg s /\ ps_alpha (comp_run s steps) = ps_alpha s /\
  ps_pool (comp_run s steps) = fold_left (pstep (ps_cfg s)) (decode_ops steps) (ps_pool s) /\
  known_ok (ps_known (comp_run s steps)) (adds ++ added_txs (decode_ops steps)).
Proof.
  induction steps as [|st steps IH]; intros s adds Hk; simpl.
  - rewrite app_nil_r. split; [reflexivity|split; [reflexivity|split; [reflexivity|exact Hk]]].
  - destruct (step_state_spec s st) as (E1 & E2 & E3 & E4).
    destruct (IH (step_state s st) _ (E4 adds Hk)) as (F1 & F2 & F3 & F4).
    unfold comp_run in *. simpl. rewrite F1, F2, F3, E1, E2, E3. split; [reflexivity|split; [reflexivity|split]].
    + unfold decode_ops. simpl. rewrite fold_left_app. reflexivity.
    + unfold decode_ops in *. simpl. rewrite added_txs_flat, app_assoc. exact F4.
Qed.

Lemma known_lookup known adds : known_ok known adds ->
  (forall t t', In t adds -> In t' adds -> hash t = hash t' -> t = t') ->
  forall t, In t adds -> lookup_tx known (hash t) = Some t.
Proof.
  intros Hk Hinj t Ht.
  assert (Hin : In (hash t, t) known) by (apply Hk; split; [exact Ht|reflexivity]).
  assert (Hall : forall h x, In (h, x) known -> In x adds /\ h = hash x) by (intros h x; apply Hk).
  clear Hk. induction known as [|(k, x) known IH]; [destruct Hin|]. simpl.
  destruct (beqb_spec k (hash t)) as [E|N].
  - destruct (Hall k x (or_introl eq_refl)) as (Hx & Ek). f_equal. apply Hinj; [exact Hx|exact Ht|congruence].
  - destruct Hin as [E|Hin]; [inversion E; subst; congruence|]. apply IH; [exact Hin|]. intros h y Hy. apply Hall. right. exact Hy.
Qed.

(** every sender of a reachable pool sent one of the added transactions *)
Lemma run_pool_senders cfg ops a : hist_ok ops -> In a (map fst (senders (run_pool cfg ops))) ->
  exists t, In t (added_txs ops) /\ sender t = a.
Proof.
  intros Hok Hin. destruct (run_pool_inv2 cfg ops Hok) as (HI & Hadds). destruct HI as (HB & (HN & Hlist & Hc) & HL).
  apply in_map_iff in Hin. destruct Hin as ((a', sl) & E & Hin). simpl in E. subst a'.
  apply In_alookup in Hin; [|exact HN]. destruct (Hlist a sl Hin) as (Hne & _ & Hown & _).
  destruct (items sl) as [|t l] eqn:Ei; [contradiction|]. exists t.
  destruct (Hown t (or_introl eq_refl)) as (Es & _).
  assert (Ht : In t (items sl)) by (rewrite Ei; left; reflexivity).
  split; [|exact Es].
  assert (Hl : listed (run_pool cfg ops) t) by (exists sl; split; [rewrite Es; exact Hin|exact Ht]).
  apply HL in Hl. eapply Hadds. exact Hl.
Qed.

(** THE DRIVER: from the configuration step on, after any sequence of wire steps *)
Theorem driver_is_run_pool cfgargs s0 steps : pool_init cfgargs = Some s0 ->
  ps_pool (comp_run s0 steps) = run_pool (ps_cfg s0) (decode_ops steps) /\
  ps_cfg (comp_run s0 steps) = ps_cfg s0 /\ ps_alpha (comp_run s0 steps) = ps_alpha s0.
Proof.
  intros Hinit. unfold pool_init in Hinit. destruct (verify_config _ _ _ _ _ _); [|discriminate]. inversion Hinit; subst s0. clear Hinit.
  match goal with |- context [comp_run ?s _] => set (s0 := s) end.
  assert (Hk : known_ok (ps_known s0) []) by (intros h t; simpl; split; [intros []|intros ([] & _)]).
  destruct (comp_run_spec steps s0 [] Hk) as (E1 & E2 & E3 & _). repeat split; assumption.
Qed.

Theorem driver_label32_true cfgargs s0 steps : pool_init cfgargs = Some s0 ->
  hist_ok (decode_ops steps) -> NoDup (ps_alpha s0) ->
  (forall t, In t (added_txs (decode_ops steps)) -> In (sender t) (ps_alpha s0)) ->
  let s := comp_run s0 steps in
  c05_viewsb (ps_known s) (views_of (ps_alpha s) (ps_pool s)) = true.
Proof.
  intros Hinit Hok Hnd Hsend. cbv zeta.
  destruct (driver_is_run_pool cfgargs s0 steps Hinit) as (Ep & Ec & Ea). rewrite Ep, Ea.
  assert (Hk0 : known_ok (ps_known s0) []).
  { unfold pool_init in Hinit. destruct (verify_config _ _ _ _ _ _); [|discriminate]. inversion Hinit; subst s0. simpl.
    intros h t; simpl; split; [intros []|intros ([] & _)]. }
  destruct (comp_run_spec steps s0 [] Hk0) as (_ & _ & _ & Hk). simpl in Hk.
  apply run_pool_views_accepted; [exact Hok|exact Hnd| |].
  - intros a Ha. destruct (run_pool_senders _ _ _ Hok Ha) as (t & Ht & <-). apply Hsend. exact Ht.
  - apply (known_lookup _ _ Hk). apply Hok.
Qed.

(** ... as the runner prints it: whatever the arguments of a JudgeViews step (code 6) at any point of the history, the observation
    labelled 32 is [true] *)
Theorem driver_prints_true_under_32 cfgargs s0 steps args v : pool_init cfgargs = Some s0 ->
  hist_ok (decode_ops steps) -> NoDup (ps_alpha s0) ->
  (forall t, In t (added_txs (decode_ops steps)) -> In (sender t) (ps_alpha s0)) ->
  In (32, v) (snd (pool_step (comp_run s0 steps) 6 args)) -> v = g_bool true.
Proof.
  intros Hinit Hok Hnd Hsend Hin. pose proof (driver_label32_true cfgargs s0 steps Hinit Hok Hnd Hsend) as H. cbv zeta in H.
  cbn [pool_step snd] in Hin. destruct Hin as [E|[E|[E|[]]]]; inversion E. rewrite H. reflexivity.
Qed.
