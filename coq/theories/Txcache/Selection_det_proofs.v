(** The deterministic selection (pick = the unique most valuable head): prefix under lower limits / fewer steps,
    independence of the order of the bunches. *)
From Coq Require Import List NArith ZArith Lia Bool Permutation ZifyN ZifyNat ZifyBool.
From Verif Require Import Base.BStr Base.ListX Txcache.TxTypes Txcache.Selection Txcache.Pool Txcache.Selection_proofs Txcache.Order_proofs.
Import ListNotations.
Open Scope N_scope.

(** ---------- prefix ---------- *)

Definition extends (s' s : st) : Prop := exists ext, selected s' = ext ++ selected s.

Lemma extends_refl s : extends s s. Proof. exists []. reflexivity. Qed.
Lemma extends_trans a b c : extends a b -> extends b c -> extends a c.
Proof. intros (e1 & H1) (e2 & H2). exists (e1 ++ e2). rewrite H1, H2, app_assoc. reflexivity. Qed.

Lemma step_extends sess g m pick f s s' : step sess g m pick f s = Some s' -> extends s' s.
Proof.
  unfold step. destruct (pick f s) as [i|]; [|discriminate]. destruct (take_nth i (cursors s)) as [(c, others)|]; [|discriminate].
  destruct (g - accGas s <? gasLimit (cur c)); [discriminate|]. destruct (m <=? length (selected s))%nat; [discriminate|].
  destruct (skip_sender sess (consumed s) c); [intros H; inversion H; exists []; reflexivity|].
  destruct (skip_tx sess c).
  - destruct (advance c (latest c)); intros H; inversion H; exists []; reflexivity.
  - destruct (advance c (Some (nonce (cur c)))); intros H; inversion H; exists [cur c]; reflexivity.
Qed.

Lemma loop_extends sess g m pick fuel s : extends (loop sess g m pick fuel s) s.
Proof.
  revert s; induction fuel as [|f IH]; intros s; simpl; [apply extends_refl|].
  destruct (step sess g m pick f s) as [s'|] eqn:E; [|apply extends_refl].
  eapply extends_trans; [apply IH|eapply step_extends; exact E].
Qed.

(** a step allowed under the smaller budgets is the same step under the larger ones *)
Lemma step_mono sess g g' m m' pick f s s' : g' <= g -> (m' <= m)%nat ->
  step sess g' m' pick f s = Some s' -> step sess g m pick f s = Some s'.
Proof.
  intros Hg Hm. unfold step. destruct (pick f s) as [i|]; [|discriminate]. destruct (take_nth i (cursors s)) as [(c, others)|]; [|discriminate].
  destruct (N.ltb_spec (g' - accGas s) (gasLimit (cur c))); [discriminate|].
  destruct (Nat.leb_spec m' (length (selected s))); [discriminate|].
  destruct (N.ltb_spec (g - accGas s) (gasLimit (cur c))); [lia|].
  destruct (Nat.leb_spec m (length (selected s))); [lia|]. auto.
Qed.

(** lowering gasRequested / maxNum yields a prefix (any choice function) *)
Lemma loop_prefix_limits sess g g' m m' pick fuel s : g' <= g -> (m' <= m)%nat ->
  extends (loop sess g m pick fuel s) (loop sess g' m' pick fuel s).
Proof.
  intros Hg Hm. revert s; induction fuel as [|f IH]; intros s; simpl; [apply extends_refl|].
  destruct (step sess g' m' pick f s) as [s'|] eqn:E.
  - rewrite (step_mono _ _ _ _ _ _ _ _ _ Hg Hm E). apply IH.
  - destruct (step sess g m pick f s) as [s''|] eqn:E2; [|apply extends_refl].
    eapply extends_trans; [apply loop_extends|eapply step_extends; exact E2].
Qed.

Lemma step_pick_best_fuel sess g m f f' s : step sess g m pick_best f s = step sess g m pick_best f' s.
Proof. reflexivity. Qed.

(** stopping after fewer iterations (the time budget) yields a prefix *)
Lemma loop_prefix_fuel sess g m fuel fuel' s : (fuel' <= fuel)%nat ->
  extends (loop sess g m pick_best fuel s) (loop sess g m pick_best fuel' s).
Proof.
  revert fuel s; induction fuel' as [|f' IH]; intros fuel s Hle; simpl; [apply loop_extends|].
  destruct fuel as [|f]; [lia|]. simpl. rewrite (step_pick_best_fuel sess g m f f' s).
  destruct (step sess g m pick_best f' s) as [s'|]; [apply IH; lia|apply extends_refl].
Qed.

Lemma extends_prefix s' s : extends s' s -> exists ext, rev (selected s') = rev (selected s) ++ ext.
Proof. intros (e & H). exists (rev e). rewrite H, rev_app_distr. reflexivity. Qed.

(** ---------- independence of the order of the bunches ---------- *)

Definition st_equiv (s s' : st) : Prop :=
  Permutation (cursors s) (cursors s') /\ selected s = selected s' /\ accGas s = accGas s' /\ consumed s = consumed s'.

Definition distinct (s : st) : Prop := NoDup (map hash (concat (map cursor_txs (cursors s)))).

Lemma heads_of_distinct cs : NoDup (map hash (concat (map cursor_txs cs))) -> NoDup (map (fun c => hash (cur c)) cs).
Proof.
  induction cs as [|c cs IH]; simpl; intros H; [constructor|].
  unfold cursor_txs at 1 in H. simpl in H. inversion H; subst. constructor.
  - intros Hin. apply H2. rewrite map_app. apply in_or_app. right. apply in_map_iff in Hin. destruct Hin as (c' & E & Hc').
    rewrite <- E. apply in_map. apply in_concat. exists (cursor_txs c'). split; [apply in_map; exact Hc'|left; reflexivity].
  - apply IH. rewrite map_app in H3. eapply NoDup_app_r. exact H3.
Qed.

Lemma best_index_some cs i w : best_index cs i (Some w) <> None.
Proof.
  revert i w; induction cs as [|c cs IH]; intros i (j, wt); simpl; [discriminate|].
  destruct (more_valuable (cur c) wt); apply IH.
Qed.

Lemma best_index_nonempty c cs : exists i, best_index (c :: cs) 0 None = Some i.
Proof.
  simpl. destruct (best_index cs 1 (Some (0%nat, cur c))) as [i|] eqn:E; [eauto|exfalso; exact (best_index_some _ _ _ E)].
Qed.

Lemma take_nth_of_nth {A} (l : list A) i x : nth_error l i = Some x -> exists r, take_nth i l = Some (x, r) /\ Permutation l (x :: r).
Proof.
  revert i; induction l as [|y l IH]; intros [|i] H; simpl in H; try discriminate.
  - inversion H; subst. exists l. split; reflexivity.
  - destruct (IH i H) as (r & E & P). exists (y :: r). simpl. rewrite E. split; [reflexivity|].
    rewrite P. apply perm_swap.
Qed.

Lemma concat_txs_perm (l l' : list cursor) : Permutation l l' ->
  Permutation (concat (map cursor_txs l)) (concat (map cursor_txs l')).
Proof.
  induction 1; cbn [map concat]; try reflexivity.
  - apply Permutation_app_head. assumption.
  - rewrite !app_assoc. apply Permutation_app_tail. apply Permutation_app_comm.
  - etransitivity; eassumption.
Qed.

Lemma pick_same s s' n n' cn cn' :
  Permutation (cursors s) (cursors s') ->
  nth_error (cursors s) n = Some cn -> (forall k c, nth_error (cursors s) k = Some c -> k <> n -> mv (cur cn) (cur c)) ->
  nth_error (cursors s') n' = Some cn' -> (forall k c, nth_error (cursors s') k = Some c -> k <> n' -> mv (cur cn') (cur c)) ->
  cn = cn'.
Proof.
  intros Hp Hn Hmax Hn' Hmax'.
  assert (Hin' : In cn' (cursors s)) by (eapply Permutation_in; [apply Permutation_sym; exact Hp|eapply nth_error_In; exact Hn']).
  assert (Hin : In cn (cursors s')) by (eapply Permutation_in; [exact Hp|eapply nth_error_In; exact Hn]).
  destruct (In_nth_error _ _ Hin') as (k & Hk). destruct (In_nth_error _ _ Hin) as (k' & Hk').
  destruct (Nat.eq_dec k n) as [->|Hne]; [congruence|].
  destruct (Nat.eq_dec k' n') as [->|Hne']; [congruence|].
  exfalso. apply (mv_asym (cur cn) (cur cn')); [apply (Hmax k cn' Hk Hne)|apply (Hmax' k' cn Hk' Hne')].
Qed.

Lemma step_equiv sess g m f s s' : st_equiv s s' -> distinct s ->
  match step sess g m pick_best f s, step sess g m pick_best f s' with
  | None, None => True
  | Some t, Some t' => st_equiv t t' /\ distinct t
  | _, _ => False
  end.
Proof.
  intros (Hp & Es & Eg & Ec) Hd. unfold step, pick_best.
  destruct (cursors s) as [|c0 cs0] eqn:Ecs.
  - apply Permutation_nil in Hp. rewrite Hp. simpl. exact I.
  - destruct (cursors s') as [|c0' cs0'] eqn:Ecs'; [apply Permutation_sym, Permutation_nil in Hp; discriminate|].
    destruct (best_index_nonempty c0 cs0) as (n & En). destruct (best_index_nonempty c0' cs0') as (n' & En').
    rewrite En, En'.
    assert (Hd_heads : NoDup (map (fun c => hash (cur c)) (c0 :: cs0))) by (apply heads_of_distinct; unfold distinct in Hd; rewrite Ecs in Hd; exact Hd).
    assert (Hd_heads' : NoDup (map (fun c => hash (cur c)) (c0' :: cs0'))) by (eapply Permutation_NoDup; [apply Permutation_map; exact Hp|exact Hd_heads]).
    destruct (best_index_max _ _ Hd_heads En) as (cn & Hn & Hmax). destruct (best_index_max _ _ Hd_heads' En') as (cn' & Hn' & Hmax').
    assert (cn = cn').
    { apply (pick_same s s' n n'); rewrite ?Ecs, ?Ecs'; assumption. }
    subst cn'. destruct (take_nth_of_nth _ _ _ Hn) as (others & Et & Po). destruct (take_nth_of_nth _ _ _ Hn') as (others' & Et' & Po').
    rewrite Et, Et'. rewrite <- Es, <- Eg, <- Ec.
    assert (Pothers : Permutation others others') by (apply (Permutation_cons_inv (a := cn)); rewrite <- Po, <- Po'; exact Hp).
    assert (Hd_others : NoDup (map hash (concat (map cursor_txs (cn :: others))))).
    { unfold distinct in Hd. rewrite Ecs in Hd. eapply Permutation_NoDup; [|exact Hd]. apply Permutation_map.
      apply concat_txs_perm. exact Po. }
    assert (Hd_drop : NoDup (map hash (concat (map cursor_txs others)))).
    { cbn [map concat] in Hd_others. rewrite map_app in Hd_others. eapply NoDup_app_r. exact Hd_others. }
    destruct (g - accGas s <? gasLimit (cur cn)); [exact I|]. destruct (m <=? length (selected s))%nat; [exact I|].
    destruct (skip_sender sess (consumed s) cn).
    { split; [repeat split; try reflexivity; exact Pothers|exact Hd_drop]. }
    assert (Hadv : forall lat c', advance cn lat = Some c' -> NoDup (map hash (concat (map cursor_txs (c' :: others))))).
    { intros lat c' Ha. unfold advance in Ha. destruct (rest cn) as [|t r] eqn:Er; [discriminate|]. inversion Ha; subst c'.
      cbn [map concat] in Hd_others |- *. unfold cursor_txs at 1 in Hd_others. unfold cursor_txs at 1. cbn [cur rest] in *. rewrite Er in Hd_others.
      cbn [app map] in Hd_others. inversion Hd_others; assumption. }
    destruct (skip_tx sess cn).
    + destruct (advance cn (latest cn)) as [c'|] eqn:Ea.
      * split; [repeat split; try reflexivity; simpl; constructor; exact Pothers|apply (Hadv _ _ Ea)].
      * split; [repeat split; try reflexivity; exact Pothers|exact Hd_drop].
    + destruct (advance cn (Some (nonce (cur cn)))) as [c'|] eqn:Ea.
      * split; [repeat split; try reflexivity; simpl; constructor; exact Pothers|apply (Hadv _ _ Ea)].
      * split; [repeat split; try reflexivity; exact Pothers|exact Hd_drop].
Qed.

Lemma loop_equiv sess g m fuel s s' : st_equiv s s' -> distinct s ->
  st_equiv (loop sess g m pick_best fuel s) (loop sess g m pick_best fuel s').
Proof.
  revert s s'; induction fuel as [|f IH]; intros s s' He Hd; simpl; [exact He|].
  pose proof (step_equiv sess g m f s s' He Hd) as H.
  destruct (step sess g m pick_best f s) as [t|]; destruct (step sess g m pick_best f s') as [t'|]; try contradiction; [|exact He].
  destruct H as (He' & Hd'). apply IH; assumption.
Qed.

Lemma mk_cursors_perm bs bs' : Permutation bs bs' -> Permutation (mk_cursors bs) (mk_cursors bs').
Proof.
  induction 1; simpl.
  - constructor.
  - destruct (mk_cursor x); [constructor|]; assumption.
  - destruct (mk_cursor x), (mk_cursor y); try reflexivity. apply perm_swap.
  - etransitivity; eassumption.
Qed.

Lemma total_len_perm bs bs' : Permutation bs bs' -> total_len bs = total_len bs'.
Proof. induction 1; simpl; lia. Qed.

(** the snapshot order of the senders (map iteration order, chunk count) does not matter *)
Theorem select_perm sess bs bs' g m : Permutation bs bs' -> NoDup (map hash (concat bs)) ->
  select sess bs g m = select sess bs' g m.
Proof.
  intros Hp Hnd. unfold select. rewrite <- (total_len_perm _ _ Hp).
  assert (He : st_equiv (init_st bs) (init_st bs')) by (split; [apply mk_cursors_perm; exact Hp|repeat split]).
  assert (Hd : distinct (init_st bs)) by (unfold distinct, init_st; simpl; rewrite mk_cursors_txs; exact Hnd).
  destruct (loop_equiv sess g m (S (total_len bs)) _ _ He Hd) as (_ & E1 & E2 & _). rewrite E1, E2. reflexivity.
Qed.

(** lowering maxNum / gasRequested yields a prefix of the selection *)
Theorem select_prefix sess bs g g' m m' : g' <= g -> (m' <= m)%nat ->
  exists ext, fst (select sess bs g m) = fst (select sess bs g' m') ++ ext.
Proof.
  intros Hg Hm. unfold select. cbn [fst]. apply extends_prefix. apply loop_prefix_limits; assumption.
Qed.
