(** Invariants of the selection loop, for ANY choice oracle (the envelope): C01 and C02. *)
From Coq Require Import List NArith ZArith Lia Bool Permutation ZifyN ZifyNat ZifyBool.
From Verif Require Import Base.BStr Base.ListX Txcache.TxTypes Txcache.Selection Txcache.Judge.
Import ListNotations.
Open Scope N_scope.

(** ---------- generic list facts ---------- *)

Lemma take_nth_spec {A} i (l : list A) x r :
  take_nth i l = Some (x, r) -> exists l1 l2, l = l1 ++ x :: l2 /\ r = l1 ++ l2.
Proof.
  revert i x r; induction l as [|y l IH]; intros [|i] x r H; simpl in H; try discriminate.
  - inversion H; subst. exists [], r. auto.
  - destruct (take_nth i l) as [[z r']|] eqn:E; [|discriminate]. inversion H; subst.
    destruct (IH _ _ _ E) as (l1 & l2 & -> & ->). exists (y :: l1), l2. auto.
Qed.

Lemma last_snoc {A} (l : list A) x d : last (l ++ [x]) d = x.
Proof. induction l as [|y l IH]; [reflexivity|]. simpl. destruct (l ++ [x]) eqn:E; [destruct l; discriminate|]. exact IH. Qed.

(** ---------- consecutive runs ---------- *)

Inductive run_from : N -> list N -> Prop :=
| rf_nil n : run_from n []
| rf_cons n l : run_from (n + 1) l -> run_from n (n :: l).

Lemma run_fromb_spec n l : run_fromb n l = true <-> run_from n l.
Proof.
  revert n; induction l as [|x l IH]; intros n; simpl.
  - split; [constructor|reflexivity].
  - rewrite andb_true_iff, N.eqb_eq, IH. split.
    + intros (-> & H). constructor. exact H.
    + intros H. inversion H; subst. split; [reflexivity|assumption].
Qed.

Lemma run_from_snoc n l : run_from n l -> run_from n (l ++ [n + N.of_nat (length l)]).
Proof.
  induction 1 as [n | n l H IH]; simpl.
  - replace (n + 0) with n by lia. repeat constructor.
  - constructor. replace (n + N.pos (Pos.of_succ_nat (length l))) with (n + 1 + N.of_nat (length l)) by lia. exact IH.
Qed.

Lemma run_last n l : run_from n l -> l <> [] -> last l 0 + 1 = n + N.of_nat (length l).
Proof.
  induction 1 as [n|n l H IH]; intros Hne; [congruence|].
  destruct l as [|y l]; [simpl; lia|].
  change (last (n :: y :: l) 0) with (last (y :: l) 0). rewrite IH by discriminate. simpl length. lia.
Qed.

Lemma run_last_snoc n l x : run_from n l -> l <> [] -> x = last l 0 + 1 -> run_from n (l ++ [x]).
Proof. intros H Hne ->. rewrite (run_last _ _ H Hne). now apply run_from_snoc. Qed.

(** the i-th element of a run is n + i: strictly increasing, no two equal *)
Lemma run_from_nth n l : run_from n l -> forall i x, nth_error l i = Some x -> x = n + N.of_nat i.
Proof.
  induction 1 as [n|n l H IH]; intros i x Hi.
  - destruct i; discriminate.
  - destruct i as [|i]; simpl in Hi.
    + inversion Hi; subst. lia.
    + rewrite (IH _ _ Hi). lia.
Qed.

Lemma run_from_lt n l : run_from n l -> forall i j x y, (i < j)%nat -> nth_error l i = Some x -> nth_error l j = Some y -> x < y.
Proof.
  intros H i j x y Hij Hi Hj. rewrite (run_from_nth _ _ H _ _ Hi), (run_from_nth _ _ H _ _ Hj). lia.
Qed.

(** ---------- the per-sender view of the selection ---------- *)

Definition sel_of (a : bytes) (sel : list tx) : list tx := of_sender a (rev sel).
Definition nonces (l : list tx) := map nonce l.

Lemma sel_of_cons_same a t sel : sender t = a -> sel_of a (t :: sel) = sel_of a sel ++ [t].
Proof. intros H. unfold sel_of, of_sender. simpl. rewrite filter_app. simpl.
  destruct (beqb_spec (sender t) a); [reflexivity|contradiction]. Qed.
Lemma sel_of_cons_other a t sel : sender t <> a -> sel_of a (t :: sel) = sel_of a sel.
Proof. intros H. unfold sel_of, of_sender. simpl. rewrite filter_app. simpl.
  destruct (beqb_spec (sender t) a); [contradiction|]. apply app_nil_r. Qed.

(** ---------- consumed balances ---------- *)

Lemma consumed_of_consume c a d b :
  consumed_of (consume c a d) b = (consumed_of c b + (if beqb a b then d else 0))%Z.
Proof.
  induction c as [|(k, v) c IH]; simpl.
  - destruct (beqb a b); lia.
  - destruct (beqb_spec k a) as [->|Hka]; simpl.
    + destruct (beqb_spec a b); lia.
    + destruct (beqb_spec k b) as [->|Hkb].
      * destruct (beqb_spec a b) as [->|]; [contradiction|lia].
      * exact IH.
Qed.

(** what [t] commits: its value to the sender, its fee to the fee payer *)
Definition committed_by (t : tx) (a : bytes) : Z :=
  ((if beqb (sender t) a then match value t with Some v => v | None => 0 end else 0)
   + (if beqb (feePayer t) a then fee t else 0))%Z.

Lemma consumed_of_accumulate c t a :
  consumed_of (accumulate c t) a = (consumed_of c a + committed_by t a)%Z.
Proof.
  unfold accumulate, committed_by. rewrite consumed_of_consume.
  destruct (value t) as [v|]; [rewrite consumed_of_consume|]; destruct (beqb (sender t) a), (beqb (feePayer t) a); lia.
Qed.

(** sum of what the transactions of [pre] commit to account [a]: the C02 wording *)
Definition committed (pre : list tx) (a : bytes) : Z := fold_right (fun t acc => (committed_by t a + acc)%Z) 0%Z pre.

Lemma consumed_fold pre c a :
  consumed_of (fold_left accumulate pre c) a = (consumed_of c a + committed pre a)%Z.
Proof.
  revert c; induction pre as [|t pre IH]; intros c; simpl; [lia|].
  rewrite IH, consumed_of_accumulate. lia.
Qed.

Lemma balance_walkb_app sess c l1 l2 :
  balance_walkb sess c (l1 ++ l2) = balance_walkb sess c l1 && balance_walkb sess (fold_left accumulate l1 c) l2.
Proof.
  revert c; induction l1 as [|t l1 IH]; intros c; simpl; [reflexivity|].
  rewrite IH. rewrite andb_assoc. reflexivity.
Qed.

(** the balance clause, in the words of the property *)
Lemma balance_walkb_spec sess l :
  balance_walkb sess [] l = true <->
  forall pre t post, l = pre ++ t :: post -> (committed pre (feePayer t) + fee t <= sess_balance sess (feePayer t))%Z.
Proof.
  assert (G : forall c, balance_walkb sess c l = true <->
     forall pre t post, l = pre ++ t :: post ->
       (consumed_of c (feePayer t) + committed pre (feePayer t) + fee t <= sess_balance sess (feePayer t))%Z).
  { induction l as [|x l IH]; intros c; simpl.
    - split; [|reflexivity]. intros _ pre t post H. destruct pre; discriminate.
    - rewrite andb_true_iff, IH. split.
      + intros (H1 & H2) pre t post E. destruct pre as [|y pre]; simpl in E; inversion E; subst.
        * simpl. lia.
        * specialize (H2 pre t post eq_refl). rewrite consumed_of_accumulate in H2. simpl. lia.
      + intros H. split.
        * specialize (H [] x l eq_refl). simpl in H. lia.
        * intros pre t post E. subst l. specialize (H (x :: pre) t post eq_refl).
          rewrite consumed_of_accumulate. simpl in H. lia. }
  rewrite G. simpl. split; intros H pre t post E; specialize (H pre t post E); lia.
Qed.

(** ---------- the invariant ---------- *)

Definition cursor_txs (c : cursor) : list tx := cur c :: rest c.
Definition all_txs (s : st) : list tx := rev (selected s) ++ concat (map cursor_txs (cursors s)).

(** well-formed cursor w.r.t. the selection so far *)
Definition cursor_ok (sel : list tx) (c : cursor) : Prop :=
  sender (cur c) = csender c /\
  (forall t, In t (rest c) -> sender t = csender c /\ nonce (cur c) <= nonce t) /\
  (forall t, In t (cur c :: rest c) -> nonce t < two64) /\
  match latest c with
  | None => sel_of (csender c) sel = []
  | Some l => nonces (sel_of (csender c) sel) <> [] /\
              last (nonces (sel_of (csender c) sel)) 0 = l /\ l <= nonce (cur c)
  end.

Definition sorted_rest (c : cursor) : Prop :=
  forall i j ti tj, (i < j)%nat -> nth_error (rest c) i = Some ti -> nth_error (rest c) j = Some tj -> nonce ti <= nonce tj.

Lemma P_drop {A} (S X O D : list A) : Permutation ((S ++ X ++ O) ++ D) ((S ++ O) ++ X ++ D).
Proof.
  rewrite <- !app_assoc. apply Permutation_app_head. rewrite !app_assoc. apply Permutation_app_tail. apply Permutation_app_comm.
Qed.
Lemma P_skip_adv {A} (S X' O D : list A) t : Permutation ((S ++ (t :: X') ++ O) ++ D) ((S ++ X' ++ O) ++ t :: D).
Proof.
  rewrite <- !app_assoc. apply Permutation_app_head. simpl.
  rewrite !app_assoc. apply Permutation_middle.
Qed.
Lemma P_sel_adv {A} (S X' O D : list A) t : Permutation ((S ++ (t :: X') ++ O) ++ D) (((S ++ [t]) ++ X' ++ O) ++ D).
Proof. rewrite <- !app_assoc. simpl. reflexivity. Qed.

Section Proofs.
  Variable sess : session.
  Variable gasRequested : N.
  Variable maxNum : nat.
  Variable pick : nat -> st -> option nat.
  Variable universe : list tx.   (* the transactions handed to the selection *)

  Definition SelInv (s : st) : Prop :=
    (forall a, run_from (sess_nonce sess a) (nonces (sel_of a (selected s)))) /\
    (forall c, In c (cursors s) -> cursor_ok (selected s) c /\ sorted_rest c) /\
    NoDup (map csender (cursors s)) /\
    (* C02 *)
    accGas s = sum_gas (selected s) /\ accGas s <= gasRequested /\
    (length (selected s) <= maxNum)%nat /\
    (forall t, In t (selected s) -> guarded sess t = false) /\
    consumed s = fold_left accumulate (rev (selected s)) [] /\
    balance_walkb sess [] (rev (selected s)) = true /\
    (exists dropped, Permutation universe (all_txs s ++ dropped)).

  Lemma cursor_ok_other sel c t :
    sender t <> csender c -> cursor_ok sel c -> cursor_ok (t :: sel) c.
  Proof.
    intros Hne (H1 & H2 & H3 & H4). unfold cursor_ok. split; [exact H1|]. split; [exact H2|]. split; [exact H3|].
    rewrite sel_of_cons_other by assumption. exact H4.
  Qed.

  Lemma advance_ok sel c lat c' :
    sender (cur c) = csender c ->
    (forall t, In t (rest c) -> sender t = csender c /\ nonce (cur c) <= nonce t) ->
    (forall t, In t (cur c :: rest c) -> nonce t < two64) ->
    sorted_rest c ->
    match lat with
    | None => sel_of (csender c) sel = []
    | Some l => nonces (sel_of (csender c) sel) <> [] /\ last (nonces (sel_of (csender c) sel)) 0 = l /\ l <= nonce (cur c)
    end ->
    advance c lat = Some c' ->
    cursor_ok sel c' /\ sorted_rest c' /\ csender c' = csender c /\ cursor_txs c = cur c :: cursor_txs c'.
  Proof.
    intros Hs Hrest Hlt Hsorted Hlat H. unfold advance in H.
    destruct (rest c) as [|t1 r] eqn:Er; [discriminate|]. inversion H; subst c'; clear H.
    assert (H1 : sender t1 = csender c /\ nonce (cur c) <= nonce t1) by (apply Hrest; left; reflexivity).
    split; [|split; [|split; [reflexivity|]]].
    - unfold cursor_ok; simpl. split; [apply H1|]. split; [|split].
      + intros t0 Hin. split; [apply Hrest; right; exact Hin|].
        destruct (In_nth_error _ _ Hin) as [j Hj]. apply (Hsorted O (S j) t1 t0); [lia|rewrite Er; reflexivity|rewrite Er; exact Hj].
      + intros t0 Hin. apply Hlt. right. exact Hin.
      + destruct lat as [l|]; [|exact Hlat]. destruct Hlat as (A & B & C). split; [exact A|]. split; [exact B|]. lia.
    - intros i0 j ti tj Hij Hi Hj. simpl in Hi, Hj. apply (Hsorted (S i0) (S j) ti tj); [lia|rewrite Er; exact Hi|rewrite Er; exact Hj].
    - unfold cursor_txs. simpl. rewrite Er. reflexivity.
  Qed.

  Lemma advance_none c lat : advance c lat = None -> cursor_txs c = [cur c].
  Proof. unfold advance, cursor_txs. destruct (rest c); [reflexivity|discriminate]. Qed.

  Lemma sum_gas_cons t l : sum_gas (t :: l) = gasLimit t + sum_gas l.
  Proof. reflexivity. Qed.

  Lemma step_inv fuel s s' : SelInv s -> step sess gasRequested maxNum pick fuel s = Some s' -> SelInv s'.
  Proof.
    intros (Hrun & Hcur & Hnd & Hgas & Hle & Hcnt & Hgd & Hcons & Hbal & (dropped & Hperm)) Hstep. unfold step in Hstep.
    destruct (pick fuel s) as [i|]; [|discriminate].
    destruct (take_nth i (cursors s)) as [[c others]|] eqn:Et; [|discriminate].
    destruct (take_nth_spec _ _ _ _ Et) as (l1 & l2 & Ecs & Eo).
    assert (Hc : In c (cursors s)) by (rewrite Ecs; apply in_or_app; right; left; reflexivity).
    assert (Hothers : forall c', In c' others -> In c' (cursors s)).
    { intros c' H. rewrite Ecs. rewrite Eo in H. apply in_app_or in H. apply in_or_app. destruct H; [left|right;right]; assumption. }
    assert (Hnd' : NoDup (map csender others) /\ ~ In (csender c) (map csender others)).
    { rewrite Ecs in Hnd. rewrite map_app in Hnd. simpl in Hnd. rewrite Eo, map_app. split.
      - eapply NoDup_remove_1; eassumption.
      - eapply NoDup_remove_2; eassumption. }
    destruct Hnd' as (Hnd1 & Hnd2).
    (* the transactions still in play, as a permutation *)
    assert (Hall : Permutation (concat (map cursor_txs (cursors s))) (cursor_txs c ++ concat (map cursor_txs others))).
    { rewrite Ecs, Eo. rewrite !map_app, !concat_app. cbn [map concat]. apply Permutation_app_swap_app. }
    destruct (gasRequested - accGas s <? gasLimit (cur c)) eqn:Egas; [discriminate|].
    destruct (maxNum <=? length (selected s))%nat eqn:Emax; [discriminate|].
    apply N.ltb_ge in Egas. apply Nat.leb_gt in Emax.
    destruct (skip_sender sess (consumed s) c) eqn:Ess.
    { inversion Hstep; subst s'; clear Hstep. unfold SelInv; simpl.
      split; [exact Hrun|]. split; [intros c' H; apply Hcur; auto|]. split; [exact Hnd1|].
      repeat (split; [assumption|]).
      exists (cursor_txs c ++ dropped). etransitivity; [exact Hperm|]. unfold all_txs; cbn [selected cursors].
      rewrite Hall. apply P_drop. }
    destruct (Hcur c Hc) as ((Hs & Hrest & Hlt & Hlat) & Hsorted).
    unfold skip_sender in Ess. apply orb_false_elim in Ess. destruct Ess as (Ess & Efee).
    apply orb_false_elim in Ess. destruct Ess as (Eig & Emg).
    destruct (skip_tx sess c) eqn:Est.
    - (* transaction skipped: selection unchanged *)
      destruct (advance c (latest c)) as [c'|] eqn:Eadv; inversion Hstep; subst s'; clear Hstep; unfold SelInv; simpl.
      + destruct (advance_ok (selected s) c (latest c) c' Hs Hrest Hlt Hsorted Hlat Eadv) as (Hok & Hso & Hcs & Htx).
        split; [exact Hrun|]. split.
        { intros c0 [<-|H]; [split; assumption|]. apply Hcur; auto. }
        split; [constructor; [rewrite Hcs; exact Hnd2|exact Hnd1]|].
        repeat (split; [assumption|]).
        exists (cur c :: dropped). etransitivity; [exact Hperm|]. unfold all_txs; cbn [selected cursors map concat].
        rewrite Hall, Htx. apply P_skip_adv.
      + split; [exact Hrun|]. split; [intros c0 H; apply Hcur; auto|]. split; [exact Hnd1|].
        repeat (split; [assumption|]).
        exists (cur c :: dropped). etransitivity; [exact Hperm|]. unfold all_txs; cbn [selected cursors map concat].
        rewrite Hall, (advance_none _ _ Eadv). apply (P_skip_adv _ []).
    - (* transaction selected *)
      unfold skip_tx in Est. apply orb_false_elim in Est. destruct Est as (Est & Edup).
      apply orb_false_elim in Est. destruct Est as (Elow & Eguard).
      set (t := cur c) in *.
      assert (Hnew : run_from (sess_nonce sess (csender c)) (nonces (sel_of (csender c) (t :: selected s))) /\
                     last (nonces (sel_of (csender c) (t :: selected s))) 0 = nonce t /\
                     nonces (sel_of (csender c) (t :: selected s)) <> []).
      { rewrite sel_of_cons_same by exact Hs. unfold nonces. rewrite map_app. simpl. fold (nonces (sel_of (csender c) (selected s))).
        split; [|split; [apply last_snoc|destruct (nonces (sel_of (csender c) (selected s))); discriminate]].
        unfold initial_gap, middle_gap, lower_nonce, nonce_dup in *. fold t in Eig, Emg, Elow, Edup.
        destruct (latest c) as [l|].
        - destruct Hlat as (Hne & Hl & Hle').
          apply N.ltb_ge in Emg. apply N.eqb_neq in Edup.
          assert (Hlt64 : nonce t < two64) by (apply Hlt; left; reflexivity).
          assert (l + 1 < two64).
          { destruct (N.lt_ge_cases (l + 1) two64) as [|Hge]; [assumption|]. exfalso.
            assert (E1 : l + 1 = two64) by lia. rewrite E1, N.mod_same in Emg by (unfold two64; lia). lia. }
          rewrite N.mod_small in Emg by assumption.
          apply run_last_snoc; [apply Hrun|exact Hne|]. rewrite Hl. lia.
        - rewrite Hlat. simpl. apply N.ltb_ge in Eig, Elow.
          replace (nonce t) with (sess_nonce sess (csender c)) by lia. repeat constructor. }
      destruct Hnew as (Hnew1 & Hnew2 & Hnew3).
      assert (Hrun' : forall a, run_from (sess_nonce sess a) (nonces (sel_of a (t :: selected s)))).
      { intros a. destruct (list_eq_dec N.eq_dec (csender c) a) as [<-|Hne]; [exact Hnew1|].
        rewrite sel_of_cons_other by congruence. apply Hrun. }
      assert (Hoth : forall c0, In c0 others -> cursor_ok (t :: selected s) c0 /\ sorted_rest c0).
      { intros c0 H. destruct (Hcur c0 (Hothers _ H)) as (Hok & Hso). split; [|exact Hso].
        apply cursor_ok_other; [|exact Hok]. rewrite Hs. intros Heq. apply Hnd2. rewrite Heq. now apply in_map. }
      assert (Hlat' : nonces (sel_of (csender c) (t :: selected s)) <> [] /\
                      last (nonces (sel_of (csender c) (t :: selected s))) 0 = nonce t /\ nonce t <= nonce (cur c)).
      { split; [exact Hnew3|]. split; [exact Hnew2|]. unfold t. lia. }
      (* C02 clauses *)
      assert (Hgas' : accGas s + gasLimit t = sum_gas (t :: selected s)) by (rewrite sum_gas_cons; lia).
      assert (Hle'' : accGas s + gasLimit t <= gasRequested) by lia.
      assert (Hcnt' : (length (t :: selected s) <= maxNum)%nat) by (simpl; lia).
      assert (Hgd' : forall x, In x (t :: selected s) -> guarded sess x = false).
      { intros x [<-|Hx]; [exact Eguard|apply Hgd; exact Hx]. }
      assert (Hcons' : accumulate (consumed s) t = fold_left accumulate (rev (t :: selected s)) []).
      { simpl. rewrite fold_left_app. simpl. rewrite <- Hcons. reflexivity. }
      assert (Hbal' : balance_walkb sess [] (rev (t :: selected s)) = true).
      { simpl. rewrite balance_walkb_app, Hbal, <- Hcons. simpl. rewrite andb_true_r.
        unfold fee_exceeds in Efee. apply Z.ltb_ge in Efee. apply Z.leb_le. exact Efee. }
      destruct (advance c (Some (nonce t))) as [c'|] eqn:Eadv; inversion Hstep; subst s'; clear Hstep; unfold SelInv; simpl.
      + destruct (advance_ok (t :: selected s) c (Some (nonce t)) c' Hs Hrest Hlt Hsorted Hlat' Eadv) as (Hok & Hso & Hcs & Htx).
        split; [exact Hrun'|]. split.
        { intros c0 [<-|H]; [split; assumption|]. apply Hoth; assumption. }
        split; [constructor; [rewrite Hcs; exact Hnd2|exact Hnd1]|].
        repeat (split; [assumption|]).
        exists dropped. etransitivity; [exact Hperm|]. unfold all_txs; cbn [selected cursors map concat rev].
        rewrite Hall, Htx. apply P_sel_adv.
      + split; [exact Hrun'|]. split; [exact Hoth|]. split; [exact Hnd1|].
        repeat (split; [assumption|]).
        exists dropped. etransitivity; [exact Hperm|]. unfold all_txs; cbn [selected cursors map concat rev].
        rewrite Hall, (advance_none _ _ Eadv). apply (P_sel_adv _ []).
  Qed.

  Lemma loop_inv fuel s : SelInv s -> SelInv (loop sess gasRequested maxNum pick fuel s).
  Proof.
    revert s; induction fuel as [|f IH]; intros s H; simpl; [exact H|].
    destruct (step sess gasRequested maxNum pick f s) as [s'|] eqn:E; [|exact H].
    apply IH. eapply step_inv; eassumption.
  Qed.
End Proofs.

(** ---------- from the initial state to the theorems ---------- *)

(** what the selection needs of the bunches it is handed: each is one sender's transactions in
    nonce-nondecreasing order (uint64 nonces); distinct bunches belong to distinct senders.
    Nothing else: not reachability, not distinct nonces, no relation to the session. *)
Definition bunch_ok (b : list tx) : Prop :=
  (forall t, In t b -> nonce t < two64) /\
  (forall t t', In t b -> In t' b -> sender t = sender t') /\
  (forall i j ti tj, (i < j)%nat -> nth_error b i = Some ti -> nth_error b j = Some tj -> nonce ti <= nonce tj).

Definition bunches_ok (bs : list (list tx)) : Prop :=
  Forall bunch_ok bs /\ NoDup (map csender (mk_cursors bs)).

Lemma mk_cursors_txs bs : concat (map cursor_txs (mk_cursors bs)) = concat bs.
Proof.
  induction bs as [|b bs IH]; [reflexivity|]. destruct b as [|t r]; cbn [mk_cursors mk_cursor map concat]; [exact IH|].
  rewrite IH. reflexivity.
Qed.

Lemma mk_cursors_in bs c : In c (mk_cursors bs) -> exists t r, In (t :: r) bs /\ c = mkCursor (sender t) t r None.
Proof.
  induction bs as [|b bs IH]; simpl; [intros []|]. destruct b as [|t r]; simpl.
  - intros H. destruct (IH H) as (t & r & Hin & E). exists t, r. auto.
  - intros [<-|H]; [exists t, r; auto|]. destruct (IH H) as (t' & r' & Hin & E). exists t', r'. auto.
Qed.

Lemma init_inv sess gasRequested maxNum bs :
  bunches_ok bs -> SelInv sess gasRequested maxNum (concat bs) (init_st bs).
Proof.
  intros (Hall & Hnd). unfold SelInv, init_st; simpl.
  split; [intros a; constructor|]. split.
  { intros c Hc. destruct (mk_cursors_in _ _ Hc) as (t & r & Hin & ->).
    rewrite Forall_forall in Hall. destruct (Hall _ Hin) as (H64 & Hsame & Hsort).
    split; [|intros i j ti tj Hij Hi Hj; apply (Hsort (S i) (S j)); [lia|exact Hi|exact Hj]].
    unfold cursor_ok; simpl. split; [reflexivity|]. split; [|split; [|reflexivity]].
    - intros t0 Ht0. split; [apply Hsame; [right; exact Ht0|left; reflexivity]|].
      destruct (In_nth_error _ _ Ht0) as [j Hj]. apply (Hsort O (S j)); [lia|reflexivity|exact Hj].
    - intros t0 Ht0. apply H64. exact Ht0. }
  split; [exact Hnd|]. split; [reflexivity|]. split; [lia|]. split; [lia|].
  split; [intros t []|]. split; [reflexivity|]. split; [reflexivity|].
  exists []. unfold all_txs; simpl. rewrite mk_cursors_txs, app_nil_r. reflexivity.
Qed.

Section Final.
  Variable sess : session.
  Variable gasRequested : N.
  Variable maxNum : nat.
  Variable pick : nat -> st -> option nat.
  Variable fuel : nat.
  Variable bs : list (list tx).
  Hypothesis Hok : bunches_ok bs.

  Let final := loop sess gasRequested maxNum pick fuel (init_st bs).
  Let result := rev (selected final).

  Lemma final_inv : SelInv sess gasRequested maxNum (concat bs) final.
  Proof. apply loop_inv. apply init_inv. exact Hok. Qed.

  Lemma env_C01_run : forall a, run_from (sess_nonce sess a) (map nonce (of_sender a result)).
  Proof. intros a. destruct final_inv as (H & _). apply H. Qed.

  Lemma env_C01_holdsb : c01_holdsb sess result = true.
  Proof.
    unfold c01_holdsb. apply forallb_forall. intros t _. apply run_fromb_spec. apply env_C01_run.
  Qed.

  Lemma env_C02_members : forall t, In t result -> In t (concat bs).
  Proof.
    intros t Ht. destruct final_inv as (_ & _ & _ & _ & _ & _ & _ & _ & _ & (d & Hp)).
    eapply Permutation_in; [apply Permutation_sym; exact Hp|]. unfold all_txs. fold result.
    apply in_or_app. left. apply in_or_app. left. exact Ht.
  Qed.

  Lemma env_C02_distinct : NoDup (map hash (concat bs)) -> NoDup (map hash result).
  Proof.
    intros Hnd. destruct final_inv as (_ & _ & _ & _ & _ & _ & _ & _ & _ & (d & Hp)).
    assert (Hp' : Permutation (map hash (concat bs)) (map hash result ++ map hash (concat (map cursor_txs (cursors final)) ++ d))).
    { rewrite <- map_app. apply Permutation_map. unfold all_txs in Hp. fold result in Hp. rewrite <- app_assoc in Hp. exact Hp. }
    eapply NoDup_app_l. eapply Permutation_NoDup; [exact Hp'|exact Hnd].
  Qed.

  Lemma env_C02_count : (length result <= maxNum)%nat.
  Proof. destruct final_inv as (_ & _ & _ & _ & _ & H & _). unfold result. rewrite rev_length. exact H. Qed.

  Lemma sum_gas_rev l : sum_gas (rev l) = sum_gas l.
  Proof.
    induction l as [|t l IH]; [reflexivity|]. simpl rev.
    assert (G : forall a b, sum_gas (a ++ b) = sum_gas a + sum_gas b).
    { intros a b; induction a as [|x a IHa]; simpl; [reflexivity|]. unfold sum_gas in *. simpl. rewrite IHa. lia. }
    rewrite G, IH. unfold sum_gas. simpl. lia.
  Qed.

  (** true integer sum, no modulus *)
  Lemma env_C02_gas : sum_gas result = accGas final /\ accGas final <= gasRequested.
  Proof. destruct final_inv as (_ & _ & _ & H1 & H2 & _). unfold result. rewrite sum_gas_rev. split; [symmetry; exact H1|exact H2]. Qed.

  Lemma env_C02_guard : forall t, In t result -> guarded sess t = false.
  Proof. intros t Ht. destruct final_inv as (_ & _ & _ & _ & _ & _ & H & _). apply H. apply in_rev. exact Ht. Qed.

  Lemma env_C02_balance : forall pre t post, result = pre ++ t :: post ->
    (committed pre (feePayer t) + fee t <= sess_balance sess (feePayer t))%Z.
  Proof. destruct final_inv as (_ & _ & _ & _ & _ & _ & _ & _ & H & _). apply balance_walkb_spec. exact H. Qed.
End Final.

(** the deterministic selection is an instance of the envelope *)
Lemma select_is_loop sess bs gasRequested maxNum :
  select sess bs gasRequested maxNum =
  (rev (selected (loop sess gasRequested maxNum pick_best (S (total_len bs)) (init_st bs))),
   accGas (loop sess gasRequested maxNum pick_best (S (total_len bs)) (init_st bs))).
Proof. reflexivity. Qed.

(** ---------- a boolean twin of [bunches_ok] (used for non-vacuity examples) ---------- *)

Fixpoint nonce_sortedb (l : list tx) : bool :=
  match l with
  | t1 :: ((t2 :: _) as r) => (nonce t1 <=? nonce t2) && nonce_sortedb r
  | _ => true
  end.

Lemma nonce_sortedb_head l t : nonce_sortedb (t :: l) = true -> forall x, In x l -> nonce t <= nonce x.
Proof.
  revert t; induction l as [|y l IH]; intros t H x Hx; [destruct Hx|].
  simpl in H. apply andb_true_iff in H. destruct H as (H1 & H2). apply N.leb_le in H1.
  destruct Hx as [<-|Hx]; [exact H1|]. specialize (IH y H2 x Hx). lia.
Qed.

Lemma nonce_sortedb_tail l t : nonce_sortedb (t :: l) = true -> nonce_sortedb l = true.
Proof. destruct l as [|y l]; [reflexivity|]. simpl. intros H. apply andb_true_iff in H. apply H. Qed.

Lemma nonce_sortedb_spec l : nonce_sortedb l = true ->
  forall i j ti tj, (i < j)%nat -> nth_error l i = Some ti -> nth_error l j = Some tj -> nonce ti <= nonce tj.
Proof.
  induction l as [|t l IH]; intros H i j ti tj Hij Hi Hj; [destruct i; discriminate|].
  destruct j as [|j]; [lia|]. simpl in Hj. destruct i as [|i]; simpl in Hi.
  - inversion Hi; subst. apply (nonce_sortedb_head _ _ H). eapply nth_error_In. exact Hj.
  - apply (IH (nonce_sortedb_tail _ _ H) i j); [lia|exact Hi|exact Hj].
Qed.

Definition bunch_okb (b : list tx) : bool :=
  forallb (fun t => nonce t <? two64) b &&
  match b with [] => true | t0 :: _ => forallb (fun t => beqb (sender t) (sender t0)) b end &&
  nonce_sortedb b.

Lemma bunch_okb_sound b : bunch_okb b = true -> bunch_ok b.
Proof.
  unfold bunch_okb. intros H. apply andb_true_iff in H. destruct H as (H & H3).
  apply andb_true_iff in H. destruct H as (H1 & H2). rewrite forallb_forall in H1.
  split; [|split].
  - intros t Ht. apply N.ltb_lt. apply H1. exact Ht.
  - destruct b as [|t0 b]; [intros t t' []|]. rewrite forallb_forall in H2.
    intros t t' Ht Ht'. apply H2 in Ht. apply H2 in Ht'. apply beqb_eq in Ht, Ht'. congruence.
  - apply nonce_sortedb_spec. exact H3.
Qed.

Fixpoint nodup_bytesb (l : list bytes) : bool :=
  match l with [] => true | x :: r => negb (existsb (beqb x) r) && nodup_bytesb r end.

Lemma nodup_bytesb_sound l : nodup_bytesb l = true -> NoDup l.
Proof.
  induction l as [|x l IH]; intros H; [constructor|].
  simpl in H. apply andb_true_iff in H. destruct H as (H1 & H2). constructor; [|apply IH; exact H2].
  intros Hin. apply negb_true_iff in H1. assert (existsb (beqb x) l = true); [|congruence].
  apply existsb_exists. exists x. split; [exact Hin|apply beqb_refl].
Qed.

Definition bunches_okb (bs : list (list tx)) : bool :=
  forallb bunch_okb bs && nodup_bytesb (map csender (mk_cursors bs)).

Lemma bunches_okb_sound bs : bunches_okb bs = true -> bunches_ok bs.
Proof.
  unfold bunches_okb. intros H. apply andb_true_iff in H. destruct H as (H1 & H2). split.
  - apply Forall_forall. intros b Hb. apply bunch_okb_sound. rewrite forallb_forall in H1. apply H1. exact Hb.
  - apply nodup_bytesb_sound. exact H2.
Qed.
