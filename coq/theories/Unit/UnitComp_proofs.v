(** What the storage-unit component PRINTS does not depend on the cacher (C16 correspondence).

    The model runs the unit over [small_cache]; the implementation runs it over the repository's LRU, size-bounded LRU or FIFO
    sharded cache.  Which entries such a cache keeps is not constrained by C16, so the wire wrapper (Unit/UnitComp.v) prints only
    observables that are claimed to be the same for every lawful cacher.  This file proves the claim for the data operations other
    than GetBulkFromEpoch: for ANY cacher satisfying the laws (and, for cold reads, whose Clear forgets everything), after ANY history,
    the observables of Put / PutInEpoch / Get / GetFromEpoch / SearchFirst / Has / Remove / RemoveFromCurrentEpoch / ClearCache are a
    function of the map of acknowledged writes, the operation and its failure oracle alone ([spec_observe]). *)
From Coq Require Import List NArith ZArith Bool.
From Verif Require Import Base.Generic Base.BStr Unit.StorageUnit Unit.CacherPred Unit.StorageUnit_proofs Unit.UnitComp.
Import ListNotations.
Open Scope N_scope.

Definition is_bulk (d : uop) : bool := match d with OBulk _ _ _ => true | _ => false end.

(** the observables, computed from the map [m] of acknowledged writes only *)
Definition spec_observe (cold : bool) (d : uop) (m : pstore) : list obs :=
  match d with
  | OPut _ _ o | OPutInEpoch _ _ _ o => [(5, g_err (write_err o))]
  | ORemove _ o | ORemoveFromCurrentEpoch _ o => [(6, g_err (write_err o))]
  | OGet k o | OGetFromEpoch k _ o | OSearchFirst k o =>
      (1, g_optB (p_lookup m k)) ::
      (if cold || negb (hd false o)
       then [(2, g_err (if hd false o then EInjected else match p_lookup m k with Some _ => ENone | None => ENotFound end))]
       else [])
  | OHas k o =>
      (3, g_bool (match p_lookup m k with Some _ => true | None => false end)) ::
      (if cold || negb (hd false o) then [(4, g_err (if hd false o then EInjected else spec_has m k))] else [])
  | OClearCache => []
  | OBulk _ _ _ => []
  end.

Section Indep.
  Variable C : cacher_ops.
  Variable L : cacher_laws C.

  (** a read whose answer is one the map allows: the printed observables are the specified ones, provided the error class is
      printed only when it is determined *)
  Lemma observe_get_ok cold k o g m :
    (g = spec_get m k \/ (hd false o = true /\ g = GErr EInjected)) ->
    (cold = true -> g = (if hd false o then GErr EInjected else spec_get m k)) ->
    forall d, (d = OGet k o \/ (exists e, d = OGetFromEpoch k e o) \/ d = OSearchFirst k o) ->
    observe cold d (RGet g) m = spec_observe cold d m.
  Proof.
    intros Hg Hcold d Hd.
    assert (H : (1, g_optB (match g with GOk v => Some v | GErr EInjected => p_lookup m k | GErr _ => None end)) ::
                (if cold || negb (hd false o) then [(2, g_err (match g with GOk _ => ENone | GErr e => e end))] else [])
                = (1, g_optB (p_lookup m k)) ::
                  (if cold || negb (hd false o)
                   then [(2, g_err (if hd false o then EInjected else match p_lookup m k with Some _ => ENone | None => ENotFound end))]
                   else [])).
    { unfold spec_get in *. destruct cold.
      - rewrite (Hcold eq_refl). simpl. destruct (hd false o); simpl; [reflexivity|]. destruct (p_lookup m k); reflexivity.
      - simpl. destruct (hd false o) eqn:Eh; simpl.
        + destruct Hg as [-> | (_ & ->)]; [destruct (p_lookup m k); reflexivity|reflexivity].
        + destruct Hg as [-> | (Hf & _)]; [destruct (p_lookup m k); reflexivity|discriminate]. }
    destruct Hd as [-> | [(e & ->)| ->]]; exact H.
  Qed.

  Lemma observe_has_ok cold k o e m :
    (e = spec_has m k \/ (hd false o = true /\ e = EInjected)) ->
    (cold = true -> e = (if hd false o then EInjected else spec_has m k)) ->
    observe cold (OHas k o) (RErr e) m = spec_observe cold (OHas k o) m.
  Proof.
    intros He Hcold. unfold observe, spec_observe, spec_has in *. destruct cold.
    - rewrite (Hcold eq_refl). simpl. destruct (hd false o); simpl; destruct (p_lookup m k); reflexivity.
    - simpl. destruct (hd false o) eqn:Eh; simpl.
      + destruct He as [-> | (_ & ->)]; destruct (p_lookup m k); reflexivity.
      + destruct He as [-> | (Hf & _)]; [destruct (p_lookup m k); reflexivity|discriminate].
  Qed.

  (** WARM: the operation is issued in the state any history leaves *)
  Theorem observe_warm pre d : is_bulk d = false ->
    let s := unit_final C (unit_new C) pre in
    observe false d (snd (unit_step C s d)) (u_pers s) = spec_observe false d (ack_map (unit_run C (unit_new C) pre)).
  Proof.
    intros Hb s. rewrite <- (pers_is_ack C L pre). fold s.
    assert (Hco : coherent C L s) by (apply final_coherent; apply coherent_new).
    destruct (unit_step C s d) as (s', out) eqn:E. cbn [snd].
    destruct (step_spec C L s d s' out Hco E) as (_ & _ & Hok).
    destruct d; try discriminate Hb; cbn [out_ok] in Hok.
    - subst out. reflexivity.
    - subst out. reflexivity.
    - assert (exists g, out = RGet g) as (g & ->) by (destruct Hok as [-> | (_ & ->)]; eexists; reflexivity).
      apply (observe_get_ok false k o g (u_pers s)); [|discriminate|left; reflexivity].
      destruct Hok as [H|(H1 & H2)]; [left; congruence|right; split; [exact H1|congruence]].
    - assert (exists g, out = RGet g) as (g & ->) by (destruct Hok as [-> | (_ & ->)]; eexists; reflexivity).
      apply (observe_get_ok false k o g (u_pers s)); [|discriminate|right; left; eexists; reflexivity].
      destruct Hok as [H|(H1 & H2)]; [left; congruence|right; split; [exact H1|congruence]].
    - assert (exists g, out = RGet g) as (g & ->) by (destruct Hok as [-> | (_ & ->)]; eexists; reflexivity).
      apply (observe_get_ok false k o g (u_pers s)); [|discriminate|right; right; reflexivity].
      destruct Hok as [H|(H1 & H2)]; [left; congruence|right; split; [exact H1|congruence]].
    - assert (exists e, out = RErr e) as (e & ->) by (destruct Hok as [-> | (_ & ->)]; eexists; reflexivity).
      apply observe_has_ok; [|discriminate].
      destruct Hok as [H|(H1 & H2)]; [left; congruence|right; split; [exact H1|congruence]].
    - subst out. reflexivity.
    - subst out. reflexivity.
    - subst out. reflexivity.
  Qed.

  (** COLD: ClearCache is called first (the wrapper's [cold] flag); needs a cacher whose Clear forgets everything *)
  Theorem observe_cold pre d : clear_forgets C L -> is_bulk d = false ->
    let s1 := unit_clear_cache C (unit_final C (unit_new C) pre) in
    observe true d (snd (unit_step C s1 d)) (u_pers s1) = spec_observe true d (ack_map (unit_run C (unit_new C) pre)).
  Proof.
    intros Hcf Hb s1.
    assert (Hp : u_pers s1 = ack_map (unit_run C (unit_new C) pre)) by (unfold s1; simpl; apply (pers_is_ack C L)).
    destruct (cold_read C L pre) with (k := @nil N) (o := @nil bool) as (_ & _); [exact Hcf|].
    assert (Hco : coherent C L s1).
    { assert (E : s1 = unit_final C (unit_new C) (pre ++ [OClearCache])) by (unfold s1; rewrite final_app; reflexivity).
      rewrite E. apply final_coherent. apply coherent_new. }
    destruct (unit_step C s1 d) as (s', out) eqn:E. cbn [snd].
    destruct (step_spec C L s1 d s' out Hco E) as (_ & _ & Hok). rewrite Hp in *.
    destruct d; try discriminate Hb; cbn [out_ok] in Hok.
    - subst out. reflexivity.
    - subst out. reflexivity.
    - cbn [unit_step] in E. destruct (cold_read C L pre k o Hcf) as (Hg & _). fold s1 in Hg.
      destruct (unit_get C s1 k o) as ((s2, o2), g). inversion E; subst. cbn [snd] in Hg.
      apply (observe_get_ok true k o g); [|intros _; exact Hg|left; reflexivity].
      destruct Hok as [H|(H1 & H2)]; [left; congruence|right; split; [exact H1|congruence]].
    - cbn [unit_step] in E. unfold unit_get_from_epoch in E. destruct (cold_read C L pre k o Hcf) as (Hg & _). fold s1 in Hg.
      destruct (unit_get C s1 k o) as ((s2, o2), g). inversion E; subst. cbn [snd] in Hg.
      apply (observe_get_ok true k o g); [|intros _; exact Hg|right; left; eexists; reflexivity].
      destruct Hok as [H|(H1 & H2)]; [left; congruence|right; split; [exact H1|congruence]].
    - cbn [unit_step] in E. unfold unit_search_first in E. destruct (cold_read C L pre k o Hcf) as (Hg & _). fold s1 in Hg.
      destruct (unit_get C s1 k o) as ((s2, o2), g). inversion E; subst. cbn [snd] in Hg.
      apply (observe_get_ok true k o g); [|intros _; exact Hg|right; right; reflexivity].
      destruct Hok as [H|(H1 & H2)]; [left; congruence|right; split; [exact H1|congruence]].
    - cbn [unit_step] in E. destruct (cold_read C L pre k o Hcf) as (_ & Hh). fold s1 in Hh.
      destruct (unit_has C s1 k o) as ((s2, o2), e). inversion E; subst. cbn [snd] in Hh.
      apply observe_has_ok; [|intros _; exact Hh].
      destruct Hok as [H|(H1 & H2)]; [left; congruence|right; split; [exact H1|congruence]].
    - subst out. reflexivity.
    - subst out. reflexivity.
    - subst out. reflexivity.
  Qed.

  (** the map of acknowledged writes itself is a function of the operations and their oracles *)
  Definition oracle_ack_step (m : pstore) (op : uop) : pstore :=
    match op with
    | OPut k v o | OPutInEpoch k v _ o => if hd false o then m else p_set m k v
    | ORemove k o | ORemoveFromCurrentEpoch k o => if hd false o then m else p_del m k
    | _ => m
    end.
  Definition oracle_ack_map (ops : list uop) : pstore := fold_left oracle_ack_step ops [].

  Lemma ack_step_oracle m op out : out_ok m op out -> ack_step m (op, out) = oracle_ack_step m op.
  Proof.
    destruct op; cbn [out_ok]; intros H; try (subst out; unfold write_err; cbn [ack_step oracle_ack_step]; destruct (hd false o); reflexivity).
    - destruct H as [-> | (_ & ->)]; reflexivity.
    - destruct H as [-> | (_ & ->)]; reflexivity.
    - destruct H as [-> | (_ & ->)]; reflexivity.
    - destruct H as [-> | (_ & ->)]; reflexivity.
    - subst out. reflexivity.
    - destruct H as (l & -> & _). reflexivity.
  Qed.

  Lemma ack_fold_oracle ops : forall s, coherent C L s ->
    fold_left ack_step (unit_run C s ops) (u_pers s) = fold_left oracle_ack_step ops (u_pers s).
  Proof.
    induction ops as [|op r IH]; intros s Hco; [reflexivity|].
    cbn [unit_run]. destruct (unit_step C s op) as (s1, out) eqn:E. cbn [fold_left].
    destruct (step_spec C L s op s1 out Hco E) as (H1 & H2 & H3).
    rewrite (ack_step_oracle _ _ _ H3) in *. rewrite <- H2. apply IH. exact H1.
  Qed.

  Lemma ack_map_oracle pre : ack_map (unit_run C (unit_new C) pre) = oracle_ack_map pre.
  Proof. unfold ack_map, oracle_ack_map. apply (ack_fold_oracle pre (unit_new C)). apply coherent_new. Qed.
End Indep.

(** GetBulkFromEpoch when no read of the bulk can fail (the case in which label 8 is printed for a warm bulk): all the found pairs, in
    request order, whatever the cacher -- warm or after ClearCache *)
Section Bulk.
  Variable C : cacher_ops.
  Variable L : cacher_laws C.

  Lemma observe_bulk_any s ks ep o cold : coherent C L s -> no_fail_prefix (length ks) o ->
    observe cold (OBulk ks ep o) (snd (unit_step C s (OBulk ks ep o))) (u_pers s) = [(8, g_pairs (found_pairs (u_pers s) ks))].
  Proof.
    intros Hco Hnf. destruct (unit_step C s (OBulk ks ep o)) as (s', out) eqn:E. cbn [snd].
    destruct (step_spec C L s _ s' out Hco E) as (_ & _ & Hok). cbn [out_ok] in Hok.
    destruct Hok as (l & -> & _ & Hall & _). rewrite (Hall Hnf). cbn [observe].
    unfold no_fail_prefix in Hnf. rewrite Hnf. rewrite Nat.ltb_irrefl. reflexivity.
  Qed.

  Theorem observe_bulk pre ks ep o : no_fail_prefix (length ks) o ->
    (let s := unit_final C (unit_new C) pre in
     observe false (OBulk ks ep o) (snd (unit_step C s (OBulk ks ep o))) (u_pers s) = [(8, g_pairs (found_pairs (oracle_ack_map pre) ks))]) /\
    (let s := unit_clear_cache C (unit_final C (unit_new C) pre) in
     observe true (OBulk ks ep o) (snd (unit_step C s (OBulk ks ep o))) (u_pers s) = [(8, g_pairs (found_pairs (oracle_ack_map pre) ks))]).
  Proof.
    intros Hnf. split; cbv zeta.
    - rewrite observe_bulk_any; [|apply final_coherent; apply coherent_new|exact Hnf].
      rewrite (pers_is_ack C L pre), (ack_map_oracle C L). reflexivity.
    - assert (E : unit_clear_cache C (unit_final C (unit_new C) pre) = unit_final C (unit_new C) (pre ++ [OClearCache]))
        by (rewrite final_app; reflexivity).
      rewrite observe_bulk_any; [|rewrite E; apply final_coherent; apply coherent_new|exact Hnf].
      simpl u_pers. rewrite (pers_is_ack C L pre), (ack_map_oracle C L). reflexivity.
  Qed.
End Bulk.

(** THE STATEMENT: two lawful cachers print the same *)
Theorem observables_do_not_depend_on_the_cacher (C1 C2 : cacher_ops) (L1 : cacher_laws C1) (L2 : cacher_laws C2) pre d :
  is_bulk d = false ->
  (let s := unit_final C1 (unit_new C1) pre in observe false d (snd (unit_step C1 s d)) (u_pers s)) =
  (let s := unit_final C2 (unit_new C2) pre in observe false d (snd (unit_step C2 s d)) (u_pers s)) /\
  (clear_forgets C1 L1 -> clear_forgets C2 L2 ->
   (let s := unit_clear_cache C1 (unit_final C1 (unit_new C1) pre) in observe true d (snd (unit_step C1 s d)) (u_pers s)) =
   (let s := unit_clear_cache C2 (unit_final C2 (unit_new C2) pre) in observe true d (snd (unit_step C2 s d)) (u_pers s))).
Proof.
  intros Hb. split.
  - cbv zeta. rewrite (observe_warm C1 L1 pre d Hb), (observe_warm C2 L2 pre d Hb), (ack_map_oracle C1 L1), (ack_map_oracle C2 L2). reflexivity.
  - intros H1 H2. cbv zeta. rewrite (observe_cold C1 L1 pre d H1 Hb), (observe_cold C2 L2 pre d H2 Hb), (ack_map_oracle C1 L1), (ack_map_oracle C2 L2). reflexivity.
Qed.
