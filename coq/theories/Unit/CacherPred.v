(** Generic in the cacher: a predicate on the cache that the cacher's operations preserve (for the keys
    of a history) is preserved by the storage unit along that history.  Used to show that the cache
    inside a unit is a cache REACHABLE by a history of its own operations, so that the theorems of the
    cache models (C15, C20) apply to it. *)
From Coq Require Import List NArith Bool.
From Verif Require Import Base.BStr Unit.StorageUnit.
Import ListNotations.

(** * A predicate on the cache that the cacher's operations preserve for the keys of a history is
    preserved by the unit along that history (generic in the cacher) *)
Definition uop_keys (op : uop) : list bytes :=
  match op with
  | OPut k _ _ | OPutInEpoch k _ _ _ | OGet k _ | OGetFromEpoch k _ _
  | OSearchFirst k _ | OHas k _ | ORemove k _ | ORemoveFromCurrentEpoch k _ => [k]
  | OClearCache => []
  | OBulk ks _ _ => ks
  end.

(** every key the operation hands to the unit is non-empty *)
Definition uop_nonempty (op : uop) : Prop := Forall (fun k => k <> []) (uop_keys op).

Section CachePred.
Variable C : cacher_ops.
Variable P : c_st C -> Prop.
Variable Q : bytes -> Prop.
Hypothesis P_put : forall s k v, Q k -> P s -> P (c_put C s k v).
Hypothesis P_get : forall s k, Q k -> P s -> P (fst (c_get C s k)).
Hypothesis P_remove : forall s k, Q k -> P s -> P (c_remove C s k).
Hypothesis P_clear : forall s, P s -> P (c_clear C s).

Lemma unit_get_pred s k o : Q k -> P (u_cache s) -> P (u_cache (fst (fst (unit_get C s k o)))).
Proof.
  intros Hk Hp. unfold unit_get. pose proof (P_get _ k Hk Hp) as Hg.
  destruct (c_get C (u_cache s) k) as [c1 r]. cbn [fst] in Hg. destruct r as [v|]; [exact Hg|].
  destruct (per_get (u_pers s) o k) as [o1 g]. destruct g as [v|e]; cbn [fst u_cache]; [|exact Hg].
  apply P_put; assumption.
Qed.

Lemma unit_bulk_pred ks : forall s o, Forall Q ks -> P (u_cache s) -> P (u_cache (fst (fst (unit_bulk C s ks o)))).
Proof.
  induction ks as [|k r IH]; intros s o Hks Hp; cbn [unit_bulk]; [exact Hp|].
  inversion Hks as [|x y Hk Hr]; subst.
  pose proof (unit_get_pred s k o Hk Hp) as Hg. destruct (unit_get C s k o) as [[s1 o1] g]. cbn [fst] in Hg.
  pose proof (IH s1 o1 Hr Hg) as Hb. destruct (unit_bulk C s1 r o1) as [[s2 o2] l]. cbn [fst] in Hb.
  destruct g; exact Hb.
Qed.

Lemma unit_put_pred s k v o : Q k -> P (u_cache s) -> P (u_cache (fst (fst (unit_put C s k v o)))).
Proof.
  intros Hk Hp. unfold unit_put. destruct (per_put (u_pers s) o k v) as [[p1 o1] e].
  destruct e; cbn [fst u_cache]; try apply P_remove; try apply P_put; assumption.
Qed.

Lemma unit_remove_pred s k o : Q k -> P (u_cache s) -> P (u_cache (fst (fst (unit_remove C s k o)))).
Proof.
  intros Hk Hp. unfold unit_remove. destruct (per_remove (u_pers s) o k) as [[p1 o1] e].
  cbn [fst u_cache]. apply P_remove; assumption.
Qed.

Lemma unit_has_pred s k o : P (u_cache s) -> P (u_cache (fst (fst (unit_has C s k o)))).
Proof.
  intros Hp. unfold unit_has. destruct (c_has C (u_cache s) k); [exact Hp|].
  destruct (per_has (u_pers s) o k) as [o1 e]. exact Hp.
Qed.

Lemma unit_step_pred s op : Forall Q (uop_keys op) -> P (u_cache s) -> P (u_cache (fst (unit_step C s op))).
Proof.
  intros Hq Hp. destruct op as [k v o|k v ep o|k o|k ep o|k o|k o|k o|k o| |ks ep o]; cbn [uop_keys] in Hq; cbn [unit_step];
    unfold unit_put_in_epoch, unit_get_from_epoch, unit_search_first, unit_remove_from_current_epoch;
    try (assert (Hk : Q k) by (inversion Hq; assumption)).
  - pose proof (unit_put_pred s k v o Hk Hp) as H. destruct (unit_put C s k v o) as [[s' o'] e]. exact H.
  - pose proof (unit_put_pred s k v o Hk Hp) as H. destruct (unit_put C s k v o) as [[s' o'] e]. exact H.
  - pose proof (unit_get_pred s k o Hk Hp) as H. destruct (unit_get C s k o) as [[s' o'] g]. exact H.
  - pose proof (unit_get_pred s k o Hk Hp) as H. destruct (unit_get C s k o) as [[s' o'] g]. exact H.
  - pose proof (unit_get_pred s k o Hk Hp) as H. destruct (unit_get C s k o) as [[s' o'] g]. exact H.
  - pose proof (unit_has_pred s k o Hp) as H. destruct (unit_has C s k o) as [[s' o'] e]. exact H.
  - pose proof (unit_remove_pred s k o Hk Hp) as H. destruct (unit_remove C s k o) as [[s' o'] e]. exact H.
  - pose proof (unit_remove_pred s k o Hk Hp) as H. destruct (unit_remove C s k o) as [[s' o'] e]. exact H.
  - cbn [fst unit_clear_cache u_cache]. apply P_clear. exact Hp.
  - pose proof (unit_bulk_pred ks s o Hq Hp) as H. destruct (unit_bulk C s ks o) as [[s' o'] l]. exact H.
Qed.

Lemma unit_final_pred ops : forall s, Forall (fun op => Forall Q (uop_keys op)) ops -> P (u_cache s) ->
  P (u_cache (unit_final C s ops)).
Proof.
  induction ops as [|op r IH]; intros s Hq Hp; [exact Hp|].
  inversion Hq as [|x y H1 H2]; subst. unfold unit_final. cbn [fold_left]. apply IH; [exact H2|].
  apply unit_step_pred; assumption.
Qed.
End CachePred.
