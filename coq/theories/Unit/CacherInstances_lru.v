(** C16 for the REAL LRU cachers: [cacher_ops] + [cacher_laws] (Unit/StorageUnit.v) instantiated for

    - [sized_lru_ops]  : lrucache/capacity/capacityLRUCache.go (model Lru/CapacityLru.v, state [clru]);
    - [plain_lru_ops]  : hashicorp simplelru behind simpleLRUCacheAdapter (model Lru/SimpleLru.v, [slru]);
    - [lcache_ops]     : the lruCache wrapper of lrucache/lrucache.go over either backend, driven through
                         its own [step] (model Lru/LruCache.v, [lcache]) — this is the object that
                         factory.NewCache returns for the cache types LRUCache and SizeLRUCache.

    The unit calls [Put(key, value, len(value))]: [c_put s k v] is the model's put with the size
    [Z.of_nat (length v)], which is never negative, so the sized LRU never refuses it (a refused Put
    would leave a stale value under the key: the law [cl_put] is false of a sized LRU fed negative sizes;
    the unit cannot do that).

    The ghost map [cl_may s k] is the model's own Peek, [cl_inv] the model's own invariant
    ([cinv] / [sinv] / [linv]).  All laws are obtained from ONE proof about the reference LRU
    ([Lru/LruSpec.v]) through the existing refinement lemmas ([*_refines]). *)
From Coq Require Import List ZArith NArith Bool Lia ZifyNat ZifyBool.
From Verif Require Import Base.BStr Lru.LruTypes Lru.LruSpec Lru.LruSpec_proofs
  Lru.CapacityLru Lru.CapacityLru_proofs Lru.SimpleLru Lru.SimpleLru_proofs
  Lru.LruCache Lru.LruCache_proofs Unit.StorageUnit Unit.CacherPred.
Import ListNotations.
Open Scope Z_scope.

(** * The ghost map of the reference LRU and what one step of the reference does to it *)
Definition sp_may (l : list entry) (k : bytes) : option bytes := option_map e_val (sp_find k l).

Lemma sp_find_in_nodup l e : NoDup (keys l) -> In e l -> sp_find (e_key e) l = Some e.
Proof.
  unfold sp_find. induction l as [|a l IH]; intros Hd Hin; [destruct Hin|].
  cbn [keys map] in Hd. inversion Hd as [|x y Hn Hd']; subst.
  cbn [find]. destruct (is_key (e_key e) a) eqn:E.
  - apply is_key_true in E. destruct Hin as [->|Hin]; [reflexivity|].
    exfalso. apply Hn. rewrite E. apply in_map. exact Hin.
  - destruct Hin as [->|Hin]; [|apply IH; assumption].
    apply is_key_false in E. congruence.
Qed.

(** a list whose entries all come from [l] (keys of [l] unique) serves only what [l] serves *)
Lemma sp_may_sub l l' k w : NoDup (keys l) -> (forall e, In e l' -> In e l) ->
  sp_may l' k = Some w -> sp_may l k = Some w.
Proof.
  unfold sp_may. intros Hd Hsub H. destruct (sp_find k l') as [e|] eqn:E; [|discriminate].
  apply sp_find_some in E. destruct E as [Hin Hk]. subst k.
  rewrite (sp_find_in_nodup l e Hd (Hsub e Hin)). exact H.
Qed.

Lemma in_sp_del k l e : In e (sp_del k l) <-> In e l /\ e_key e <> k.
Proof.
  unfold sp_del. rewrite filter_In. split; intros [H1 H2]; split; auto.
  - apply is_key_false. destruct (is_key k e); [discriminate|reflexivity].
  - apply is_key_false in H2. rewrite H2. reflexivity.
Qed.

Lemma sp_may_nil k : sp_may [] k = None.
Proof. reflexivity. Qed.

Lemma sp_may_has k l : sp_has k l = true -> sp_may l k <> None.
Proof. rewrite sp_find_has. unfold sp_may. destruct (sp_find k l); [discriminate|congruence]. Qed.

Lemma sp_may_del l k k' w : NoDup (keys l) -> sp_may (sp_del k l) k' = Some w -> k' <> k /\ sp_may l k' = Some w.
Proof.
  intros Hd H. split.
  - unfold sp_may in H. destruct (sp_find k' (sp_del k l)) as [e|] eqn:E; [|discriminate].
    apply sp_find_some in E. destruct E as [Hin Hk]. apply in_sp_del in Hin. destruct Hin as [_ Hne]. congruence.
  - apply (sp_may_sub l (sp_del k l) k' w Hd); [|exact H]. intros e He. apply in_sp_del in He. tauto.
Qed.

(** Put (not refused): the new map is at most [k := v] on top of the old one *)
Lemma sp_may_put P l k v sz k' w : NoDup (keys l) -> rejected P sz = false ->
  sp_may (fst (sp_step P l (OpPut k v sz))) k' = Some w ->
  (k' = k /\ w = v) \/ (k' <> k /\ sp_may l k' = Some w).
Proof.
  intros Hd Hr H. cbn [sp_step] in H. rewrite Hr in H.
  destruct (sp_write P k v sz l) as [l' ev] eqn:Ew. cbn [fst] in H.
  destruct (sp_write_shape P k v sz l) as [p [q [Hpq [Hq _]]]]. rewrite Ew in Hq. cbn [fst] in Hq. subst l'.
  unfold sp_may in H. destruct (sp_find k' (q ++ [written P k v sz])) as [e|] eqn:E; [|discriminate].
  cbn [option_map] in H. inversion H; subst w. clear H.
  apply sp_find_some in E. destruct E as [Hin Hk]. apply in_app_iff in Hin. destruct Hin as [Hin|Hin].
  - right. assert (Hin' : In e (sp_del k l)) by (rewrite Hpq; apply in_app_iff; right; exact Hin).
    apply in_sp_del in Hin'. destruct Hin' as [Hl Hne]. split; [congruence|].
    unfold sp_may. rewrite <- Hk. rewrite (sp_find_in_nodup l e Hd Hl). reflexivity.
  - left. destruct Hin as [<-|[]]. unfold written in *. cbn [e_key e_val] in *. split; [congruence|reflexivity].
Qed.

(** Get: only reorders *)
Lemma sp_may_get P l k k' w : NoDup (keys l) ->
  sp_may (fst (sp_step P l (OpGet k))) k' = Some w -> sp_may l k' = Some w.
Proof.
  intros Hd. cbn [sp_step]. destruct (sp_find k l) as [e|] eqn:E; cbn [fst]; [|auto].
  apply sp_may_sub; [exact Hd|]. intros x Hx. apply in_app_iff in Hx. destruct Hx as [Hx|[<-|[]]].
  - apply in_sp_del in Hx. tauto.
  - apply sp_find_some in E. tauto.
Qed.

Lemma sp_get_ret P l k : snd (sp_step P l (OpGet k)) = LruTypes.RGet (sp_may l k).
Proof. cbn [sp_step]. unfold sp_may. destruct (sp_find k l); reflexivity. Qed.

Lemma sp_inv_nodup P l : sp_inv P l -> NoDup (keys l).
Proof. intros [H _]. exact H. Qed.

(** the size the unit passes: len(value) *)
Definition len_size (v : bytes) : Z := Z.of_nat (length v).

Lemma len_size_not_rejected P v : rejected P (len_size v) = false.
Proof. unfold rejected, len_size. destruct (p_sized P); [|reflexivity]. cbn [andb]. lia. Qed.

(** * Any structure that refines the reference LRU operation by operation satisfies the laws *)
Section RefinesSpec.
Variable St : Type.
Variable put : St -> bytes -> bytes -> Z -> St.
Variable get : St -> bytes -> St * option bytes.
Variable has : St -> bytes -> bool.
Variable remove : St -> bytes -> St.
Variable clear : St -> St.
Variable empty : St.
Variable peek : St -> bytes -> option bytes.
Variable abs : St -> list entry.
Variable par : St -> params.
Variable inv : St -> Prop.

Hypothesis R_nodup : forall s, inv s -> NoDup (keys (abs s)).
Hypothesis R_empty : inv empty /\ abs empty = [].
Hypothesis R_put : forall s k v sz, inv s ->
  inv (put s k v sz) /\ abs (put s k v sz) = fst (sp_step (par s) (abs s) (OpPut k v sz)).
Hypothesis R_get : forall s k, inv s ->
  inv (fst (get s k)) /\ (abs (fst (get s k)), LruTypes.RGet (snd (get s k))) = sp_step (par s) (abs s) (OpGet k).
Hypothesis R_has : forall s k, inv s -> has s k = sp_has k (abs s).
Hypothesis R_remove : forall s k, inv s -> inv (remove s k) /\ abs (remove s k) = sp_del k (abs s).
Hypothesis R_clear : forall s, inv s -> inv (clear s) /\ abs (clear s) = [].
Hypothesis R_peek : forall s k, inv s -> peek s k = sp_may (abs s) k.

Definition spec_ops : cacher_ops :=
  {| c_st := St;
     c_empty := empty;
     c_put := fun s k v => put s k v (len_size v);
     c_get := get;
     c_has := has;
     c_remove := remove;
     c_clear := clear |}.

Definition spec_laws : cacher_laws spec_ops.
Proof.
  refine {| cl_inv := (inv : c_st spec_ops -> Prop); cl_may := (peek : c_st spec_ops -> _) |}; cbn [spec_ops c_st c_empty c_put c_get c_has c_remove c_clear].
  - (* inv empty *) exact (proj1 R_empty).
  - (* inv put *) intros s k v Hi. exact (proj1 (R_put s k v (len_size v) Hi)).
  - (* inv get *) intros s k Hi. exact (proj1 (R_get s k Hi)).
  - (* inv remove *) intros s k Hi. exact (proj1 (R_remove s k Hi)).
  - (* inv clear *) intros s Hi. exact (proj1 (R_clear s Hi)).
  - (* empty *) intros k. rewrite (R_peek empty k (proj1 R_empty)), (proj2 R_empty). reflexivity.
  - (* get *) intros s k v Hi H. rewrite (R_peek s k Hi).
    destruct (R_get s k Hi) as [_ Hg]. pose proof (sp_get_ret (par s) (abs s) k) as Hr.
    rewrite <- Hg in Hr. cbn [snd] in Hr. congruence.
  - (* has *) intros s k Hi H. rewrite (R_peek s k Hi). apply sp_may_has. rewrite <- (R_has s k Hi). exact H.
  - (* get_st *) intros s k k' w Hi H. destruct (R_get s k Hi) as [Hi' Hg].
    rewrite (R_peek _ k' Hi') in H. rewrite (R_peek s k' Hi).
    apply (sp_may_get (par s) (abs s) k k' w (R_nodup s Hi)). rewrite <- Hg. exact H.
  - (* put *) intros s k v k' w Hi H. destruct (R_put s k v (len_size v) Hi) as [Hi' Hp].
    rewrite (R_peek _ k' Hi'), Hp in H. rewrite (R_peek s k' Hi).
    exact (sp_may_put (par s) (abs s) k v (len_size v) k' w (R_nodup s Hi) (len_size_not_rejected _ v) H).
  - (* remove *) intros s k k' w Hi H. destruct (R_remove s k Hi) as [Hi' Hr].
    rewrite (R_peek _ k' Hi'), Hr in H. rewrite (R_peek s k' Hi).
    exact (sp_may_del (abs s) k k' w (R_nodup s Hi) H).
  - (* clear *) intros s k w Hi H. destruct (R_clear s Hi) as [Hi' Hc].
    rewrite (R_peek _ k Hi'), Hc in H. discriminate.
Defined.

Lemma spec_clear_forgets : clear_forgets spec_ops spec_laws.
Proof.
  intros s k Hi. cbn in Hi |- *. destruct (R_clear s Hi) as [Hi' Hc].
  rewrite (R_peek _ k Hi'), Hc. reflexivity.
Qed.

End RefinesSpec.

(** * (1) the size-bounded LRU, capacityLRU *)
Definition sized_lru_ops (c0 : clru) : cacher_ops :=
  {| c_st := clru;
     c_empty := c0;                                               (* what NewCapacityLRU returned *)
     c_put := fun s k v => fst (AddSized s k v (len_size v));     (* AddSized(key, value, int64(len(value))) *)
     c_get := Get;
     c_has := Contains;
     c_remove := fun s k => fst (Remove s k);
     c_clear := purge |}.

Section SizedLru.
Variables (size byteCapacity : Z) (c0 : clru).
Hypothesis Hnew : newCapacityLRU size byteCapacity = Some c0.

Definition sized_lru_laws : cacher_laws (sized_lru_ops c0).
Proof.
  refine (spec_laws clru (fun s k v sz => fst (AddSized s k v sz)) Get Contains (fun s k => fst (Remove s k)) purge c0
            Peek cabs cparams cinv _ _ _ _ _ _ _ _).
  - intros s [_ Hs]. exact (sp_inv_nodup _ _ Hs).
  - destruct (new_cinv size byteCapacity c0 Hnew) as [H1 [_ H3]]. split; assumption.
  - intros s k v sz Hi. destruct (AddSized s k v sz) as [c' ev] eqn:E.
    destruct (AddSized_refines s k v sz c' ev Hi E) as [H1 [_ H3]]. cbn [fst]. split; [exact H1|].
    rewrite <- H3. reflexivity.
  - intros s k Hi. destruct (Get s k) as [c' r] eqn:E.
    destruct (Get_refines s k c' r Hi E) as [H1 [_ H3]]. cbn [fst snd]. split; assumption.
  - intros s k Hi. apply Contains_refines. exact Hi.
  - intros s k Hi. destruct (Remove_refines s k Hi) as [H1 [_ H3]]. split; assumption.
  - intros s Hi. destruct (purge_refines s Hi) as [H1 [_ H3]]. split; assumption.
  - intros s k Hi. apply Peek_refines. exact Hi.
Defined.

Lemma sized_lru_clear_forgets : clear_forgets (sized_lru_ops c0) sized_lru_laws.
Proof.
  intros s k Hi. change (cinv s) in Hi. change (Peek (purge s) k = None).
  destruct (purge_refines s Hi) as [H1 [_ H3]]. rewrite (Peek_refines _ k H1), H3. reflexivity.
Qed.

(** what the instance's ghost map and invariant are, by computation *)
Lemma sized_lru_may s k : cl_may _ sized_lru_laws s k = Peek s k.
Proof. reflexivity. Qed.
Lemma sized_lru_inv s : cl_inv _ sized_lru_laws s = cinv s.
Proof. reflexivity. Qed.
End SizedLru.

(** * (2) the plain LRU, hashicorp simplelru behind simpleLRUCacheAdapter *)
Definition plain_lru_ops (c0 : slru) : cacher_ops :=
  {| c_st := slru;
     c_empty := c0;                                                (* what lru.New returned *)
     c_put := fun s k v => fst (a_AddSized s k v (len_size v));    (* the adapter drops the size *)
     c_get := s_Get;
     c_has := s_Contains;
     c_remove := fun s k => fst (s_Remove s k);
     c_clear := s_Purge |}.

Section PlainLru.
Variables (size : Z) (c0 : slru).
Hypothesis Hnew : newLRU size = Some c0.

Definition plain_lru_laws : cacher_laws (plain_lru_ops c0).
Proof.
  refine (spec_laws slru (fun s k v sz => fst (a_AddSized s k v sz)) s_Get s_Contains (fun s k => fst (s_Remove s k)) s_Purge c0
            s_Peek sabs sparams sinv _ _ _ _ _ _ _ _).
  - intros s [_ Hs]. exact (sp_inv_nodup _ _ Hs).
  - destruct (new_sinv size c0 Hnew) as [H1 [_ H3]]. split; assumption.
  - intros s k v sz Hi. unfold a_AddSized. destruct (s_Add s k v) as [c' ev] eqn:E.
    destruct (s_Add_refines s k v sz c' ev Hi E) as [H1 [_ H3]]. cbn [fst]. split; [exact H1|].
    rewrite <- H3. reflexivity.
  - intros s k Hi. destruct (s_Get s k) as [c' r] eqn:E.
    destruct (s_Get_refines s k c' r Hi E) as [H1 [_ H3]]. cbn [fst snd]. split; assumption.
  - intros s k Hi. apply s_Contains_refines. exact Hi.
  - intros s k Hi. destruct (s_Remove_refines s k Hi) as [H1 [_ H3]]. split; assumption.
  - intros s Hi. destruct (s_Purge_refines s Hi) as [H1 [_ H3]]. split; assumption.
  - intros s k Hi. apply s_Peek_refines. exact Hi.
Defined.

Lemma plain_lru_clear_forgets : clear_forgets (plain_lru_ops c0) plain_lru_laws.
Proof.
  intros s k Hi. change (sinv s) in Hi. change (s_Peek (s_Purge s) k = None).
  destruct (s_Purge_refines s Hi) as [H1 [_ H3]]. rewrite (s_Peek_refines _ k H1), H3. reflexivity.
Qed.

Lemma plain_lru_may s k : cl_may _ plain_lru_laws s k = s_Peek s k.
Proof. reflexivity. Qed.
Lemma plain_lru_inv s : cl_inv _ plain_lru_laws s = sinv s.
Proof. reflexivity. Qed.
End PlainLru.

(** * (3) the lruCache wrapper (what factory.NewCache returns), through its own [step] *)
Definition ret_value (r : ret) : option bytes := match r with LruTypes.RGet v => v | RPeek v => v | _ => None end.
Definition ret_flag (r : ret) : bool := match r with RHas b => b | _ => false end.

Definition lc_state (x : lcache * ret * list invocation) : lcache := fst (fst x).
Definition lc_ret (x : lcache * ret * list invocation) : ret := snd (fst x).

Definition lcache_ops (c0 : lcache) : cacher_ops :=
  {| c_st := lcache;
     c_empty := c0;
     c_put := fun s k v => lc_state (step s (OpPut k v (len_size v)));   (* Put(key, value, len(value)) *)
     c_get := fun s k => (lc_state (step s (OpGet k)), ret_value (lc_ret (step s (OpGet k))));
     c_has := fun s k => ret_flag (lc_ret (step s (OpHas k)));
     c_remove := fun s k => lc_state (step s (OpRemove k));
     c_clear := fun s => lc_state (step s OpClear) |}.

Lemma step_refines' c o : linv c ->
  linv (lc_state (step c o)) /\ lparams (lc_state (step c o)) = lparams c /\
  (labs (lc_state (step c o)), lc_ret (step c o)) = sp_step (lparams c) (labs c) o.
Proof.
  intros Hi. unfold lc_state, lc_ret. destruct (step c o) as [[c' r] iv] eqn:E. cbn [fst snd].
  exact (step_refines c o c' r iv Hi E).
Qed.

Lemma b_Peek_refines c k : linv c -> b_Peek (be c) k = sp_may (labs c) k.
Proof.
  unfold linv, labs, sp_may. destruct (be c) as [s|cc]; cbn [b_Peek]; intros Hi;
    [apply s_Peek_refines|apply Peek_refines]; exact Hi.
Qed.

Section LCache.
Variables (sized : bool) (cap mb : Z) (c0 : lcache).
(** [init_cache false cap mb] = lrucache.NewCache(cap), [init_cache true cap mb] =
    lrucache.NewCacheWithSizeInBytes(cap, mb) *)
Hypothesis Hnew : init_cache sized cap mb = Some c0.

Definition lcache_laws : cacher_laws (lcache_ops c0).
Proof.
  refine (spec_laws lcache
            (fun s k v sz => lc_state (step s (OpPut k v sz)))
            (fun s k => (lc_state (step s (OpGet k)), ret_value (lc_ret (step s (OpGet k)))))
            (fun s k => ret_flag (lc_ret (step s (OpHas k))))
            (fun s k => lc_state (step s (OpRemove k)))
            (fun s => lc_state (step s OpClear)) c0
            (fun s k => b_Peek (be s) k) labs lparams linv _ _ _ _ _ _ _ _).
  - intros s Hi. destruct (linv_sp_inv s Hi) as [_ Hs]. exact (sp_inv_nodup _ _ Hs).
  - destruct (init_linv sized cap mb c0 Hnew) as [H1 [_ [H3 _]]]. split; assumption.
  - intros s k v sz Hi. destruct (step_refines' s (OpPut k v sz) Hi) as [H1 [_ H3]]. split; [exact H1|].
    rewrite <- H3. reflexivity.
  - intros s k Hi. destruct (step_refines' s (OpGet k) Hi) as [H1 [_ H3]]. cbn [fst snd]. split; [exact H1|].
    rewrite <- H3. pose proof (sp_get_ret (lparams s) (labs s) k) as Hr. rewrite <- H3 in Hr. cbn [snd] in Hr.
    rewrite Hr. reflexivity.
  - intros s k Hi. destruct (step_refines' s (OpHas k) Hi) as [_ [_ H3]]. cbn [sp_step] in H3.
    apply (f_equal snd) in H3. cbn [snd] in H3. rewrite H3. reflexivity.
  - intros s k Hi. destruct (step_refines' s (OpRemove k) Hi) as [H1 [_ H3]]. cbn [sp_step] in H3.
    apply (f_equal fst) in H3. cbn [fst] in H3. split; [exact H1|exact H3].
  - intros s Hi. destruct (step_refines' s OpClear Hi) as [H1 [_ H3]]. cbn [sp_step] in H3.
    apply (f_equal fst) in H3. cbn [fst] in H3. split; [exact H1|exact H3].
  - intros s k Hi. apply b_Peek_refines. exact Hi.
Defined.

Lemma lcache_clear_forgets : clear_forgets (lcache_ops c0) lcache_laws.
Proof.
  intros s k Hi. change (linv s) in Hi. change (b_Peek (be (lc_state (step s OpClear))) k = None).
  destruct (step_refines' s OpClear Hi) as [H1 [_ H3]]. cbn [sp_step] in H3. apply (f_equal fst) in H3. cbn [fst] in H3.
  rewrite (b_Peek_refines _ k H1), H3. reflexivity.
Qed.

Lemma lcache_may s k : cl_may _ lcache_laws s k = b_Peek (be s) k.
Proof. reflexivity. Qed.
Lemma lcache_inv s : cl_inv _ lcache_laws s = linv s.
Proof. reflexivity. Qed.
End LCache.

(** the unit never registers a handler: the wrapper's operations, unfolded, are the backend's *)
Lemma lcache_ops_backend c0 s k v :
  be (c_put (lcache_ops c0) s k v) = fst (b_AddSized (be s) k v (len_size v)) /\
  be (fst (c_get (lcache_ops c0) s k)) = fst (b_Get (be s) k) /\
  snd (c_get (lcache_ops c0) s k) = snd (b_Get (be s) k) /\
  c_has (lcache_ops c0) s k = b_Contains (be s) k /\
  be (c_remove (lcache_ops c0) s k) = b_Remove (be s) k /\
  be (c_clear (lcache_ops c0) s) = b_Purge (be s).
Proof.
  cbn [lcache_ops c_put c_get c_has c_remove c_clear]. unfold lc_state, lc_ret. cbn [step].
  destruct (b_AddSized (be s) k v (len_size v)) as [b1 e1]. destruct (b_Get (be s) k) as [b2 r2].
  cbn. repeat split; reflexivity.
Qed.

(** * The lruCache inside the unit is a cache REACHABLE by a history of lruCache operations (every Put
    with a non-negative size): every theorem of Props/C15.v applies to it (capacity bound, exact byte
    accounting, refinement of the reference LRU, ...). *)
Definition lru_reachable (c0 c : lcache) : Prop :=
  exists lops : list op, c = run c0 lops /\
    Forall (fun o => match o with OpPut _ _ sz => 0 <= sz | OpHasOrAdd _ _ _ => False | _ => True end) lops.

Lemma lru_reachable_step c0 c o : lru_reachable c0 c ->
  match o with OpPut _ _ sz => 0 <= sz | OpHasOrAdd _ _ _ => False | _ => True end ->
  lru_reachable c0 (lc_state (step c o)).
Proof.
  intros (lops & -> & Hf) Ho. exists (lops ++ [o]). split.
  - unfold run. rewrite fold_left_app. reflexivity.
  - apply Forall_app. split; [exact Hf|constructor; [exact Ho|constructor]].
Qed.

Lemma lcache_unit_reachable c0 ops :
  lru_reachable c0 (u_cache (unit_final (lcache_ops c0) (unit_new (lcache_ops c0)) ops)).
Proof.
  apply (unit_final_pred (lcache_ops c0) (lru_reachable c0 : c_st (lcache_ops c0) -> Prop) (fun _ => True)).
  - intros s k v _ Hr. apply (lru_reachable_step c0 s (OpPut k v (len_size v)) Hr). unfold len_size. lia.
  - intros s k _ Hr. apply (lru_reachable_step c0 s (OpGet k) Hr). exact I.
  - intros s k _ Hr. apply (lru_reachable_step c0 s (OpRemove k) Hr). exact I.
  - intros s Hr. apply (lru_reachable_step c0 s OpClear Hr). exact I.
  - apply Forall_forall. intros op _. apply Forall_forall. intros k _. exact I.
  - exists []. split; [reflexivity|constructor].
Qed.

(** the invariants of C15 for the cache inside the unit *)
Lemma lcache_unit_invariant sized cap mb c0 ops : init_cache sized cap mb = Some c0 ->
  let c : lcache := u_cache (unit_final (lcache_ops c0) (unit_new (lcache_ops c0)) ops) in
  NoDup (cache_keys c) /\ 0 <= b_Len (be c) <= cap /\
  match be c with
  | BSimple s => s_size s = cap
  | BCap cc =>
      maxSize cc = cap /\ maxBytes cc = mb /\ stuck cc = false /\
      curBytes cc = sum_sizes (entries cc) /\
      Forall (fun e => 0 <= e_size e) (entries cc) /\
      (curBytes cc <= mb \/ Len cc <= 1)
  end.
Proof.
  intros Hnew c. destruct (lcache_unit_reachable c0 ops) as (lops & Heq & _). subst c. rewrite Heq.
  exact (invariant sized cap mb c0 lops Hnew).
Qed.
