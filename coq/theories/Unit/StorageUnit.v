(** Model of storageUnit/storageunit.go (C16): a cacher and a persister under one lock.

    Definitions only.  The persister is a map wrapped with a FAILURE ORACLE: every
    call of the persister's Put / Get / Has / Remove / Close / Destroy consumes one boolean of the oracle
    list carried by the operation ([true] = the call returns an error and has no effect;
    an exhausted oracle never fails).  The cacher is ABSTRACT: any structure with the
    five operations below ([cacher_ops]) that satisfies [cacher_laws].

    [SmallCache] is one concrete executable cacher (bounded, evicts the oldest insertion),
    used to make the model runnable; nothing proved about the unit depends on it. *)
From Coq Require Import List NArith ZArith Bool.
From Verif Require Import Base.BStr.
Import ListNotations.

(** ** Association lists: the persister's logical content, the map of acknowledged writes *)
Definition pstore := list (bytes * bytes).

Fixpoint p_lookup (p : pstore) (k : bytes) : option bytes :=
  match p with
  | [] => None
  | (k', v) :: r => if beqb k k' then Some v else p_lookup r k
  end.

Fixpoint p_del (p : pstore) (k : bytes) : pstore :=
  match p with
  | [] => []
  | (k', v) :: r => if beqb k k' then p_del r k else (k', v) :: p_del r k
  end.

Definition p_set (p : pstore) (k v : bytes) : pstore := (k, v) :: p_del p k.

(** ** Errors (the small enum the harness maps Go errors to) *)
Inductive err : Type :=
| ENone        (* nil *)
| ENotFound    (* the persister's "key not found" *)
| EInjected.   (* the error injected by the failure oracle *)

Definition err_code (e : err) : N :=
  match e with ENone => 0 | ENotFound => 1 | EInjected => 2 end%N.

(** ** The persister behind the failure oracle *)
Definition oracle := list bool.

Definition take_bit (o : oracle) : bool * oracle :=
  match o with [] => (false, []) | b :: r => (b, r) end.

(** persister.Put *)
Definition per_put (p : pstore) (o : oracle) (k v : bytes) : pstore * oracle * err :=
  let '(b, o') := take_bit o in
  if b then (p, o', EInjected) else (p_set p k v, o', ENone).

(** persister.Remove (removing an absent key is not an error: memorydb deletes from a Go map,
    leveldb records a deletion in its batch) *)
Definition per_remove (p : pstore) (o : oracle) (k : bytes) : pstore * oracle * err :=
  let '(b, o') := take_bit o in
  if b then (p, o', EInjected) else (p_del p k, o', ENone).

Inductive gres : Type :=
| GOk (v : bytes)
| GErr (e : err).

(** persister.Get *)
Definition per_get (p : pstore) (o : oracle) (k : bytes) : oracle * gres :=
  let '(b, o') := take_bit o in
  if b then (o', GErr EInjected)
  else match p_lookup p k with
       | Some v => (o', GOk v)
       | None => (o', GErr ENotFound)
       end.

(** persister.Has *)
Definition per_has (p : pstore) (o : oracle) (k : bytes) : oracle * err :=
  let '(b, o') := take_bit o in
  if b then (o', EInjected)
  else match p_lookup p k with
       | Some _ => (o', ENone)
       | None => (o', ENotFound)
       end.

(** persister.RangeKeys(handler) with a handler that always asks for more: every stored pair
    (no error result, so no oracle bit; the order of visit is the persister's business) *)
Definition per_range (p : pstore) : list (bytes * bytes) := p.

(** persister.Close: a failing Close has no effect; a successful one keeps the stored data (it is
    durable).  What a persister answers AFTER a successful Close is not modelled here (C09 does that
    for the LevelDB persisters; memorydb.Close does nothing): histories continue after a successful
    Close only where Close has no effect on the persister object. *)
Definition per_close (p : pstore) (o : oracle) : oracle * err :=
  let '(b, o') := take_bit o in
  if b then (o', EInjected) else (o', ENone).

(** persister.Destroy: "removes the storage medium stored data" *)
Definition per_destroy (p : pstore) (o : oracle) : pstore * oracle * err :=
  let '(b, o') := take_bit o in
  if b then (p, o', EInjected) else ([], o', ENone).

(** ** The abstract cacher (types.Cacher as far as the unit uses it) *)
Record cacher_ops : Type := {
  c_st     : Type;
  c_empty  : c_st;                                   (* the freshly constructed cache *)
  c_put    : c_st -> bytes -> bytes -> c_st;         (* Put(key, value, len(value)) *)
  c_get    : c_st -> bytes -> c_st * option bytes;   (* Get(key): may reorder (recency) *)
  c_has    : c_st -> bytes -> bool;                  (* Has(key): no recency update *)
  c_remove : c_st -> bytes -> c_st;                  (* Remove(key) *)
  c_clear  : c_st -> c_st                            (* Clear() *)
}.

(** The laws.  [cl_may s k] is a ghost map "what the cacher may return for k";
    [cl_inv] a representation invariant of the concrete structure.
    A cacher never invents or alters a value: Get / Has answer inside the ghost map,
    Put k v makes the ghost map at most [k := v] on top of the old one, every operation
    may DROP entries of other keys (eviction) but never change them, Remove forgets its key,
    Clear only drops. *)
Record cacher_laws (C : cacher_ops) : Type := {
  cl_inv : c_st C -> Prop;
  cl_may : c_st C -> bytes -> option bytes;

  cl_inv_empty  : cl_inv (c_empty C);
  cl_inv_put    : forall s k v, cl_inv s -> cl_inv (c_put C s k v);
  cl_inv_get    : forall s k, cl_inv s -> cl_inv (fst (c_get C s k));
  cl_inv_remove : forall s k, cl_inv s -> cl_inv (c_remove C s k);
  cl_inv_clear  : forall s, cl_inv s -> cl_inv (c_clear C s);

  cl_empty  : forall k, cl_may (c_empty C) k = None;
  cl_get    : forall s k v, cl_inv s -> snd (c_get C s k) = Some v -> cl_may s k = Some v;
  cl_has    : forall s k, cl_inv s -> c_has C s k = true -> cl_may s k <> None;
  cl_get_st : forall s k k' w, cl_inv s ->
                cl_may (fst (c_get C s k)) k' = Some w -> cl_may s k' = Some w;
  cl_put    : forall s k v k' w, cl_inv s ->
                cl_may (c_put C s k v) k' = Some w ->
                (k' = k /\ w = v) \/ (k' <> k /\ cl_may s k' = Some w);
  cl_remove : forall s k k' w, cl_inv s ->
                cl_may (c_remove C s k) k' = Some w -> k' <> k /\ cl_may s k' = Some w;
  cl_clear  : forall s k w, cl_inv s -> cl_may (c_clear C s) k = Some w -> cl_may s k = Some w
}.

(** Clear forgets everything: NOT part of the laws (no coherence statement needs it, and
    the FIFO sharded cache does not satisfy it for the empty key, which its Clear skips);
    it is an explicit premise of the one theorem about cold reads. *)
Definition clear_forgets (C : cacher_ops) (L : cacher_laws C) : Prop :=
  forall s k, cl_inv C L s -> cl_may C L (c_clear C s) k = None.

(** ** Operations and their outputs *)
Inductive uop : Type :=
| OPut (k v : bytes) (o : oracle)
| OPutInEpoch (k v : bytes) (epoch : N) (o : oracle)
| OGet (k : bytes) (o : oracle)
| OGetFromEpoch (k : bytes) (epoch : N) (o : oracle)
| OSearchFirst (k : bytes) (o : oracle)
| OHas (k : bytes) (o : oracle)
| ORemove (k : bytes) (o : oracle)
| ORemoveFromCurrentEpoch (k : bytes) (o : oracle)
| OClearCache
| OBulk (ks : list bytes) (epoch : N) (o : oracle).

(** The life-cycle operations are kept apart from the data operations above: a history of [lop] is an
    arbitrary interleaving of data operations with RangeKeys, DestroyUnit and Close.  (The theorems over
    [list uop] are about histories without them and hold for every lawful cacher; a successful
    DestroyUnit needs more of the cacher - that its Clear forgets everything - see Props/C16.v.) *)
Inductive lop : Type :=
| LData (op : uop)
| LRangeKeys
| LDestroyUnit (o : oracle)
| LClose (o : oracle).

Inductive uout : Type :=
| RErr (e : err)                       (* Put, Remove, Has: the returned error *)
| RGet (g : gres)                      (* Get: value or error *)
| RNone                                (* ClearCache *)
| RBulk (l : list (bytes * bytes))     (* GetBulkFromEpoch: the pairs (error always nil) *)
| RRange (l : list (bytes * bytes)).   (* RangeKeys: the pairs handed to the handler *)

(** ** The unit *)
Section Unit.
Variable C : cacher_ops.

Record ustate : Type := { u_cache : c_st C; u_pers : pstore }.

Definition unit_new : ustate := {| u_cache := c_empty C; u_pers := [] |}.

(** Put: cacher.Put; persister.Put; on error cacher.Remove(key) and return the error *)
Definition unit_put (s : ustate) (k v : bytes) (o : oracle) : ustate * oracle * err :=
  let c1 := c_put C (u_cache s) k v in
  let '(p1, o1, e) := per_put (u_pers s) o k v in
  match e with
  | ENone => ({| u_cache := c1; u_pers := p1 |}, o1, ENone)
  | _ => ({| u_cache := c_remove C c1 k; u_pers := p1 |}, o1, e)
  end.

(** PutInEpoch: "will call the Put method as this storer doesn't handle epochs" *)
Definition unit_put_in_epoch (s : ustate) (k v : bytes) (epoch : N) (o : oracle) :=
  unit_put s k v o.

(** Get: cacher.Get; if !ok: persister.Get, error -> return it; else cacher.Put(key, v) *)
Definition unit_get (s : ustate) (k : bytes) (o : oracle) : ustate * oracle * gres :=
  let '(c1, r) := c_get C (u_cache s) k in
  match r with
  | Some v => ({| u_cache := c1; u_pers := u_pers s |}, o, GOk v)
  | None =>
      let '(o1, g) := per_get (u_pers s) o k in
      match g with
      | GErr e => ({| u_cache := c1; u_pers := u_pers s |}, o1, GErr e)
      | GOk v => ({| u_cache := c_put C c1 k v; u_pers := u_pers s |}, o1, GOk v)
      end
  end.

Definition unit_get_from_epoch (s : ustate) (k : bytes) (epoch : N) (o : oracle) := unit_get s k o.
Definition unit_search_first (s : ustate) (k : bytes) (o : oracle) := unit_get s k o.

(** GetBulkFromEpoch: Get for every key in order; an error is logged and the key skipped;
    the returned error is always nil *)
Fixpoint unit_bulk (s : ustate) (ks : list bytes) (o : oracle)
  : ustate * oracle * list (bytes * bytes) :=
  match ks with
  | [] => (s, o, [])
  | k :: r =>
      let '(s1, o1, g) := unit_get s k o in
      let '(s2, o2, l) := unit_bulk s1 r o1 in
      match g with
      | GErr _ => (s2, o2, l)
      | GOk v => (s2, o2, (k, v) :: l)
      end
  end.

(** Has: cacher.Has -> nil; else persister.Has *)
Definition unit_has (s : ustate) (k : bytes) (o : oracle) : ustate * oracle * err :=
  if c_has C (u_cache s) k then (s, o, ENone)
  else let '(o1, e) := per_has (u_pers s) o k in (s, o1, e).

(** Remove: cacher.Remove; err := persister.Remove; return err *)
Definition unit_remove (s : ustate) (k : bytes) (o : oracle) : ustate * oracle * err :=
  let c1 := c_remove C (u_cache s) k in
  let '(p1, o1, e) := per_remove (u_pers s) o k in
  ({| u_cache := c1; u_pers := p1 |}, o1, e).

Definition unit_remove_from_current_epoch (s : ustate) (k : bytes) (o : oracle) := unit_remove s k o.

(** ClearCache *)
Definition unit_clear_cache (s : ustate) : ustate :=
  {| u_cache := c_clear C (u_cache s); u_pers := u_pers s |}.

(** RangeKeys: [u.persister.RangeKeys(handler)] - no lock, the cache is not consulted *)
Definition unit_range_keys (s : ustate) : ustate * list (bytes * bytes) := (s, per_range (u_pers s)).

(** DestroyUnit: lock; cacher.Clear(); return persister.Destroy() *)
Definition unit_destroy (s : ustate) (o : oracle) : ustate * oracle * err :=
  let c1 := c_clear C (u_cache s) in
  let '(p1, o1, e) := per_destroy (u_pers s) o in
  ({| u_cache := c1; u_pers := p1 |}, o1, e).

(** Close: cacher.Clear(); err := persister.Close(); if err != nil { log; return err }; return nil *)
Definition unit_close (s : ustate) (o : oracle) : ustate * oracle * err :=
  let c1 := c_clear C (u_cache s) in
  let '(o1, e) := per_close (u_pers s) o in
  match e with
  | ENone => ({| u_cache := c1; u_pers := u_pers s |}, o1, ENone)
  | _ => ({| u_cache := c1; u_pers := u_pers s |}, o1, e)
  end.

Definition unit_step (s : ustate) (op : uop) : ustate * uout :=
  match op with
  | OPut k v o => let '(s', _, e) := unit_put s k v o in (s', RErr e)
  | OPutInEpoch k v ep o => let '(s', _, e) := unit_put_in_epoch s k v ep o in (s', RErr e)
  | OGet k o => let '(s', _, g) := unit_get s k o in (s', RGet g)
  | OGetFromEpoch k ep o => let '(s', _, g) := unit_get_from_epoch s k ep o in (s', RGet g)
  | OSearchFirst k o => let '(s', _, g) := unit_search_first s k o in (s', RGet g)
  | OHas k o => let '(s', _, e) := unit_has s k o in (s', RErr e)
  | ORemove k o => let '(s', _, e) := unit_remove s k o in (s', RErr e)
  | ORemoveFromCurrentEpoch k o => let '(s', _, e) := unit_remove_from_current_epoch s k o in (s', RErr e)
  | OClearCache => (unit_clear_cache s, RNone)
  | OBulk ks ep o => let '(s', _, l) := unit_bulk s ks o in (s', RBulk l)
  end.

Definition life_step (s : ustate) (op : lop) : ustate * uout :=
  match op with
  | LData d => unit_step s d
  | LRangeKeys => let '(s', l) := unit_range_keys s in (s', RRange l)
  | LDestroyUnit o => let '(s', _, e) := unit_destroy s o in (s', RErr e)
  | LClose o => let '(s', _, e) := unit_close s o in (s', RErr e)
  end.

(** the trace of a history: every operation with its output; and the final state *)
Fixpoint unit_run (s : ustate) (ops : list uop) : list (uop * uout) :=
  match ops with
  | [] => []
  | op :: r => let '(s', out) := unit_step s op in (op, out) :: unit_run s' r
  end.

Definition unit_final (s : ustate) (ops : list uop) : ustate :=
  fold_left (fun st op => fst (unit_step st op)) ops s.

Fixpoint life_run (s : ustate) (ops : list lop) : list (lop * uout) :=
  match ops with
  | [] => []
  | op :: r => let '(s', out) := life_step s op in (op, out) :: life_run s' r
  end.

Definition life_final (s : ustate) (ops : list lop) : ustate :=
  fold_left (fun st op => fst (life_step st op)) ops s.

End Unit.

Arguments u_cache {C} _.
Arguments u_pers {C} _.

(** ** The specification vocabulary: the map of acknowledged writes
    (computed from operations and their OUTPUTS only — what a client can record). *)
Definition ack_step (m : pstore) (x : uop * uout) : pstore :=
  match x with
  | (OPut k v _, RErr ENone) => p_set m k v
  | (OPutInEpoch k v _ _, RErr ENone) => p_set m k v
  | (ORemove k _, RErr ENone) => p_del m k
  | (ORemoveFromCurrentEpoch k _, RErr ENone) => p_del m k
  | _ => m
  end.
Definition ack_map (tr : list (uop * uout)) : pstore := fold_left ack_step tr [].

(** the same over life-cycle histories: an acknowledged DestroyUnit withdraws every write; RangeKeys
    and Close (acknowledged or not) write nothing *)
Definition life_ack_step (m : pstore) (x : lop * uout) : pstore :=
  match x with
  | (LData d, out) => ack_step m (d, out)
  | (LDestroyUnit _, RErr ENone) => []
  | _ => m
  end.
Definition life_ack_map (tr : list (lop * uout)) : pstore := fold_left life_ack_step tr [].

(** what a map answers *)
Definition spec_get (m : pstore) (k : bytes) : gres :=
  match p_lookup m k with Some v => GOk v | None => GErr ENotFound end.

Definition spec_has (m : pstore) (k : bytes) : err :=
  match p_lookup m k with Some _ => ENone | None => ENotFound end.

(** the found pairs of a bulk request, in request order *)
Definition found_pairs (m : pstore) (ks : list bytes) : list (bytes * bytes) :=
  flat_map (fun k => match p_lookup m k with Some v => [(k, v)] | None => [] end) ks.

(** ** factory.NewStorageUnitFromConf: the first test of the function,
    [if dbConf.MaxBatchSize > int(cacheConf.Capacity) { return nil, ErrCacheSizeIsLowerThanBatchSize }]
    (MaxBatchSize is an int, Capacity a uint32; the comparison is done on int). *)
Definition factory_refuses (max_batch_size : Z) (capacity : N) : bool :=
  (Z.of_N capacity <? max_batch_size)%Z.

Inductive factory_result : Type :=
| FRefusedBatchSize      (* ErrCacheSizeIsLowerThanBatchSize, nothing constructed *)
| FContinue.             (* goes on to NewCache / NewDB / NewStorageUnit *)

Definition factory_guard (max_batch_size : Z) (capacity : N) : factory_result :=
  if factory_refuses max_batch_size capacity then FRefusedBatchSize else FContinue.
