(** A concrete executable cacher: bounded by a number of entries, newest insertion first,
    evicts the oldest insertions on overflow; Get does not reorder.  It exists only to make
    the unit model runnable (UnitComp.v) and to show that [cacher_laws] is inhabited. *)
From Coq Require Import List NArith Bool.
From Verif Require Import Base.BStr Unit.StorageUnit.
Import ListNotations.

Definition sc_put (cap : nat) (s : pstore) (k v : bytes) : pstore :=
  firstn cap ((k, v) :: p_del s k).

Definition sc_get (s : pstore) (k : bytes) : pstore * option bytes := (s, p_lookup s k).

Definition sc_has (s : pstore) (k : bytes) : bool :=
  match p_lookup s k with Some _ => true | None => false end.

Definition small_cache (cap : nat) : cacher_ops :=
  {| c_st := pstore;
     c_empty := [];
     c_put := sc_put cap;
     c_get := sc_get;
     c_has := sc_has;
     c_remove := p_del;
     c_clear := fun _ => [] |}.
