(** Wire-format wrapper of the storage unit model (C16).

    config  kind cap shards pkind maxbatch [ keys ]
            The model only uses [cap] (capacity of its SmallCache, which stands for ANY
            lawful cacher) and [keys] (the alphabet whose persister content is printed).

    op 1  via key value [ oracle ]       Put (via 0) / PutInEpoch (via 1)              -> 5=error class
    op 2  via cold key [ oracle ]        Get (0) / GetFromEpoch (1) / SearchFirst (2)  -> 1=value|-  [2=error class]
    op 3  cold key [ oracle ]            Has                                            -> 3=bool     [4=error class]
    op 4  via key [ oracle ]             Remove (0) / RemoveFromCurrentEpoch (1)       -> 6=error class
    op 5                                 ClearCache
    op 6  cold [ keys ] [ oracle ]       GetBulkFromEpoch                               -> [8=[ k v k v .. ]]
    op 7                                 RangeKeys (handler collecting every pair)      -> [9=[ k v k v .. ] sorted by key]
    op 8  [ oracle ]                     DestroyUnit                                    -> 10=error class 12=entries left in the cache
    op 9  [ oracle ]                     Close                                          -> 11=error class 12=entries left in the cache
    every op                                                                            -> 7=[ persister's value|- for each key of the alphabet ]

    [cold] = ClearCache is called first (so that the read certainly misses the cache).
    error classes: 0 nil, 1 not found, 2 injected.

    Only POLICY-INDEPENDENT observables are printed, i.e. observables that are the same for
    every lawful cacher (which entries a cache keeps is not constrained by the property):
    - 1 / 3: the answer of Get / Has where an INJECTED read error is replaced by the
      persister's own content for that key ("the value served, or the value that would have
      been read"): whether the injected failure fires depends on whether the cache still
      holds the key.
    - 2 / 4 (the error class itself) only when it cannot depend on the cache content:
      the oracle's first bit is false, or the read is cold.
    - 8 only when no read of the bulk can fail, or the bulk is cold over distinct keys
      (every key then misses and consumes exactly one oracle bit).
    - 9 only over a memorydb persister (pkind 0): a LevelDB persister's RangeKeys visits what has been
      FLUSHED so far (flush timing is C09/C10's subject); over memorydb every acknowledged write is
      written through, so RangeKeys must visit exactly the map of acknowledged writes.
    - 12 (how many entries the cache holds right after DestroyUnit / Close: the model's cache is empty
      then, whatever its policy) is the one observable of the cache content, and only at these steps.
    - never the cache content otherwise, never which layer served a read.
    A successful Close / DestroyUnit in the middle of a history is generated only over memorydb (whose
    Close does nothing and whose Destroy leaves an empty, usable map); over LevelDB only a failing
    one (the stub fails before reaching the persister) or a successful DestroyUnit as last operation.
    900=n1 (model-only event): a bulk read omitted a pair that the persister holds, with a
    nil error (the injected read error was swallowed). *)
From Coq Require Import List NArith ZArith Bool.
From Verif Require Import Base.Generic Base.BStr Unit.StorageUnit Unit.SmallCache.
Import ListNotations.
Open Scope N_scope.

Record wstate : Type := {
  w_cap   : nat;
  w_pkind : N;
  w_cache : pstore;
  w_pers  : pstore;
  w_keys  : list bytes
}.

Definition unit_init (cfg : list garg) : option wstate :=
  Some {| w_cap := N.to_nat (arg_N (nth_arg cfg 1));
          w_pkind := arg_N (nth_arg cfg 3);
          w_cache := [];
          w_pers := [];
          w_keys := map arg_B (arg_L (nth_arg cfg 5)) |}.

Definition arg_oracle (a : garg) : oracle := map arg_bool (arg_L a).

Definition decode_op (code : N) (args : list garg) : option (bool (*cold*) * lop) :=
  match code with
  | 1 => let via := arg_N (nth_arg args 0) in
         let k := arg_B (nth_arg args 1) in
         let v := arg_B (nth_arg args 2) in
         let o := arg_oracle (nth_arg args 3) in
         Some (false, LData (if via =? 0 then OPut k v o else OPutInEpoch k v 0 o))
  | 2 => let via := arg_N (nth_arg args 0) in
         let cold := arg_bool (nth_arg args 1) in
         let k := arg_B (nth_arg args 2) in
         let o := arg_oracle (nth_arg args 3) in
         Some (cold, LData (if via =? 0 then OGet k o else if via =? 1 then OGetFromEpoch k 0 o else OSearchFirst k o))
  | 3 => let cold := arg_bool (nth_arg args 0) in
         let k := arg_B (nth_arg args 1) in
         let o := arg_oracle (nth_arg args 2) in
         Some (cold, LData (OHas k o))
  | 4 => let via := arg_N (nth_arg args 0) in
         let k := arg_B (nth_arg args 1) in
         let o := arg_oracle (nth_arg args 2) in
         Some (false, LData (if via =? 0 then ORemove k o else ORemoveFromCurrentEpoch k o))
  | 5 => Some (false, LData OClearCache)
  | 6 => let cold := arg_bool (nth_arg args 0) in
         let ks := map arg_B (arg_L (nth_arg args 1)) in
         let o := arg_oracle (nth_arg args 2) in
         Some (cold, LData (OBulk ks 0 o))
  | 7 => Some (false, LRangeKeys)
  | 8 => Some (false, LDestroyUnit (arg_oracle (nth_arg args 0)))
  | 9 => Some (false, LClose (arg_oracle (nth_arg args 0)))
  | _ => None
  end.

Fixpoint memb (k : bytes) (l : list bytes) : bool :=
  match l with [] => false | x :: r => beqb k x || memb k r end.
Fixpoint nodupb (l : list bytes) : bool :=
  match l with [] => true | x :: r => negb (memb x r) && nodupb r end.

Definition g_err (e : err) : garg := g_N (err_code e).

Definition g_pairs (l : list (bytes * bytes)) : garg :=
  GL (flat_map (fun kv => [GB (fst kv); GB (snd kv)]) l).

(** the policy-independent observables of one step; [pers] is the persister BEFORE the step
    (reads do not change it) *)
Definition observe (cold : bool) (op : uop) (out : uout) (pers : pstore) : list obs :=
  match op, out with
  | (OPut _ _ _ | OPutInEpoch _ _ _ _), RErr e => [(5, g_err e)]
  | (ORemove _ _ | ORemoveFromCurrentEpoch _ _), RErr e => [(6, g_err e)]
  | (OGet k o | OGetFromEpoch k _ o | OSearchFirst k o), RGet g =>
      let served := match g with
                    | GOk v => Some v
                    | GErr EInjected => p_lookup pers k
                    | GErr _ => None
                    end in
      let cls := match g with GOk _ => ENone | GErr e => e end in
      (1, g_optB served) :: (if cold || negb (hd false o) then [(2, g_err cls)] else [])
  | OHas k o, RErr e =>
      let has := match e with
                 | ENone => true
                 | EInjected => match p_lookup pers k with Some _ => true | None => false end
                 | ENotFound => false
                 end in
      (3, g_bool has) :: (if cold || negb (hd false o) then [(4, g_err e)] else [])
  | OBulk ks _ o, RBulk l =>
      (if forallb negb (firstn (length ks) o) || (cold && nodupb ks) then [(8, g_pairs l)] else [])
      ++ (if (length l <? length (found_pairs pers ks))%nat then [(900, g_N 1)] else [])
  | _, _ => []
  end.

Fixpoint pinsert (x : bytes * bytes) (l : list (bytes * bytes)) : list (bytes * bytes) :=
  match l with
  | [] => [x]
  | y :: r => match bcmp (fst x) (fst y) with Gt => y :: pinsert x r | _ => x :: l end
  end.
Definition psort (l : list (bytes * bytes)) : list (bytes * bytes) := fold_right pinsert [] l.

(** the observables of a life-cycle step; [cache_after] = the model's cache after the step *)
Definition observe_life (pkind : N) (cold : bool) (op : lop) (out : uout) (pers cache_after : pstore) : list obs :=
  match op, out with
  | LData d, _ => observe cold d out pers
  | LRangeKeys, RRange l => if pkind =? 0 then [(9, g_pairs (psort l))] else []
  | LDestroyUnit _, RErr e => [(10, g_err e); (12, g_N (N.of_nat (length cache_after)))]
  | LClose _, RErr e => [(11, g_err e); (12, g_N (N.of_nat (length cache_after)))]
  | _, _ => []
  end.

Definition unit_wstep (w : wstate) (code : N) (args : list garg) : wstate * list obs :=
  match decode_op code args with
  | None => (w, [])
  | Some (cold, op) =>
      let C := small_cache (w_cap w) in
      let s0 : ustate C := Build_ustate (small_cache (w_cap w)) (w_cache w) (w_pers w) in
      let s1 := if cold then unit_clear_cache C s0 else s0 in
      let '(s2, out) := life_step C s1 op in
      let w' := {| w_cap := w_cap w; w_pkind := w_pkind w; w_cache := u_cache s2; w_pers := u_pers s2; w_keys := w_keys w |} in
      (w', observe_life (w_pkind w) cold op out (u_pers s1) (u_cache s2)
           ++ [(7, GL (map (fun k => g_optB (p_lookup (u_pers s2) k)) (w_keys w)))])
  end.

Definition unit_component : component :=
  {| c_state := wstate; c_init := unit_init; c_step := unit_wstep |}.
