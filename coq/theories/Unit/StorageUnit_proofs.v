(** Lemmas about the storage unit model: for ANY lawful cacher, ALL histories, ALL failure oracles. *)
From Coq Require Import List NArith ZArith PeanoNat Lia Bool ZifyN ZifyNat ZifyBool.
From Verif Require Import Base.BStr Unit.StorageUnit Unit.SmallCache.
Import ListNotations.
Open Scope nat_scope.

(** * Association lists *)
Lemma p_lookup_del_same p k : p_lookup (p_del p k) k = None.
Proof.
  induction p as [|[k' v] r IH]; simpl; [reflexivity|].
  destruct (beqb k k') eqn:E; [exact IH|]. simpl. rewrite E. exact IH.
Qed.

Lemma p_lookup_del_other p k k' : k' <> k -> p_lookup (p_del p k) k' = p_lookup p k'.
Proof.
  intros Hne. induction p as [|[k0 v] r IH]; simpl; [reflexivity|].
  destruct (beqb k k0) eqn:E.
  - apply beqb_eq in E. subst k0.
    destruct (beqb k' k) eqn:E'; [apply beqb_eq in E'; contradiction|]. exact IH.
  - simpl. destruct (beqb k' k0); [reflexivity|exact IH].
Qed.

Lemma p_lookup_del_some p k k' w : p_lookup (p_del p k) k' = Some w -> k' <> k /\ p_lookup p k' = Some w.
Proof.
  intros H. destruct (beqb_spec k' k) as [->|Hne].
  - rewrite p_lookup_del_same in H. discriminate.
  - split; [exact Hne|]. rewrite p_lookup_del_other in H by exact Hne. exact H.
Qed.

Lemma p_lookup_set_same p k v : p_lookup (p_set p k v) k = Some v.
Proof. unfold p_set. simpl. rewrite beqb_refl. reflexivity. Qed.

Lemma p_lookup_set_other p k v k' : k' <> k -> p_lookup (p_set p k v) k' = p_lookup p k'.
Proof.
  intros Hne. unfold p_set. simpl.
  destruct (beqb k' k) eqn:E; [apply beqb_eq in E; contradiction|].
  apply p_lookup_del_other. exact Hne.
Qed.

Arguments p_set : simpl never.

Lemma p_lookup_firstn n p k w : p_lookup (firstn n p) k = Some w -> p_lookup p k = Some w.
Proof.
  revert p; induction n as [|n IH]; intros [|[k0 v] r]; simpl; try discriminate.
  destruct (beqb k k0); [auto|apply IH].
Qed.

(** * SmallCache is a lawful cacher (for every capacity, 0 included) *)
Lemma sc_put_may cap s k v k' w :
  p_lookup (sc_put cap s k v) k' = Some w -> (k' = k /\ w = v) \/ (k' <> k /\ p_lookup s k' = Some w).
Proof.
  unfold sc_put. intros H. apply p_lookup_firstn in H. simpl in H.
  destruct (beqb_spec k' k) as [->|Hne].
  - left. split; [reflexivity|]. congruence.
  - right. split; [exact Hne|]. rewrite p_lookup_del_other in H by exact Hne. exact H.
Qed.

Definition small_cache_laws (cap : nat) : cacher_laws (small_cache cap).
Proof.
  refine {| cl_inv := fun _ => True; cl_may := (p_lookup : c_st (small_cache cap) -> _) |}; simpl; auto.
  - (* has *) intros s k _. unfold sc_has. destruct (p_lookup s k); congruence.
  - (* put *) intros s k v k' w _. apply sc_put_may.
  - (* remove *) intros s k k' w _. apply p_lookup_del_some.
  - (* clear *) discriminate.
Defined.

Lemma small_cache_clear_forgets cap : clear_forgets (small_cache cap) (small_cache_laws cap).
Proof. intros s k _. reflexivity. Qed.

(** * Oracles *)
Fixpoint count_true (o : oracle) : nat :=
  match o with [] => 0 | b :: r => (if b then 1 else 0) + count_true r end.

Definition no_fail_prefix (n : nat) (o : oracle) : Prop := forallb negb (firstn n o) = true.

Lemma no_fail_prefix_S n o :
  no_fail_prefix (S n) o -> hd false o = false /\ no_fail_prefix n (tl o) /\ no_fail_prefix n o.
Proof.
  unfold no_fail_prefix. revert o. induction n as [|n IH]; intros [|b r]; simpl; intros H; auto.
  - destruct b; simpl in *; try discriminate; auto.
  - apply andb_true_iff in H as [Hb Hr]. destruct b; [discriminate|]. simpl.
    repeat split; [exact Hr|]. destruct (IH r Hr) as (_ & _ & H3). exact H3.
Qed.

Lemma take_bit_eq o : take_bit o = (hd false o, tl o).
Proof. destruct o; reflexivity. Qed.

Lemma count_true_tl o : count_true o = ((if hd false o then 1 else 0) + count_true (tl o))%nat.
Proof. destruct o; reflexivity. Qed.

(** subsequences *)
Inductive sublist {A} : list A -> list A -> Prop :=
| sub_nil : sublist [] []
| sub_skip x l1 l2 : sublist l1 l2 -> sublist l1 (x :: l2)
| sub_keep x l1 l2 : sublist l1 l2 -> sublist (x :: l1) (x :: l2).

Lemma sublist_refl {A} (l : list A) : sublist l l.
Proof. induction l; constructor; assumption. Qed.

Lemma sublist_app {A} (a1 a2 b1 b2 : list A) : sublist a1 a2 -> sublist b1 b2 -> sublist (a1 ++ b1) (a2 ++ b2).
Proof.
  induction 1 as [|x l1 l2 H IH|x l1 l2 H IH]; simpl; intros Hb.
  - exact Hb.
  - apply sub_skip, IH, Hb.
  - apply sub_keep, IH, Hb.
Qed.

Lemma sublist_nil_l {A} (l : list A) : sublist [] l.
Proof. induction l; constructor; assumption. Qed.

(** * The specification of outputs, against a map [m] *)
Definition write_err (o : oracle) : err := if hd false o then EInjected else ENone.

Definition bulk_ok (m : pstore) (ks : list bytes) (o : oracle) (l : list (bytes * bytes)) : Prop :=
  sublist l (found_pairs m ks) /\
  (no_fail_prefix (length ks) o -> l = found_pairs m ks) /\
  (length (found_pairs m ks) <= length l + count_true o)%nat.

Definition out_ok (m : pstore) (op : uop) (out : uout) : Prop :=
  match op with
  | OPut _ _ o | OPutInEpoch _ _ _ o | ORemove _ o | ORemoveFromCurrentEpoch _ o =>
      out = RErr (write_err o)
  | OGet k o | OGetFromEpoch k _ o | OSearchFirst k o =>
      out = RGet (spec_get m k) \/ (hd false o = true /\ out = RGet (GErr EInjected))
  | OHas k o =>
      out = RErr (spec_has m k) \/ (hd false o = true /\ out = RErr EInjected)
  | OClearCache => out = RNone
  | OBulk ks _ o => exists l, out = RBulk l /\ bulk_ok m ks o l
  end.

(** every output of a trace is the one the map of the writes acknowledged SO FAR allows *)
Fixpoint trace_ok (m : pstore) (tr : list (uop * uout)) : Prop :=
  match tr with
  | [] => True
  | x :: r => out_ok m (fst x) (snd x) /\ trace_ok (ack_step m x) r
  end.

(** does [op] write (put or remove) key [k]? *)
Definition writes (k : bytes) (op : uop) : bool :=
  match op with
  | OPut k' _ _ | OPutInEpoch k' _ _ _ | ORemove k' _ | ORemoveFromCurrentEpoch k' _ => beqb k k'
  | _ => false
  end.

Section Proofs.
Variable C : cacher_ops.
Variable L : cacher_laws C.

Notation inv := (cl_inv C L).
Notation may := (cl_may C L).

(** the coherence invariant: whatever the cache may return is what the persister holds *)
Definition coherent (s : ustate C) : Prop :=
  inv (u_cache s) /\ forall k v, may (u_cache s) k = Some v -> p_lookup (u_pers s) k = Some v.

Lemma coherent_new : coherent (unit_new C).
Proof.
  split; simpl; [apply cl_inv_empty|]. intros k v H. rewrite cl_empty in H. discriminate.
Qed.

(** ** Get *)
Lemma get_spec s k o s' o' g :
  coherent s -> unit_get C s k o = (s', o', g) ->
  coherent s' /\ u_pers s' = u_pers s /\
  ((g = spec_get (u_pers s) k /\ (o' = o \/ (hd false o = false /\ o' = tl o))) \/
   (g = GErr EInjected /\ hd false o = true /\ o' = tl o)).
Proof.
  intros [Hinv Hco] H. unfold unit_get in H.
  pose proof (cl_get C L (u_cache s) k) as Hget.
  pose proof (cl_inv_get C L (u_cache s) k Hinv) as Hinv1.
  pose proof (fun k' w => cl_get_st C L (u_cache s) k k' w Hinv) as Hst.
  destruct (c_get C (u_cache s) k) as [c1 r] eqn:Hg. simpl in Hget, Hinv1, Hst.
  destruct r as [v|].
  - (* cache hit *)
    inversion H; subst; clear H. simpl.
    pose proof (Hco k v (Hget v Hinv eq_refl)) as Hp.
    repeat split; auto.
    left. unfold spec_get. rewrite Hp. auto.
  - (* miss: read the persister *)
    unfold per_get in H. rewrite take_bit_eq in H.
    destruct (hd false o) eqn:Hb.
    + inversion H; subst; clear H. simpl. repeat split; auto.
    + destruct (p_lookup (u_pers s) k) as [v|] eqn:Hp.
      * inversion H; subst; clear H. simpl. split; [|split; [reflexivity|]].
        -- split; simpl; [apply cl_inv_put; exact Hinv1|].
           intros k' w Hm. apply cl_put in Hm; [|exact Hinv1].
           destruct Hm as [[-> ->]|[_ Hm]]; [exact Hp|auto].
        -- left. unfold spec_get. rewrite Hp. auto.
      * inversion H; subst; clear H. simpl. repeat split; auto.
        left. unfold spec_get. rewrite Hp. auto.
Qed.

(** ** Has *)
Lemma has_spec s k o s' o' e :
  coherent s -> unit_has C s k o = (s', o', e) ->
  s' = s /\ (e = spec_has (u_pers s) k \/ (hd false o = true /\ e = EInjected)).
Proof.
  intros [Hinv Hco] H. unfold unit_has in H.
  destruct (c_has C (u_cache s) k) eqn:Hh.
  - injection H as <- <- <-. split; [reflexivity|]. left.
    pose proof (cl_has C L _ _ Hinv Hh) as Hm.
    destruct (may (u_cache s) k) as [v|] eqn:Hv; [|congruence].
    unfold spec_has. rewrite (Hco _ _ Hv). reflexivity.
  - unfold per_has in H. rewrite take_bit_eq in H.
    destruct (hd false o) eqn:Hb.
    + injection H as <- <- <-. auto.
    + unfold spec_has. destruct (p_lookup (u_pers s) k); injection H as <- <- <-; auto.
Qed.

(** ** Put *)
Lemma put_spec s k v o s' o' e :
  coherent s -> unit_put C s k v o = (s', o', e) ->
  coherent s' /\ e = write_err o /\
  u_pers s' = (if hd false o then u_pers s else p_set (u_pers s) k v) /\
  (hd false o = true -> may (u_cache s') k = None).
Proof.
  intros [Hinv Hco] H. unfold unit_put, per_put, write_err in *. rewrite take_bit_eq in H.
  destruct (hd false o) eqn:Hb; inversion H; subst; clear H; simpl.
  - (* rejected: the cache entry is removed again *)
    assert (Hrm : forall k' w, may (c_remove C (c_put C (u_cache s) k v) k) k' = Some w ->
                               k' <> k /\ may (u_cache s) k' = Some w).
    { intros k' w Hm. apply cl_remove in Hm; [|apply cl_inv_put; exact Hinv].
      destruct Hm as [Hne Hm]. apply cl_put in Hm; [|exact Hinv].
      destruct Hm as [[-> _]|[_ Hm]]; [contradiction|auto]. }
    repeat split; simpl; auto.
    + apply cl_inv_remove, cl_inv_put. exact Hinv.
    + intros k' w Hm. apply Hrm in Hm. apply Hco. tauto.
    + intros _. destruct (may _ k) as [w|] eqn:Hm; [|reflexivity].
      apply Hrm in Hm. destruct Hm as [Hne _]. contradiction.
  - repeat split; simpl; auto; try discriminate.
    + apply cl_inv_put. exact Hinv.
    + intros k' w Hm. apply cl_put in Hm; [|exact Hinv].
      destruct Hm as [[-> ->]|[Hne Hm]].
      * apply p_lookup_set_same.
      * change (p_lookup (p_set (u_pers s) k v) k' = Some w).
        rewrite p_lookup_set_other by exact Hne. auto.
Qed.

(** ** Remove *)
Lemma remove_spec s k o s' o' e :
  coherent s -> unit_remove C s k o = (s', o', e) ->
  coherent s' /\ e = write_err o /\
  u_pers s' = (if hd false o then u_pers s else p_del (u_pers s) k) /\
  may (u_cache s') k = None.
Proof.
  intros [Hinv Hco] H. unfold unit_remove, per_remove, write_err in *. rewrite take_bit_eq in H.
  assert (Hk : may (c_remove C (u_cache s) k) k = None).
  { destruct (may _ k) as [w|] eqn:Hm; [|reflexivity].
    apply cl_remove in Hm; [|exact Hinv]. destruct Hm as [Hne _]. contradiction. }
  destruct (hd false o) eqn:Hb; inversion H; subst; clear H; simpl; repeat split; simpl; auto.
  - apply cl_inv_remove. exact Hinv.
  - intros k' w Hm. apply cl_remove in Hm; [|exact Hinv]. apply Hco. tauto.
  - apply cl_inv_remove. exact Hinv.
  - intros k' w Hm. apply cl_remove in Hm; [|exact Hinv]. destruct Hm as [Hne Hm].
    rewrite p_lookup_del_other by exact Hne. auto.
Qed.

(** ** ClearCache *)
Lemma clear_spec s : coherent s -> coherent (unit_clear_cache C s) /\ u_pers (unit_clear_cache C s) = u_pers s.
Proof.
  intros [Hinv Hco]. split; [|reflexivity]. split; simpl; [apply cl_inv_clear; exact Hinv|].
  intros k v Hm. apply cl_clear in Hm; [|exact Hinv]. auto.
Qed.

(** ** GetBulkFromEpoch *)
Lemma found_pairs_cons m k r :
  found_pairs m (k :: r) = (match p_lookup m k with Some v => [(k, v)] | None => [] end) ++ found_pairs m r.
Proof. reflexivity. Qed.

Lemma bulk_spec ks : forall s o s' o' l,
  coherent s -> unit_bulk C s ks o = (s', o', l) ->
  coherent s' /\ u_pers s' = u_pers s /\ bulk_ok (u_pers s) ks o l /\ (count_true o' <= count_true o)%nat.
Proof.
  induction ks as [|k r IH]; intros s o s' o' l Hco H; simpl in H.
  - injection H as <- <- <-. split; [exact Hco|]. split; [reflexivity|]. split; [|lia].
    unfold bulk_ok. simpl. split; [constructor|]. split; [reflexivity|lia].
  - destruct (unit_get C s k o) as [[s1 o1] g] eqn:Hg.
    destruct (unit_bulk C s1 r o1) as [[s2 o2] l2] eqn:Hb.
    destruct (get_spec _ _ _ _ _ _ Hco Hg) as (Hco1 & Hp1 & Hres).
    destruct (IH _ _ _ _ _ Hco1 Hb) as (Hco2 & Hp2 & (Hsub & Hex & Hlen) & Hcnt).
    rewrite Hp1 in *.
    assert (Hs : s' = s2 /\ o' = o2) by (destruct g; inversion H; auto). destruct Hs as [-> ->].
    split; [exact Hco2|]. split; [congruence|].
    unfold bulk_ok. rewrite found_pairs_cons. simpl length.
    pose proof (count_true_tl o) as Hct.
    destruct Hres as [[Hgv Ho]|(Hgv & Hb1 & Ho)].
    + (* the read answered like the map *)
      assert (Hc1 : (count_true o1 <= count_true o)%nat).
      { destruct Ho as [->|[Hb0 ->]]; [lia|]. rewrite Hct, Hb0. lia. }
      assert (Hnf : no_fail_prefix (S (length r)) o -> no_fail_prefix (length r) o1).
      { intros Hn. apply no_fail_prefix_S in Hn. destruct Ho as [->|[_ ->]]; tauto. }
      unfold spec_get in Hgv. destruct (p_lookup (u_pers s) k) as [v|] eqn:Hpk; subst g;
        inversion H; subst; clear H.
      * repeat split; try lia.
        -- simpl. apply sub_keep. exact Hsub.
        -- intros Hn. simpl. f_equal. apply Hex, Hnf, Hn.
        -- simpl. lia.
      * repeat split; try lia.
        -- exact Hsub.
        -- intros Hn. simpl. apply Hex, Hnf, Hn.
        -- simpl. lia.
    + (* the read was made to fail: the key is skipped *)
      subst g. inversion H; subst; clear H.
      rewrite Hb1 in Hct.
      repeat split; try lia.
      * apply (sublist_app [] _ l _); [apply sublist_nil_l|exact Hsub].
      * intros Hn. apply no_fail_prefix_S in Hn. destruct Hn as [Hn _]. congruence.
      * rewrite app_length. destruct (p_lookup (u_pers s) k); simpl; lia.
Qed.

(** ** One step: coherence is preserved, the persister follows the acknowledged writes,
    the output is the one the map allows *)
Lemma step_spec s op s' out :
  coherent s -> unit_step C s op = (s', out) ->
  coherent s' /\ u_pers s' = ack_step (u_pers s) (op, out) /\ out_ok (u_pers s) op out.
Proof.
  intros Hco H. destruct op; simpl in H;
    unfold unit_put_in_epoch, unit_get_from_epoch, unit_search_first, unit_remove_from_current_epoch in H.
  - destruct (unit_put C s k v o) as [[s1 o1] e] eqn:E. injection H as <- <-.
    destruct (put_spec _ _ _ _ _ _ _ Hco E) as (H1 & -> & H3 & _).
    split; [exact H1|]. split; [|reflexivity].
    rewrite H3. unfold write_err. simpl. destruct (hd false o); reflexivity.
  - destruct (unit_put C s k v o) as [[s1 o1] e] eqn:E. injection H as <- <-.
    destruct (put_spec _ _ _ _ _ _ _ Hco E) as (H1 & -> & H3 & _).
    split; [exact H1|]. split; [|reflexivity].
    rewrite H3. unfold write_err. simpl. destruct (hd false o); reflexivity.
  - destruct (unit_get C s k o) as [[s1 o1] g] eqn:E. injection H as <- <-.
    destruct (get_spec _ _ _ _ _ _ Hco E) as (H1 & H2 & H3).
    split; [exact H1|]. split; [exact H2|]. simpl. destruct H3 as [[-> _]|(-> & Hb & _)]; auto.
  - destruct (unit_get C s k o) as [[s1 o1] g] eqn:E. injection H as <- <-.
    destruct (get_spec _ _ _ _ _ _ Hco E) as (H1 & H2 & H3).
    split; [exact H1|]. split; [exact H2|]. simpl. destruct H3 as [[-> _]|(-> & Hb & _)]; auto.
  - destruct (unit_get C s k o) as [[s1 o1] g] eqn:E. injection H as <- <-.
    destruct (get_spec _ _ _ _ _ _ Hco E) as (H1 & H2 & H3).
    split; [exact H1|]. split; [exact H2|]. simpl. destruct H3 as [[-> _]|(-> & Hb & _)]; auto.
  - destruct (unit_has C s k o) as [[s1 o1] e] eqn:E. injection H as <- <-.
    destruct (has_spec _ _ _ _ _ _ Hco E) as (-> & H3).
    split; [exact Hco|]. split; [reflexivity|]. simpl. destruct H3 as [->|[Hb ->]]; auto.
  - destruct (unit_remove C s k o) as [[s1 o1] e] eqn:E. injection H as <- <-.
    destruct (remove_spec _ _ _ _ _ _ Hco E) as (H1 & -> & H3 & _).
    split; [exact H1|]. split; [|reflexivity].
    rewrite H3. unfold write_err. simpl. destruct (hd false o); reflexivity.
  - destruct (unit_remove C s k o) as [[s1 o1] e] eqn:E. injection H as <- <-.
    destruct (remove_spec _ _ _ _ _ _ Hco E) as (H1 & -> & H3 & _).
    split; [exact H1|]. split; [|reflexivity].
    rewrite H3. unfold write_err. simpl. destruct (hd false o); reflexivity.
  - injection H as <- <-. destruct (clear_spec s Hco) as [H1 H2]. split; [exact H1|]. split; [exact H2|reflexivity].
  - destruct (unit_bulk C s ks o) as [[s1 o1] l] eqn:E. injection H as <- <-.
    destruct (bulk_spec _ _ _ _ _ _ Hco E) as (H1 & H2 & H3 & _).
    split; [exact H1|]. split; [exact H2|]. simpl. exists l. auto.
Qed.

(** ** Whole histories *)
Lemma final_cons s op ops : unit_final C s (op :: ops) = unit_final C (fst (unit_step C s op)) ops.
Proof. reflexivity. Qed.

Lemma final_app s ops1 ops2 : unit_final C s (ops1 ++ ops2) = unit_final C (unit_final C s ops1) ops2.
Proof. unfold unit_final. apply fold_left_app. Qed.

Lemma run_spec ops : forall s, coherent s ->
  trace_ok (u_pers s) (unit_run C s ops) /\
  coherent (unit_final C s ops) /\
  u_pers (unit_final C s ops) = fold_left ack_step (unit_run C s ops) (u_pers s).
Proof.
  induction ops as [|op r IH]; intros s Hco.
  - simpl. auto.
  - rewrite final_cons. cbn [unit_run]. destruct (unit_step C s op) as [s1 out] eqn:E.
    cbn [trace_ok fold_left fst snd].
    destruct (step_spec _ _ _ _ Hco E) as (H1 & H2 & H3).
    destruct (IH s1 H1) as (I1 & I2 & I3). rewrite H2 in I1, I3.
    split; [split; [exact H3|exact I1]|]. split; [exact I2|exact I3].
Qed.

(** the answer of a Get whose persister read cannot fail *)
Definition get_now (s : ustate C) (k : bytes) : gres := snd (unit_get C s k []).
Definition has_now (s : ustate C) (k : bytes) : err := snd (unit_has C s k []).

Lemma get_now_spec s k : coherent s -> get_now s k = spec_get (u_pers s) k.
Proof.
  intros Hco. unfold get_now. destruct (unit_get C s k []) as [[s1 o1] g] eqn:E. simpl.
  destruct (get_spec _ _ _ _ _ _ Hco E) as (_ & _ & [[-> _]|(_ & Hb & _)]); [reflexivity|discriminate].
Qed.

Lemma has_now_spec s k : coherent s -> has_now s k = spec_has (u_pers s) k.
Proof.
  intros Hco. unfold has_now. destruct (unit_has C s k []) as [[s1 o1] e] eqn:E. simpl.
  destruct (has_spec _ _ _ _ _ _ Hco E) as (_ & [->|[Hb _]]); [reflexivity|discriminate].
Qed.

(** the cache cannot return anything for a key its ghost map does not hold *)
Lemma may_none_get c k : inv c -> may c k = None -> snd (c_get C c k) = None /\ c_has C c k = false.
Proof.
  intros Hinv Hm. split.
  - destruct (snd (c_get C c k)) as [v|] eqn:E; [|reflexivity].
    apply (cl_get C L) in E; [congruence|exact Hinv].
  - destruct (c_has C c k) eqn:E; [|reflexivity]. apply (cl_has C L) in E; [contradiction|exact Hinv].
Qed.

(** a read of a key the cache's ghost map does not hold goes to the persister *)
Lemma get_miss s k o : coherent s -> may (u_cache s) k = None ->
  snd (unit_get C s k o) = if hd false o then GErr EInjected else spec_get (u_pers s) k.
Proof.
  intros [Hinv Hco] Hm. destruct (may_none_get _ _ Hinv Hm) as [G _].
  unfold unit_get. destruct (c_get C (u_cache s) k) as [c1 r]. simpl in G. subst r.
  unfold per_get, spec_get. rewrite take_bit_eq.
  destruct (hd false o); [reflexivity|]. destruct (p_lookup (u_pers s) k); reflexivity.
Qed.

Lemma has_miss s k o : coherent s -> may (u_cache s) k = None ->
  snd (unit_has C s k o) = if hd false o then EInjected else spec_has (u_pers s) k.
Proof.
  intros [Hinv Hco] Hm. destruct (may_none_get _ _ Hinv Hm) as [_ G].
  unfold unit_has. rewrite G. unfold per_has, spec_has. rewrite take_bit_eq.
  destruct (hd false o); [reflexivity|]. destruct (p_lookup (u_pers s) k); reflexivity.
Qed.

(** operations that do not write [k] leave the persister's binding of [k] alone *)
Lemma step_pers_other s op k : coherent s -> writes k op = false ->
  p_lookup (u_pers (fst (unit_step C s op))) k = p_lookup (u_pers s) k.
Proof.
  intros Hco Hw. destruct (unit_step C s op) as [s1 out] eqn:E. simpl.
  destruct (step_spec _ _ _ _ Hco E) as (_ & -> & Hout).
  destruct op; simpl in Hw, Hout; try reflexivity; subst out; unfold write_err; simpl;
    apply beqb_neq in Hw; destruct (hd false o); simpl; try reflexivity.
  - apply p_lookup_set_other; exact Hw.
  - apply p_lookup_set_other; exact Hw.
  - apply p_lookup_del_other; exact Hw.
  - apply p_lookup_del_other; exact Hw.
Qed.

Lemma step_coherent s op : coherent s -> coherent (fst (unit_step C s op)).
Proof.
  intros Hco. destruct (unit_step C s op) as [s1 out] eqn:E.
  destruct (step_spec _ _ _ _ Hco E) as (H & _). exact H.
Qed.

Lemma final_coherent ops : forall s, coherent s -> coherent (unit_final C s ops).
Proof. intros s Hco. apply (run_spec ops s Hco). Qed.

Lemma final_pers_other ops k : forall s, coherent s -> forallb (fun op => negb (writes k op)) ops = true ->
  p_lookup (u_pers (unit_final C s ops)) k = p_lookup (u_pers s) k.
Proof.
  induction ops as [|op r IH]; intros s Hco Hw; simpl in Hw; [reflexivity|].
  apply andb_true_iff in Hw as [Hw1 Hw2]. apply negb_true_iff in Hw1.
  rewrite final_cons. rewrite IH; [|apply step_coherent; exact Hco|exact Hw2].
  apply step_pers_other; assumption.
Qed.

(** * The statements used by Props/C16.v *)

(** C16_map *)
Lemma map_all ops : trace_ok [] (unit_run C (unit_new C) ops).
Proof. apply (run_spec ops (unit_new C) coherent_new). Qed.

(** the persister IS the map of acknowledged writes *)
Lemma pers_is_ack ops : u_pers (unit_final C (unit_new C) ops) = ack_map (unit_run C (unit_new C) ops).
Proof. apply (run_spec ops (unit_new C) coherent_new). Qed.

(** after any history, a read that is not made to fail answers like the map of acknowledged writes *)
Lemma get_after ops k :
  get_now (unit_final C (unit_new C) ops) k = spec_get (ack_map (unit_run C (unit_new C) ops)) k /\
  has_now (unit_final C (unit_new C) ops) k = spec_has (ack_map (unit_run C (unit_new C) ops)) k.
Proof.
  rewrite <- pers_is_ack. split; [apply get_now_spec|apply has_now_spec]; apply final_coherent, coherent_new.
Qed.

(** C16_coherent *)
Lemma coherent_all ops k v :
  let s := unit_final C (unit_new C) ops in
  (may (u_cache s) k = Some v \/ snd (c_get C (u_cache s) k) = Some v) ->
  p_lookup (u_pers s) k = Some v /\ p_lookup (ack_map (unit_run C (unit_new C) ops)) k = Some v.
Proof.
  intros s H. rewrite <- pers_is_ack. fold s.
  destruct (final_coherent ops _ coherent_new) as [Hinv Hco]. fold s in Hinv, Hco.
  assert (p_lookup (u_pers s) k = Some v); [|auto].
  destruct H as [H|H]; [auto|]. apply Hco. apply (cl_get C L); assumption.
Qed.

Lemma has_coherent_all ops k :
  let s := unit_final C (unit_new C) ops in
  c_has C (u_cache s) k = true -> p_lookup (u_pers s) k <> None.
Proof.
  intros s H. destruct (final_coherent ops _ coherent_new) as [Hinv Hco]. fold s in Hinv, Hco.
  apply (cl_has C L) in H; [|exact Hinv]. destruct (may (u_cache s) k) as [v|] eqn:E; [|congruence].
  rewrite (Hco _ _ E). discriminate.
Qed.

(** C16_rejected_put *)
Lemma rejected_put pre k v ep o post (in_epoch : bool) :
  hd false o = true ->
  let s0 := unit_final C (unit_new C) pre in
  let r := unit_step C s0 (if in_epoch then OPutInEpoch k v ep o else OPut k v o) in
  let s1 := fst r in
  let s2 := unit_final C s1 post in
  snd r = RErr EInjected /\
  u_pers s1 = u_pers s0 /\
  snd (c_get C (u_cache s1) k) = None /\ c_has C (u_cache s1) k = false /\
  (forallb (fun op => negb (writes k op)) post = true ->
     get_now s2 k = spec_get (ack_map (unit_run C (unit_new C) pre)) k /\
     (get_now s2 k = GOk v -> p_lookup (ack_map (unit_run C (unit_new C) pre)) k = Some v)).
Proof.
  intros Hb s0 r s1 s2.
  assert (Hco0 : coherent s0) by apply final_coherent, coherent_new.
  assert (E : exists s' o' e, unit_put C s0 k v o = (s', o', e) /\ r = (s', RErr e)).
  { subst r. destruct in_epoch; simpl; unfold unit_put_in_epoch;
      destruct (unit_put C s0 k v o) as [[s' o'] e]; eauto. }
  destruct E as (s' & o' & e & E & Hr).
  destruct (put_spec _ _ _ _ _ _ _ Hco0 E) as (Hco1 & He & Hp & Hm).
  unfold write_err in He. rewrite Hb in He, Hp. specialize (Hm Hb).
  assert (Hs1 : s1 = s') by (subst s1; rewrite Hr; reflexivity). subst s'.
  split; [rewrite Hr; simpl; congruence|]. split; [exact Hp|].
  destruct (may_none_get _ _ (proj1 Hco1) Hm) as [G1 G2]. split; [exact G1|]. split; [exact G2|].
  intros Hw.
  assert (Hg : get_now s2 k = spec_get (ack_map (unit_run C (unit_new C) pre)) k).
  { rewrite get_now_spec by (apply final_coherent; exact Hco1).
    unfold spec_get. subst s2. rewrite (final_pers_other post k s1 Hco1 Hw), Hp.
    subst s0. rewrite pers_is_ack. reflexivity. }
  split; [exact Hg|]. rewrite Hg. unfold spec_get.
  destruct (p_lookup _ k); congruence.
Qed.

(** C16_remove_both *)
Lemma remove_both pre k o (current_epoch : bool) :
  let s0 := unit_final C (unit_new C) pre in
  let r := unit_step C s0 (if current_epoch then ORemoveFromCurrentEpoch k o else ORemove k o) in
  let s1 := fst r in
  (* the cache layer forgets the key in every case *)
  snd (c_get C (u_cache s1) k) = None /\ c_has C (u_cache s1) k = false /\
  (hd false o = false ->
     snd r = RErr ENone /\ p_lookup (u_pers s1) k = None /\
     get_now s1 k = GErr ENotFound /\ has_now s1 k = ENotFound) /\
  (hd false o = true ->
     snd r = RErr EInjected /\ u_pers s1 = u_pers s0 /\
     get_now s1 k = spec_get (ack_map (unit_run C (unit_new C) pre)) k).
Proof.
  intros s0 r s1.
  assert (Hco0 : coherent s0) by apply final_coherent, coherent_new.
  assert (E : exists s' o' e, unit_remove C s0 k o = (s', o', e) /\ r = (s', RErr e)).
  { subst r. destruct current_epoch; simpl; unfold unit_remove_from_current_epoch;
      destruct (unit_remove C s0 k o) as [[s' o'] e]; eauto. }
  destruct E as (s' & o' & e & E & Hr).
  destruct (remove_spec _ _ _ _ _ _ Hco0 E) as (Hco1 & He & Hp & Hm).
  assert (Hs1 : s1 = s') by (subst s1; rewrite Hr; reflexivity). subst s'.
  destruct (may_none_get _ _ (proj1 Hco1) Hm) as [G1 G2].
  split; [exact G1|]. split; [exact G2|]. unfold write_err in He.
  split; intros Hb; rewrite Hb in He, Hp.
  - assert (Hk : p_lookup (u_pers s1) k = None) by (rewrite Hp; apply p_lookup_del_same).
    split; [rewrite Hr; simpl; congruence|]. split; [exact Hk|].
    rewrite get_now_spec, has_now_spec by exact Hco1. unfold spec_get, spec_has. rewrite Hk. auto.
  - split; [rewrite Hr; simpl; congruence|]. split; [exact Hp|].
    rewrite get_now_spec by exact Hco1. rewrite Hp. subst s0. rewrite pers_is_ack. reflexivity.
Qed.

(** C16_bulk *)
Lemma bulk_all pre ks ep o :
  exists l, snd (unit_step C (unit_final C (unit_new C) pre) (OBulk ks ep o)) = RBulk l /\
            bulk_ok (ack_map (unit_run C (unit_new C) pre)) ks o l.
Proof.
  rewrite <- pers_is_ack.
  destruct (unit_step C (unit_final C (unit_new C) pre) (OBulk ks ep o)) as [s1 out] eqn:E.
  destruct (step_spec _ _ _ _ (final_coherent pre _ coherent_new) E) as (_ & _ & H). exact H.
Qed.

(** cold reads: when Clear forgets everything, a read right after ClearCache is decided by the
    oracle and the map alone *)
Lemma cold_read ops k o : clear_forgets C L ->
  let s := unit_clear_cache C (unit_final C (unit_new C) ops) in
  let m := ack_map (unit_run C (unit_new C) ops) in
  snd (unit_get C s k o) = (if hd false o then GErr EInjected else spec_get m k) /\
  snd (unit_has C s k o) = (if hd false o then EInjected else spec_has m k).
Proof.
  intros Hcf s m. subst m. rewrite <- pers_is_ack.
  pose proof (final_coherent ops _ coherent_new) as Hco0.
  destruct (clear_spec _ Hco0) as [Hco Hp]. fold s in Hco, Hp. rewrite <- Hp.
  assert (Hm : may (u_cache s) k = None) by (apply Hcf, Hco0).
  split; [apply get_miss|apply has_miss]; assumption.
Qed.

(** * Life-cycle operations: RangeKeys, DestroyUnit, Close (histories over [lop]) *)

(** association lists with pairwise different keys: what [p_set] / [p_del] build *)
Definition p_wf (p : pstore) : Prop := NoDup (map fst p).

Lemma p_del_in p k k' v : In (k', v) (p_del p k) -> In (k', v) p /\ k' <> k.
Proof.
  induction p as [|[k0 v0] r IH]; simpl; [intros []|].
  destruct (beqb k k0) eqn:E.
  - intros H. destruct (IH H) as [H1 H2]. split; [right; exact H1|exact H2].
  - intros [H|H].
    + inversion H; subst. split; [left; reflexivity|]. apply beqb_neq in E. congruence.
    + destruct (IH H) as [H1 H2]. split; [right; exact H1|exact H2].
Qed.

Lemma p_del_keys p k k' : In k' (map fst (p_del p k)) -> In k' (map fst p) /\ k' <> k.
Proof.
  intros H. apply in_map_iff in H. destruct H as [[k0 v0] [E H]]. simpl in E. subst k0.
  apply p_del_in in H. destruct H as [H1 H2]. split; [|exact H2].
  apply in_map_iff. exists (k', v0). split; [reflexivity|exact H1].
Qed.

Lemma p_del_wf p k : p_wf p -> p_wf (p_del p k).
Proof.
  unfold p_wf. induction p as [|[k0 v0] r IH]; simpl; intros H; [constructor|].
  inversion H as [|x y Hn Hd]; subst. destruct (beqb k k0); [apply IH; exact Hd|].
  simpl. constructor; [|apply IH; exact Hd]. intros Hin. apply p_del_keys in Hin. tauto.
Qed.

Lemma p_set_wf p k v : p_wf p -> p_wf (p_set p k v).
Proof.
  intros H. unfold p_wf, p_set. simpl. constructor; [|apply p_del_wf; exact H].
  intros Hin. apply p_del_keys in Hin. destruct Hin as [_ Hne]. congruence.
Qed.

Lemma p_wf_lookup p : p_wf p -> forall k v, In (k, v) p <-> p_lookup p k = Some v.
Proof.
  unfold p_wf. induction p as [|[k0 v0] r IH]; simpl; intros H k v.
  - split; [intros []|discriminate].
  - inversion H as [|x y Hn Hd]; subst. destruct (beqb k k0) eqn:E.
    + apply beqb_eq in E. subst k0. split.
      * intros [Heq|Hin]; [inversion Heq; reflexivity|].
        exfalso. apply Hn. apply in_map_iff. exists (k, v). split; [reflexivity|exact Hin].
      * intros Heq. inversion Heq. left. reflexivity.
    + apply beqb_neq in E. rewrite <- (IH Hd k v). split.
      * intros [Heq|Hin]; [inversion Heq; congruence|exact Hin].
      * intros Hin. right. exact Hin.
Qed.

Lemma ack_step_wf m x : p_wf m -> p_wf (ack_step m x).
Proof.
  intros H. destruct x as [op out]. destruct op; simpl; try exact H;
    destruct out as [e| | | |]; try exact H; destruct e; try exact H;
    first [apply p_set_wf; exact H|apply p_del_wf; exact H].
Qed.

Lemma life_ack_step_wf m x : p_wf m -> p_wf (life_ack_step m x).
Proof.
  intros H. destruct x as [op out]. destruct op as [d| |o|o]; cbn [life_ack_step].
  - apply ack_step_wf. exact H.
  - exact H.
  - destruct out as [e| | | |]; try exact H. destruct e; try exact H. constructor.
  - exact H.
Qed.

Lemma life_ack_map_wf tr : p_wf (life_ack_map tr).
Proof.
  unfold life_ack_map. assert (G : forall m, p_wf m -> p_wf (fold_left life_ack_step tr m)).
  { induction tr as [|x r IH]; intros m Hm; [exact Hm|]. simpl. apply IH. apply life_ack_step_wf. exact Hm. }
  apply G. constructor.
Qed.

Definition is_destroy (op : lop) : bool := match op with LDestroyUnit _ => true | _ => false end.
Definition destroy_free (ops : list lop) : Prop := forallb (fun op => negb (is_destroy op)) ops = true.

(** what the outputs of a life-cycle history must be, against the map of acknowledged writes *)
Definition life_out_ok (m : pstore) (op : lop) (out : uout) : Prop :=
  match op with
  | LData d => out_ok m d out
  | LRangeKeys => out = RRange m
  | LDestroyUnit o | LClose o => out = RErr (write_err o)
  end.

Fixpoint life_trace_ok (m : pstore) (tr : list (lop * uout)) : Prop :=
  match tr with
  | [] => True
  | x :: r => life_out_ok m (fst x) (snd x) /\ life_trace_ok (life_ack_step m x) r
  end.

(** the cache answers nothing for any key *)
Definition cache_silent (c : c_st C) : Prop :=
  forall k, snd (c_get C c k) = None /\ c_has C c k = false.

Lemma forgets_silent c : clear_forgets C L -> inv c -> cache_silent (c_clear C c).
Proof.
  intros Hcf Hinv k. apply may_none_get; [apply cl_inv_clear; exact Hinv|apply Hcf; exact Hinv].
Qed.

(** ** DestroyUnit: the cache is cleared in every case; the persister is emptied iff it accepts *)
Lemma destroy_spec s o s' o' e :
  coherent s -> (clear_forgets C L \/ hd false o = true) -> unit_destroy C s o = (s', o', e) ->
  coherent s' /\ e = write_err o /\
  u_cache s' = c_clear C (u_cache s) /\
  u_pers s' = (if hd false o then u_pers s else []).
Proof.
  intros [Hinv Hco] Hcf H. unfold unit_destroy, per_destroy, write_err in *. rewrite take_bit_eq in H.
  destruct (hd false o) eqn:Hb; inversion H; subst; clear H; simpl.
  - repeat split; simpl; auto.
    + apply cl_inv_clear. exact Hinv.
    + intros k v Hm. apply cl_clear in Hm; [|exact Hinv]. auto.
  - destruct Hcf as [Hcf|Hcf]; [|discriminate]. repeat split; simpl; auto.
    + apply cl_inv_clear. exact Hinv.
    + intros k v Hm. rewrite (Hcf _ k Hinv) in Hm. discriminate.
Qed.

(** ** Close: the cache is cleared BEFORE the persister is asked, so also when its Close fails; the
    persister's error is what is returned; the stored data is untouched *)
Lemma close_spec s o s' o' e :
  coherent s -> unit_close C s o = (s', o', e) ->
  coherent s' /\ e = write_err o /\
  u_cache s' = c_clear C (u_cache s) /\ u_pers s' = u_pers s.
Proof.
  intros [Hinv Hco] H. unfold unit_close, per_close, write_err in *. rewrite take_bit_eq in H.
  assert (Hc : coherent {| u_cache := c_clear C (u_cache s); u_pers := u_pers s |}).
  { split; simpl; [apply cl_inv_clear; exact Hinv|].
    intros k v Hm. apply cl_clear in Hm; [|exact Hinv]. auto. }
  destruct (hd false o) eqn:Hb; inversion H; subst; clear H; simpl; repeat split; auto; apply Hc.
Qed.

Lemma life_step_spec s op s' out :
  coherent s -> (clear_forgets C L \/ is_destroy op = false) -> life_step C s op = (s', out) ->
  coherent s' /\ u_pers s' = life_ack_step (u_pers s) (op, out) /\ life_out_ok (u_pers s) op out.
Proof.
  intros Hco Hcf H. destruct op as [d| |o|o]; cbn [life_step] in H.
  - apply (step_spec _ _ _ _ Hco H).
  - inversion H; subst. split; [exact Hco|]. split; reflexivity.
  - destruct (unit_destroy C s o) as [[s1 o1] e] eqn:E. injection H as <- <-.
    assert (Hcf' : clear_forgets C L \/ hd false o = true) by (destruct Hcf as [G|G]; [left; exact G|discriminate]).
    destruct (destroy_spec _ _ _ _ _ Hco Hcf' E) as (H1 & -> & _ & H3).
    split; [exact H1|]. split; [|reflexivity].
    rewrite H3. unfold write_err. simpl. destruct (hd false o); reflexivity.
  - destruct (unit_close C s o) as [[s1 o1] e] eqn:E. injection H as <- <-.
    destruct (close_spec _ _ _ _ _ Hco E) as (H1 & -> & _ & H3).
    split; [exact H1|]. split; [exact H3|reflexivity].
Qed.

Lemma life_final_cons s op ops : life_final C s (op :: ops) = life_final C (fst (life_step C s op)) ops.
Proof. reflexivity. Qed.

Lemma life_run_spec ops : forall s, coherent s -> (clear_forgets C L \/ destroy_free ops) ->
  life_trace_ok (u_pers s) (life_run C s ops) /\
  coherent (life_final C s ops) /\
  u_pers (life_final C s ops) = fold_left life_ack_step (life_run C s ops) (u_pers s).
Proof.
  induction ops as [|op r IH]; intros s Hco Hcf.
  - simpl. auto.
  - rewrite life_final_cons. cbn [life_run]. destruct (life_step C s op) as [s1 out] eqn:E.
    cbn [life_trace_ok fold_left fst snd].
    assert (Hcf1 : clear_forgets C L \/ is_destroy op = false).
    { destruct Hcf as [G|G]; [left; exact G|right]. unfold destroy_free in G. simpl in G.
      apply andb_true_iff in G. destruct G as [G _]. apply negb_true_iff in G. exact G. }
    assert (Hcf2 : clear_forgets C L \/ destroy_free r).
    { destruct Hcf as [G|G]; [left; exact G|right]. unfold destroy_free in *. simpl in G.
      apply andb_true_iff in G. tauto. }
    destruct (life_step_spec _ _ _ _ Hco Hcf1 E) as (H1 & H2 & H3).
    destruct (IH s1 H1 Hcf2) as (I1 & I2 & I3). rewrite H2 in I1, I3.
    split; [split; [exact H3|exact I1]|]. split; [exact I2|exact I3].
Qed.

(** ** The statements used by Props/C16.v *)
Lemma life_map_all ops : (clear_forgets C L \/ destroy_free ops) ->
  life_trace_ok [] (life_run C (unit_new C) ops).
Proof. intros H. apply (life_run_spec ops (unit_new C) coherent_new H). Qed.

Lemma life_pers_is_ack ops : (clear_forgets C L \/ destroy_free ops) ->
  u_pers (life_final C (unit_new C) ops) = life_ack_map (life_run C (unit_new C) ops).
Proof. intros H. apply (life_run_spec ops (unit_new C) coherent_new H). Qed.

Lemma life_final_coherent ops : (clear_forgets C L \/ destroy_free ops) ->
  coherent (life_final C (unit_new C) ops).
Proof. intros H. apply (life_run_spec ops (unit_new C) coherent_new H). Qed.

Lemma life_get_after ops k : (clear_forgets C L \/ destroy_free ops) ->
  get_now (life_final C (unit_new C) ops) k = spec_get (life_ack_map (life_run C (unit_new C) ops)) k /\
  has_now (life_final C (unit_new C) ops) k = spec_has (life_ack_map (life_run C (unit_new C) ops)) k.
Proof.
  intros H. rewrite <- (life_pers_is_ack ops H).
  split; [apply get_now_spec|apply has_now_spec]; apply life_final_coherent; exact H.
Qed.

(** RangeKeys hands the handler exactly the pairs of the map of acknowledged writes - a list without
    repeated keys whose members are the bindings of that map - and changes nothing; the cache is not
    consulted (the statement is the same for every cacher and every cache content) *)
Lemma range_keys_all pre : (clear_forgets C L \/ destroy_free pre) ->
  let s0 := life_final C (unit_new C) pre in
  let m := life_ack_map (life_run C (unit_new C) pre) in
  life_step C s0 LRangeKeys = (s0, RRange m) /\
  NoDup (map fst m) /\ (forall k v, In (k, v) m <-> p_lookup m k = Some v).
Proof.
  intros H s0 m. split.
  - cbn [life_step unit_range_keys per_range]. subst m s0. rewrite (life_pers_is_ack pre H). reflexivity.
  - split; [apply life_ack_map_wf|apply p_wf_lookup, life_ack_map_wf].
Qed.

(** DestroyUnit after any history *)
Lemma destroy_unit_all pre o : clear_forgets C L ->
  let s0 := life_final C (unit_new C) pre in
  let r := life_step C s0 (LDestroyUnit o) in
  let s1 := fst r in
  u_cache s1 = c_clear C (u_cache s0) /\ cache_silent (u_cache s1) /\
  (hd false o = false ->
     snd r = RErr ENone /\ u_pers s1 = [] /\
     forall k, get_now s1 k = GErr ENotFound /\ has_now s1 k = ENotFound) /\
  (hd false o = true ->
     snd r = RErr EInjected /\ u_pers s1 = u_pers s0 /\
     forall k, get_now s1 k = spec_get (life_ack_map (life_run C (unit_new C) pre)) k).
Proof.
  intros Hcf s0 r s1.
  assert (Hco0 : coherent s0) by (apply life_final_coherent; left; exact Hcf).
  assert (E : exists s' o' e, unit_destroy C s0 o = (s', o', e) /\ r = (s', RErr e)).
  { subst r. cbn [life_step]. destruct (unit_destroy C s0 o) as [[s' o'] e]. eauto. }
  destruct E as (s' & o' & e & E & Hr).
  destruct (destroy_spec _ _ _ _ _ Hco0 (or_introl Hcf) E) as (Hco1 & He & Hc & Hp).
  assert (Hs1 : s1 = s') by (subst s1; rewrite Hr; reflexivity). subst s'.
  split; [exact Hc|]. split; [rewrite Hc; apply forgets_silent; [exact Hcf|apply Hco0]|].
  unfold write_err in He. split; intros Hb; rewrite Hb in He, Hp.
  - split; [rewrite Hr; simpl; congruence|]. split; [exact Hp|]. intros k.
    rewrite get_now_spec, has_now_spec by exact Hco1. rewrite Hp. split; reflexivity.
  - split; [rewrite Hr; simpl; congruence|]. split; [exact Hp|]. intros k.
    rewrite get_now_spec by exact Hco1. rewrite Hp. subst s0.
    rewrite (life_pers_is_ack pre (or_introl Hcf)). reflexivity.
Qed.

(** Close after any history *)
Lemma close_all pre o : (clear_forgets C L \/ destroy_free pre) ->
  let s0 := life_final C (unit_new C) pre in
  let r := life_step C s0 (LClose o) in
  let s1 := fst r in
  u_cache s1 = c_clear C (u_cache s0) /\ u_pers s1 = u_pers s0 /\
  snd r = RErr (if hd false o then EInjected else ENone) /\
  (clear_forgets C L -> cache_silent (u_cache s1)) /\
  (hd false o = true ->
     forall k, get_now s1 k = spec_get (life_ack_map (life_run C (unit_new C) pre)) k).
Proof.
  intros H s0 r s1.
  assert (Hco0 : coherent s0) by (apply life_final_coherent; exact H).
  assert (E : exists s' o' e, unit_close C s0 o = (s', o', e) /\ r = (s', RErr e)).
  { subst r. cbn [life_step]. destruct (unit_close C s0 o) as [[s' o'] e]. eauto. }
  destruct E as (s' & o' & e & E & Hr).
  destruct (close_spec _ _ _ _ _ Hco0 E) as (Hco1 & He & Hc & Hp).
  assert (Hs1 : s1 = s') by (subst s1; rewrite Hr; reflexivity). subst s'.
  split; [exact Hc|]. split; [exact Hp|]. split; [rewrite Hr; simpl; rewrite He; reflexivity|].
  split; [intros Hcf; rewrite Hc; apply forgets_silent; [exact Hcf|apply Hco0]|].
  intros _ k. rewrite get_now_spec by exact Hco1. rewrite Hp. subst s0.
  rewrite (life_pers_is_ack pre H). reflexivity.
Qed.

(** a history of data operations is a life-cycle history: the new statements extend the old ones *)
Lemma life_run_data ops : forall s,
  life_run C s (map LData ops) = map (fun x => (LData (fst x), snd x)) (unit_run C s ops).
Proof.
  induction ops as [|op r IH]; intros s; [reflexivity|]. cbn [map life_run unit_run life_step].
  destruct (unit_step C s op) as [s1 out]. cbn [map fst snd]. rewrite IH. reflexivity.
Qed.

End Proofs.

(** * The factory's decision rule *)
Lemma factory_refuses_spec mb cap : factory_refuses mb cap = true <-> (mb > Z.of_N cap)%Z.
Proof. unfold factory_refuses. rewrite Z.ltb_lt. lia. Qed.

Lemma factory_guard_spec mb cap :
  (factory_guard mb cap = FRefusedBatchSize <-> (mb > Z.of_N cap)%Z) /\
  (factory_guard mb cap = FContinue <-> (mb <= Z.of_N cap)%Z).
Proof.
  unfold factory_guard. destruct (factory_refuses mb cap) eqn:E.
  - apply factory_refuses_spec in E. split; split; intros; try reflexivity; try congruence; try lia.
  - assert (~ (mb > Z.of_N cap)%Z) by (intro G; apply factory_refuses_spec in G; congruence).
    split; split; intros; try reflexivity; try congruence; try lia.
Qed.
