(** C16 for the REAL FIFO cacher: [cacher_ops] + [cacher_laws] (Unit/StorageUnit.v) instantiated for
    fifocache.FIFOShardedCache over concurrent-map (model Fifo/Ring.v + Fifo/Sharded.v, state [cache]),
    driven through the model's own [step] — the object factory.NewCache returns for FIFOShardedCache.

    [fifo_ops sz n] is the cache built by [new_cache sz n] = fifocache.NewShardedCache(sz, n).
    The constructor validates nothing; with n = 0 the Go code panics in cmap.New (division by zero),
    so the accepted parameters are [1 <= n] (any [sz]: a shard of one slot stores nothing, which is fine).

    The ghost map [cl_may s k] is the model's own lookup [cache_get k s] (= Peek = Get).

    INVARIANT.  The ring invariant of C20 ([cmap_inv] / [shard_inv]) is NOT preserved by a Put of the
    EMPTY key (the empty string is the ring's empty-slot mark: Set("", v) stores "" in [items] while the
    ring records an empty slot; [cmap_set_inv] has the premise [k <> []] for that reason, and the
    example [fifo_empty_key_breaks_ring_inv] below exhibits the break).  So [cl_inv_put], which
    quantifies over ALL keys, is false with [cl_inv := cmap_inv].  The laws do not need the ring
    invariant, though: what the cache answers is read from the Go map [items] alone, and every
    operation only inserts the written pair there or deletes entries.  The instance therefore takes the
    weaker SHAPE invariant [fifo_shape] (the shard table has [shardCount >= 1] entries — what makes
    GetShard's index in range), which every operation preserves for every key, the empty one included.
    Consequently the C16 corollaries hold for ALL histories, with no "non-empty keys" restriction.

    [clear_forgets] is not claimed: FIFOShardedCache.Clear removes the keys listed by Keys(), which
    skips the empty key; [cl_clear] ("only drops") is what holds, and it is proved. *)
From Coq Require Import List NArith PeanoNat Bool Lia.
From Verif Require Import Base.BStr Unit.StorageUnit Unit.StorageUnit_proofs Unit.CacherPred Fifo.Ring Fifo.Sharded Fifo.FifoSpec
  Fifo.Ring_proofs Fifo.Sharded_proofs.
Import ListNotations.
Local Open Scope nat_scope.

(** * One shard: what Set / Remove do to the Go map [items], with NO invariant *)
Lemma shard_get_set k v s k' w :
  shard_get k' (shard_set k v s) = Some w ->
  (k' = k /\ w = v) \/ (k' <> k /\ shard_get k' s = Some w).
Proof.
  unfold shard_get, shard_set, append_key. cbn [items maxSize idxAdd mapKeys].
  rewrite aget_adel. destruct (beqb k' _); [discriminate|]. rewrite aget_aset.
  destruct (beqb_spec k' k) as [->|Hne].
  - intros H. left. split; [reflexivity|]. congruence.
  - intros H. right. split; [exact Hne|exact H].
Qed.

Lemma shard_get_remove k s k' w :
  shard_get k' (shard_remove k s) = Some w -> k' <> k /\ shard_get k' s = Some w.
Proof.
  unfold shard_remove. destruct (aget k (items s)) as [[v0 i]|] eqn:E.
  - unfold shard_get. cbn [items]. rewrite aget_adel. destruct (beqb_spec k' k) as [->|Hne]; [discriminate|].
    intros H. split; [exact Hne|exact H].
  - intros H. split; [|exact H]. intros ->. unfold shard_get in H. rewrite E in H. discriminate.
Qed.

(** * The sharded map *)
Definition cmap_shape (c : cmap) : Prop := 1 <= shardCount c /\ length (shards c) = shardCount c.

Lemma cmap_new_shape sz n : 1 <= n -> cmap_shape (cmap_new sz n).
Proof. intros Hn. split; cbn [cmap_new shardCount shards]; [exact Hn|apply repeat_length]. Qed.

Lemma put_shard_shape c k s' : cmap_shape c -> cmap_shape (put_shard c k s').
Proof. intros [H1 H2]. split; cbn [put_shard shardCount shards]; [exact H1|]. rewrite set_nth_length. exact H2. Qed.

Lemma get_put_same c k k' s' : cmap_shape c -> route (shardCount c) k' = route (shardCount c) k ->
  get_shard (put_shard c k s') k' = s' /\ get_shard c k' = get_shard c k.
Proof.
  intros [H1 H2] Hr. unfold get_shard, put_shard. cbn [shardCount shards]. rewrite Hr. split; [|reflexivity].
  apply nth_set_nth_same. rewrite H2. apply route_lt. exact H1.
Qed.

Lemma cmap_get_set c k v k' w : cmap_shape c ->
  cmap_get k' (cmap_set k v c) = Some w ->
  (k' = k /\ w = v) \/ (k' <> k /\ cmap_get k' c = Some w).
Proof.
  intros Hs. unfold cmap_get, cmap_set.
  destruct (Nat.eq_dec (route (shardCount c) k') (route (shardCount c) k)) as [Hr|Hr].
  - destruct (get_put_same c k k' (shard_set k v (get_shard c k)) Hs Hr) as [-> ->]. apply shard_get_set.
  - rewrite (get_shard_put_other c k k' _ Hr). intros H. right. split; [|exact H]. intros ->. apply Hr. reflexivity.
Qed.

Lemma cmap_get_remove c k k' w : cmap_shape c ->
  cmap_get k' (cmap_remove k c) = Some w -> k' <> k /\ cmap_get k' c = Some w.
Proof.
  intros Hs. unfold cmap_get, cmap_remove.
  destruct (Nat.eq_dec (route (shardCount c) k') (route (shardCount c) k)) as [Hr|Hr].
  - destruct (get_put_same c k k' (shard_remove k (get_shard c k)) Hs Hr) as [-> ->]. apply shard_get_remove.
  - rewrite (get_shard_put_other c k k' _ Hr). intros H. split; [|exact H]. intros ->. apply Hr. reflexivity.
Qed.

Lemma remove_all_spec ks : forall c, cmap_shape c ->
  cmap_shape (fold_left (fun m' k => cmap_remove k m') ks c) /\
  forall k w, cmap_get k (fold_left (fun m' k => cmap_remove k m') ks c) = Some w -> cmap_get k c = Some w.
Proof.
  induction ks as [|x ks IH]; intros c Hs; cbn [fold_left]; [split; [exact Hs|auto]|].
  assert (Hs' : cmap_shape (cmap_remove x c)) by (apply put_shard_shape; exact Hs).
  destruct (IH _ Hs') as [H1 H2]. split; [exact H1|]. intros k w H.
  apply H2 in H. apply (cmap_get_remove c x k w Hs) in H. tauto.
Qed.

Lemma cmap_clear_spec c : cmap_shape c ->
  cmap_shape (cmap_clear c) /\ forall k w, cmap_get k (cmap_clear c) = Some w -> cmap_get k c = Some w.
Proof.
  intros Hs. unfold cmap_clear. destruct (cmap_keys c) as [ks|]; [apply remove_all_spec; exact Hs|].
  split; [exact Hs|auto].
Qed.

Lemma cmap_get_new sz n k : cmap_get k (cmap_new sz n) = None.
Proof.
  unfold cmap_get, get_shard, cmap_new. cbn [shardCount shards].
  destruct (nth_in_or_default (route n k) (repeat (new_shard (shard_size sz n)) n) (new_shard 1)) as [Hin | ->].
  - apply repeat_spec in Hin. rewrite Hin. reflexivity.
  - reflexivity.
Qed.

(** * The cache wrapper, through its own [step] *)
Definition fifo_ret_value (r : Sharded.ret) : option bytes :=
  match r with Sharded.RGet v => v | _ => None end.
Definition fifo_ret_flag (r : Sharded.ret) : bool :=
  match r with Sharded.RHas b => b | _ => false end.
Definition fifo_out (c : cache) (o : Sharded.op) : Sharded.ret := snd (fst (Sharded.step c o)).

Definition fifo_ops (sz n : nat) : cacher_ops :=
  {| c_st := cache;
     c_empty := new_cache sz n;                                   (* NewShardedCache(sz, n) *)
     c_put := fun s k v => step_cache s (Sharded.OPut k v);       (* Put(key, value, _): the size is ignored *)
     c_get := fun s k => (step_cache s (Sharded.OGet k), fifo_ret_value (fifo_out s (Sharded.OGet k)));
     c_has := fun s k => fifo_ret_flag (fifo_out s (Sharded.OHas k));
     c_remove := fun s k => step_cache s (Sharded.ORemove k);
     c_clear := fun s => step_cache s Sharded.OClear |}.

Definition fifo_shape (c : cache) : Prop := cmap_shape (cm c).
Definition fifo_may (c : cache) (k : bytes) : option bytes := cache_get k c.

Definition fifo_laws (sz n : nat) (Hn : 1 <= n) : cacher_laws (fifo_ops sz n).
Proof.
  refine {| cl_inv := (fifo_shape : c_st (fifo_ops sz n) -> Prop);
            cl_may := (fifo_may : c_st (fifo_ops sz n) -> _) |};
    unfold fifo_shape, fifo_may, cache_get, fifo_out, step_cache;
    cbn [fifo_ops c_st c_empty c_put c_get c_has c_remove c_clear Sharded.step fst snd cm new_cache
         fifo_ret_value fifo_ret_flag].
  - (* inv empty *) apply cmap_new_shape. exact Hn.
  - (* inv put *) intros s k v Hs. apply put_shard_shape. exact Hs.
  - (* inv get *) intros s k Hs. exact Hs.
  - (* inv remove *) intros s k Hs. apply put_shard_shape. exact Hs.
  - (* inv clear *) intros s Hs. apply cmap_clear_spec. exact Hs.
  - (* empty *) intros k. apply cmap_get_new.
  - (* get *) intros s k v _ H. exact H.
  - (* has *) intros s k _ H. apply cmap_has_get. exact H.
  - (* get_st *) intros s k k' w _ H. exact H.
  - (* put *) intros s k v k' w Hs H. exact (cmap_get_set (cm s) k v k' w Hs H).
  - (* remove *) intros s k k' w Hs H. exact (cmap_get_remove (cm s) k k' w Hs H).
  - (* clear *) intros s k w Hs H. exact (proj2 (cmap_clear_spec (cm s) Hs) k w H).
Defined.

Lemma fifo_laws_may sz n Hn s k : cl_may _ (fifo_laws sz n Hn) s k = cache_get k s.
Proof. reflexivity. Qed.
Lemma fifo_laws_inv sz n Hn s : cl_inv _ (fifo_laws sz n Hn) s = cmap_shape (cm s).
Proof. reflexivity. Qed.

(** the wrapper's operations, unfolded, are the map's *)
Lemma fifo_ops_backend sz n s k v :
  cm (c_put (fifo_ops sz n) s k v) = cmap_set k v (cm s) /\
  c_get (fifo_ops sz n) s k = (s, cmap_get k (cm s)) /\
  c_has (fifo_ops sz n) s k = cmap_has k (cm s) /\
  cm (c_remove (fifo_ops sz n) s k) = cmap_remove k (cm s) /\
  cm (c_clear (fifo_ops sz n) s) = cmap_clear (cm s).
Proof. repeat split; reflexivity. Qed.

(** * Why not the ring invariant: a Put of the empty key breaks it.
    One shard of 3 slots (2 usable); Put a, Put b fill the ring; Put "" evicts a, leaves "" in [items]
    (Get "" now answers), and the ring holds no slot for it: [shard_inv]'s bijection demands
    [lookup s [] = None]. *)
Example fifo_empty_key_breaks_ring_inv :
  let c0 := new_cache 3 1 in
  let c := Sharded.run c0 [Sharded.OPut ka [1%N]; Sharded.OPut kb [2%N]; Sharded.OPut [] [3%N]] in
  cmap_inv (shard_size 3 1) (cm (Sharded.run c0 [Sharded.OPut ka [1%N]; Sharded.OPut kb [2%N]])) /\
  cache_get [] c = Some [3%N] /\
  ~ cmap_inv (shard_size 3 1) (cm c).
Proof.
  cbv zeta. split; [|split].
  - apply (cv_cm 3 1). apply init_inv; [split; lia|].
    repeat constructor; cbn; discriminate.
  - vm_compute. reflexivity.
  - intros H. destruct (get_shard_inv _ _ [] H) as [Hs _]. destruct (inv_bij _ Hs) as [H0 _].
    vm_compute in H0. discriminate.
Qed.

(** * With non-empty keys, the FIFO cache inside the unit is a cache REACHABLE in the sense of C20
    (Fifo/FifoSpec.v): some history of cache operations with non-empty keys builds exactly it.
    Every theorem of Props/C20.v therefore applies to it (ring invariant, bound, views, ...). *)
Lemma reachable_step sz n c o : reachable sz n c -> op_nonempty o -> reachable sz n (step_cache c o).
Proof.
  intros (fops & Hne & ->) Ho. exists (fops ++ [o]). split.
  - apply Forall_app. split; [exact Hne|constructor; [exact Ho|constructor]].
  - rewrite run_app. reflexivity.
Qed.

Lemma fifo_unit_reachable sz n ops : Forall uop_nonempty ops ->
  reachable sz n (u_cache (unit_final (fifo_ops sz n) (unit_new (fifo_ops sz n)) ops)).
Proof.
  intros Hne.
  apply (unit_final_pred (fifo_ops sz n) (reachable sz n : c_st (fifo_ops sz n) -> Prop) (fun k => k <> [])).
  - intros s k v Hk Hr. apply (reachable_step sz n s (Sharded.OPut k v) Hr). exact Hk.
  - intros s k Hk Hr. apply (reachable_step sz n s (Sharded.OGet k) Hr). exact Hk.
  - intros s k Hk Hr. apply (reachable_step sz n s (Sharded.ORemove k) Hr). exact Hk.
  - intros s Hr. apply (reachable_step sz n s Sharded.OClear Hr). exact I.
  - exact Hne.
  - exists []. split; [constructor|reflexivity].
Qed.

Lemma fifo_unit_cache_inv sz n ops : valid_cfg sz n -> Forall uop_nonempty ops ->
  cache_inv sz n (u_cache (unit_final (fifo_ops sz n) (unit_new (fifo_ops sz n)) ops)).
Proof. intros Hv Hne. apply reachable_inv; [exact Hv|]. apply fifo_unit_reachable. exact Hne. Qed.

(** the ring invariant of C20, for the cache inside the unit *)
Lemma fifo_unit_ring_invariant sz n ops : valid_cfg sz n -> Forall uop_nonempty ops ->
  forall s, In s (shards (cm (u_cache (unit_final (fifo_ops sz n) (unit_new (fifo_ops sz n)) ops) : cache))) ->
    Ring.maxSize s = shard_size sz n /\ length (mapKeys s) = Ring.maxSize s /\
    nth_error (mapKeys s) (idxAdd s) = Some [] /\
    NoDup (map fst (items s)) /\ NoDup (nonblank (mapKeys s)) /\
    aget [] (items s) = None /\
    forall k i, k <> [] -> (nth_error (mapKeys s) i = Some k <-> exists v, aget k (items s) = Some (v, i)).
Proof.
  intros Hv Hne s Hin. destruct (fifo_unit_reachable sz n ops Hne) as (fops & Hf & Heq).
  change (u_cache (unit_final (fifo_ops sz n) (unit_new (fifo_ops sz n)) ops) : cache)
    with (u_cache (unit_final (fifo_ops sz n) (unit_new (fifo_ops sz n)) ops)) in Hin.
  rewrite Heq in Hin. exact (thm_ring_invariant sz n fops Hv Hf s Hin).
Qed.

(** * Cold reads of the FIFO cache, guarded: valid configuration (at least two slots per shard),
    non-empty keys in the history, non-empty key read.  Then Clear does empty the cache and a Get / Has
    right after ClearCache reaches the persister. *)
Lemma fifo_cold_read sz n (Hn : 1 <= n) ops k o : valid_cfg sz n -> Forall uop_nonempty ops -> k <> [] ->
  let C := fifo_ops sz n in
  let s := unit_clear_cache C (unit_final C (unit_new C) ops) in
  let m := ack_map (unit_run C (unit_new C) ops) in
  snd (unit_get C s k o) = (if hd false o then GErr EInjected else spec_get m k) /\
  snd (unit_has C s k o) = (if hd false o then EInjected else spec_has m k).
Proof.
  intros Hv Hne Hk C s m. subst m. set (L := fifo_laws sz n Hn).
  rewrite <- (StorageUnit_proofs.pers_is_ack C L).
  pose proof (StorageUnit_proofs.final_coherent C L ops _ (StorageUnit_proofs.coherent_new C L)) as Hco0.
  destruct (StorageUnit_proofs.clear_spec C L _ Hco0) as [Hco Hp]. fold s in Hco, Hp. rewrite <- Hp.
  assert (Hm : cl_may C L (u_cache s) k = None).
  { pose proof (fifo_unit_cache_inv sz n ops Hv Hne) as Hc0.
    set (c0 := u_cache (unit_final (fifo_ops sz n) (unit_new (fifo_ops sz n)) ops)) in *.
    change (cache_get k (step_cache c0 Sharded.OClear) = None).
    destruct (clear_empties sz n c0 Hc0) as [Hkeys _].
    assert (Hc : cache_inv sz n (step_cache c0 Sharded.OClear)) by (apply step_inv; [exact Hc0|exact I]).
    destruct (views_agree sz n _ Hc) as (_ & _ & _ & _ & Hhg & Hin & _).
    destruct (cache_get k (step_cache c0 Sharded.OClear)) as [w|] eqn:E; [|reflexivity].
    exfalso. assert (Hh : cache_has k (step_cache c0 Sharded.OClear) = true) by (apply Hhg; congruence).
    apply (Hin k Hk) in Hh. rewrite Hkeys in Hh. destruct Hh. }
  split; [apply (StorageUnit_proofs.get_miss C L)|apply (StorageUnit_proofs.has_miss C L)]; assumption.
Qed.
