(** Operational model of lrucache/lrucache.go (C15): the lruCache wrapper over a
    SizedLRUCacheHandler (hashicorp behind simpleLRUCacheAdapter, or capacityLRU) and the
    added-data handlers.  Definitions only.

    mapDataHandlers (map id -> func) is the list of registered ids (a set: registering an id
    twice replaces the function, the id stays once).  Handlers are started as goroutines; the
    model returns, per operation, the list of (id, key, value) invocations the operation starts. *)
From Coq Require Import List ZArith NArith Bool.
From Verif Require Import Base.BStr Lru.LruTypes Lru.CapacityLru Lru.SimpleLru.
Import ListNotations.
Open Scope Z_scope.

Inductive backend := BSimple (s : slru) | BCap (c : clru).

Record lcache := mkLcache {
  be       : backend;
  handlers : list bytes     (* keys of mapDataHandlers *)
}.

(** NewCache (kind 0) / NewCacheWithSizeInBytes (kind 1) *)
Definition newCache (size : Z) : option lcache :=
  match newLRU size with Some s => Some (mkLcache (BSimple s) []) | None => None end.
Definition newCacheWithSizeInBytes (size sizeInBytes : Z) : option lcache :=
  match newCapacityLRU size sizeInBytes with Some c => Some (mkLcache (BCap c) []) | None => None end.

(** the SizedLRUCacheHandler interface, dispatched on the backend *)
Definition b_AddSized (b : backend) (k v : bytes) (sz : Z) : backend * bool :=
  match b with
  | BSimple s => let '(s', ev) := a_AddSized s k v sz in (BSimple s', ev)
  | BCap c => let '(c', ev) := AddSized c k v sz in (BCap c', ev)
  end.
Definition b_AddSizedIfMissing (b : backend) (k v : bytes) (sz : Z) : backend * bool * bool :=
  match b with
  | BSimple s => let '(s', has, ev) := a_AddSizedIfMissing s k v sz in (BSimple s', has, ev)
  | BCap c => let '(c', has, ev) := AddSizedIfMissing c k v sz in (BCap c', has, ev)
  end.
Definition b_Get (b : backend) (k : bytes) : backend * option bytes :=
  match b with
  | BSimple s => let '(s', r) := s_Get s k in (BSimple s', r)
  | BCap c => let '(c', r) := Get c k in (BCap c', r)
  end.
Definition b_Peek (b : backend) (k : bytes) : option bytes :=
  match b with BSimple s => s_Peek s k | BCap c => Peek c k end.
Definition b_Contains (b : backend) (k : bytes) : bool :=
  match b with BSimple s => s_Contains s k | BCap c => Contains c k end.
Definition b_Remove (b : backend) (k : bytes) : backend :=
  match b with BSimple s => BSimple (fst (s_Remove s k)) | BCap c => BCap (fst (Remove c k)) end.
Definition b_Purge (b : backend) : backend :=
  match b with BSimple s => BSimple (s_Purge s) | BCap c => BCap (purge c) end.
Definition b_Keys (b : backend) : list bytes :=
  match b with BSimple s => s_Keys s | BCap c => Keys c end.
Definition b_Len (b : backend) : Z :=
  match b with BSimple s => s_Len s | BCap c => Len c end.
Definition b_SizeInBytesContained (b : backend) : Z :=
  match b with BSimple s => a_SizeInBytesContained s | BCap c => SizeInBytesContained c end.

Definition with_be (c : lcache) (b : backend) : lcache := mkLcache b (handlers c).

(** callAddedDataHandlers: go handler(key, value) for every registered handler *)
Definition callAddedDataHandlers (c : lcache) (k v : bytes) : list invocation :=
  map (fun id => (id, k, v)) (handlers c).

Definition mem_id (id : bytes) (l : list bytes) : bool := existsb (beqb id) l.
Definition del_id (id : bytes) (l : list bytes) : list bytes := filter (fun x => negb (beqb id x)) l.

Definition step (c : lcache) (o : op) : lcache * ret * list invocation :=
  match o with
  | OpPut k v sz =>
      (* evicted = cache.AddSized; callAddedDataHandlers (unconditionally); return evicted *)
      let '(b', evicted) := b_AddSized (be c) k v sz in
      let c' := with_be c b' in
      (c', RPut evicted, callAddedDataHandlers c' k v)
  | OpHasOrAdd k v sz =>
      let '(b', has, _) := b_AddSizedIfMissing (be c) k v sz in
      let c' := with_be c b' in
      if has then (c', RHasOrAdd true false, [])
      else if negb (b_Contains b' k) then (c', RHasOrAdd false false, [])
      else (c', RHasOrAdd false true, callAddedDataHandlers c' k v)
  | OpGet k =>
      let '(b', r) := b_Get (be c) k in (with_be c b', RGet r, [])
  | OpPeek k => (c, RPeek (b_Peek (be c) k), [])
  | OpHas k => (c, RHas (b_Contains (be c) k), [])
  | OpRemove k => (with_be c (b_Remove (be c) k), RNone, [])
  | OpClear => (with_be c (b_Purge (be c)), RNone, [])
  | OpRegister id isnil =>
      if isnil then (c, RNone, [])
      else (mkLcache (be c) (if mem_id id (handlers c) then handlers c else id :: handlers c), RNone, [])
  | OpUnRegister id => (mkLcache (be c) (del_id id (handlers c)), RNone, [])
  end.

(** whole histories *)
Definition run (c : lcache) (ops : list op) : lcache :=
  fold_left (fun c o => fst (fst (step c o))) ops c.

Definition cache_keys (c : lcache) : list bytes := b_Keys (be c).
