(** The capacityLRU model refines the reference LRU (sized variant), operation by operation. *)
From Coq Require Import List ZArith Bool Lia PeanoNat ZifyNat ZifyBool.
From Verif Require Import Base.BStr Lru.LruTypes Lru.LruSpec Lru.LruSpec_proofs Lru.CapacityLru.
Import ListNotations.
Open Scope Z_scope.

Definition cparams (c : clru) : params := mkParams true (maxSize c) (maxBytes c).
Definition cabs (c : clru) : list entry := rev (entries c).

(** what holds between the steps of one operation: the counter is exact *)
Definition cpre (c : clru) : Prop :=
  curBytes c = sum_sizes (entries c) /\ stuck c = false /\ valid (cparams c).
(** what holds between operations *)
Definition cinv (c : clru) : Prop := cpre c /\ sp_inv (cparams c) (cabs c).

(** ---- lists: the MRU-first list of the model against the LRU-first list of the spec *)
Lemma lookup_find k l : lookup k l = find (is_key k) l.
Proof. induction l as [|a l IH]; simpl; [reflexivity|]. unfold is_key at 1. destruct (beqb (e_key a) k); auto. Qed.

Lemma find_app {A} (f : A -> bool) l1 l2 :
  find f (l1 ++ l2) = match find f l1 with Some x => Some x | None => find f l2 end.
Proof. induction l1 as [|a l1 IH]; simpl; [reflexivity|]. destruct (f a); auto. Qed.

Lemma keys_rev l : keys (rev l) = rev (keys l).
Proof. unfold keys. apply map_rev. Qed.

Lemma nodup_keys_rev l : NoDup (keys (rev l)) <-> NoDup (keys l).
Proof.
  rewrite keys_rev. split; intros H; [|apply NoDup_rev; exact H].
  rewrite <- (rev_involutive (keys l)). apply NoDup_rev. exact H.
Qed.

Lemma in_keys_rev k l : In k (keys (rev l)) <-> In k (keys l).
Proof. rewrite keys_rev. symmetry. apply in_rev. Qed.

Lemma find_rev k l : NoDup (keys l) -> sp_find k (rev l) = lookup k l.
Proof.
  unfold sp_find. induction l as [|a l IH]; simpl; [reflexivity|]. intros Hd. inversion Hd as [|x y Hn Hd']; subst.
  rewrite find_app. simpl. rewrite (IH Hd'). unfold is_key at 1.
  destruct (beqb (e_key a) k) eqn:E.
  - apply beqb_eq in E. subst. rewrite lookup_find.
    destruct (find (is_key (e_key a)) l) eqn:F; [|reflexivity].
    apply find_some in F. destruct F as [F1 F2]. apply is_key_true in F2. exfalso. apply Hn. rewrite <- F2. apply in_map. exact F1.
  - destruct (lookup k l); reflexivity.
Qed.

Lemma remove_first_del k l : NoDup (keys l) -> remove_first k l = sp_del k l.
Proof.
  unfold sp_del. induction l as [|a l IH]; simpl; [reflexivity|]. intros Hd. inversion Hd as [|x y Hn Hd']; subst.
  unfold is_key at 1. destruct (beqb (e_key a) k) eqn:E; simpl.
  - apply beqb_eq in E. subst. symmetry. apply (sp_del_absent (e_key a) l Hn).
  - f_equal. apply IH. exact Hd'.
Qed.

Lemma filter_rev' {A} (f : A -> bool) l : filter f (rev l) = rev (filter f l).
Proof.
  induction l as [|a l IH]; simpl; [reflexivity|]. rewrite filter_app, IH. simpl.
  destruct (f a); simpl; [reflexivity|]. apply app_nil_r.
Qed.

Lemma del_rev k l : sp_del k (rev l) = rev (sp_del k l).
Proof. apply filter_rev'. Qed.

Lemma lookup_some k l e : lookup k l = Some e -> In e l /\ e_key e = k.
Proof. rewrite lookup_find. apply sp_find_some. Qed.

Lemma lookup_none k l : lookup k l = None <-> ~ In k (keys l).
Proof. rewrite lookup_find. apply sp_find_none. Qed.

Lemma sum_remove_first k l e : lookup k l = Some e -> sum_sizes (remove_first k l) = sum_sizes l - e_size e.
Proof.
  induction l as [|a l IH]; simpl; [discriminate|].
  destruct (beqb (e_key a) k); [intros H; inversion H; subst; lia|]. intros H. simpl. rewrite (IH H). lia.
Qed.

Lemma length_evict_le P l : (length (sp_evict P l) <= length l)%nat.
Proof.
  induction l as [|a l IH]; [simpl; lia|]. destruct l as [|y r]; [simpl; lia|].
  cbn [sp_evict]. destruct (over P (a :: y :: r)); [|lia]. simpl length in *. lia.
Qed.

(** the entries the eviction loop removes, oldest first *)
Fixpoint sp_victims (P : params) (l : list entry) : list entry :=
  match l with
  | [] => []
  | x :: rest => match rest with [] => [] | _ :: _ => if over P l then x :: sp_victims P rest else [] end
  end.

Lemma victims_evict P l : l = sp_victims P l ++ sp_evict P l.
Proof.
  induction l as [|a l IH]; [reflexivity|]. destruct l as [|y r]; [reflexivity|].
  cbn [sp_victims sp_evict]. destruct (over P (a :: y :: r)); [|reflexivity]. simpl. f_equal. exact IH.
Qed.

(** ---- the eviction loops *)
Definition evicted_state (c : clru) (r : list entry) : clru :=
  mkClru (rev (sp_evict (cparams c) r)) (maxSize c) (maxBytes c) (sum_sizes (sp_evict (cparams c) r)) false.

Lemma shouldEvict_over c r : cpre c -> entries c = rev r -> (2 <= length r)%nat ->
  shouldEvict c = over (cparams c) r.
Proof.
  intros [Hb _] He Hl. unfold shouldEvict, over. rewrite He, rev_length.
  destruct (Nat.eqb (length r) 1) eqn:E; [apply Nat.eqb_eq in E; lia|].
  rewrite Hb, He, sum_rev. reflexivity.
Qed.

Lemma last_entry_snoc l x : last_entry (l ++ [x]) = Some x.
Proof. unfold last_entry. rewrite rev_app_distr. reflexivity. Qed.

Lemma evictLoop_spec r : forall c ev fuel, cpre c -> entries c = rev r -> (length r < fuel)%nat ->
  evictLoop fuel c ev = (evicted_state c r, ev || Nat.ltb (length (sp_evict (cparams c) r)) (length r)).
Proof.
  induction r as [|x rest IH]; intros c ev fuel Hp He Hf; destruct fuel as [|f]; try lia; cbn [evictLoop].
  - destruct c as [l ms mb cb st]. destruct Hp as [Hb [Hst [Hv1 Hv2]]]. simpl in *. subst.
    unfold shouldEvict. simpl. replace (0 >? ms) with false by lia. replace (0 >? mb) with false by lia.
    simpl. rewrite orb_false_r. reflexivity.
  - destruct rest as [|y r'].
    + destruct c as [l ms mb cb st]. destruct Hp as [Hb [Hst [Hv1 Hv2]]]. simpl in *. subst.
      unfold shouldEvict. simpl. rewrite orb_false_r. unfold evicted_state. simpl. reflexivity.
    + rewrite (shouldEvict_over c (x :: y :: r') Hp He) by (simpl; lia).
      destruct (over (cparams c) (x :: y :: r')) eqn:Eo.
      * assert (Hl : last_entry (entries c) = Some x) by (rewrite He; simpl rev; apply last_entry_snoc).
        unfold removeOldest. rewrite Hl.
        assert (Hp' : cpre (removeBack c x)).
        { destruct c as [l ms mb cb st]. destruct Hp as [Hb [Hst Hv]]. simpl in *. subst l.
          split; [|split; [exact Hst|exact Hv]]. simpl.
          change (rev (y :: r') ++ [x]) with (rev (y :: r') ++ [x]).
          rewrite removelast_last. rewrite Hb, sum_app. simpl. lia. }
        assert (He' : entries (removeBack c x) = rev (y :: r')).
        { destruct c. simpl in *. subst. apply removelast_last. }
        rewrite (IH (removeBack c x) true f Hp' He') by (simpl in *; lia).
        assert (Hpar : cparams (removeBack c x) = cparams c) by (destruct c; reflexivity).
        assert (Hev : sp_evict (cparams c) (x :: y :: r') = sp_evict (cparams c) (y :: r')) by (cbn [sp_evict]; rewrite Eo; reflexivity).
        unfold evicted_state. rewrite Hpar, Hev.
        destruct c as [l ms mb cb st]. cbn [maxSize maxBytes removeBack with_bytes with_entries]. f_equal.
        pose proof (length_evict_le (cparams (mkClru l ms mb cb st)) (y :: r')) as Hle.
        cbn [orb]. symmetry. apply orb_true_iff. right. apply Nat.ltb_lt. simpl length in *. lia.
      * assert (Hev : sp_evict (cparams c) (x :: y :: r') = x :: y :: r') by (cbn [sp_evict]; rewrite Eo; reflexivity).
        unfold evicted_state. rewrite Hev. rewrite Nat.ltb_irrefl, orb_false_r. f_equal.
        destruct c as [l ms mb cb st]. destruct Hp as [Hb [Hst Hv]]. cbn [entries curBytes stuck maxSize maxBytes] in *.
        subst l. rewrite Hb, Hst, sum_rev. reflexivity.
Qed.

Definition kv (e : entry) : bytes * bytes := (e_key e, e_val e).

Lemma evictCollect_spec r : forall c acc fuel, cpre c -> entries c = rev r -> (length r < fuel)%nat ->
  evictCollect fuel c acc = (evicted_state c r, acc ++ map kv (sp_victims (cparams c) r)).
Proof.
  induction r as [|x rest IH]; intros c acc fuel Hp He Hf; destruct fuel as [|f]; try lia; cbn [evictCollect].
  - destruct c as [l ms mb cb st]. destruct Hp as [Hb [Hst [Hv1 Hv2]]]. simpl in *. subst.
    unfold shouldEvict. simpl. replace (0 >? ms) with false by lia. replace (0 >? mb) with false by lia.
    simpl. rewrite app_nil_r. reflexivity.
  - destruct rest as [|y r'].
    + destruct c as [l ms mb cb st]. destruct Hp as [Hb [Hst [Hv1 Hv2]]]. simpl in *. subst.
      unfold shouldEvict. simpl. rewrite app_nil_r. unfold evicted_state. simpl. reflexivity.
    + rewrite (shouldEvict_over c (x :: y :: r') Hp He) by (simpl; lia).
      destruct (over (cparams c) (x :: y :: r')) eqn:Eo.
      * assert (Hl : last_entry (entries c) = Some x) by (rewrite He; simpl rev; apply last_entry_snoc).
        rewrite Hl.
        assert (Hp' : cpre (removeBack c x)).
        { destruct c as [l ms mb cb st]. destruct Hp as [Hb [Hst Hv]]. simpl in *. subst l.
          split; [|split; [exact Hst|exact Hv]]. simpl.
          rewrite removelast_last. rewrite Hb, sum_app. simpl. lia. }
        assert (He' : entries (removeBack c x) = rev (y :: r')).
        { destruct c. simpl in *. subst. apply removelast_last. }
        rewrite (IH (removeBack c x) (acc ++ [(e_key x, e_val x)]) f Hp' He') by (simpl in *; lia).
        assert (Hpar : cparams (removeBack c x) = cparams c) by (destruct c; reflexivity).
        assert (Hev : sp_evict (cparams c) (x :: y :: r') = sp_evict (cparams c) (y :: r')) by (cbn [sp_evict]; rewrite Eo; reflexivity).
        assert (Hvi : sp_victims (cparams c) (x :: y :: r') = x :: sp_victims (cparams c) (y :: r')) by (cbn [sp_victims]; rewrite Eo; reflexivity).
        unfold evicted_state. rewrite Hpar, Hev, Hvi.
        destruct c as [l ms mb cb st]. cbn [maxSize maxBytes removeBack with_bytes with_entries]. f_equal.
        rewrite <- app_assoc. reflexivity.
      * assert (Hev : sp_evict (cparams c) (x :: y :: r') = x :: y :: r') by (cbn [sp_evict]; rewrite Eo; reflexivity).
        assert (Hvi : sp_victims (cparams c) (x :: y :: r') = []) by (cbn [sp_victims]; rewrite Eo; reflexivity).
        unfold evicted_state. rewrite Hev, Hvi. simpl map. rewrite app_nil_r. f_equal.
        destruct c as [l ms mb cb st]. destruct Hp as [Hb [Hst Hv]]. cbn [entries curBytes stuck maxSize maxBytes] in *.
        subst l. rewrite Hb, Hst, sum_rev. reflexivity.
Qed.

(** a state that satisfies the invariant needs no eviction *)
Lemma evict_noop P l : valid P -> sp_inv P l -> sp_evict P l = l.
Proof.
  intros _ [_ [_ [Hlen Hb]]]. apply sp_evict_id. destruct Hb as [Hb|Hb]; [|left; exact Hb].
  right. apply over_true_not; [exact Hlen|left; exact Hb].
Qed.

(** ---- addSized: what the state is before the eviction loop *)
Lemma addSized_pre c k v sz : cinv c -> (sz <? 0) = false ->
  let c1 := addSized c k v sz in
  cpre c1 /\ cparams c1 = cparams c /\ cabs c1 = sp_del k (cabs c) ++ [mkEntry k v sz].
Proof.
  intros [[Hb [Hst Hv]] [Hd _]] Hsz. unfold cabs in *. apply (proj1 (nodup_keys_rev _)) in Hd.
  unfold addSized. rewrite Hsz. destruct (lookup k (entries c)) as [ent|] eqn:El.
  - pose proof (lookup_some _ _ _ El) as [Hin Hk].
    unfold update, adjustSize. destruct c as [l ms mb cb st]. simpl in *.
    rewrite Hk, beqb_refl. simpl.
    split; [split; [|split; assumption]|split; [reflexivity|]].
    + simpl. rewrite (sum_remove_first k l ent El). lia.
    + rewrite (remove_first_del k l Hd), del_rev. reflexivity.
  - apply lookup_none in El. unfold addNew. destruct c as [l ms mb cb st]. simpl in *.
    split; [split; [|split; assumption]|split; [reflexivity|]].
    + simpl. lia.
    + rewrite sp_del_absent; [reflexivity|]. rewrite in_keys_rev. exact El.
Qed.

(** ---- refinement, operation by operation *)
Lemma cinv_of c c' o : cinv c -> cpre c' -> cparams c' = cparams c ->
  cabs c' = fst (sp_step (cparams c) (cabs c) o) -> cinv c'.
Proof.
  intros [[_ [_ Hv]] Hi] Hp Hpar Ha. split; [exact Hp|]. rewrite Hpar, Ha. apply sp_step_inv; assumption.
Qed.

Lemma evicted_state_pre c r : valid (cparams c) -> cpre (evicted_state c r) /\ cparams (evicted_state c r) = cparams c
  /\ cabs (evicted_state c r) = sp_evict (cparams c) r.
Proof.
  intros Hv. unfold evicted_state, cpre, cabs. simpl. rewrite sum_rev, rev_involutive. repeat split; try reflexivity.
  - destruct Hv. assumption.
  - destruct Hv. assumption.
Qed.

Lemma AddSized_refines c k v sz c' ev : cinv c -> AddSized c k v sz = (c', ev) ->
  cinv c' /\ cparams c' = cparams c /\ (cabs c', RPut ev) = sp_step (cparams c) (cabs c) (OpPut k v sz).
Proof.
  intros Hi Hstep. unfold AddSized, evictIfNeeded in Hstep.
  assert (Hgoal : cparams c' = cparams c /\ cpre c' /\ (cabs c', RPut ev) = sp_step (cparams c) (cabs c) (OpPut k v sz)).
  { cbn [sp_step]. unfold rejected. cbn [p_sized cparams andb].
    destruct (sz <? 0) eqn:Esz.
    - unfold addSized in Hstep. rewrite Esz in Hstep.
      destruct Hi as [Hp Hs]. pose proof Hp as [_ [_ Hv]].
      rewrite (evictLoop_spec (cabs c) c false _ Hp) in Hstep; [| unfold cabs; rewrite rev_involutive; reflexivity | unfold cabs; rewrite rev_length; lia].
      inversion Hstep; subst. destruct (evicted_state_pre c (cabs c) Hv) as [H1 [H2 H3]].
      split; [exact H2|]. split; [exact H1|]. rewrite H3, (evict_noop _ _ Hv Hs). rewrite Nat.ltb_irrefl. reflexivity.
    - destruct (addSized_pre c k v sz Hi Esz) as [Hp1 [Hpar1 Ha1]].
      set (c1 := addSized c k v sz) in *. pose proof Hp1 as [_ [_ Hv1]].
      rewrite (evictLoop_spec (cabs c1) c1 false _ Hp1) in Hstep; [| unfold cabs; rewrite rev_involutive; reflexivity | unfold cabs; rewrite rev_length; lia].
      inversion Hstep; subst. destruct (evicted_state_pre c1 (cabs c1) Hv1) as [H1 [H2 H3]].
      split; [rewrite H2; exact Hpar1|]. split; [exact H1|]. rewrite H3, Hpar1, Ha1.
      unfold sp_write, norm_size. cbn [p_sized cparams]. reflexivity. }
  destruct Hgoal as [G1 [G2 G3]]. split; [|split; assumption].
  apply (cinv_of c c' (OpPut k v sz) Hi G2 G1). rewrite <- G3. reflexivity.
Qed.

Lemma AddSizedIfMissing_refines c k v sz c' has ev : cinv c -> AddSizedIfMissing c k v sz = (c', has, ev) ->
  cinv c' /\ cparams c' = cparams c /\
  (cabs c', RHasOrAdd has (negb has && Contains c' k)) = sp_step (cparams c) (cabs c) (OpHasOrAdd k v sz).
Proof.
  intros Hi Hstep. pose proof Hi as [[Hb [Hst Hv]] [Hd Hrest]].
  pose proof (proj1 (nodup_keys_rev _) Hd) as Hd'.
  unfold AddSizedIfMissing in Hstep. cbn [sp_step]. rewrite sp_find_has. unfold cabs at 2. rewrite (find_rev k _ Hd').
  destruct (lookup k (entries c)) as [ent|] eqn:El.
  - inversion Hstep; subst. split; [exact Hi|]. split; reflexivity.
  - unfold rejected. cbn [p_sized cparams andb]. destruct (sz <? 0) eqn:Esz.
    + inversion Hstep; subst. split; [exact Hi|]. split; [reflexivity|]. unfold Contains. rewrite El. reflexivity.
    + assert (Hp1 : cpre (addNew c k v sz) /\ cparams (addNew c k v sz) = cparams c /\
                    cabs (addNew c k v sz) = sp_del k (cabs c) ++ [mkEntry k v sz]).
      { pose proof (addSized_pre c k v sz Hi Esz) as H. unfold addSized in H. rewrite Esz, El in H. exact H. }
      destruct Hp1 as [Hp1 [Hpar1 Ha1]]. set (c1 := addNew c k v sz) in *.
      unfold evictIfNeeded in Hstep.
      rewrite (evictLoop_spec (cabs c1) c1 false _ Hp1) in Hstep; [| unfold cabs; rewrite rev_involutive; reflexivity | unfold cabs; rewrite rev_length; lia].
      inversion Hstep; subst. pose proof Hp1 as [_ [_ Hv1]].
      destruct (evicted_state_pre c1 (cabs c1) Hv1) as [H1 [H2 H3]].
      assert (Ha : cabs (evicted_state c1 (cabs c1)) = fst (sp_write (cparams c) k v sz (cabs c))).
      { rewrite H3, Hpar1, Ha1. unfold sp_write, norm_size. cbn [p_sized cparams fst]. reflexivity. }
      assert (Hc : Contains (evicted_state c1 (cabs c1)) k = true).
      { unfold Contains. destruct (lookup k (entries (evicted_state c1 (cabs c1)))) eqn:E; [reflexivity|].
        apply lookup_none in E. exfalso. apply E. rewrite <- in_keys_rev. fold (cabs (evicted_state c1 (cabs c1))).
        rewrite Ha. destruct (sp_write_shape (cparams c) k v sz (cabs c)) as [p [q [_ [Hq _]]]]. rewrite Hq.
        unfold keys. rewrite map_app, in_app_iff. right. left. reflexivity. }
      rewrite Hc. simpl. split; [|split; [rewrite H2; exact Hpar1| rewrite Ha; reflexivity]].
      apply (cinv_of c _ (OpHasOrAdd k v sz) Hi H1); [rewrite H2; exact Hpar1|].
      cbn [sp_step]. rewrite sp_find_has. unfold cabs at 3. rewrite (find_rev k _ Hd'), El.
      unfold rejected. cbn [p_sized cparams andb]. rewrite Esz. exact Ha.
Qed.

Lemma Get_refines c k c' r : cinv c -> Get c k = (c', r) ->
  cinv c' /\ cparams c' = cparams c /\ (cabs c', RGet r) = sp_step (cparams c) (cabs c) (OpGet k).
Proof.
  intros Hi Hstep. pose proof Hi as [[Hb [Hst Hv]] [Hd Hrest]].
  pose proof (proj1 (nodup_keys_rev _) Hd) as Hd'.
  unfold Get in Hstep.
  assert (G : cparams c' = cparams c /\ cpre c' /\ (cabs c', RGet r) = sp_step (cparams c) (cabs c) (OpGet k)).
  { cbn [sp_step]. unfold cabs at 2. rewrite (find_rev k _ Hd').
    destruct (lookup k (entries c)) as [ent|] eqn:El; inversion Hstep; subst.
    - split; [destruct c; reflexivity|]. split.
      + destruct c as [l ms mb cb st]. unfold cpre. simpl in *. split; [|split; assumption].
        rewrite (sum_remove_first k l ent El). lia.
      + unfold cabs. destruct c as [l ms mb cb st]. simpl in *.
        rewrite (remove_first_del k l Hd'), del_rev. reflexivity.
    - split; [reflexivity|]. split; [split; [|split]; assumption| reflexivity]. }
  destruct G as [G1 [G2 G3]]. split; [|split; assumption].
  apply (cinv_of c c' (OpGet k) Hi G2 G1). rewrite <- G3. reflexivity.
Qed.

Lemma Peek_refines c k : cinv c -> Peek c k = option_map e_val (sp_find k (cabs c)).
Proof.
  intros [_ [Hd _]]. apply (proj1 (nodup_keys_rev _)) in Hd. unfold Peek, cabs. rewrite (find_rev k _ Hd).
  destruct (lookup k (entries c)); reflexivity.
Qed.

Lemma Contains_refines c k : cinv c -> Contains c k = sp_has k (cabs c).
Proof.
  intros [_ [Hd _]]. apply (proj1 (nodup_keys_rev _)) in Hd. unfold Contains. rewrite sp_find_has. unfold cabs. rewrite (find_rev k _ Hd).
  reflexivity.
Qed.

Lemma Remove_refines c k : cinv c ->
  cinv (fst (Remove c k)) /\ cparams (fst (Remove c k)) = cparams c /\ cabs (fst (Remove c k)) = sp_del k (cabs c).
Proof.
  intros Hi. pose proof Hi as [[Hb [Hst Hv]] [Hd Hrest]].
  pose proof (proj1 (nodup_keys_rev _) Hd) as Hd'.
  assert (G : cparams (fst (Remove c k)) = cparams c /\ cpre (fst (Remove c k)) /\ cabs (fst (Remove c k)) = sp_del k (cabs c)).
  { unfold Remove. destruct (lookup k (entries c)) as [ent|] eqn:El; cbn [fst].
    - split; [destruct c; reflexivity|]. destruct c as [l ms mb cb st]. unfold cpre, cabs. simpl in *. split.
      + split; [|split; assumption]. rewrite (sum_remove_first k l ent El). lia.
      + rewrite (remove_first_del k l Hd'), del_rev. reflexivity.
    - split; [reflexivity|]. split; [split; [|split]; assumption|].
      apply lookup_none in El. rewrite sp_del_absent; [reflexivity|]. unfold cabs. rewrite in_keys_rev. exact El. }
  destruct G as [G1 [G2 G3]]. split; [|split; assumption].
  apply (cinv_of c _ (OpRemove k) Hi G2 G1). rewrite G3. reflexivity.
Qed.

Lemma purge_refines c : cinv c -> cinv (purge c) /\ cparams (purge c) = cparams c /\ cabs (purge c) = [].
Proof.
  intros Hi. pose proof Hi as [[Hb [Hst Hv]] _].
  assert (G : cpre (purge c)).
  { destruct c as [l ms mb cb st]. unfold cpre, purge, cparams, valid in *. cbn in *. split; [reflexivity|]. split; [assumption|]. exact Hv. }
  split; [|split; [destruct c; reflexivity| destruct c; reflexivity]].
  apply (cinv_of c _ OpClear Hi G); destruct c; reflexivity.
Qed.

Lemma new_cinv size mb c : newCapacityLRU size mb = Some c ->
  cinv c /\ cparams c = mkParams true size mb /\ cabs c = [].
Proof.
  unfold newCapacityLRU. destruct (size <? 1) eqn:E1; [discriminate|]. destruct (mb <? 1) eqn:E2; [discriminate|].
  intros H. inversion H; subst. unfold cinv, cpre, cabs, cparams, valid. simpl.
  split; [|split; reflexivity]. split; [repeat split; try reflexivity; lia|].
  apply sp_inv_nil. unfold valid. simpl. lia.
Qed.

(** Keys and the counters, in the spec's vocabulary *)
Lemma Keys_refines c : Keys c = sp_keys (cabs c).
Proof. unfold Keys, sp_keys, cabs. rewrite map_rev. reflexivity. Qed.

Lemma Len_refines c : Len c = Z.of_nat (length (cabs c)).
Proof. unfold Len, cabs. rewrite rev_length. reflexivity. Qed.

Lemma bytes_refines c : cinv c -> curBytes c = sum_sizes (cabs c).
Proof. intros [[Hb _] _]. unfold cabs. rewrite sum_rev. exact Hb. Qed.
