(** C17 on the storageCacherAdapter model: no entry is lost, entries leave the memory tier only by
    being written to the persister in the same step, the Put flag says whether anything was spilled. *)
From Coq Require Import List ZArith Bool Lia PeanoNat ZifyNat ZifyBool.
From Verif Require Import Base.BStr Lru.LruTypes Lru.LruSpec Lru.LruSpec_proofs
  Lru.CapacityLru Lru.CapacityLru_proofs Lru.Adapter.
Import ListNotations.
Open Scope Z_scope.

(** ---- AddSizedAndReturnEvicted: the victims are the oldest part [p] of the previous residents
    (without k), they are all reported, the rest [q] and the written entry stay *)
Lemma ASARE_spec c k v sz c' evd : cinv c -> (sz <? 0) = false ->
  AddSizedAndReturnEvicted c k v sz = (c', evd) ->
  exists p q, sp_del k (cabs c) = p ++ q /\ cabs c' = q ++ [mkEntry k v sz] /\ evd = map kv p /\
              cinv c' /\ cparams c' = cparams c.
Proof.
  intros Hi Hsz Hstep. unfold AddSizedAndReturnEvicted in Hstep.
  destruct (addSized_pre c k v sz Hi Hsz) as [Hp1 [Hpar1 Ha1]].
  set (c1 := addSized c k v sz) in *. pose proof Hp1 as [_ [_ Hv1]].
  rewrite (evictCollect_spec (cabs c1) c1 [] _ Hp1) in Hstep;
    [| unfold cabs; rewrite rev_involutive; reflexivity | unfold cabs; rewrite rev_length; lia].
  inversion Hstep; subst. clear Hstep.
  destruct (evicted_state_pre c1 (cabs c1) Hv1) as [H1 [H2 H3]].
  destruct (sp_evict_snoc (cparams c1) (sp_del k (cabs c)) (mkEntry k v sz)) as [p [q [Hd He]]].
  rewrite <- Ha1 in He.
  pose proof (victims_evict (cparams c1) (cabs c1)) as Hve. rewrite He in Hve.
  rewrite Ha1, Hd, <- app_assoc in Hve at 1. apply app_inv_tail in Hve.
  exists p, q. split; [exact Hd|]. split; [rewrite H3; exact He|]. split; [simpl; rewrite <- Hve; reflexivity|].
  split; [|rewrite H2; exact Hpar1].
  apply (cinv_of c _ (OpPut k v sz) Hi H1); [rewrite H2; exact Hpar1|].
  rewrite H3. cbn [sp_step]. unfold rejected. cbn [p_sized cparams andb]. rewrite Hsz.
  unfold sp_write, norm_size. cbn [p_sized cparams fst]. rewrite Hpar1, Ha1. reflexivity.
Qed.

(** ---- the persister *)
Lemma db_get_put k v d x : db_get x (db_put k v d) = if beqb k x then Some v else db_get x d.
Proof.
  unfold db_put. simpl. destruct (beqb k x) eqn:E; [reflexivity|].
  unfold db_remove. induction d as [|[k' v'] d IH]; simpl; [reflexivity|].
  destruct (beqb k' k) eqn:E2; simpl.
  - apply beqb_eq in E2. subst. rewrite E. exact IH.
  - destruct (beqb k' x); [reflexivity|exact IH].
Qed.

(** each key is bound to one immutable, non-empty value *)
Definition bound (bind : bytes -> bytes) (l : list entry) : Prop :=
  forall e, In e l -> e_val e = bind (e_key e) /\ bind (e_key e) <> [].
Definition db_bound (bind : bytes -> bytes) (d : pdb) : Prop :=
  forall k v, db_get k d = Some v -> v = bind k.

Lemma persist_one_ne d n a : e_val a <> [] -> persist_one (d, n) (kv a) = (db_put (e_key a) (e_val a) d, n + 1).
Proof. unfold persist_one, kv. destruct (e_val a); [congruence|reflexivity]. Qed.

Lemma persist_spec bind vs : forall d n, bound bind vs -> db_bound bind d ->
  let d' := fst (fold_left persist_one (map kv vs) (d, n)) in
  db_bound bind d' /\
  (forall x, db_get x d <> None -> db_get x d' <> None) /\
  (forall e, In e vs -> db_get (e_key e) d' = Some (e_val e)).
Proof.
  induction vs as [|a vs IH]; intros d n Hb Hd; cbn [map fold_left].
  - split; [exact Hd|]. split; [auto|intros e []].
  - assert (Ha : e_val a = bind (e_key a) /\ bind (e_key a) <> []) by (apply Hb; left; reflexivity).
    assert (Hb' : bound bind vs) by (intros e He; apply Hb; right; exact He).
    destruct Ha as [Ha1 Ha2].
    rewrite persist_one_ne by (rewrite Ha1; exact Ha2).
    assert (Hd1 : db_bound bind (db_put (e_key a) (e_val a) d)).
    { intros x w. rewrite db_get_put. destruct (beqb (e_key a) x) eqn:E.
      - apply beqb_eq in E. intros H. inversion H. subst. exact Ha1.
      - apply Hd. }
    destruct (IH (db_put (e_key a) (e_val a) d) (n + 1) Hb' Hd1) as [I1 [I2 I3]].
    split; [exact I1|]. split.
    + intros x Hx. apply I2. rewrite db_get_put. destruct (beqb (e_key a) x); [discriminate|exact Hx].
    + intros e [->|He]; [|apply I3; exact He].
      assert (Hne : db_get (e_key e) (fst (fold_left persist_one (map kv vs) (db_put (e_key e) (e_val e) d, n + 1))) <> None).
      { apply I2. rewrite db_get_put, beqb_refl. discriminate. }
      destruct (db_get (e_key e) (fst (fold_left persist_one (map kv vs) (db_put (e_key e) (e_val e) d, n + 1)))) as [w|] eqn:Ew; [|congruence].
      rewrite (I1 _ _ Ew). rewrite Ha1. reflexivity.
Qed.

(** ---- the domain of C17 and the invariant *)
Definition wf_op (bind : bytes -> bytes) (o : aop) : Prop :=
  match o with
  | APut k v sz => v = bind k /\ v <> [] /\ 0 <= sz
  | AHasOrAdd k v sz => v = bind k /\ v <> [] /\ 0 <= sz
  | AGet _ | AHas _ | APeek _ | ASizeInBytesContained | AMaxSize => True
  | ARemove _ | AClear | AClose => False
  end.

(** the same domain with Close allowed (histories that close the adapter) *)
Definition wf_c (bind : bytes -> bytes) (o : aop) : Prop :=
  match o with
  | AClose => True
  | _ => wf_op bind o
  end.

Fixpoint puts (ops : list aop) : list bytes :=
  match ops with
  | [] => []
  | APut k _ _ :: r => k :: puts r
  | AHasOrAdd k _ _ :: r => k :: puts r
  | _ :: r => puts r
  end.

Definition mem_keys (a : adapter) : list bytes := keys (entries (mem a)).

Definition J (bind : bytes -> bytes) (a : adapter) (S : list bytes) : Prop :=
  cinv (mem a) /\ bound bind (entries (mem a)) /\ db_bound bind (db a) /\
  (forall k, In k S -> In k (mem_keys a) \/ db_get k (db a) <> None) /\
  dbIsClosed a = false.

Lemma in_cabs e c : In e (cabs c) <-> In e (entries c).
Proof. unfold cabs. symmetry. apply in_rev. Qed.

Lemma in_keys_cabs k c : In k (keys (cabs c)) <-> In k (keys (entries c)).
Proof. unfold cabs. apply in_keys_rev. Qed.

Lemma in_del e k l : In e (sp_del k l) -> In e l.
Proof. unfold sp_del. intros H. apply filter_In in H. tauto. Qed.

(** what one Put does to the two tiers *)
Lemma put_effect bind a S k sz a' f : J bind a S -> bind k <> [] -> 0 <= sz ->
  ad_Put a k (bind k) sz = (a', f) ->
  exists p q,
    sp_del k (cabs (mem a)) = p ++ q /\ cabs (mem a') = q ++ [mkEntry k (bind k) sz] /\
    f = negb (Nat.eqb (length p) 0) /\
    J bind a' (k :: S) /\
    (forall e, In e p -> db_get (e_key e) (db a') = Some (e_val e)) /\
    (forall x, db_get x (db a) <> None -> db_get x (db a') <> None).
Proof.
  intros [J1 [J2 [J3 [J4 J5]]]] Hne Hsz Hput. unfold ad_Put in Hput. rewrite J5 in Hput.
  destruct (AddSizedAndReturnEvicted (mem a) k (bind k) sz) as [m' evd] eqn:Ea.
  assert (Hsz' : (sz <? 0) = false) by lia.
  destruct (ASARE_spec (mem a) k (bind k) sz m' evd J1 Hsz' Ea) as [p [q [Hd [Hq [Hev [Hi' Hpar]]]]]].
  subst evd.
  assert (Hbp : bound bind p).
  { intros e He. apply J2. apply in_cabs. apply (in_del e k). rewrite Hd. apply in_or_app. left. exact He. }
  pose proof (persist_spec bind p (db a) (numValuesInStorage a) Hbp J3) as Hps. cbn zeta in Hps.
  destruct (fold_left persist_one (map kv p) (db a, numValuesInStorage a)) as [d' n'] eqn:Ef. cbn [fst] in Hps.
  destruct Hps as [P1 [P2 P3]]. inversion Hput; subst. clear Hput. cbn [mem db].
  exists p, q. split; [exact Hd|]. split; [exact Hq|]. split; [rewrite map_length; reflexivity|].
  split; [|split; [exact P3|exact P2]].
  split; [exact Hi'|]. cbn [mem db]. split; [|split; [exact P1|split; [|reflexivity]]].
  - intros e He. apply in_cabs in He. rewrite Hq in He. apply in_app_or in He. destruct He as [He|[<-|[]]].
    + apply J2. apply in_cabs. apply (in_del e k). rewrite Hd. apply in_or_app. right. exact He.
    + simpl. split; [reflexivity|exact Hne].
  - (* every key put so far is in one of the tiers *)
    intros x Hx. unfold mem_keys. cbn [mem].
    assert (Hkeys : forall y, In y (keys (sp_del k (cabs (mem a)))) \/ y = k ->
                    In y (keys (entries m')) \/ db_get y d' <> None).
    { intros y [Hy| ->].
      - rewrite Hd in Hy. unfold keys in Hy. rewrite map_app in Hy. apply in_app_or in Hy. destruct Hy as [Hy|Hy].
        + right. apply in_map_iff in Hy. destruct Hy as [e [E1 E2]]. subst. rewrite (P3 e E2). discriminate.
        + left. apply in_keys_cabs. rewrite Hq. unfold keys. rewrite map_app. apply in_or_app. left. exact Hy.
      - left. apply in_keys_cabs. rewrite Hq. unfold keys. rewrite map_app. apply in_or_app. right. left. reflexivity. }
    destruct Hx as [<-|Hx]; [apply Hkeys; right; reflexivity|].
    destruct (beqb_spec x k) as [->|Hxk]; [apply Hkeys; right; reflexivity|].
    destruct (J4 x Hx) as [Hm|Hdb].
    + apply Hkeys. left. apply in_keys_del. split; [|exact Hxk]. apply in_keys_cabs. exact Hm.
    + right. apply P2. exact Hdb.
Qed.

Lemma nodup_key_eq l e1 e2 : NoDup (keys l) -> In e1 l -> In e2 l -> e_key e1 = e_key e2 -> e1 = e2.
Proof.
  induction l as [|a l IH]; [intros _ []|]. simpl. intros Hd H1 H2 Hk. inversion Hd as [|x y Hn Hd']; subst.
  destruct H1 as [H1|H1]; destruct H2 as [H2|H2]; subst; auto.
  - exfalso. apply Hn. rewrite Hk. apply in_map. exact H2.
  - exfalso. apply Hn. rewrite <- Hk. apply in_map. exact H1.
Qed.

(** Get only reorders the memory tier *)
Lemma get_effect bind a S k a' r : J bind a S -> ad_Get a k = (a', r) ->
  J bind a' S /\ db a' = db a /\ (forall x, In x (mem_keys a') <-> In x (mem_keys a)).
Proof.
  intros [J1 [J2 [J3 [J4 J5]]]] Hget. unfold ad_Get in Hget.
  destruct (Get (mem a) k) as [m' r0] eqn:Eg.
  destruct (Get_refines (mem a) k m' r0 J1 Eg) as [Hi' _].
  assert (Hsame : forall e, In e (entries m') <-> In e (entries (mem a))).
  { unfold Get in Eg. destruct (lookup k (entries (mem a))) as [ent|] eqn:El; inversion Eg; subst; [|tauto].
    pose proof J1 as [_ [Hd _]]. apply (proj1 (nodup_keys_rev _)) in Hd.
    destruct (mem a) as [l ms mb cb st]. cbn [entries with_entries] in *. rewrite (remove_first_del k l Hd).
    apply lookup_some in El. destruct El as [E1 E2]. intros e. simpl. unfold sp_del. rewrite filter_In. split.
    - intros [<-|[H _]]; assumption.
    - intros H. destruct (is_key k e) eqn:Ek; [|right; split; [exact H|reflexivity]].
      left. apply is_key_true in Ek.
      apply (nodup_key_eq l ent e Hd E1 H). rewrite E2, Ek. reflexivity. }
  assert (Hk : forall x, In x (keys (entries m')) <-> In x (keys (entries (mem a)))).
  { intros x. unfold keys. rewrite !in_map_iff. split; intros [e [E1 E2]]; exists e; split; auto; apply Hsame; exact E2. }
  assert (HJ : J bind (mkAdapter m' (db a) (numValuesInStorage a) (dbIsClosed a)) S).
  { split; [exact Hi'|]. cbn [mem db]. split; [intros e He; apply J2; apply Hsame; exact He|]. split; [exact J3|].
    split; [|exact J5].
    intros x Hx. destruct (J4 x Hx) as [H|H]; [left; unfold mem_keys; cbn [mem]; apply Hk; exact H|right; exact H]. }
  destruct r0; inversion Hget; subst; (split; [exact HJ|split; [reflexivity|exact Hk]]).
Qed.

(** a key that Has reports on an open adapter is in one of the tiers *)
Lemma has_open_tiers a k : dbIsClosed a = false ->
  (ad_Has a k = true <-> In k (mem_keys a) \/ db_get k (db a) <> None).
Proof.
  intros Hc. unfold ad_Has, Contains, db_has, mem_keys. rewrite Hc.
  destruct (lookup k (entries (mem a))) as [ent|] eqn:El.
  - split; [intros _|reflexivity]. left. apply lookup_some in El. destruct El as [E1 E2]. subst k.
    apply in_map. exact E1.
  - apply lookup_none in El. destruct (db_get k (db a)) as [w|]; split; try reflexivity; try discriminate.
    + intros _. right. discriminate.
    + intros [H|H]; [contradiction|congruence].
Qed.

Lemma J_more bind a S k : J bind a S -> In k (mem_keys a) \/ db_get k (db a) <> None -> J bind a (k :: S).
Proof.
  intros [J1 [J2 [J3 [J4 J5]]]] Hk. split; [exact J1|]. split; [exact J2|]. split; [exact J3|]. split; [|exact J5].
  intros x [<-|Hx]; [exact Hk|apply J4; exact Hx].
Qed.

Lemma astep_J bind a S o a' r : J bind a S -> wf_op bind o -> astep a o = (a', r) ->
  J bind a' (puts [o] ++ S).
Proof.
  intros HJ Hwf Hstep. destruct o; cbn [astep] in Hstep; cbn [wf_op] in Hwf; cbn [puts app].
  - destruct Hwf as [-> [Hne Hsz]]. destruct (ad_Put a k (bind k) sz) as [a1 f] eqn:E. inversion Hstep; subst.
    destruct (put_effect bind a S k sz a' f HJ Hne Hsz E) as [p [q [_ [_ [_ [H _]]]]]]. exact H.
  - destruct (ad_Get a k) as [a1 r1] eqn:E. inversion Hstep; subst. apply (get_effect bind a S k a' r1 HJ E).
  - inversion Hstep; subst. exact HJ.
  - inversion Hstep; subst. exact HJ.
  - destruct Hwf.
  - destruct Hwf.
  - (* HasOrAdd *)
    destruct Hwf as [-> [Hne Hsz]]. unfold ad_HasOrAdd in Hstep.
    destruct (ad_Has a k) eqn:Eh.
    + inversion Hstep; subst. apply J_more; [exact HJ|]. apply has_open_tiers; [apply HJ|exact Eh].
    + destruct (ad_Put a k (bind k) sz) as [a1 f] eqn:E. inversion Hstep; subst.
      destruct (put_effect bind a S k sz a' f HJ Hne Hsz E) as [p [q [_ [_ [_ [H _]]]]]]. exact H.
  - destruct Hwf.
  - inversion Hstep; subst. exact HJ.
  - inversion Hstep; subst. exact HJ.
Qed.

Lemma puts_app l1 l2 : puts (l1 ++ l2) = puts l1 ++ puts l2.
Proof. induction l1 as [|o l1 IH]; [reflexivity|]. destruct o; simpl; rewrite IH; reflexivity. Qed.

Lemma arun_J bind ops : forall a S, J bind a S -> Forall (wf_op bind) ops ->
  forall k, In k (puts ops) \/ In k S -> exists S', J bind (arun a ops) S' /\ In k S'.
Proof.
  induction ops as [|o ops IH]; intros a S HJ Hwf k Hk.
  - exists S. split; [exact HJ|]. destruct Hk as [[]|Hk]. exact Hk.
  - inversion Hwf as [|x y Hwo Hwf']; subst.
    change (arun a (o :: ops)) with (arun (fst (astep a o)) ops).
    destruct (astep a o) as [a1 r1] eqn:E. cbn [fst].
    pose proof (astep_J bind a S o a1 r1 HJ Hwo E) as HJ1.
    apply (IH a1 (puts [o] ++ S) HJ1 Hwf' k).
    change (o :: ops) with ([o] ++ ops) in Hk. rewrite puts_app in Hk.
    rewrite in_app_iff in *. tauto.
Qed.

Lemma new_J bind cap mb a0 : newAdapter cap mb = Some a0 -> J bind a0 [].
Proof.
  unfold newAdapter. destruct (newCapacityLRU cap mb) as [c|] eqn:E; [|discriminate]. intros H. inversion H; subst.
  destruct (new_cinv cap mb c E) as [H1 [_ H3]]. split; [exact H1|]. cbn [mem db].
  assert (He : entries c = []) by (unfold cabs in H3; destruct (entries c); [reflexivity|]; simpl in H3; destruct (rev l); discriminate).
  split; [rewrite He; intros e []|]. split; [intros k v; discriminate|]. split; [intros k []|reflexivity].
Qed.

(** ---- C17_no_loss *)
Lemma J_serves bind a S k : J bind a S -> In k S -> ad_Has a k = true /\ snd (ad_Get a k) = Some (bind k).
Proof.
  intros [J1 [J2 [J3 [J4 J5]]]] Hk. unfold ad_Has, ad_Get, Contains, Get, db_has. rewrite J5.
  destruct (lookup k (entries (mem a))) as [ent|] eqn:El.
  - split; [reflexivity|]. cbn [snd]. apply lookup_some in El. destruct El as [E1 E2].
    destruct (J2 ent E1) as [Hv _]. rewrite Hv, E2. reflexivity.
  - apply lookup_none in El. destruct (J4 k Hk) as [H|H]; [contradiction|].
    destruct (db_get k (db a)) as [w|] eqn:Ew; [|congruence]. split; [reflexivity|]. cbn [snd]. rewrite (J3 k w Ew). reflexivity.
Qed.

Theorem no_loss bind cap mb a0 ops : newAdapter cap mb = Some a0 -> Forall (wf_op bind) ops ->
  forall k, In k (puts ops) ->
  ad_Has (arun a0 ops) k = true /\ snd (ad_Get (arun a0 ops) k) = Some (bind k).
Proof.
  intros Hnew Hwf k Hk.
  destruct (arun_J bind ops a0 [] (new_J bind cap mb a0 Hnew) Hwf k (or_introl Hk)) as [S' [HJ Hin]].
  apply (J_serves bind _ S' k HJ Hin).
Qed.

Lemma reach_J bind cap mb a0 ops : newAdapter cap mb = Some a0 -> Forall (wf_op bind) ops ->
  exists S, J bind (arun a0 ops) S.
Proof.
  intros Hnew Hwf. revert a0 Hnew. intros a0 Hnew. pose proof (new_J bind cap mb a0 Hnew) as HJ.
  clear Hnew. revert HJ. generalize (@nil bytes) as S. revert a0. induction Hwf as [|o ops Hwo Hwf IH]; intros a0 S HJ.
  - exists S. exact HJ.
  - change (arun a0 (o :: ops)) with (arun (fst (astep a0 o)) ops). destruct (astep a0 o) as [a1 r1] eqn:E. cbn [fst].
    apply (IH a1 (puts [o] ++ S)). apply (astep_J bind a0 S o a1 r1 HJ Hwo E).
Qed.

(** ---- C17_spill_before_drop and C17_flag *)
Theorem spill_before_drop bind cap mb a0 ops o a' r : newAdapter cap mb = Some a0 ->
  Forall (wf_op bind) ops -> wf_op bind o ->
  astep (arun a0 ops) o = (a', r) ->
  forall e, In e (entries (mem (arun a0 ops))) -> ~ In (e_key e) (Keys (mem a')) ->
  db_get (e_key e) (db a') = Some (e_val e).
Proof.
  intros Hnew Hwf Hwo Hstep e He Hgone. destruct (reach_J bind cap mb a0 ops Hnew Hwf) as [S HJ].
  set (a := arun a0 ops) in *. rewrite Keys_refines in Hgone. change (sp_keys (cabs (mem a'))) with (keys (cabs (mem a'))) in Hgone.
  destruct o; cbn [astep] in Hstep; cbn [wf_op] in Hwo.
  - destruct Hwo as [-> [Hne Hsz]]. destruct (ad_Put a k (bind k) sz) as [a1 f] eqn:E. inversion Hstep; subst a1 r. clear Hstep.
    destruct (put_effect bind a S k sz a' f HJ Hne Hsz E) as [p [q [Hd [Hq [_ [_ [P3 _]]]]]]].
    destruct (beqb_spec (e_key e) k) as [Hk|Hk].
    + exfalso. apply Hgone. rewrite Hq. unfold keys. rewrite map_app. apply in_or_app. right. left. simpl. symmetry. exact Hk.
    + assert (Hin : In e (sp_del k (cabs (mem a)))).
      { unfold sp_del. apply filter_In. split; [apply in_cabs; exact He|]. apply negb_true_iff. apply is_key_false. exact Hk. }
      rewrite Hd in Hin. apply in_app_or in Hin. destruct Hin as [Hin|Hin]; [apply P3; exact Hin|].
      exfalso. apply Hgone. rewrite Hq. unfold keys. rewrite map_app. apply in_or_app. left. apply in_map. exact Hin.
  - destruct (ad_Get a k) as [a1 r1] eqn:E. inversion Hstep; subst a1 r. destruct (get_effect bind a S k a' r1 HJ E) as [_ [_ Hk]].
    exfalso. apply Hgone. apply in_keys_cabs. apply Hk. unfold mem_keys. apply in_map. exact He.
  - inversion Hstep; subst. exfalso. apply Hgone. apply in_keys_cabs. apply in_map. exact He.
  - inversion Hstep; subst. exfalso. apply Hgone. apply in_keys_cabs. apply in_map. exact He.
  - destruct Hwo.
  - destruct Hwo.
  - (* HasOrAdd: nothing moves when the key is reported, otherwise it is a Put *)
    destruct Hwo as [-> [Hne Hsz]]. unfold ad_HasOrAdd in Hstep. destruct (ad_Has a k) eqn:Eh.
    + inversion Hstep; subst. exfalso. apply Hgone. apply in_keys_cabs. apply in_map. exact He.
    + destruct (ad_Put a k (bind k) sz) as [a1 f] eqn:E. inversion Hstep; subst a1 r. clear Hstep.
      destruct (put_effect bind a S k sz a' f HJ Hne Hsz E) as [p [q [Hd [Hq [_ [_ [P3 _]]]]]]].
      destruct (beqb_spec (e_key e) k) as [Hk|Hk].
      * exfalso. apply Hgone. rewrite Hq. unfold keys. rewrite map_app. apply in_or_app. right. left. simpl. symmetry. exact Hk.
      * assert (Hin : In e (sp_del k (cabs (mem a)))).
        { unfold sp_del. apply filter_In. split; [apply in_cabs; exact He|]. apply negb_true_iff. apply is_key_false. exact Hk. }
        rewrite Hd in Hin. apply in_app_or in Hin. destruct Hin as [Hin|Hin]; [apply P3; exact Hin|].
        exfalso. apply Hgone. rewrite Hq. unfold keys. rewrite map_app. apply in_or_app. left. apply in_map. exact Hin.
  - destruct Hwo.
  - inversion Hstep; subst. exfalso. apply Hgone. apply in_keys_cabs. apply in_map. exact He.
  - inversion Hstep; subst. exfalso. apply Hgone. apply in_keys_cabs. apply in_map. exact He.
Qed.

Theorem put_flag bind cap mb a0 ops k v sz a' f : newAdapter cap mb = Some a0 ->
  Forall (wf_op bind) ops -> wf_op bind (APut k v sz) ->
  astep (arun a0 ops) (APut k v sz) = (a', ARPut f) ->
  (f = true <-> exists e, In e (entries (mem (arun a0 ops))) /\ ~ In (e_key e) (Keys (mem a'))
                          /\ db_get (e_key e) (db a') = Some (e_val e)).
Proof.
  intros Hnew Hwf Hwo Hstep. destruct (reach_J bind cap mb a0 ops Hnew Hwf) as [S HJ].
  pose proof (spill_before_drop bind cap mb a0 ops _ a' _ Hnew Hwf Hwo Hstep) as Hsp.
  set (a := arun a0 ops) in *. cbn [astep] in Hstep. cbn [wf_op] in Hwo. destruct Hwo as [-> [Hne Hsz]].
  destruct (ad_Put a k (bind k) sz) as [a1 f1] eqn:E. inversion Hstep; subst a1 f1. clear Hstep.
  destruct (put_effect bind a S k sz a' f HJ Hne Hsz E) as [p [q [Hd [Hq [Hf [HJ' _]]]]]].
  assert (Hnd1 : NoDup (keys (p ++ q))).
  { destruct HJ as [[_ [Hnd0 _]] _]. rewrite <- Hd. apply nodup_del. exact Hnd0. }
  rewrite Hf. split.
  - destruct p as [|x p]; [simpl; discriminate|]. intros _. exists x.
    assert (Hx : In x (entries (mem a))).
    { apply in_cabs. apply (in_del x k). rewrite Hd. left. reflexivity. }
    assert (Hg : ~ In (e_key x) (Keys (mem a'))).
    { rewrite Keys_refines. change (sp_keys (cabs (mem a'))) with (keys (cabs (mem a'))). rewrite Hq. unfold keys in *. rewrite map_app, in_app_iff. simpl.
      simpl in Hnd1. inversion Hnd1 as [|y z Hn _]; subst. intros [H|[H|[]]].
      - apply Hn. rewrite map_app. apply in_or_app. right. exact H.
      - assert (Hin : In (e_key x) (map e_key (sp_del k (cabs (mem a))))) by (rewrite Hd; left; reflexivity).
        apply (in_keys_del k (e_key x)) in Hin. destruct Hin as [_ Hin]. apply Hin. symmetry. exact H. }
    split; [exact Hx|]. split; [exact Hg|]. apply Hsp; assumption.
  - intros [e [He [Hgone _]]]. destruct p as [|x p]; [|reflexivity]. exfalso. apply Hgone.
    rewrite Keys_refines. change (sp_keys (cabs (mem a'))) with (keys (cabs (mem a'))). rewrite Hq. simpl in Hd.
    destruct (beqb_spec (e_key e) k) as [Hk|Hk].
    + unfold keys. rewrite map_app. apply in_or_app. right. left. simpl. symmetry. exact Hk.
    + unfold keys. rewrite map_app. apply in_or_app. left. apply in_map. rewrite <- Hd.
      unfold sp_del. apply filter_In. split; [apply in_cabs; exact He|]. apply negb_true_iff. apply is_key_false. exact Hk.
Qed.

(** ---- HasOrAdd: what its two flags say *)
Lemma entries_of_cabs c l : cabs c = l -> entries c = rev l.
Proof. unfold cabs. intros <-. rewrite rev_involutive. reflexivity. Qed.

Theorem hasoradd_flags bind cap mb a0 ops k v sz a' has added : newAdapter cap mb = Some a0 ->
  Forall (wf_op bind) ops -> wf_op bind (AHasOrAdd k v sz) ->
  astep (arun a0 ops) (AHasOrAdd k v sz) = (a', ARHasOrAdd has added) ->
  let a := arun a0 ops in
  (has = true <-> In k (Keys (mem a)) \/ db_get k (db a) <> None) /\
  (has = true -> a' = a /\ added = false) /\
  (has = false ->
     Peek (mem a') k = Some v /\
     (added = true <-> exists e, In e (entries (mem a)) /\ ~ In (e_key e) (Keys (mem a'))
                                 /\ db_get (e_key e) (db a') = Some (e_val e))).
Proof.
  intros Hnew Hwf Hwo Hstep a. destruct (reach_J bind cap mb a0 ops Hnew Hwf) as [S HJ]. fold a in HJ.
  assert (Hopen : dbIsClosed a = false) by apply HJ.
  assert (Hkeys : In k (Keys (mem a)) <-> In k (mem_keys a)).
  { rewrite Keys_refines. change (sp_keys (cabs (mem a))) with (keys (cabs (mem a))). apply in_keys_cabs. }
  cbn [astep] in Hstep. unfold ad_HasOrAdd in Hstep. fold a in Hstep.
  destruct (ad_Has a k) eqn:Eh.
  - inversion Hstep; subst a' has added. clear Hstep.
    split; [|split; [intros _; split; reflexivity|discriminate]].
    split; [intros _|reflexivity]. rewrite Hkeys. apply has_open_tiers; assumption.
  - destruct (ad_Put a k v sz) as [a1 f] eqn:E. inversion Hstep; subst a1 has added. clear Hstep.
    split; [|split; [discriminate|intros _]].
    + split; [discriminate|]. intros H. rewrite Hkeys in H. apply (has_open_tiers a k Hopen) in H. congruence.
    + assert (Hwp : wf_op bind (APut k v sz)) by exact Hwo.
      assert (Hst : astep a (APut k v sz) = (a', ARPut f)) by (cbn [astep]; rewrite E; reflexivity).
      split; [|exact (put_flag bind cap mb a0 ops k v sz a' f Hnew Hwf Hwp Hst)].
      cbn [wf_op] in Hwo. destruct Hwo as [-> [Hne Hsz]].
      destruct (put_effect bind a S k sz a' f HJ Hne Hsz E) as [p [q [_ [Hq _]]]].
      apply entries_of_cabs in Hq. rewrite rev_app_distr in Hq. simpl in Hq.
      unfold Peek. rewrite Hq. cbn [lookup e_key]. rewrite beqb_refl. reflexivity.
Qed.

(** ---- Close *)
Lemma close_effect a : astep a AClose = (mkAdapter (mem a) (db a) 0 true, ARClose).
Proof. reflexivity. Qed.

(** a closed adapter stays closed and never touches the persister again: ANY operation *)
Lemma astep_closed a o : dbIsClosed a = true ->
  dbIsClosed (fst (astep a o)) = true /\ db (fst (astep a o)) = db a.
Proof.
  intros Hc. destruct o; cbn [astep].
  - unfold ad_Put. rewrite Hc. destruct (AddSizedAndReturnEvicted (mem a) k v sz) as [m' evd]. split; reflexivity.
  - unfold ad_Get. rewrite Hc. destruct (Get (mem a) k) as [m' [w|]]; split; reflexivity.
  - split; [exact Hc|reflexivity].
  - split; [exact Hc|reflexivity].
  - unfold ad_Remove. rewrite Hc. destruct (Remove (mem a) k) as [m' removed]. rewrite orb_true_r. split; reflexivity.
  - unfold ad_Clear. split; [exact Hc|reflexivity].
  - unfold ad_HasOrAdd. destruct (ad_Has a k); [split; [exact Hc|reflexivity]|].
    unfold ad_Put. rewrite Hc. destruct (AddSizedAndReturnEvicted (mem a) k v sz) as [m' evd]. split; reflexivity.
  - split; reflexivity.
  - split; [exact Hc|reflexivity].
  - split; [exact Hc|reflexivity].
Qed.

Lemma arun_cons a o ops : arun a (o :: ops) = arun (fst (astep a o)) ops.
Proof. reflexivity. Qed.

Lemma arun_app a l1 l2 : arun a (l1 ++ l2) = arun (arun a l1) l2.
Proof. unfold arun. apply fold_left_app. Qed.

Theorem closed_forever ops : forall a, dbIsClosed a = true ->
  dbIsClosed (arun a ops) = true /\ db (arun a ops) = db a.
Proof.
  induction ops as [|o ops IH]; intros a Hc; [split; [exact Hc|reflexivity]|].
  rewrite arun_cons. destruct (astep_closed a o Hc) as [H1 H2].
  destruct (IH _ H1) as [I1 I2]. split; [exact I1|]. rewrite I2. exact H2.
Qed.

(** after a Close anywhere in ANY history: closed, the persister is what it was at the Close, counter
    restarted from 0 at the Close *)
Theorem close_freezes_db a0 pre post :
  dbIsClosed (arun a0 (pre ++ AClose :: post)) = true /\
  db (arun a0 (pre ++ AClose :: post)) = db (arun a0 pre).
Proof.
  rewrite arun_app, arun_cons. rewrite close_effect. cbn [fst].
  apply (closed_forever post (mkAdapter (mem (arun a0 pre)) (db (arun a0 pre)) 0 true)). reflexivity.
Qed.

(** the memory tier along histories that may close the adapter: K = the part of J that does not
    mention the persister *)
Definition K (bind : bytes -> bytes) (a : adapter) : Prop :=
  cinv (mem a) /\ bound bind (entries (mem a)).

Lemma put_mem bind a k sz a' f : K bind a -> bind k <> [] -> 0 <= sz ->
  ad_Put a k (bind k) sz = (a', f) -> K bind a'.
Proof.
  intros [K1 K2] Hne Hsz Hput.
  assert (Hm : mem a' = fst (AddSizedAndReturnEvicted (mem a) k (bind k) sz)).
  { unfold ad_Put in Hput. destruct (AddSizedAndReturnEvicted (mem a) k (bind k) sz) as [m' evd].
    destruct (dbIsClosed a); [inversion Hput; reflexivity|].
    destruct (fold_left persist_one evd (db a, numValuesInStorage a)) as [d' n']. inversion Hput; reflexivity. }
  destruct (AddSizedAndReturnEvicted (mem a) k (bind k) sz) as [m' evd] eqn:Ea. cbn [fst] in Hm.
  assert (Hsz' : (sz <? 0) = false) by lia.
  destruct (ASARE_spec (mem a) k (bind k) sz m' evd K1 Hsz' Ea) as [p [q [Hd [Hq [_ [Hi' _]]]]]].
  unfold K. rewrite Hm. split; [exact Hi'|].
  intros e He. apply in_cabs in He. rewrite Hq in He. apply in_app_or in He. destruct He as [He|[<-|[]]].
  - apply K2. apply in_cabs. apply (in_del e k). rewrite Hd. apply in_or_app. right. exact He.
  - simpl. split; [reflexivity|exact Hne].
Qed.

Lemma get_mem bind a k a' r : K bind a -> ad_Get a k = (a', r) -> K bind a'.
Proof.
  intros [K1 K2] Hget. unfold ad_Get in Hget.
  destruct (Get (mem a) k) as [m' r0] eqn:Eg.
  destruct (Get_refines (mem a) k m' r0 K1 Eg) as [Hi' _].
  assert (Hsame : forall e, In e (entries m') -> In e (entries (mem a))).
  { unfold Get in Eg. destruct (lookup k (entries (mem a))) as [ent|] eqn:El; inversion Eg; subst; [|tauto].
    apply lookup_some in El. destruct El as [E1 E2].
    destruct (mem a) as [l ms mb cb st]. cbn [entries with_entries] in *.
    intros e [<-|H]; [exact E1|].
    clear - H. induction l as [|x l IH]; [destruct H|]. simpl in H. destruct (beqb (e_key x) k).
    - right. exact H.
    - destruct H as [<-|H]; [left; reflexivity|right; apply IH; exact H]. }
  assert (Hm : mem a' = m') by (destruct r0; inversion Hget; reflexivity).
  unfold K. rewrite Hm. split; [exact Hi'|]. intros e He. apply K2. apply Hsame. exact He.
Qed.

Lemma astep_K bind a o : K bind a -> wf_c bind o -> K bind (fst (astep a o)).
Proof.
  intros HK Hwf. destruct o; cbn [astep]; cbn [wf_c wf_op] in Hwf.
  - destruct Hwf as [-> [Hne Hsz]]. destruct (ad_Put a k (bind k) sz) as [a1 f] eqn:E. cbn [fst].
    apply (put_mem bind a k sz a1 f HK Hne Hsz E).
  - destruct (ad_Get a k) as [a1 r1] eqn:E. cbn [fst]. apply (get_mem bind a k a1 r1 HK E).
  - exact HK.
  - exact HK.
  - destruct Hwf.
  - destruct Hwf.
  - destruct Hwf as [-> [Hne Hsz]]. unfold ad_HasOrAdd. destruct (ad_Has a k); [exact HK|].
    destruct (ad_Put a k (bind k) sz) as [a1 f] eqn:E. cbn [fst].
    apply (put_mem bind a k sz a1 f HK Hne Hsz E).
  - exact HK.
  - exact HK.
  - exact HK.
Qed.

Lemma arun_K bind ops : forall a, K bind a -> Forall (wf_c bind) ops -> K bind (arun a ops).
Proof.
  induction ops as [|o ops IH]; intros a HK Hwf; [exact HK|].
  inversion Hwf as [|x y Hwo Hwf']; subst. rewrite arun_cons. apply IH; [|exact Hwf'].
  apply astep_K; assumption.
Qed.

Lemma new_K bind cap mb a0 : newAdapter cap mb = Some a0 -> K bind a0.
Proof. intros H. destruct (new_J bind cap mb a0 H) as [J1 [J2 _]]. split; assumption. Qed.

(** what a closed adapter answers: the memory tier and nothing else *)
Theorem closed_serves_memory_only bind cap mb a0 ops : newAdapter cap mb = Some a0 ->
  Forall (wf_c bind) ops ->
  let a := arun a0 ops in
  dbIsClosed a = true ->
  ad_Keys a = Keys (mem a) /\
  forall k,
    (In k (Keys (mem a)) -> ad_Has a k = true /\ snd (ad_Get a k) = Some (bind k)) /\
    (~ In k (Keys (mem a)) -> ad_Has a k = false /\ snd (ad_Get a k) = None).
Proof.
  intros Hnew Hwf a Hc. destruct (arun_K bind ops a0 (new_K bind cap mb a0 Hnew) Hwf) as [K1 K2]. fold a in K1, K2.
  split; [unfold ad_Keys; rewrite Hc; reflexivity|]. intros k.
  assert (Hkeys : In k (Keys (mem a)) <-> In k (mem_keys a)).
  { rewrite Keys_refines. change (sp_keys (cabs (mem a))) with (keys (cabs (mem a))). apply in_keys_cabs. }
  rewrite Hkeys. unfold ad_Has, ad_Get, Contains, Get, mem_keys. rewrite Hc.
  destruct (lookup k (entries (mem a))) as [ent|] eqn:El.
  - apply lookup_some in El. destruct El as [E1 E2]. split.
    + intros _. split; [reflexivity|]. cbn [snd]. destruct (K2 ent E1) as [Hv _]. rewrite Hv, E2. reflexivity.
    + intros H. exfalso. apply H. subst k. apply in_map. exact E1.
  - apply lookup_none in El. split; [intros H; contradiction|]. intros _. split; reflexivity.
Qed.

(** in particular a key spilled before the Close is no longer found although the persister holds it *)
Theorem spilled_then_closed_not_found bind cap mb a0 pre post k : newAdapter cap mb = Some a0 ->
  Forall (wf_c bind) pre -> Forall (wf_c bind) post ->
  let a := arun a0 (pre ++ AClose :: post) in
  ~ In k (Keys (mem a)) ->
  ad_Has a k = false /\ snd (ad_Get a k) = None /\ db_get k (db a) = db_get k (db (arun a0 pre)).
Proof.
  intros Hnew Hpre Hpost a Hk.
  destruct (close_freezes_db a0 pre post) as [Hc Hdb]. fold a in Hc, Hdb.
  assert (Hwf : Forall (wf_c bind) (pre ++ AClose :: post)).
  { apply Forall_app. split; [exact Hpre|]. constructor; [exact I|exact Hpost]. }
  destruct (closed_serves_memory_only bind cap mb a0 _ Hnew Hwf Hc) as [_ H]. fold a in H.
  destruct (H k) as [_ H2]. destruct (H2 Hk) as [H3 H4]. split; [exact H3|]. split; [exact H4|].
  rewrite Hdb. reflexivity.
Qed.
