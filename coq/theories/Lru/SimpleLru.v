(** Operational model of hashicorp/golang-lru v0.6.0 (lru.Cache over simplelru.LRU, no eviction
    callback) as it is used behind lrucache.simpleLRUCacheAdapter (C15, config kind 0).
    Definitions only.  Transcribed from simplelru/lru.go; lru.go only adds locking (and the
    evicted-buffers, unused when onEvictedCB == nil). *)
From Coq Require Import List ZArith NArith Bool.
From Verif Require Import Base.BStr.
Import ListNotations.
Open Scope Z_scope.

Record slru := mkSlru {
  s_entries : list (bytes * bytes);  (* evictList + items; front = most recently used *)
  s_size    : Z
}.

Definition s_with (c : slru) (l : list (bytes * bytes)) : slru := mkSlru l (s_size c).

(** simplelru.NewLRU: size <= 0 rejected *)
Definition newLRU (size : Z) : option slru :=
  if size <=? 0 then None else Some (mkSlru [] size).

Fixpoint s_lookup (k : bytes) (l : list (bytes * bytes)) : option bytes :=
  match l with
  | [] => None
  | (k', v) :: r => if beqb k' k then Some v else s_lookup k r
  end.

Fixpoint s_remove_first (k : bytes) (l : list (bytes * bytes)) : list (bytes * bytes) :=
  match l with
  | [] => []
  | (k', v) :: r => if beqb k' k then r else (k', v) :: s_remove_first k r
  end.

(** Purge *)
Definition s_Purge (c : slru) : slru := s_with c [].

(** Add: existing -> MoveToFront, set value, false; new -> PushFront, evict := Len > size,
    removeOldest when evict *)
Definition s_Add (c : slru) (k v : bytes) : slru * bool :=
  match s_lookup k (s_entries c) with
  | Some _ => (s_with c ((k, v) :: s_remove_first k (s_entries c)), false)
  | None =>
      let l := (k, v) :: s_entries c in
      let evict := Z.of_nat (length l) >? s_size c in
      if evict then (s_with c (removelast l), true) else (s_with c l, false)
  end.

(** Get: MoveToFront + value *)
Definition s_Get (c : slru) (k : bytes) : slru * option bytes :=
  match s_lookup k (s_entries c) with
  | Some v => (s_with c ((k, v) :: s_remove_first k (s_entries c)), Some v)
  | None => (c, None)
  end.

Definition s_Contains (c : slru) (k : bytes) : bool :=
  match s_lookup k (s_entries c) with Some _ => true | None => false end.

Definition s_Peek (c : slru) (k : bytes) : option bytes := s_lookup k (s_entries c).

(** lru.Cache.ContainsOrAdd *)
Definition s_ContainsOrAdd (c : slru) (k v : bytes) : slru * bool * bool :=
  if s_Contains c k then (c, true, false)
  else let '(c', evicted) := s_Add c k v in (c', false, evicted).

Definition s_Remove (c : slru) (k : bytes) : slru * bool :=
  match s_lookup k (s_entries c) with
  | Some _ => (s_with c (s_remove_first k (s_entries c)), true)
  | None => (c, false)
  end.

Definition s_Keys (c : slru) : list bytes := rev (map fst (s_entries c)).
Definition s_Len (c : slru) : Z := Z.of_nat (length (s_entries c)).

(** simpleLRUCacheAdapter: AddSized = Add (size dropped), AddSizedIfMissing = ContainsOrAdd
    (size dropped), SizeInBytesContained = 0 *)
Definition a_AddSized (c : slru) (k v : bytes) (_ : Z) : slru * bool := s_Add c k v.
Definition a_AddSizedIfMissing (c : slru) (k v : bytes) (_ : Z) : slru * bool * bool := s_ContainsOrAdd c k v.
Definition a_SizeInBytesContained (_ : slru) : Z := 0.
