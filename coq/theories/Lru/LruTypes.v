(** Data shared by the LRU models and the reference LRU (no behaviour here):
    an entry (key, value, size), the operations of the Cacher interface that C15 names and
    their results, and a handler invocation. *)
From Coq Require Import List ZArith.
From Verif Require Import Base.BStr.
Import ListNotations.
Open Scope Z_scope.

Record entry := mkEntry { e_key : bytes; e_val : bytes; e_size : Z }.

Inductive op :=
| OpPut (k v : bytes) (sz : Z)
| OpHasOrAdd (k v : bytes) (sz : Z)
| OpGet (k : bytes)
| OpPeek (k : bytes)
| OpHas (k : bytes)
| OpRemove (k : bytes)
| OpClear
| OpRegister (id : bytes) (isnil : bool)
| OpUnRegister (id : bytes).

Inductive ret :=
| RPut (evicted : bool)
| RHasOrAdd (has added : bool)
| RGet (v : option bytes)
| RPeek (v : option bytes)
| RHas (b : bool)
| RNone.

Definition invocation := (bytes * bytes * bytes)%type.  (* handler id, key, value *)

Definition sum_sizes (l : list entry) : Z := fold_right (fun e a => e_size e + a) 0 l.
