(** Operational model of storageCacherAdapter/storageCacherAdapter.go (C17) over the capacityLRU
    model and a map persister (memorydb: map key -> bytes).  Definitions only.

    Values are byte strings: the harness stores values of a type implementing
    types.SerializedStoredData (GetSerialized/SetSerialized = the byte string itself) and uses a
    storedDataFactory creating empty values of that type, so getBytes / getData never reach the
    marshaller.  The persister never fails (memorydb); memorydb.Close does nothing and returns nil, so
    after adapter.Close the persister's content is still there - the adapter no longer consults it
    ([dbIsClosed]). *)
From Coq Require Import List ZArith NArith Bool.
From Verif Require Import Base.BStr Lru.LruTypes Lru.CapacityLru.
Import ListNotations.
Open Scope Z_scope.

Definition pdb := list (bytes * bytes).   (* memorydb.DB.db *)

Fixpoint db_get (k : bytes) (d : pdb) : option bytes :=
  match d with
  | [] => None
  | (k', v) :: r => if beqb k' k then Some v else db_get k r
  end.
Definition db_remove (k : bytes) (d : pdb) : pdb := filter (fun kv => negb (beqb (fst kv) k)) d.
Definition db_put (k v : bytes) (d : pdb) : pdb := (k, v) :: db_remove k d.
Definition db_has (k : bytes) (d : pdb) : bool := match db_get k d with Some _ => true | None => false end.

Record adapter := mkAdapter {
  mem : clru;               (* cacher *)
  db  : pdb;                (* db *)
  numValuesInStorage : Z;   (* counted separately by the code *)
  dbIsClosed : bool         (* set by Close, never reset *)
}.

Definition newAdapter (size byteCapacity : Z) : option adapter :=
  match newCapacityLRU size byteCapacity with
  | Some c => Some (mkAdapter c [] 0 false)
  | None => None
  end.

(** the loop of Put over evictedValues: skip an empty serialisation, db.Put, numValuesInStorage++ *)
Definition persist_one (st : pdb * Z) (kv : bytes * bytes) : pdb * Z :=
  let '(d, n) := st in
  let '(ek, ev) := kv in
  match ev with
  | [] => (d, n)
  | _ => (db_put ek ev d, n + 1)
  end.

(** Put: AddSizedAndReturnEvicted; [if c.dbIsClosed { return len(evictedValues) != 0 }] - the victims
    are NOT written; otherwise the loop, then the same flag *)
Definition ad_Put (a : adapter) (k v : bytes) (sz : Z) : adapter * bool :=
  let '(m', evicted) := AddSizedAndReturnEvicted (mem a) k v sz in
  if dbIsClosed a then
    (mkAdapter m' (db a) (numValuesInStorage a) true, negb (Nat.eqb (length evicted) 0))
  else
    let '(d', n') := fold_left persist_one evicted (db a, numValuesInStorage a) in
    (mkAdapter m' d' n' false, negb (Nat.eqb (length evicted) 0)).

(** Get: cacher.Get; on a miss [if c.dbIsClosed { return nil, false }], else db.Get *)
Definition ad_Get (a : adapter) (k : bytes) : adapter * option bytes :=
  let '(m', r) := Get (mem a) k in
  match r with
  | Some v => (mkAdapter m' (db a) (numValuesInStorage a) (dbIsClosed a), Some v)
  | None => (mkAdapter m' (db a) (numValuesInStorage a) (dbIsClosed a),
             if dbIsClosed a then None else db_get k (db a))
  end.

(** Has: cacher.Contains; else [if c.dbIsClosed { return false }]; else db.Has *)
Definition ad_Has (a : adapter) (k : bytes) : bool :=
  if Contains (mem a) k then true
  else if dbIsClosed a then false
  else db_has k (db a).

Definition ad_Peek (a : adapter) (k : bytes) : option bytes := Peek (mem a) k.

(** Remove: from the cacher; only when it was not there, from the db (memorydb.Remove never fails,
    so the counter is decremented whether or not the key was stored) *)
Definition ad_Remove (a : adapter) (k : bytes) : adapter :=
  let '(m', removed) := Remove (mem a) k in
  if removed || dbIsClosed a then mkAdapter m' (db a) (numValuesInStorage a) (dbIsClosed a)
  else mkAdapter m' (db_remove k (db a)) (numValuesInStorage a - 1) (dbIsClosed a).

(** Clear purges the cacher only *)
Definition ad_Clear (a : adapter) : adapter :=
  mkAdapter (purge (mem a)) (db a) (numValuesInStorage a) (dbIsClosed a).

Definition ad_Len (a : adapter) : Z := Len (mem a) + numValuesInStorage a.
(** Keys: the cacher's keys; [if c.dbIsClosed { return storedKeys }]; else + db.RangeKeys *)
Definition ad_Keys (a : adapter) : list bytes :=
  if dbIsClosed a then Keys (mem a) else Keys (mem a) ++ map fst (db a).

(** HasOrAdd: [ok := c.Has(key); if ok { return true, false }; added := c.Put(...); return false, added]
    - the second flag is Put's return value (whether something was evicted), whatever its name says *)
Definition ad_HasOrAdd (a : adapter) (k v : bytes) (sz : Z) : adapter * (bool * bool) :=
  if ad_Has a k then (a, (true, false))
  else let '(a', added) := ad_Put a k v sz in (a', (false, added)).

(** Close: dbIsClosed = true; numValuesInStorage = 0; return c.db.Close() (memorydb: nil, nothing done) *)
Definition ad_Close (a : adapter) : adapter := mkAdapter (mem a) (db a) 0 true.

Definition ad_SizeInBytesContained (a : adapter) : Z := SizeInBytesContained (mem a).
(** MaxSize returns math.MaxInt64 *)
Definition ad_MaxSize (a : adapter) : Z := 9223372036854775807.

Inductive aop :=
| APut (k v : bytes) (sz : Z)
| AGet (k : bytes)
| AHas (k : bytes)
| APeek (k : bytes)
| ARemove (k : bytes)
| AClear
| AHasOrAdd (k v : bytes) (sz : Z)
| AClose
| ASizeInBytesContained
| AMaxSize.

Inductive aret := ARPut (spilled : bool) | ARGet (v : option bytes) | ARHas (b : bool) | ARPeek (v : option bytes) | ARNone
| ARHasOrAdd (has added : bool) | ARClose (* the error of db.Close(): always nil *) | ARSize (n : Z) | ARMaxSize (n : Z).

Definition astep (a : adapter) (o : aop) : adapter * aret :=
  match o with
  | APut k v sz => let '(a', f) := ad_Put a k v sz in (a', ARPut f)
  | AGet k => let '(a', r) := ad_Get a k in (a', ARGet r)
  | AHas k => (a, ARHas (ad_Has a k))
  | APeek k => (a, ARPeek (ad_Peek a k))
  | ARemove k => (ad_Remove a k, ARNone)
  | AClear => (ad_Clear a, ARNone)
  | AHasOrAdd k v sz => let '(a', (h, ad)) := ad_HasOrAdd a k v sz in (a', ARHasOrAdd h ad)
  | AClose => (ad_Close a, ARClose)
  | ASizeInBytesContained => (a, ARSize (ad_SizeInBytesContained a))
  | AMaxSize => (a, ARMaxSize (ad_MaxSize a))
  end.

Definition arun (a : adapter) (ops : list aop) : adapter :=
  fold_left (fun a o => fst (astep a o)) ops a.
