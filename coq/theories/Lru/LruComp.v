(** Wire-format wrapper of the lruCache model (component "lru", C15).
    config  kind cap maxBytes [ k1 k2 ... ]   kind 0 = NewCache(cap) (maxBytes ignored),
                                              kind 1 = NewCacheWithSizeInBytes(cap, maxBytes);
                                              the list is the key alphabet probed after every op
    op 1 key value size   Put        -> 1=evicted
    op 2 key value size   HasOrAdd   -> 2=has 3=added
    op 3 key              Get        -> 4=value 5=ok
    op 4 key              Peek       -> 6=value 7=ok
    op 5 key              Has        -> 8=has
    op 6 key              Remove
    op 7                  Clear
    op 8 id isnil         RegisterHandler (isnil=1: a nil func)
    op 9 id               UnRegisterHandler
    after EVERY op: 10=Keys() (exact order, oldest first) 11=Len() 12=SizeInBytesContained()
      13=[ [id key value] ... ] handler invocations started by the op, sorted
      14=[ Peek(k) for k in alphabet ] (- when absent) 15=[ Has(k) for k in alphabet ] *)
From Coq Require Import List NArith ZArith Bool.
From Verif Require Import Base.Generic Base.BStr Lru.LruTypes Lru.CapacityLru Lru.SimpleLru Lru.LruCache.
Import ListNotations.
Open Scope N_scope.

Definition lru_state := (lcache * list bytes)%type.

Definition lru_init (cfg : list garg) : option lru_state :=
  let kind := arg_N (nth_arg cfg 0) in
  let cap := arg_Z (nth_arg cfg 1) in
  let mb := arg_Z (nth_arg cfg 2) in
  let alpha := map arg_B (arg_L (nth_arg cfg 3)) in
  match (if kind =? 0 then newCache cap else newCacheWithSizeInBytes cap mb) with
  | Some c => Some (c, alpha)
  | None => None
  end.

Definition decode_op (code : N) (args : list garg) : option op :=
  let k := arg_B (nth_arg args 0) in
  let v := arg_B (nth_arg args 1) in
  let sz := arg_Z (nth_arg args 2) in
  match code with
  | 1 => Some (OpPut k v sz)
  | 2 => Some (OpHasOrAdd k v sz)
  | 3 => Some (OpGet k)
  | 4 => Some (OpPeek k)
  | 5 => Some (OpHas k)
  | 6 => Some (OpRemove k)
  | 7 => Some OpClear
  | 8 => Some (OpRegister k (arg_bool (nth_arg args 1)))
  | 9 => Some (OpUnRegister k)
  | _ => None
  end.

Definition g_opt_ok (o : option bytes) : garg := g_bool (match o with Some _ => true | None => false end).

Definition encode_ret (r : ret) : list obs :=
  match r with
  | RPut ev => [(1, g_bool ev)]
  | RHasOrAdd has added => [(2, g_bool has); (3, g_bool added)]
  | RGet v => [(4, g_optB v); (5, g_opt_ok v)]
  | RPeek v => [(6, g_optB v); (7, g_opt_ok v)]
  | RHas b => [(8, g_bool b)]
  | RNone => []
  end.

(** invocations of one op all carry the same key and value; sorting by id sorts the triples *)
Definition encode_invocations (l : list invocation) : garg :=
  match l with
  | [] => GL []
  | (_, k, v) :: _ => GL (map (fun id => GL [GB id; GB k; GB v]) (bsort (map (fun i => fst (fst i)) l)))
  end.

Definition probes (c : lcache) (alpha : list bytes) : list obs :=
  [ (10, g_listB (b_Keys (be c)));
    (11, GN (b_Len (be c)));
    (12, GN (b_SizeInBytesContained (be c))) ].

Definition lru_step (s : lru_state) (code : N) (args : list garg) : lru_state * list obs :=
  let '(c, alpha) := s in
  match decode_op code args with
  | None => (s, [])
  | Some o =>
      let '(c', r, inv) := step c o in
      ((c', alpha),
       encode_ret r ++ probes c' alpha ++
       [ (13, encode_invocations inv);
         (14, GL (map (fun k => g_optB (b_Peek (be c') k)) alpha));
         (15, GL (map (fun k => g_bool (b_Contains (be c') k)) alpha)) ])
  end.

Definition lru_component : component :=
  {| c_state := lru_state; c_init := lru_init; c_step := lru_step |}.
