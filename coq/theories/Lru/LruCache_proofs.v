(** C15 on the lruCache model: invariants, refinement of the reference LRU over whole histories,
    flags, byte accounting, the written entry stays, handlers. *)
From Coq Require Import List ZArith Bool Lia PeanoNat ZifyNat ZifyBool.
From Verif Require Import Base.BStr Lru.LruTypes Lru.LruSpec Lru.LruSpec_proofs
  Lru.CapacityLru Lru.CapacityLru_proofs Lru.SimpleLru Lru.SimpleLru_proofs Lru.LruCache.
Import ListNotations.
Open Scope Z_scope.

Definition lparams (c : lcache) : params :=
  match be c with BSimple s => sparams s | BCap cc => cparams cc end.
Definition labs (c : lcache) : list entry :=
  match be c with BSimple s => sabs s | BCap cc => cabs cc end.
Definition linv (c : lcache) : Prop :=
  match be c with BSimple s => sinv s | BCap cc => cinv cc end.

(** the constructors *)
Definition init_cache (sized : bool) (cap mb : Z) : option lcache :=
  if sized then newCacheWithSizeInBytes cap mb else newCache cap.
Definition spec_params (sized : bool) (cap mb : Z) : params :=
  mkParams sized cap (if sized then mb else 1).

Lemma init_linv sized cap mb c0 : init_cache sized cap mb = Some c0 ->
  linv c0 /\ lparams c0 = spec_params sized cap mb /\ labs c0 = [] /\ handlers c0 = [] /\ 1 <= cap /\ (sized = true -> 1 <= mb).
Proof.
  unfold init_cache, newCacheWithSizeInBytes, newCache, spec_params. destruct sized.
  - destruct (newCapacityLRU cap mb) as [cc|] eqn:E; [|discriminate]. intros H. inversion H; subst.
    destruct (new_cinv cap mb cc E) as [H1 [H2 H3]]. unfold linv, lparams, labs. cbn [be handlers].
    split; [exact H1|]. split; [exact H2|]. split; [exact H3|]. split; [reflexivity|].
    unfold newCapacityLRU in E. destruct (cap <? 1) eqn:E1; [discriminate|]. destruct (mb <? 1) eqn:E2; [discriminate|].
    split; [lia|intros _; lia].
  - destruct (newLRU cap) as [s|] eqn:E; [|discriminate]. intros H. inversion H; subst.
    destruct (new_sinv cap s E) as [H1 [H2 H3]]. unfold linv, lparams, labs. cbn [be handlers].
    split; [exact H1|]. split; [exact H2|]. split; [exact H3|]. split; [reflexivity|].
    unfold newLRU in E. destruct (cap <=? 0) eqn:E1; [discriminate|]. split; [lia|discriminate].
Qed.

(** ---- one step refines one step of the reference LRU *)
Lemma step_refines c o c' r inv : linv c -> step c o = (c', r, inv) ->
  linv c' /\ lparams c' = lparams c /\ (labs c', r) = sp_step (lparams c) (labs c) o.
Proof.
  intros Hi Hstep. destruct c as [b hs]. unfold linv, lparams, labs in *. cbn [be] in *.
  destruct o; cbn [step be handlers] in Hstep.
  - (* Put *)
    destruct b as [s|cc]; cbn [b_AddSized] in Hstep.
    + unfold a_AddSized in Hstep. destruct (s_Add s k v) as [s' ev] eqn:E. inversion Hstep; subst. cbn [be with_be].
      apply (s_Add_refines s k v sz s' ev Hi E).
    + destruct (AddSized cc k v sz) as [cc' ev] eqn:E. inversion Hstep; subst. cbn [be with_be].
      apply (AddSized_refines cc k v sz cc' ev Hi E).
  - (* HasOrAdd *)
    destruct b as [s|cc]; cbn [b_AddSizedIfMissing] in Hstep.
    + unfold a_AddSizedIfMissing in Hstep. destruct (s_ContainsOrAdd s k v) as [[s' has] ev] eqn:E.
      destruct (s_ContainsOrAdd_refines s k v sz s' has ev Hi E) as [H1 [H2 H3]].
      cbn [with_be be b_Contains] in Hstep. destruct has; cbn [negb andb] in H3.
      * inversion Hstep; subst. cbn [be]. auto.
      * destruct (s_Contains s' k); cbn [negb] in Hstep; inversion Hstep; subst; cbn [be]; auto.
    + destruct (AddSizedIfMissing cc k v sz) as [[cc' has] ev] eqn:E.
      destruct (AddSizedIfMissing_refines cc k v sz cc' has ev Hi E) as [H1 [H2 H3]].
      cbn [with_be be b_Contains] in Hstep. destruct has; cbn [negb andb] in H3.
      * inversion Hstep; subst. cbn [be]. auto.
      * destruct (Contains cc' k); cbn [negb] in Hstep; inversion Hstep; subst; cbn [be]; auto.
  - (* Get *)
    destruct b as [s|cc]; cbn [b_Get] in Hstep.
    + destruct (s_Get s k) as [s' r0] eqn:E. inversion Hstep; subst. cbn [be with_be]. apply (s_Get_refines s k s' r0 Hi E).
    + destruct (Get cc k) as [cc' r0] eqn:E. inversion Hstep; subst. cbn [be with_be]. apply (Get_refines cc k cc' r0 Hi E).
  - (* Peek *)
    inversion Hstep; subst. cbn [be sp_step]. split; [exact Hi|]. split; [reflexivity|].
    destruct b as [s|cc]; cbn [b_Peek]; [rewrite (s_Peek_refines s k Hi)|rewrite (Peek_refines cc k Hi)]; reflexivity.
  - (* Has *)
    inversion Hstep; subst. cbn [be sp_step]. split; [exact Hi|]. split; [reflexivity|].
    destruct b as [s|cc]; cbn [b_Contains]; [rewrite (s_Contains_refines s k Hi)|rewrite (Contains_refines cc k Hi)]; reflexivity.
  - (* Remove *)
    inversion Hstep; subst. cbn [be with_be sp_step]. destruct b as [s|cc]; cbn [b_Remove].
    + destruct (s_Remove_refines s k Hi) as [H1 [H2 H3]]. rewrite H3. auto.
    + destruct (Remove_refines cc k Hi) as [H1 [H2 H3]]. rewrite H3. auto.
  - (* Clear *)
    inversion Hstep; subst. cbn [be with_be sp_step]. destruct b as [s|cc]; cbn [b_Purge].
    + destruct (s_Purge_refines s Hi) as [H1 [H2 H3]]. rewrite H3. auto.
    + destruct (purge_refines cc Hi) as [H1 [H2 H3]]. rewrite H3. auto.
  - (* Register *)
    destruct isnil; inversion Hstep; subst; cbn [be sp_step]; auto.
  - (* UnRegister *)
    inversion Hstep; subst; cbn [be sp_step]; auto.
Qed.

(** ---- whole histories *)
Fixpoint outs (c : lcache) (ops : list op) : list ret :=
  match ops with
  | [] => []
  | o :: r => snd (fst (step c o)) :: outs (fst (fst (step c o))) r
  end.

Lemma run_cons c o ops : run c (o :: ops) = run (fst (fst (step c o))) ops.
Proof. reflexivity. Qed.

Lemma run_refines ops : forall c, linv c ->
  linv (run c ops) /\ lparams (run c ops) = lparams c /\
  labs (run c ops) = sp_run (lparams c) (labs c) ops /\ outs c ops = sp_outs (lparams c) (labs c) ops.
Proof.
  induction ops as [|o ops IH]; intros c Hi; [simpl; auto|].
  rewrite run_cons. cbn [sp_run sp_outs outs].
  destruct (step c o) as [[c' r] inv] eqn:E. cbn [fst snd].
  destruct (step_refines c o c' r inv Hi E) as [H1 [H2 H3]].
  destruct (IH c' H1) as [I1 [I2 [I3 I4]]].
  rewrite <- H3. cbn [fst snd]. rewrite <- H2. split; [exact I1|]. split; [rewrite I2, H2; reflexivity|]. split; [exact I3|].
  rewrite I4. reflexivity.
Qed.

Lemma cache_keys_abs c : cache_keys c = sp_keys (labs c).
Proof. unfold cache_keys, labs. destruct (be c); cbn [b_Keys]; [apply s_Keys_refines|apply Keys_refines]. Qed.

Lemma linv_sp_inv c : linv c -> valid (lparams c) /\ sp_inv (lparams c) (labs c).
Proof. unfold linv, lparams, labs. destruct (be c); [intros [H1 H2]; auto| intros [[_ [_ H1]] H2]; auto]. Qed.

(** C15_refines_lru *)
Theorem refines_lru sized cap mb c0 ops : init_cache sized cap mb = Some c0 ->
  let P := spec_params sized cap mb in
  let c := run c0 ops in
  outs c0 ops = sp_outs P [] ops /\
  cache_keys c = sp_keys (sp_run P [] ops) /\
  b_Len (be c) = Z.of_nat (length (sp_run P [] ops)) /\
  (forall k, b_Peek (be c) k = option_map e_val (sp_find k (sp_run P [] ops))) /\
  (forall k, b_Contains (be c) k = sp_has k (sp_run P [] ops)).
Proof.
  intros Hinit P c. destruct (init_linv sized cap mb c0 Hinit) as [Hi [Hp [Ha _]]].
  destruct (run_refines ops c0 Hi) as [R1 [R2 [R3 R4]]]. rewrite Hp, Ha in *. fold P in R3, R4. fold c in R1, R2, R3.
  split; [exact R4|]. split; [rewrite cache_keys_abs, R3; reflexivity|].
  rewrite <- R3. unfold linv, labs in *. destruct (be c) as [s|cc]; cbn [b_Len b_Peek b_Contains].
  - split; [apply s_Len_refines|]. split; intros k; [apply s_Peek_refines|apply s_Contains_refines]; exact R1.
  - split; [apply Len_refines|]. split; intros k; [apply Peek_refines|apply Contains_refines]; exact R1.
Qed.

(** C15_invariant, in the vocabulary of the model *)
Theorem invariant sized cap mb c0 ops : init_cache sized cap mb = Some c0 ->
  let c := run c0 ops in
  NoDup (cache_keys c) /\ 0 <= b_Len (be c) <= cap /\
  match be c with
  | BSimple s => s_size s = cap
  | BCap cc =>
      maxSize cc = cap /\ maxBytes cc = mb /\ stuck cc = false /\
      curBytes cc = sum_sizes (entries cc) /\
      Forall (fun e => 0 <= e_size e) (entries cc) /\
      (curBytes cc <= mb \/ Len cc <= 1)
  end.
Proof.
  intros Hinit c. destruct (init_linv sized cap mb c0 Hinit) as [Hi [Hp [Ha _]]].
  destruct (run_refines ops c0 Hi) as [R1 [R2 _]]. fold c in R1, R2. rewrite Hp in R2.
  destruct (linv_sp_inv c R1) as [Hv [Hd [Hs [Hlen Hb]]]].
  split; [rewrite cache_keys_abs; exact Hd|].
  unfold linv, lparams, labs, spec_params in *. destruct (be c) as [s|cc]; cbn [b_Len].
  - rewrite s_Len_refines. inversion R2. cbn [p_cap sparams] in Hlen. split; [lia|reflexivity].
  - rewrite Len_refines. inversion R2. cbn [p_cap cparams] in Hlen. split; [lia|].
    destruct R1 as [[Hcb [Hst _]] _]. repeat split; auto.
    + unfold cabs in Hs. unfold sizes_ok in Hs. rewrite Forall_forall in Hs. apply Forall_forall. intros e He.
      apply Hs. rewrite <- in_rev. exact He.
    + rewrite (bytes_refines cc (conj (conj Hcb (conj Hst Hv)) (conj Hd (conj Hs (conj Hlen Hb))))).
      cbn [p_mb cparams] in Hb. destruct Hb as [Hb|Hb]; [left; exact Hb|right; lia].
Qed.

(** C15_bytes *)
Theorem bytes_exact cap mb c0 ops : init_cache true cap mb = Some c0 ->
  let P := spec_params true cap mb in
  let c := run c0 ops in
  0 <= sum_sizes (sp_run P [] ops) /\
  b_SizeInBytesContained (be c) = sum_sizes (sp_run P [] ops) mod 18446744073709551616.
Proof.
  intros Hinit P c. destruct (init_linv true cap mb c0 Hinit) as [Hi [Hp [Ha _]]].
  destruct (run_refines ops c0 Hi) as [R1 [R2 [R3 _]]]. rewrite Hp, Ha in *. fold P in R3. fold c in R1, R2, R3.
  destruct (linv_sp_inv c R1) as [Hv [Hd [Hs _]]]. rewrite <- R3.
  split; [apply (sum_nonneg (lparams c)); exact Hs|].
  unfold linv, lparams, labs, spec_params in *. destruct (be c) as [s|cc].
  - inversion R2.
  - cbn [b_SizeInBytesContained]. unfold SizeInBytesContained. rewrite (bytes_refines cc R1). reflexivity.
Qed.

(** ---- flags *)
Section Reach.
Variables (sized : bool) (cap mb : Z) (c0 : lcache) (ops : list op).
Hypothesis Hinit : init_cache sized cap mb = Some c0.
Let c := run c0 ops.

Lemma reach_linv : linv c /\ lparams c = spec_params sized cap mb.
Proof.
  destruct (init_linv sized cap mb c0 Hinit) as [Hi [Hp _]].
  destruct (run_refines ops c0 Hi) as [R1 [R2 _]]. split; [exact R1|]. rewrite <- Hp. exact R2.
Qed.

(** Put returns true iff some resident of before is no longer resident after *)
Theorem put_flag k v sz c' ev inv : step c (OpPut k v sz) = (c', RPut ev, inv) ->
  (ev = true <-> exists k', In k' (cache_keys c) /\ ~ In k' (cache_keys c')).
Proof.
  intros Hstep. destruct reach_linv as [Hi Hp].
  destruct (step_refines c _ c' _ inv Hi Hstep) as [H1 [H2 H3]].
  destruct (linv_sp_inv c Hi) as [Hv Hs]. rewrite !cache_keys_abs.
  apply (sp_put_flag (lparams c) k v sz (labs c) (labs c') ev Hs). symmetry. exact H3.
Qed.

(** HasOrAdd: has iff resident before; added iff not resident before and resident after;
    when nothing was added nothing changed *)
Theorem hasoradd_flags k v sz c' has added inv : step c (OpHasOrAdd k v sz) = (c', RHasOrAdd has added, inv) ->
  (has = true <-> In k (cache_keys c)) /\
  (added = true <-> ~ In k (cache_keys c) /\ In k (cache_keys c')) /\
  (added = false -> cache_keys c' = cache_keys c /\ forall k', b_Peek (be c') k' = b_Peek (be c) k').
Proof.
  intros Hstep. destruct reach_linv as [Hi Hp].
  destruct (step_refines c _ c' _ inv Hi Hstep) as [H1 [H2 H3]].
  rewrite !cache_keys_abs.
  destruct (sp_hasoradd_flags (lparams c) k v sz (labs c) (labs c') has added (eq_sym H3)) as [F1 [F2 F3]].
  split; [exact F1|]. split; [exact F2|]. intros Ha. specialize (F3 Ha). split; [rewrite F3; reflexivity|].
  intros k'. assert (Hpk : forall x, linv x -> b_Peek (be x) k' = option_map e_val (sp_find k' (labs x))).
  { intros x Hx. unfold linv, labs in *. destruct (be x); cbn [b_Peek]; [apply s_Peek_refines|apply Peek_refines]; exact Hx. }
  rewrite (Hpk c' H1), (Hpk c Hi), F3. reflexivity.
Qed.

(** a write that is not rejected: only least recently used entries leave (the part [p] of the previous
    Keys without k), the written key is the most recently used one and is served with the written value *)
Theorem write_shape k v sz c' ev inv : rejected (spec_params sized cap mb) sz = false ->
  step c (OpPut k v sz) = (c', RPut ev, inv) ->
  exists p q, filter (fun x => negb (beqb x k)) (cache_keys c) = p ++ q /\ cache_keys c' = q ++ [k] /\
              (ev = true <-> p <> []) /\ b_Peek (be c') k = Some v.
Proof.
  intros Hr Hstep. destruct reach_linv as [Hi Hp].
  destruct (step_refines c _ c' _ inv Hi Hstep) as [H1 [H2 H3]]. rewrite Hp in H3.
  destruct (sp_put_shape _ k v sz (labs c) (labs c') ev Hr (eq_sym H3)) as [p [q [S1 [S2 S3]]]].
  exists (keys p), (keys q). rewrite !cache_keys_abs. unfold sp_keys. fold (keys (labs c)). rewrite <- keys_del, S1, S2.
  unfold keys. rewrite !map_app. simpl. split; [reflexivity|]. split; [reflexivity|]. split.
  - rewrite S3. destruct p; simpl; split; intros; congruence.
  - assert (Hpk : b_Peek (be c') k = option_map e_val (sp_find k (labs c'))).
    { unfold linv, labs in *. destruct (be c'); cbn [b_Peek]; [apply s_Peek_refines|apply Peek_refines]; exact H1. }
    rewrite Hpk, S2. unfold sp_find. rewrite find_app.
    destruct (linv_sp_inv c' H1) as [_ [Hd _]]. rewrite S2 in Hd. unfold keys in Hd. rewrite map_app in Hd. simpl in Hd.
    destruct (find (is_key k) q) as [e|] eqn:Ef.
    + apply find_some in Ef. destruct Ef as [E1 E2]. apply is_key_true in E2. exfalso.
      apply NoDup_remove_2 in Hd. apply Hd. rewrite app_nil_r. rewrite <- E2. apply in_map. exact E1.
    + simpl. unfold is_key. simpl. rewrite beqb_refl. reflexivity.
Qed.

Theorem hasoradd_inserted k v sz c' inv : step c (OpHasOrAdd k v sz) = (c', RHasOrAdd false true, inv) ->
  exists p q, cache_keys c = p ++ q /\ cache_keys c' = q ++ [k] /\ b_Peek (be c') k = Some v.
Proof.
  intros Hstep. destruct reach_linv as [Hi Hp].
  destruct (step_refines c _ c' _ inv Hi Hstep) as [H1 [H2 H3]].
  cbn [sp_step] in H3. destruct (sp_has k (labs c)) eqn:Eh; [inversion H3|].
  destruct (rejected (lparams c) sz); [inversion H3|].
  destruct (sp_write_shape (lparams c) k v sz (labs c)) as [p [q [S1 [S2 _]]]].
  inversion H3 as [H4]. unfold sp_write in S2. cbn [fst] in S2. rewrite S2 in H4. apply sp_has_false in Eh. rewrite (sp_del_absent k _ Eh) in S1.
  exists (keys p), (keys q). rewrite !cache_keys_abs. unfold sp_keys. fold (keys (labs c)). rewrite S1, H4.
  unfold keys. rewrite !map_app. simpl. split; [reflexivity|]. split; [reflexivity|].
  assert (Hpk : b_Peek (be c') k = option_map e_val (sp_find k (labs c'))).
  { unfold linv, labs in *. destruct (be c'); cbn [b_Peek]; [apply s_Peek_refines|apply Peek_refines]; exact H1. }
  rewrite Hpk, H4. unfold sp_find. rewrite find_app.
  destruct (find (is_key k) q) as [e|] eqn:Ef.
  - apply find_some in Ef. destruct Ef as [E1 E2]. apply is_key_true in E2. exfalso. apply Eh. rewrite S1.
    unfold keys. rewrite map_app, in_app_iff. right. rewrite <- E2. apply in_map. exact E1.
  - simpl. unfold is_key. simpl. rewrite beqb_refl. reflexivity.
Qed.

(** ---- handlers *)
Definition inv_for (hs : list bytes) (k v : bytes) : list invocation := map (fun id => (id, k, v)) hs.

Lemma handlers_registered_gen l : forall (cx : lcache) (f : bytes -> bool),
  NoDup (handlers cx) -> (forall id, In id (handlers cx) <-> f id = true) ->
  NoDup (handlers (run cx l)) /\ (forall id, In id (handlers (run cx l)) <-> fold_left reg_step l f id = true).
Proof.
  induction l as [|o l IH]; intros cx f Hd Hf; [split; assumption|].
  rewrite run_cons. cbn [fold_left]. apply IH.
  - destruct o; cbn [step]; try (destruct (b_AddSized _ _ _ _)); try (destruct (b_AddSizedIfMissing _ _ _ _) as [[? ?] ?]);
      try (destruct (b_Get _ _)); cbn [fst handlers with_be]; try exact Hd.
    + destruct b0; [|destruct (negb _)]; cbn [fst handlers with_be]; exact Hd.
    + destruct isnil; cbn [fst handlers]; [exact Hd|]. destruct (mem_id id (handlers cx)) eqn:Em; [exact Hd|].
      constructor; [|exact Hd]. intros Hin. unfold mem_id in Em. assert (existsb (beqb id) (handlers cx) = true); [|congruence].
      apply existsb_exists. exists id. split; [exact Hin|apply beqb_refl].
    + unfold del_id. apply nodup_filter. exact Hd.
  - intros id0. destruct o; cbn [step reg_step]; try (destruct (b_AddSized _ _ _ _)); try (destruct (b_AddSizedIfMissing _ _ _ _) as [[? ?] ?]);
      try (destruct (b_Get _ _)); cbn [fst handlers with_be]; try apply Hf.
    + destruct b0; [|destruct (negb _)]; cbn [fst handlers with_be]; apply Hf.
    + destruct isnil; cbn [fst handlers]; [apply Hf|].
      destruct (beqb_spec id id0) as [->|Hne].
      * split; [reflexivity|]. intros _. destruct (mem_id id0 (handlers cx)) eqn:Em; [|left; reflexivity].
        unfold mem_id in Em. apply existsb_exists in Em. destruct Em as [x [Hx1 Hx2]]. apply beqb_eq in Hx2. subst. exact Hx1.
      * destruct (mem_id id (handlers cx)); [apply Hf|]. simpl. rewrite <- Hf. split; [intros [H|H]; [contradiction|exact H]|auto].
    + unfold del_id. rewrite filter_In. destruct (beqb_spec id id0) as [->|Hne].
      * simpl. split; [intros [_ H]; discriminate|discriminate].
      * rewrite <- Hf. simpl. tauto.
Qed.

(** the registered handlers of a reachable state are exactly those the history registered *)
Theorem handlers_registered : NoDup (handlers c) /\ forall id, In id (handlers c) <-> registered ops id = true.
Proof.
  destruct (init_linv sized cap mb c0 Hinit) as [_ [_ [_ [Hh _]]]].
  apply handlers_registered_gen; rewrite Hh; [constructor|]. intros id. split; [intros []|discriminate].
Qed.

(** every successful insertion starts exactly one invocation per registered handler, with the inserted
    key and value; reads, removals and (un)registrations start none; HasOrAdd that did not add starts none *)
Theorem handler_invocations o c' r inv : step c o = (c', r, inv) ->
  match o, r with
  | OpPut k v _, _ => inv = inv_for (handlers c) k v
  | OpHasOrAdd k v _, RHasOrAdd _ true => inv = inv_for (handlers c) k v
  | _, _ => inv = []
  end.
Proof.
  intros Hstep. destruct o; cbn [step] in Hstep.
  - destruct (b_AddSized (be c) k v sz). inversion Hstep; subst. reflexivity.
  - destruct (b_AddSizedIfMissing (be c) k v sz) as [[b' has] ev]. destruct has; [inversion Hstep; subst; reflexivity|].
    destruct (negb (b_Contains b' k)); inversion Hstep; subst; reflexivity.
  - destruct (b_Get (be c) k). inversion Hstep; subst. reflexivity.
  - inversion Hstep; subst. reflexivity.
  - inversion Hstep; subst. reflexivity.
  - inversion Hstep; subst. reflexivity.
  - inversion Hstep; subst. reflexivity.
  - destruct isnil; inversion Hstep; subst; reflexivity.
  - inversion Hstep; subst. reflexivity.
Qed.

End Reach.
