(** Operational model of lrucache/capacity/capacityLRUCache.go (C15, C17).
    Definitions only.  Transcribed function by function from the Go code as it is now
    (after the F8 fix: adjustSize no longer evicts; after the F9 fix: AddSizedIfMissing
    tests existence first).

    evictList (container/list, front = most recently used) + items (map key -> element)
    become ONE list of entries, front = MRU; items[key] is the lookup of the first entry
    with that key (the NoDup-keys invariant is proved, not assumed).
    currentCapacityInBytes is a SEPARATE counter, as in the code. *)
From Coq Require Import List ZArith NArith Bool.
From Verif Require Import Base.BStr Lru.LruTypes.
Import ListNotations.
Open Scope Z_scope.

Record clru := mkClru {
  entries  : list entry;  (* evictList + items; front = most recently used *)
  maxSize  : Z;           (* size (int) *)
  maxBytes : Z;           (* maxCapacityInBytes (int64) *)
  curBytes : Z;           (* currentCapacityInBytes (int64), maintained separately *)
  stuck    : bool         (* the model's eviction loop ran out of fuel = the Go loop would not terminate *)
}.

Definition with_entries (c : clru) (l : list entry) : clru :=
  mkClru l (maxSize c) (maxBytes c) (curBytes c) (stuck c).
Definition with_bytes (c : clru) (b : Z) : clru :=
  mkClru (entries c) (maxSize c) (maxBytes c) b (stuck c).
Definition set_stuck (c : clru) : clru :=
  mkClru (entries c) (maxSize c) (maxBytes c) (curBytes c) true.

(** NewCapacityLRU *)
Definition newCapacityLRU (size byteCapacity : Z) : option clru :=
  if size <? 1 then None
  else if byteCapacity <? 1 then None
  else Some (mkClru [] size byteCapacity 0 false).

(** items[key] *)
Fixpoint lookup (k : bytes) (l : list entry) : option entry :=
  match l with
  | [] => None
  | e :: r => if beqb (e_key e) k then Some e else lookup k r
  end.

(** evictList.Remove(items[key]) + delete(items, key) *)
Fixpoint remove_first (k : bytes) (l : list entry) : list entry :=
  match l with
  | [] => []
  | e :: r => if beqb (e_key e) k then r else e :: remove_first k r
  end.

(** v := items[key].Value; v.size = sz *)
Fixpoint set_size (k : bytes) (sz : Z) (l : list entry) : list entry :=
  match l with
  | [] => []
  | e :: r => if beqb (e_key e) k then mkEntry (e_key e) (e_val e) sz :: r else e :: set_size k sz r
  end.

(** evictList.Back() *)
Definition last_entry (l : list entry) : option entry :=
  match rev l with [] => None | e :: _ => Some e end.

(** Purge *)
Definition purge (c : clru) : clru := with_bytes (with_entries c []) 0.

(** addNew: PushFront, items[key] = e, currentCapacityInBytes += size *)
Definition addNew (c : clru) (k v : bytes) (sz : Z) : clru :=
  with_bytes (with_entries c (mkEntry k v sz :: entries c)) (curBytes c + sz).

(** adjustSize (post-F8: no eviction here) *)
Definition adjustSize (c : clru) (k : bytes) (sz : Z) : clru :=
  match lookup k (entries c) with
  | None => c
  | Some v =>
      let c1 := with_bytes c (curBytes c - e_size v) in
      let c2 := with_entries c1 (set_size k sz (entries c1)) in
      with_bytes c2 (curBytes c2 + sz)
  end.

(** update: MoveToFront, e.value = value, e.size = sz, cur += sizeDiff, adjustSize *)
Definition update (c : clru) (k v : bytes) (sz : Z) (ent : entry) : clru :=
  let sizeDiff := sz - e_size ent in
  let c1 := with_entries c (mkEntry (e_key ent) v sz :: remove_first k (entries c)) in
  let c2 := with_bytes c1 (curBytes c1 + sizeDiff) in
  adjustSize c2 k sz.

(** addSized *)
Definition addSized (c : clru) (k v : bytes) (sz : Z) : clru :=
  if sz <? 0 then c
  else match lookup k (entries c) with
       | Some ent => update c k v sz ent
       | None => addNew c k v sz
       end.

(** shouldEvict *)
Definition shouldEvict (c : clru) : bool :=
  if Nat.eqb (length (entries c)) 1 then false
  else (Z.of_nat (length (entries c)) >? maxSize c) || (curBytes c >? maxBytes c).

(** removeElement applied to evictList.Back() *)
Definition removeBack (c : clru) (e : entry) : clru :=
  with_bytes (with_entries c (removelast (entries c))) (curBytes c - e_size e).

(** removeOldest *)
Definition removeOldest (c : clru) : clru :=
  match last_entry (entries c) with
  | None => c
  | Some e => removeBack c e
  end.

(** evictIfNeeded: for c.shouldEvict() { c.removeOldest(); evicted = true } *)
Fixpoint evictLoop (fuel : nat) (c : clru) (evicted : bool) : clru * bool :=
  match fuel with
  | O => (set_stuck c, evicted)
  | S f => if shouldEvict c then evictLoop f (removeOldest c) true else (c, evicted)
  end.
Definition evictIfNeeded (c : clru) : clru * bool :=
  evictLoop (S (length (entries c))) c false.

(** AddSized *)
Definition AddSized (c : clru) (k v : bytes) (sz : Z) : clru * bool :=
  evictIfNeeded (addSized c k v sz).

(** the loop of AddSizedAndReturnEvicted; evictedValues (a Go map) is the list of victims in
    eviction order (their keys are pairwise different: lemma) *)
Fixpoint evictCollect (fuel : nat) (c : clru) (acc : list (bytes * bytes)) : clru * list (bytes * bytes) :=
  match fuel with
  | O => (set_stuck c, acc)
  | S f =>
      if shouldEvict c then
        match last_entry (entries c) with
        | None => evictCollect f c acc
        | Some e => evictCollect f (removeBack c e) (acc ++ [(e_key e, e_val e)])
        end
      else (c, acc)
  end.
Definition AddSizedAndReturnEvicted (c : clru) (k v : bytes) (sz : Z) : clru * list (bytes * bytes) :=
  let c1 := addSized c k v sz in
  evictCollect (S (length (entries c1))) c1 [].

(** Get: MoveToFront + value *)
Definition Get (c : clru) (k : bytes) : clru * option bytes :=
  match lookup k (entries c) with
  | Some ent => (with_entries c (ent :: remove_first k (entries c)), Some (e_val ent))
  | None => (c, None)
  end.

Definition Contains (c : clru) (k : bytes) : bool :=
  match lookup k (entries c) with Some _ => true | None => false end.

(** AddSizedIfMissing (post-F9: existence first, then the size test) *)
Definition AddSizedIfMissing (c : clru) (k v : bytes) (sz : Z) : clru * bool * bool :=
  match lookup k (entries c) with
  | Some _ => (c, true, false)
  | None =>
      if sz <? 0 then (c, false, false)
      else let '(c', evicted) := evictIfNeeded (addNew c k v sz) in (c', false, evicted)
  end.

Definition Peek (c : clru) (k : bytes) : option bytes :=
  match lookup k (entries c) with Some ent => Some (e_val ent) | None => None end.

(** Remove: removeElement(items[key]) *)
Definition Remove (c : clru) (k : bytes) : clru * bool :=
  match lookup k (entries c) with
  | Some ent => (with_bytes (with_entries c (remove_first k (entries c))) (curBytes c - e_size ent), true)
  | None => (c, false)
  end.

(** Keys: from Back to Front *)
Definition Keys (c : clru) : list bytes := rev (map e_key (entries c)).
Definition Len (c : clru) : Z := Z.of_nat (length (entries c)).
(** SizeInBytesContained: uint64(currentCapacityInBytes) *)
Definition SizeInBytesContained (c : clru) : Z := curBytes c mod 18446744073709551616.
