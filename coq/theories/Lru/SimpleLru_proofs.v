(** The hashicorp LRU model (behind simpleLRUCacheAdapter) refines the reference LRU, unsized variant. *)
From Coq Require Import List ZArith Bool Lia PeanoNat ZifyNat ZifyBool.
From Verif Require Import Base.BStr Lru.LruTypes Lru.LruSpec Lru.LruSpec_proofs Lru.CapacityLru Lru.CapacityLru_proofs Lru.SimpleLru.
Import ListNotations.
Open Scope Z_scope.

Definition ent0 (kv : bytes * bytes) : entry := mkEntry (fst kv) (snd kv) 0.
Definition to_entries (l : list (bytes * bytes)) : list entry := map ent0 l.

Definition sparams (c : slru) : params := mkParams false (s_size c) 1.
Definition sabs (c : slru) : list entry := rev (to_entries (s_entries c)).
Definition sinv (c : slru) : Prop := valid (sparams c) /\ sp_inv (sparams c) (sabs c).

Lemma s_lookup_entries k l : s_lookup k l = option_map e_val (lookup k (to_entries l)).
Proof. induction l as [|[k' v] l IH]; simpl; [reflexivity|]. destruct (beqb k' k); [reflexivity|exact IH]. Qed.

Lemma s_remove_entries k l : to_entries (s_remove_first k l) = remove_first k (to_entries l).
Proof. induction l as [|[k' v] l IH]; simpl; [reflexivity|]. destruct (beqb k' k); [reflexivity|]. simpl. f_equal. exact IH. Qed.

Lemma over_unsized P l : p_sized P = false -> over P l = (Z.of_nat (length l) >? p_cap P).
Proof. intros H. unfold over. rewrite H. simpl. apply orb_false_r. Qed.

Lemma sinv_of c c' o : sinv c -> sparams c' = sparams c -> sabs c' = fst (sp_step (sparams c) (sabs c) o) -> sinv c'.
Proof. intros [Hv Hi] Hp Ha. split; rewrite Hp; [exact Hv|]. rewrite Ha. apply sp_step_inv; assumption. Qed.

Lemma s_nodup c : sinv c -> NoDup (keys (to_entries (s_entries c))).
Proof. intros [_ [Hd _]]. apply (proj1 (nodup_keys_rev _)). exact Hd. Qed.

Lemma s_Add_refines c k v sz c' ev : sinv c -> s_Add c k v = (c', ev) ->
  sinv c' /\ sparams c' = sparams c /\ (sabs c', RPut ev) = sp_step (sparams c) (sabs c) (OpPut k v sz).
Proof.
  intros Hi Hstep. pose proof (s_nodup c Hi) as Hd. pose proof Hi as [[Hv1 Hv2] [Hd0 [Hs [Hlen Hb]]]].
  assert (G : sparams c' = sparams c /\ (sabs c', RPut ev) = sp_step (sparams c) (sabs c) (OpPut k v sz)).
  { cbn [sp_step]. unfold rejected. cbn [p_sized sparams andb]. unfold sp_write, norm_size. cbn [p_sized sparams].
    unfold s_Add in Hstep. rewrite s_lookup_entries in Hstep.
    destruct (lookup k (to_entries (s_entries c))) as [ent|] eqn:El; simpl option_map in Hstep.
    - (* present: moved to the front, no eviction *)
      inversion Hstep; subst. split; [destruct c; reflexivity|].
      assert (Ha : sabs (s_with c ((k, v) :: s_remove_first k (s_entries c))) = sp_del k (sabs c) ++ [mkEntry k v 0]).
      { unfold sabs. destruct c as [l sz0]. simpl in Hd |- *. rewrite s_remove_entries, (remove_first_del k _ Hd), del_rev. reflexivity. }
      rewrite Ha.
      assert (Hin : In k (keys (sabs c))).
      { unfold sabs. rewrite in_keys_rev. apply lookup_some in El. destruct El as [E1 E2]. rewrite <- E2. apply in_map. exact E1. }
      pose proof (length_del_present k (sabs c) Hd0 Hin) as Hl.
      rewrite sp_evict_id; [rewrite Nat.ltb_irrefl; reflexivity|].
      right. rewrite over_unsized by reflexivity. rewrite app_length. simpl. cbn [p_cap sparams] in *. lia.
    - (* absent *)
      apply lookup_none in El.
      assert (Hdel : sp_del k (sabs c) = sabs c) by (apply sp_del_absent; unfold sabs; rewrite in_keys_rev; exact El).
      rewrite Hdel. cbn [p_cap sparams] in *.
      assert (Hlen' : length (sabs c) = length (s_entries c)) by (unfold sabs, to_entries; rewrite rev_length, map_length; reflexivity).
      destruct (Z.of_nat (length ((k, v) :: s_entries c)) >? s_size c) eqn:Ev; injection Hstep as <- <-.
      + split; [destruct c; reflexivity|].
        destruct (sabs c) as [|y r] eqn:Es; [simpl in *; lia|].
        assert (Hl : to_entries (s_entries c) = rev r ++ [y]).
        { unfold sabs in Es. rewrite <- (rev_involutive (to_entries (s_entries c))), Es. reflexivity. }
        assert (Ha : sabs (s_with c (removelast ((k, v) :: s_entries c))) = r ++ [mkEntry k v 0]).
        { unfold sabs. destruct c as [l sz0]. simpl s_entries in *. simpl s_with.
          destruct l as [|p l']; [simpl in Hl; destruct (rev r); discriminate|].
          change (removelast ((k, v) :: p :: l')) with ((k, v) :: removelast (p :: l')).
          unfold to_entries in *. rewrite map_cons.
          assert (Hrl : map ent0 (removelast (p :: l')) = rev r).
          { rewrite <- (removelast_last (rev r) y), <- Hl. clear. generalize (p :: l'). intros l.
            induction l as [|a l IH]; [reflexivity|]. destruct l as [|b l]; [reflexivity|].
            change (removelast (a :: b :: l)) with (a :: removelast (b :: l)). rewrite !map_cons. rewrite IH. reflexivity. }
          rewrite Hrl. simpl. rewrite rev_involutive. reflexivity. }
        change (match s_entries c with [] => [] | _ :: _ => (k, v) :: removelast (s_entries c) end) with (removelast ((k, v) :: s_entries c)).
        rewrite Ha. change ((y :: r) ++ [mkEntry k v 0]) with (y :: (r ++ [mkEntry k v 0])).
        destruct (r ++ [mkEntry k v 0]) as [|z r2] eqn:Er; [destruct r; discriminate|].
        assert (Hov : over (sparams c) (y :: z :: r2) = true).
        { rewrite over_unsized by reflexivity. cbn [p_cap sparams]. rewrite <- Er. simpl length in *. rewrite app_length. simpl. simpl in Ev. lia. }
        assert (Hev : sp_evict (sparams c) (y :: z :: r2) = sp_evict (sparams c) (z :: r2)) by (cbn [sp_evict]; rewrite Hov; reflexivity).
        rewrite Hev. rewrite sp_evict_id.
        * replace (Nat.ltb (length (z :: r2)) (length (y :: z :: r2))) with true by (symmetry; apply Nat.ltb_lt; simpl; lia). reflexivity.
        * right. rewrite over_unsized by reflexivity. cbn [p_cap sparams]. rewrite <- Er. rewrite app_length. simpl in *. lia.
      + split; [destruct c; reflexivity|].
        assert (Ha : sabs (s_with c ((k, v) :: s_entries c)) = sabs c ++ [mkEntry k v 0]) by (unfold sabs; destruct c; reflexivity).
        rewrite Ha. rewrite sp_evict_id; [rewrite Nat.ltb_irrefl; reflexivity|].
        right. rewrite over_unsized by reflexivity. cbn [p_cap sparams]. rewrite app_length. simpl in *. lia. }
  destruct G as [G1 G2]. split; [|split; assumption].
  apply (sinv_of c c' (OpPut k v sz) Hi G1). rewrite <- G2. reflexivity.
Qed.

Lemma s_Contains_refines c k : sinv c -> s_Contains c k = sp_has k (sabs c).
Proof.
  intros Hi. pose proof (s_nodup c Hi) as Hd. unfold s_Contains. rewrite s_lookup_entries, sp_find_has.
  unfold sabs. rewrite (find_rev k _ Hd). destruct (lookup k (to_entries (s_entries c))); reflexivity.
Qed.

Lemma s_Peek_refines c k : sinv c -> s_Peek c k = option_map e_val (sp_find k (sabs c)).
Proof.
  intros Hi. pose proof (s_nodup c Hi) as Hd. unfold s_Peek. rewrite s_lookup_entries.
  unfold sabs. rewrite (find_rev k _ Hd). reflexivity.
Qed.

Lemma s_ContainsOrAdd_refines c k v sz c' has ev : sinv c -> s_ContainsOrAdd c k v = (c', has, ev) ->
  sinv c' /\ sparams c' = sparams c /\
  (sabs c', RHasOrAdd has (negb has && s_Contains c' k)) = sp_step (sparams c) (sabs c) (OpHasOrAdd k v sz).
Proof.
  intros Hi Hstep. unfold s_ContainsOrAdd in Hstep. cbn [sp_step].
  rewrite <- (s_Contains_refines c k Hi). destruct (s_Contains c k) eqn:Ec.
  - inversion Hstep; subst. split; [exact Hi|]. split; reflexivity.
  - destruct (s_Add c k v) as [c1 ev1] eqn:Ea. inversion Hstep; subst.
    destruct (s_Add_refines c k v sz c' ev Hi Ea) as [Hi' [Hp Hr]].
    unfold rejected. cbn [p_sized sparams andb]. split; [exact Hi'|]. split; [exact Hp|].
    cbn [sp_step] in Hr. unfold rejected in Hr. cbn [p_sized sparams andb] in Hr.
    destruct (sp_write (sparams c) k v sz (sabs c)) as [l2 e2] eqn:Ew. inversion Hr; subst. cbn [fst].
    rewrite (s_Contains_refines c' k Hi').
    assert (Hin : sp_has k (sabs c') = true).
    { apply sp_has_in. destruct (sp_write_shape (sparams c) k v sz (sabs c)) as [p [q [_ [Hq _]]]].
      rewrite Ew in Hq. cbn [fst] in Hq. rewrite Hq. unfold keys. rewrite map_app, in_app_iff. right. left. reflexivity. }
    rewrite Hin. reflexivity.
Qed.

Lemma s_Get_refines c k c' r : sinv c -> s_Get c k = (c', r) ->
  sinv c' /\ sparams c' = sparams c /\ (sabs c', RGet r) = sp_step (sparams c) (sabs c) (OpGet k).
Proof.
  intros Hi Hstep. pose proof (s_nodup c Hi) as Hd.
  assert (G : sparams c' = sparams c /\ (sabs c', RGet r) = sp_step (sparams c) (sabs c) (OpGet k)).
  { cbn [sp_step]. unfold sabs at 2. rewrite (find_rev k _ Hd). unfold s_Get in Hstep. rewrite s_lookup_entries in Hstep.
    destruct (lookup k (to_entries (s_entries c))) as [ent|] eqn:El; simpl option_map in Hstep; inversion Hstep; subst.
    - split; [destruct c; reflexivity|].
      assert (He : ent = mkEntry k (e_val ent) 0).
      { pose proof (lookup_some _ _ _ El) as [Hin Hk]. unfold to_entries in Hin. apply in_map_iff in Hin.
        destruct Hin as [[k0 v0] [Hx _]]. subst ent. simpl in *. subst. reflexivity. }
      unfold sabs. destruct c as [l sz0]. simpl in Hd |- *. rewrite s_remove_entries, (remove_first_del k _ Hd), del_rev.
      unfold ent0. cbn [fst snd]. rewrite <- He. reflexivity.
    - split; reflexivity. }
  destruct G as [G1 G2]. split; [|split; assumption].
  apply (sinv_of c c' (OpGet k) Hi G1). rewrite <- G2. reflexivity.
Qed.

Lemma s_Remove_refines c k : sinv c ->
  sinv (fst (s_Remove c k)) /\ sparams (fst (s_Remove c k)) = sparams c /\ sabs (fst (s_Remove c k)) = sp_del k (sabs c).
Proof.
  intros Hi. pose proof (s_nodup c Hi) as Hd.
  assert (G : sparams (fst (s_Remove c k)) = sparams c /\ sabs (fst (s_Remove c k)) = sp_del k (sabs c)).
  { unfold s_Remove. rewrite s_lookup_entries.
    destruct (lookup k (to_entries (s_entries c))) as [ent|] eqn:El; simpl option_map; cbn [fst].
    - split; [destruct c; reflexivity|]. unfold sabs. destruct c as [l sz0]. simpl in Hd |- *.
      rewrite s_remove_entries, (remove_first_del k _ Hd), del_rev. reflexivity.
    - split; [reflexivity|]. apply lookup_none in El. rewrite sp_del_absent; [reflexivity|].
      unfold sabs. rewrite in_keys_rev. exact El. }
  destruct G as [G1 G2]. split; [|split; assumption].
  apply (sinv_of c _ (OpRemove k) Hi G1). rewrite G2. reflexivity.
Qed.

Lemma s_Purge_refines c : sinv c -> sinv (s_Purge c) /\ sparams (s_Purge c) = sparams c /\ sabs (s_Purge c) = [].
Proof.
  intros Hi. split; [|split; destruct c; reflexivity].
  apply (sinv_of c _ OpClear Hi); destruct c; reflexivity.
Qed.

Lemma new_sinv size c : newLRU size = Some c -> sinv c /\ sparams c = mkParams false size 1 /\ sabs c = [].
Proof.
  unfold newLRU. destruct (size <=? 0) eqn:E; [discriminate|]. intros H. inversion H; subst.
  unfold sinv, sabs, sparams, valid. simpl. split; [|split; reflexivity]. split; [lia|].
  apply sp_inv_nil. unfold valid. simpl. lia.
Qed.

Lemma s_Keys_refines c : s_Keys c = sp_keys (sabs c).
Proof.
  unfold s_Keys, sp_keys, sabs, to_entries. rewrite map_rev, map_map. reflexivity.
Qed.

Lemma s_Len_refines c : s_Len c = Z.of_nat (length (sabs c)).
Proof. unfold s_Len, sabs, to_entries. rewrite rev_length, map_length. reflexivity. Qed.
