(** Lemmas about the reference LRU (LruSpec.v): what eviction does, the invariant, the flags. *)
From Coq Require Import List ZArith Bool Lia PeanoNat ZifyNat ZifyBool.
From Verif Require Import Base.BStr Lru.LruTypes Lru.LruSpec.
Import ListNotations.
Open Scope Z_scope.

Definition keys (l : list entry) : list bytes := map e_key l.
Definition valid (P : params) : Prop := 1 <= p_cap P /\ 1 <= p_mb P.
Definition sizes_ok (P : params) (l : list entry) : Prop :=
  Forall (fun e => 0 <= e_size e /\ (p_sized P = false -> e_size e = 0)) l.

Definition sp_inv (P : params) (l : list entry) : Prop :=
  NoDup (keys l) /\ sizes_ok P l /\ Z.of_nat (length l) <= p_cap P /\
  (sum_sizes l <= p_mb P \/ (length l <= 1)%nat).

(** ---- generalities *)
Lemma sum_app l1 l2 : sum_sizes (l1 ++ l2) = sum_sizes l1 + sum_sizes l2.
Proof. induction l1 as [|a l1 IH]; simpl; [lia|]. rewrite IH. lia. Qed.

Lemma sum_rev l : sum_sizes (rev l) = sum_sizes l.
Proof. induction l as [|a l IH]; simpl; [reflexivity|]. rewrite sum_app, IH. simpl. lia. Qed.

Lemma sum_nonneg P l : sizes_ok P l -> 0 <= sum_sizes l.
Proof. induction 1 as [|a l [Ha _] _ IH]; simpl; lia. Qed.

Lemma sum_unsized P l : p_sized P = false -> sizes_ok P l -> sum_sizes l = 0.
Proof. intros Hs. induction 1 as [|a l [_ Ha] _ IH]; simpl; [reflexivity|]. rewrite (Ha Hs), IH. reflexivity. Qed.

Lemma is_key_true k e : is_key k e = true <-> e_key e = k.
Proof. unfold is_key. apply beqb_eq. Qed.
Lemma is_key_false k e : is_key k e = false <-> e_key e <> k.
Proof. unfold is_key. apply beqb_neq. Qed.

Lemma sp_has_in k l : sp_has k l = true <-> In k (keys l).
Proof.
  unfold sp_has, keys. rewrite existsb_exists. split.
  - intros [e [Hin Hk]]. apply is_key_true in Hk. subst. apply in_map. exact Hin.
  - intros Hin. apply in_map_iff in Hin. destruct Hin as [e [Hk Hin]]. exists e. split; [exact Hin|]. apply is_key_true. exact Hk.
Qed.

Lemma sp_has_false k l : sp_has k l = false <-> ~ In k (keys l).
Proof. rewrite <- sp_has_in. destruct (sp_has k l); split; congruence. Qed.

Lemma sp_find_some k l e : sp_find k l = Some e -> In e l /\ e_key e = k.
Proof. unfold sp_find. intros H. apply find_some in H. destruct H as [H1 H2]. apply is_key_true in H2. auto. Qed.

Lemma sp_find_none k l : sp_find k l = None <-> ~ In k (keys l).
Proof.
  unfold sp_find. split.
  - intros H Hin. apply in_map_iff in Hin. destruct Hin as [e [Hk Hin]].
    pose proof (find_none _ _ H e Hin) as Hf. apply is_key_false in Hf. contradiction.
  - intros H. destruct (find (is_key k) l) eqn:E; [|reflexivity].
    apply find_some in E. destruct E as [E1 E2]. apply is_key_true in E2. exfalso. apply H. subst. apply in_map. exact E1.
Qed.

Lemma sp_find_has k l : sp_has k l = match sp_find k l with Some _ => true | None => false end.
Proof.
  destruct (sp_find k l) eqn:E.
  - apply sp_find_some in E. destruct E as [E1 E2]. apply sp_has_in. subst. apply in_map. exact E1.
  - apply sp_find_none in E. apply sp_has_false. exact E.
Qed.

Lemma keys_del k l : keys (sp_del k l) = filter (fun x => negb (beqb x k)) (keys l).
Proof.
  unfold sp_del, keys. induction l as [|a l IH]; simpl; [reflexivity|].
  unfold is_key at 1. destruct (beqb (e_key a) k); simpl; rewrite IH; reflexivity.
Qed.

Lemma in_keys_del k k' l : In k' (keys (sp_del k l)) <-> In k' (keys l) /\ k' <> k.
Proof.
  rewrite keys_del, filter_In. split; intros [H1 H2]; split; auto.
  - intros ->. rewrite beqb_refl in H2. discriminate.
  - apply negb_true_iff. apply beqb_neq. exact H2.
Qed.

Lemma nodup_filter {A} (f : A -> bool) l : NoDup l -> NoDup (filter f l).
Proof.
  induction 1 as [|a l Hn Hd IH]; simpl; [constructor|].
  destruct (f a); [constructor|]; auto. intros Hin. apply filter_In in Hin. tauto.
Qed.

Lemma nodup_del k l : NoDup (keys l) -> NoDup (keys (sp_del k l)).
Proof. intros H. rewrite keys_del. apply nodup_filter. exact H. Qed.

Lemma sp_del_absent k l : ~ In k (keys l) -> sp_del k l = l.
Proof.
  unfold sp_del. induction l as [|a l IH]; simpl; [reflexivity|]. intros H.
  destruct (is_key k a) eqn:E.
  - apply is_key_true in E. exfalso. apply H. left. exact E.
  - simpl. rewrite IH; [reflexivity|]. intros Hin. apply H. right. exact Hin.
Qed.

Lemma nodup_app_snoc (l : list bytes) x : NoDup l -> ~ In x l -> NoDup (l ++ [x]).
Proof.
  intros Hd Hn. induction Hd as [|a l Ha Hd IH]; simpl.
  - constructor; [intros []|constructor].
  - constructor.
    + rewrite in_app_iff. intros [H|[H|[]]]; [contradiction|]. subst. apply Hn. left. reflexivity.
    + apply IH. intros H. apply Hn. right. exact H.
Qed.

Lemma nodup_app_r {A} (p q : list A) : NoDup (p ++ q) -> NoDup q.
Proof. induction p as [|a p IH]; simpl; [auto|]. intros H. inversion H. auto. Qed.

Lemma sizes_del P k l : sizes_ok P l -> sizes_ok P (sp_del k l).
Proof.
  unfold sizes_ok, sp_del. intros H. apply Forall_forall. intros e He. apply filter_In in He.
  destruct He as [He _]. rewrite Forall_forall in H. apply H. exact He.
Qed.

Lemma length_del_le k l : (length (sp_del k l) <= length l)%nat.
Proof. unfold sp_del. induction l as [|a l IH]; simpl; [lia|]. destruct (negb (is_key k a)); simpl; lia. Qed.

Lemma sum_del_le P k l : sizes_ok P l -> sum_sizes (sp_del k l) <= sum_sizes l.
Proof.
  unfold sp_del. induction 1 as [|a l [Ha _] Hl IH]; simpl; [lia|].
  destruct (negb (is_key k a)); simpl; lia.
Qed.

(** with unique keys, deleting a present key removes exactly one entry *)
Lemma length_del_present k l : NoDup (keys l) -> In k (keys l) -> S (length (sp_del k l)) = length l.
Proof.
  unfold sp_del. induction l as [|a l IH]; simpl; [intros _ []|].
  intros Hd Hin. inversion Hd as [|x y Hn Hd']; subst.
  destruct (is_key k a) eqn:E; simpl.
  - apply is_key_true in E. subst. f_equal.
    change (filter (fun e => negb (is_key (e_key a) e)) l) with (sp_del (e_key a) l).
    rewrite sp_del_absent; auto.
  - f_equal. apply IH; auto. destruct Hin as [H|H]; [|exact H]. apply is_key_false in E. contradiction.
Qed.

(** ---- eviction *)
Lemma sp_evict_id P l : (length l <= 1)%nat \/ over P l = false -> sp_evict P l = l.
Proof.
  destruct l as [|x [|y r]]; simpl; auto. intros [H|H]; [simpl in H; lia|].
  change (over P (x :: y :: r) = false) in H. rewrite H. reflexivity.
Qed.

(** only least recently used entries are evicted, and never the last one *)
Lemma sp_evict_snoc P l x : exists p q, l = p ++ q /\ sp_evict P (l ++ [x]) = q ++ [x].
Proof.
  induction l as [|a l IH].
  - exists [], []. split; reflexivity.
  - destruct IH as [p [q [Hl Hq]]].
    change ((a :: l) ++ [x]) with (a :: (l ++ [x])).
    destruct (l ++ [x]) as [|y r] eqn:E; [destruct l; discriminate|].
    cbn [sp_evict]. destruct (over P (a :: y :: r)).
    + exists (a :: p), q. split; [rewrite Hl; reflexivity| exact Hq].
    + exists [], (a :: l). split; [reflexivity|]. simpl. rewrite E. reflexivity.
Qed.

Lemma sp_evict_post P l : (length (sp_evict P l) <= 1)%nat \/ over P (sp_evict P l) = false.
Proof.
  induction l as [|a l IH]; [left; simpl; lia|].
  destruct l as [|y r]; [left; simpl; lia|].
  cbn [sp_evict]. destruct (over P (a :: y :: r)) eqn:E; [exact IH| right; exact E].
Qed.

Lemma over_false P l : over P l = false ->
  Z.of_nat (length l) <= p_cap P /\ (p_sized P = true -> sum_sizes l <= p_mb P).
Proof. unfold over. intros H. apply orb_false_iff in H. destruct H as [H1 H2]. split; [lia|]. intros Hs. rewrite Hs in H2. simpl in H2. lia. Qed.

Lemma over_true_not P l : Z.of_nat (length l) <= p_cap P -> (sum_sizes l <= p_mb P \/ p_sized P = false) -> over P l = false.
Proof. unfold over. intros H1 H2. apply orb_false_iff. split; [lia|]. destruct (p_sized P); simpl; [|reflexivity]. destruct H2; [lia|discriminate]. Qed.

(** ---- the write *)
Definition written (P : params) (k v : bytes) (sz : Z) : entry := mkEntry k v (norm_size P sz).

Lemma sp_write_shape P k v sz l :
  exists p q, sp_del k l = p ++ q /\ fst (sp_write P k v sz l) = q ++ [written P k v sz] /\
              snd (sp_write P k v sz l) = negb (Nat.eqb (length p) 0).
Proof.
  unfold sp_write. cbn [fst snd].
  destruct (sp_evict_snoc P (sp_del k l) (mkEntry k v (norm_size P sz))) as [p [q [H1 H2]]].
  exists p, q. split; [exact H1|]. split; [exact H2|].
  rewrite H2, H1. rewrite !app_length. simpl. destruct (length p); simpl.
  - apply Nat.ltb_ge. lia.
  - apply Nat.ltb_lt. lia.
Qed.

Lemma sp_write_inv P k v sz l : valid P -> sp_inv P l -> rejected P sz = false ->
  sp_inv P (fst (sp_write P k v sz l)).
Proof.
  intros [Hc Hm] [Hd [Hs [Hlen Hb]]] Hr.
  destruct (sp_write_shape P k v sz l) as [p [q [H1 [H2 _]]]].
  assert (Hnd : NoDup (keys (sp_del k l ++ [written P k v sz]))).
  { unfold keys. rewrite map_app. simpl. apply nodup_app_snoc.
    - apply nodup_del. exact Hd.
    - intros Hin. apply in_keys_del in Hin. destruct Hin as [_ Hin]. apply Hin. reflexivity. }
  assert (Hsz : sizes_ok P (sp_del k l ++ [written P k v sz])).
  { apply Forall_app. split; [apply sizes_del; exact Hs|]. constructor; [|constructor].
    unfold written, norm_size, rejected in *. simpl. destruct (p_sized P); simpl in *; split; try lia; try discriminate. }
  rewrite H2. rewrite H1 in Hnd, Hsz. rewrite <- app_assoc in Hnd, Hsz.
  unfold keys in Hnd. rewrite map_app in Hnd. apply nodup_app_r in Hnd.
  apply Forall_app in Hsz. destruct Hsz as [_ Hsz].
  split; [exact Hnd|]. split; [exact Hsz|].
  pose proof (sp_evict_post P (sp_del k l ++ [mkEntry k v (norm_size P sz)])) as Hpost.
  unfold sp_write in H2. cbn [fst] in H2. rewrite H2 in Hpost.
  destruct Hpost as [Hpost|Hpost].
  - split; [lia|]. right. exact Hpost.
  - apply over_false in Hpost. destruct Hpost as [Hp1 Hp2]. split; [exact Hp1|].
    assert (Hu : p_sized P = false -> sum_sizes (q ++ [written P k v sz]) = 0)
      by (intros Es; apply (sum_unsized P _ Es Hsz)).
    destruct (p_sized P) eqn:Es; [left; auto|].
    left. rewrite (Hu eq_refl). lia.
Qed.

(** ---- the invariant is kept by every operation *)
Lemma sp_step_inv P l o : valid P -> sp_inv P l -> sp_inv P (fst (sp_step P l o)).
Proof.
  intros Hv Hi. pose proof Hi as [Hd [Hs [Hlen Hb]]]. destruct o; cbn [sp_step]; try exact Hi.
  - destruct (rejected P sz) eqn:Er; [exact Hi|].
    pose proof (sp_write_inv P k v sz l Hv Hi Er) as H. destruct (sp_write P k v sz l). exact H.
  - destruct (sp_has k l); [exact Hi|]. destruct (rejected P sz) eqn:Er; [exact Hi|].
    cbn [fst]. apply sp_write_inv; assumption.
  - destruct (sp_find k l) as [e|] eqn:Ef; [|exact Hi]. cbn [fst].
    apply sp_find_some in Ef. destruct Ef as [Hin Hk].
    assert (Hink : In k (keys l)) by (subst; apply in_map; exact Hin).
    pose proof (length_del_present k l Hd Hink) as Hlen'.
    assert (He : 0 <= e_size e /\ (p_sized P = false -> e_size e = 0)).
    { unfold sizes_ok in Hs. rewrite Forall_forall in Hs. apply Hs. exact Hin. }
    split; [|split; [|split]].
    + unfold keys. rewrite map_app. simpl. apply nodup_app_snoc; [apply nodup_del; exact Hd|].
      intros H. apply in_keys_del in H. destruct H as [_ H]. apply H. exact Hk.
    + apply Forall_app. split; [apply sizes_del; exact Hs|]. constructor; [exact He|constructor].
    + rewrite app_length. simpl. lia.
    + (* the bytes: same multiset *)
      assert (Hsum : sum_sizes (sp_del k l ++ [e]) = sum_sizes l).
      { rewrite sum_app. simpl. clear - Hd Hin Hk. revert Hd Hin. unfold sp_del.
        induction l as [|a l IH]; simpl; [intros _ []|]. intros Hd Hin. inversion Hd as [|x y Hn Hd']; subst.
        destruct (is_key (e_key e) a) eqn:E.
        - simpl. apply is_key_true in E.
          destruct Hin as [->|Hin].
          + change (filter (fun e0 => negb (is_key (e_key e) e0)) l) with (sp_del (e_key e) l).
            rewrite sp_del_absent; [lia|exact Hn].
          + exfalso. apply Hn. rewrite E. apply in_map. exact Hin.
        - simpl. destruct Hin as [->|Hin].
          + apply is_key_false in E. contradiction.
          + specialize (IH Hd' Hin). lia. }
      rewrite Hsum. rewrite app_length. simpl. destruct Hb as [Hb|Hb]; [left; exact Hb|right; lia].
  - cbn [fst]. split; [apply nodup_del; exact Hd|]. split; [apply sizes_del; exact Hs|].
    pose proof (length_del_le k l). split; [lia|].
    destruct Hb as [Hb|Hb]; [left; pose proof (sum_del_le P k l Hs); lia| right; lia].
  - cbn [fst]. split; [constructor|]. split; [constructor|]. destruct Hv. simpl. split; [lia|]. left. lia.
Qed.

Lemma sp_inv_nil P : valid P -> sp_inv P [].
Proof. intros [H1 H2]. split; [constructor|]. split; [constructor|]. simpl. split; [lia|]. left; lia. Qed.

Lemma sp_run_inv P ops : forall l, valid P -> sp_inv P l -> sp_inv P (sp_run P l ops).
Proof. induction ops as [|o ops IH]; intros l Hv Hi; simpl; [exact Hi|]. apply IH; [exact Hv|]. apply sp_step_inv; assumption. Qed.

(** ---- flags and the fate of the written entry (statements on the spec) *)

(** a Put that is not rejected: the residents afterwards are a most-recent part [q] of the previous
    ones (without k) followed by the written entry; the flag is true iff the evicted part [p] is non-empty *)
Lemma sp_put_shape P k v sz l l' ev : rejected P sz = false ->
  sp_step P l (OpPut k v sz) = (l', RPut ev) ->
  exists p q, sp_del k l = p ++ q /\ l' = q ++ [written P k v sz] /\ (ev = true <-> p <> []).
Proof.
  intros Hr. cbn [sp_step]. rewrite Hr.
  destruct (sp_write_shape P k v sz l) as [p [q [H1 [H2 H3]]]].
  destruct (sp_write P k v sz l) as [l2 e2]. cbn [fst snd] in *. intros H. inversion H; subst.
  exists p, q. split; [exact H1|]. split; [reflexivity|].
  destruct p; simpl; split; intros; congruence.
Qed.

Lemma sp_put_flag P k v sz l l' ev : sp_inv P l ->
  sp_step P l (OpPut k v sz) = (l', RPut ev) ->
  (ev = true <-> exists k', In k' (keys l) /\ ~ In k' (keys l')).
Proof.
  intros [Hd _] Hstep. destruct (rejected P sz) eqn:Er.
  - cbn [sp_step] in Hstep. rewrite Er in Hstep. inversion Hstep; subst. split; [discriminate|].
    intros [k' [H1 H2]]. contradiction.
  - destruct (sp_put_shape P k v sz l l' ev Er Hstep) as [p [q [H1 [H2 H3]]]].
    rewrite H3. subst l'.
    assert (Hnd : NoDup (keys (p ++ q))) by (rewrite <- H1; apply nodup_del; exact Hd).
    split.
    + intros Hp. destruct p as [|a p]; [congruence|]. exists (e_key a).
      assert (Hin : In (e_key a) (keys (sp_del k l))) by (rewrite H1; left; reflexivity).
      apply in_keys_del in Hin. destruct Hin as [Hin Hne]. split; [exact Hin|].
      unfold keys. rewrite map_app, in_app_iff. simpl. intros [H|[H|[]]]; [|congruence].
      unfold keys in Hnd. simpl in Hnd. inversion Hnd as [|x y Hn _]; subst. apply Hn. rewrite map_app, in_app_iff. right. exact H.
    + intros [k' [Hin Hnot]] ->. simpl in H1.
      apply Hnot. unfold keys. rewrite map_app, in_app_iff. simpl.
      destruct (beqb_spec k' k) as [->|Hne]; [right; left; reflexivity|].
      left. change (In k' (keys q)). rewrite <- H1. apply in_keys_del. split; assumption.
Qed.

Lemma sp_hasoradd_flags P k v sz l l' has added :
  sp_step P l (OpHasOrAdd k v sz) = (l', RHasOrAdd has added) ->
  (has = true <-> In k (keys l)) /\ (added = true <-> ~ In k (keys l) /\ In k (keys l')) /\
  (added = false -> l' = l).
Proof.
  cbn [sp_step]. destruct (sp_has k l) eqn:Eh.
  - intros H. inversion H; subst. apply sp_has_in in Eh. split; [tauto|]. split; [|reflexivity]. split; [discriminate|tauto].
  - apply sp_has_false in Eh. destruct (rejected P sz) eqn:Er; intros H; inversion H; subst.
    + split; [split; [discriminate|contradiction]|]. split; [|reflexivity]. split; [discriminate|tauto].
    + split; [split; [discriminate|contradiction]|]. split; [|discriminate]. split; [|reflexivity]. intros _. split; [exact Eh|].
      destruct (sp_write_shape P k v sz l) as [p [q [_ [H2 _]]]]. unfold sp_write in H2. cbn [fst] in H2. rewrite H2.
      unfold keys. rewrite map_app, in_app_iff. right. left. reflexivity.
Qed.
