(** The reference LRU of C15 (spec; short on purpose; independent of the operational models).

    State: the residents, LEAST recently used first (the order Keys returns).
    Configuration: [sized] (false = plain LRU: sizes are not tracked, every size counts 0 and negative
    sizes are not rejected), item capacity [cap], byte capacity [mb].

    - Put, an inserting HasOrAdd and Get make an entry the most recently used one (append at the end);
      Peek/Has/Remove/Clear/handler registration do not touch recency.
    - after a write, entries are evicted from the least recently used end while the item capacity or
      (sized) the byte capacity is exceeded, but never the last remaining entry (= the one just written).
    - the sized variant rejects a negative size (nothing changes). *)
From Coq Require Import List ZArith Bool.
From Verif Require Import Base.BStr Lru.LruTypes.
Import ListNotations.
Open Scope Z_scope.

Record params := mkParams { p_sized : bool; p_cap : Z; p_mb : Z }.

Definition is_key (k : bytes) (e : entry) : bool := beqb (e_key e) k.
Definition sp_find (k : bytes) (l : list entry) : option entry := find (is_key k) l.
Definition sp_has (k : bytes) (l : list entry) : bool := existsb (is_key k) l.
Definition sp_del (k : bytes) (l : list entry) : list entry := filter (fun e => negb (is_key k e)) l.

Definition over (P : params) (l : list entry) : bool :=
  (Z.of_nat (length l) >? p_cap P) || (p_sized P && (sum_sizes l >? p_mb P)).

(** evict from the least recently used end, never the last remaining entry *)
Fixpoint sp_evict (P : params) (l : list entry) : list entry :=
  match l with
  | [] => []
  | x :: rest =>
      match rest with
      | [] => l
      | _ :: _ => if over P l then sp_evict P rest else l
      end
  end.

Definition rejected (P : params) (sz : Z) : bool := p_sized P && (sz <? 0).
Definition norm_size (P : params) (sz : Z) : Z := if p_sized P then sz else 0.

(** make (k,v,sz) the most recently used entry, then evict; the flag says whether anything was evicted *)
Definition sp_write (P : params) (k v : bytes) (sz : Z) (l : list entry) : list entry * bool :=
  let l1 := sp_del k l ++ [mkEntry k v (norm_size P sz)] in
  let l2 := sp_evict P l1 in
  (l2, Nat.ltb (length l2) (length l1)).

Definition sp_step (P : params) (l : list entry) (o : op) : list entry * ret :=
  match o with
  | OpPut k v sz =>
      if rejected P sz then (l, RPut false)
      else let '(l', ev) := sp_write P k v sz l in (l', RPut ev)
  | OpHasOrAdd k v sz =>
      if sp_has k l then (l, RHasOrAdd true false)
      else if rejected P sz then (l, RHasOrAdd false false)
      else (fst (sp_write P k v sz l), RHasOrAdd false true)
  | OpGet k =>
      match sp_find k l with
      | Some e => (sp_del k l ++ [e], RGet (Some (e_val e)))
      | None => (l, RGet None)
      end
  | OpPeek k => (l, RPeek (option_map e_val (sp_find k l)))
  | OpHas k => (l, RHas (sp_has k l))
  | OpRemove k => (sp_del k l, RNone)
  | OpClear => ([], RNone)
  | OpRegister _ _ => (l, RNone)
  | OpUnRegister _ => (l, RNone)
  end.

Definition sp_keys (l : list entry) : list bytes := map e_key l.

Fixpoint sp_run (P : params) (l : list entry) (ops : list op) : list entry :=
  match ops with [] => l | o :: r => sp_run P (fst (sp_step P l o)) r end.
Fixpoint sp_outs (P : params) (l : list entry) (ops : list op) : list ret :=
  match ops with [] => [] | o :: r => snd (sp_step P l o) :: sp_outs P (fst (sp_step P l o)) r end.

(** the handlers a history has registered: the last (un)registration of an id wins; a nil func is ignored *)
Definition reg_step (regs : bytes -> bool) (o : op) : bytes -> bool :=
  match o with
  | OpRegister id false => fun x => if beqb id x then true else regs x
  | OpUnRegister id => fun x => if beqb id x then false else regs x
  | _ => regs
  end.
Definition registered (ops : list op) : bytes -> bool := fold_left reg_step ops (fun _ => false).
