(** Wire-format wrapper of the storageCacherAdapter model (component "adapter", C17).
    config  cap maxBytes [ k1 k2 ... ]     capacityLRU(cap, maxBytes) + memorydb; key alphabet probed after every op
    op 1 key value size   Put    -> 1=spilled flag
    op 2 key              Get    -> 2=value 3=ok
    op 3 key              Has    -> 4=has
    op 4 key              Peek   -> 5=value 6=ok
    op 5 key              Remove
    op 6                  Clear
    op 7 key value size   HasOrAdd -> 4=has (it is c.Has(key)) 7=[ has added ]
    op 8                  Close  -> 8=error class of db.Close() (0 = nil)
    op 9                  SizeInBytesContained -> 9=bytes
    op 10                 MaxSize -> 18=math.MaxInt64
    after EVERY op: 10=cacher.Keys() (exact order) 11=cacher.Len() 12=cacher.SizeInBytesContained()
      13=[ [key value] ... ] persister contents, sorted by key
      14=[ adapter.Peek(k) for k in alphabet ] 15=[ adapter.Has(k) for k in alphabet ]
      16=adapter.Len() 17=adapter.Keys() sorted 19=dbIsClosed as the harness knows it (a Close was executed)
    (13 is a direct read of the memorydb, which memorydb.Close leaves readable) *)
From Coq Require Import List NArith ZArith Bool.
From Verif Require Import Base.Generic Base.BStr Lru.LruTypes Lru.CapacityLru Lru.Adapter.
Import ListNotations.
Open Scope N_scope.

Definition ad_state := (adapter * list bytes)%type.

Definition ad_init (cfg : list garg) : option ad_state :=
  let cap := arg_Z (nth_arg cfg 0) in
  let mb := arg_Z (nth_arg cfg 1) in
  let alpha := map arg_B (arg_L (nth_arg cfg 2)) in
  match newAdapter cap mb with
  | Some a => Some (a, alpha)
  | None => None
  end.

Definition decode_aop (code : N) (args : list garg) : option aop :=
  let k := arg_B (nth_arg args 0) in
  match code with
  | 1 => Some (APut k (arg_B (nth_arg args 1)) (arg_Z (nth_arg args 2)))
  | 2 => Some (AGet k)
  | 3 => Some (AHas k)
  | 4 => Some (APeek k)
  | 5 => Some (ARemove k)
  | 6 => Some AClear
  | 7 => Some (AHasOrAdd k (arg_B (nth_arg args 1)) (arg_Z (nth_arg args 2)))
  | 8 => Some AClose
  | 9 => Some ASizeInBytesContained
  | 10 => Some AMaxSize
  | _ => None
  end.

Definition g_ok (o : option bytes) : garg := g_bool (match o with Some _ => true | None => false end).

Definition encode_aret (r : aret) : list obs :=
  match r with
  | ARPut f => [(1, g_bool f)]
  | ARGet v => [(2, g_optB v); (3, g_ok v)]
  | ARHas b => [(4, g_bool b)]
  | ARPeek v => [(5, g_optB v); (6, g_ok v)]
  | ARNone => []
  | ARHasOrAdd h ad => [(4, g_bool h); (7, GL [g_bool h; g_bool ad])]
  | ARClose => [(8, GN 0%Z)]
  | ARSize n => [(9, GN n)]
  | ARMaxSize n => [(18, GN n)]
  end.

Fixpoint pinsert (x : bytes * bytes) (l : list (bytes * bytes)) : list (bytes * bytes) :=
  match l with
  | [] => [x]
  | y :: r => match bcmp (fst x) (fst y) with Gt => y :: pinsert x r | _ => x :: l end
  end.
Definition psort (l : list (bytes * bytes)) : list (bytes * bytes) := fold_right pinsert [] l.

Definition ad_step (s : ad_state) (code : N) (args : list garg) : ad_state * list obs :=
  let '(a, alpha) := s in
  match decode_aop code args with
  | None => (s, [])
  | Some o =>
      let '(a', r) := astep a o in
      ((a', alpha),
       encode_aret r ++
       [ (10, g_listB (Keys (mem a')));
         (11, GN (Len (mem a')));
         (12, GN (SizeInBytesContained (mem a')));
         (13, GL (map (fun kv => GL [GB (fst kv); GB (snd kv)]) (psort (db a'))));
         (14, GL (map (fun k => g_optB (ad_Peek a' k)) alpha));
         (15, GL (map (fun k => g_bool (ad_Has a' k)) alpha));
         (16, GN (ad_Len a'));
         (17, g_listB (bsort (ad_Keys a')));
         (19, g_bool (dbIsClosed a')) ])
  end.

Definition adapter_component : component :=
  {| c_state := ad_state; c_init := ad_init; c_step := ad_step |}.
