(** Model of timecache/{timeCacheCore.go, timeCache.go, peerTimeCache.go, timeCacher.go} (C18).

    Definitions only.  Every operation takes the clock reading [now : Z]
    (nanoseconds, what [time.Now()] returns inside the operation) as an input.
    [time.Since(timestamp) > span] becomes [now - timestamp > span].

    Modelling notes
    - the Go map [data] is an association list without duplicate keys
      ([dset] removes the old binding before adding the new one);
    - [interface{}] values are [option bytes] ([None] = the nil interface:
      TimeCache.Add / Upsert store no value);
    - sweep reads the clock once per visited element in the Go code; all those
      readings are taken while the write lock is held and are collapsed into the
      single reading [now] of the sweep here ([sweep_clk] is the per-element
      version, used by lemma [sweep_clk_spec] to show that nothing depends on it:
      every reading is >= the reading at which the sweep started);
    - the background goroutine of timeCacher calls the same [sweep]; it is an
      explicit event ([OSweep]) of the history. *)
From Coq Require Import List NArith ZArith Bool.
From Verif Require Import Base.BStr.
Import ListNotations.
Open Scope Z_scope.

Definition value := option bytes.

Record entry : Type := mkEntry { e_ts : Z; e_span : Z; e_val : value }.

Definition dmap := list (bytes * entry).

Fixpoint dfind (k : bytes) (l : dmap) : option entry :=
  match l with
  | [] => None
  | (k', e) :: r => if beqb k k' then Some e else dfind k r
  end.

Definition dremove (k : bytes) (l : dmap) : dmap :=
  filter (fun p => negb (beqb k (fst p))) l.

(** [data[key] = &entry{...}] *)
Definition dset (k : bytes) (e : entry) (l : dmap) : dmap := (k, e) :: dremove k l.

Definition dkeys (l : dmap) : list bytes := map fst l.

(** timeCacheCore *)
Record core : Type := mkCore { c_data : dmap; c_default : Z }.

Definition new_core (default_span : Z) : core := mkCore [] default_span.

Definition with_data (c : core) (d : dmap) : core := mkCore d (c_default c).

Inductive err : Type := ErrNone | ErrEmptyKey.

Definition is_empty (k : bytes) : bool := match k with [] => true | _ => false end.

(** upsert: returns (existed before, error) *)
Definition upsert (c : core) (now : Z) (k : bytes) (v : value) (d : Z) : core * (bool * err) :=
  if is_empty k then (c, (false, ErrEmptyKey)) else
  match dfind k (c_data c) with
  | Some ex =>
      let sp := if e_span ex <? d then d else e_span ex in
      (with_data c (dset k (mkEntry now sp (e_val ex)) (c_data c)), (true, ErrNone))
  | None =>
      (with_data c (dset k (mkEntry now d v) (c_data c)), (false, ErrNone))
  end.

Definition put (c : core) (now : Z) (k : bytes) (v : value) (d : Z) : core * err :=
  if is_empty k then (c, ErrEmptyKey) else
  (with_data c (dset k (mkEntry now d v) (c_data c)), ErrNone).

(** hasOrAdd: returns (has, added, error) *)
Definition has_or_add (c : core) (now : Z) (k : bytes) (v : value) (d : Z) : core * (bool * bool * err) :=
  if is_empty k then (c, (false, false, ErrEmptyKey)) else
  match dfind k (c_data c) with
  | Some _ => (c, (true, false, ErrNone))
  | None => (with_data c (dset k (mkEntry now d v) (c_data c)), (false, true, ErrNone))
  end.

(** isOldElement := time.Since(element.timestamp) > element.span  (strict) *)
Definition is_old (now : Z) (e : entry) : bool := now - e_ts e >? e_span e.

Definition sweep (c : core) (now : Z) : core :=
  with_data c (filter (fun p => negb (is_old now (snd p))) (c_data c)).

(** sweep with one clock reading per element (see the header) *)
Definition sweep_clk (c : core) (clk : bytes -> Z) : core :=
  with_data c (filter (fun p => negb (is_old (clk (fst p)) (snd p))) (c_data c)).

Definition has (c : core) (k : bytes) : bool :=
  match dfind k (c_data c) with Some _ => true | None => false end.

Definition len (c : core) : N := N.of_nat (length (c_data c)).

Definition clear (c : core) : core := with_data c [].

(** ---- TimeCache (timeCache.go) ---- *)

(** TimeCache.add writes the map itself (it does not go through core.put) and stores no value *)
Definition tc_add (c : core) (now : Z) (k : bytes) (d : Z) : core * err :=
  if is_empty k then (c, ErrEmptyKey) else
  (with_data c (dset k (mkEntry now d None) (c_data c)), ErrNone).

Definition tc_Add (c : core) (now : Z) (k : bytes) : core * err := tc_add c now k (c_default c).
Definition tc_AddWithSpan (c : core) (now : Z) (k : bytes) (d : Z) : core * err := tc_add c now k d.
Definition tc_Upsert (c : core) (now : Z) (k : bytes) (d : Z) : core * err :=
  let '(c', (_, e)) := upsert c now k None d in (c', e).
Definition tc_Sweep (c : core) (now : Z) : core := sweep c now.
Definition tc_Has (c : core) (k : bytes) : bool := has c k.
Definition tc_Len (c : core) : N := len c.

(** ---- peerTimeCache (peerTimeCache.go): forwards to the wrapped TimeCache ---- *)
Definition peer_Upsert (c : core) (now : Z) (pid : bytes) (d : Z) : core * err := tc_Upsert c now pid d.
Definition peer_Sweep (c : core) (now : Z) : core := tc_Sweep c now.
Definition peer_Has (c : core) (pid : bytes) : bool := tc_Has c pid.

(** ---- timeCacher (timeCacher.go) ---- *)

(** Put: always reports evicted = false; a rejected key changes nothing *)
Definition cacher_Put (c : core) (now : Z) (k : bytes) (v : value) : core * bool :=
  let '(c', _) := put c now k v (c_default c) in (c', false).

Definition cacher_Get (c : core) (k : bytes) : value * bool :=
  match dfind k (c_data c) with
  | None => (None, false)
  | Some e => (e_val e, true)
  end.

Definition cacher_Has (c : core) (k : bytes) : bool := has c k.
Definition cacher_Peek (c : core) (k : bytes) : value * bool := cacher_Get c k.

Definition cacher_HasOrAdd (c : core) (now : Z) (k : bytes) (v : value) : core * (bool * bool) :=
  let '(c', (h, a, _)) := has_or_add c now k v (c_default c) in (c', (h, a)).

(** Remove: a nil key returns at once *)
Definition cacher_Remove (c : core) (k : option bytes) : core :=
  match k with
  | None => c
  | Some k => with_data c (dremove k (c_data c))
  end.

Definition cacher_Keys (c : core) : list bytes := dkeys (c_data c).
Definition cacher_Len (c : core) : N := len c.
Definition cacher_Clear (c : core) : core := clear c.
(** what the goroutine of startSweeping does every cacheExpiry *)
Definition cacher_bg_sweep (c : core) (now : Z) : core := sweep c now.

(** NewTimeCacher / checkArg: both durations must be at least one second *)
Definition min_duration : Z := 1000000000.
Definition cacher_check_arg (default_span cache_expiry : Z) : bool :=
  negb (default_span <? min_duration) && negb (cache_expiry <? min_duration).

(** ---- histories ---- *)

Inductive query : Type :=
| QHas (k : bytes) | QLen | QGet (k : bytes) | QPeek (k : bytes) | QKeys.

Inductive op : Type :=
| OAdd (now : Z) (k : bytes)
| OAddWithSpan (now : Z) (k : bytes) (d : Z)
| OUpsert (now : Z) (k : bytes) (d : Z)
| OPut (now : Z) (k : bytes) (v : value)
| OHasOrAdd (now : Z) (k : bytes) (v : value)
| ORemove (now : Z) (k : option bytes)
| OSweep (now : Z)
| OClear (now : Z)
| OQuery (now : Z) (q : query).

Definition op_now (o : op) : Z :=
  match o with
  | OAdd n _ | OAddWithSpan n _ _ | OUpsert n _ _ | OPut n _ _ | OHasOrAdd n _ _
  | ORemove n _ | OSweep n | OClear n | OQuery n _ => n
  end.

Inductive out : Type :=
| RUnit
| RErr (e : err)
| RBool (b : bool)
| RHasOrAdd (has added : bool)
| RGet (v : value) (ok : bool)
| RKeys (l : list bytes)
| RLen (n : N).

Definition query_out (c : core) (q : query) : out :=
  match q with
  | QHas k => RBool (has c k)
  | QLen => RLen (len c)
  | QGet k => let '(v, ok) := cacher_Get c k in RGet v ok
  | QPeek k => let '(v, ok) := cacher_Peek c k in RGet v ok
  | QKeys => RKeys (cacher_Keys c)
  end.

Definition step (c : core) (o : op) : core * out :=
  match o with
  | OAdd now k => let '(c', e) := tc_Add c now k in (c', RErr e)
  | OAddWithSpan now k d => let '(c', e) := tc_AddWithSpan c now k d in (c', RErr e)
  | OUpsert now k d => let '(c', e) := tc_Upsert c now k d in (c', RErr e)
  | OPut now k v => let '(c', b) := cacher_Put c now k v in (c', RBool b)
  | OHasOrAdd now k v => let '(c', (h, a)) := cacher_HasOrAdd c now k v in (c', RHasOrAdd h a)
  | ORemove _ k => (cacher_Remove c k, RUnit)
  | OSweep now => (sweep c now, RUnit)
  | OClear _ => (cacher_Clear c, RUnit)
  | OQuery _ q => (c, query_out c q)
  end.

Definition run_from (c : core) (ops : list op) : core := fold_left (fun s o => fst (step s o)) ops c.
Definition run (default_span : Z) (ops : list op) : core := run_from (new_core default_span) ops.

(** clock readings never go backwards along the history *)
Fixpoint clock_mono_from (t : Z) (ops : list op) : Prop :=
  match ops with
  | [] => True
  | o :: r => t <= op_now o /\ clock_mono_from (op_now o) r
  end.
Definition clock_mono (ops : list op) : Prop :=
  match ops with [] => True | o :: r => clock_mono_from (op_now o) r end.

(** which operations each front-end offers *)
Inductive kind : Type := KTimeCache | KPeer | KCacher.

Definition allowed (kd : kind) (o : op) : bool :=
  match kd, o with
  | KTimeCache, (OAdd _ _ | OAddWithSpan _ _ _ | OUpsert _ _ _ | OSweep _ | OQuery _ (QHas _) | OQuery _ QLen) => true
  | KPeer, (OUpsert _ _ _ | OSweep _ | OQuery _ (QHas _)) => true
  | KCacher, (OPut _ _ _ | OHasOrAdd _ _ _ | ORemove _ _ | OSweep _ | OClear _ | OQuery _ _) => true
  | _, _ => false
  end.

(** a front-end of kind [kd]: operations it does not offer leave it alone *)
Definition kstep (kd : kind) (c : core) (o : op) : core * out :=
  match kd, o with
  | KPeer, OUpsert now k d => let '(c', e) := peer_Upsert c now k d in (c', RErr e)
  | KPeer, OSweep now => (peer_Sweep c now, RUnit)
  | KPeer, OQuery _ (QHas k) => (c, RBool (peer_Has c k))
  | KCacher, OSweep now => (cacher_bg_sweep c now, RUnit)
  | KCacher, OQuery _ (QHas k) => (c, RBool (cacher_Has c k))
  | KCacher, OQuery _ QLen => (c, RLen (cacher_Len c))
  | _, _ => if allowed kd o then step c o else (c, RUnit)
  end.

Definition krun (kd : kind) (default_span : Z) (ops : list op) : core :=
  fold_left (fun s o => fst (kstep kd s o)) ops (new_core default_span).

(** ---- the bookkeeping of the property text (what the harness monitor keeps per key):
    time of the latest add/upsert and effective span, [None] when the key is not owed anything ---- *)
Definition life := option (Z * Z).

Definition life_step (dflt : Z) (k : bytes) (l : life) (o : op) : life :=
  match o with
  | OAdd now k' => if beqb k k' && negb (is_empty k') then Some (now, dflt) else l
  | OAddWithSpan now k' d => if beqb k k' && negb (is_empty k') then Some (now, d) else l
  | OPut now k' _ => if beqb k k' && negb (is_empty k') then Some (now, dflt) else l
  | OUpsert now k' d =>
      if beqb k k' && negb (is_empty k') then
        match l with
        | Some (_, d0) => Some (now, Z.max d0 d)
        | None => Some (now, d)
        end
      else l
  | OHasOrAdd now k' _ =>
      if beqb k k' && negb (is_empty k') then
        match l with Some _ => l | None => Some (now, dflt) end
      else l
  | ORemove _ (Some k') => if beqb k k' then None else l
  | ORemove _ None => l
  | OClear _ => None
  | OSweep now => match l with Some (t, d) => if now >? t + d then None else l | None => None end
  | OQuery _ _ => l
  end.

Definition life_of (dflt : Z) (k : bytes) (ops : list op) : life :=
  fold_left (life_step dflt k) ops None.

(** an operation that (re)starts or ends the life of [k]: Add/AddWithSpan/Upsert/Put/HasOrAdd/Remove of k, Clear *)
Definition touches (k : bytes) (o : op) : bool :=
  match o with
  | OAdd _ k' | OAddWithSpan _ k' _ | OUpsert _ k' _ | OPut _ k' _ | OHasOrAdd _ k' _ => beqb k k'
  | ORemove _ (Some k') => beqb k k'
  | ORemove _ None => false
  | OClear _ => true
  | OSweep _ | OQuery _ _ => false
  end.

(** the same without HasOrAdd (which leaves a present key alone) *)
Definition rewrites (k : bytes) (o : op) : bool :=
  match o with
  | OHasOrAdd _ _ _ => false
  | _ => touches k o
  end.

(** an operation that puts [k] in the cache at its clock reading, with the span it asks for *)
Definition adds (dflt : Z) (k : bytes) (o : op) : option Z :=
  match o with
  | OAdd _ k' => if beqb k k' && negb (is_empty k') then Some dflt else None
  | OAddWithSpan _ k' d => if beqb k k' && negb (is_empty k') then Some d else None
  | OPut _ k' _ => if beqb k k' && negb (is_empty k') then Some dflt else None
  | _ => None
  end.

(** what a query must answer when [k] is present *)
Definition reports_present (k : bytes) (q : query) (r : out) : Prop :=
  match q, r with
  | QHas k', RBool b => k' = k -> b = true
  | QGet k', RGet _ ok => k' = k -> ok = true
  | QPeek k', RGet _ ok => k' = k -> ok = true
  | QKeys, RKeys l => In k l
  | QLen, RLen n => (1 <= n)%N
  | _, _ => False
  end.

Definition reports_absent (k : bytes) (q : query) (r : out) : Prop :=
  match q, r with
  | QHas k', RBool b => k' = k -> b = false
  | QGet k', RGet v ok => k' = k -> ok = false /\ v = None
  | QPeek k', RGet v ok => k' = k -> ok = false /\ v = None
  | QKeys, RKeys l => ~ In k l
  | QLen, RLen _ => True
  | _, _ => False
  end.
