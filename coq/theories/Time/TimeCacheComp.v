(** Wire-format wrapper of the time cache model (component "timecache").

    config  kind span [ alphabet ] expiry
            kind 0 = TimeCache, 1 = peerTimeCache around a TimeCache, 2 = timeCacher;
            span = default span (ns, any sign); expiry = CacheExpiry of the timeCacher (checked by the
            constructor only: background sweeps are explicit op 7 events)
    every op carries the clock reading [now] (ns) as its first argument
    op 1 now key        Add            -> 1=err
    op 2 now key span   AddWithSpan    -> 1=err
    op 3 now key span   Upsert         -> 1=err
    op 4 now key value  Put            -> 2=evicted
    op 5 now key value  HasOrAdd       -> 3=has 4=added
    op 6 now key|-      Remove
    op 7 now            Sweep (explicit call, or one round of the cacher's goroutine)
    op 8 now key        Has            -> 2=has
    op 9 now            Len            -> 8=len
    op 10 now key       Get            -> 5=value 6=ok
    op 11 now key       Peek           -> 5=value 6=ok
    op 12 now           Keys           -> 7=sorted keys
    op 13 now           Clear
    after every op: 10=Len 11=sorted keys 12=[Has k | k in alphabet]
                    13=[span of k or - ] 14=[whole hours since the timestamp of k, or - ]
    err: 0 = nil, 1 = ErrEmptyKey.  Operations a kind does not offer change nothing and return nothing. *)
From Coq Require Import List NArith ZArith Bool.
From Verif Require Import Base.Generic Base.BStr Time.TimeCache.
Import ListNotations.
Open Scope Z_scope.

Record tstate : Type := mkT { t_kind : kind; t_core : core; t_alpha : list bytes }.

Definition hour_ns : Z := 3600000000000.

Definition tc_init (args : list garg) : option tstate :=
  let k := arg_N (nth_arg args 0) in
  let span := arg_Z (nth_arg args 1) in
  let alpha := map arg_B (arg_L (nth_arg args 2)) in
  let expiry := arg_Z (nth_arg args 3) in
  match k with
  | 0%N => Some (mkT KTimeCache (new_core span) alpha)
  | 1%N => Some (mkT KPeer (new_core span) alpha)
  | 2%N => if cacher_check_arg span expiry then Some (mkT KCacher (new_core span) alpha) else None
  | _ => None
  end.

Definition decode_op (code : N) (args : list garg) : option op :=
  let now := arg_Z (nth_arg args 0) in
  let a1 := nth_arg args 1 in
  let a2 := nth_arg args 2 in
  match code with
  | 1%N => Some (OAdd now (arg_B a1))
  | 2%N => Some (OAddWithSpan now (arg_B a1) (arg_Z a2))
  | 3%N => Some (OUpsert now (arg_B a1) (arg_Z a2))
  | 4%N => Some (OPut now (arg_B a1) (arg_optB a2))
  | 5%N => Some (OHasOrAdd now (arg_B a1) (arg_optB a2))
  | 6%N => Some (ORemove now (arg_optB a1))
  | 7%N => Some (OSweep now)
  | 8%N => Some (OQuery now (QHas (arg_B a1)))
  | 9%N => Some (OQuery now QLen)
  | 10%N => Some (OQuery now (QGet (arg_B a1)))
  | 11%N => Some (OQuery now (QPeek (arg_B a1)))
  | 12%N => Some (OQuery now QKeys)
  | 13%N => Some (OClear now)
  | _ => None
  end.

Definition err_code (e : err) : N := match e with ErrNone => 0 | ErrEmptyKey => 1 end.

Definition encode_out (o : op) (r : out) : list obs :=
  match r with
  | RUnit => []
  | RErr e => [(1%N, g_N (err_code e))]
  | RBool b => [(2%N, g_bool b)]
  | RHasOrAdd h a => [(3%N, g_bool h); (4%N, g_bool a)]
  | RGet v ok => [(5%N, g_optB v); (6%N, g_bool ok)]
  | RKeys l => [(7%N, g_listB (bsort l))]
  | RLen n => [(8%N, g_N n)]
  end.

Definition common_obs (s : tstate) (now : Z) : list obs :=
  let c := t_core s in
  [ (10%N, g_N (len c));
    (11%N, g_listB (bsort (dkeys (c_data c))));
    (12%N, GL (map (fun k => g_bool (has c k)) (t_alpha s)));
    (13%N, GL (map (fun k => match dfind k (c_data c) with Some e => GN (e_span e) | None => GNil end) (t_alpha s)));
    (14%N, GL (map (fun k => match dfind k (c_data c) with Some e => GN ((now - e_ts e) / hour_ns) | None => GNil end) (t_alpha s))) ].

Definition tc_step (s : tstate) (code : N) (args : list garg) : tstate * list obs :=
  let now := arg_Z (nth_arg args 0) in
  match decode_op code args with
  | None => (s, common_obs s now)
  | Some o =>
      let '(c', r) := kstep (t_kind s) (t_core s) o in
      let s' := mkT (t_kind s) c' (t_alpha s) in
      (s', encode_out o r ++ common_obs s' now)
  end.

Definition timecache_component : component :=
  {| c_state := tstate; c_init := tc_init; c_step := tc_step |}.
