(** Lemmas about the time cache model (C18). *)
From Coq Require Import List NArith ZArith Lia Bool ZifyN ZifyNat ZifyBool.
From Verif Require Import Base.BStr Time.TimeCache.
Import ListNotations.
Open Scope Z_scope.

(** ** association lists *)

Lemma dfind_dremove_same k l : dfind k (dremove k l) = None.
Proof.
  induction l as [|[k' e] l IH]; simpl; [reflexivity|].
  destruct (beqb k k') eqn:E; simpl; [exact IH|]. rewrite E. exact IH.
Qed.

Lemma dfind_dremove_other k k' l : k <> k' -> dfind k (dremove k' l) = dfind k l.
Proof.
  intros Hne. induction l as [|[k2 e] l IH]; simpl; [reflexivity|].
  destruct (beqb k' k2) eqn:E; simpl.
  - apply beqb_eq in E. subst k2.
    destruct (beqb k k') eqn:E2; [apply beqb_eq in E2; contradiction|exact IH].
  - destruct (beqb k k2); [reflexivity|exact IH].
Qed.

Lemma dfind_dset_same k e l : dfind k (dset k e l) = Some e.
Proof. unfold dset. simpl. rewrite beqb_refl. reflexivity. Qed.

Lemma dfind_dset_other k k' e l : k <> k' -> dfind k (dset k' e l) = dfind k l.
Proof.
  intros Hne. unfold dset. simpl.
  destruct (beqb k k') eqn:E; [apply beqb_eq in E; contradiction|].
  apply dfind_dremove_other. exact Hne.
Qed.

Lemma dfind_none_notin k l : dfind k l = None <-> ~ In k (dkeys l).
Proof.
  induction l as [|[k' e] l IH]; simpl.
  - split; [intros _ H; exact H|reflexivity].
  - destruct (beqb_spec k k') as [->|Hne].
    + split; [discriminate|]. intros H. exfalso. apply H. left. reflexivity.
    + rewrite IH. split.
      * intros H [H1|H1]; [congruence|contradiction].
      * intros H H1. apply H. right. exact H1.
Qed.

Lemma dfind_some_in k l e : dfind k l = Some e -> In k (dkeys l).
Proof.
  intros H. destruct (in_dec (list_eq_dec N.eq_dec) k (dkeys l)) as [Hin|Hnin]; [exact Hin|].
  apply dfind_none_notin in Hnin. congruence.
Qed.

Lemma dkeys_filter_in p k l : In k (dkeys (filter p l)) -> In k (dkeys l).
Proof.
  unfold dkeys. rewrite !in_map_iff. intros (x & Hx & Hin). apply filter_In in Hin.
  exists x. tauto.
Qed.

Lemma nodup_filter p l : NoDup (dkeys l) -> NoDup (dkeys (filter p l)).
Proof.
  induction l as [|[k e] l IH]; simpl; intros Hnd; [constructor|].
  inversion Hnd as [|? ? Hnin Hnd']; subst.
  destruct (p (k, e)); simpl; [|apply IH; exact Hnd'].
  constructor; [|apply IH; exact Hnd'].
  intros Hin. apply Hnin. eapply dkeys_filter_in. exact Hin.
Qed.

Lemma nodup_dset k e l : NoDup (dkeys l) -> NoDup (dkeys (dset k e l)).
Proof.
  intros Hnd. unfold dset. simpl. constructor.
  - apply dfind_none_notin. apply dfind_dremove_same.
  - apply nodup_filter. exact Hnd.
Qed.

(** on a duplicate-free list, filtering keeps or drops the binding of [k] according to the predicate *)
Lemma dfind_filter p l k : NoDup (dkeys l) ->
  dfind k (filter p l) =
  match dfind k l with
  | Some e => if p (k, e) then Some e else None
  | None => None
  end.
Proof.
  induction l as [|[k' e] l IH]; simpl; intros Hnd; [reflexivity|].
  inversion Hnd as [|? ? Hnin Hnd']; subst.
  destruct (beqb k k') eqn:E.
  - apply beqb_eq in E. subst k'.
    destruct (p (k, e)) eqn:P; simpl.
    + rewrite beqb_refl. reflexivity.
    + apply dfind_none_notin. intros Hin. apply Hnin. eapply dkeys_filter_in. exact Hin.
  - destruct (p (k', e)); simpl; [rewrite E|]; apply IH; exact Hnd'.
Qed.

(** ** one step *)

Definition wf (c : core) : Prop := NoDup (dkeys (c_data c)).
Definition lk (c : core) (k : bytes) : option entry := dfind k (c_data c).
Definition proj (oe : option entry) : life :=
  match oe with Some e => Some (e_ts e, e_span e) | None => None end.

Lemma wf_new d : wf (new_core d).
Proof. constructor. Qed.

Lemma is_old_gtb now e : is_old now e = (now >? e_ts e + e_span e).
Proof. unfold is_old. rewrite !Z.gtb_ltb. destruct (Z.ltb_spec (e_span e) (now - e_ts e)), (Z.ltb_spec (e_ts e + e_span e) now); try reflexivity; lia. Qed.

Lemma lk_sweep c now k : wf c ->
  lk (sweep c now) k = match lk c k with Some e => if is_old now e then None else Some e | None => None end.
Proof.
  intros Hwf. unfold lk, sweep. simpl. rewrite dfind_filter by exact Hwf.
  destruct (dfind k (c_data c)) as [e|]; [|reflexivity]. simpl. destruct (is_old now e); reflexivity.
Qed.

Lemma lk_sweep_clk c clk k : wf c ->
  lk (sweep_clk c clk) k = match lk c k with Some e => if is_old (clk k) e then None else Some e | None => None end.
Proof.
  intros Hwf. unfold lk, sweep_clk. simpl. rewrite dfind_filter by exact Hwf.
  destruct (dfind k (c_data c)) as [e|]; [|reflexivity]. simpl. destruct (is_old (clk k) e); reflexivity.
Qed.

Ltac unfold_ops :=
  unfold step, tc_Add, tc_AddWithSpan, tc_add, tc_Upsert, upsert, cacher_Put, put, cacher_HasOrAdd, has_or_add,
         cacher_Remove, cacher_Clear, clear, with_data in *.

Ltac keyed_cases c k :=
  destruct (is_empty k) eqn:?He; [|destruct (dfind k (c_data c)) eqn:?Hf]; cbn [fst snd c_data c_default].

Lemma step_default c o : c_default (fst (step c o)) = c_default c.
Proof.
  destruct o as [now k|now k d|now k d|now k v|now k v|now [k|]|now|now|now q]; unfold_ops;
    try reflexivity; keyed_cases c k; reflexivity.
Qed.

Lemma step_wf c o : wf c -> wf (fst (step c o)).
Proof.
  unfold wf. intros Hwf.
  destruct o as [now k|now k d|now k d|now k v|now k v|now [k|]|now|now|now q]; unfold_ops.
  - keyed_cases c k; try exact Hwf; apply nodup_dset; exact Hwf.
  - keyed_cases c k; try exact Hwf; apply nodup_dset; exact Hwf.
  - keyed_cases c k; try exact Hwf; apply nodup_dset; exact Hwf.
  - keyed_cases c k; try exact Hwf; apply nodup_dset; exact Hwf.
  - keyed_cases c k; try exact Hwf; apply nodup_dset; exact Hwf.
  - cbn [fst snd c_data c_default]. apply nodup_filter. exact Hwf.
  - exact Hwf.
  - cbn [fst snd c_data c_default]. apply nodup_filter. exact Hwf.
  - cbn [fst snd c_data c_default]. constructor.
  - exact Hwf.
Qed.

Lemma is_empty_nil k : is_empty k = true <-> k = [].
Proof. destruct k; simpl; split; congruence. Qed.

(** the effect of one operation on the entry of [k], in the vocabulary of the property text *)
Ltac life_start k' :=
  unfold_ops; unfold lk; cbn [life_step]; destruct (is_empty k') eqn:?He;
  cbn [fst snd c_data c_default negb]; rewrite ?andb_false_r, ?andb_true_r.

Lemma step_life c o k : wf c ->
  proj (lk (fst (step c o)) k) = life_step (c_default c) k (proj (lk c k)) o.
Proof.
  intros Hwf.
  destruct o as [now k'|now k' d|now k' d|now k' v|now k' v|now [k'|]|now|now|now q].
  - (* Add *) life_start k'; [reflexivity|].
    destruct (beqb_spec k k') as [->|Hne].
    + rewrite dfind_dset_same. reflexivity.
    + rewrite dfind_dset_other by exact Hne. reflexivity.
  - (* AddWithSpan *) life_start k'; [reflexivity|].
    destruct (beqb_spec k k') as [->|Hne].
    + rewrite dfind_dset_same. reflexivity.
    + rewrite dfind_dset_other by exact Hne. reflexivity.
  - (* Upsert *) life_start k'; [reflexivity|].
    destruct (beqb_spec k k') as [->|Hne].
    + destruct (dfind k' (c_data c)) as [ex|] eqn:Hf; cbn [fst snd c_data c_default proj].
      * rewrite dfind_dset_same. cbn [proj e_ts e_span]. f_equal. f_equal.
        destruct (Z.ltb_spec (e_span ex) d); lia.
      * rewrite dfind_dset_same. reflexivity.
    + destruct (dfind k' (c_data c)) as [ex|] eqn:Hf; cbn [fst snd c_data c_default];
        rewrite dfind_dset_other by exact Hne; reflexivity.
  - (* Put *) life_start k'; [reflexivity|].
    destruct (beqb_spec k k') as [->|Hne].
    + rewrite dfind_dset_same. reflexivity.
    + rewrite dfind_dset_other by exact Hne. reflexivity.
  - (* HasOrAdd *) life_start k'; [reflexivity|].
    destruct (beqb_spec k k') as [->|Hne].
    + destruct (dfind k' (c_data c)) as [ex|] eqn:Hf; cbn [fst snd c_data c_default proj].
      * rewrite Hf. reflexivity.
      * rewrite dfind_dset_same. reflexivity.
    + destruct (dfind k' (c_data c)) as [ex|] eqn:Hf; cbn [fst snd c_data c_default]; [reflexivity|].
      rewrite dfind_dset_other by exact Hne. reflexivity.
  - (* Remove (Some k') *) unfold_ops. unfold lk. cbn [fst snd c_data c_default life_step].
    destruct (beqb_spec k k') as [->|Hne].
    + rewrite dfind_dremove_same. reflexivity.
    + rewrite dfind_dremove_other by exact Hne. reflexivity.
  - (* Remove nil *) reflexivity.
  - (* Sweep *) unfold step. cbn [fst]. rewrite lk_sweep by exact Hwf. unfold life_step.
    destruct (lk c k) as [e|]; cbn [proj]; [|reflexivity].
    rewrite is_old_gtb. destruct (now >? e_ts e + e_span e); reflexivity.
  - (* Clear *) reflexivity.
  - (* Query *) reflexivity.
Qed.

(** ** whole histories *)

Lemma run_from_cons c o ops : run_from c (o :: ops) = run_from (fst (step c o)) ops.
Proof. reflexivity. Qed.

Lemma run_from_app c l1 l2 : run_from c (l1 ++ l2) = run_from (run_from c l1) l2.
Proof. unfold run_from. apply fold_left_app. Qed.

Lemma run_app d l1 l2 : run d (l1 ++ l2) = run_from (run d l1) l2.
Proof. unfold run. apply run_from_app. Qed.

Lemma run_from_wf c ops : wf c -> wf (run_from c ops).
Proof.
  revert c. induction ops as [|o ops IH]; intros c Hwf; [exact Hwf|].
  rewrite run_from_cons. apply IH. apply step_wf. exact Hwf.
Qed.

Lemma run_wf d ops : wf (run d ops).
Proof. apply run_from_wf. apply wf_new. Qed.

Lemma run_from_default c ops : c_default (run_from c ops) = c_default c.
Proof.
  revert c. induction ops as [|o ops IH]; intros c; [reflexivity|].
  rewrite run_from_cons, IH. apply step_default.
Qed.

Lemma run_default d ops : c_default (run d ops) = d.
Proof. unfold run. rewrite run_from_default. reflexivity. Qed.

Lemma run_from_life c ops k : wf c ->
  proj (lk (run_from c ops) k) = fold_left (life_step (c_default c) k) ops (proj (lk c k)).
Proof.
  revert c. induction ops as [|o ops IH]; intros c Hwf; [reflexivity|].
  rewrite run_from_cons, IH by (apply step_wf; exact Hwf).
  rewrite step_default, step_life by exact Hwf. reflexivity.
Qed.

(** the entry the model holds for [k] is exactly what the bookkeeping of the property text says *)
Lemma bookkeeping d ops k : proj (lk (run d ops) k) = life_of d k ops.
Proof. unfold run, life_of. rewrite run_from_life by apply wf_new. reflexivity. Qed.

Lemma life_of_app d k l1 l2 : life_of d k (l1 ++ l2) = fold_left (life_step d k) l2 (life_of d k l1).
Proof. unfold life_of. apply fold_left_app. Qed.

(** ** clock *)

Lemma mono_from_last t l x : clock_mono_from t (l ++ [x]) ->
  t <= op_now x /\ Forall (fun o => op_now o <= op_now x) l.
Proof.
  revert t. induction l as [|o l IH]; intros t; simpl.
  - intros [H _]. split; [exact H|constructor].
  - intros [H1 H2]. destruct (IH _ H2) as [H3 H4]. split; [lia|]. constructor; assumption.
Qed.

Lemma mono_last l x : clock_mono (l ++ [x]) -> Forall (fun o => op_now o <= op_now x) l.
Proof.
  destruct l as [|o l]; simpl; [constructor|].
  intros H. destruct (mono_from_last _ _ _ H) as [H1 H2]. constructor; assumption.
Qed.

Lemma mono_from_prefix t l1 l2 : clock_mono_from t (l1 ++ l2) -> clock_mono_from t l1.
Proof.
  revert t. induction l1 as [|o l1 IH]; intros t; simpl; [trivial|].
  intros [H1 H2]. split; [exact H1|]. apply IH. exact H2.
Qed.

Lemma mono_prefix l1 l2 : clock_mono (l1 ++ l2) -> clock_mono l1.
Proof. destruct l1 as [|o l1]; simpl; [trivial|]. apply mono_from_prefix. Qed.

(** ** the bookkeeping along a history *)

(** the time recorded for a key is the clock reading of one of the operations *)
Lemma life_step_ts d k l o t sp : life_step d k l o = Some (t, sp) ->
  (exists sp', l = Some (t, sp')) \/ t = op_now o.
Proof.
  destruct o as [now k'|now k' d'|now k' d'|now k' v|now k' v|now [k'|]|now|now|now q]; simpl.
  - destruct (beqb k k' && negb (is_empty k')); intros H; [right; congruence|left; eauto].
  - destruct (beqb k k' && negb (is_empty k')); intros H; [right; congruence|left; eauto].
  - destruct (beqb k k' && negb (is_empty k')); [|intros H; left; eauto].
    destruct l as [[t0 d0]|]; intros H; right; congruence.
  - destruct (beqb k k' && negb (is_empty k')); intros H; [right; congruence|left; eauto].
  - destruct (beqb k k' && negb (is_empty k')); [|intros H; left; eauto].
    destruct l as [[t0 d0]|]; intros H; [left; eauto|right; congruence].
  - destruct (beqb k k'); intros H; [discriminate|left; eauto].
  - intros H; left; eauto.
  - destruct l as [[t0 d0]|]; [|discriminate]. destruct (now >? t0 + d0); intros H; [discriminate|left; eauto].
  - discriminate.
  - intros H; left; eauto.
Qed.

Lemma life_fold_ts d k ops l t sp : fold_left (life_step d k) ops l = Some (t, sp) ->
  (exists sp', l = Some (t, sp')) \/ exists o, In o ops /\ op_now o = t.
Proof.
  revert l. induction ops as [|o ops IH]; intros l; simpl.
  - intros H. left. eauto.
  - intros H. destruct (IH _ H) as [[sp' H1]|[o' [H1 H2]]].
    + destruct (life_step_ts _ _ _ _ _ _ H1) as [H3|H3]; [left; exact H3|].
      right. exists o. split; [left; reflexivity|congruence].
    + right. exists o'. split; [right; exact H1|exact H2].
Qed.

Lemma life_of_ts d k ops t sp : life_of d k ops = Some (t, sp) -> exists o, In o ops /\ op_now o = t.
Proof.
  intros H. destruct (life_fold_ts _ _ _ _ _ _ H) as [[sp' H1]|H1]; [discriminate|exact H1].
Qed.

(** an operation that does not rewrite [k] and comes before the span elapsed leaves the life of [k] alone *)
Lemma life_step_keep d k t sp o :
  rewrites k o = false -> op_now o <= t + sp -> life_step d k (Some (t, sp)) o = Some (t, sp).
Proof.
  destruct o as [now k'|now k' d'|now k' d'|now k' v|now k' v|now [k'|]|now|now|now q]; simpl; intros Hr Hn;
    try rewrite Hr; try reflexivity; try discriminate.
  - destruct (beqb k k' && negb (is_empty k')); reflexivity.
  - destruct (Z.gtb_spec now (t + sp)); [lia|reflexivity].
Qed.

Lemma life_fold_keep d k t sp ops :
  Forall (fun o => rewrites k o = false) ops -> Forall (fun o => op_now o <= t + sp) ops ->
  fold_left (life_step d k) ops (Some (t, sp)) = Some (t, sp).
Proof.
  induction ops as [|o ops IH]; intros Hr Hn; [reflexivity|].
  inversion Hr; inversion Hn; subst. simpl. rewrite life_step_keep by assumption. apply IH; assumption.
Qed.

(** without operations on [k] its life can only end *)
Lemma life_step_untouched d k l o : touches k o = false -> life_step d k l o = l \/ life_step d k l o = None.
Proof.
  destruct o as [now k'|now k' d'|now k' d'|now k' v|now k' v|now [k'|]|now|now|now q]; simpl; intros Hr;
    try rewrite Hr; try (left; reflexivity); try discriminate.
  destruct l as [[t0 d0]|]; [|left; reflexivity]. destruct (now >? t0 + d0); [right|left]; reflexivity.
Qed.

Lemma life_fold_none d k ops : Forall (fun o => touches k o = false) ops ->
  fold_left (life_step d k) ops None = None.
Proof.
  induction ops as [|o ops IH]; intros Hr; [reflexivity|].
  inversion Hr; subst. simpl.
  destruct (life_step_untouched d k None o) as [H|H]; [assumption| |]; rewrite H; apply IH; assumption.
Qed.

Lemma life_fold_untouched d k l ops : Forall (fun o => touches k o = false) ops ->
  fold_left (life_step d k) ops l = l \/ fold_left (life_step d k) ops l = None.
Proof.
  revert l. induction ops as [|o ops IH]; intros l Hr; [left; reflexivity|].
  inversion Hr; subst. simpl.
  destruct (life_step_untouched d k l o) as [H|H]; [assumption| |]; rewrite H.
  - apply IH. assumption.
  - right. apply life_fold_none. assumption.
Qed.

(** ** answers of the queries *)

Lemma present_reports c k q now : lk c k <> None -> reports_present k q (snd (step c (OQuery now q))).
Proof.
  unfold lk. intros H. destruct (dfind k (c_data c)) as [e|] eqn:Hf; [clear H|congruence].
  destruct q as [k'| |k'|k'|]; simpl.
  - intros ->. unfold has. rewrite Hf. reflexivity.
  - unfold len. destruct (c_data c); [discriminate|]. simpl length. lia.
  - unfold cacher_Get. destruct (dfind k' (c_data c)) eqn:Hf'; simpl; intros ->; [reflexivity|congruence].
  - unfold cacher_Peek, cacher_Get. destruct (dfind k' (c_data c)) eqn:Hf'; simpl; intros ->; [reflexivity|congruence].
  - unfold cacher_Keys. eapply dfind_some_in. exact Hf.
Qed.

Lemma absent_reports c k q now : lk c k = None -> reports_absent k q (snd (step c (OQuery now q))).
Proof.
  unfold lk. intros Hf.
  destruct q as [k'| |k'|k'|]; simpl.
  - intros ->. unfold has. rewrite Hf. reflexivity.
  - trivial.
  - unfold cacher_Get. destruct (dfind k' (c_data c)) eqn:Hf'; simpl; intros ->; [congruence|split; reflexivity].
  - unfold cacher_Peek, cacher_Get. destruct (dfind k' (c_data c)) eqn:Hf'; simpl; intros ->; [congruence|split; reflexivity].
  - unfold cacher_Keys. apply dfind_none_notin. exact Hf.
Qed.

Lemma proj_some oe t sp : proj oe = Some (t, sp) -> exists e, oe = Some e /\ e_ts e = t /\ e_span e = sp.
Proof. destruct oe as [e|]; simpl; [|discriminate]. intros H. inversion H. eauto. Qed.

Lemma proj_none oe : proj oe = None -> oe = None.
Proof. destruct oe; simpl; [discriminate|reflexivity]. Qed.

(** ** the property *)

(** retained: general form *)
Lemma retained_life d pre post k t sp :
  life_of d k pre = Some (t, sp) ->
  Forall (fun o => rewrites k o = false) post ->
  Forall (fun o => op_now o <= t + sp) post ->
  life_of d k (pre ++ post) = Some (t, sp).
Proof. intros Hl Hr Hn. rewrite life_of_app, Hl. apply life_fold_keep; assumption. Qed.

Lemma retained d pre post nowq q k t sp :
  clock_mono (pre ++ post ++ [OQuery nowq q]) ->
  life_of d k pre = Some (t, sp) ->
  Forall (fun o => rewrites k o = false) post ->
  nowq <= t + sp ->
  reports_present k q (snd (step (run d (pre ++ post)) (OQuery nowq q))).
Proof.
  intros Hm Hl Hr Hq. apply present_reports.
  assert (Hn : Forall (fun o => op_now o <= t + sp) post).
  { rewrite app_assoc in Hm. apply mono_last in Hm. apply Forall_app in Hm. destruct Hm as [_ Hm].
    eapply Forall_impl; [|exact Hm]. simpl. intros o Ho. lia. }
  pose proof (retained_life d pre post k t sp Hl Hr Hn) as H.
  rewrite <- bookkeeping in H. apply proj_some in H. destruct H as (e & He & _). congruence.
Qed.

(** the entry itself (timestamp, span, value) is untouched while retained *)
Lemma retained_entry d pre post k e :
  lk (run d pre) k = Some e ->
  Forall (fun o => rewrites k o = false) post ->
  Forall (fun o => op_now o <= e_ts e + e_span e) post ->
  proj (lk (run d (pre ++ post)) k) = Some (e_ts e, e_span e).
Proof.
  intros He Hr Hn. rewrite bookkeeping. apply retained_life; try assumption.
  rewrite <- bookkeeping, He. reflexivity.
Qed.

(** dropped *)
Lemma dropped_life d pre post nows k t sp :
  life_of d k pre = Some (t, sp) ->
  Forall (fun o => touches k o = false) post ->
  nows > t + sp ->
  life_of d k (pre ++ post ++ [OSweep nows]) = None.
Proof.
  intros Hl Hr Hs. rewrite app_assoc, life_of_app. simpl.
  rewrite life_of_app, Hl.
  destruct (life_fold_untouched d k (Some (t, sp)) post Hr) as [H|H]; rewrite H; simpl; [|reflexivity].
  destruct (Z.gtb_spec nows (t + sp)); [reflexivity|lia].
Qed.

Lemma dropped d pre post nows k t sp :
  life_of d k pre = Some (t, sp) ->
  Forall (fun o => touches k o = false) post ->
  nows > t + sp ->
  has (run d (pre ++ post ++ [OSweep nows])) k = false /\
  forall nowq q, reports_absent k q (snd (step (run d (pre ++ post ++ [OSweep nows])) (OQuery nowq q))).
Proof.
  intros Hl Hr Hs. pose proof (dropped_life d pre post nows k t sp Hl Hr Hs) as H.
  rewrite <- bookkeeping in H. apply proj_none in H. split.
  - unfold has. unfold lk in H. rewrite H. reflexivity.
  - intros nowq q. apply absent_reports. exact H.
Qed.

(** once dropped, a key stays out until somebody adds it again *)
Lemma stays_out d pre post k :
  life_of d k pre = None ->
  Forall (fun o => touches k o = false) post ->
  has (run d (pre ++ post)) k = false.
Proof.
  intros Hl Hr. assert (H : life_of d k (pre ++ post) = None).
  { rewrite life_of_app, Hl. apply life_fold_none. exact Hr. }
  rewrite <- bookkeeping in H. apply proj_none in H. unfold has. unfold lk in H. rewrite H. reflexivity.
Qed.

(** Add / AddWithSpan / Put replace the span and restart the countdown *)
Lemma adds_life d k l o sp : adds d k o = Some sp -> life_step d k l o = Some (op_now o, sp).
Proof.
  destruct o as [now k'|now k' d'|now k' d'|now k' v|now k' v|now [k'|]|now|now|now q]; simpl; try discriminate;
    destruct (beqb k k' && negb (is_empty k')); congruence.
Qed.

Lemma add_replaces d pre o k sp : adds d k o = Some sp ->
  life_of d k (pre ++ [o]) = Some (op_now o, sp) /\
  exists e, lk (run d (pre ++ [o])) k = Some e /\ e_ts e = op_now o /\ e_span e = sp.
Proof.
  intros Ha. assert (H : life_of d k (pre ++ [o]) = Some (op_now o, sp)).
  { rewrite life_of_app. simpl. apply adds_life. exact Ha. }
  split; [exact H|]. rewrite <- bookkeeping in H. apply proj_some in H. exact H.
Qed.

(** Upsert: the span becomes the maximum of old and new, the countdown restarts *)
Lemma upsert_life d pre now k sp : k <> [] ->
  life_of d k (pre ++ [OUpsert now k sp]) =
  Some (now, match life_of d k pre with Some (_, sp0) => Z.max sp0 sp | None => sp end).
Proof.
  intros Hk. rewrite life_of_app. simpl. rewrite beqb_refl.
  destruct k as [|b k]; [congruence|]. simpl.
  destruct (life_of d (b :: k) pre) as [[t0 sp0]|]; reflexivity.
Qed.

Lemma upsert_monotone d pre now k sp t0 sp0 : k <> [] ->
  clock_mono (pre ++ [OUpsert now k sp]) ->
  life_of d k pre = Some (t0, sp0) ->
  life_of d k (pre ++ [OUpsert now k sp]) = Some (now, Z.max sp0 sp) /\
  t0 + sp0 <= now + Z.max sp0 sp /\ now + sp <= now + Z.max sp0 sp.
Proof.
  intros Hk Hm Hl. rewrite upsert_life by exact Hk. rewrite Hl. split; [reflexivity|].
  apply mono_last in Hm. destruct (life_of_ts _ _ _ _ _ Hl) as (o & Hin & Ho).
  rewrite Forall_forall in Hm. specialize (Hm o Hin). simpl in Hm. lia.
Qed.

(** HasOrAdd leaves a present key alone (no refresh) and adds an absent one with the default span *)
Lemma hasoradd_life d pre now k v : k <> [] ->
  life_of d k (pre ++ [OHasOrAdd now k v]) =
  match life_of d k pre with Some l => Some l | None => Some (now, d) end.
Proof.
  intros Hk. rewrite life_of_app. simpl. rewrite beqb_refl.
  destruct k as [|b k]; [congruence|]. simpl.
  destruct (life_of d (b :: k) pre) as [[t0 sp0]|]; reflexivity.
Qed.

Lemma hasoradd_out d pre now k v : k <> [] ->
  snd (step (run d pre) (OHasOrAdd now k v)) =
  match life_of d k pre with Some _ => RHasOrAdd true false | None => RHasOrAdd false true end.
Proof.
  intros Hk. rewrite <- bookkeeping. unfold lk. unfold_ops. simpl.
  destruct k as [|b k]; [congruence|]. simpl.
  destruct (dfind (b :: k) (c_data (run d pre))); reflexivity.
Qed.

(** a sweep keeps every entry whose span has not elapsed and deletes every other one *)
Lemma sweep_spec c now k : wf c ->
  lk (sweep c now) k =
  match lk c k with
  | Some e => if now >? e_ts e + e_span e then None else Some e
  | None => None
  end.
Proof.
  intros Hwf. rewrite lk_sweep by exact Hwf. destruct (lk c k) as [e|]; [|reflexivity].
  rewrite is_old_gtb. reflexivity.
Qed.

(** the Go loop reads the clock once per element: with readings [clk k] not earlier than the start [now] of the
    sweep, every entry expired at [now] is deleted, and an entry is kept only if its own reading is inside its span *)
Lemma sweep_clk_spec c clk now k e : wf c -> (forall k', now <= clk k') -> lk c k = Some e ->
  (now > e_ts e + e_span e -> lk (sweep_clk c clk) k = None) /\
  (clk k <= e_ts e + e_span e -> lk (sweep_clk c clk) k = Some e) /\
  (lk (sweep_clk c clk) k = None \/ lk (sweep_clk c clk) k = Some e).
Proof.
  intros Hwf Hclk He. rewrite lk_sweep_clk by exact Hwf. rewrite He. rewrite is_old_gtb.
  specialize (Hclk k). destruct (Z.gtb_spec (clk k) (e_ts e + e_span e)); repeat split; intros; try reflexivity; try lia; auto.
Qed.

Lemma sweep_clk_const c now : sweep_clk c (fun _ => now) = sweep c now.
Proof. reflexivity. Qed.

(** ** front-ends *)

Lemma kstep_allowed kd c o : allowed kd o = true -> kstep kd c o = step c o.
Proof.
  destruct kd; destruct o as [now k|now k d|now k d|now k v|now k v|now k|now|now|now [k'| |k'|k'|]];
    simpl; intros H; try discriminate; reflexivity.
Qed.

Lemma krun_from_run kd c ops : Forall (fun o => allowed kd o = true) ops ->
  fold_left (fun s o => fst (kstep kd s o)) ops c = run_from c ops.
Proof.
  revert c. induction ops as [|o ops IH]; intros c Ha; [reflexivity|].
  inversion Ha; subst. simpl. rewrite kstep_allowed by assumption. apply IH. assumption.
Qed.

Lemma krun_run kd d ops : Forall (fun o => allowed kd o = true) ops -> krun kd d ops = run d ops.
Proof. apply krun_from_run. Qed.

(** everything above transfers to each front-end on the histories made of the operations it offers *)
Lemma frontend_bookkeeping kd d ops k : Forall (fun o => allowed kd o = true) ops ->
  proj (lk (krun kd d ops) k) = life_of d k ops.
Proof. intros Ha. rewrite krun_run by exact Ha. apply bookkeeping. Qed.

Lemma frontend_retained kd d pre post nowq q k t sp :
  Forall (fun o => allowed kd o = true) (pre ++ post) -> allowed kd (OQuery nowq q) = true ->
  clock_mono (pre ++ post ++ [OQuery nowq q]) ->
  life_of d k pre = Some (t, sp) ->
  Forall (fun o => rewrites k o = false) post ->
  nowq <= t + sp ->
  reports_present k q (snd (kstep kd (krun kd d (pre ++ post)) (OQuery nowq q))).
Proof.
  intros Ha Hq. rewrite krun_run by exact Ha. rewrite kstep_allowed by exact Hq. apply retained.
Qed.

Lemma frontend_dropped kd d pre post nows nowq q k t sp :
  Forall (fun o => allowed kd o = true) (pre ++ post) -> allowed kd (OSweep nows) = true ->
  allowed kd (OQuery nowq q) = true ->
  life_of d k pre = Some (t, sp) ->
  Forall (fun o => touches k o = false) post ->
  nows > t + sp ->
  reports_absent k q (snd (kstep kd (krun kd d (pre ++ post ++ [OSweep nows])) (OQuery nowq q))).
Proof.
  intros Ha Hs Hq Hl Hr Hn. rewrite krun_run.
  - rewrite kstep_allowed by exact Hq. apply (dropped d pre post nows k t sp Hl Hr Hn).
  - rewrite app_assoc. apply Forall_app. split; [exact Ha|]. constructor; [exact Hs|constructor].
Qed.

Lemma peer_retained d pre post nowq k t sp :
  Forall (fun o => allowed KPeer o = true) (pre ++ post) ->
  clock_mono (pre ++ post ++ [OQuery nowq (QHas k)]) ->
  life_of d k pre = Some (t, sp) ->
  Forall (fun o => rewrites k o = false) post ->
  nowq <= t + sp ->
  peer_Has (krun KPeer d (pre ++ post)) k = true.
Proof.
  intros Ha Hm Hl Hr Hn.
  pose proof (frontend_retained KPeer d pre post nowq (QHas k) k t sp Ha eq_refl Hm Hl Hr Hn) as H.
  simpl in H. apply H. reflexivity.
Qed.

Lemma peer_dropped d pre post nows k t sp :
  Forall (fun o => allowed KPeer o = true) (pre ++ post) ->
  life_of d k pre = Some (t, sp) ->
  Forall (fun o => touches k o = false) post ->
  nows > t + sp ->
  peer_Has (krun KPeer d (pre ++ post ++ [OSweep nows])) k = false.
Proof.
  intros Ha Hl Hr Hn.
  pose proof (frontend_dropped KPeer d pre post nows nows (QHas k) k t sp Ha eq_refl eq_refl Hl Hr Hn) as H.
  simpl in H. apply H. reflexivity.
Qed.

(** the cacher: the sweep event is one round of its goroutine *)
Lemma cacher_self_sweep d pre post nows k t sp :
  Forall (fun o => allowed KCacher o = true) (pre ++ post) ->
  life_of d k pre = Some (t, sp) ->
  Forall (fun o => touches k o = false) post ->
  nows > t + sp ->
  let c := fst (kstep KCacher (krun KCacher d (pre ++ post)) (OSweep nows)) in
  cacher_Has c k = false /\ cacher_Get c k = (None, false) /\ ~ In k (cacher_Keys c).
Proof.
  intros Ha Hl Hr Hn c.
  assert (Hc : c = run d (pre ++ post ++ [OSweep nows])).
  { subst c. rewrite krun_run by exact Ha. rewrite (app_assoc pre post [OSweep nows]), (run_app d (pre ++ post) [OSweep nows]). reflexivity. }
  pose proof (dropped_life d pre post nows k t sp Hl Hr Hn) as H.
  rewrite <- bookkeeping, <- Hc in H. apply proj_none in H. unfold lk in H.
  unfold cacher_Has, has, cacher_Get, cacher_Keys. rewrite H. repeat split.
  apply dfind_none_notin. exact H.
Qed.

Lemma cacher_put_value d pre now k v post :
  k <> [] ->
  Forall (fun o => rewrites k o = false) post ->
  Forall (fun o => op_now o <= now + d) post ->
  cacher_Get (run d (pre ++ OPut now k v :: post)) k = (v, true).
Proof.
  intros Hk Hr Hn.
  assert (H0 : lk (run d (pre ++ [OPut now k v])) k = Some (mkEntry now d v)).
  { rewrite run_app. cbn [run_from fold_left]. unfold_ops. unfold lk.
    destruct k as [|b k]; [congruence|]. cbn [is_empty fst snd c_data]. rewrite run_default.
    apply dfind_dset_same. }
  replace (pre ++ OPut now k v :: post) with ((pre ++ [OPut now k v]) ++ post) by (rewrite <- app_assoc; reflexivity).
  revert H0. generalize (pre ++ [OPut now k v]). intros h H0.
  rewrite run_app. pose proof (run_wf d h) as Hwf. revert H0 Hwf. generalize (run d h). clear h.
  induction post as [|o post IH]; intros c H0 Hwf.
  - unfold cacher_Get. unfold lk in H0. cbn [run_from fold_left]. rewrite H0. reflexivity.
  - inversion Hr; inversion Hn; subst. rewrite run_from_cons. apply IH; try assumption; [|apply step_wf; exact Hwf].
    clear IH. unfold lk in *.
    destruct o as [now' k'|now' k' d'|now' k' d'|now' k' v'|now' k' v'|now' [k'|]|now'|now'|now' q]; simpl in *; unfold_ops.
    + destruct (is_empty k'); cbn [fst snd c_data]; [exact H0|]. rewrite dfind_dset_other; [exact H0|]. intros ->. rewrite beqb_refl in *. discriminate.
    + destruct (is_empty k'); cbn [fst snd c_data]; [exact H0|]. rewrite dfind_dset_other; [exact H0|]. intros ->. rewrite beqb_refl in *. discriminate.
    + destruct (is_empty k'); [exact H0|]. destruct (dfind k' (c_data c)); cbn [fst snd c_data]; (rewrite dfind_dset_other; [exact H0|]); intros ->; rewrite beqb_refl in *; discriminate.
    + destruct (is_empty k'); cbn [fst snd c_data]; [exact H0|]. rewrite dfind_dset_other; [exact H0|]. intros ->. rewrite beqb_refl in *. discriminate.
    + destruct (is_empty k'); [exact H0|]. destruct (beqb_spec k k') as [->|Hne].
      * rewrite H0. exact H0.
      * destruct (dfind k' (c_data c)); cbn [fst snd c_data]; [exact H0|]. rewrite dfind_dset_other by exact Hne. exact H0.
    + cbn [fst snd c_data]. rewrite dfind_dremove_other; [exact H0|]. intros ->. rewrite beqb_refl in *. discriminate.
    + exact H0.
    + change (lk (sweep c now') k = Some (mkEntry now d v)). rewrite sweep_spec by exact Hwf. unfold lk. rewrite H0.
      cbn [e_ts e_span]. destruct (Z.gtb_spec now' (now + d)); [lia|reflexivity].
    + discriminate.
    + exact H0.
Qed.

(** ** self-contained forms: the history is split at the latest add/upsert of [k] *)

Lemma cons_app {A} (pre : list A) o post : pre ++ o :: post = (pre ++ [o]) ++ post.
Proof. rewrite <- app_assoc. reflexivity. Qed.

Lemma retained_after_add d pre o post nowq q k sp :
  adds d k o = Some sp ->
  clock_mono (pre ++ o :: post ++ [OQuery nowq q]) ->
  Forall (fun o' => rewrites k o' = false) post ->
  nowq <= op_now o + sp ->
  reports_present k q (snd (step (run d (pre ++ o :: post)) (OQuery nowq q))).
Proof.
  intros Ha Hm Hr Hn. rewrite cons_app. rewrite cons_app in Hm.
  apply (retained d (pre ++ [o]) post nowq q k (op_now o) sp Hm); try assumption.
  apply add_replaces. exact Ha.
Qed.

Lemma retained_after_upsert d pre now k sp post nowq q :
  k <> [] ->
  clock_mono (pre ++ OUpsert now k sp :: post ++ [OQuery nowq q]) ->
  Forall (fun o' => rewrites k o' = false) post ->
  nowq <= now + sp ->
  reports_present k q (snd (step (run d (pre ++ OUpsert now k sp :: post)) (OQuery nowq q))).
Proof.
  intros Hk Hm Hr Hn. rewrite cons_app. rewrite cons_app in Hm.
  eapply (retained d (pre ++ [OUpsert now k sp]) post nowq q k now _ Hm).
  - apply upsert_life. exact Hk.
  - exact Hr.
  - destruct (life_of d k pre) as [[t0 sp0]|]; lia.
Qed.

Lemma dropped_after_add d pre o post nows k sp :
  adds d k o = Some sp ->
  Forall (fun o' => touches k o' = false) post ->
  nows > op_now o + sp ->
  has (run d (pre ++ o :: post ++ [OSweep nows])) k = false.
Proof.
  intros Ha Hr Hn. rewrite cons_app.
  apply (dropped d (pre ++ [o]) post nows k (op_now o) sp); try assumption.
  apply add_replaces. exact Ha.
Qed.

(** after an Upsert the sweep must wait for the larger of the two spans *)
Lemma dropped_after_upsert d pre now k sp post nows :
  k <> [] ->
  Forall (fun o' => touches k o' = false) post ->
  nows > now + match life_of d k pre with Some (_, sp0) => Z.max sp0 sp | None => sp end ->
  has (run d (pre ++ OUpsert now k sp :: post ++ [OSweep nows])) k = false.
Proof.
  intros Hk Hr Hn. rewrite cons_app.
  eapply (dropped d (pre ++ [OUpsert now k sp]) post nows k now _).
  - apply upsert_life. exact Hk.
  - exact Hr.
  - exact Hn.
Qed.
