(** C12 — immunized items are never evicted (immunitycache.ImmunityCache, txcache.CrossTxCache).
    Only statements; proofs are in Immunity/*_proofs.v.

    Vocabulary (Immunity/Cache.v): [run cfg ops] = state after the history [ops] of
    HasOrAdd/Put/AddTx ([OAdd]), Remove ([ORemove]), ImmunizeKeys/ImmunizeTxsAgainstEviction
    ([OImmunize]) and Clear ([OClear]) on a fresh cache; [cfg_valid] = the constructor's Verify;
    [op_ok] = item sizes >= 0.  CrossTxCache is the same state machine (AddTx = HasOrAdd (TxHash, tx, Size)),
    so every theorem covers both. *)
From Coq Require Import List NArith ZArith Bool.
From Verif Require Import Base.BStr Immunity.Chunk Immunity.Cache
  Immunity.Chunk_proofs Immunity.Cache_proofs Immunity.Immunity_proofs.
Import ListNotations.

(** Key invariant, every reachable state: per chunk NoDup keys, flag <-> immune key, NoDup immune keys,
    numBytes = sum of sizes, count <= chunk capacity, keys routed to their chunk. *)
Theorem C12_invariant : forall cfg ops, cfg_valid cfg = true -> Forall op_ok ops -> cache_inv (run cfg ops).
Proof. exact run_inv. Qed.

(** a resident item is flagged immune exactly when its key is in immuneKeys *)
Theorem C12_flag_iff_immune_key : forall cfg ops, cfg_valid cfg = true -> Forall op_ok ops -> forall it,
  In it (cache_items (run cfg ops)) ->
  (i_immune it = true <-> In (i_key it) (cache_immune_keys (run cfg ops))).
Proof. exact h_flag_iff_immune. Qed.

(** an add removes only items whose key is not immune (and whose flag is not set) *)
Theorem C12_only_non_immune_evicted : forall cfg ops, cfg_valid cfg = true -> Forall op_ok ops -> forall k p sz it,
  In it (cache_items (run cfg ops)) ->
  ~ In it (cache_items (step (run cfg ops) (OAdd k p sz))) ->
  ~ In (i_key it) (cache_immune_keys (run cfg ops)) /\ i_immune it = false.
Proof. exact h_only_non_immune_evicted. Qed.

(** an add never changes the payload of a present key (any key, the added one included) *)
Theorem C12_no_overwrite : forall cfg ops, cfg_valid cfg = true -> Forall op_ok ops -> forall k p sz k' q q',
  cache_get (run cfg ops) k' = Some q ->
  cache_get (step (run cfg ops) (OAdd k p sz)) k' = Some q' -> q' = q.
Proof. exact h_no_overwrite. Qed.

(** an add of a present key reports (has=true, added=false) and changes nothing at all *)
Theorem C12_no_overwrite_present : forall cfg ops, cfg_valid cfg = true -> Forall op_ok ops -> forall k p sz,
  cache_has (run cfg ops) k = true ->
  cache_add (run cfg ops) k p sz = (run cfg ops, true, false, false).
Proof. exact h_add_present. Qed.

(** target chunk at capacity and all its residents immune: the add of an absent key is refused,
    (false,false), and the cache is unchanged *)
Theorem C12_refused_unchanged : forall cfg ops, cfg_valid cfg = true -> Forall op_ok ops -> forall k p sz,
  let s := run cfg ops in
  let c := get_chunk s (chunk_index (ca_cfg s) k) in
  cache_has s k = false -> is_exceeded c = true ->
  (forall it, In it (ch_items c) -> In (i_key it) (cache_immune_keys s)) ->
  cache_add s k p sz = (s, false, false, false).
Proof. exact h_refused_unchanged. Qed.

(** whatever the reason, an add that does not store leaves the state exactly as it was *)
Theorem C12_not_added_unchanged : forall cfg ops, cfg_valid cfg = true -> Forall op_ok ops -> forall k p sz,
  add_added (run cfg ops) k p sz = false -> step (run cfg ops) (OAdd k p sz) = run cfg ops.
Proof. exact h_not_added_unchanged. Qed.

(** survival, item already present when ImmunizeKeys accepts the key: whatever follows, short of
    Remove k / Clear, Get k still returns the same payload *)
Theorem C12_survives_present : forall cfg ops1 ks ops3 k q,
  cfg_valid cfg = true -> Forall op_ok ops1 -> Forall op_ok ops3 ->
  accepted (run cfg ops1) ks -> In k ks ->
  cache_get (run cfg ops1) k = Some q ->
  Forall (no_withdraw k) ops3 ->
  cache_get (run cfg (ops1 ++ OImmunize ks :: ops3)) k = Some q.
Proof. exact survives_present. Qed.

(** survival, future immunity: ImmunizeKeys accepts k, later (no Remove k / Clear in between) an add
    stores payload p under k; whatever follows, short of Remove k / Clear, Get k = p *)
Theorem C12_survives_added_later : forall cfg ops1 ks ops2 k p sz ops3,
  cfg_valid cfg = true -> Forall op_ok ops1 -> Forall op_ok ops2 -> Forall op_ok ops3 -> (0 <= sz)%Z ->
  accepted (run cfg ops1) ks -> In k ks ->
  Forall (no_withdraw k) ops2 ->
  add_added (run cfg (ops1 ++ OImmunize ks :: ops2)) k p sz = true ->
  Forall (no_withdraw k) ops3 ->
  cache_get (run cfg (ops1 ++ OImmunize ks :: ops2 ++ OAdd k p sz :: ops3)) k = Some p.
Proof. exact survives_later. Qed.

(** "original payload": what Get returns was given by an add of this very history *)
Theorem C12_payload_is_original : forall cfg ops, cfg_valid cfg = true -> Forall op_ok ops -> forall k q,
  cache_get (run cfg ops) k = Some q -> exists sz, In (OAdd k q sz) ops.
Proof. exact h_payload_is_original. Qed.

(** the eviction loop of the model never runs out of fuel (the model artefact is unreachable) *)
Theorem C12_model_fuel_suffices : forall cfg ops, cfg_valid cfg = true -> Forall op_ok ops -> forall k p sz,
  add_fuel_out (run cfg ops) k p sz = false.
Proof. exact h_fuel_suffices. Qed.

(* ---- non-vacuity: concrete histories, by computation *)
Definition ka : bytes := [97%N].
Definition kb : bytes := [98%N].
Definition kc : bytes := [99%N].
Definition cfg1 : cache_cfg := mkCfg 1 4 4 1.          (* one chunk, 4 items, 4 bytes, batch 1 *)
Definition cfg4 : cache_cfg := mkCfg 4 8 100 4.        (* four chunks *)

(** future immunity, then byte pressure: b (older, not immune) is evicted, a (immune) survives *)
Example C12_ex_survive :
  let ops1 := [] in let ks := [ka] in
  let ops2 := [] in let ops3 := [OAdd kb [2%N] 2; OAdd kc [3%N] 3; OAdd kb [4%N] 2] in
  cfg_valid cfg1 = true /\ accepted (run cfg1 ops1) ks /\
  add_added (run cfg1 (ops1 ++ OImmunize ks :: ops2)) ka [1%N] 2 = true /\
  cache_get (run cfg1 (ops1 ++ OImmunize ks :: ops2 ++ OAdd ka [1%N] 2 :: ops3)) ka = Some [1%N] /\
  cache_get (run cfg1 (ops1 ++ OImmunize ks :: ops2 ++ OAdd ka [1%N] 2 :: ops3)) kc = None /\
  cache_keys (run cfg1 (ops1 ++ OImmunize ks :: ops2 ++ OAdd ka [1%N] 2 :: ops3)) = [ka; kb].
Proof. vm_compute. repeat split; reflexivity. Qed.

(** chunk full of immune items: the add of an absent key is refused; the add of a present key reports has *)
Example C12_ex_refused :
  let s := run cfg1 [OAdd ka [1%N] 4; OImmunize [ka]] in
  cache_has s kb = false /\ is_exceeded (get_chunk s (chunk_index (ca_cfg s) kb)) = true /\
  cache_add s kb [2%N] 1 = (s, false, false, false) /\
  cache_add s ka [3%N] 1 = (s, true, false, false).
Proof. vm_compute. repeat split; reflexivity. Qed.

(** several chunks: the three keys are routed to different chunks *)
Example C12_ex_chunks :
  (chunk_index cfg4 ka, chunk_index cfg4 kb, chunk_index cfg4 kc) = (2, 1, 0)%nat /\
  cache_keys (run cfg4 [OAdd ka [1%N] 1; OAdd kb [2%N] 1; OAdd kc [3%N] 1; ORemove kb]) = [kc; ka].
Proof. vm_compute. split; reflexivity. Qed.

Print Assumptions C12_invariant.
Print Assumptions C12_flag_iff_immune_key.
Print Assumptions C12_only_non_immune_evicted.
Print Assumptions C12_no_overwrite.
Print Assumptions C12_no_overwrite_present.
Print Assumptions C12_refused_unchanged.
Print Assumptions C12_not_added_unchanged.
Print Assumptions C12_survives_present.
Print Assumptions C12_survives_added_later.
Print Assumptions C12_payload_is_original.
Print Assumptions C12_model_fuel_suffices.
