(** C03 — selection order is the deterministic fee-per-gas greedy merge across senders.
    Statements only; proofs in Txcache/Order_proofs.v, Selection_det_proofs.v, Insertion_order_proofs.v.
    The deterministic model [select] (Selection.v) is the documented procedure: repeatedly take, among the next
    pending transaction of every sender still in play, the most valuable one ([pick_best]); drop a sender at its
    first gap / unaffordable fee; stop at the first candidate that would break the gas or count budget. *)
From Coq Require Import List NArith ZArith Lia Bool Permutation.
From Verif Require Import Base.BStr Txcache.TxTypes Txcache.SenderList Txcache.Selection Txcache.Pool
  Txcache.Selection_proofs Txcache.Pool_proofs Txcache.Order_proofs Txcache.Pool_props Txcache.Selection_det_proofs
  Txcache.Insertion_order_proofs.
Import ListNotations.
Open Scope N_scope.

(** the comparison (fee per gas unit desc, gas limit desc, hash asc) is a strict total order on distinct hashes *)
Theorem C03_total_order :
  (forall a, more_valuable a a = false) /\
  (forall a b c, more_valuable a b = true -> more_valuable b c = true -> more_valuable a c = true) /\
  (forall a b, hash a <> hash b -> more_valuable a b = true \/ more_valuable b a = true) /\
  (forall a b, more_valuable a b = true <->
     ppu b < ppu a \/ (ppu a = ppu b /\ (gasLimit b < gasLimit a \/ (gasLimit a = gasLimit b /\ bcmp (hash a) (hash b) = Lt)))).
Proof.
  split; [intros a; destruct (more_valuable a a) eqn:E; [exfalso; exact (mv_irrefl a E)|reflexivity]|].
  split; [exact mv_trans|]. split; [exact mv_total|exact mv_spec].
Qed.

(** what the heap pops is THE most valuable head (hence any correct heap gives the same sequence) *)
Theorem C03_pick_is_maximum : forall cs n, NoDup (map (fun c => hash (cur c)) cs) -> best_index cs 0 None = Some n ->
  exists cn, nth_error cs n = Some cn /\ forall k c, nth_error cs k = Some c -> k <> n -> more_valuable (cur cn) (cur c) = true.
Proof. exact best_index_max. Qed.

(** fee per gas unit is floor(fee / gasLimit) for every fee the host can return whose quotient fits the uint64 field
    (fees far beyond 2^64 included); beyond that the field saturates at 2^64-1 *)
Theorem C03_ppu_floor : forall t, (0 <= fee t)%Z -> 0 < gasLimit t -> (fee t / Z.of_N (gasLimit t) <= Z.of_N max_uint64)%Z ->
  Z.of_N (ppu t) = (fee t / Z.of_N (gasLimit t))%Z /\
  (Z.of_N (ppu t) * Z.of_N (gasLimit t) <= fee t < (Z.of_N (ppu t) + 1) * Z.of_N (gasLimit t))%Z.
Proof. exact ppu_floor. Qed.

Theorem C03_ppu_saturates : forall t, 0 < gasLimit t -> (Z.of_N max_uint64 < fee t / Z.of_N (gasLimit t))%Z -> ppu t = max_uint64.
Proof. exact ppu_saturates. Qed.

(** the result does not depend on the order in which the senders' bunches are snapshotted (map iteration order,
    chunk count) *)
Theorem C03_perm : forall sess bs bs' gasRequested maxNum,
  Permutation bs bs' -> NoDup (map hash (concat bs)) ->
  select sess bs gasRequested maxNum = select sess bs' gasRequested maxNum.
Proof. exact select_perm. Qed.

(** ... nor on the order in which the same set of transactions was inserted (no limit hit, eviction disabled) *)
Theorem C03_insertion_order : forall cfg l l' sess gasRequested maxNum,
  hist_ok (adds l) -> NoDup (map hash l) -> roomy cfg l -> Permutation l l' ->
  select_txs (run_pool cfg (adds l)) sess gasRequested maxNum = select_txs (run_pool cfg (adds l')) sess gasRequested maxNum.
Proof. exact insertion_order_select. Qed.

Theorem C03_insertion_order_lists : forall cfg l l',
  hist_ok (adds l) -> NoDup (map hash l) -> roomy cfg l -> Permutation l l' ->
  forall a, pool_for_sender (run_pool cfg (adds l)) a = pool_for_sender (run_pool cfg (adds l')) a.
Proof. exact insertion_order_lists. Qed.

(** repeatable, and the pool is left unchanged: [select] is a function of (session, bunches, limits) and the
    selection step of a history does not change the pool *)
Theorem C03_pure : forall cfg p sess g m, pstep cfg p (PSelect sess g m) = p.
Proof. reflexivity. Qed.

(** lowering maxNum or gasRequested yields a prefix *)
Theorem C03_prefix_limits : forall sess bs g g' m m', g' <= g -> (m' <= m)%nat ->
  exists ext, fst (select sess bs g m) = fst (select sess bs g' m') ++ ext.
Proof. exact select_prefix. Qed.

(** lowering the time budget (= stopping after fewer loop iterations) yields a prefix *)
Theorem C03_prefix_time : forall sess g m fuel fuel' s, (fuel' <= fuel)%nat ->
  exists ext, rev (selected (loop sess g m pick_best fuel s)) = rev (selected (loop sess g m pick_best fuel' s)) ++ ext.
Proof. intros sess g m fuel fuel' s H. apply extends_prefix. apply loop_prefix_fuel. exact H. Qed.

(** the bunches of every reachable pool satisfy the hypotheses of C01/C02/C03 *)
Theorem C03_reachable_bunches : forall cfg ops, hist_ok ops ->
  bunches_ok (bunches (run_pool cfg ops)) /\ NoDup (map hash (concat (bunches (run_pool cfg ops)))).
Proof.
  intros cfg ops H. pose proof (run_pool_inv cfg ops H) as HI. split; [apply inv_bunches_ok; exact HI|apply inv_hash_NoDup; exact HI].
Qed.

(** non-vacuity: PPU ties broken by gas limit then by hash; a fee of 2^64 + 100000 over gas 50000 outranks PPU 1000 *)
Definition ex_tx h s (gl : N) (fee_ : Z) : tx := mkTx h s 0 gl 100 100%Z fee_ None [].
Definition ex_bunches : list (list tx) :=
  [ [ex_tx [1] [65] 50000 50000000%Z]; [ex_tx [2] [66] 50000 18446744073709651616%Z];
    [ex_tx [3] [67] 75000 75000000%Z]; [ex_tx [4] [68] 50000 50000000%Z] ].
Definition ex_session : session := mkSession (fun _ => Some (0, 36893488147419103232%Z)) (fun _ => false).
Example C03_nonvacuous :
  map hash (fst (select ex_session ex_bunches 10000000 100)) = [[2]; [3]; [1]; [4]] /\
  map hash (fst (select ex_session ex_bunches 10000000 2)) = [[2]; [3]] /\
  ppu (ex_tx [2] [66] 50000 18446744073709651616%Z) = 368934881474193.
Proof. vm_compute. repeat split; reflexivity. Qed.

Print Assumptions C03_total_order.
Print Assumptions C03_pick_is_maximum.
Print Assumptions C03_ppu_floor.
Print Assumptions C03_ppu_saturates.
Print Assumptions C03_perm.
Print Assumptions C03_insertion_order.
Print Assumptions C03_insertion_order_lists.
Print Assumptions C03_pure.
Print Assumptions C03_prefix_limits.
Print Assumptions C03_prefix_time.
Print Assumptions C03_reachable_bunches.
