(** C03b — the heap behind C03 (selection) and C07 (eviction) is Go's container/heap, and it pops the extreme element.
    Statements only; definitions in Txcache/Heap.v (a transcription of GOROOT/src/container/heap/heap.go over the
    slice of txcache/transactionsHeap.go), proofs in Txcache/Heap_proofs.v.

    The selection model (Selection.v: [pick_best] = [best_index]) and the eviction model (Pool.v: [worst_index])
    replace the heap by "the index of the extreme cursor"; C03_pick_is_maximum / Order_proofs.v prove that this
    index designates THE extreme element.  The theorems below prove that [heap.Pop], run on any slice satisfying the
    heap invariant over the same cursors, returns that same element — so "container/heap pops the extreme element"
    is no longer an assumption of C03/C07 but a theorem about the transcription of heap.go. *)
From Coq Require Import List Arith NArith ZArith Bool Permutation.
From Verif Require Import Base.BStr Txcache.TxTypes Txcache.Selection Txcache.Pool Txcache.Heap Txcache.Heap_proofs
  Txcache.Pool_proofs Txcache.Pool_props Txcache.HeapLoop Txcache.HeapLoop_proofs.
Import ListNotations.
Open Scope nat_scope.

Section Generic.
  Context {A : Type}.
  Variable less : A -> A -> bool.      (* h.less, on the elements *)
  Variable lt : A -> A -> Prop.
  Hypothesis less_lt : forall a b, less a b = true <-> lt a b.
  Hypothesis lt_irrefl : forall a, ~ lt a a.
  Hypothesis lt_trans : forall a b c, lt a b -> lt b c -> lt a c.
  (** strict weak order: incomparability is transitive.  Weaker than "total on distinct elements"
      (see [C03_heap_pop_is_extreme_total_order]); it is what [more_valuable] satisfies on ALL transactions,
      including distinct transactions with the same hash. *)
  Hypothesis lt_ntrans : forall a b c, ~ lt a b -> ~ lt b c -> ~ lt a c.

  (** heap.Pop on a non-empty heap whose elements are pairwise distinct and totally ordered returns an element
      that strictly precedes every remaining one; the rest is again a heap, nothing is lost or duplicated *)
  Theorem C03_heap_pop_is_extreme : forall l, heap_ok less l -> l <> [] -> NoDup l ->
    (forall a b, In a l -> In b l -> a <> b -> lt a b \/ lt b a) ->
    exists m l', pop less l = Some (m, l') /\ heap_ok less l' /\ Permutation l (m :: l') /\ forall y, In y l' -> lt m y.
  Proof. exact (pop_least less lt less_lt lt_irrefl lt_trans lt_ntrans). Qed.

  (** heap.Init establishes the invariant from any slice; heap.Push and heap.Pop preserve it; all three only
      permute (Push adds x, Pop removes what it returns, which is the root and is preceded by nothing) *)
  Theorem C03_heap_init_push_pop_invariant :
    (forall l, heap_ok less (init less l) /\ Permutation l (init less l)) /\
    (forall l x, heap_ok less l -> heap_ok less (push less l x) /\ Permutation (x :: l) (push less l x)) /\
    (forall l, heap_ok less l -> l <> [] ->
       exists m l', pop less l = Some (m, l') /\ heap_ok less l' /\ Permutation l (m :: l') /\ nth_error l 0 = Some m /\
                    (forall y, In y l' -> ~ lt y m)).
  Proof. exact (init_push_pop_invariant less lt less_lt lt_irrefl lt_trans lt_ntrans). Qed.
End Generic.

(** the up/down loops of heap.go end within the fuel Heap.v gives them (S n for down(i, n), S j for up(j)); any
    sufficient fuel gives the same result (no hypothesis on [less]) *)
Theorem C03_heap_loops_within_fuel : forall (A : Type) (less : A -> A -> bool),
  (forall fuel l i n, n - i < fuel -> down_fuel less fuel l i n = Some (down less l i n)) /\
  (forall fuel l j, j < fuel -> up_fuel less fuel l j = Some (up less l j)).
Proof. exact (@loops_within_fuel). Qed.

(** the same for a strict total order stated the usual way *)
Theorem C03_heap_pop_is_extreme_total_order : forall (A : Type) (less : A -> A -> bool) (lt : A -> A -> Prop),
  (forall a b, less a b = true <-> lt a b) -> (forall a, ~ lt a a) -> (forall a b c, lt a b -> lt b c -> lt a c) ->
  (forall a b, a <> b -> lt a b \/ lt b a) ->
  forall l, heap_ok less l -> l <> [] -> NoDup l ->
  exists m l', pop less l = Some (m, l') /\ heap_ok less l' /\ Permutation l (m :: l') /\ forall y, In y l' -> lt m y.
Proof. exact (@pop_least_total_order). Qed.

(** selection (max-heap, less(i,j) = items[i] more valuable than items[j]): from any heap [h] over the model's
    cursors [cs] (heads with pairwise distinct hashes), heap.Pop returns exactly the cursor that [pick_best]
    (= [best_index cs 0 None]) designates, and leaves a heap over the cursors the model keeps ([others]) *)
Theorem C03_heap_pop_is_pick_best : forall h cs, heap_ok sel_less h -> Permutation h cs ->
  NoDup (map (fun c => hash (cur c)) cs) -> cs <> [] ->
  exists c h' n others,
    pop sel_less h = Some (c, h') /\ heap_ok sel_less h' /\ Permutation h (c :: h') /\
    best_index cs 0 None = Some n /\ nth_error cs n = Some c /\
    take_nth n cs = Some (c, others) /\ Permutation h' others.
Proof. exact heap_pop_is_pick_best. Qed.

(** eviction (min-heap, less(i,j) = items[j] more valuable than items[i]): heap.Pop returns exactly the cursor that
    [worst_index cs 0 None] designates *)
Theorem C07_heap_pop_is_worst : forall h cs, heap_ok evi_less h -> Permutation h cs ->
  NoDup (map (fun c => hash (ecur c)) cs) -> cs <> [] ->
  exists c h' n others,
    pop evi_less h = Some (c, h') /\ heap_ok evi_less h' /\ Permutation h (c :: h') /\
    worst_index cs 0 None = Some n /\ nth_error cs n = Some c /\
    take_nth n cs = Some (c, others) /\ Permutation h' others.
Proof. exact heap_pop_is_worst. Qed.

(** both sides stop together on the empty set of cursors *)
Theorem C03_heap_pop_empty : forall h, Permutation h (@nil cursor) -> pop sel_less h = None /\ best_index [] 0 None = None.
Proof. exact heap_pop_empty_sel. Qed.
Theorem C07_heap_pop_empty : forall h, Permutation h (@nil ecursor) -> pop evi_less h = None /\ worst_index [] 0 None = None.
Proof. exact heap_pop_empty_evi. Qed.

(** ---------- the whole loops, end to end ----------
    HeapLoop.v transcribes [selectTransactionsFromBunches] and [evictLeastLikelyToSelectTransactions] WITH their
    heap (heap.Init, one heap.Push per bunch, heap.Pop / heap.Push in the loop).  They compute exactly what the
    models used everywhere else (Selection.v with [pick_best], Pool.v with [worst_index]) compute. *)

(** selection: same transactions in the same order, same accumulated gas — every session, every list of bunches
    with pairwise distinct hashes, every gas / count limit *)
Theorem C03_heap_select_is_select : forall sess bs g m, NoDup (map hash (concat bs)) ->
  heap_select sess bs g m = select sess bs g m.
Proof. exact heap_select_is_select. Qed.

(** ... and after any number of iterations (what a time budget that stops the loop early observes): same selection so
    far, same gas, same consumed balances, the heap slice is a heap over the model's cursors *)
Theorem C03_heap_loop_is_loop : forall sess bs g m fuel, NoDup (map hash (concat bs)) ->
  let hs := hloop sess g m fuel (hinit_st bs) in let ms := loop sess g m pick_best fuel (init_st bs) in
  selected hs = selected ms /\ accGas hs = accGas ms /\ consumed hs = consumed ms /\
  Permutation (cursors hs) (cursors ms) /\ heap_ok sel_less (cursors hs).
Proof. exact heap_loop_is_loop. Qed.

(** ... in particular on every reachable pool *)
Theorem C03_heap_select_reachable : forall cfg ops sess g m, hist_ok ops ->
  heap_select sess (bunches (run_pool cfg ops)) g m = select_txs (run_pool cfg ops) sess g m.
Proof.
  intros cfg ops sess g m H. apply heap_select_is_select. apply inv_hash_NoDup. apply run_pool_inv. exact H.
Qed.

(** eviction: all passes, the resulting pool is the same — every pool satisfying the invariant, every configuration *)
Theorem C07_heap_eviction_is_eviction : forall cfg p, Inv p -> hdo_eviction cfg p = do_eviction cfg p.
Proof. exact heap_eviction_is_eviction. Qed.

Theorem C07_heap_eviction_reachable : forall cfg ops, hist_ok ops ->
  hdo_eviction cfg (run_pool cfg ops) = do_eviction cfg (run_pool cfg ops).
Proof. intros cfg ops H. apply heap_eviction_is_eviction. apply run_pool_inv. exact H. Qed.

(** the heap loop runs (four senders, PPU ties, a fee above 2^64): same answer as the model *)
Example C03_heap_select_runs :
  let t h s (gl : N) (f : Z) := mkTx h s 0%N gl 100%N 100%Z f None [] in
  let bs := [ [t [1%N] [65%N] 50000%N 50000000%Z; t [5%N] [65%N] 50000%N 60000000%Z]; [t [2%N] [66%N] 50000%N 18446744073709651616%Z];
              [t [3%N] [67%N] 75000%N 75000000%Z]; [t [4%N] [68%N] 50000%N 50000000%Z] ] in
  let sess := mkSession (fun _ => Some (0%N, 36893488147419103232%Z)) (fun _ => false) in
  map hash (fst (heap_select sess bs 10000000%N 100)) = [[2%N]; [3%N]; [1%N]; [4%N]] /\
  heap_select sess bs 10000000%N 100 = select sess bs 10000000%N 100 /\
  NoDup (map hash (concat bs)).
Proof. vm_compute. split; [reflexivity|split; [reflexivity|]]. repeat constructor; simpl; intuition discriminate. Qed.

(** the transcription runs; the values are those Go's container/heap produces on the same input
    (checked against `go run` with h.Less(i,j) = h[i] < h[j]) *)
Example C03_heap_runs :
  let h0 := init Nat.ltb [5; 3; 8; 1; 9; 2; 7] in
  h0 = [1; 3; 2; 5; 9; 8; 7] /\
  pop Nat.ltb h0 = Some (1, [2; 3; 7; 5; 9; 8]) /\
  push Nat.ltb h0 0 = [0; 1; 2; 3; 9; 8; 7; 5] /\
  (* heap sort: Init, then Pop until empty *)
  (fix drain (k : nat) (h : list nat) : list nat :=
     match k with O => [] | S k' => match pop Nat.ltb h with Some (m, h') => m :: drain k' h' | None => [] end end)
    8 (push Nat.ltb h0 0) = [0; 1; 2; 3; 5; 7; 8; 9].
Proof. vm_compute. repeat split. Qed.

(** the hypotheses of the generic theorems are satisfiable: [Nat.ltb] / [lt] on pairwise distinct numbers *)
Example C03_heap_hypotheses_satisfiable :
  (forall a b, Nat.ltb a b = true <-> a < b) /\ (forall a, ~ a < a) /\ (forall a b c, a < b -> b < c -> a < c) /\
  (forall a b c, ~ a < b -> ~ b < c -> ~ a < c) /\ (forall a b, a <> b -> a < b \/ b < a) /\
  NoDup [1; 3; 2; 5; 9; 8; 7].
Proof.
  split; [exact Nat.ltb_lt|]. split; [exact Nat.lt_irrefl|]. split; [exact Nat.lt_trans|].
  split; [intros a b c H1 H2 H3; apply H1; destruct (Nat.lt_ge_cases a b) as [L|L]; [exact L|];
          exfalso; apply H2; eapply Nat.le_lt_trans; eassumption|].
  split; [intros a b H; apply Nat.lt_gt_cases, H|].
  repeat constructor; simpl; intuition discriminate.
Qed.

(** a max-heap of three selection cursors (distinct hashes, fee per gas 1, 3, 2): Pop returns the one
    [best_index] designates *)
Example C03_heap_pop_cursors :
  let t (h : N) (f : Z) := mkTx [h] [h] 0%N 10%N 1%N 0%Z f None [] in
  let c (h : N) (f : Z) := mkCursor [h] (t h f) [] None in
  let cs := [c 1%N 10%Z; c 2%N 30%Z; c 3%N 20%Z] in
  let h := init sel_less cs in
  NoDup (map (fun c => hash (cur c)) cs) /\
  option_map (fun p => hash (cur (fst p))) (pop sel_less h) = Some [2%N] /\
  best_index cs 0 None = Some 1.
Proof. vm_compute. split; [repeat constructor; simpl; intuition discriminate|split; reflexivity]. Qed.

Print Assumptions C03_heap_pop_is_extreme.
Print Assumptions C03_heap_init_push_pop_invariant.
Print Assumptions C03_heap_loops_within_fuel.
Print Assumptions C03_heap_pop_is_extreme_total_order.
Print Assumptions C03_heap_pop_is_pick_best.
Print Assumptions C07_heap_pop_is_worst.
Print Assumptions C03_heap_pop_empty.
Print Assumptions C07_heap_pop_empty.
Print Assumptions C03_heap_select_is_select.
Print Assumptions C03_heap_loop_is_loop.
Print Assumptions C03_heap_select_reachable.
Print Assumptions C07_heap_eviction_is_eviction.
Print Assumptions C07_heap_eviction_reachable.
