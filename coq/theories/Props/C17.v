(** C17 — the spilling cacher adapter never loses an entry.
    Only statements, each closed by [exact] of a lemma proved in Lru/Adapter_proofs.v.

    The adapter is storageCacherAdapter over capacityLRU(cap, mb) and a map persister (memorydb);
    [newAdapter] is [Some] exactly for cap >= 1 and mb >= 1.  The domain is the one of the property:
    [ops] is an ARBITRARY history of Put/HasOrAdd/Get/Has/Peek/SizeInBytesContained/MaxSize in which each
    key is bound to one immutable, non-empty value ([bind]) and sizes are >= 0 (any size, beyond the byte
    capacity included; re-puts with another size included): [Forall (wf_op bind) ops].  Such a history
    never closes the adapter ("backed by an open persister").  [wf_c] is the same domain with Close
    allowed at any point, any number of times: the theorems about Close are stated over it.
    [puts ops] = the keys handed to Put or to HasOrAdd so far. *)
From Coq Require Import List ZArith Bool.
From Verif Require Import Base.BStr Lru.LruTypes Lru.CapacityLru Lru.Adapter Lru.Adapter_proofs.
Import ListNotations.
Open Scope Z_scope.

(** every key put so far - through Put or through HasOrAdd - is reported by Has and returned by Get
    with its value *)
Theorem C17_no_loss : forall bind cap mb a0 ops, newAdapter cap mb = Some a0 -> Forall (wf_op bind) ops ->
  forall k, In k (puts ops) ->
  ad_Has (arun a0 ops) k = true /\ snd (ad_Get (arun a0 ops) k) = Some (bind k).
Proof. exact no_loss. Qed.

(** an entry that is in the memory tier before a step and not after it is, after that step,
    in the persister with its value *)
Theorem C17_spill_before_drop : forall bind cap mb a0 ops o a' r, newAdapter cap mb = Some a0 ->
  Forall (wf_op bind) ops -> wf_op bind o ->
  astep (arun a0 ops) o = (a', r) ->
  forall e, In e (entries (mem (arun a0 ops))) -> ~ In (e_key e) (Keys (mem a')) ->
  db_get (e_key e) (db a') = Some (e_val e).
Proof. exact spill_before_drop. Qed.

(** Put returns true iff some entry left the memory tier in this call (and it is then in the persister) *)
Theorem C17_flag : forall bind cap mb a0 ops k v sz a' f, newAdapter cap mb = Some a0 ->
  Forall (wf_op bind) ops -> wf_op bind (APut k v sz) ->
  astep (arun a0 ops) (APut k v sz) = (a', ARPut f) ->
  (f = true <-> exists e, In e (entries (mem (arun a0 ops))) /\ ~ In (e_key e) (Keys (mem a'))
                          /\ db_get (e_key e) (db a') = Some (e_val e)).
Proof. exact put_flag. Qed.

(** non-vacuity: capacity 2 items / 100 bytes; a and b of 40 bytes, then b re-put with 90 bytes: a is
    spilled (this is the F8 history: before the fix a was dropped unreported), Put says so, Has/Get
    still serve a from the persister; then c of 150 bytes spills b and stays alone over the byte capacity *)
Definition ka : bytes := [97%N]. Definition kb : bytes := [98%N]. Definition kc : bytes := [99%N].
Definition bind_ex (k : bytes) : bytes := 118%N :: k.
Definition ex_ops : list aop :=
  [APut ka (bind_ex ka) 40; APut kb (bind_ex kb) 40; APut kb (bind_ex kb) 90; AGet ka; APut kc (bind_ex kc) 150].

Example C17_nonvacuous :
  Forall (wf_op bind_ex) ex_ops /\
  match newAdapter 2 100 with
  | Some a0 =>
      snd (astep (arun a0 (firstn 2 ex_ops)) (APut kb (bind_ex kb) 90)) = ARPut true /\
      Keys (mem (arun a0 ex_ops)) = [kc] /\
      map fst (db (arun a0 ex_ops)) = [kb; ka] /\
      ad_Has (arun a0 ex_ops) ka = true /\ snd (ad_Get (arun a0 ex_ops) ka) = Some (bind_ex ka)
  | None => False
  end.
Proof.
  split.
  - repeat constructor; unfold bind_ex; try discriminate; try reflexivity.
  - vm_compute. repeat split; reflexivity.
Qed.

(** ---- HasOrAdd.  Its first flag says whether the key was in one of the two tiers; when it was,
    nothing changes and the second flag is false; when it was not, the entry is in the memory tier
    afterwards (and by C17_no_loss never lost) and the second flag is PUT'S RETURN VALUE: true iff some
    entry left the memory tier in this call (and is then in the persister) *)
Theorem C17_hasoradd_flags : forall bind cap mb a0 ops k v sz a' has added, newAdapter cap mb = Some a0 ->
  Forall (wf_op bind) ops -> wf_op bind (AHasOrAdd k v sz) ->
  astep (arun a0 ops) (AHasOrAdd k v sz) = (a', ARHasOrAdd has added) ->
  let a := arun a0 ops in
  (has = true <-> In k (Keys (mem a)) \/ db_get k (db a) <> None) /\
  (has = true -> a' = a /\ added = false) /\
  (has = false ->
     Peek (mem a') k = Some v /\
     (added = true <-> exists e, In e (entries (mem a)) /\ ~ In (e_key e) (Keys (mem a'))
                                 /\ db_get (e_key e) (db a') = Some (e_val e))).
Proof. exact hasoradd_flags. Qed.

(** FINDING (the name "added" of types.Cacher.HasOrAdd's second result read literally): "added = true
    iff the entry was inserted" is false of the code.  HasOrAdd(a) on the fresh adapter inserts a and
    returns (has=false, added=false), because [added] is Put's "something was spilled" flag. *)
Theorem C17_hasoradd_added_means_inserted_refuted : exists bind cap mb a0 ops k v sz a',
  newAdapter cap mb = Some a0 /\ Forall (wf_op bind) ops /\ wf_op bind (AHasOrAdd k v sz) /\
  astep (arun a0 ops) (AHasOrAdd k v sz) = (a', ARHasOrAdd false false) /\
  Peek (mem (arun a0 ops)) k = None /\ Peek (mem a') k = Some v.
Proof.
  exists bind_ex, 2, 100, (mkAdapter (mkClru [] 2 100 0 false) [] 0 false), [], ka, (bind_ex ka), 40.
  eexists. split; [reflexivity|]. split; [constructor|]. split; [repeat split; unfold bind_ex; try discriminate; reflexivity|].
  vm_compute. repeat split; reflexivity.
Qed.

(** ---- Close, stated exactly.  Close sets dbIsClosed, resets the spill counter and leaves both tiers
    as they are (memorydb.Close does nothing and returns nil) *)
Theorem C17_close : forall a, astep a AClose = (mkAdapter (mem a) (db a) 0 true, ARClose).
Proof. exact close_effect. Qed.

(** after a Close anywhere in ANY history (no domain restriction at all: Remove, Clear, further Closes,
    any values and sizes) the adapter stays closed and the persister is never written or pruned again:
    its content is the one it had when Close was called *)
Theorem C17_close_freezes_persister : forall a0 pre post,
  dbIsClosed (arun a0 (pre ++ AClose :: post)) = true /\
  db (arun a0 (pre ++ AClose :: post)) = db (arun a0 pre).
Proof. exact close_freezes_db. Qed.

(** "no loss" does NOT survive Close: capacity 1; Put a; Close; Put b - a is evicted from the memory
    tier, Put returns len(evictedValues) != 0 without spilling, a is in neither tier, Has/Get do not
    find it *)
Theorem C17_no_loss_after_close_refuted : exists bind cap mb a0 ops k,
  newAdapter cap mb = Some a0 /\ Forall (wf_c bind) ops /\ In k (puts ops) /\
  ad_Has (arun a0 ops) k = false /\ snd (ad_Get (arun a0 ops) k) = None /\
  Peek (mem (arun a0 ops)) k = None /\ db_get k (db (arun a0 ops)) = None.
Proof.
  exists bind_ex, 1, 100, (mkAdapter (mkClru [] 1 100 0 false) [] 0 false),
    [APut ka (bind_ex ka) 40; AClose; APut kb (bind_ex kb) 40], ka.
  split; [reflexivity|]. split.
  - repeat constructor; unfold bind_ex; try discriminate; reflexivity.
  - vm_compute. repeat split; try reflexivity. left. reflexivity.
Qed.

(** what still holds once the adapter is closed (after any history of the domain with Close in it):
    Keys lists the memory tier only; a key in the memory tier is reported by Has and returned by Get with
    its value; a key NOT in the memory tier is not found - Has false, Get (nil, false) - whatever the
    persister holds *)
Theorem C17_closed_serves_memory_only : forall bind cap mb a0 ops, newAdapter cap mb = Some a0 ->
  Forall (wf_c bind) ops ->
  let a := arun a0 ops in
  dbIsClosed a = true ->
  ad_Keys a = Keys (mem a) /\
  forall k,
    (In k (Keys (mem a)) -> ad_Has a k = true /\ snd (ad_Get a k) = Some (bind k)) /\
    (~ In k (Keys (mem a)) -> ad_Has a k = false /\ snd (ad_Get a k) = None).
Proof. exact closed_serves_memory_only. Qed.

(** in particular a key spilled BEFORE the Close (or anything else the persister holds) and not in the
    memory tier is no longer found although the persister still holds exactly what it held at the Close *)
Theorem C17_spilled_then_closed_not_found : forall bind cap mb a0 pre post k, newAdapter cap mb = Some a0 ->
  Forall (wf_c bind) pre -> Forall (wf_c bind) post ->
  let a := arun a0 (pre ++ AClose :: post) in
  ~ In k (Keys (mem a)) ->
  ad_Has a k = false /\ snd (ad_Get a k) = None /\ db_get k (db a) = db_get k (db (arun a0 pre)).
Proof. exact spilled_then_closed_not_found. Qed.

(** non-vacuity of the HasOrAdd / Close statements: capacity 2 / 100 bytes.  HasOrAdd a, HasOrAdd b
    (both inserted, added=false), HasOrAdd c spills a (added=true), HasOrAdd a finds a in the persister
    (has=true); Close; a (spilled before) is no longer found although the persister holds it; b and c
    (memory tier) are; Put a evicts b WITHOUT spilling: b is lost; SizeInBytesContained / MaxSize *)
Definition ex_ops2 : list aop :=
  [AHasOrAdd ka (bind_ex ka) 40; AHasOrAdd kb (bind_ex kb) 40; AHasOrAdd kc (bind_ex kc) 40;
   AHasOrAdd ka (bind_ex ka) 40].
Example C17_hasoradd_close_nonvacuous :
  Forall (wf_op bind_ex) ex_ops2 /\ Forall (wf_c bind_ex) (ex_ops2 ++ [AClose; APut ka (bind_ex ka) 40]) /\
  match newAdapter 2 100 with
  | Some a0 =>
      snd (astep a0 (AHasOrAdd ka (bind_ex ka) 40)) = ARHasOrAdd false false /\
      snd (astep (arun a0 (firstn 2 ex_ops2)) (AHasOrAdd kc (bind_ex kc) 40)) = ARHasOrAdd false true /\
      snd (astep (arun a0 (firstn 3 ex_ops2)) (AHasOrAdd ka (bind_ex ka) 40)) = ARHasOrAdd true false /\
      Keys (mem (arun a0 ex_ops2)) = [kb; kc] /\ map fst (db (arun a0 ex_ops2)) = [ka] /\
      ad_Has (arun a0 ex_ops2) ka = true /\
      let a1 := arun a0 (ex_ops2 ++ [AClose]) in
      dbIsClosed a1 = true /\ numValuesInStorage a1 = 0 /\
      ad_Has a1 ka = false /\ snd (ad_Get a1 ka) = None /\ db_get ka (db a1) = Some (bind_ex ka) /\
      ad_Has a1 kb = true /\ snd (ad_Get a1 kc) = Some (bind_ex kc) /\ ad_Keys a1 = [kb; kc] /\
      snd (astep a1 (APut ka (bind_ex ka) 40)) = ARPut true /\
      let a2 := arun a0 (ex_ops2 ++ [AClose; APut ka (bind_ex ka) 40]) in
      Keys (mem a2) = [kc; ka] /\ map fst (db a2) = [ka] /\ ad_Has a2 kb = false /\
      snd (astep a2 ASizeInBytesContained) = ARSize 80 /\
      snd (astep a2 AMaxSize) = ARMaxSize 9223372036854775807
  | None => False
  end.
Proof.
  split; [repeat constructor; unfold bind_ex; try discriminate; reflexivity|].
  split; [repeat constructor; unfold bind_ex; try discriminate; reflexivity|].
  vm_compute. repeat split; reflexivity.
Qed.

Print Assumptions C17_no_loss.
Print Assumptions C17_spill_before_drop.
Print Assumptions C17_flag.
Print Assumptions C17_hasoradd_flags.
Print Assumptions C17_hasoradd_added_means_inserted_refuted.
Print Assumptions C17_close.
Print Assumptions C17_close_freezes_persister.
Print Assumptions C17_no_loss_after_close_refuted.
Print Assumptions C17_closed_serves_memory_only.
Print Assumptions C17_spilled_then_closed_not_found.
