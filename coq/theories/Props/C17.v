(** C17 — the spilling cacher adapter never loses an entry.
    Only statements, each closed by [exact] of a lemma proved in Lru/Adapter_proofs.v.

    The adapter is storageCacherAdapter over capacityLRU(cap, mb) and an open map persister;
    [newAdapter] is [Some] exactly for cap >= 1 and mb >= 1.  The domain is the one of the property:
    [ops] is an ARBITRARY history of Put/Get/Has/Peek in which each key is bound to one immutable,
    non-empty value ([bind]) and sizes are >= 0 (any size, beyond the byte capacity included; re-puts
    with another size included): [Forall (wf_op bind) ops]. *)
From Coq Require Import List ZArith Bool.
From Verif Require Import Base.BStr Lru.LruTypes Lru.CapacityLru Lru.Adapter Lru.Adapter_proofs.
Import ListNotations.
Open Scope Z_scope.

(** every key put so far is reported by Has and returned by Get with its value *)
Theorem C17_no_loss : forall bind cap mb a0 ops, newAdapter cap mb = Some a0 -> Forall (wf_op bind) ops ->
  forall k, In k (puts ops) ->
  ad_Has (arun a0 ops) k = true /\ snd (ad_Get (arun a0 ops) k) = Some (bind k).
Proof. exact no_loss. Qed.

(** an entry that is in the memory tier before a step and not after it is, after that step,
    in the persister with its value *)
Theorem C17_spill_before_drop : forall bind cap mb a0 ops o a' r, newAdapter cap mb = Some a0 ->
  Forall (wf_op bind) ops -> wf_op bind o ->
  astep (arun a0 ops) o = (a', r) ->
  forall e, In e (entries (mem (arun a0 ops))) -> ~ In (e_key e) (Keys (mem a')) ->
  db_get (e_key e) (db a') = Some (e_val e).
Proof. exact spill_before_drop. Qed.

(** Put returns true iff some entry left the memory tier in this call (and it is then in the persister) *)
Theorem C17_flag : forall bind cap mb a0 ops k v sz a' f, newAdapter cap mb = Some a0 ->
  Forall (wf_op bind) ops -> wf_op bind (APut k v sz) ->
  astep (arun a0 ops) (APut k v sz) = (a', ARPut f) ->
  (f = true <-> exists e, In e (entries (mem (arun a0 ops))) /\ ~ In (e_key e) (Keys (mem a'))
                          /\ db_get (e_key e) (db a') = Some (e_val e)).
Proof. exact put_flag. Qed.

(** non-vacuity: capacity 2 items / 100 bytes; a and b of 40 bytes, then b re-put with 90 bytes: a is
    spilled (this is the F8 history: before the fix a was dropped unreported), Put says so, Has/Get
    still serve a from the persister; then c of 150 bytes spills b and stays alone over the byte capacity *)
Definition ka : bytes := [97%N]. Definition kb : bytes := [98%N]. Definition kc : bytes := [99%N].
Definition bind_ex (k : bytes) : bytes := 118%N :: k.
Definition ex_ops : list aop :=
  [APut ka (bind_ex ka) 40; APut kb (bind_ex kb) 40; APut kb (bind_ex kb) 90; AGet ka; APut kc (bind_ex kc) 150].

Example C17_nonvacuous :
  Forall (wf_op bind_ex) ex_ops /\
  match newAdapter 2 100 with
  | Some a0 =>
      snd (astep (arun a0 (firstn 2 ex_ops)) (APut kb (bind_ex kb) 90)) = ARPut true /\
      Keys (mem (arun a0 ex_ops)) = [kc] /\
      map fst (db (arun a0 ex_ops)) = [kb; ka] /\
      ad_Has (arun a0 ex_ops) ka = true /\ snd (ad_Get (arun a0 ex_ops) ka) = Some (bind_ex ka)
  | None => False
  end.
Proof.
  split.
  - repeat constructor; unfold bind_ex; try discriminate; try reflexivity.
  - vm_compute. repeat split; reflexivity.
Qed.

Print Assumptions C17_no_loss.
Print Assumptions C17_spill_before_drop.
Print Assumptions C17_flag.
