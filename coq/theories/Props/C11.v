(** C11 -- concurrent persister operations are linearizable  (claimed PARTIAL).

    What is proved: on the interleaving model of Conc/PersistConc.v (atomic actions = the sections
    of the CURRENT code protected by mutBatch, the batch-internal critical sections and the goleveldb
    calls; explicit RW-lock; unbuffered-channel process loop; any number of goroutines, keys,
    calls; every schedule; every MaxBatchSize; every initial LevelDB content) both persisters are
    linearizable registers: writes take effect at their batch mutation, every completed read
    returns what the register held at some instant of its interval.
    What is NOT proved (hence partial): that the Go code refines this model -- the Go memory model
    and real preemption are not modelled; "each critical section is one atomic action" is licensed
    by data-race freedom, which the harness VALIDATES under the race detector, and the model is
    validated against the real code by forced schedules and stress histories judged by a register
    linearizability checker.  Close/Destroy and LevelDB errors are outside the model.

    Only statements here, each closed by [exact] of a lemma of Conc/PersistConc_proofs.v. *)
From Coq Require Import List NArith ZArith Bool Lia.
From Verif Require Import Base.BStr Persist.Batch Persist.MapSpec Persist.PersistSpec
  Conc.PersistConc Conc.PersistConc_proofs Conc.Linearizable Conc.Linearizable_proofs.
Import ListNotations.

(** DB: for every MaxBatchSize (also < 1), initial disk, programs and schedule: every completed
    Get/Has returned what the abstract register -- changed exactly at the batch mutation of each
    Put/Remove -- held at some instant between its invocation and its response; and the history
    is well formed (every response has its invocation, every write its linearization point inside
    its interval, namely at its first action) *)
Theorem C11_linearizable_db : forall (max : Z) (d0 : disk) (progs : list (list call)) (sched : list label),
  let s := run VDb max d0 progs sched in
  lin_reads (disk_map d0) (g_trace s) /\ wf_history (g_trace s).
Proof. intros. apply linearizable_reads. reflexivity. Qed.

(** SerialDB (putBatch holds mutBatch across the hand-over to the process loop; any parked
    request may be served next) *)
Theorem C11_linearizable_serial : forall (max : Z) (d0 : disk) (progs : list (list call)) (sched : list label),
  let s := run VSerial max d0 progs sched in
  lin_reads (disk_map d0) (g_trace s) /\ wf_history (g_trace s).
Proof. intros. apply linearizable_reads. reflexivity. Qed.

(** linearizability in the classical sense (Herlihy & Wing), the linearization order exhibited:
    the operations of the history -- every write that has reached its batch mutation, completed
    or still pending, and every completed read; pending reads dropped -- can be put in ONE sequence
    that is a permutation of them, is legal for the sequential map specification [spec_run] of
    Persist/MapSpec.v (the one C08 is stated against) and keeps the real-time order.  The order
    is: instant by instant, the write whose batch mutation happens at that instant, then the reads
    that observed the register of that instant. *)
Theorem C11_linearizable_history_db : forall (max : Z) (d0 : disk) (progs : list (list call)) (sched : list label),
  linearizable (disk_map d0) (history_ops (g_trace (run VDb max d0 progs sched))).
Proof. intros. apply run_linearizable. reflexivity. Qed.

Theorem C11_linearizable_history_serial : forall (max : Z) (d0 : disk) (progs : list (list call)) (sched : list label),
  linearizable (disk_map d0) (history_ops (g_trace (run VSerial max d0 progs sched))).
Proof. intros. apply run_linearizable. reflexivity. Qed.

(** the bridge used above, for ANY trace: reads justified inside their interval by the register
    whose writes sit at fixed instants inside theirs => linearizable *)
Theorem C11_points_imply_linearizable : forall m0 tr n,
  lin_reads m0 tr -> wf_history tr -> chron tr -> bounded tr n -> linearizable m0 (history_ops tr).
Proof. exact trace_linearizable. Qed.

(** the register defined from the history alone IS what the state presents, overlay(batch, disk),
    after every schedule prefix: no flush step (write, reset, replace) ever changes it *)
Theorem C11_register_is_overlay : forall v, v = VDb \/ v = VSerial ->
  forall max d0 progs sched k,
  let s := run v max d0 progs sched in
  reg_at (disk_map d0) (g_trace s) (g_now s) k = batch_abs (c_batch (g_core s)) (c_disk (g_core s)) k.
Proof. intros v [-> | ->] max d0 progs sched k; apply register_is_overlay; reflexivity. Qed.

(** the register at instant t is the value of the last write linearised at or before t *)
Theorem C11_register_is_last_write : forall m0 tr t k,
  reg_at m0 tr t k = value_of m0 k (last_write tr t k).
Proof. exact reg_at_last_write. Qed.

(** a read that starts after a write to the same key has returned never misses it: it returns the
    value of a write linearised at or after that write *)
Theorem C11_read_after_write : forall v, v = VDb \/ v = VSerial ->
  forall max d0 progs sched,
  let tr := g_trace (run v max d0 progs sched) in
  forall tw a w tcw rw tr2 b rd tcr r,
    In (tw, EvRet a w tcw rw) tr -> is_write w = true ->
    In (tr2, EvRet b rd tcr r) tr -> is_read rd = true -> ckey rd = ckey w ->
    (tw < tcr)%nat ->
    exists t, (tcr <= t <= tr2)%nat
      /\ r = to_ans rd (value_of (disk_map d0) (ckey rd) (last_write tr t (ckey rd)))
      /\ (tcw <= wtime (last_write tr t (ckey rd)))%nat.
Proof. intros v [-> | ->] max d0 progs sched; apply read_after_write; reflexivity. Qed.

(** monotonic reads (any two reads of a key, same goroutine or not): a read that starts after
    another has returned observes a write at least as recent *)
Theorem C11_no_going_back : forall v, v = VDb \/ v = VSerial ->
  forall max d0 progs sched,
  let tr := g_trace (run v max d0 progs sched) in
  forall t1r a rd1 tc1 r1 t2r b rd2 tc2 r2,
    In (t1r, EvRet a rd1 tc1 r1) tr -> is_read rd1 = true ->
    In (t2r, EvRet b rd2 tc2 r2) tr -> is_read rd2 = true -> ckey rd2 = ckey rd1 ->
    (t1r < tc2)%nat ->
    exists t1 t2, (tc1 <= t1 <= t1r)%nat /\ (tc2 <= t2 <= t2r)%nat
      /\ r1 = to_ans rd1 (value_of (disk_map d0) (ckey rd1) (last_write tr t1 (ckey rd1)))
      /\ r2 = to_ans rd2 (value_of (disk_map d0) (ckey rd1) (last_write tr t2 (ckey rd1)))
      /\ (wtime (last_write tr t1 (ckey rd1)) <= wtime (last_write tr t2 (ckey rd1)))%nat.
Proof. intros v [-> | ->] max d0 progs sched; apply no_going_back; reflexivity. Qed.

(** the executable twin used for the witnesses below *)
Theorem C11_checker_reflects : forall m0 tr, lin_readsb m0 tr = true <-> lin_reads m0 tr.
Proof. exact lin_readsb_iff. Qed.

(** ---- witnesses against the PRE-FIX code (kept in the model as [VSerialOld], [VDbOld]) ---- *)
Definition ka : key := [1%N].
Definition kb : key := [2%N].
Definition U (i : nat) : label := Step (User i).
Definition L (i : nat) : label := Serve (User i).

(** (a) F14, stale read.  MaxBatchSize 2.  Put(ka,10) returns; Put(kb,20) fills the batch and
    swaps in an empty one BEFORE writing; a Get(ka) that started after the first Put returned
    consults the empty batch, and the process loop serves its getAct before the putBatchAct *)
Definition stale_progs : list (list call) := [[CPut ka (Some [10%N]); CPut kb (Some [20%N])]; [CGet ka]].
Definition stale_sched : list label := [U 0; U 0; U 0; U 0; U 0; U 1; U 1; L 1; U 1; L 0; U 0].

Theorem C11_serial_swap_before_write_refuted :
  exists max d0 progs sched, ~ lin_reads (disk_map d0) (g_trace (run VSerialOld max d0 progs sched)).
Proof.
  exists 2%Z, [], stale_progs, stale_sched. rewrite <- lin_readsb_iff. vm_compute. discriminate.
Qed.

(** (c) F14, roll-back.  MaxBatchSize 1.  Two swapped-out batches are written by the process loop
    in the wrong order: both Puts have returned, every goroutine is idle, LevelDB holds the OLDER
    value for good while the register holds the newer one; a later Get returns the older value *)
Definition reorder_progs : list (list call) := [[CPut ka (Some [1%N])]; [CPut ka (Some [2%N])]; [CGet ka]].
Definition reorder_sched : list label :=
  [U 0; U 0; U 0; U 1; U 1; U 1; L 1; U 1; L 0; U 0; U 2; U 2; L 2; U 2].

Theorem C11_serial_out_of_order_batches_refuted :
  exists max d0 progs sched,
    let s := run VSerialOld max d0 progs sched in
    quiescent s = true
    /\ reg_at (disk_map d0) (g_trace s) (g_now s) ka = Some [2%N]
    /\ batch_abs (c_batch (g_core s)) (c_disk (g_core s)) ka = Some [1%N]
    /\ ~ lin_reads (disk_map d0) (g_trace s).
Proof.
  exists 1%Z, [], reorder_progs, reorder_sched. cbv zeta.
  split; [vm_compute; reflexivity|]. split; [vm_compute; reflexivity|]. split; [vm_compute; reflexivity|].
  rewrite <- lin_readsb_iff. vm_compute. discriminate.
Qed.

(** (b) F11.  LevelDB holds ka -> 7.  Put(ka,8) returns; a Get(ka) evaluates IsRemoved = false
    without the lock; Remove(ka) moves ka from cachedData to removedData; the Get finds nothing in
    cachedData and reads LevelDB: 7, a value overwritten before the Get began *)
Definition window_progs : list (list call) := [[CPut ka (Some [8%N]); CRemove ka]; [CGet ka]].
Definition window_sched : list label := [U 0; U 0; U 1; U 0; U 0; U 1; U 1].

Theorem C11_db_get_without_lock_refuted :
  exists max d0 progs sched, ~ lin_reads (disk_map d0) (g_trace (run VDbOld max d0 progs sched)).
Proof.
  exists 10%Z, [(ka, [7%N])], window_progs, window_sched. rewrite <- lin_readsb_iff. vm_compute. discriminate.
Qed.

(** ---- non-vacuity: the same programs and schedules on the CURRENT code ---- *)

(** the schedules are not blocked into triviality: all calls complete, the flushes reach LevelDB,
    reads are answered from the batch and from LevelDB, and the checker accepts *)
Example C11_nonvacuous_serial :
  let s := run VSerial 2 [] stale_progs (stale_sched ++ [U 0; U 0; U 1; U 1; U 1; L 1; U 1]) in
  quiescent s = true /\ lin_readsb (disk_map []) (g_trace s) = true
  /\ c_disk (g_core s) = [(kb, [20%N]); (ka, [10%N])]
  /\ existsb (fun e => match e with (_, EvRet (User 1) _ _ (ROk, Some [10%N])) => true | _ => false end) (g_trace s) = true.
Proof. vm_compute. repeat split; reflexivity. Qed.

Example C11_nonvacuous_serial_reorder :
  let s := run VSerial 1 [] reorder_progs
             [U 0; U 0; U 0; U 1; L 0; U 1; U 0; U 0; U 1; U 1; U 1; L 1; U 1; U 1; U 2; U 2; L 2; U 2] in
  quiescent s = true /\ lin_readsb (disk_map []) (g_trace s) = true
  /\ c_disk (g_core s) = [(ka, [2%N])]
  /\ existsb (fun e => match e with (_, EvRet (User 2) _ _ (ROk, Some [2%N])) => true | _ => false end) (g_trace s) = true.
Proof. vm_compute. repeat split; reflexivity. Qed.

(** DB: the reader that lost the unlocked race now answers from inside its interval; and a reader
    parked between its batch miss and its LevelDB read while a flush moves its key to LevelDB *)
Example C11_nonvacuous_db :
  let s := run VDb 10 [(ka, [7%N])] window_progs (window_sched ++ [U 0; U 0; U 1; U 1]) in
  quiescent s = true /\ lin_readsb (disk_map [(ka, [7%N])]) (g_trace s) = true
  /\ existsb (fun e => match e with (_, EvRet (User 1) _ _ _) => true | _ => false end) (g_trace s) = true.
Proof. vm_compute. repeat split; reflexivity. Qed.

Example C11_nonvacuous_db_flush_under_reader :
  (* U1: Get ka misses the empty batch (parked before db.Get); U0: Put ka 5 with MaxBatchSize 1
     flushes; U1 then reads LevelDB: 5 -- the register's value at the flush instant *)
  let s := run VDb 1 [] [[CPut ka (Some [5%N])]; [CGet ka]] [U 1; U 1; U 0; U 0; U 1] in
  quiescent s = true /\ lin_readsb (disk_map []) (g_trace s) = true
  /\ c_disk (g_core s) = [(ka, [5%N])]
  /\ existsb (fun e => match e with (5%nat, EvRet (User 1) _ 1%nat (ROk, Some [5%N])) => true | _ => false end) (g_trace s) = true.
Proof. vm_compute. repeat split; reflexivity. Qed.

(** the lock is really held across the hand-over: while U0's putBatchAct is parked, U1's Put is blocked *)
Example C11_nonvacuous_lock_held :
  let s := run VSerial 1 [] [[CPut ka (Some [1%N])]; [CPut ka (Some [2%N])]] [U 0; U 0; U 0; U 1; U 1; U 1] in
  c_wl (g_core s) = Some (User 0) /\ g_trace s = [(1%nat, EvLin (User 0) (CPut ka (Some [1%N]))); (1%nat, EvCall (User 0) (CPut ka (Some [1%N])))].
Proof. vm_compute. split; reflexivity. Qed.

(** the history of a run: the operations with invocation / response instants and answers *)
Example C11_nonvacuous_history :
  history_ops (g_trace (run VDb 1 [] [[CPut ka (Some [5%N])]; [CGet ka]] [U 1; U 1; U 0; U 0; U 1]))
  = [ mkO (OPut ka (Some [5%N])) 3 (Some 4%nat) (ROk, None); mkO (OGet ka) 1 (Some 5%nat) (ROk, Some [5%N]) ].
Proof. vm_compute. reflexivity. Qed.

Print Assumptions C11_linearizable_db.
Print Assumptions C11_linearizable_history_db.
Print Assumptions C11_linearizable_history_serial.
Print Assumptions C11_points_imply_linearizable.
Print Assumptions C11_linearizable_serial.
Print Assumptions C11_register_is_overlay.
Print Assumptions C11_register_is_last_write.
Print Assumptions C11_read_after_write.
Print Assumptions C11_no_going_back.
Print Assumptions C11_checker_reflects.
Print Assumptions C11_serial_swap_before_write_refuted.
Print Assumptions C11_serial_out_of_order_batches_refuted.
Print Assumptions C11_db_get_without_lock_refuted.
