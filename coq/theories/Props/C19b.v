(** C19 (sharded persister half; to be merged into Props/C19.v) -- a sharded persister routes every
    operation on a key to one and the same underlying persister, behaves as a single map, and RangeKeys
    visits the union of all shards.  Only statements. *)
From Coq Require Import List NArith ZArith Bool.
From Verif Require Import Base.BStr Persist.Batch Persist.LevelDb Persist.SerialDb Persist.MemDb Persist.MapSpec
  Persist.ShardId Persist.ShardedDb Persist.PersistSpec Persist.ShardedDb_proofs Persist.PersistSpec_proofs.
Import ListNotations.

(** every history on a well-formed sharded persister (>= 2 shards, one persister per id, every shard
    holding only keys routed to it) answers as ONE map does *)
Theorem C19_single_map : forall (s : sharded) (ops : list op),
  sh_ok s ->
  snd (p_run (PSharded s) ops) = snd (spec_run (sh_abs s) ops)
  /\ (forall k, p_abs (fst (p_run (PSharded s) ops)) k = fst (spec_run (sh_abs s) ops) k)
  /\ p_ok (fst (p_run (PSharded s) ops)).
Proof.
  intros s ops Hok. destruct (p_run_spec ops (PSharded s) Hok) as (H1 & H2 & H3 & _). auto.
Qed.

(** every operation on key k reaches the shard [compute_id n k] (which exists) and leaves every other shard
    untouched; the routing of k is the same before and after *)
Theorem C19_one_and_the_same_shard : forall (s : sharded) (k : key) (v : val),
  sh_ok s ->
  (shard_of s k < length (sh_shards s))%nat
  /\ (forall j, j <> shard_of s k -> get_shard (fst (sh_put s k v)) j = get_shard s j)
  /\ (forall j, j <> shard_of s k -> get_shard (fst (sh_remove s k)) j = get_shard s j)
  /\ sh_get s k = b_get (get_shard s (shard_of s k)) k
  /\ sh_has s k = b_has (get_shard s (shard_of s k)) k
  /\ shard_of (fst (sh_put s k v)) k = shard_of s k
  /\ shard_of (fst (sh_remove s k)) k = shard_of s k.
Proof. exact sh_single_shard. Qed.

(** RangeKeys = the union of the shards' RangeKeys, no key visited twice, and the pairs visited for a key
    are those of the key's own shard *)
Theorem C19_range_union : forall (s : sharded),
  sh_ok s ->
  NoDup (map fst (sh_range s))
  /\ (forall x, In x (sh_range s) <-> exists b, In b (sh_shards s) /\ In x (b_range b))
  /\ (forall k v, In (k, v) (sh_range s) <-> In (k, v) (b_range (get_shard s (shard_of s k)))).
Proof. exact sh_range_union. Qed.

Theorem C19_range_presents_flushed : forall (s : sharded), sh_ok s -> presents (sh_range s) (sh_flushed s).
Proof. exact sh_range_spec. Qed.

(** the constructor yields a well-formed sharded persister for every shard count >= 2 *)
Theorem C19_new_sharded_ok : forall (n : N) (mk : base),
  (2 <= n)%N -> b_ok mk -> b_dom mk = [] ->
  sh_ok (new_sharded n mk) /\ (forall a, sh_abs (new_sharded n mk) a = b_abs mk a).
Proof. exact new_sharded_ok. Qed.

(** non-vacuity: 3 shards over DB, MaxBatchSize 2; keys "a","b","d" live in three different shards *)
Example C19b_nonvacuous :
  exists p, new_pers 3 2 3 = Some p /\ p_ok p
  /\ (compute_id 3 [97] = 1 /\ compute_id 3 [98] = 2 /\ compute_id 3 [100] = 0)%N
  /\ p_range (fst (p_run p [OPut [97]%N (Some [1]%N); OPut [98]%N None; OPut [100]%N (Some [3]%N); OTick; OPut [97]%N (Some [9]%N)]))
     = [([100]%N, [3]%N); ([97]%N, [1]%N); ([98]%N, [])].
Proof.
  eexists. split; [reflexivity|]. split; [apply (new_pers_ok 3 2 3); reflexivity|]. split; vm_compute; auto.
Qed.

Print Assumptions C19_single_map.
Print Assumptions C19_one_and_the_same_shard.
Print Assumptions C19_range_union.
Print Assumptions C19_range_presents_flushed.
Print Assumptions C19_new_sharded_ok.
