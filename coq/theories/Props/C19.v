(** C19 — shard routing is total, in range and stable.
    Only statements, each closed by [exact] of a lemma proved elsewhere. *)
From Coq Require Import List NArith ZArith Lia.
From Verif Require Import Base.BStr Persist.ShardId Persist.ShardId_proofs.
Import ListNotations.
Open Scope N_scope.

(** every shard count n >= 2, every key (any length, empty included): id in [0, n) *)
Theorem C19_in_range : forall (n : N) (key : bytes), 2 <= n -> compute_id n key < n.
Proof. exact in_range. Qed.

(** the id depends only on the trailing [bytes_needed n] bytes of the key *)
Theorem C19_suffix_only : forall (n : N) (key : bytes),
  compute_id n key = compute_id n (lastn (N.to_nat (bytes_needed n)) key).
Proof. exact suffix_only. Qed.

Theorem C19_same_suffix_same_shard : forall (n : N) (p1 p2 suffix : bytes),
  (N.to_nat (bytes_needed n) <= length suffix)%nat ->
  compute_id n (p1 ++ suffix) = compute_id n (p2 ++ suffix).
Proof. exact same_suffix_same_id. Qed.

(** every id in [0, n) is produced by some key (its big-endian encoding), for all n an int32 can hold *)
Theorem C19_onto : forall (n i : N), 2 <= n -> n < 2147483648 -> i < n ->
  compute_id n (encode (N.to_nat (bytes_needed n)) i) = i.
Proof. exact onto. Qed.

(** at most four key bytes are read, so the uint32 accumulator never overflows *)
Theorem C19_no_overflow : forall n : N, 2 <= n -> n < 2147483648 -> bytes_needed n <= 4.
Proof. exact bytes_needed_le4. Qed.

(** the three derived fields are constant on each interval (2^j, 2^(j+1)]: the bridge to
    the floating-point code, whose fields are swept against these values *)
Theorem C19_steps : forall n j : N, 2 ^ j < n <= 2 ^ (j + 1) ->
  mask_high n = 2 ^ (j + 1) - 1 /\ mask_low n = 2 ^ j - 1 /\ bytes_needed n = j / 8 + 1.
Proof. exact steps_fields. Qed.

(** the constructor's domain: every int32 shard count NewShardIDProvider accepts satisfies the hypotheses of the theorems
    above (2 <= n < 2^31), and it accepts every such count *)
Theorem C19_constructor_domain : forall z : Z, (-2147483648 <= z < 2147483648)%Z ->
  (provider_accepts z = true <-> 2 <= Z.to_N z /\ Z.to_N z < 2147483648 /\ (0 <= z)%Z).
Proof. exact provider_accepts_spec. Qed.

(** non-vacuity: a concrete non-power-of-two shard count where the low mask is used *)
Example C19_nonvacuous :
  compute_id 5 [1; 2; 7] = 3 /\ compute_id 5 [0; 6] = 2 /\ compute_id 300 [9; 1; 44] = 300 - 256 /\ compute_id 2 [] = 0.
Proof. vm_compute. repeat split; reflexivity. Qed.

Print Assumptions C19_in_range.
Print Assumptions C19_suffix_only.
Print Assumptions C19_same_suffix_same_shard.
Print Assumptions C19_onto.
Print Assumptions C19_no_overflow.
Print Assumptions C19_steps.
Print Assumptions C19_constructor_domain.
