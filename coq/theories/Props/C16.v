(** C16 — a storage unit keeps its cache and its persister coherent.
    Only statements, each closed by [exact] of a lemma of Unit/StorageUnit_proofs.v.

    Every theorem is stated for ANY cacher [C] satisfying [cacher_laws] (the LRU, the
    size-bounded LRU and the FIFO sharded cache are instances to be supplied by their own
    models; [small_cache] is the instance proved here), for ALL histories [ops : list uop]
    starting from the freshly built unit, and ALL failure oracles (each operation carries the
    list of booleans that the persister calls it makes will consume; [true] = that call fails
    and has no effect).

    Vocabulary: [unit_run C s ops] is the trace (operation, output) list; [ack_map tr] the map of
    acknowledged writes computed from a trace's outputs alone (a Put / Remove counts iff it
    returned nil); [spec_get m k] / [spec_has m k] what a map answers; [found_pairs m ks] the
    pairs a map holds for the requested keys, in request order; [hd false o] the oracle bit the
    first persister call of the operation will consume. *)
From Coq Require Import List NArith ZArith Lia Bool.
From Verif Require Import Base.Generic Base.BStr Unit.StorageUnit Unit.CacherPred Unit.SmallCache Unit.StorageUnit_proofs Unit.UnitComp Unit.UnitComp_proofs.
Import ListNotations.

(** Get / Has / Put / Remove / GetBulkFromEpoch answer, at every step of every history, as the map
    of the writes acknowledged so far allows ([trace_ok], [out_ok]):
    - Put / Remove return the injected error exactly when the persister rejects them;
    - Get k returns [spec_get m k], Has k returns [spec_has m k]; the only other possible answer is
      the injected error, and only when the operation's first oracle bit is [true] (the read of the
      persister was made to fail: the unit propagates the error, it never serves a wrong value);
    - GetBulkFromEpoch returns a subsequence of the found pairs, all of them when no read can fail. *)
Theorem C16_map : forall (C : cacher_ops) (L : cacher_laws C) (ops : list uop),
  trace_ok [] (unit_run C (unit_new C) ops).
Proof. exact map_all. Qed.

(** pointwise reading: after ANY history, a Get / Has whose persister read is not made to fail
    answers exactly like the map of acknowledged writes *)
Theorem C16_get_has_after : forall (C : cacher_ops) (L : cacher_laws C) (ops : list uop) (k : bytes),
  get_now C (unit_final C (unit_new C) ops) k = spec_get (ack_map (unit_run C (unit_new C) ops)) k /\
  has_now C (unit_final C (unit_new C) ops) k = spec_has (ack_map (unit_run C (unit_new C) ops)) k.
Proof. exact get_after. Qed.

(** the persister's logical content IS the map of acknowledged writes *)
Theorem C16_persister_is_ack_map : forall (C : cacher_ops) (L : cacher_laws C) (ops : list uop),
  u_pers (unit_final C (unit_new C) ops) = ack_map (unit_run C (unit_new C) ops).
Proof. exact pers_is_ack. Qed.

(** whenever the cache holds k -> v (in its ghost map, or as the answer of its Get), the persister
    logically holds k -> v, and so does the map of acknowledged writes *)
Theorem C16_coherent : forall (C : cacher_ops) (L : cacher_laws C) (ops : list uop) (k v : bytes),
  let s := unit_final C (unit_new C) ops in
  (cl_may C L (u_cache s) k = Some v \/ snd (c_get C (u_cache s) k) = Some v) ->
  p_lookup (u_pers s) k = Some v /\ p_lookup (ack_map (unit_run C (unit_new C) ops)) k = Some v.
Proof. exact coherent_all. Qed.

Theorem C16_coherent_has : forall (C : cacher_ops) (L : cacher_laws C) (ops : list uop) (k : bytes),
  let s := unit_final C (unit_new C) ops in
  c_has C (u_cache s) k = true -> p_lookup (u_pers s) k <> None.
Proof. exact has_coherent_all. Qed.

(** a Put (or PutInEpoch) that the persister rejects, after any history [pre]: the injected error is
    returned; the persister is unchanged; the cache holds nothing for the key; and after any further
    operations [post] that do not write k, Get k answers with the value acknowledged BEFORE the
    rejected Put — in particular it returns the rejected value only if that was the acknowledged one *)
Theorem C16_rejected_put : forall (C : cacher_ops) (L : cacher_laws C)
    (pre : list uop) (k v : bytes) (ep : N) (o : oracle) (post : list uop) (in_epoch : bool),
  hd false o = true ->
  let s0 := unit_final C (unit_new C) pre in
  let r := unit_step C s0 (if in_epoch then OPutInEpoch k v ep o else OPut k v o) in
  let s1 := fst r in
  let s2 := unit_final C s1 post in
  snd r = RErr EInjected /\
  u_pers s1 = u_pers s0 /\
  snd (c_get C (u_cache s1) k) = None /\ c_has C (u_cache s1) k = false /\
  (forallb (fun op => negb (writes k op)) post = true ->
     get_now C s2 k = spec_get (ack_map (unit_run C (unit_new C) pre)) k /\
     (get_now C s2 k = GOk v -> p_lookup (ack_map (unit_run C (unit_new C) pre)) k = Some v)).
Proof. exact rejected_put. Qed.

(** Remove (or RemoveFromCurrentEpoch) after any history: the cache forgets the key in every case;
    when the persister accepts, nil is returned and the key is gone from both layers (Get / Has say
    not found); when the persister rejects, the injected error is returned, the persister is
    unchanged and Get still serves the acknowledged value (read through) *)
Theorem C16_remove_both : forall (C : cacher_ops) (L : cacher_laws C)
    (pre : list uop) (k : bytes) (o : oracle) (current_epoch : bool),
  let s0 := unit_final C (unit_new C) pre in
  let r := unit_step C s0 (if current_epoch then ORemoveFromCurrentEpoch k o else ORemove k o) in
  let s1 := fst r in
  snd (c_get C (u_cache s1) k) = None /\ c_has C (u_cache s1) k = false /\
  (hd false o = false ->
     snd r = RErr ENone /\ p_lookup (u_pers s1) k = None /\
     get_now C s1 k = GErr ENotFound /\ has_now C s1 k = ENotFound) /\
  (hd false o = true ->
     snd r = RErr EInjected /\ u_pers s1 = u_pers s0 /\
     get_now C s1 k = spec_get (ack_map (unit_run C (unit_new C) pre)) k).
Proof. exact remove_both. Qed.

(** GetBulkFromEpoch after any history returns [l] with: [l] a subsequence of the found pairs (every
    returned pair is a found pair, in request order); [l] = exactly the found pairs when none of the
    first [length ks] oracle bits is a failure; and at most [count_true o] found pairs are missing *)
Theorem C16_bulk : forall (C : cacher_ops) (L : cacher_laws C)
    (pre : list uop) (ks : list bytes) (ep : N) (o : oracle),
  exists l, snd (unit_step C (unit_final C (unit_new C) pre) (OBulk ks ep o)) = RBulk l /\
    sublist l (found_pairs (ack_map (unit_run C (unit_new C) pre)) ks) /\
    (no_fail_prefix (length ks) o -> l = found_pairs (ack_map (unit_run C (unit_new C) pre)) ks) /\
    (length (found_pairs (ack_map (unit_run C (unit_new C) pre)) ks) <= length l + count_true o)%nat.
Proof. exact bulk_all. Qed.

(** cold reads (what makes the error class of a read right after ClearCache a policy-independent
    observable): for a cacher whose Clear forgets everything ([clear_forgets], an explicit premise:
    it is not one of the laws), a Get / Has issued right after ClearCache always reaches the
    persister: it fails iff the oracle says so and otherwise answers like the map *)
Theorem C16_cold_read : forall (C : cacher_ops) (L : cacher_laws C) (ops : list uop) (k : bytes) (o : oracle),
  clear_forgets C L ->
  let s := unit_clear_cache C (unit_final C (unit_new C) ops) in
  let m := ack_map (unit_run C (unit_new C) ops) in
  snd (unit_get C s k o) = (if hd false o then GErr EInjected else spec_get m k) /\
  snd (unit_has C s k o) = (if hd false o then EInjected else spec_has m k).
Proof. exact cold_read. Qed.

(** the decision rule of factory.NewStorageUnitFromConf *)
Theorem C16_factory_guard : forall (max_batch_size : Z) (capacity : N),
  (factory_guard max_batch_size capacity = FRefusedBatchSize <-> (max_batch_size > Z.of_N capacity)%Z) /\
  (factory_guard max_batch_size capacity = FContinue <-> (max_batch_size <= Z.of_N capacity)%Z).
Proof. exact factory_guard_spec. Qed.

(** the laws are inhabited: the bounded insertion-order cache, for every capacity (0 included) *)
Theorem C16_small_cache_clear_forgets : forall cap : nat, clear_forgets (small_cache cap) (small_cache_laws cap).
Proof. exact small_cache_clear_forgets. Qed.

Theorem C16_map_small_cache : forall (cap : nat) (ops : list uop),
  trace_ok [] (unit_run (small_cache cap) (unit_new (small_cache cap)) ops).
Proof. exact (fun cap => map_all (small_cache cap) (small_cache_laws cap)). Qed.

Theorem C16_coherent_small_cache : forall (cap : nat) (ops : list uop) (k v : bytes),
  let s := unit_final (small_cache cap) (unit_new (small_cache cap)) ops in
  p_lookup (u_cache s : pstore) k = Some v -> p_lookup (u_pers s) k = Some v.
Proof.
  exact (fun cap ops k v H => proj1 (coherent_all (small_cache cap) (small_cache_laws cap) ops k v (or_introl H))).
Qed.

(** ** The guards are necessary: the unguarded readings of the property text are false of the code.
    (k = [1], v = [2]; cache of capacity 1.) *)

(** "Get answers exactly like the map" without "unless the persister read is made to fail":
    Put k v; ClearCache; Get k with a failing read returns the injected error, not v. *)
Theorem C16_map_unguarded_refuted :
  exists (C : cacher_ops) (L : cacher_laws C) (ops : list uop) (k : bytes) (o : oracle),
    snd (unit_step C (unit_final C (unit_new C) ops) (OGet k o))
    <> RGet (spec_get (ack_map (unit_run C (unit_new C) ops)) k).
Proof.
  exists (small_cache 1), (small_cache_laws 1), [OPut [1%N] [2%N] []; OClearCache], [1%N], [true].
  vm_compute. discriminate.
Qed.

(** "GetBulkFromEpoch returns precisely the found pairs" without "when no read fails":
    Put k v; ClearCache; GetBulkFromEpoch [k] with a failing read returns no pair (and a nil error:
    the read error is logged and swallowed), although k -> v is acknowledged and persisted. *)
Theorem C16_bulk_unguarded_refuted :
  exists (C : cacher_ops) (L : cacher_laws C) (ops : list uop) (k v : bytes) (o : oracle),
    snd (unit_step C (unit_final C (unit_new C) ops) (OBulk [k] 0 o)) = RBulk [] /\
    found_pairs (ack_map (unit_run C (unit_new C) ops)) [k] = [(k, v)].
Proof.
  exists (small_cache 1), (small_cache_laws 1), [OPut [1%N] [2%N] []; OClearCache], [1%N], [2%N], [true].
  vm_compute. split; reflexivity.
Qed.

(** "Remove removes the key from both layers" without "when the persister accepts the removal":
    Put k v; Remove k rejected: the cache entry is gone, the persister still holds k -> v. *)
Theorem C16_remove_unguarded_refuted :
  exists (C : cacher_ops) (L : cacher_laws C) (ops : list uop) (k v : bytes) (o : oracle),
    let s1 := fst (unit_step C (unit_final C (unit_new C) ops) (ORemove k o)) in
    snd (c_get C (u_cache s1) k) = None /\ p_lookup (u_pers s1) k = Some v.
Proof.
  exists (small_cache 1), (small_cache_laws 1), [OPut [1%N] [2%N] []], [1%N], [2%N], [true].
  vm_compute. split; reflexivity.
Qed.

(** ** Life-cycle operations: RangeKeys, DestroyUnit, Close.
    Histories are now lists of [lop]: data operations ([LData op]) arbitrarily interleaved with
    [LRangeKeys], [LDestroyUnit o] and [LClose o] ([o] = the oracle bit that the persister's Destroy /
    Close will consume; [true] = it fails, without effect).  [life_ack_map tr] is the map of acknowledged
    writes of such a trace: an acknowledged DestroyUnit withdraws every write; RangeKeys and Close write
    nothing.  A successful DestroyUnit keeps cache and persister coherent only if the cacher's Clear
    forgets everything ([clear_forgets], not one of the laws: the FIFO sharded cache's Clear skips the
    empty key), hence the premise "clear_forgets, or no DestroyUnit in the history" ([destroy_free]).
    What a persister answers after a SUCCESSFUL Close is not modelled (see Unit/StorageUnit.v). *)

(** C16_map over life-cycle histories: every output is the one the map of the writes acknowledged so
    far allows; RangeKeys hands over exactly that map; DestroyUnit / Close return the injected error
    exactly when the persister's Destroy / Close fails *)
Theorem C16_map_lifecycle : forall (C : cacher_ops) (L : cacher_laws C) (ops : list lop),
  clear_forgets C L \/ destroy_free ops ->
  life_trace_ok [] (life_run C (unit_new C) ops).
Proof. exact life_map_all. Qed.

Theorem C16_get_has_after_lifecycle : forall (C : cacher_ops) (L : cacher_laws C) (ops : list lop) (k : bytes),
  clear_forgets C L \/ destroy_free ops ->
  get_now C (life_final C (unit_new C) ops) k = spec_get (life_ack_map (life_run C (unit_new C) ops)) k /\
  has_now C (life_final C (unit_new C) ops) k = spec_has (life_ack_map (life_run C (unit_new C) ops)) k.
Proof. exact life_get_after. Qed.

(** the old statements are the special case of histories without life-cycle operations *)
Theorem C16_lifecycle_extends : forall (C : cacher_ops) (ops : list uop) (s : ustate C),
  life_run C s (map LData ops) = map (fun x => (LData (fst x), snd x)) (unit_run C s ops).
Proof. exact life_run_data. Qed.

(** RangeKeys after any history: the handler is handed exactly the pairs of the map of acknowledged
    writes (= the persister's content, everything being written through) - a list without repeated keys
    whose members are exactly the bindings of that map - and the unit is unchanged.  The cache is not
    consulted: the statement holds for every lawful cacher and whatever the cache holds *)
Theorem C16_range_keys : forall (C : cacher_ops) (L : cacher_laws C) (pre : list lop),
  clear_forgets C L \/ destroy_free pre ->
  let s0 := life_final C (unit_new C) pre in
  let m := life_ack_map (life_run C (unit_new C) pre) in
  life_step C s0 LRangeKeys = (s0, RRange m) /\
  NoDup (map fst m) /\ (forall k v, In (k, v) m <-> p_lookup m k = Some v).
Proof. exact range_keys_all. Qed.

(** DestroyUnit after any history, for a cacher whose Clear forgets everything: the cache is cleared and
    answers nothing for any key, in every case; when the persister accepts, nil is returned, the
    persister is empty and Get / Has of every key say not found; when the persister's Destroy fails, the
    injected error is returned, the persister is unchanged and Get still serves the acknowledged values *)
Theorem C16_destroy_unit : forall (C : cacher_ops) (L : cacher_laws C) (pre : list lop) (o : oracle),
  clear_forgets C L ->
  let s0 := life_final C (unit_new C) pre in
  let r := life_step C s0 (LDestroyUnit o) in
  let s1 := fst r in
  u_cache s1 = c_clear C (u_cache s0) /\ cache_silent C (u_cache s1) /\
  (hd false o = false ->
     snd r = RErr ENone /\ u_pers s1 = [] /\
     forall k, get_now C s1 k = GErr ENotFound /\ has_now C s1 k = ENotFound) /\
  (hd false o = true ->
     snd r = RErr EInjected /\ u_pers s1 = u_pers s0 /\
     forall k, get_now C s1 k = spec_get (life_ack_map (life_run C (unit_new C) pre)) k).
Proof. exact destroy_unit_all. Qed.

(** Close after any history: the cache is cleared BEFORE the persister is asked to close, hence also
    when the persister's Close fails; the stored data is untouched; the returned error is the
    persister's; for a cacher whose Clear forgets everything the cache then answers nothing; after a
    FAILED Close (the persister is still open) Get serves the acknowledged values by reading through *)
Theorem C16_close : forall (C : cacher_ops) (L : cacher_laws C) (pre : list lop) (o : oracle),
  clear_forgets C L \/ destroy_free pre ->
  let s0 := life_final C (unit_new C) pre in
  let r := life_step C s0 (LClose o) in
  let s1 := fst r in
  u_cache s1 = c_clear C (u_cache s0) /\ u_pers s1 = u_pers s0 /\
  snd r = RErr (if hd false o then EInjected else ENone) /\
  (clear_forgets C L -> cache_silent C (u_cache s1)) /\
  (hd false o = true ->
     forall k, get_now C s1 k = spec_get (life_ack_map (life_run C (unit_new C) pre)) k).
Proof. exact close_all. Qed.

(** non-vacuity (cache of capacity 2): two writes, RangeKeys sees both whatever the cache holds; a
    failing Close clears the cache and returns the error, the data is still served; a failing
    DestroyUnit likewise; a successful DestroyUnit empties both layers *)
Example C16_lifecycle_nonvacuous :
  let a := [1%N] in let b := [2%N] in
  let C := small_cache 2 in
  let ops := [LData (OPut a [10%N] []); LData (OPut b [20%N] []); LData (OPut a [11%N] []); LRangeKeys;
              LClose [true]; LData (OGet a []); LDestroyUnit [true]; LRangeKeys;
              LDestroyUnit []; LData (OGet a []); LData (OHas b []); LRangeKeys; LClose []] in
  map snd (life_run C (unit_new C) ops) =
    [RErr ENone; RErr ENone; RErr ENone; RRange [(a, [11%N]); (b, [20%N])];
     RErr EInjected; RGet (GOk [11%N]); RErr EInjected; RRange [(a, [11%N]); (b, [20%N])];
     RErr ENone; RGet (GErr ENotFound); RErr ENotFound; RRange []; RErr ENone] /\
  u_cache (life_final C (unit_new C) (firstn 5 ops)) = [] /\
  u_pers (life_final C (unit_new C) (firstn 5 ops)) = [(a, [11%N]); (b, [20%N])] /\
  life_ack_map (life_run C (unit_new C) ops) = [].
Proof. vm_compute. repeat split; reflexivity. Qed.

(** ** Non-vacuity: a concrete history with eviction, read-through refill, a rejected overwrite of a
    cached key, a rejected Remove and a bulk read (cache of capacity 1, keys a=[1] b=[2]). *)
Example C16_nonvacuous :
  let a := [1%N] in let b := [2%N] in
  let ops := [OPut a [10%N] []; OPut b [20%N] [];          (* b evicts a *)
              OGet a [];                                    (* miss, read through, refill (evicts b) *)
              OPut a [11%N] [true];                         (* rejected overwrite of the cached a *)
              OGet a [];                                    (* still the acknowledged 10 *)
              ORemove b [true];                             (* rejected removal *)
              OHas b [];
              ORemove a []; OGet a [];
              OBulk [a; b; b] 0 [];
              OClearCache; OBulk [b; a] 0 [true; false]] in
  map snd (unit_run (small_cache 1) (unit_new (small_cache 1)) ops) =
    [RErr ENone; RErr ENone; RGet (GOk [10%N]); RErr EInjected; RGet (GOk [10%N]); RErr EInjected;
     RErr ENone; RErr ENone; RGet (GErr ENotFound); RBulk [(b, [20%N]); (b, [20%N])]; RNone; RBulk []] /\
  ack_map (unit_run (small_cache 1) (unit_new (small_cache 1)) ops) = [(b, [20%N])].
Proof. vm_compute. split; reflexivity. Qed.

Example C16_factory_guard_examples :
  factory_guard 3 2 = FRefusedBatchSize /\ factory_guard 2 2 = FContinue /\ factory_guard (-1) 0 = FContinue.
Proof. vm_compute. repeat split; reflexivity. Qed.

(** The tie.  The model runs the unit over [small_cache], the implementation over the repository's own caches; the wire wrapper
    (Unit/UnitComp.v, [observe]) prints only what is claimed not to depend on the cacher.  Proved here for every data operation (for
    GetBulkFromEpoch: when no read of the bulk can fail, see C16_observables_bulk below): after ANY history, for ANY lawful cacher, the printed observables of an operation are a function of the operations
    issued so far and their failure oracles alone -- the cacher does not occur on the right-hand side ... *)
Theorem C16_observables_warm : forall (C : cacher_ops) (L : cacher_laws C) (pre : list uop) (d : uop), is_bulk d = false ->
  let s := unit_final C (unit_new C) pre in
  observe false d (snd (unit_step C s d)) (u_pers s) = spec_observe false d (oracle_ack_map pre).
Proof. intros C L pre d Hb. cbv zeta. rewrite (observe_warm C L pre d Hb), (ack_map_oracle C L). reflexivity. Qed.

(** ... also when ClearCache is called first (the wrapper's [cold] flag; then the error CLASS of a read is printed too), for a cacher
    whose Clear forgets everything ... *)
Theorem C16_observables_cold : forall (C : cacher_ops) (L : cacher_laws C) (pre : list uop) (d : uop),
  clear_forgets C L -> is_bulk d = false ->
  let s := unit_clear_cache C (unit_final C (unit_new C) pre) in
  observe true d (snd (unit_step C s d)) (u_pers s) = spec_observe true d (oracle_ack_map pre).
Proof. intros C L pre d Hcf Hb. cbv zeta. rewrite (observe_cold C L pre d Hcf Hb), (ack_map_oracle C L). reflexivity. Qed.

(** ... and for GetBulkFromEpoch when no read of the bulk can fail (the case in which its pairs are printed for a warm bulk): every found
    pair, in request order, warm or cold *)
Theorem C16_observables_bulk : forall (C : cacher_ops) (L : cacher_laws C) (pre : list uop) (ks : list bytes) (ep : N) (o : oracle),
  no_fail_prefix (length ks) o ->
  (let s := unit_final C (unit_new C) pre in
   observe false (OBulk ks ep o) (snd (unit_step C s (OBulk ks ep o))) (u_pers s) = [(8%N, g_pairs (found_pairs (oracle_ack_map pre) ks))]) /\
  (let s := unit_clear_cache C (unit_final C (unit_new C) pre) in
   observe true (OBulk ks ep o) (snd (unit_step C s (OBulk ks ep o))) (u_pers s) = [(8%N, g_pairs (found_pairs (oracle_ack_map pre) ks))]).
Proof. exact observe_bulk. Qed.

(** ... hence two lawful cachers (the model's and the implementation's) print the same: a disagreement on these labels cannot come
    from the eviction policy of the cache *)
Theorem C16_observables_do_not_depend_on_the_cacher :
  forall (C1 C2 : cacher_ops) (L1 : cacher_laws C1) (L2 : cacher_laws C2) (pre : list uop) (d : uop), is_bulk d = false ->
  (let s := unit_final C1 (unit_new C1) pre in observe false d (snd (unit_step C1 s d)) (u_pers s)) =
  (let s := unit_final C2 (unit_new C2) pre in observe false d (snd (unit_step C2 s d)) (u_pers s)) /\
  (clear_forgets C1 L1 -> clear_forgets C2 L2 ->
   (let s := unit_clear_cache C1 (unit_final C1 (unit_new C1) pre) in observe true d (snd (unit_step C1 s d)) (u_pers s)) =
   (let s := unit_clear_cache C2 (unit_final C2 (unit_new C2) pre) in observe true d (snd (unit_step C2 s d)) (u_pers s))).
Proof. exact observables_do_not_depend_on_the_cacher. Qed.

Print Assumptions C16_map.
Print Assumptions C16_get_has_after.
Print Assumptions C16_persister_is_ack_map.
Print Assumptions C16_coherent.
Print Assumptions C16_coherent_has.
Print Assumptions C16_rejected_put.
Print Assumptions C16_remove_both.
Print Assumptions C16_bulk.
Print Assumptions C16_cold_read.
Print Assumptions C16_factory_guard.
Print Assumptions C16_small_cache_clear_forgets.
Print Assumptions C16_map_small_cache.
Print Assumptions C16_coherent_small_cache.
Print Assumptions C16_map_unguarded_refuted.
Print Assumptions C16_bulk_unguarded_refuted.
Print Assumptions C16_remove_unguarded_refuted.
Print Assumptions C16_map_lifecycle.
Print Assumptions C16_get_has_after_lifecycle.
Print Assumptions C16_lifecycle_extends.
Print Assumptions C16_range_keys.
Print Assumptions C16_destroy_unit.
Print Assumptions C16_close.
Print Assumptions C16_observables_warm.
Print Assumptions C16_observables_cold.
Print Assumptions C16_observables_do_not_depend_on_the_cacher.
Print Assumptions C16_observables_bulk.
