(** C06 — pool size limits hold after every insertion.
    Statements only; proofs in Txcache/Pool_props.v. *)
From Coq Require Import List NArith ZArith Lia Bool Permutation.
From Verif Require Import Base.BStr Txcache.TxTypes Txcache.SenderList Txcache.Selection Txcache.Pool
  Txcache.SenderList_proofs Txcache.Pool_proofs Txcache.Pool_props Txcache.Judge Txcache.Judge_proofs Props.C05 Props.C04.
Import ListNotations.
Open Scope Z_scope.

(** per-sender COUNT limit: after every history (any eviction settings), every sender holds at most
    CountPerSenderThreshold transactions *)
Theorem C06_per_sender_count : forall cfg ops, hist_ok ops -> 0 <= countPerSenderThreshold cfg ->
  forall a, Z.of_nat (length (pool_for_sender (run_pool cfg ops) a)) <= countPerSenderThreshold cfg.
Proof. exact run_pool_count_ok. Qed.

(** per-sender BYTE limit, partial: an insertion leaves the sender within the byte limit whenever one drop suffices,
    i.e. unless the F4 situation arises. Stated on one insertion over any pool satisfying the invariant:
    the new list is l' or l' without its last element; it is within both limits iff that is. *)
Theorem C06_per_sender_bytes_partial : forall cfg p t, Inv p -> agrees p t -> tx_wf t ->
  alookup (byHash p) (hash t) = None ->
  exists l', Permutation l' (t :: pool_for_sender p (sender t)) /\
    let l2 := pool_for_sender (fst (add_core cfg p t)) (sender t) in
    l2 = (if over_limits cfg l' then removelast l' else l') /\
    (over_limits cfg l' = false \/ over_limits cfg (removelast l') = false -> over_limits cfg l2 = false).
Proof.
  intros cfg p t HI Hag Hwf Hn. destruct (add_core_spec cfg p t HI Hag Hwf) as (_ & H). rewrite Hn in H.
  destruct H as (_ & l' & _ & Hp & Hl). exists l'. split; [exact Hp|]. cbv zeta. rewrite Hl, beqb_refl. split; [reflexivity|].
  destruct (over_limits cfg l') eqn:E; intros [H|H]; congruence.
Qed.

(** per-sender BYTE limit for every history whose transactions all have the same size (then one drop always
    suffices): after every operation every sender is within NumBytesPerSenderThreshold *)
Theorem C06_per_sender_bytes_uniform_partial : forall cfg ops s, hist_ok ops -> 0 <= s -> 0 <= numBytesPerSenderThreshold cfg ->
  (forall t, In t (added_txs ops) -> size t = s) ->
  forall a, sum_sizes (pool_for_sender (run_pool cfg ops) a) <= numBytesPerSenderThreshold cfg.
Proof. exact run_pool_bytes_ok_uniform. Qed.

(** the unrestricted byte clause is FALSE of the code (finding F4): same witness as C04_limit_drop_refuted *)
Theorem C06_per_sender_bytes_refuted :
  exists cfg ops, hist_ok ops /\
    numBytesPerSenderThreshold cfg < sum_sizes (pool_for_sender (run_pool cfg ops) [65%N]).
Proof. exact C04_limit_drop_refuted. Qed.

(** pool-wide, eviction enabled: after AddTx t the pool exceeds CountThreshold (transactions or senders) or
    NumBytesThreshold by at most the transaction just added (sizes >= 0, thresholds >= 0, batch size >= 1) *)
Theorem C06_pool_wide : forall cfg ops t,
  hist_ok (ops ++ [PAdd t]) -> thresholds_ok cfg -> evictionEnabled cfg = true ->
  (forall x, In x (added_txs (ops ++ [PAdd t])) -> 0 <= size x) ->
  let p' := run_pool cfg (ops ++ [PAdd t]) in
  cntTx p' <= countThreshold cfg + 1 /\ cntSenders p' <= countThreshold cfg + 1 /\ numBytes p' <= numBytesThreshold cfg + size t.
Proof. exact run_pool_pool_wide. Qed.

(** ... and that excess is gone once the next insertion has run its eviction: after doEviction the pool is within
    all three thresholds (the eviction loop never gives up early: it stops only when within thresholds or when the
    pool is empty, and its fuel always suffices) *)
Theorem C06_excess_gone : forall cfg ops, hist_ok ops -> thresholds_ok cfg ->
  capacity_exceeded cfg (do_eviction cfg (run_pool cfg ops)) = false.
Proof. intros cfg ops H HT. apply do_eviction_post; [apply run_pool_inv; exact H|exact HT]. Qed.

(** "all threshold/batch-size configurations accepted by NewTxCache": every configuration that config.verify() accepts
    (TxTypes.verify_config, the transcription run by the model's constructor and compared with NewTxCache's verdict on
    boundary configurations) satisfies the hypotheses on the configuration made by the theorems above *)
Theorem C06_accepted_configurations : forall ev numChunks numBytes numBytesPerSender count countPerSender batch,
  verify_config numChunks numBytes numBytesPerSender count countPerSender batch = true ->
  let cfg := mkConfig ev (Z.of_N numBytes) (Z.of_N numBytesPerSender) (Z.of_N count) (Z.of_N countPerSender) (N.to_nat batch) in
  thresholds_ok cfg /\ 0 <= countPerSenderThreshold cfg /\ 0 <= numBytesPerSenderThreshold cfg /\
  4 <= countThreshold cfg /\ 4 <= numBytesThreshold cfg /\ 1 <= countPerSenderThreshold cfg /\ (1 <= numChunks <= 128)%N.
Proof.
  intros ev nc nb nbs c cs b H. unfold verify_config in H. cbv zeta. unfold thresholds_ok. cbn [numBytesThreshold countThreshold
    numItemsToPreemptivelyEvict countPerSenderThreshold numBytesPerSenderThreshold].
  repeat match type of H with _ && _ = true => apply andb_prop in H; let H2 := fresh "H" in destruct H as (H & H2) end.
  repeat match goal with X : negb (_ || _) = true |- _ => rewrite negb_orb in X; apply andb_prop in X; let X2 := fresh "X" in destruct X as (X & X2) end.
  repeat match goal with X : negb (_ <? _)%N = true |- _ => apply negb_true_iff, N.ltb_ge in X end.
  lia.
Qed.

(** the constructor's verdict on boundary values (3 / 4 items, 0 / 1 batch, 128 / 129 chunks, 32 MB / 32 MB + 1) *)
Example C06_verify_boundaries :
  verify_config 1 4 1 4 1 1 = true /\ verify_config 128 1073741824 33554432 4 1 1 = true /\
  verify_config 0 4 1 4 1 1 = false /\ verify_config 129 4 1 4 1 1 = false /\ verify_config 1 3 1 4 1 1 = false /\
  verify_config 1 1073741825 1 4 1 1 = false /\ verify_config 1 4 0 4 1 1 = false /\ verify_config 1 4 33554433 4 1 1 = false /\
  verify_config 1 4 1 3 1 1 = false /\ verify_config 1 4 1 4 0 1 = false /\ verify_config 1 4 1 4 1 0 = false.
Proof. vm_compute. repeat split. Qed.

(** eviction disabled: AddTx touches no other sender (no transaction is dropped for pool-wide reasons) *)
Theorem C06_no_eviction_when_disabled : forall cfg p t, evictionEnabled cfg = false ->
  Inv p -> agrees p t -> tx_wf t ->
  forall b, b <> sender t -> pool_for_sender (fst (add_tx cfg p t)) b = pool_for_sender p b.
Proof.
  intros cfg p t Hev HI Hag Hwf b Hb. unfold add_tx. rewrite Hev.
  destruct (add_core_spec cfg p t HI Hag Hwf) as (_ & H). destruct (alookup (byHash p) (hash t)).
  - destruct H as (-> & _). reflexivity.
  - destruct H as (_ & l' & _ & _ & Hl). rewrite Hl. destruct (beqb_spec (sender t) b); [congruence|reflexivity].
Qed.

(** The tie: the harness hands the IMPLEMENTATION's views after every AddTx to [Judge.c06_viewsb] (label 31 of the pool component).
    A verdict [true] means exactly: every per-sender list within CountPerSenderThreshold and, with eviction enabled, the three pool-wide
    counters within their thresholds plus the transaction just added. *)
Theorem C06_checker_sound : forall cfg lastSize v, c06_viewsb cfg lastSize v = true <-> c06_views cfg lastSize v.
Proof. exact c06_viewsb_iff. Qed.

(** ... and the judge accepts the model's own views after the AddTx that ends any history *)
Theorem C06_checker_accepts_model : forall cfg ops t alpha,
  hist_ok (ops ++ [PAdd t]) -> thresholds_ok cfg -> 0 <= countPerSenderThreshold cfg ->
  (forall x, In x (added_txs (ops ++ [PAdd t])) -> 0 <= size x) ->
  c06_viewsb cfg (size t) (views_of alpha (run_pool cfg (ops ++ [PAdd t]))) = true.
Proof. exact run_pool_views_c06_accepted. Qed.

Example C06_nonvacuous :
  thresholds_ok C05.ex_cfg /\ capacity_exceeded C05.ex_cfg (run_pool C05.ex_cfg C05.ex_ops) = true /\
  cntTx (do_eviction C05.ex_cfg (run_pool C05.ex_cfg C05.ex_ops)) = 4.
Proof. split; [unfold thresholds_ok; simpl; lia|vm_compute; split; reflexivity]. Qed.

Print Assumptions C06_per_sender_count.
Print Assumptions C06_per_sender_bytes_partial.
Print Assumptions C06_per_sender_bytes_uniform_partial.
Print Assumptions C06_per_sender_bytes_refuted.
Print Assumptions C06_pool_wide.
Print Assumptions C06_excess_gone.
Print Assumptions C06_no_eviction_when_disabled.
Print Assumptions C06_accepted_configurations.
Print Assumptions C06_checker_sound.
Print Assumptions C06_checker_accepts_model.
