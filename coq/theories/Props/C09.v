(** C09 -- Close makes acknowledged writes durable; reopening yields the exact final state.
    Only statements.  [p_durable] = the persister has a path (DB, SerialDB, sharded over them).
    Modelling assumption: goleveldb applies a batch atomically and a cleanly closed database
    reopens with the same content (the disk is an association list that outlives the object). *)
From Coq Require Import List NArith ZArith Bool Permutation Sorted.
From Verif Require Import Base.BStr Persist.Batch Persist.LevelDb Persist.SerialDb Persist.MemDb Persist.MapSpec
  Persist.ShardId Persist.ShardedDb Persist.PersistSpec Persist.LevelDb_proofs Persist.SerialDb_proofs Persist.PersistSpec_proofs
  Persist.PersistC09_proofs.
Import ListNotations.

(** Close returns nil, and the persister opened afterwards on the same path presents -- via Get, Has
    and RangeKeys -- exactly the map of the state before Close *)
Theorem C09_close_reopen : forall (p : pers),
  p_ok p -> p_durable p ->
  let p' := fst (p_cycle p) in
  snd (p_cycle p) = ROk
  /\ presents (p_range p') (p_abs p)
  /\ (forall k, canon_get (p_get p' k) = m_get (p_abs p) k)
  /\ (forall k, p_has p' k = m_has (p_abs p) k).
Proof. exact p_cycle_presents. Qed.

(** the reopened persister is again well-formed and open, with the same abstraction, everything flushed *)
Theorem C09_close_reopen_state : forall (p : pers),
  p_ok p -> p_durable p ->
  snd (p_cycle p) = ROk /\ p_ok (fst (p_cycle p)) /\ p_durable (fst (p_cycle p))
  /\ (forall k, p_abs (fst (p_cycle p)) k = p_abs p k)
  /\ (forall k, p_flushed (fst (p_cycle p)) k = p_abs p k).
Proof. exact p_cycle_spec. Qed.

(** every history split by Close;Reopen at arbitrary points, any number of cycles: the answers are those
    of the map on which a cycle has no effect (nothing lost, nothing resurrected) *)
Theorem C09_histories_with_cycles : forall (ops : list op2) (p : pers),
  p_ok p -> p_durable p ->
  p_ok (fst (p_run2 p ops)) /\ p_durable (fst (p_run2 p ops))
  /\ snd (p_run2 p ops) = snd (spec_run2 (p_abs p) ops)
  /\ (forall k, p_abs (fst (p_run2 p ops)) k = fst (spec_run2 (p_abs p) ops) k).
Proof. exact p_run2_spec. Qed.

(** ... and a Close + reopen after any such history presents exactly the specified map *)
Theorem C09_close_reopen_after_any_history : forall (p : pers) (ops : list op2),
  p_ok p -> p_durable p ->
  let q := fst (p_run2 p ops) in
  let q' := fst (p_cycle q) in
  let m := fst (spec_run2 (p_abs p) ops) in
  snd (p_cycle q) = ROk /\ presents (p_range q') m
  /\ (forall k, canon_get (p_get q' k) = m_get m k) /\ (forall k, p_has q' k = m_has m k).
Proof. exact p_run2_then_cycle. Qed.

(** RangeKeys on an open persister: every flushed binding exactly once with its flushed value *)
Theorem C09_range : forall (p : pers), p_ok p -> presents (p_range p) (p_flushed p).
Proof. exact p_range_spec. Qed.

Theorem C09_range_reachable : forall (p : pers) (ops : list op2),
  p_ok p -> p_durable p ->
  presents (p_range (fst (p_run2 p ops))) (p_flushed (fst (p_run2 p ops))).
Proof. exact p_range_reachable. Qed.

(** right after the timers fired everything acknowledged is flushed *)
Theorem C09_flushed_after_tick : forall (p : pers), p_ok p -> forall k, p_flushed (p_tick p) k = p_abs p k.
Proof. exact p_tick_flushed. Qed.

(** a closed DB / SerialDB: reads answer the closed error, RangeKeys visits nothing *)
Theorem C09_closed_db : forall (s : db) (k : key),
  d_open s = false -> db_get s k = (RClosed, None) /\ db_has s k = RClosed /\ db_range s = [].
Proof. exact db_closed_reads. Qed.

Theorem C09_closed_serial_db : forall (s : sdb) (k : key) (v : val),
  s_open s = false ->
  sdb_put s k v = (s, RClosed) /\ sdb_remove s k = (s, RClosed) /\ sdb_get s k = (RClosed, None)
  /\ sdb_has s k = RClosed /\ sdb_range s = [].
Proof. exact sdb_closed_ops. Qed.

(** whatever is done to a closed DB / SerialDB between Close and the next constructor call on the path,
    LevelDB is not touched: the reopened persister is the same as if nothing had been done *)
Theorem C09_closed_db_ops_do_not_reach_disk : forall (s : db) (k : key) (v : val),
  d_open s = false ->
  (d_open (fst (db_put s k v)) = false /\ db_reopen (fst (db_put s k v)) = db_reopen s)
  /\ (d_open (fst (db_remove s k)) = false /\ db_reopen (fst (db_remove s k)) = db_reopen s)
  /\ (d_open (db_tick s) = false /\ db_reopen (db_tick s) = db_reopen s)
  /\ (d_open (fst (db_close s)) = false /\ db_reopen (fst (db_close s)) = db_reopen s).
Proof. exact db_closed_ops_reopen. Qed.

Theorem C09_closed_serial_db_ops_do_nothing : forall (s : sdb) (k : key) (v : val),
  s_open s = false ->
  fst (sdb_put s k v) = s /\ fst (sdb_remove s k) = s /\ sdb_tick s = s
  /\ (s_open (fst (sdb_close s)) = false /\ sdb_reopen (fst (sdb_close s)) = sdb_reopen s).
Proof. exact sdb_closed_ops_reopen. Qed.

(** observation, outside the text of C09 (which speaks of writes acknowledged before Close): DB.Put on a
    CLOSED DB answers nil while the batch is not full, and the write is dropped *)
Theorem C09_observation_put_on_closed_db_acknowledged :
  exists s k v, d_open s = false /\ snd (db_put s k v) = ROk /\ db_reopen (fst (db_put s k v)) = db_reopen s.
Proof. exact db_put_on_closed_acknowledged. Qed.

(** ================= RangeKeys with a handler that stops the iteration =================
    The handler of the harness answers `calls so far < n`: it asks to stop after max(n,1) visits
    ([p_range_stop n p] = the pairs it was given, in call order). *)

(** (a) every visited pair is a flushed pair, no key twice, at least min(max(n,1), flushed keys) visits and never more
    than there are flushed keys; DB / SerialDB / memorydb stop for good: EXACTLY min(max(n,1), flushed keys) visits;
    the sharded persister hands the handler to every shard: at most max(n,1) + shards - 1 visits *)
Theorem C09_range_stop : forall (n : nat) (p : pers),
  p_ok p ->
  let vs := p_range_stop n p in
  (forall k v, In (k, v) vs -> p_flushed p k = Some v)
  /\ NoDup (map fst vs)
  /\ (Nat.min (Nat.max 1 n) (length (p_range p)) <= length vs)%nat
  /\ (length vs <= length (p_range p))%nat
  /\ match p with
     | PBase _ => length vs = Nat.min (Nat.max 1 n) (length (p_range p))
     | PSharded s => (length vs + 1 <= Nat.max 1 n + length (sh_shards s))%nat
     end.
Proof. exact p_range_stop_spec. Qed.

(** ... on every state reachable through histories with Close;Reopen and destroy cycles *)
Theorem C09_range_stop_reachable : forall (n : nat) (p : pers) (ops : list op3),
  p_ok p -> p_durable p ->
  let q := fst (p_run3 p ops) in
  let vs := p_range_stop n q in
  (forall k v, In (k, v) vs -> p_flushed q k = Some v)
  /\ NoDup (map fst vs)
  /\ (Nat.min (Nat.max 1 n) (length (p_range q)) <= length vs)%nat
  /\ (length vs <= length (p_range q))%nat
  /\ match q with
     | PBase _ => length vs = Nat.min (Nat.max 1 n) (length (p_range q))
     | PSharded s => (length vs + 1 <= Nat.max 1 n + length (sh_shards s))%nat
     end.
Proof. exact p_range_stop_reachable. Qed.

(** DB and SerialDB: the visits are the first max(n,1) pairs of the strictly ascending key order of what LevelDB holds *)
Theorem C09_range_stop_ascending : forall (n : nat) (b : base),
  b_ok b -> b_durable b ->
  b_range_stop n b = firstn (Nat.max 1 n) (b_iter b)
  /\ StronglySorted klt (b_iter b)
  /\ Permutation (b_iter b) (b_range b).
Proof. exact b_range_stop_ascending. Qed.

(** the sharded persister, for EVERY order in which Go may walk its map of shards: the visits are, shard after
    shard, the first [expected_run n (calls so far) (pairs the shard holds)] pairs of that shard ([runs_ok]); hence
    flushed pairs only, no key twice, and the bounds of C09_range_stop *)
Theorem C09_range_stop_any_shard_order : forall (s : sharded) (n : nat) (order : list nat),
  sh_ok s -> Permutation order (seq 0 (length (sh_shards s))) ->
  let vs := sh_range_stop_ord order n s in
  runs_ok s n 0 order vs
  /\ (forall k v, In (k, v) vs -> sh_flushed s k = Some v)
  /\ NoDup (map fst vs)
  /\ (Nat.min (Nat.max 1 n) (length (sh_range s)) <= length vs)%nat
  /\ (length vs <= length (sh_range s))%nat
  /\ (length vs + 1 <= Nat.max 1 n + length (sh_shards s))%nat.
Proof. exact sh_range_stop_ord_spec. Qed.

(** the executable model walks the shards in the order 0, 1, ... *)
Theorem C09_range_stop_model_order : forall (n : nat) (s : sharded),
  p_range_stop n (PSharded s) = sh_range_stop_ord (seq 0 (length (sh_shards s))) n s.
Proof. exact p_range_stop_sharded_is_ord. Qed.

(** FALSE of the code (finding): "a false from the handler stops the iteration" -- the sharded persister calls the
    handler again for the next shard.  Witness: two memorydb shards holding one key each, n = 1, two visits *)
Theorem C09_range_stop_sharded_stops_refuted :
  exists p n, p_ok p /\ length (p_range_stop n p) <> Nat.min (Nat.max 1 n) (length (p_range p)).
Proof. exact p_range_stop_sharded_refuted. Qed.

(** the correspondence check sends the visits the implementation's handler received to the model (the order of a Go
    map and of the shards is the implementation's choice); what the acceptor lets through is explained by the model
    under some order of the shards, and every explained sequence has the properties above *)
Theorem C09_range_stop_checker_sound : forall (n : nat) (p : pers) (vs : list (key * bytes)),
  p_ok p -> p_accept_stop n p vs = true -> stop_explained n p vs.
Proof. exact p_accept_stop_sound. Qed.

Theorem C09_range_stop_explained : forall (n : nat) (p : pers) (vs : list (key * bytes)),
  p_ok p -> stop_explained n p vs ->
  (forall k v, In (k, v) vs -> p_flushed p k = Some v)
  /\ NoDup (map fst vs)
  /\ (Nat.min (Nat.max 1 n) (length (p_range p)) <= length vs)%nat
  /\ (length vs <= length (p_range p))%nat
  /\ match p with
     | PBase _ => length vs = Nat.min (Nat.max 1 n) (length (p_range p))
     | PSharded s => (length vs + 1 <= Nat.max 1 n + length (sh_shards s))%nat
     end.
Proof. exact stop_explained_spec. Qed.

Theorem C09_range_stop_model_explained : forall (n : nat) (p : pers), p_ok p -> stop_explained n p (p_range_stop n p).
Proof. exact p_range_stop_explained. Qed.

(** ================= Destroy / DestroyClosed ================= *)

(** (b) Destroy on an open persister, then the constructor on the same path: an EMPTY persister (nothing resurrected):
    Get / Has answer not-found for every key, RangeKeys -- stopping or not -- visits nothing.  For every well-formed
    state, i.e. after all histories *)
Theorem C09_destroy_reopen_empty : forall (p : pers),
  p_ok p ->
  let q := fst (p_destroy_cycle p) in
  snd (p_destroy_cycle p) = ROk
  /\ p_ok q /\ (forall k, p_abs q k = None) /\ p_range q = []
  /\ (forall k, canon_get (p_get q k) = (RNotFound, None)) /\ (forall k, p_has q k = RNotFound)
  /\ (forall n, p_range_stop n q = []) /\ (p_durable p -> p_durable q).
Proof. exact p_destroy_reopen_empty. Qed.

(** Close; DestroyClosed; constructor: the same *)
Theorem C09_close_destroy_closed_reopen_empty : forall (p : pers),
  p_ok p ->
  let q := fst (p_close_destroy_cycle p) in
  snd (p_close_destroy_cycle p) = ROk
  /\ p_ok q /\ (forall k, p_abs q k = None) /\ p_range q = []
  /\ (forall k, canon_get (p_get q k) = (RNotFound, None)) /\ (forall k, p_has q k = RNotFound)
  /\ (forall n, p_range_stop n q = []) /\ (p_durable p -> p_durable q).
Proof. exact p_close_destroy_reopen_empty. Qed.

(** for EVERY state (no hypothesis at all) both cycles give the persister the constructor gives on an empty path *)
Theorem C09_destroy_cycles_are_fresh : forall (p : pers),
  p_destroy_cycle p = (p_fresh p, ROk) /\ p_close_destroy_cycle p = (p_fresh p, ROk).
Proof. exact destroy_cycles_are_fresh. Qed.

(** strongest form: after ANY history (Put/Remove/Get/Has/Tick, Close;Reopen cycles, earlier destroy cycles) on a
    persister the constructor gave, either destroy cycle gives back exactly the state the constructor gave *)
Theorem C09_destroy_after_any_history : forall (kind : N) (max : Z) (n : N) (p : pers) (ops : list op3),
  new_pers kind max n = Some p ->
  p_destroy_cycle (fst (p_run3 p ops)) = (p, ROk) /\ p_close_destroy_cycle (fst (p_run3 p ops)) = (p, ROk).
Proof. exact destroy_after_any_history. Qed.

(** histories with Close;Reopen AND destroy cycles at arbitrary points answer as the map that a destroy cycle empties
    and a Close;Reopen cycle leaves alone *)
Theorem C09_histories_with_destroy_cycles : forall (ops : list op3) (p : pers),
  p_ok p -> p_durable p ->
  p_ok (fst (p_run3 p ops)) /\ p_durable (fst (p_run3 p ops))
  /\ snd (p_run3 p ops) = snd (spec_run3 (p_abs p) ops)
  /\ (forall k, p_abs (fst (p_run3 p ops)) k = fst (spec_run3 (p_abs p) ops) k).
Proof. exact p_run3_spec. Qed.

(** (c) operations on the destroyed object.  leveldb.DB: reads answer ErrDBIsClosed, RangeKeys never calls the handler,
    Close / Destroy / DestroyClosed answer nil and change nothing; the first Put / Remove is ACKNOWLEDGED with nil
    iff MaxBatchSize > 1 (and dropped: the path stays empty), ErrDBIsClosed otherwise *)
Theorem C09_destroyed_db : forall (s : db) (k : key) (v : val),
  let d := fst (db_destroy s) in
  snd (db_destroy s) = ROk
  /\ db_get d k = (RClosed, None) /\ db_has d k = RClosed /\ db_range d = []
  /\ (forall St (h : St -> key * bytes -> St * bool) st, db_range_with h st d = st)
  /\ db_close d = (d, ROk) /\ db_destroy d = (d, ROk) /\ db_destroy_closed d = (d, ROk) /\ db_tick d = d
  /\ snd (db_put d k v) = (if (1 <? d_max s)%Z then ROk else RClosed)
  /\ snd (db_remove d k) = (if (1 <? d_max s)%Z then ROk else RClosed)
  /\ d_disk (fst (db_put d k v)) = [] /\ d_disk (fst (db_remove d k)) = [].
Proof. exact db_destroyed_ops. Qed.

(** leveldb.SerialDB: every operation answers ErrDBIsClosed and changes nothing *)
Theorem C09_destroyed_serial_db : forall (s : sdb) (k : key) (v : val),
  let d := fst (sdb_destroy s) in
  snd (sdb_destroy s) = ROk
  /\ sdb_put d k v = (d, RClosed) /\ sdb_remove d k = (d, RClosed)
  /\ sdb_get d k = (RClosed, None) /\ sdb_has d k = RClosed /\ sdb_range d = []
  /\ (forall St (h : St -> key * bytes -> St * bool) st, sdb_range_with h st d = st)
  /\ sdb_close d = (d, ROk) /\ sdb_destroy d = (d, ROk) /\ sdb_destroy_closed d = (d, ROk) /\ sdb_tick d = d.
Proof. exact sdb_destroyed_ops. Qed.

(** memorydb: Destroy (= DestroyClosed) leaves a working, empty persister: the destroyed object still answers *)
Theorem C09_destroyed_memdb_is_a_new_one : forall (s : mem),
  mem_destroy s = (new_mem, ROk) /\ mem_destroy_closed s = (new_mem, ROk).
Proof. exact mem_destroyed. Qed.

(** any persister with a path, destroyed either way: reads answer ErrDBIsClosed, RangeKeys visits nothing,
    Close / Destroy / DestroyClosed answer nil *)
Theorem C09_destroyed_object_answers : forall (p : pers) (k : key) (n : nat),
  p_ok p -> p_durable p ->
  forall d, d = fst (p_destroy p) \/ d = fst (p_destroy_closed (fst (p_close p))) ->
  p_get d k = (RClosed, None) /\ p_has d k = RClosed /\ p_range d = [] /\ p_range_stop n d = []
  /\ snd (p_close d) = ROk /\ snd (p_destroy d) = ROk /\ snd (p_destroy_closed d) = ROk.
Proof. exact destroyed_object_answers. Qed.

(** whatever is called on the destroyed object -- any list of Put / Remove / Get / Has / Tick / Close / Destroy /
    DestroyClosed -- nothing reaches the path: the constructor afterwards gives the empty persister *)
Theorem C09_destroyed_object_ops_then_reopen : forall (p : pers) (ops : list dop),
  p_reopen (fold_left p_dstep ops (fst (p_destroy p))) = p_fresh p
  /\ p_reopen (fold_left p_dstep ops (fst (p_destroy_closed (fst (p_close p))))) = p_fresh p.
Proof. exact destroyed_object_reopen. Qed.

(** non-vacuity: SerialDB, MaxBatchSize 3; the last partial batch holds a removal of a flushed key and a put *)
Definition ka : key := [97]%N.
Definition kb : key := [98]%N.
Definition kc : key := [99]%N.
Definition ex_ops : list op2 :=
  [O2 (OPut ka (Some [1]%N)); O2 (OPut kb (Some [2]%N)); O2 (OPut kc None); O2 (ORemove ka); O2 (OPut kb (Some [7]%N));
   OCycle; O2 (OGet ka); O2 (OGet kb); O2 (OPut ka (Some [])); OCycle; OCycle; O2 (OGet ka)].

Example C09_nonvacuous :
  exists p, new_pers 1 3 0 = Some p /\ p_ok p /\ p_durable p
  /\ snd (p_run2 p ex_ops) =
     [(ROk, None); (ROk, None); (ROk, None); (ROk, None); (ROk, None); (ROk, None);
      (RNotFound, None); (ROk, Some [7]%N); (ROk, None); (ROk, None); (ROk, None); (ROk, Some [])]
  /\ p_range (fst (p_run2 p ex_ops)) = [(ka, []); (kb, [7]%N); (kc, [])].
Proof.
  eexists. split; [reflexivity|]. split; [apply (new_pers_ok 1 3 0); reflexivity|].
  split; [apply (new_pers_ok 1 3 0); [reflexivity|auto]|]. split; vm_compute; reflexivity.
Qed.

(** non-vacuity of the early stop: DB, MaxBatchSize 1 (every write flushed at once), keys written in the order c, a, b;
    the handler asking to stop after 2 visits is given a and b (ascending), asking for 0 or 1 it is given a alone *)
Example C09_range_stop_nonvacuous :
  exists p, new_pers 0 1 0 = Some p /\ p_ok p
  /\ let q := fst (p_run p [OPut kc (Some [3]%N); OPut ka (Some [1]%N); OPut kb None]) in
     p_range q = [(kb, []); (ka, [1]%N); (kc, [3]%N)]
     /\ p_range_stop 2 q = [(ka, [1]%N); (kb, [])] /\ p_range_stop 0 q = [(ka, [1]%N)] /\ p_range_stop 9 q = [(ka, [1]%N); (kb, []); (kc, [3]%N)]
     /\ p_accept_stop 2 q [(ka, [1]%N); (kb, [])] = true /\ p_accept_stop 2 q [(kb, []); (ka, [1]%N)] = false
     /\ p_accept_stop 2 q [(ka, [1]%N)] = false.
Proof.
  eexists. split; [reflexivity|]. split; [apply (new_pers_ok 0 1 0); reflexivity|]. vm_compute. repeat split.
Qed.

(** ... and of the sharded walk: 2 shards over SerialDB (a -> shard 1, b and d -> shard 0), n = 1: the model (order 0, 1)
    is given b then a; the acceptor takes the other order as well, and refuses a walk that goes on in a shard after false *)
Example C09_range_stop_sharded_nonvacuous :
  exists p, new_pers 4 1 2 = Some p /\ p_ok p
  /\ let q := fst (p_run p [OPut ka (Some [1]%N); OPut kb (Some [2]%N); OPut [100]%N (Some [4]%N)]) in
     p_range_stop 1 q = [(kb, [2]%N); (ka, [1]%N)]
     /\ p_accept_stop 1 q [(kb, [2]%N); (ka, [1]%N)] = true /\ p_accept_stop 1 q [(ka, [1]%N); (kb, [2]%N)] = true
     /\ p_accept_stop 1 q [(kb, [2]%N); ([100]%N, [4]%N); (ka, [1]%N)] = false
     /\ p_accept_stop 1 q [(kb, [2]%N)] = false
     /\ p_accept_stop 5 q [(ka, [1]%N); (kb, [2]%N); ([100]%N, [4]%N)] = true.
Proof.
  eexists. split; [reflexivity|]. split; [apply (new_pers_ok 4 1 2); reflexivity|]. vm_compute. repeat split.
Qed.

(** ... and of the destroy cycles: a history with both cycles; after each the persister is empty, writes made afterwards are kept *)
Definition ex_ops3 : list op3 :=
  [O3 (O2 (OPut ka (Some [1]%N))); O3 (O2 (OPut kb (Some [2]%N))); O3 (O2 (OPut kc None)); ODestroyCycle; O3 (O2 (OGet ka));
   O3 (O2 (OPut kb (Some [7]%N))); O3 OCycle; O3 (O2 (OGet kb)); OCloseDestroyCycle; O3 (O2 (OGet kb)); O3 (O2 (OPut kc (Some [9]%N)))].
Example C09_destroy_nonvacuous :
  exists p, new_pers 0 2 0 = Some p /\ p_ok p /\ p_durable p
  /\ snd (p_run3 p ex_ops3) =
     [(ROk, None); (ROk, None); (ROk, None); (ROk, None); (RNotFound, None);
      (ROk, None); (ROk, None); (ROk, Some [7]%N); (ROk, None); (RNotFound, None); (ROk, None)]
  /\ fst (p_destroy_cycle (fst (p_run3 p ex_ops3))) = p.
Proof.
  eexists. split; [reflexivity|]. split; [apply (new_pers_ok 0 2 0); reflexivity|].
  split; [apply (new_pers_ok 0 2 0); [reflexivity|auto]|]. split; vm_compute; reflexivity.
Qed.

Print Assumptions C09_close_reopen.
Print Assumptions C09_close_reopen_state.
Print Assumptions C09_histories_with_cycles.
Print Assumptions C09_close_reopen_after_any_history.
Print Assumptions C09_range.
Print Assumptions C09_range_reachable.
Print Assumptions C09_flushed_after_tick.
Print Assumptions C09_closed_db.
Print Assumptions C09_closed_serial_db.
Print Assumptions C09_closed_db_ops_do_not_reach_disk.
Print Assumptions C09_closed_serial_db_ops_do_nothing.
Print Assumptions C09_observation_put_on_closed_db_acknowledged.
Print Assumptions C09_range_stop.
Print Assumptions C09_range_stop_reachable.
Print Assumptions C09_range_stop_ascending.
Print Assumptions C09_range_stop_any_shard_order.
Print Assumptions C09_range_stop_model_order.
Print Assumptions C09_range_stop_sharded_stops_refuted.
Print Assumptions C09_range_stop_checker_sound.
Print Assumptions C09_range_stop_explained.
Print Assumptions C09_range_stop_model_explained.
Print Assumptions C09_destroy_reopen_empty.
Print Assumptions C09_close_destroy_closed_reopen_empty.
Print Assumptions C09_destroy_cycles_are_fresh.
Print Assumptions C09_destroy_after_any_history.
Print Assumptions C09_histories_with_destroy_cycles.
Print Assumptions C09_destroyed_db.
Print Assumptions C09_destroyed_serial_db.
Print Assumptions C09_destroyed_memdb_is_a_new_one.
Print Assumptions C09_destroyed_object_answers.
Print Assumptions C09_destroyed_object_ops_then_reopen.
