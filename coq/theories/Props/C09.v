(** C09 -- Close makes acknowledged writes durable; reopening yields the exact final state.
    Only statements.  [p_durable] = the persister has a path (DB, SerialDB, sharded over them).
    Modelling assumption: goleveldb applies a batch atomically and a cleanly closed database
    reopens with the same content (the disk is an association list that outlives the object). *)
From Coq Require Import List NArith ZArith Bool.
From Verif Require Import Base.BStr Persist.Batch Persist.LevelDb Persist.SerialDb Persist.MemDb Persist.MapSpec
  Persist.ShardId Persist.ShardedDb Persist.PersistSpec Persist.LevelDb_proofs Persist.SerialDb_proofs Persist.PersistSpec_proofs.
Import ListNotations.

(** Close returns nil, and the persister opened afterwards on the same path presents -- via Get, Has
    and RangeKeys -- exactly the map of the state before Close *)
Theorem C09_close_reopen : forall (p : pers),
  p_ok p -> p_durable p ->
  let p' := fst (p_cycle p) in
  snd (p_cycle p) = ROk
  /\ presents (p_range p') (p_abs p)
  /\ (forall k, canon_get (p_get p' k) = m_get (p_abs p) k)
  /\ (forall k, p_has p' k = m_has (p_abs p) k).
Proof. exact p_cycle_presents. Qed.

(** the reopened persister is again well-formed and open, with the same abstraction, everything flushed *)
Theorem C09_close_reopen_state : forall (p : pers),
  p_ok p -> p_durable p ->
  snd (p_cycle p) = ROk /\ p_ok (fst (p_cycle p)) /\ p_durable (fst (p_cycle p))
  /\ (forall k, p_abs (fst (p_cycle p)) k = p_abs p k)
  /\ (forall k, p_flushed (fst (p_cycle p)) k = p_abs p k).
Proof. exact p_cycle_spec. Qed.

(** every history split by Close;Reopen at arbitrary points, any number of cycles: the answers are those
    of the map on which a cycle has no effect (nothing lost, nothing resurrected) *)
Theorem C09_histories_with_cycles : forall (ops : list op2) (p : pers),
  p_ok p -> p_durable p ->
  p_ok (fst (p_run2 p ops)) /\ p_durable (fst (p_run2 p ops))
  /\ snd (p_run2 p ops) = snd (spec_run2 (p_abs p) ops)
  /\ (forall k, p_abs (fst (p_run2 p ops)) k = fst (spec_run2 (p_abs p) ops) k).
Proof. exact p_run2_spec. Qed.

(** ... and a Close + reopen after any such history presents exactly the specified map *)
Theorem C09_close_reopen_after_any_history : forall (p : pers) (ops : list op2),
  p_ok p -> p_durable p ->
  let q := fst (p_run2 p ops) in
  let q' := fst (p_cycle q) in
  let m := fst (spec_run2 (p_abs p) ops) in
  snd (p_cycle q) = ROk /\ presents (p_range q') m
  /\ (forall k, canon_get (p_get q' k) = m_get m k) /\ (forall k, p_has q' k = m_has m k).
Proof. exact p_run2_then_cycle. Qed.

(** RangeKeys on an open persister: every flushed binding exactly once with its flushed value *)
Theorem C09_range : forall (p : pers), p_ok p -> presents (p_range p) (p_flushed p).
Proof. exact p_range_spec. Qed.

Theorem C09_range_reachable : forall (p : pers) (ops : list op2),
  p_ok p -> p_durable p ->
  presents (p_range (fst (p_run2 p ops))) (p_flushed (fst (p_run2 p ops))).
Proof. exact p_range_reachable. Qed.

(** right after the timers fired everything acknowledged is flushed *)
Theorem C09_flushed_after_tick : forall (p : pers), p_ok p -> forall k, p_flushed (p_tick p) k = p_abs p k.
Proof. exact p_tick_flushed. Qed.

(** a closed DB / SerialDB: reads answer the closed error, RangeKeys visits nothing *)
Theorem C09_closed_db : forall (s : db) (k : key),
  d_open s = false -> db_get s k = (RClosed, None) /\ db_has s k = RClosed /\ db_range s = [].
Proof. exact db_closed_reads. Qed.

Theorem C09_closed_serial_db : forall (s : sdb) (k : key) (v : val),
  s_open s = false ->
  sdb_put s k v = (s, RClosed) /\ sdb_remove s k = (s, RClosed) /\ sdb_get s k = (RClosed, None)
  /\ sdb_has s k = RClosed /\ sdb_range s = [].
Proof. exact sdb_closed_ops. Qed.

(** whatever is done to a closed DB / SerialDB between Close and the next constructor call on the path,
    LevelDB is not touched: the reopened persister is the same as if nothing had been done *)
Theorem C09_closed_db_ops_do_not_reach_disk : forall (s : db) (k : key) (v : val),
  d_open s = false ->
  (d_open (fst (db_put s k v)) = false /\ db_reopen (fst (db_put s k v)) = db_reopen s)
  /\ (d_open (fst (db_remove s k)) = false /\ db_reopen (fst (db_remove s k)) = db_reopen s)
  /\ (d_open (db_tick s) = false /\ db_reopen (db_tick s) = db_reopen s)
  /\ (d_open (fst (db_close s)) = false /\ db_reopen (fst (db_close s)) = db_reopen s).
Proof. exact db_closed_ops_reopen. Qed.

Theorem C09_closed_serial_db_ops_do_nothing : forall (s : sdb) (k : key) (v : val),
  s_open s = false ->
  fst (sdb_put s k v) = s /\ fst (sdb_remove s k) = s /\ sdb_tick s = s
  /\ (s_open (fst (sdb_close s)) = false /\ sdb_reopen (fst (sdb_close s)) = sdb_reopen s).
Proof. exact sdb_closed_ops_reopen. Qed.

(** observation, outside the text of C09 (which speaks of writes acknowledged before Close): DB.Put on a
    CLOSED DB answers nil while the batch is not full, and the write is dropped *)
Theorem C09_observation_put_on_closed_db_acknowledged :
  exists s k v, d_open s = false /\ snd (db_put s k v) = ROk /\ db_reopen (fst (db_put s k v)) = db_reopen s.
Proof. exact db_put_on_closed_acknowledged. Qed.

(** non-vacuity: SerialDB, MaxBatchSize 3; the last partial batch holds a removal of a flushed key and a put *)
Definition ka : key := [97]%N.
Definition kb : key := [98]%N.
Definition kc : key := [99]%N.
Definition ex_ops : list op2 :=
  [O2 (OPut ka (Some [1]%N)); O2 (OPut kb (Some [2]%N)); O2 (OPut kc None); O2 (ORemove ka); O2 (OPut kb (Some [7]%N));
   OCycle; O2 (OGet ka); O2 (OGet kb); O2 (OPut ka (Some [])); OCycle; OCycle; O2 (OGet ka)].

Example C09_nonvacuous :
  exists p, new_pers 1 3 0 = Some p /\ p_ok p /\ p_durable p
  /\ snd (p_run2 p ex_ops) =
     [(ROk, None); (ROk, None); (ROk, None); (ROk, None); (ROk, None); (ROk, None);
      (RNotFound, None); (ROk, Some [7]%N); (ROk, None); (ROk, None); (ROk, None); (ROk, Some [])]
  /\ p_range (fst (p_run2 p ex_ops)) = [(ka, []); (kb, [7]%N); (kc, [])].
Proof.
  eexists. split; [reflexivity|]. split; [apply (new_pers_ok 1 3 0); reflexivity|].
  split; [apply (new_pers_ok 1 3 0); [reflexivity|auto]|]. split; vm_compute; reflexivity.
Qed.

Print Assumptions C09_close_reopen.
Print Assumptions C09_close_reopen_state.
Print Assumptions C09_histories_with_cycles.
Print Assumptions C09_close_reopen_after_any_history.
Print Assumptions C09_range.
Print Assumptions C09_range_reachable.
Print Assumptions C09_flushed_after_tick.
Print Assumptions C09_closed_db.
Print Assumptions C09_closed_serial_db.
Print Assumptions C09_closed_db_ops_do_not_reach_disk.
Print Assumptions C09_closed_serial_db_ops_do_nothing.
Print Assumptions C09_observation_put_on_closed_db_acknowledged.
