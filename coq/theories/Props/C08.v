(** C08 -- persisters return the latest written value regardless of batching state.
    Only statements, each closed by [exact] of a lemma proved in Persist/*_proofs.v.

    [pers] is any of the four persisters (leveldb DB, SerialDB, memorydb, sharded over them);
    [p_ok] holds of every state the constructors produce and is kept by every operation;
    [p_abs] = overlay (removed, cached, disk) for the LevelDB persisters, the map itself for memorydb,
    the shard's abstraction at [compute_id n k] for the sharded one.
    MaxBatchSize is ANY integer (the property asks for >= 1; values <= 0 flush on every write). *)
From Coq Require Import List NArith ZArith Bool.
From Verif Require Import Base.BStr Persist.Batch Persist.LevelDb Persist.SerialDb Persist.MemDb Persist.MapSpec
  Persist.ShardId Persist.ShardedDb Persist.PersistSpec Persist.PersistSpec_proofs.
Import ListNotations.

(** every history over Put/Remove/Get/Has/Tick, from every well-formed open state: the answers are
    the answers of the map [key -> option bytes], step by step, and the abstraction follows the map *)
Theorem C08_latest_write : forall (ops : list op) (p : pers),
  p_ok p ->
  p_ok (fst (p_run p ops))
  /\ snd (p_run p ops) = snd (spec_run (p_abs p) ops)
  /\ (forall k, p_abs (fst (p_run p ops)) k = fst (spec_run (p_abs p) ops) k)
  /\ (p_durable p -> p_durable (fst (p_run p ops))).
Proof. exact p_run_spec. Qed.

(** the constructors: every kind (0 DB, 1 SerialDB, 2 memorydb, 3/4/5 sharded over them), every
    MaxBatchSize, every shard count the id provider accepts -- well-formed and empty *)
Theorem C08_constructors : forall (kind : N) (max : Z) (n : N) (p : pers),
  new_pers kind max n = Some p ->
  p_ok p /\ (forall k, p_abs p k = None) /\ ((kind = 0 \/ kind = 1 \/ kind = 3 \/ kind = 4)%N -> p_durable p).
Proof. exact new_pers_ok. Qed.

(** hence: every history on a freshly constructed persister answers as the empty map does *)
Theorem C08_latest_write_from_new : forall (kind : N) (max : Z) (n : N) (p : pers) (ops : list op),
  new_pers kind max n = Some p ->
  snd (p_run p ops) = snd (spec_run m_empty ops)
  /\ (forall k, p_abs (fst (p_run p ops)) k = fst (spec_run m_empty ops) k).
Proof. exact p_run_from_new. Qed.

(** in every well-formed state Get k returns abs k (not found iff None) and Has agrees with Get *)
Theorem C08_get_returns_abs : forall (p : pers) (k : key),
  p_ok p -> canon_get (p_get p k) = m_get (p_abs p) k.
Proof. exact p_get_spec. Qed.

Theorem C08_has_agrees_with_get : forall (p : pers) (k : key),
  p_ok p -> p_has p k = fst (p_get p k).
Proof. exact p_has_agrees_get. Qed.

(** auxiliary invariant: in every reachable state of a DB / SerialDB the pending puts and the
    pending removals are disjoint *)
Theorem C08_cached_removed_disjoint : forall (p : pers) (ops : list op),
  p_ok p ->
  match fst (p_run p ops) with
  | PBase (BDb s) => forall k, smem k (b_removed (d_batch s)) = true -> alookup k (b_cached (d_batch s)) = None
  | PBase (BSer s) => forall k, smem k (b_removed (s_batch s)) = true -> alookup k (b_cached (s_batch s)) = None
  | _ => True
  end.
Proof. exact reachable_disjoint. Qed.

(** non-vacuity: a concrete DB history with MaxBatchSize 2 -- overwrite after a flush by size, a nil value over
    a flushed value, remove-then-put inside one batch, a timer flush -- and its answers *)
Definition ka : key := [97]%N.
Definition kb : key := [98]%N.
Definition ex_ops : list op :=
  [OPut ka (Some [1]%N); OPut kb (Some [2]%N); OPut ka None; OGet ka; OHas ka; ORemove kb; OPut kb (Some []);
   OGet kb; ORemove ka; OGet ka; OTick; OGet ka; OGet kb].

Example C08_nonvacuous_db :
  exists p, new_pers 0 2 0 = Some p /\ p_ok p
  /\ snd (p_run p ex_ops) =
     [(ROk, None); (ROk, None); (ROk, None); (ROk, Some []); (ROk, None); (ROk, None); (ROk, None);
      (ROk, Some []); (ROk, None); (RNotFound, None); (ROk, None); (RNotFound, None); (ROk, Some [])]
  /\ p_range (fst (p_run p ex_ops)) = [(kb, [])].
Proof.
  eexists. split; [reflexivity|]. split; [apply (new_pers_ok 0 2 0); reflexivity|]. split; vm_compute; reflexivity.
Qed.

Example C08_nonvacuous_sharded_serial :
  exists p, new_pers 4 3 3 = Some p /\ p_ok p /\ p_durable p
  /\ snd (p_run p ex_ops) = snd (spec_run m_empty ex_ops).
Proof.
  eexists. split; [reflexivity|]. split; [apply (new_pers_ok 4 3 3); reflexivity|].
  split; [apply (new_pers_ok 4 3 3); [reflexivity|auto]|]. vm_compute. reflexivity.
Qed.

Print Assumptions C08_latest_write.
Print Assumptions C08_constructors.
Print Assumptions C08_latest_write_from_new.
Print Assumptions C08_get_returns_abs.
Print Assumptions C08_has_agrees_with_get.
Print Assumptions C08_cached_removed_disjoint.
