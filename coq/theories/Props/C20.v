(** C20 — the FIFO sharded cache is bounded and keeps entries for a guaranteed insertion count.
    Only statements; each is closed by [exact] of a lemma of Fifo/Ring_proofs.v or
    Fifo/Sharded_proofs.v.  Everything is stated over ALL histories [ops] (and [ops2]) run from
    [new_cache sz n], all configurations with [1 <= n] and [2 * n <= sz] ([valid_cfg]), and keys
    that are not the empty string ([op_nonempty]; the empty key collides with the dependency's
    empty-slot mark: finding F12, witnessed by [C20_empty_key_refuted]).

    Vocabulary: Fifo/Ring.v (one shard of the dependency), Fifo/Sharded.v (the map of shards and
    the cache wrapper, [step]/[run]), Fifo/FifoSpec.v ([valid_cfg], [inserts], [insertions],
    [insertions_in], [keeps], [fifo_next]).  ceil(S/N) is written [(sz + n - 1) / n]. *)
From Coq Require Import List NArith PeanoNat Lia Bool.
From Verif Require Import Base.BStr Fifo.Ring Fifo.Sharded Fifo.FifoSpec Fifo.Ring_proofs Fifo.Sharded_proofs.
Import ListNotations.
Local Open Scope nat_scope.

(** routing: the hash the model routes with is FNV-1 32 bit, bit for bit [BStr.fnv32] *)
Theorem C20_routing_hash : forall k : key, fnv32_mask k = fnv32 k.
Proof. exact fnv32_mask_eq. Qed.

(** the constructor's shard size is ceil(S/N), at least 2 *)
Theorem C20_shard_size : forall sz n, 1 <= n -> 2 * n <= sz ->
  shard_size sz n = (sz + n - 1) / n /\ 2 <= shard_size sz n.
Proof. exact thm_shard_size. Qed.

(** ring invariant of every shard of every reachable cache: the slot [idxAdd] is empty; a non-empty
    key is in [items] with index [i] iff [mapKeys[i]] is that key; no key twice *)
Theorem C20_ring_invariant : forall sz n ops, valid_cfg sz n -> Forall op_nonempty ops ->
  forall s, In s (shards (cm (run (new_cache sz n) ops))) ->
    maxSize s = shard_size sz n /\ length (mapKeys s) = maxSize s /\
    nth_error (mapKeys s) (idxAdd s) = Some [] /\
    NoDup (map fst (items s)) /\ NoDup (nonblank (mapKeys s)) /\
    aget [] (items s) = None /\
    forall k i, k <> [] -> (nth_error (mapKeys s) i = Some k <-> exists v, aget k (items s) = Some (v, i)).
Proof. exact thm_ring_invariant. Qed.

(** "never holds more than S entries": exactly, Len <= N * (ceil(S/N) - 1), which is <= S *)
Theorem C20_bound : forall sz n ops, valid_cfg sz n -> Forall op_nonempty ops ->
  cache_len (run (new_cache sz n) ops) <= n * ((sz + n - 1) / n - 1) /\
  n * ((sz + n - 1) / n - 1) <= sz.
Proof. exact thm_bound. Qed.

(** "always contains the entry just inserted": after Put, and after a HasOrAdd of an absent key,
    Has is true and Get returns the value just written *)
Theorem C20_just_inserted : forall sz n ops k v, valid_cfg sz n -> Forall op_nonempty ops -> k <> [] ->
  let c := run (new_cache sz n) ops in
  (cache_has k (step_cache c (OPut k v)) = true /\ cache_get k (step_cache c (OPut k v)) = Some v) /\
  (cache_has k c = false ->
   cache_has k (step_cache c (OHasOrAdd k v)) = true /\ cache_get k (step_cache c (OHasOrAdd k v)) = Some v).
Proof. exact thm_just_inserted. Qed.

(** "never drops an entry before at least ceil(S/N)-2 further insertions have happened", per shard
    (the strong form): after [o] inserted [k], whatever history [ops2] follows that does not Remove
    [k] or Clear, as long as at most [shard_size - 2] insertions went to [k]'s shard, [k] is present.
    Proved through the queue view: the entry enters at the back of a queue of length maxSize-1. *)
Theorem C20_residency : forall sz n ops1 o k v ops2, valid_cfg sz n ->
  Forall op_nonempty ops1 -> Forall op_nonempty ops2 -> k <> [] ->
  let c0 := run (new_cache sz n) ops1 in
  (o = OPut k v \/ (o = OHasOrAdd k v /\ cache_has k c0 = false)) ->
  Forall (keeps k) ops2 ->
  insertions_in (route n k) (step_cache c0 o) ops2 <= shard_size sz n - 2 ->
  cache_has k (run (step_cache c0 o) ops2) = true.
Proof. exact residency. Qed.

(** the same counting insertions in the whole cache, as the property text does *)
Theorem C20_residency_cache_wide : forall sz n ops1 o k v ops2, valid_cfg sz n ->
  Forall op_nonempty ops1 -> Forall op_nonempty ops2 -> k <> [] ->
  let c0 := run (new_cache sz n) ops1 in
  (o = OPut k v \/ (o = OHasOrAdd k v /\ cache_has k c0 = false)) ->
  Forall (keeps k) ops2 ->
  insertions (step_cache c0 o) ops2 <= (sz + n - 1) / n - 2 ->
  cache_has k (run (step_cache c0 o) ops2) = true.
Proof. exact residency_cache_wide. Qed.

(** "with one shard it evicts strictly in insertion order, an overwrite counting as a fresh
    insertion": Keys() — the exact order the ring walk returns — evolves as the FIFO list of
    [fifo_next]: a Put moves/appends its key to the back, an inserting HasOrAdd appends, the only
    entry an insertion can push out is the FRONT one, Remove/Clear take out what they name, reads
    change nothing.  For every history and every next operation. *)
Theorem C20_fifo_one_shard : forall sz ops o, 2 <= sz -> Forall op_nonempty ops -> op_nonempty o ->
  fifo_next (cache_keys (run (new_cache sz 1) ops)) o (cache_keys (run (new_cache sz 1) (ops ++ [o]))).
Proof. exact thm_fifo_one_shard. Qed.

(** "Get, Has, Peek, Keys and Len agree": the ring walk never runs out of fuel, Keys has no
    duplicates and no empty key, Len = |Keys|, Has k <-> Get k finds a value <-> k in Keys, Peek and
    Get return the same and none of the three reads changes the cache *)
Theorem C20_views : forall sz n ops, valid_cfg sz n -> Forall op_nonempty ops ->
  let c := run (new_cache sz n) ops in
  cmap_keys (cm c) = Some (cache_keys c) /\
  NoDup (cache_keys c) /\
  cache_len c = length (cache_keys c) /\
  (forall k, In k (cache_keys c) -> k <> []) /\
  (forall k, cache_has k c = true <-> cache_get k c <> None) /\
  (forall k, k <> [] -> (cache_has k c = true <-> In k (cache_keys c))) /\
  (forall k, snd (fst (step c (OPeek k))) = RGet (cache_get k c) /\
             snd (fst (step c (OGet k))) = RGet (cache_get k c) /\
             snd (fst (step c (OHas k))) = RHas (cache_has k c) /\
             step_cache c (OPeek k) = c /\ step_cache c (OGet k) = c /\ step_cache c (OHas k) = c).
Proof. exact thm_views. Qed.

(** "HasOrAdd inserts only when the key is absent": present -> (has, not added), the cache is
    unchanged and no handler is called; absent -> (not has, added), the entry is there with the value *)
Theorem C20_hasoradd : forall sz n ops k v, valid_cfg sz n -> Forall op_nonempty ops -> k <> [] ->
  let c := run (new_cache sz n) ops in
  (cache_has k c = true -> step c (OHasOrAdd k v) = (c, RHasOrAdd true false, [])) /\
  (cache_has k c = false ->
     snd (fst (step c (OHasOrAdd k v))) = RHasOrAdd false true /\
     snd (step c (OHasOrAdd k v)) = call_handlers c k v /\
     cache_has k (step_cache c (OHasOrAdd k v)) = true /\
     cache_get k (step_cache c (OHasOrAdd k v)) = Some v).
Proof. exact thm_hasoradd. Qed.

(** "added-data handlers fire exactly once per insertion": handler ids are unique; an operation
    that does not insert calls nothing; one that inserts (k, v) calls every registered handler
    exactly once, with (k, v), and nothing else *)
Theorem C20_handlers : forall sz n ops o, valid_cfg sz n -> Forall op_nonempty ops -> op_nonempty o ->
  let c := run (new_cache sz n) ops in
  NoDup (map fst (handlers c)) /\
  (inserts c o = false -> snd (step c o) = []) /\
  (inserts c o = true -> exists k v, (o = OPut k v \/ o = OHasOrAdd k v) /\
     snd (step c o) = map (fun h => (fst h, snd h, k, v)) (handlers c) /\
     forall id, filter (fun x => beqb (call_id x) id) (snd (step c o)) =
                match aget id (handlers c) with Some tag => [(id, tag, k, v)] | None => [] end).
Proof. exact thm_handlers. Qed.

(** RegisterHandler / UnRegisterHandler maintain the registry as a map from id to function *)
Theorem C20_handler_registry : forall c id tag id',
  aget id' (handlers (step_cache c (ORegister id tag))) = (if beqb id' id then Some tag else aget id' (handlers c)) /\
  aget id' (handlers (step_cache c (OUnregister id))) = (if beqb id' id then None else aget id' (handlers c)).
Proof. exact handlers_registry. Qed.

(** Clear (key-by-key removal of Keys()) empties the cache *)
Theorem C20_clear : forall sz n ops, valid_cfg sz n -> Forall op_nonempty ops ->
  let c := step_cache (run (new_cache sz n) ops) OClear in
  cache_keys c = [] /\ cache_len c = 0 /\ forall k, k <> [] -> cache_has k c = false.
Proof. exact thm_clear. Qed.

(** finding F12: the guard [k <> []] cannot be dropped — an entry put under the empty key is not
    there afterwards (the dependency uses "" as its empty-slot mark) *)
Theorem C20_empty_key_refuted : exists sz n ops v, valid_cfg sz n /\ Forall op_nonempty ops /\
  cache_has [] (step_cache (run (new_cache sz n) ops) (OPut [] v)) = false.
Proof. exists 3, 1, [], [1%N]. split; [split; lia|]. split; [constructor|]. vm_compute. reflexivity. Qed.

(** ---- non-vacuity: concrete histories on which the hypotheses hold and the bounds are tight ---- *)
(** ([ka] ... [kd] are the one-byte keys "a" ... "d" of Fifo/FifoSpec.v) *)

(** the bound is reached: 7 slots over 3 shards hold 3 * (3 - 1) = 6 entries, not 7 *)
Example C20_bound_reached :
  let ops := map (fun b => OPut [b] [1%N]) [97;98;99;100;101;102;103;104;105;106;107;108]%N in
  valid_cfg 7 3 /\ Forall op_nonempty ops /\ cache_len (run (new_cache 7 3) ops) = 6 /\ 3 * ((7 + 3 - 1) / 3 - 1) = 6.
Proof.
  cbv zeta. split; [split; lia|]. split; [repeat constructor; discriminate|].
  vm_compute. split; reflexivity.
Qed.

(** residency is tight: with S = 5, N = 1 an entry survives ceil(S/N) - 2 = 3 further insertions
    and is dropped by the 4th *)
Example C20_residency_tight :
  let c1 := step_cache (run (new_cache 5 1) []) (OPut ka [1%N]) in
  let ops3 := [OPut kb []; OHasOrAdd kc []; OGet ka; OPut kb [2%N]] in
  valid_cfg 5 1 /\ Forall op_nonempty ops3 /\ Forall (keeps ka) ops3 /\
  insertions c1 ops3 = 3 /\ (5 + 1 - 1) / 1 - 2 = 3 /\
  cache_has ka (run c1 ops3) = true /\
  cache_has ka (run c1 (ops3 ++ [OPut kd []])) = false.
Proof.
  cbv zeta. split; [split; lia|]. split; [repeat constructor; discriminate|].
  split; [repeat constructor; discriminate|]. vm_compute. repeat split; reflexivity.
Qed.

(** FIFO with an overwrite: a, b, a again, c into 2 usable slots — b (now the oldest) leaves, not a *)
Example C20_fifo_overwrite :
  cache_keys (run (new_cache 3 1) [OPut ka []; OPut kb []; OPut ka [1%N]; OPut kc []]) = [ka; kc].
Proof. vm_compute. reflexivity. Qed.

(** handlers: two registered, one re-registered with a new function; a Put calls each once *)
Example C20_handlers_example :
  let c := run (new_cache 4 2) [ORegister [1%N] 1%N; ORegister [2%N] 2%N; ORegister [1%N] 3%N] in
  snd (step c (OPut ka [7%N])) = [([1%N], 3%N, ka, [7%N]); ([2%N], 2%N, ka, [7%N])] /\
  snd (step (step_cache c (OPut ka [7%N])) (OHasOrAdd ka [8%N])) = [].
Proof. vm_compute. split; reflexivity. Qed.

Print Assumptions C20_routing_hash.
Print Assumptions C20_shard_size.
Print Assumptions C20_ring_invariant.
Print Assumptions C20_bound.
Print Assumptions C20_just_inserted.
Print Assumptions C20_residency.
Print Assumptions C20_residency_cache_wide.
Print Assumptions C20_fifo_one_shard.
Print Assumptions C20_views.
Print Assumptions C20_hasoradd.
Print Assumptions C20_handlers.
Print Assumptions C20_handler_registry.
Print Assumptions C20_clear.
Print Assumptions C20_empty_key_refuted.
