(** C16b — C16 (a storage unit keeps its cache and its persister coherent) for the REAL cachers that
    factory.NewCache can build.  Only statements, each closed by [exact] of the generic lemmas of
    Unit/StorageUnit_proofs.v applied to the law instances of Unit/CacherInstances_lru.v and
    Unit/CacherInstances_fifo.v.

    Props/C16.v states the theorems for ANY cacher satisfying [cacher_laws] and instantiates them for
    the toy [small_cache] only.  Here the laws are PROVED for the operational models of

    - the size-bounded LRU   [sized_lru_ops c0], c0 = what [newCapacityLRU size byteCapacity] returns
                             (capacity.NewCapacityLRU; accepted iff size >= 1 and byteCapacity >= 1);
    - the plain LRU          [plain_lru_ops c0], c0 = what [newLRU size] returns
                             (hashicorp lru.New behind simpleLRUCacheAdapter; accepted iff size >= 1);
    - the lruCache wrapper   [lcache_ops c0], c0 = what [init_cache sized cap mb] returns
                             ([sized = false]: lrucache.NewCache(cap), cache type LRUCache;
                              [sized = true]: lrucache.NewCacheWithSizeInBytes(cap, mb), type SizeLRUCache),
                             driven through the wrapper's own [step];
    - the FIFO sharded cache [fifo_ops sz n] = fifocache.NewShardedCache(sz, n), any [sz], [n >= 1]
                             (the constructor validates nothing; n = 0 panics in cmap.New),
                             driven through the wrapper's own [step];

    and the corollaries are quantified over ALL parameters the constructors accept, ALL histories
    [ops : list uop] (all keys — the empty key included, also for the FIFO cache — and all values) and
    ALL failure oracles.  The unit passes [len(value)] as the size of a Put: [c_put s k v] is the model's
    put with size [Z.of_nat (length v)].

    Vocabulary as in Props/C16.v ([unit_run], [unit_final], [ack_map], [trace_ok], [spec_get], ...).
    The ghost map of each instance is the model's own Peek: [Peek] / [s_Peek] / [b_Peek (be _)] /
    [cache_get]; its invariant is the model's own ([cinv] / [sinv] / [linv]), except for the FIFO cache
    where it is the shape invariant [cmap_shape] (see Unit/CacherInstances_fifo.v: the ring invariant of
    C20 does not survive a Put of the empty key, the laws do not need it). *)
From Coq Require Import List NArith ZArith Lia Bool.
From Verif Require Import Base.BStr Lru.LruTypes Lru.CapacityLru Lru.SimpleLru Lru.LruCache Lru.LruCache_proofs
  Fifo.Ring Fifo.Sharded Fifo.FifoSpec
  Unit.StorageUnit Unit.StorageUnit_proofs Unit.CacherPred Unit.CacherInstances_lru Unit.CacherInstances_fifo.
Import ListNotations.

(** * (1) the size-bounded LRU (capacityLRU) *)

(** every output of every history is what the map of acknowledged writes allows *)
Theorem C16_map_sized_lru : forall (size byteCapacity : Z) (c0 : clru),
  newCapacityLRU size byteCapacity = Some c0 ->
  forall ops : list uop,
  trace_ok [] (unit_run (sized_lru_ops c0) (unit_new (sized_lru_ops c0)) ops).
Proof. exact (fun size mb c0 H => map_all (sized_lru_ops c0) (sized_lru_laws size mb c0 H)). Qed.

(** whatever the LRU holds (Peek) or serves (Get) for k after any history is what the persister holds
    for k, and what the map of acknowledged writes holds *)
Theorem C16_coherent_sized_lru : forall (size byteCapacity : Z) (c0 : clru),
  newCapacityLRU size byteCapacity = Some c0 ->
  forall (ops : list uop) (k v : bytes),
  let C := sized_lru_ops c0 in
  let s := unit_final C (unit_new C) ops in
  (Peek (u_cache s) k = Some v \/ snd (CapacityLru.Get (u_cache s) k) = Some v) ->
  p_lookup (u_pers s) k = Some v /\ p_lookup (ack_map (unit_run C (unit_new C) ops)) k = Some v.
Proof. exact (fun size mb c0 H => coherent_all (sized_lru_ops c0) (sized_lru_laws size mb c0 H)). Qed.

Theorem C16_coherent_has_sized_lru : forall (size byteCapacity : Z) (c0 : clru),
  newCapacityLRU size byteCapacity = Some c0 ->
  forall (ops : list uop) (k : bytes),
  let C := sized_lru_ops c0 in
  let s := unit_final C (unit_new C) ops in
  Contains (u_cache s) k = true -> p_lookup (u_pers s) k <> None.
Proof. exact (fun size mb c0 H => has_coherent_all (sized_lru_ops c0) (sized_lru_laws size mb c0 H)). Qed.

(** after any history a Get / Has whose persister read is not made to fail answers like the map *)
Theorem C16_get_has_after_sized_lru : forall (size byteCapacity : Z) (c0 : clru),
  newCapacityLRU size byteCapacity = Some c0 ->
  forall (ops : list uop) (k : bytes),
  let C := sized_lru_ops c0 in
  get_now C (unit_final C (unit_new C) ops) k = spec_get (ack_map (unit_run C (unit_new C) ops)) k /\
  has_now C (unit_final C (unit_new C) ops) k = spec_has (ack_map (unit_run C (unit_new C) ops)) k.
Proof. exact (fun size mb c0 H => get_after (sized_lru_ops c0) (sized_lru_laws size mb c0 H)). Qed.

(** a Put the persister rejects (see C16_rejected_put) *)
Theorem C16_rejected_put_sized_lru : forall (size byteCapacity : Z) (c0 : clru),
  newCapacityLRU size byteCapacity = Some c0 ->
  forall (pre : list uop) (k v : bytes) (ep : N) (o : oracle) (post : list uop) (in_epoch : bool),
  hd false o = true ->
  let C := sized_lru_ops c0 in
  let s0 := unit_final C (unit_new C) pre in
  let r := unit_step C s0 (if in_epoch then OPutInEpoch k v ep o else OPut k v o) in
  let s1 := fst r in
  let s2 := unit_final C s1 post in
  snd r = RErr EInjected /\
  u_pers s1 = u_pers s0 /\
  snd (CapacityLru.Get (u_cache s1) k) = None /\ Contains (u_cache s1) k = false /\
  (forallb (fun op => negb (writes k op)) post = true ->
     get_now C s2 k = spec_get (ack_map (unit_run C (unit_new C) pre)) k /\
     (get_now C s2 k = GOk v -> p_lookup (ack_map (unit_run C (unit_new C) pre)) k = Some v)).
Proof. exact (fun size mb c0 H => rejected_put (sized_lru_ops c0) (sized_lru_laws size mb c0 H)). Qed.

(** Remove (see C16_remove_both) *)
Theorem C16_remove_both_sized_lru : forall (size byteCapacity : Z) (c0 : clru),
  newCapacityLRU size byteCapacity = Some c0 ->
  forall (pre : list uop) (k : bytes) (o : oracle) (current_epoch : bool),
  let C := sized_lru_ops c0 in
  let s0 := unit_final C (unit_new C) pre in
  let r := unit_step C s0 (if current_epoch then ORemoveFromCurrentEpoch k o else ORemove k o) in
  let s1 := fst r in
  snd (CapacityLru.Get (u_cache s1) k) = None /\ Contains (u_cache s1) k = false /\
  (hd false o = false ->
     snd r = RErr ENone /\ p_lookup (u_pers s1) k = None /\
     get_now C s1 k = GErr ENotFound /\ has_now C s1 k = ENotFound) /\
  (hd false o = true ->
     snd r = RErr EInjected /\ u_pers s1 = u_pers s0 /\
     get_now C s1 k = spec_get (ack_map (unit_run C (unit_new C) pre)) k).
Proof. exact (fun size mb c0 H => remove_both (sized_lru_ops c0) (sized_lru_laws size mb c0 H)). Qed.

(** GetBulkFromEpoch (see C16_bulk) *)
Theorem C16_bulk_sized_lru : forall (size byteCapacity : Z) (c0 : clru),
  newCapacityLRU size byteCapacity = Some c0 ->
  forall (pre : list uop) (ks : list bytes) (ep : N) (o : oracle),
  let C := sized_lru_ops c0 in
  exists l, snd (unit_step C (unit_final C (unit_new C) pre) (OBulk ks ep o)) = RBulk l /\
    sublist l (found_pairs (ack_map (unit_run C (unit_new C) pre)) ks) /\
    (no_fail_prefix (length ks) o -> l = found_pairs (ack_map (unit_run C (unit_new C) pre)) ks) /\
    (length (found_pairs (ack_map (unit_run C (unit_new C) pre)) ks) <= length l + count_true o)%nat.
Proof. exact (fun size mb c0 H => bulk_all (sized_lru_ops c0) (sized_lru_laws size mb c0 H)). Qed.

(** Purge forgets everything, so a read right after ClearCache always reaches the persister *)
Theorem C16_cold_read_sized_lru : forall (size byteCapacity : Z) (c0 : clru),
  newCapacityLRU size byteCapacity = Some c0 ->
  forall (ops : list uop) (k : bytes) (o : oracle),
  let C := sized_lru_ops c0 in
  let s := unit_clear_cache C (unit_final C (unit_new C) ops) in
  let m := ack_map (unit_run C (unit_new C) ops) in
  snd (unit_get C s k o) = (if hd false o then GErr EInjected else spec_get m k) /\
  snd (unit_has C s k o) = (if hd false o then EInjected else spec_has m k).
Proof.
  exact (fun size mb c0 H ops k o =>
    cold_read (sized_lru_ops c0) (sized_lru_laws size mb c0 H) ops k o (sized_lru_clear_forgets size mb c0 H)).
Qed.

(** * (2) the plain LRU (hashicorp simplelru behind simpleLRUCacheAdapter) *)
Theorem C16_map_lru : forall (size : Z) (c0 : slru),
  newLRU size = Some c0 ->
  forall ops : list uop,
  trace_ok [] (unit_run (plain_lru_ops c0) (unit_new (plain_lru_ops c0)) ops).
Proof. exact (fun size c0 H => map_all (plain_lru_ops c0) (plain_lru_laws size c0 H)). Qed.

Theorem C16_coherent_lru : forall (size : Z) (c0 : slru),
  newLRU size = Some c0 ->
  forall (ops : list uop) (k v : bytes),
  let C := plain_lru_ops c0 in
  let s := unit_final C (unit_new C) ops in
  (s_Peek (u_cache s) k = Some v \/ snd (s_Get (u_cache s) k) = Some v) ->
  p_lookup (u_pers s) k = Some v /\ p_lookup (ack_map (unit_run C (unit_new C) ops)) k = Some v.
Proof. exact (fun size c0 H => coherent_all (plain_lru_ops c0) (plain_lru_laws size c0 H)). Qed.

Theorem C16_coherent_has_lru : forall (size : Z) (c0 : slru),
  newLRU size = Some c0 ->
  forall (ops : list uop) (k : bytes),
  let C := plain_lru_ops c0 in
  let s := unit_final C (unit_new C) ops in
  s_Contains (u_cache s) k = true -> p_lookup (u_pers s) k <> None.
Proof. exact (fun size c0 H => has_coherent_all (plain_lru_ops c0) (plain_lru_laws size c0 H)). Qed.

Theorem C16_get_has_after_lru : forall (size : Z) (c0 : slru),
  newLRU size = Some c0 ->
  forall (ops : list uop) (k : bytes),
  let C := plain_lru_ops c0 in
  get_now C (unit_final C (unit_new C) ops) k = spec_get (ack_map (unit_run C (unit_new C) ops)) k /\
  has_now C (unit_final C (unit_new C) ops) k = spec_has (ack_map (unit_run C (unit_new C) ops)) k.
Proof. exact (fun size c0 H => get_after (plain_lru_ops c0) (plain_lru_laws size c0 H)). Qed.

Theorem C16_rejected_put_lru : forall (size : Z) (c0 : slru),
  newLRU size = Some c0 ->
  forall (pre : list uop) (k v : bytes) (ep : N) (o : oracle) (post : list uop) (in_epoch : bool),
  hd false o = true ->
  let C := plain_lru_ops c0 in
  let s0 := unit_final C (unit_new C) pre in
  let r := unit_step C s0 (if in_epoch then OPutInEpoch k v ep o else OPut k v o) in
  let s1 := fst r in
  let s2 := unit_final C s1 post in
  snd r = RErr EInjected /\
  u_pers s1 = u_pers s0 /\
  snd (s_Get (u_cache s1) k) = None /\ s_Contains (u_cache s1) k = false /\
  (forallb (fun op => negb (writes k op)) post = true ->
     get_now C s2 k = spec_get (ack_map (unit_run C (unit_new C) pre)) k /\
     (get_now C s2 k = GOk v -> p_lookup (ack_map (unit_run C (unit_new C) pre)) k = Some v)).
Proof. exact (fun size c0 H => rejected_put (plain_lru_ops c0) (plain_lru_laws size c0 H)). Qed.

Theorem C16_remove_both_lru : forall (size : Z) (c0 : slru),
  newLRU size = Some c0 ->
  forall (pre : list uop) (k : bytes) (o : oracle) (current_epoch : bool),
  let C := plain_lru_ops c0 in
  let s0 := unit_final C (unit_new C) pre in
  let r := unit_step C s0 (if current_epoch then ORemoveFromCurrentEpoch k o else ORemove k o) in
  let s1 := fst r in
  snd (s_Get (u_cache s1) k) = None /\ s_Contains (u_cache s1) k = false /\
  (hd false o = false ->
     snd r = RErr ENone /\ p_lookup (u_pers s1) k = None /\
     get_now C s1 k = GErr ENotFound /\ has_now C s1 k = ENotFound) /\
  (hd false o = true ->
     snd r = RErr EInjected /\ u_pers s1 = u_pers s0 /\
     get_now C s1 k = spec_get (ack_map (unit_run C (unit_new C) pre)) k).
Proof. exact (fun size c0 H => remove_both (plain_lru_ops c0) (plain_lru_laws size c0 H)). Qed.

Theorem C16_bulk_lru : forall (size : Z) (c0 : slru),
  newLRU size = Some c0 ->
  forall (pre : list uop) (ks : list bytes) (ep : N) (o : oracle),
  let C := plain_lru_ops c0 in
  exists l, snd (unit_step C (unit_final C (unit_new C) pre) (OBulk ks ep o)) = RBulk l /\
    sublist l (found_pairs (ack_map (unit_run C (unit_new C) pre)) ks) /\
    (no_fail_prefix (length ks) o -> l = found_pairs (ack_map (unit_run C (unit_new C) pre)) ks) /\
    (length (found_pairs (ack_map (unit_run C (unit_new C) pre)) ks) <= length l + count_true o)%nat.
Proof. exact (fun size c0 H => bulk_all (plain_lru_ops c0) (plain_lru_laws size c0 H)). Qed.

Theorem C16_cold_read_lru : forall (size : Z) (c0 : slru),
  newLRU size = Some c0 ->
  forall (ops : list uop) (k : bytes) (o : oracle),
  let C := plain_lru_ops c0 in
  let s := unit_clear_cache C (unit_final C (unit_new C) ops) in
  let m := ack_map (unit_run C (unit_new C) ops) in
  snd (unit_get C s k o) = (if hd false o then GErr EInjected else spec_get m k) /\
  snd (unit_has C s k o) = (if hd false o then EInjected else spec_has m k).
Proof.
  exact (fun size c0 H ops k o =>
    cold_read (plain_lru_ops c0) (plain_lru_laws size c0 H) ops k o (plain_lru_clear_forgets size c0 H)).
Qed.

(** * (1)+(2) through the lruCache wrapper of lrucache/lrucache.go: the object factory.NewCache returns
    for the cache types LRUCache ([sized = false]) and SizeLRUCache ([sized = true]) *)
Theorem C16_map_lru_cache : forall (sized : bool) (cap mb : Z) (c0 : lcache),
  init_cache sized cap mb = Some c0 ->
  forall ops : list uop,
  trace_ok [] (unit_run (lcache_ops c0) (unit_new (lcache_ops c0)) ops).
Proof. exact (fun sized cap mb c0 H => map_all (lcache_ops c0) (lcache_laws sized cap mb c0 H)). Qed.

Theorem C16_coherent_lru_cache : forall (sized : bool) (cap mb : Z) (c0 : lcache),
  init_cache sized cap mb = Some c0 ->
  forall (ops : list uop) (k v : bytes),
  let C := lcache_ops c0 in
  let s := unit_final C (unit_new C) ops in
  (b_Peek (be (u_cache s)) k = Some v \/ snd (b_Get (be (u_cache s)) k) = Some v) ->
  p_lookup (u_pers s) k = Some v /\ p_lookup (ack_map (unit_run C (unit_new C) ops)) k = Some v.
Proof.
  exact (fun sized cap mb c0 H ops k v Hc =>
    coherent_all (lcache_ops c0) (lcache_laws sized cap mb c0 H) ops k v
      (match Hc with
       | or_introl Hp => or_introl Hp
       | or_intror Hg =>
           or_intror (eq_trans (proj1 (proj2 (proj2 (lcache_ops_backend c0 _ k [])))) Hg)
       end)).
Qed.

Theorem C16_get_has_after_lru_cache : forall (sized : bool) (cap mb : Z) (c0 : lcache),
  init_cache sized cap mb = Some c0 ->
  forall (ops : list uop) (k : bytes),
  let C := lcache_ops c0 in
  get_now C (unit_final C (unit_new C) ops) k = spec_get (ack_map (unit_run C (unit_new C) ops)) k /\
  has_now C (unit_final C (unit_new C) ops) k = spec_has (ack_map (unit_run C (unit_new C) ops)) k.
Proof. exact (fun sized cap mb c0 H => get_after (lcache_ops c0) (lcache_laws sized cap mb c0 H)). Qed.

Theorem C16_bulk_lru_cache : forall (sized : bool) (cap mb : Z) (c0 : lcache),
  init_cache sized cap mb = Some c0 ->
  forall (pre : list uop) (ks : list bytes) (ep : N) (o : oracle),
  let C := lcache_ops c0 in
  exists l, snd (unit_step C (unit_final C (unit_new C) pre) (OBulk ks ep o)) = RBulk l /\
    sublist l (found_pairs (ack_map (unit_run C (unit_new C) pre)) ks) /\
    (no_fail_prefix (length ks) o -> l = found_pairs (ack_map (unit_run C (unit_new C) pre)) ks) /\
    (length (found_pairs (ack_map (unit_run C (unit_new C) pre)) ks) <= length l + count_true o)%nat.
Proof. exact (fun sized cap mb c0 H => bulk_all (lcache_ops c0) (lcache_laws sized cap mb c0 H)). Qed.

Theorem C16_cold_read_lru_cache : forall (sized : bool) (cap mb : Z) (c0 : lcache),
  init_cache sized cap mb = Some c0 ->
  forall (ops : list uop) (k : bytes) (o : oracle),
  let C := lcache_ops c0 in
  let s := unit_clear_cache C (unit_final C (unit_new C) ops) in
  let m := ack_map (unit_run C (unit_new C) ops) in
  snd (unit_get C s k o) = (if hd false o then GErr EInjected else spec_get m k) /\
  snd (unit_has C s k o) = (if hd false o then EInjected else spec_has m k).
Proof.
  exact (fun sized cap mb c0 H ops k o =>
    cold_read (lcache_ops c0) (lcache_laws sized cap mb c0 H) ops k o (lcache_clear_forgets sized cap mb c0 H)).
Qed.

(** the lruCache inside the unit, after any unit history, is a cache reached by a history of lruCache
    operations (Put with non-negative sizes, Get, Remove, Clear): every theorem of Props/C15.v applies *)
Theorem C16_lru_cache_reachable : forall (c0 : lcache) (ops : list uop),
  exists lops : list LruTypes.op,
    u_cache (unit_final (lcache_ops c0) (unit_new (lcache_ops c0)) ops) = LruCache.run c0 lops /\
    Forall (fun o => match o with OpPut _ _ sz => (0 <= sz)%Z | OpHasOrAdd _ _ _ => False | _ => True end) lops.
Proof. exact lcache_unit_reachable. Qed.

(** in particular the invariants of C15: keys unique, Len <= capacity, exact byte counter, byte bound,
    eviction loop terminated *)
Theorem C16_lru_cache_invariant : forall (sized : bool) (cap mb : Z) (c0 : lcache) (ops : list uop),
  init_cache sized cap mb = Some c0 ->
  let c : lcache := u_cache (unit_final (lcache_ops c0) (unit_new (lcache_ops c0)) ops) in
  NoDup (LruCache.cache_keys c) /\ (0 <= b_Len (be c) <= cap)%Z /\
  match be c with
  | BSimple s => s_size s = cap
  | BCap cc =>
      CapacityLru.maxSize cc = cap /\ maxBytes cc = mb /\ stuck cc = false /\
      curBytes cc = sum_sizes (entries cc) /\
      Forall (fun e => (0 <= e_size e)%Z) (entries cc) /\
      (curBytes cc <= mb \/ Len cc <= 1)%Z
  end.
Proof. exact lcache_unit_invariant. Qed.

(** * (3) the FIFO sharded cache — all keys, the empty key included *)
Theorem C16_map_fifo : forall (sz n : nat), (1 <= n)%nat ->
  forall ops : list uop,
  trace_ok [] (unit_run (fifo_ops sz n) (unit_new (fifo_ops sz n)) ops).
Proof. exact (fun sz n H => map_all (fifo_ops sz n) (fifo_laws sz n H)). Qed.

Theorem C16_coherent_fifo : forall (sz n : nat), (1 <= n)%nat ->
  forall (ops : list uop) (k v : bytes),
  let C := fifo_ops sz n in
  let s := unit_final C (unit_new C) ops in
  cache_get k (u_cache s) = Some v ->
  p_lookup (u_pers s) k = Some v /\ p_lookup (ack_map (unit_run C (unit_new C) ops)) k = Some v.
Proof. exact (fun sz n H ops k v Hc => coherent_all (fifo_ops sz n) (fifo_laws sz n H) ops k v (or_introl Hc)). Qed.

Theorem C16_coherent_has_fifo : forall (sz n : nat), (1 <= n)%nat ->
  forall (ops : list uop) (k : bytes),
  let C := fifo_ops sz n in
  let s := unit_final C (unit_new C) ops in
  cache_has k (u_cache s) = true -> p_lookup (u_pers s) k <> None.
Proof. exact (fun sz n H => has_coherent_all (fifo_ops sz n) (fifo_laws sz n H)). Qed.

Theorem C16_get_has_after_fifo : forall (sz n : nat), (1 <= n)%nat ->
  forall (ops : list uop) (k : bytes),
  let C := fifo_ops sz n in
  get_now C (unit_final C (unit_new C) ops) k = spec_get (ack_map (unit_run C (unit_new C) ops)) k /\
  has_now C (unit_final C (unit_new C) ops) k = spec_has (ack_map (unit_run C (unit_new C) ops)) k.
Proof. exact (fun sz n H => get_after (fifo_ops sz n) (fifo_laws sz n H)). Qed.

Theorem C16_rejected_put_fifo : forall (sz n : nat), (1 <= n)%nat ->
  forall (pre : list uop) (k v : bytes) (ep : N) (o : oracle) (post : list uop) (in_epoch : bool),
  hd false o = true ->
  let C := fifo_ops sz n in
  let s0 := unit_final C (unit_new C) pre in
  let r := unit_step C s0 (if in_epoch then OPutInEpoch k v ep o else OPut k v o) in
  let s1 := fst r in
  let s2 := unit_final C s1 post in
  snd r = RErr EInjected /\
  u_pers s1 = u_pers s0 /\
  cache_get k (u_cache s1) = None /\ cache_has k (u_cache s1) = false /\
  (forallb (fun op => negb (writes k op)) post = true ->
     get_now C s2 k = spec_get (ack_map (unit_run C (unit_new C) pre)) k /\
     (get_now C s2 k = GOk v -> p_lookup (ack_map (unit_run C (unit_new C) pre)) k = Some v)).
Proof. exact (fun sz n H => rejected_put (fifo_ops sz n) (fifo_laws sz n H)). Qed.

Theorem C16_remove_both_fifo : forall (sz n : nat), (1 <= n)%nat ->
  forall (pre : list uop) (k : bytes) (o : oracle) (current_epoch : bool),
  let C := fifo_ops sz n in
  let s0 := unit_final C (unit_new C) pre in
  let r := unit_step C s0 (if current_epoch then ORemoveFromCurrentEpoch k o else ORemove k o) in
  let s1 := fst r in
  cache_get k (u_cache s1) = None /\ cache_has k (u_cache s1) = false /\
  (hd false o = false ->
     snd r = RErr ENone /\ p_lookup (u_pers s1) k = None /\
     get_now C s1 k = GErr ENotFound /\ has_now C s1 k = ENotFound) /\
  (hd false o = true ->
     snd r = RErr EInjected /\ u_pers s1 = u_pers s0 /\
     get_now C s1 k = spec_get (ack_map (unit_run C (unit_new C) pre)) k).
Proof. exact (fun sz n H => remove_both (fifo_ops sz n) (fifo_laws sz n H)). Qed.

Theorem C16_bulk_fifo : forall (sz n : nat), (1 <= n)%nat ->
  forall (pre : list uop) (ks : list bytes) (ep : N) (o : oracle),
  let C := fifo_ops sz n in
  exists l, snd (unit_step C (unit_final C (unit_new C) pre) (OBulk ks ep o)) = RBulk l /\
    sublist l (found_pairs (ack_map (unit_run C (unit_new C) pre)) ks) /\
    (no_fail_prefix (length ks) o -> l = found_pairs (ack_map (unit_run C (unit_new C) pre)) ks) /\
    (length (found_pairs (ack_map (unit_run C (unit_new C) pre)) ks) <= length l + count_true o)%nat.
Proof. exact (fun sz n H => bulk_all (fifo_ops sz n) (fifo_laws sz n H)). Qed.

(** the FIFO cache inside the unit, after any unit history whose keys are all non-empty
    ([uop_nonempty]: every key the operation names, the keys of a bulk request included), is a cache
    REACHABLE in the sense of C20 (built by a history of cache operations with non-empty keys): every
    theorem of Props/C20.v applies to it *)
Theorem C16_fifo_cache_reachable : forall (sz n : nat) (ops : list uop), Forall uop_nonempty ops ->
  reachable sz n (u_cache (unit_final (fifo_ops sz n) (unit_new (fifo_ops sz n)) ops)).
Proof. exact fifo_unit_reachable. Qed.

(** in particular the ring invariant of C20 (valid configuration: n >= 1 shards, sz >= 2n) *)
Theorem C16_fifo_ring_invariant : forall (sz n : nat) (ops : list uop), valid_cfg sz n -> Forall uop_nonempty ops ->
  forall s, In s (shards (cm (u_cache (unit_final (fifo_ops sz n) (unit_new (fifo_ops sz n)) ops) : cache))) ->
    Ring.maxSize s = shard_size sz n /\ length (mapKeys s) = Ring.maxSize s /\
    nth_error (mapKeys s) (idxAdd s) = Some [] /\
    NoDup (map fst (items s)) /\ NoDup (nonblank (mapKeys s)) /\
    aget [] (items s) = None /\
    forall k i, k <> [] -> (nth_error (mapKeys s) i = Some k <-> exists v, aget k (items s) = Some (v, i)).
Proof. exact fifo_unit_ring_invariant. Qed.

(** cold reads of the FIFO cache, guarded (valid configuration, non-empty keys): a Get / Has right after
    ClearCache reaches the persister: it fails iff the oracle says so and otherwise answers like the map *)
Theorem C16_cold_read_fifo : forall (sz n : nat) (ops : list uop) (k : bytes) (o : oracle),
  valid_cfg sz n -> Forall uop_nonempty ops -> k <> [] ->
  let C := fifo_ops sz n in
  let s := unit_clear_cache C (unit_final C (unit_new C) ops) in
  let m := ack_map (unit_run C (unit_new C) ops) in
  snd (unit_get C s k o) = (if hd false o then GErr EInjected else spec_get m k) /\
  snd (unit_has C s k o) = (if hd false o then EInjected else spec_has m k).
Proof. exact (fun sz n ops k o Hv => fifo_cold_read sz n (proj1 Hv) ops k o Hv). Qed.

(** Clear of the FIFO cache does NOT forget the empty key (Keys() skips it), so [clear_forgets] and with
    it the conclusion of C16_cold_read are false of this cacher: Put a; Put "" (stays in the Go map,
    evicts a); ClearCache; Get "" with a failing persister read is served from the cache. *)
Theorem C16_cold_read_fifo_refuted :
  exists (sz n : nat) (ops : list uop) (k : bytes) (o : oracle), (1 <= n)%nat /\
    let C := fifo_ops sz n in
    let s := unit_clear_cache C (unit_final C (unit_new C) ops) in
    hd false o = true /\ snd (unit_get C s k o) <> GErr EInjected.
Proof.
  exists 2%nat, 1%nat, [OPut [1%N] [10%N] []; OPut [] [5%N] []], [], [true].
  split; [apply le_n|]. vm_compute. split; [reflexivity|discriminate].
Qed.

(** * (4) Life-cycle operations (RangeKeys, DestroyUnit, Close) for the real cachers.
    The lruCache wrapper's Clear (Purge) forgets everything, so the theorems of Props/C16.v hold for it
    over ALL life-cycle histories; the FIFO sharded cache's Clear skips the empty key, so for it they are
    given for histories without DestroyUnit, and the DestroyUnit statement is refuted by witness. *)
Theorem C16_map_lifecycle_lru_cache : forall (sized : bool) (cap mb : Z) (c0 : lcache),
  init_cache sized cap mb = Some c0 ->
  forall ops : list lop, life_trace_ok [] (life_run (lcache_ops c0) (unit_new (lcache_ops c0)) ops).
Proof.
  exact (fun sized cap mb c0 H ops =>
    life_map_all (lcache_ops c0) (lcache_laws sized cap mb c0 H) ops (or_introl (lcache_clear_forgets sized cap mb c0 H))).
Qed.

Theorem C16_range_keys_lru_cache : forall (sized : bool) (cap mb : Z) (c0 : lcache),
  init_cache sized cap mb = Some c0 ->
  forall pre : list lop,
  let C := lcache_ops c0 in
  let s0 := life_final C (unit_new C) pre in
  let m := life_ack_map (life_run C (unit_new C) pre) in
  life_step C s0 LRangeKeys = (s0, RRange m) /\
  NoDup (map fst m) /\ (forall k v, In (k, v) m <-> p_lookup m k = Some v).
Proof.
  exact (fun sized cap mb c0 H pre =>
    range_keys_all (lcache_ops c0) (lcache_laws sized cap mb c0 H) pre (or_introl (lcache_clear_forgets sized cap mb c0 H))).
Qed.

Theorem C16_destroy_unit_lru_cache : forall (sized : bool) (cap mb : Z) (c0 : lcache),
  init_cache sized cap mb = Some c0 ->
  forall (pre : list lop) (o : oracle),
  let C := lcache_ops c0 in
  let s0 := life_final C (unit_new C) pre in
  let r := life_step C s0 (LDestroyUnit o) in
  let s1 := fst r in
  u_cache s1 = c_clear C (u_cache s0) /\ cache_silent C (u_cache s1) /\
  (hd false o = false ->
     snd r = RErr ENone /\ u_pers s1 = [] /\
     forall k, get_now C s1 k = GErr ENotFound /\ has_now C s1 k = ENotFound) /\
  (hd false o = true ->
     snd r = RErr EInjected /\ u_pers s1 = u_pers s0 /\
     forall k, get_now C s1 k = spec_get (life_ack_map (life_run C (unit_new C) pre)) k).
Proof.
  exact (fun sized cap mb c0 H pre o =>
    destroy_unit_all (lcache_ops c0) (lcache_laws sized cap mb c0 H) pre o (lcache_clear_forgets sized cap mb c0 H)).
Qed.

Theorem C16_close_lru_cache : forall (sized : bool) (cap mb : Z) (c0 : lcache),
  init_cache sized cap mb = Some c0 ->
  forall (pre : list lop) (o : oracle),
  let C := lcache_ops c0 in
  let s0 := life_final C (unit_new C) pre in
  let r := life_step C s0 (LClose o) in
  let s1 := fst r in
  u_cache s1 = c_clear C (u_cache s0) /\ u_pers s1 = u_pers s0 /\
  snd r = RErr (if hd false o then EInjected else ENone) /\
  cache_silent C (u_cache s1) /\
  (hd false o = true ->
     forall k, get_now C s1 k = spec_get (life_ack_map (life_run C (unit_new C) pre)) k).
Proof.
  exact (fun sized cap mb c0 H pre o =>
    let Hcf := lcache_clear_forgets sized cap mb c0 H in
    let R := close_all (lcache_ops c0) (lcache_laws sized cap mb c0 H) pre o (or_introl Hcf) in
    conj (proj1 R) (conj (proj1 (proj2 R)) (conj (proj1 (proj2 (proj2 R)))
      (conj (proj1 (proj2 (proj2 (proj2 R))) Hcf) (proj2 (proj2 (proj2 (proj2 R)))))))).
Qed.

Theorem C16_map_lifecycle_fifo : forall (sz n : nat), (1 <= n)%nat ->
  forall ops : list lop, destroy_free ops ->
  life_trace_ok [] (life_run (fifo_ops sz n) (unit_new (fifo_ops sz n)) ops).
Proof. exact (fun sz n Hn ops Hd => life_map_all (fifo_ops sz n) (fifo_laws sz n Hn) ops (or_intror Hd)). Qed.

Theorem C16_range_keys_fifo : forall (sz n : nat), (1 <= n)%nat ->
  forall pre : list lop, destroy_free pre ->
  let C := fifo_ops sz n in
  let s0 := life_final C (unit_new C) pre in
  let m := life_ack_map (life_run C (unit_new C) pre) in
  life_step C s0 LRangeKeys = (s0, RRange m) /\
  NoDup (map fst m) /\ (forall k v, In (k, v) m <-> p_lookup m k = Some v).
Proof. exact (fun sz n Hn pre Hd => range_keys_all (fifo_ops sz n) (fifo_laws sz n Hn) pre (or_intror Hd)). Qed.

(** Close of a unit over the FIFO cache: the cache is cleared ([c_clear] = the cache's own Clear, which
    keeps an entry under the empty key), the persister untouched, the persister's error returned *)
Theorem C16_close_fifo : forall (sz n : nat), (1 <= n)%nat ->
  forall (pre : list lop) (o : oracle), destroy_free pre ->
  let C := fifo_ops sz n in
  let s0 := life_final C (unit_new C) pre in
  let r := life_step C s0 (LClose o) in
  let s1 := fst r in
  u_cache s1 = c_clear C (u_cache s0) /\ u_pers s1 = u_pers s0 /\
  snd r = RErr (if hd false o then EInjected else ENone) /\
  (hd false o = true ->
     forall k, get_now C s1 k = spec_get (life_ack_map (life_run C (unit_new C) pre)) k).
Proof.
  exact (fun sz n Hn pre o Hd =>
    let R := close_all (fifo_ops sz n) (fifo_laws sz n Hn) pre o (or_intror Hd) in
    conj (proj1 R) (conj (proj1 (proj2 R)) (conj (proj1 (proj2 (proj2 R))) (proj2 (proj2 (proj2 (proj2 R))))))).
Qed.

(** FINDING (same root as F12, outside C16's domain of non-empty keys): DestroyUnit of a unit over the
    FIFO cache does not empty the unit when the cache holds the empty key.  Put a; Put "" (stays in the
    Go map); DestroyUnit succeeds, the persister is empty, yet Get "" still returns the destroyed value. *)
Theorem C16_destroy_unit_fifo_refuted :
  exists (sz n : nat) (pre : list lop) (k v : bytes), (1 <= n)%nat /\
    let C := fifo_ops sz n in
    let r := life_step C (life_final C (unit_new C) pre) (LDestroyUnit []) in
    snd r = RErr ENone /\ u_pers (fst r) = [] /\ get_now C (fst r) k = GOk v.
Proof.
  exists 2%nat, 1%nat, [LData (OPut [1%N] [10%N] []); LData (OPut [] [5%N] [])], [], [5%N].
  split; [apply le_n|]. vm_compute. repeat split; reflexivity.
Qed.

(** ** Non-vacuity: the constructors accept the parameters used, and concrete histories exercise
    eviction, read-through refill, a rejected overwrite, a rejected Remove and bulk reads. *)

(** sized LRU, 3 entries / 8 bytes; a = 3 bytes, b = 2 bytes, c = 4 bytes: Put c evicts a BY BYTES
    (3 + 2 + 4 > 8), the refill of a evicts b.  The plain LRU of 2 entries evicts the same keys by count. *)
Example C16b_nonvacuous_lru :
  let a := [1%N] in let b := [2%N] in let c := [3%N] in
  let va := [10%N; 10%N; 10%N] in let vb := [20%N; 20%N] in let vc := [30%N; 30%N; 30%N; 30%N] in
  let ops := [OPut a va []; OPut b vb []; OPut c vc [];     (* c evicts a *)
              OGet a [];                                    (* miss, read through, refill (evicts b) *)
              OPut a [11%N] [true];                         (* rejected overwrite of the cached a *)
              OGet a [];                                    (* still the acknowledged value *)
              ORemove b [true];                             (* rejected removal *)
              OHas b [];
              ORemove a []; OGet a [];
              OBulk [a; b; b] 0 [];
              OClearCache; OBulk [b; a] 0 [true; false]] in
  let outs := [RErr ENone; RErr ENone; RErr ENone; RGet (GOk va); RErr EInjected; RGet (GOk va);
               RErr EInjected; RErr ENone; RErr ENone; RGet (GErr ENotFound);
               RBulk [(b, vb); (b, vb)]; RNone; RBulk []] in
  let c1 := mkClru [] 3 8 0 false in
  let c2 := mkSlru [] 2 in
  let c3 := mkLcache (BCap c1) [] in
  newCapacityLRU 3 8 = Some c1 /\ newLRU 2 = Some c2 /\ init_cache true 3 8 = Some c3 /\
  map snd (unit_run (sized_lru_ops c1) (unit_new (sized_lru_ops c1)) ops) = outs /\
  map snd (unit_run (plain_lru_ops c2) (unit_new (plain_lru_ops c2)) ops) = outs /\
  map snd (unit_run (lcache_ops c3) (unit_new (lcache_ops c3)) ops) = outs /\
  Keys (u_cache (unit_final (sized_lru_ops c1) (unit_new (sized_lru_ops c1)) (firstn 3 ops)) : clru) = [b; c] /\
  Keys (u_cache (unit_final (sized_lru_ops c1) (unit_new (sized_lru_ops c1)) (firstn 4 ops)) : clru) = [c; a] /\
  ack_map (unit_run (sized_lru_ops c1) (unit_new (sized_lru_ops c1)) ops) = [(c, vc); (b, vb)].
Proof. vm_compute. repeat split; reflexivity. Qed.

(** FIFO cache, 2 slots in 1 shard (one usable), with the empty key in the history *)
Example C16b_nonvacuous_fifo :
  let a := [1%N] in let b := [2%N] in let e : bytes := [] in
  let ops := [OPut a [10%N] []; OPut e [5%N] []; OPut b [20%N] [];   (* e evicts a, b evicts e *)
              OGet e []; OGet a [];                                  (* read through, refills *)
              OPut e [6%N] [true]; OGet e [];                        (* rejected overwrite; acknowledged value *)
              OClearCache; OGet e [true]; OHas a []] in
  map snd (unit_run (fifo_ops 2 1) (unit_new (fifo_ops 2 1)) ops) =
    [RErr ENone; RErr ENone; RErr ENone; RGet (GOk [5%N]); RGet (GOk [10%N]); RErr EInjected;
     RGet (GOk [5%N]); RNone; RGet (GErr EInjected); RErr ENone].
Proof. vm_compute. reflexivity. Qed.

Print Assumptions C16_map_sized_lru.
Print Assumptions C16_coherent_sized_lru.
Print Assumptions C16_coherent_has_sized_lru.
Print Assumptions C16_get_has_after_sized_lru.
Print Assumptions C16_rejected_put_sized_lru.
Print Assumptions C16_remove_both_sized_lru.
Print Assumptions C16_bulk_sized_lru.
Print Assumptions C16_cold_read_sized_lru.
Print Assumptions C16_map_lru.
Print Assumptions C16_coherent_lru.
Print Assumptions C16_coherent_has_lru.
Print Assumptions C16_get_has_after_lru.
Print Assumptions C16_rejected_put_lru.
Print Assumptions C16_remove_both_lru.
Print Assumptions C16_bulk_lru.
Print Assumptions C16_cold_read_lru.
Print Assumptions C16_map_lru_cache.
Print Assumptions C16_coherent_lru_cache.
Print Assumptions C16_get_has_after_lru_cache.
Print Assumptions C16_bulk_lru_cache.
Print Assumptions C16_cold_read_lru_cache.
Print Assumptions C16_map_fifo.
Print Assumptions C16_coherent_fifo.
Print Assumptions C16_coherent_has_fifo.
Print Assumptions C16_get_has_after_fifo.
Print Assumptions C16_rejected_put_fifo.
Print Assumptions C16_remove_both_fifo.
Print Assumptions C16_bulk_fifo.
Print Assumptions C16_cold_read_fifo_refuted.
Print Assumptions C16_lru_cache_reachable.
Print Assumptions C16_lru_cache_invariant.
Print Assumptions C16_fifo_cache_reachable.
Print Assumptions C16_fifo_ring_invariant.
Print Assumptions C16_cold_read_fifo.
Print Assumptions C16_map_lifecycle_lru_cache.
Print Assumptions C16_range_keys_lru_cache.
Print Assumptions C16_destroy_unit_lru_cache.
Print Assumptions C16_close_lru_cache.
Print Assumptions C16_map_lifecycle_fifo.
Print Assumptions C16_range_keys_fifo.
Print Assumptions C16_close_fifo.
Print Assumptions C16_destroy_unit_fifo_refuted.
